(* C16/Model.v — tractogram files: TCK and TRK writers and readers over byte lists, and the
   file-object position discipline of the loaders.  Definitions only.
   Counterparts in /repo/nibabel/streamlines:
     tck.py  TckFile._write_header          -> dec_str / tck_hdr_offset / tck_header
             TckFile.save                   -> tck_data / tck_save
             TckFile._read_header           -> tck_parse_header
             TckFile._read                  -> tck_bufsize / scan / tck_loop / tck_read_data
             TckFile.load                   -> tck_load ; position: tck_session
     trk.py  encode_value_in_name / decode_value_from_name -> encode_name / decode_name
             TrkFile._default_structarr + save      -> trk_template / trk_record / trk_save
             TrkFile._read_header / load (names)    -> trk_parse_header / name_slices
             TrkFile._read                          -> trk_loop
             TrkFile.load                           -> trk_load ; position: trk_session
   Floats are opaque IEEE binary32 bit patterns (Z in [0, 2^32)); bytes are Z in [0,256).
   The platform is little-endian (checked by the table generator).  The float arithmetic of
   the trackvis<->RAS+mm affine is NOT here: see ModelAffine.v (ideal arithmetic over Q). *)
From Coq Require Import String Ascii ZArith List Bool.
From NV Require Import Base.Bytes C16.Tables.
Import ListNotations.
Open Scope Z_scope.

(* ------------------------------------------------------------------ generic helpers *)
Definition bs (s : string) : list Z := map (fun c => Z.of_N (N_of_ascii c)) (list_ascii_of_string s).
(* byte-string constants (evaluated here so that the extracted code has no Coq strings) *)
Definition S_datatype_Float32LE : list Z := Eval vm_compute in bs "datatype: Float32LE".
Definition S_properties : list Z := Eval vm_compute in bs "properties".
Definition S_Float32LE : list Z := Eval vm_compute in bs "Float32LE".
Definition S_file_dot : list Z := Eval vm_compute in bs "file: . ".
Definition S_datatype : list Z := Eval vm_compute in bs "datatype".
Definition S_scalars : list Z := Eval vm_compute in bs "scalars".
Definition S_Float32 : list Z := Eval vm_compute in bs "Float32".
Definition S_count_c : list Z := Eval vm_compute in bs "count: ".
Definition S_file : list Z := Eval vm_compute in bs "file".
Definition S_LPS : list Z := Eval vm_compute in bs "LPS".
Definition S_END : list Z := Eval vm_compute in bs "END".
Definition S_dotsp : list Z := Eval vm_compute in bs ". ".
Definition S_BE : list Z := Eval vm_compute in bs "BE".
Definition S_colonsp_c : list Z := Eval vm_compute in bs ": ".

Fixpoint list_eqb (a b : list Z) : bool :=
  match a, b with
  | [], [] => true
  | x :: a', y :: b' => (x =? y) && list_eqb a' b'
  | _, _ => false
  end.

Fixpoint starts_with (p l : list Z) : bool :=
  match p, l with
  | [], _ => true
  | x :: p', y :: l' => (x =? y) && starts_with p' l'
  | _ :: _, [] => false
  end.
Definition ends_with (p l : list Z) : bool := starts_with (rev p) (rev l).

(* take/drop with a Z count, structural on the list: the count may come from file data and be
   huge, so it is never converted to nat (Lemmas.v: takez n l = take n l, dropz n l = drop n l) *)
Fixpoint takez {A} (n : Z) (l : list A) : list A :=
  match l with
  | [] => []
  | x :: r => if n <=? 0 then [] else x :: takez (n - 1) r
  end.
Fixpoint dropz {A} (n : Z) (l : list A) : list A :=
  match l with
  | [] => []
  | x :: r => if n <=? 0 then l else dropz (n - 1) r
  end.

Inductive err :=
  | EMagic | ENoEnd | EKey | EDatatype | EFile | ESeek          (* TCK header *)
  | EBuf | EShape | EDelim | EEof                               (* TCK data *)
  | EHdrSize | EVersion | EName                                  (* TRK header *)
  | EStruct | EBufSmall | ETruncated | ENegPts                   (* TRK data *)
  | EColon | ENameLen | ETooMany | EZeroDiv | EScalars | EProps  (* writers (refusals) *)
  | EBadPoint                                                    (* TckFile.save: an all-NaN / all-inf point *)
  | EOrder                                                       (* invalid voxel order *)
  | EFuel.
Inductive res (A : Type) := Ok (a : A) | Err (e : err).
Arguments Ok {A}. Arguments Err {A}.

(* ------------------------------------------------------------------ decimal text *)
(* str(n) for n >= 0, most significant digit first *)
Fixpoint digits_fuel (fuel : nat) (n : Z) (acc : list Z) : list Z :=
  match fuel with
  | O => acc
  | S f => if n <? 10 then (48 + n) :: acc
           else digits_fuel f (n / 10) ((48 + n mod 10) :: acc)
  end.
Definition dec_str (n : Z) : list Z := digits_fuel (S (Z.to_nat (Z.log2 n))) n [].
Definition ndigits (n : Z) : Z := zlen (dec_str n).

(* f'{n:010}' for n >= 0 *)
Definition pad10 (s : list Z) : list Z := repeat 48 (10 - length s) ++ s.

(* int(s) for an optional sign followed by ASCII digits only (anything else: None) *)
Fixpoint parse_digits (l : list Z) (acc : Z) : option Z :=
  match l with
  | [] => Some acc
  | c :: r => if (48 <=? c) && (c <=? 57) then parse_digits r (10 * acc + (c - 48)) else None
  end.
Definition parse_int (l : list Z) : option Z :=
  match l with
  | [] => None
  | c :: r =>
    if c =? 45 then match r with [] => None | _ => option_map Z.opp (parse_digits r 0) end
    else if c =? 43 then match r with [] => None | _ => parse_digits r 0 end
    else parse_digits l 0
  end.

(* ------------------------------------------------------------------ TCK header writer *)
(* len(out)+8+3+3 = X; offset_repr = str(X); hdr_offset = X + len(str(X + len(offset_repr))) *)
Definition tck_hdr_offset (outlen : Z) : Z :=
  let X := outlen + 8 + 3 + 3 in
  X + ndigits (X + ndigits X).

Fixpoint join_nl (ls : list (list Z)) : list Z :=
  match ls with
  | [] => []
  | [l] => l
  | l :: r => l ++ 10 :: join_nl r
  end.

Definition excluded (k : list Z) : bool :=
  existsb (list_eqb k) tck_exclude || starts_with [95] k.

Definition tck_lines (count : Z) (items : list (list Z * list Z)) : list (list Z) :=
  (S_count_c ++ pad10 (dec_str count))
  :: S_datatype_Float32LE
  :: map (fun kv => fst kv ++ S_colonsp_c ++ snd kv) (filter (fun kv => negb (excluded (fst kv))) items).

Definition count_colons (l : list Z) : Z := zlen (filter (fun c => c =? 58) l).

(* items: the header dict's (key, str(value)) pairs as UTF-8 bytes, in dict order *)
Definition tck_header (count : Z) (items : list (list Z * list Z)) : res (list Z) :=
  let lines := tck_lines count items in
  let txt := join_nl lines in
  if count_colons txt >? zlen lines then Err EColon
  else
    let out := tck_magic ++ 10 :: txt in
    Ok (out ++ 10 :: S_file_dot ++ dec_str (tck_hdr_offset (zlen out)) ++ 10 :: S_END ++ [10]).

(* ------------------------------------------------------------------ TCK data writer *)
Definition triple := (Z * Z * Z)%type.
Definition enc_triple (be : bool) (t : triple) : list Z :=
  let '(x, y, z) := t in enc be 4 x ++ enc be 4 y ++ enc be 4 z.
Definition enc_points (be : bool) (s : list triple) : list Z := flat_map (enc_triple be) s.

Definition f32_exp (u : Z) : Z := (u / 8388608) mod 256.
Definition f32_man (u : Z) : Z := u mod 8388608.
Definition f32_isnan (u : Z) : bool := (f32_exp u =? 255) && negb (f32_man u =? 0).
Definition f32_isinf (u : Z) : bool := (f32_exp u =? 255) && (f32_man u =? 0).
Definition nan3 (t : triple) : bool := let '(x, y, z) := t in f32_isnan x && f32_isnan y && f32_isnan z.
Definition inf3 (t : triple) : bool := let '(x, y, z) := t in f32_isinf x && f32_isinf y && f32_isinf z.

(* np.r_[streamline, FIBER_DELIMITER].astype('<f4').tobytes() per streamline, then EOF_DELIMITER *)
Definition tck_data (sl : list (list triple)) : list Z :=
  flat_map (fun s => enc_points false s ++ tck_fiber_delim) sl ++ tck_eof_delim.

(* ------------------------------------------------------------------ file objects *)
Record fobj := mkF { fpos : Z; fbytes : list Z }.
Definition fo_tell (f : fobj) : Z := fpos f.
Definition fo_seek_set (o : Z) (f : fobj) : fobj := mkF o (fbytes f).
Definition fo_seek_cur (o : Z) (f : fobj) : fobj := mkF (fpos f + o) (fbytes f).
Definition fo_seek_end (o : Z) (f : fobj) : fobj := mkF (zlen (fbytes f) + o) (fbytes f).
(* read(n); n < 0 reads to the end; a position past the end reads nothing *)
Definition fo_read (n : Z) (f : fobj) : list Z * fobj :=
  let avail := dropz (fpos f) (fbytes f) in
  let d := if n <? 0 then avail else takez n avail in
  (d, mkF (fpos f + zlen d) (fbytes f)).
(* write(d) at the position; a gap past the end is zero-filled (BytesIO / POSIX files) *)
Definition fo_write (d : list Z) (f : fobj) : fobj :=
  let b := fbytes f in
  let p := fpos f in
  let pre := takez p b ++ zeros (p - zlen b) in
  mkF (p + zlen d) (pre ++ d ++ dropz (p + zlen d) b).

(* TckFile.save on a file object at position 0 (beginning = 0): temporary header with the
   header dict's count, data, EOF delimiter, then the header again with the real count
   (for an empty tractogram the header is rewritten before the delimiter is written). *)
Definition tck_save (count0 : Z) (items : list (list Z * list Z)) (sl : list (list triple))
  : res (list Z) :=
  match tck_header count0 items with
  | Err e => Err e
  | Ok h0 =>
    let f1 := fo_write h0 (mkF 0 []) in
    match sl with
    | [] =>
      match tck_header 0 items with
      | Err e => Err e
      | Ok h => let f2 := fo_write h (fo_seek_set 0 f1) in
                Ok (fbytes (fo_write tck_eof_delim f2))
      end
    | _ =>
      (* a point that is all NaN (the streamline delimiter) or all infinite (the end-of-file marker)
         is refused: DataError *)
      if existsb (existsb (fun t => nan3 t || inf3 t)) sl then Err EBadPoint else
      let f2 := fo_write (flat_map (fun s => enc_points false s ++ tck_fiber_delim) sl) f1 in
      let f3 := fo_write tck_eof_delim f2 in
      match tck_header (zlen sl) items with
      | Err e => Err e
      | Ok h => Ok (fbytes (fo_write h (fo_seek_set 0 f3)))
      end
    end
  end.

(* ------------------------------------------------------------------ TCK header reader *)
(* str.strip() on ASCII text: space, \t \n \v \f \r, \x1c..\x1f *)
Definition is_ws (c : Z) : bool :=
  (c =? 32) || ((9 <=? c) && (c <=? 13)) || ((28 <=? c) && (c <=? 31)).
Fixpoint lstrip (l : list Z) : list Z :=
  match l with
  | c :: r => if is_ws c then lstrip r else l
  | [] => []
  end.
Fixpoint rstrip (l : list Z) : list Z :=
  match l with
  | [] => []
  | c :: r => match rstrip r with
              | [] => if is_ws c then [] else [c]
              | r' => c :: r'
              end
  end.
Definition strip (l : list Z) : list Z := rstrip (lstrip l).

(* one line of `for line in f`: up to and including the first \n *)
Fixpoint read_line (l : list Z) : list Z * list Z :=
  match l with
  | [] => ([], [])
  | c :: r => if c =? 10 then ([c], r) else let '(a, b) := read_line r in (c :: a, b)
  end.

(* line.split(':', 1) *)
Fixpoint split_colon (l : list Z) : option (list Z * list Z) :=
  match l with
  | [] => None
  | c :: r => if c =? 58 then Some ([], r)
              else match split_colon r with Some (a, b) => Some (c :: a, b) | None => None end
  end.

(* str.split(): maximal runs of non-whitespace *)
Fixpoint ws_split_aux (l : list Z) (cur : list Z) : list (list Z) :=
  match l with
  | [] => match cur with [] => [] | _ => [cur] end
  | c :: r => if is_ws c then match cur with [] => ws_split_aux r [] | _ => cur :: ws_split_aux r [] end
              else ws_split_aux r (cur ++ [c])
  end.
Definition ws_split (l : list Z) : list (list Z) := ws_split_aux l [].

Definition hdict := list (list Z * list (list Z)).
Fixpoint hd_append (k v : list Z) (d : hdict) : hdict :=
  match d with
  | [] => [(k, [v])]
  | (k', vs) :: r => if list_eqb k k' then (k', vs ++ [v]) :: r else (k', vs) :: hd_append k v r
  end.
Fixpoint hd_get (k : list Z) (d : hdict) : option (list Z) :=
  match d with
  | [] => None
  | (k', vs) :: r => if list_eqb k k' then Some (join_nl vs) else hd_get k r
  end.

(* the key/value loop; `consumed` counts the bytes of the lines read so far.  Returns the
   dictionary and the number of bytes consumed up to and including the END line. *)
Fixpoint tck_lines_loop (fuel : nat) (l : list Z) (key : option (list Z)) (d : hdict) (consumed : Z)
  : res (hdict * Z) :=
  match fuel with
  | O => Err EFuel
  | S fuel' =>
    match l with
    | [] => Err ENoEnd
    | _ =>
      let '(raw, rest) := read_line l in
      let consumed' := consumed + zlen raw in
      let line := strip raw in
      match line with
      | [] => tck_lines_loop fuel' rest key d consumed'
      | _ =>
        if list_eqb line (S_END) then Ok (d, consumed')
        else
          let '(key', val) := match split_colon line with
                              | Some (k, v) => (Some (strip k), v)
                              | None => (key, line)
                              end in
          match key' with
          | None => Err EKey
          | Some k => tck_lines_loop fuel' rest key' (hd_append k (strip val) d) consumed'
          end
      end
    end
  end.

(* returns (big-endian data?, _offset_data) *)
Definition tck_parse_header (f : list Z) : res (bool * Z) :=
  let mlen := zlen tck_magic in
  if negb (list_eqb (takez mlen f) tck_magic) then Err EMagic
  else
    let body := dropz (mlen + 1) f in
    match tck_lines_loop (S (length body)) body None [] 0 with
    | Err e => Err e
    | Ok (d, consumed) =>
      (* f.tell() after the loop; seek(1, SEEK_CUR) past the magic may go past a short file *)
      let offset_data := mlen + 1 + consumed in
      let datatype := match hd_get (S_datatype) d with Some v => v | None => S_Float32LE end in
      if negb (starts_with (S_Float32) datatype) then Err EDatatype
      else
        let file := match hd_get (S_file) d with
                    | Some v => v
                    | None => S_dotsp ++ dec_str offset_data
                    end in
        match ws_split file with
        | dot :: off :: _ =>
          if negb (list_eqb dot [46]) then Err EFile
          else match parse_int off with
               | Some o => Ok (ends_with (S_BE) datatype, o)
               | None => Err EFile
               end
        | [dot] => Err EFile       (* '.' alone: IndexError; anything else: HeaderError *)
        | [] => Err EFile
        end
    end.

(* ------------------------------------------------------------------ TCK data reader *)
(* np.frombuffer(buff, dtype).astype('<f4').reshape((-1, 3)) on a buffer whose length is a
   multiple of 12 *)
Fixpoint triples_of (be : bool) (l : list Z) : list triple :=
  match l with
  | a0 :: a1 :: a2 :: a3 :: b0 :: b1 :: b2 :: b3 :: c0 :: c1 :: c2 :: c3 :: r =>
    (dec be [a0; a1; a2; a3], dec be [b0; b1; b2; b3], dec be [c0; c1; c2; c3]) :: triples_of be r
  | _ => []
  end.

(* buffer_size = int(buffer_size * MEGABYTE) is computed by the caller; then
   buffer_size += coordinate_size - (buffer_size % coordinate_size) *)
Definition tck_bufsize (b : Z) : Z := b + (12 - b mod 12).

(* one buffer: delimiters are looked for in the new coordinates only, the leftover `cur`
   (which cannot contain one) is put in front; non-empty runs between delimiters are yielded *)
Fixpoint scan (cs : list triple) (out : list (list triple)) (cur : list triple)
  : list (list triple) * list triple :=
  match cs with
  | [] => (out, cur)
  | t :: r => if nan3 t then scan r (match cur with [] => out | _ => out ++ [cur] end) []
              else scan r out (cur ++ [t])
  end.

Definition chunk_check (chunk : list Z) : option err :=
  if negb (zlen chunk mod 4 =? 0) then Some EBuf            (* np.frombuffer: ValueError *)
  else if negb ((zlen chunk / 4) mod 3 =? 0) then Some EShape  (* reshape((-1,3)): ValueError *)
  else None.

Definition tck_finish (out : list (list triple)) (cur : list triple) : res (list (list triple)) :=
  let bad := Err (match out with [] => EDelim | _ => EEof end) in
  match cur with
  | [t] => if inf3 t then Ok out else bad
  | _ => bad
  end.

Fixpoint tck_loop (fuel : nat) (be : bool) (B : Z) (f : list Z)
                  (out : list (list triple)) (cur : list triple) : res (list (list triple)) :=
  match fuel with
  | O => Err EFuel
  | S fuel' =>
    let chunk := takez B f in
    let rest := dropz B f in
    let eof := negb (zlen chunk =? B) in
    match chunk_check chunk with
    | Some e => Err e
    | None =>
      let '(out', cur') := scan (triples_of be chunk) out cur in
      if eof then tck_finish out' cur' else tck_loop fuel' be B rest out' cur'
    end
  end.

(* f = the bytes from _offset_data on; B = the adjusted buffer size in bytes *)
Definition tck_read_data (be : bool) (B : Z) (f : list Z) : res (list (list triple)) :=
  tck_loop (S (length f)) be B f [] [].

(* the same with one unbounded buffer: the specification of the chunked reader *)
Definition tck_read_all (be : bool) (f : list Z) : res (list (list triple)) :=
  match chunk_check f with
  | Some e => Err e
  | None => let '(out, cur) := scan (triples_of be f) [] [] in tck_finish out cur
  end.

(* TckFile.load(...) + reading all streamlines; b = int(buffer_size * MEGABYTE) *)
Definition tck_load (b : Z) (f : list Z) : res (list (list triple)) :=
  match tck_parse_header f with
  | Err e => Err e
  | Ok (be, off) =>
    if off <? 0 then Err ESeek
    else tck_read_data be (tck_bufsize b) (dropz off f)
  end.

(* ------------------------------------------------------------------ TRK: header block *)
Definition get_at (off n : Z) (blk : list Z) : list Z := takez n (dropz off blk).
Definition set_at (off : Z) (data blk : list Z) : list Z :=
  takez off blk ++ data ++ dropz (off + zlen data) blk.

Record trk_offs := mkOffs {
  o_magic : Z; o_dims : Z; o_vsizes : Z; o_origin : Z; o_nscal : Z; o_sname : Z; o_nprop : Z;
  o_pname : Z; o_v2r : Z; o_order : Z; o_count : Z; o_version : Z; o_hsize : Z }.

Fixpoint lookup_field (name : string) (want_total want_elem want_kind : Z)
    (t : list (string * (Z * Z * Z * Z * Z))) : option Z :=
  match t with
  | [] => None
  | (n, (off, total, elem, cnt, kind)) :: r =>
    if String.eqb n name then
      if (total =? want_total) && (elem =? want_elem) && (kind =? want_kind) then Some off else None
    else lookup_field name want_total want_elem want_kind r
  end.

Definition offs_of_layout (t : list (string * (Z * Z * Z * Z * Z))) : option trk_offs :=
  match lookup_field F_magic 6 6 0 t, lookup_field F_dims 6 2 1 t, lookup_field F_vsizes 12 4 2 t,
        lookup_field F_origin 12 4 2 t, lookup_field F_nscal 2 2 1 t, lookup_field F_sname 200 20 0 t,
        lookup_field F_nprop 2 2 1 t, lookup_field F_pname 200 20 0 t, lookup_field F_v2r 64 4 2 t,
        lookup_field F_order 4 4 0 t, lookup_field F_count 4 4 1 t, lookup_field F_version 4 4 1 t,
        lookup_field F_hsize 4 4 1 t with
  | Some a, Some b, Some c, Some d, Some e, Some f, Some g, Some h, Some i, Some j, Some k, Some l, Some m =>
    Some (mkOffs a b c d e f g h i j k l m)
  | _, _, _, _, _, _, _, _, _, _, _, _, _ => None
  end.

(* the (offset, size) of the thirteen fields the model touches *)
Definition offs_spans (o : trk_offs) : list (Z * Z) :=
  [(o_magic o, 6); (o_dims o, 6); (o_vsizes o, 12); (o_origin o, 12); (o_nscal o, 2);
   (o_sname o, 200); (o_nprop o, 2); (o_pname o, 200); (o_v2r o, 64); (o_order o, 4);
   (o_count o, 4); (o_version o, 4); (o_hsize o, 4)].
Definition span_disj (a b : Z * Z) : bool :=
  (fst a + snd a <=? fst b) || (fst b + snd b <=? fst a).
Fixpoint all_disj (l : list (Z * Z)) : bool :=
  match l with
  | [] => true
  | a :: r => forallb (span_disj a) r && all_disj r
  end.
(* the offsets the imported header dtype has now *)
Definition trk_offs_now : option trk_offs := Eval vm_compute in offs_of_layout trk_layout.

Definition wf_offs (o : trk_offs) : bool :=
  forallb (fun s => (0 <=? fst s) && (fst s + snd s <=? trk_header_size)) (offs_spans o)
  && all_disj (offs_spans o).

(* ------------------------------------------------------------------ TRK: names *)
(* encode_value_in_name(value, name): None = ValueError *)
Definition encode_name (value : Z) (name : list Z) : option (list Z) :=
  if zlen name >? 20 then None
  else
    let e := if value <=? 1 then name else name ++ 0 :: dec_str value in
    if zlen e >? 20 then None else Some (e ++ zeros (20 - zlen e)).

Fixpoint split_nul (l : list Z) (cur : list Z) : list (list Z) :=
  match l with
  | [] => [cur]
  | c :: r => if c =? 0 then cur :: split_nul r [] else split_nul r (cur ++ [c])
  end.

(* decode_value_from_name on one 20-byte field (numpy has stripped the trailing NULs) *)
Definition decode_name (field : list Z) : res (list Z * Z) :=
  let e := rstrip0 field in
  match e with
  | [] => Ok ([], 0)
  | _ =>
    match split_nul e [] with
    | [n] => Ok (n, 1)
    | [n; v] => match parse_int v with Some k => Ok (n, k) | None => Err EName end
    | _ => Err EName
    end
  end.

Fixpoint names_block (keys : list (list Z * Z)) : res (list Z) :=
  match keys with
  | [] => Ok []
  | (name, w) :: r =>
    match encode_name w name, names_block r with
    | Some e, Ok b => Ok (e ++ b)
    | None, _ => Err ENameLen
    | _, Err x => Err x
    end
  end.

(* the 200-byte name field for the sorted keys: np.zeros(10, 'S20') with the first entries set *)
Definition names_field (keys : list (list Z * Z)) : res (list Z) :=
  if zlen keys >? trk_max_scalars then Err ETooMany
  else match names_block keys with
       | Ok b => Ok (b ++ zeros (200 - zlen b))
       | Err e => Err e
       end.

Definition sdict := list (list Z * (Z * Z)).
Fixpoint sd_set (k : list Z) (v : Z * Z) (d : sdict) : sdict :=
  match d with
  | [] => [(k, v)]
  | (k', v') :: r => if list_eqb k k' then (k', v) :: r else (k', v') :: sd_set k v r
  end.

(* the loops of TrkFile.load that turn the ten name fields into column slices *)
Fixpoint name_slices_loop (fields : list (list Z)) (cpt : Z) (d : sdict) : res (sdict * Z) :=
  match fields with
  | [] => Ok (d, cpt)
  | fld :: r =>
    match decode_name fld with
    | Err e => Err e
    | Ok (name, nb) =>
      if nb =? 0 then name_slices_loop r cpt d
      else name_slices_loop r (cpt + nb) (sd_set name (cpt, cpt + nb) d)
    end
  end.

Fixpoint chop (n : nat) (w : Z) (l : list Z) : list (list Z) :=
  match n with
  | O => []
  | S n' => takez w l :: chop n' w (dropz w l)
  end.

Definition name_slices (total : Z) (block : list Z) (generic : list Z) : res sdict :=
  if total >? 0 then
    match name_slices_loop (chop 10 20 block) 0 [] with
    | Err e => Err e
    | Ok (d, cpt) => Ok (if cpt <? total then sd_set generic (cpt, total) d else d)
    end
  else Ok [].

(* ------------------------------------------------------------------ TRK: writer *)
Record trk_user := mkUser {
  u_dims : list Z;        (* 3 int16 *)
  u_vsizes : list Z;      (* 3 float32 bit patterns *)
  u_origin : list Z;      (* 3 *)
  u_v2r : list Z;         (* 16, row major *)
  u_order : list Z;       (* voxel order bytes, at most 4 *)
  u_count : Z; u_nscal : Z; u_nprop : Z   (* whatever the user's header dict says: temporary *)
}.

Definition enc_list (be : bool) (w : nat) (l : list Z) : list Z := flat_map (enc be w) l.
Definition enc_s_list (be : bool) (w : nat) (l : list Z) : list Z := flat_map (enc_s be w) l.
Definition pad_to (n : Z) (l : list Z) : list Z := takez n l ++ zeros (n - zlen l).

(* _default_structarr('little') overridden by the user's header, voxel order b'' -> b'LPS' *)
Definition trk_template (o : trk_offs) (u : trk_user) : list Z :=
  let b0 := zeros trk_header_size in
  let b1 := set_at (o_magic o) (pad_to 6 trk_magic) b0 in
  let b2 := set_at (o_dims o) (enc_s_list false 2 (u_dims u)) b1 in
  let b3 := set_at (o_vsizes o) (enc_list false 4 (u_vsizes u)) b2 in
  let b4 := set_at (o_origin o) (enc_list false 4 (u_origin u)) b3 in
  let b5 := set_at (o_v2r o) (enc_list false 4 (u_v2r u)) b4 in
  let ord := match rstrip0 (u_order u) with [] => S_LPS | x => x end in
  let b6 := set_at (o_order o) (pad_to 4 ord) b5 in
  let b7 := set_at (o_count o) (enc_s false 4 (u_count u)) b6 in
  let b8 := set_at (o_nscal o) (enc_s false 2 (u_nscal u)) b7 in
  let b9 := set_at (o_nprop o) (enc_s false 2 (u_nprop u)) b8 in
  let b10 := set_at (o_version o) (enc_s false 4 2) b9 in
  set_at (o_hsize o) (enc_s false 4 trk_header_size) b10.

(* one streamline as written: rows of 3 + S float32 patterns (points already in voxmm),
   and P properties *)
Record trk_stream := mkStream { s_rows : list (list Z); s_props : list Z }.

Definition trk_record (be : bool) (s : trk_stream) : list Z :=
  enc_s be 4 (zlen (s_rows s)) ++ flat_map (enc_list be 4) (s_rows s) ++ enc_list be 4 (s_props s).

Definition sum_z (l : list Z) : Z := fold_right Z.add 0 l.

(* TrkFile.save on a file object positioned at p (bytes before p are kept).  skeys/pkeys: the
   sorted data_per_point / data_per_streamline keys of the first item with their widths. *)
Definition trk_save (o : trk_offs) (f0 : fobj) (u : trk_user)
    (skeys pkeys : list (list Z * Z)) (sl : list trk_stream) : res (list Z) :=
  let beginning := fo_tell f0 in
  let hdr := trk_template o u in
  let f1 := fo_write hdr f0 in
  match sl with
  | [] =>
    let h := set_at (o_nprop o) (enc_s false 2 0)
              (set_at (o_nscal o) (enc_s false 2 0) (set_at (o_count o) (enc_s false 4 0) hdr)) in
    Ok (fbytes (fo_write h (fo_seek_set beginning f1)))
  | _ =>
    if zlen pkeys >? trk_max_props then Err ETooMany
    else match names_field pkeys with
    | Err e => Err e
    | Ok pn =>
      let hdr1 := set_at (o_pname o) pn hdr in
      if zlen skeys >? trk_max_scalars then Err ETooMany
      else match names_field skeys with
      | Err e => Err e
      | Ok sn =>
        let hdr2 := set_at (o_sname o) sn hdr1 in
        let f2 := fo_write (flat_map (trk_record false) sl) f1 in
        let nb_streamlines := zlen sl in
        let nb_points := sum_z (map (fun s => zlen (s_rows s)) sl) in
        let nb_scalars := sum_z (map (fun s => sum_z (map (fun r => zlen r - 3) (s_rows s))) sl) in
        let nb_properties := sum_z (map (fun s => zlen (s_props s)) sl) in
        if nb_points =? 0 then Err EZeroDiv
        else if negb (nb_scalars mod nb_points =? 0) then Err EScalars
        else if negb (nb_properties mod nb_streamlines =? 0) then Err EProps
        else
          let hdr3 := set_at (o_count o) (enc_s false 4 nb_streamlines) hdr2 in
          let hdr4 := set_at (o_nscal o) (enc_s false 2 (nb_scalars / nb_points)) hdr3 in
          let hdr5 := set_at (o_nprop o) (enc_s false 2 (nb_properties / nb_streamlines)) hdr4 in
          Ok (fbytes (fo_write hdr5 (fo_seek_set beginning f2)))
      end
    end
  end.

(* ------------------------------------------------------------------ TRK: reader *)
Record trk_info := mkInfo {
  i_be : bool; i_count : Z; i_nscal : Z; i_nprop : Z; i_sslices : sdict; i_pslices : sdict }.

(* hb: the 1000-byte buffer after readinto (a short file leaves zeros at the end) *)
Definition trk_parse_header (o : trk_offs) (hb : list Z) : res trk_info :=
  let hs := get_at (o_hsize o) 4 hb in
  let be_opt := if dec_s false hs =? trk_header_size then Some false
                else if dec_s true hs =? trk_header_size then Some true else None in
  match be_opt with
  | None => Err EHdrSize
  | Some be =>
    let version := dec_s be (get_at (o_version o) 4 hb) in
    if negb ((version =? 1) || (version =? 2) || (version =? 3)) then Err EVersion
    else
      let nscal := dec_s be (get_at (o_nscal o) 2 hb) in
      let nprop := dec_s be (get_at (o_nprop o) 2 hb) in
      let count := dec_s be (get_at (o_count o) 4 hb) in
      match name_slices nscal (get_at (o_sname o) 200 hb) (S_scalars) with
      | Err e => Err e
      | Ok ss =>
        match name_slices nprop (get_at (o_pname o) 200 hb) (S_properties) with
        | Err e => Err e
        | Ok ps => Ok (mkInfo be count nscal nprop ss ps)
        end
      end
  end.

Fixpoint chop_all (fuel : nat) (w : Z) (l : list Z) : list (list Z) :=
  match fuel with
  | O => []
  | S f => match l with [] => [] | _ => takez w l :: chop_all f w (dropz w l) end
  end.
Definition words_of (be : bool) (l : list Z) : list Z := map (dec be) (chop_all (length l) 4 l).
Definition rows_of (be : bool) (ncols : Z) (l : list Z) : list (list Z) :=
  map (words_of be) (chop_all (length l) (4 * ncols) l).

(* one turn of the `while count < nb_streamlines` loop; nb = None when the header count is 0
   (np.inf); k = streamlines read so far *)
Inductive step := SDone | SErr (e : err) | SRec (s : trk_stream) (consumed : Z) (rest : list Z).

Definition trk_step (be : bool) (ncols nprop : Z) (nb : option Z) (k : Z) (f : list Z) : step :=
  if match nb with Some n => n <=? k | None => false end then SDone
  else
    let nbs := takez 4 f in
    if zlen nbs =? 0 then
      match nb with Some _ => SErr ETruncated | None => SDone end
    else if zlen nbs <? 4 then SErr EStruct
    else
      let npts := dec_s be nbs in
      let f1 := dropz 4 f in
      if npts <? 0 then SErr ENegPts
      else
        let psz := npts * (ncols * 4) in
        let pb := takez psz f1 in
        if zlen pb <? psz then SErr EBufSmall
        else
          let f2 := dropz psz f1 in
          let qsz := nprop * 4 in
          let qb := takez qsz f2 in
          if zlen qb <? qsz then SErr EBufSmall
          else SRec (mkStream (rows_of be ncols pb) (words_of be qb)) (4 + psz + qsz) (dropz qsz f2).

Fixpoint trk_loop (fuel : nat) (be : bool) (ncols nprop : Z) (nb : option Z) (k : Z)
                  (f : list Z) (acc : list trk_stream) : res (list trk_stream) :=
  match fuel with
  | O => Err EFuel
  | S fuel' =>
    match trk_step be ncols nprop nb k f with
    | SDone => Ok (rev acc)
    | SErr e => Err e
    | SRec s _ rest => trk_loop fuel' be ncols nprop nb (k + 1) rest (s :: acc)
    end
  end.

(* TrkFile.load + reading everything, from a file object positioned at p *)
Definition trk_load (o : trk_offs) (p : Z) (f : list Z) : res (trk_info * list trk_stream) :=
  let got := takez trk_header_size (dropz p f) in
  let hb := got ++ zeros (trk_header_size - zlen got) in
  match trk_parse_header o hb with
  | Err e => Err e
  | Ok info =>
    let offset_data := p + zlen got in
    let data := dropz offset_data f in
    if (i_nscal info <? 0) || (i_nprop info <? 0) then Err ENegPts
    else
    match trk_loop (S (length data)) (i_be info) (3 + i_nscal info) (i_nprop info)
            (if i_count info =? 0 then None else Some (i_count info)) 0 data [] with
    | Err e => Err e
    | Ok sl => Ok (info, sl)
    end
  end.

(* ------------------------------------------------------------------ file position *)
(* The seek/tell discipline of the loaders.  The reads of the data loop are abstracted to
   "read to the end" (their effect on the position is overwritten by the final absolute
   seek in the `finally` clause); everything else follows the code call by call. *)

(* TckFile._read_header: tell, seek(0), read magic, seek(1, CUR), lines, tell, seek(start, SET) *)
Definition tck_header_fo (f : fobj) : res ((bool * Z) * fobj) :=
  let start := fo_tell f in
  let f1 := fo_seek_set 0 f in
  match tck_parse_header (fbytes f1) with
  | Err e => Err e
  | Ok r => Ok (r, fo_seek_set start (snd (fo_read (-1) f1)))
  end.

(* TckFile._read run to exhaustion: tell, seek(_offset_data, SET), reads, seek(start, SET) *)
Definition tck_read_fo (b : Z) (hdr : bool * Z) (f : fobj) : res (list (list triple) * fobj) :=
  let start := fo_tell f in
  if snd hdr <? 0 then Err ESeek else
  let f1 := fo_seek_set (snd hdr) f in
  let '(d, f2) := fo_read (-1) f1 in
  match tck_read_data (fst hdr) (tck_bufsize b) d with
  | Err e => Err e
  | Ok sl => Ok (sl, fo_seek_set start f2)
  end.

(* A pass over the generator _read: run to exhaustion, or abandoned (the generator is dropped)
   after its k-th item.  LazyTractogram.from_data_func does the latter with k = 1 inside
   load(lazy_load=True).  Since commit c36353e5 the position is restored in a `finally`, which
   also runs when a suspended generator is closed. *)
Inductive pass := PComplete | PAbandon (k : nat).

(* _read up to its k-th yield: errors of later buffers are never met *)
Fixpoint tck_take_loop (fuel : nat) (be : bool) (B : Z) (k : nat) (f : list Z)
                       (out : list (list triple)) (cur : list triple) : res (list (list triple)) :=
  match fuel with
  | O => Err EFuel
  | S fuel' =>
    let chunk := takez B f in
    let rest := dropz B f in
    let eof := negb (zlen chunk =? B) in
    match chunk_check chunk with
    | Some e => Err e
    | None =>
      let '(out', cur') := scan (triples_of be chunk) out cur in
      if (k <=? length out')%nat then Ok (firstn k out')
      else if eof then tck_finish out' cur'
      else tck_take_loop fuel' be B k rest out' cur'
    end
  end.

Definition tck_abandon_fo (b : Z) (hdr : bool * Z) (k : nat) (f : fobj)
  : res (list (list triple) * fobj) :=
  let start := fo_tell f in
  if snd hdr <? 0 then Err ESeek else
  let f1 := fo_seek_set (snd hdr) f in
  let '(d, f2) := fo_read (-1) f1 in
  match tck_take_loop (S (length d)) (fst hdr) (tck_bufsize b) k d [] [] with
  | Err e => Err e
  | Ok sl => Ok (sl, fo_seek_set start f2)       (* the finally clause *)
  end.

Definition tck_pass (b : Z) (hdr : bool * Z) (p : pass) : fobj -> res (list (list triple) * fobj) :=
  match p with PComplete => tck_read_fo b hdr | PAbandon k => tck_abandon_fo b hdr k end.

Fixpoint run_passes {A} (steps : list (fobj -> res (A * fobj))) (f : fobj) (acc : list A)
  : res (list A * fobj) :=
  match steps with
  | [] => Ok (rev acc, f)
  | step :: r => match step f with
                 | Err e => Err e
                 | Ok (a, f') => run_passes r f' (a :: acc)
                 end
  end.

(* load (eager: one complete pass inside load; lazy: the abandoned first-item pass of
   from_data_func) followed, when lazy, by the given passes over tractogram.streamlines *)
Definition tck_session (b : Z) (lazy : bool) (passes : list pass) (f : fobj)
  : res (list (list (list triple)) * fobj) :=
  match tck_header_fo f with
  | Err e => Err e
  | Ok (hdr, f1) =>
    run_passes (map (tck_pass b hdr) (if lazy then PAbandon 1 :: passes else [PComplete])) f1 []
  end.

(* TrkFile._read_header: tell; readinto(1000); tell -> _offset_data; seek(start, SET) *)
Definition trk_header_fo (o : trk_offs) (f : fobj) : res ((trk_info * Z) * fobj) :=
  let start := fo_tell f in
  let '(got, f1) := fo_read trk_header_size f in
  let hb := got ++ zeros (trk_header_size - zlen got) in
  match trk_parse_header o hb with
  | Err e => Err e
  | Ok info => Ok ((info, fo_tell f1), fo_seek_set start f1)
  end.

(* eager load only: tell, seek(0, END), tell, seek(old, SET) to size the buffers *)
Definition trk_size_fo (f : fobj) : Z * fobj :=
  let old := fo_tell f in
  let f1 := fo_seek_end 0 f in
  (fo_tell f1, fo_seek_set old f1).

Definition trk_read_fo (hdr : trk_info * Z) (f : fobj) : res (list trk_stream * fobj) :=
  let info := fst hdr in
  let start := fo_tell f in
  let f1 := fo_seek_set (snd hdr) f in
  let '(d, f2) := fo_read (-1) f1 in
  if (i_nscal info <? 0) || (i_nprop info <? 0) then Err ENegPts else
  match trk_loop (S (length d)) (i_be info) (3 + i_nscal info) (i_nprop info)
          (if i_count info =? 0 then None else Some (i_count info)) 0 d [] with
  | Err e => Err e
  | Ok sl => Ok (sl, fo_seek_set start f2)
  end.

Fixpoint trk_take_loop (fuel : nat) (be : bool) (ncols nprop : Z) (nb : option Z) (kdone : Z)
                       (want : nat) (f : list Z) (acc : list trk_stream) : res (list trk_stream) :=
  match fuel with
  | O => Err EFuel
  | S fuel' =>
    if (want <=? length acc)%nat then Ok (rev acc)
    else match trk_step be ncols nprop nb kdone f with
         | SDone => Ok (rev acc)
         | SErr e => Err e
         | SRec s _ rest => trk_take_loop fuel' be ncols nprop nb (kdone + 1) want rest (s :: acc)
         end
  end.

Definition trk_abandon_fo (hdr : trk_info * Z) (k : nat) (f : fobj) : res (list trk_stream * fobj) :=
  let info := fst hdr in
  let start := fo_tell f in
  let f1 := fo_seek_set (snd hdr) f in
  let '(d, f2) := fo_read (-1) f1 in
  if (i_nscal info <? 0) || (i_nprop info <? 0) then Err ENegPts else
  match trk_take_loop (S (S (length d))) (i_be info) (3 + i_nscal info) (i_nprop info)
          (if i_count info =? 0 then None else Some (i_count info)) 0 k d [] with
  | Err e => Err e
  | Ok sl => Ok (sl, fo_seek_set start f2)       (* the finally clause *)
  end.

Definition trk_pass (hdr : trk_info * Z) (p : pass) : fobj -> res (list trk_stream * fobj) :=
  match p with PComplete => trk_read_fo hdr | PAbandon k => trk_abandon_fo hdr k end.

Definition trk_session (o : trk_offs) (lazy : bool) (passes : list pass) (f : fobj)
  : res (list (list trk_stream) * fobj) :=
  match trk_header_fo o f with
  | Err e => Err e
  | Ok (hdr, f1) =>
    if lazy then run_passes (map (trk_pass hdr) (PAbandon 1 :: passes)) f1 []
    else run_passes [trk_read_fo hdr] (snd (trk_size_fo f1)) []
  end.
