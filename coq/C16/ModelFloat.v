(* C16/ModelFloat.v — the float arithmetic between RAS+mm and voxmm for ONE coordinate in the
   common DIAGONAL case (voxel sizes + translation, voxel order = orientation of vox_to_ras up to
   axis flips: the 3x3 part of the trackvis<->RAS+mm affine is diagonal).
   nibabel.affines.apply_affine: np.dot(pts, rzs.T) + trans with float32 points and a float64
   affine -> float64 arithmetic (the float32 coordinate is promoted exactly; the products with
   the zero entries add exact zeros): fl64(fl64(a*x) + b).  TrkFile.save stores the result as
   '<f4' (points.astype(f4)); Tractogram.apply_affine on an eagerly loaded file assigns it into
   the float32 coordinate array: one more rounding to float32.  A lazily loaded file keeps the
   float64 result.
   Flocq: rounding to nearest even in the formats FLX 53 / FLX 24 (unbounded exponent range:
   no overflow, no subnormal products - coordinates in mm are far from both).  Definitions only. *)
From Coq Require Import Reals ZArith.
From Flocq Require Import Core.
Open Scope R_scope.

Definition rnd64 : R -> R := round radix2 (FLX_exp 53) ZnearestE.
Definition rnd32 : R -> R := round radix2 (FLX_exp 24) ZnearestE.
Definition u64 : R := / 2 * bpow radix2 (-53 + 1).     (* 2^-53 *)
Definition u32 : R := / 2 * bpow radix2 (-24 + 1).     (* 2^-24 *)

(* apply_affine for one coordinate, float64 result (lazy load) *)
Definition coord_apply64 (a b x : R) : R := rnd64 (rnd64 (a * x) + b).
(* ... stored as float32 (save; eager load) *)
Definition coord_apply (a b x : R) : R := rnd32 (coord_apply64 a b x).

(* save with rasmm->voxmm (a', b'), then load with voxmm->rasmm (a, b) *)
Definition trk_coord_roundtrip (a b a' b' x : R) : R := coord_apply a b (coord_apply a' b' x).
Definition trk_coord_roundtrip_lazy (a b a' b' x : R) : R := coord_apply64 a b (coord_apply a' b' x).

(* relative error of one affine step against the magnitude budget |a x| + |b| *)
Definition e64 : R := 3 * u64.
Definition e32 : R := u32 + (1 + u32) * (3 * u64).
