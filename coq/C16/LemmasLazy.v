(* C16/LemmasLazy.v — proofs about C16/ModelLazy.v (ideal arithmetic over Q) *)
From Coq Require Import ZArith QArith Qfield List Bool Lia Setoid.
From NV Require Import C16.ModelAffine C16.LemmasAffine C16.ModelLazy.
Import ListNotations.
Open Scope Q_scope.

Definition sl_eq (a b : list (list pt)) : Prop := Forall2 (Forall2 pt_eq) a b.

Lemma pt_eq_refl p : pt_eq p p.
Proof. destruct p as [[x y] z]. unfold pt_eq. repeat split; reflexivity. Qed.

Lemma sl_eq_map (f g : pt -> pt) : (forall x, pt_eq (f x) (g x)) ->
  forall l, sl_eq (map (map f) l) (map (map g) l).
Proof.
  intros H. induction l as [|s l IH]; [constructor|]. constructor; [|exact IH].
  induction s as [|x s IHs]; [constructor|]. constructor; [apply H|exact IHs].
Qed.

Lemma sl_eq_map_id (f : pt -> pt) : (forall x, pt_eq x (f x)) -> forall l, sl_eq l (map (map f) l).
Proof.
  intros H l. rewrite <- (map_id l) at 1. replace (map (fun x => x) l) with (map (map (fun x : pt => x)) l).
  - now apply sl_eq_map.
  - apply map_ext. intros s. apply map_id.
Qed.

Lemma aff_is_id_spec A : aff_is_id A = true -> aff_eq A aff_id.
Proof.
  unfold aff_is_id. rewrite !andb_true_iff. intros H. unfold aff_eq, aff_id; cbn.
  repeat match goal with H : _ /\ _ |- _ => destruct H end.
  repeat split; apply Qeq_bool_iff; assumption.
Qed.

(* .streamlines always is the pending affine applied to what the generator yields *)
Lemma lz_streamlines_spec t :
  sl_eq (lz_streamlines t) (map (map (aff_apply (lz_pending t))) (lz_raw t)).
Proof.
  unfold lz_streamlines. destruct (aff_is_id (lz_pending t)) eqn:E.
  - apply sl_eq_map_id. intros x. apply pt_eq_sym.
    eapply pt_eq_trans; [apply aff_apply_proper, aff_is_id_spec, E|apply aff_apply_id].
  - apply sl_eq_map. intros x. apply pt_eq_refl.
Qed.

Lemma pts_eq_trans (a b c : list pt) : Forall2 pt_eq a b -> Forall2 pt_eq b c -> Forall2 pt_eq a c.
Proof.
  intros H. revert c. induction H as [|x y l l' Hxy Hl IH]; intros c Hc; inversion Hc as [|? z ? l'' Hyz Hl'']; subst; constructor.
  - eapply pt_eq_trans; eassumption.
  - now apply IH.
Qed.

Lemma sl_eq_trans a b c : sl_eq a b -> sl_eq b c -> sl_eq a c.
Proof.
  unfold sl_eq. intros H. revert c.
  induction H as [|x y l l' Hxy Hl IH]; intros c Hc; inversion Hc as [|? z ? l'' Hyz Hl'']; subst; constructor.
  - eapply pts_eq_trans; eassumption.
  - now apply IH.
Qed.

(* pending affines compose in application order: apply_affine(A) then apply_affine(B) yields
   B . A . pending, i.e. every point x comes out as B(A(pending x)) *)
Lemma lazy_affine_composition A B t :
  lz_pending (lz_apply_affine B (lz_apply_affine A t)) = aff_mul B (aff_mul A (lz_pending t))
  /\ sl_eq (lz_streamlines (lz_apply_affine B (lz_apply_affine A t)))
           (map (map (fun x => aff_apply B (aff_apply A (aff_apply (lz_pending t) x)))) (lz_raw t)).
Proof.
  split; [reflexivity|].
  eapply sl_eq_trans; [apply lz_streamlines_spec|]. cbn [lz_apply_affine lz_pending lz_raw].
  apply sl_eq_map. intros x.
  eapply pt_eq_trans; [apply aff_apply_mul|].
  (* aff_apply B is compatible with pt_eq *)
  assert (P : forall p q, pt_eq p q -> pt_eq (aff_apply B p) (aff_apply B q)).
  { intros [[a b] c] [[d e] f] (H1 & H2 & H3). unfold pt_eq, aff_apply. rewrite H1, H2, H3. repeat split; reflexivity. }
  apply P. apply aff_apply_mul.
Qed.

(* the order matters: the two compositions differ on a concrete instance *)
Lemma composition_order_matters : exists A B x,
  ~ pt_eq (aff_apply B (aff_apply A x)) (aff_apply A (aff_apply B x)).
Proof.
  exists (mkA 2 0 0 0 2 0 0 0 2 0 0 0), aff_halfvox, (1, 1, 1). vm_compute. intros [H _]. discriminate H.
Qed.

(* affine_to_rasmm keeps pointing at RAS+mm: (to_rasmm . B^-1) after B is to_rasmm *)
Lemma lazy_to_rasmm_invariant B t R : ~ aff_det B == 0 -> lz_to_rasmm t = Some R ->
  exists R', lz_to_rasmm (lz_apply_affine B t) = Some R' /\
    forall x, pt_eq (aff_apply R' (aff_apply B x)) (aff_apply R x).
Proof.
  intros HB E. unfold lz_apply_affine. cbn [lz_to_rasmm]. rewrite E. cbn [option_map]. eexists. split; [reflexivity|].
  intros x. eapply pt_eq_trans; [apply pt_eq_sym, aff_apply_mul|]. apply aff_apply_proper.
  eapply aff_eq_trans; [apply aff_mul_assoc|].
  eapply aff_eq_trans; [apply aff_mul_proper; [apply aff_eq_refl|apply aff_inv_l; exact HB]|apply aff_mul_id_r].
Qed.

(* saving a tractogram NOT built by from_data_func (an eager Tractogram goes through
   from_tractogram): TCK gets to_rasmm(x), TRK gets Ti(to_rasmm(x)) *)
Lemma lazy_saved_from_tractogram pts A Ti :
  (exists w, lz_saved_tck (lz_of_tractogram pts (Some A)) = Some w /\ sl_eq w (map (map (aff_apply A)) pts))
  /\ (exists w, lz_saved_trk Ti (lz_of_tractogram pts (Some A)) = Some w
        /\ sl_eq w (map (map (fun x => aff_apply Ti (aff_apply A x))) pts)).
Proof.
  assert (Pid : forall x, pt_eq (aff_apply aff_id x) x) by apply aff_apply_id.
  assert (PA : forall M p q, pt_eq p q -> pt_eq (aff_apply M p) (aff_apply M q)).
  { intros M [[a b] c] [[d e] f] (H1 & H2 & H3). unfold pt_eq, aff_apply. rewrite H1, H2, H3. repeat split; reflexivity. }
  split; eexists; (split; [reflexivity|]); unfold lz_items; cbn [lz_has_data lz_apply_affine lz_of_tractogram].
  - eapply sl_eq_trans; [apply lz_streamlines_spec|]. cbn [lz_pending lz_raw]. apply sl_eq_map. intros x.
    eapply pt_eq_trans; [apply aff_apply_mul|]. apply PA, Pid.
  - eapply sl_eq_trans; [apply lz_streamlines_spec|]. cbn [lz_pending lz_raw]. apply sl_eq_map. intros x.
    eapply pt_eq_trans; [apply aff_apply_mul|]. apply PA.
    eapply pt_eq_trans; [apply aff_apply_mul|]. apply PA, Pid.
Qed.

(* items = streamlines for EVERY lazy tractogram, however built *)
Lemma lazy_items t : lz_items t = lz_streamlines t.
Proof. unfold lz_items, lz_streamlines. destruct (lz_has_data t); reflexivity. Qed.

(* a lazily loaded TRK (raw voxmm records, trackvis->RAS+mm affine T) saved again: TCK receives
   T(raw), TRK under ANY target header (RAS+mm->trackvis affine Ti2) receives Ti2(T(raw)); T invertible *)
Lemma lazy_saved_loaded_trk raw T Ti2 : ~ aff_det T == 0 ->
  (exists w, lz_saved_tck (lz_load_trk raw T) = Some w /\ sl_eq w (map (map (aff_apply T)) raw))
  /\ (exists w, lz_saved_trk Ti2 (lz_load_trk raw T) = Some w
        /\ sl_eq w (map (map (fun x => aff_apply Ti2 (aff_apply T x))) raw)).
Proof.
  intros HT.
  assert (PA : forall M p q, pt_eq p q -> pt_eq (aff_apply M p) (aff_apply M q)).
  { intros M [[a b] c] [[d e] f] (H1 & H2 & H3). unfold pt_eq, aff_apply. rewrite H1, H2, H3. repeat split; reflexivity. }
  (* after load: pending = T . id, affine_to_rasmm = T . T^-1 == id *)
  set (R := aff_mul T (aff_inv T)).
  assert (HR : aff_eq R aff_id) by (apply aff_inv_r; exact HT).
  assert (Pid : forall x, pt_eq (aff_apply aff_id x) x) by apply aff_apply_id.
  assert (PR : forall x, pt_eq (aff_apply R x) x).
  { intros x. eapply pt_eq_trans; [apply aff_apply_proper, HR|apply Pid]. }
  split; eexists; (split; [reflexivity|]); rewrite lazy_items;
    (eapply sl_eq_trans; [apply lz_streamlines_spec|]); cbn [lz_pending lz_raw lz_apply_affine lz_load_trk];
    apply sl_eq_map; intros x.
  - fold R. eapply pt_eq_trans; [apply aff_apply_mul|]. eapply pt_eq_trans; [apply PR|].
    eapply pt_eq_trans; [apply aff_apply_mul|]. apply PA, Pid.
  - fold R. eapply pt_eq_trans; [apply aff_apply_mul|]. apply PA.
    eapply pt_eq_trans; [apply aff_apply_mul|]. eapply pt_eq_trans; [apply PR|].
    eapply pt_eq_trans; [apply aff_apply_mul|]. apply PA, Pid.
Qed.

(* concrete instance: the items of a lazily loaded TRK are its RAS+mm points *)
Definition raw0 : list (list pt) := [[(1, 2, 3); (4, 5, 6)]].
Lemma lazy_items_example :
  let t := lz_load_trk raw0 aff_halfvox in
  sl_eq (lz_items t) [[(1 # 2, 3 # 2, 5 # 2); (7 # 2, 9 # 2, 11 # 2)]]
  /\ exists w, lz_saved_tck t = Some w /\ sl_eq w [[(1 # 2, 3 # 2, 5 # 2); (7 # 2, 9 # 2, 11 # 2)]].
Proof.
  cbv zeta. split; [vm_compute; repeat constructor|]. eexists. split; [reflexivity|]. vm_compute. repeat constructor.
Qed.
