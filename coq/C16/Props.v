(* C16/Props.v — property theorems only.  Property C16: tractograms round-trip through TRK and
   TCK in RAS+ mm.  Each theorem is closed by `exact <lemma>` (or by vm_compute on a witness
   for a refutation) and followed by Print Assumptions. *)
From Coq Require Import ZArith QArith List Bool Lia.
From NV Require Import Base.Bytes C16.Tables C16.Model C16.ModelAffine
  C16.Lemmas C16.LemmasTrk C16.LemmasTckHdr C16.LemmasAffine C16.ModelLazy C16.LemmasLazy C16.LemmasSession C16.LemmasAbandon C16.LemmasTrkSwap.
From Coq Require Reals.
From NV Require C16.ModelFloat C16.LemmasFloat.
Import ListNotations.
Open Scope Z_scope.

(* ---- tables of the imported code are well-formed (re-proved whenever they change) *)
Definition offs0 : trk_offs :=
  match trk_offs_now with Some o => o | None => mkOffs 0 0 0 0 0 0 0 0 0 0 0 0 0 end.
Theorem C16_tables_wf :
  offs_of_layout trk_layout = Some offs0 /\ wf_offs offs0 = true /\ trk_header_size = 1000
  /\ triples_of false tck_fiber_delim = [nan_delim3] /\ triples_of false tck_eof_delim = [inf_delim3]
  /\ nan3 nan_delim3 = true /\ nan3 inf_delim3 = false /\ inf3 inf_delim3 = true.
Proof. vm_compute. repeat split; reflexivity. Qed.
Print Assumptions C16_tables_wf.

(* ---- TCK header: the self-referential data offset.  X = length of everything but the digits
   of the offset; for EVERY X > 0 the number written, X + d2, has exactly d2 digits, i.e. it
   is the real length of the header *)
Theorem C16_tck_offset_fixpoint : forall X, 0 < X ->
  let d1 := ndigits X in let d2 := ndigits (X + d1) in ndigits (X + d2) = d2.
Proof. exact tck_offset_fixpoint. Qed.
Print Assumptions C16_tck_offset_fixpoint.

(* ... and so every header _write_header produces, whatever its fields, says "file: . N" with
   N its own length in bytes *)
Theorem C16_tck_header_states_its_length : forall count items h, tck_header count items = Ok h ->
  h = (tck_magic ++ 10 :: join_nl (tck_lines count items))
      ++ 10 :: S_file_dot ++ dec_str (zlen h) ++ 10 :: S_END ++ [10].
Proof. exact tck_header_form. Qed.
Print Assumptions C16_tck_header_states_its_length.

(* ---- the chunked reader equals the one-buffer reader on EVERY byte string (valid or not,
   either byte order) for every buffer that is a positive multiple of one point *)
Theorem C16_chunk_independent : forall be B f, 12 <= B -> B mod 12 = 0 ->
  tck_read_data be B f = tck_read_all be f.
Proof. exact chunk_independent. Qed.
Print Assumptions C16_chunk_independent.

Theorem C16_buffer_size_adjusted : forall b, 0 <= b -> 12 <= tck_bufsize b /\ tck_bufsize b mod 12 = 0.
Proof. exact tck_bufsize_ok. Qed.
Print Assumptions C16_buffer_size_adjusted.

(* ---- TCK round trip, exact (bit patterns), any tractogram of non-empty streamlines without an
   all-NaN or all-inf point (the others are refused), any header fields that are plain "key: value" text, any buffer size: what save
   writes is header ++ data and load returns the streamlines, same number, same order *)
Theorem C16_tck_roundtrip : forall count0 items sl b,
  0 <= count0 < 10 ^ 10 -> zlen sl < 10 ^ 10 -> wf_items items -> Forall wf_stream sl -> 0 <= b ->
  (exists h0, tck_header count0 items = Ok h0) ->
  exists f h, tck_header (zlen sl) items = Ok h /\ tck_save count0 items sl = Ok f /\ f = h ++ tck_data sl
              /\ tck_load b f = Ok sl.
Proof. exact tck_file_roundtrip'. Qed.
Print Assumptions C16_tck_roundtrip.

(* ... and a streamline with a point that is all NaN (the delimiter of the format) or all infinite
   (its end-of-file marker) is refused by TckFile.save (DataError) instead of being written as a
   file that cannot be read back as the same data (repair of S-C08b) *)
Theorem C16_tck_save_refuses_delimiter_points : forall count0 items sl h0,
  tck_header count0 items = Ok h0 ->
  existsb (existsb (fun t => nan3 t || inf3 t)) sl = true -> tck_save count0 items sl = Err EBadPoint.
Proof. exact tck_save_refuses. Qed.
Print Assumptions C16_tck_save_refuses_delimiter_points.

(* ---- TRK round trip (structure): for any header layout satisfying wf_offs (in particular the
   imported one, C16_tables_wf), any position of the file object, any tractogram of non-empty
   streamlines with named scalar/property columns: same number of streamlines in the same order,
   every stored bit pattern (voxmm points, scalars, properties) as written, and each name mapped
   to its own columns.  The float arithmetic between RAS+mm and voxmm is outside this theorem. *)
Theorem C16_trk_roundtrip_struct : forall o u skeys pkeys sl pre,
  wf_offs o = true -> wf_user u -> sl <> [] -> zlen sl < 2 ^ 31 ->
  Forall wf_key skeys -> Forall wf_key pkeys ->
  NoDup (map fst skeys) -> NoDup (map fst pkeys) -> zlen skeys <= 10 -> zlen pkeys <= 10 ->
  widths skeys < 2 ^ 15 -> widths pkeys < 2 ^ 15 ->
  Forall (wf_tstream (widths skeys) (widths pkeys)) sl ->
  exists bytes,
    trk_save o (mkF (zlen pre) pre) u skeys pkeys sl = Ok bytes /\
    trk_load o (zlen pre) bytes
    = Ok (mkInfo false (zlen sl) (widths skeys) (widths pkeys) (slices_of skeys 0) (slices_of pkeys 0), sl).
Proof. exact trk_roundtrip_struct. Qed.
Print Assumptions C16_trk_roundtrip_struct.

(* ---- IDEAL ARITHMETIC (over Q): for all 48 header voxel orders x all 48 orientations of
   vox_to_ras, any non-zero voxel sizes, any dimensions, any invertible vox_to_ras, the
   trackvis->RAS+mm affine is defined, invertible, and to_rasmm . to_trackvis = id both ways *)
Theorem C16_affine_inverse_ideal : forall vs dims oh oa V,
  In oh all_ornts -> In oa all_ornts ->
  ~ (fst (fst vs) == 0)%Q -> ~ (snd (fst vs) == 0)%Q -> ~ (snd vs == 0)%Q -> ~ (aff_det V == 0)%Q ->
  exists T Ti, to_rasmm vs dims oh oa V = Some T /\ to_trackvis vs dims oh oa V = Some Ti
    /\ aff_eq (aff_mul T Ti) aff_id /\ aff_eq (aff_mul Ti T) aff_id
    /\ (forall p, pt_eq (aff_apply T (aff_apply Ti p)) p)
    /\ (forall p, pt_eq (aff_apply Ti (aff_apply T p)) p).
Proof. exact affine_inverse_ideal. Qed.
Print Assumptions C16_affine_inverse_ideal.

Theorem C16_orders_are_the_48_orientations :
  length all_orders = 48%nat /\
  forall c o, In c all_orders -> order_ornt c = Some o -> In o all_ornts.
Proof. split; [apply orders_are_ornts|exact order_ornt_in]. Qed.
Print Assumptions C16_orders_are_the_48_orientations.

(* ---- LazyTractogram (IDEAL ARITHMETIC over Q): pending affines compose in application order.
   apply_affine(A, lazy=True) then apply_affine(B, lazy=True) leaves B . A . pending pending, and
   every point x that the generator yields comes out of .streamlines as B(A(pending x)) - for any
   tractogram, however built, whatever was pending.  (TrkFile.save chains to_world(lazy=True) and
   apply_affine(rasmm->voxmm): the written points are Ti(to_rasmm(x)), not to_rasmm(Ti(x)).) *)
Theorem C16_lazy_affine_composition : forall A B t,
  lz_pending (lz_apply_affine B (lz_apply_affine A t)) = aff_mul B (aff_mul A (lz_pending t))
  /\ sl_eq (lz_streamlines (lz_apply_affine B (lz_apply_affine A t)))
           (map (map (fun x => aff_apply B (aff_apply A (aff_apply (lz_pending t) x)))) (lz_raw t)).
Proof. exact lazy_affine_composition. Qed.
Print Assumptions C16_lazy_affine_composition.

(* the order is observable: the two compositions differ on a concrete instance *)
Theorem C16_lazy_composition_order_matters : exists A B x,
  ~ pt_eq (aff_apply B (aff_apply A x)) (aff_apply A (aff_apply B x)).
Proof. exact composition_order_matters. Qed.
Print Assumptions C16_lazy_composition_order_matters.

(* affine_to_rasmm keeps pointing at RAS+mm through apply_affine(B, lazy=True), B invertible *)
Theorem C16_lazy_to_rasmm_invariant : forall B t R, ~ (aff_det B == 0)%Q -> lz_to_rasmm t = Some R ->
  exists R', lz_to_rasmm (lz_apply_affine B t) = Some R' /\
    forall x, pt_eq (aff_apply R' (aff_apply B x)) (aff_apply R x).
Proof. exact lazy_to_rasmm_invariant. Qed.
Print Assumptions C16_lazy_to_rasmm_invariant.

(* saving a tractogram held in any space (affine_to_rasmm = A), eager or lazy via from_tractogram:
   TCK receives A(x), TRK receives Ti(A(x)) (the lazily loaded case: C16_lazy_saved_loaded_trk_ideal) *)
Theorem C16_lazy_saved_points_ideal : forall pts A Ti,
  (exists w, lz_saved_tck (lz_of_tractogram pts (Some A)) = Some w /\ sl_eq w (map (map (aff_apply A)) pts))
  /\ (exists w, lz_saved_trk Ti (lz_of_tractogram pts (Some A)) = Some w
        /\ sl_eq w (map (map (fun x => aff_apply Ti (aff_apply A x))) pts)).
Proof. exact lazy_saved_from_tractogram. Qed.
Print Assumptions C16_lazy_saved_points_ideal.

(* the items of a lazy tractogram (what `for item in t` and both save() methods see) carry the
   points of its .streamlines - for EVERY LazyTractogram, built by from_tractogram or by
   from_data_func (lazily loaded files), whatever is pending.  (True since the repair of S-C16c,
   commit 3c04c5b7: LazyTractogram.data applies the pending affine to the data_func items.) *)
Theorem C16_lazy_items : forall t, lz_items t = lz_streamlines t.
Proof. exact lazy_items. Qed.
Print Assumptions C16_lazy_items.

(* ... so a lazily loaded TRK (raw voxmm records, trackvis->RAS+mm affine T, T invertible) saved
   again writes the right coordinates: TCK receives T(raw); TRK under an ARBITRARY target header
   (RAS+mm->trackvis affine Ti2) receives Ti2(T(raw)) *)
Theorem C16_lazy_saved_loaded_trk_ideal : forall raw T Ti2, ~ (aff_det T == 0)%Q ->
  (exists w, lz_saved_tck (lz_load_trk raw T) = Some w /\ sl_eq w (map (map (aff_apply T)) raw))
  /\ (exists w, lz_saved_trk Ti2 (lz_load_trk raw T) = Some w
        /\ sl_eq w (map (map (fun x => aff_apply Ti2 (aff_apply T x))) raw)).
Proof. exact lazy_saved_loaded_trk. Qed.
Print Assumptions C16_lazy_saved_loaded_trk_ideal.

Example C16_lazy_items_nonvacuous :
  let t := lz_load_trk raw0 aff_halfvox in
  sl_eq (lz_items t) [[(1 # 2, 3 # 2, 5 # 2); (7 # 2, 9 # 2, 11 # 2)]]%Q
  /\ exists w, lz_saved_tck t = Some w /\ sl_eq w [[(1 # 2, 3 # 2, 5 # 2); (7 # 2, 9 # 2, 11 # 2)]]%Q.
Proof. exact lazy_items_example. Qed.

(* ---- file position: after load from a file object at ANY position - eager, or lazy followed by
   ANY sequence of passes over the streamlines, each run to exhaustion or abandoned after k items
   (the generator dropped; LazyTractogram.from_data_func does this once inside load) - the
   position is what it was and the bytes are unchanged.  (True since the repair of S-C16b,
   commit c36353e5: the restoring seek is in a `finally` clause of both _read generators.) *)
Theorem C16_position_restored :
  (forall b lazy passes f r f', tck_session b lazy passes f = Ok (r, f') ->
     fpos f' = fpos f /\ fbytes f' = fbytes f)
  /\ (forall o lazy passes f r f', trk_session o lazy passes f = Ok (r, f') ->
     fpos f' = fpos f /\ fbytes f' = fbytes f).
Proof. split; [exact tck_session_restores|exact trk_session_restores]. Qed.
Print Assumptions C16_position_restored.

(* ---- lazy and eager loading agree: for ANY file object (any bytes, any position) on which both
   loads succeed, every COMPLETE pass over the streamlines of the lazily loaded file - after any
   earlier complete or abandoned passes - returns exactly what the eager load returns (each pass
   starts from the same position and bytes: C16_position_restored).  pass_agrees says nothing
   about an abandoned pass: that is C16_abandoned_is_prefix below. *)
Theorem C16_lazy_equals_eager :
  (forall b ps0 passes f r0 fe r f',
     tck_session b false ps0 f = Ok (r0, fe) -> tck_session b true passes f = Ok (r, f') ->
     exists re, r0 = [re] /\ Forall2 (pass_agrees re) (PAbandon 1 :: passes) r)
  /\ (forall o ps0 passes f r0 fe r f',
     trk_session o false ps0 f = Ok (r0, fe) -> trk_session o true passes f = Ok (r, f') ->
     exists re, r0 = [re] /\ Forall2 (pass_agrees re) (PAbandon 1 :: passes) r).
Proof. split; [exact tck_lazy_eager|exact trk_lazy_eager]. Qed.
Print Assumptions C16_lazy_equals_eager.

(* ---- an ABANDONED pass (the generator dropped after its k-th item: next(iter(...)), zip with a
   shorter sequence, the first-item peek inside load(lazy_load=True)) returns exactly the first k
   streamlines of the eager load - for every k (k beyond the end: all of them), any number of
   earlier complete or abandoned passes, TCK with any buffer size and TRK alike: pass_exact is
   pass_agrees with `a = firstn k re` for PAbandon k.  Hypothesis: the eager load of the same
   file object succeeds (an abandoned pass never meets the errors of later records, so the
   converse is not claimed); C16_lazy_never_fails: then no lazy session fails either. *)
Theorem C16_abandoned_is_prefix :
  (forall b ps0 passes f r0 fe r f',
     tck_session b false ps0 f = Ok (r0, fe) -> tck_session b true passes f = Ok (r, f') ->
     exists re, r0 = [re] /\ Forall2 (pass_exact re) (PAbandon 1 :: passes) r)
  /\ (forall o ps0 passes f r0 fe r f',
     trk_session o false ps0 f = Ok (r0, fe) -> trk_session o true passes f = Ok (r, f') ->
     exists re, r0 = [re] /\ Forall2 (pass_exact re) (PAbandon 1 :: passes) r).
Proof. split; [exact tck_lazy_prefix|exact trk_lazy_prefix]. Qed.
Print Assumptions C16_abandoned_is_prefix.

Theorem C16_lazy_never_fails :
  (forall b ps0 passes f r0 fe, tck_session b false ps0 f = Ok (r0, fe) ->
     exists r f', tck_session b true passes f = Ok (r, f'))
  /\ (forall o ps0 passes f r0 fe, trk_session o false ps0 f = Ok (r0, fe) ->
     exists r f', trk_session o true passes f = Ok (r, f')).
Proof. split; [exact tck_lazy_total|exact trk_lazy_total]. Qed.
Print Assumptions C16_lazy_never_fails.

(* ---- BYTE ORDER of a TRK file (nibabel writes little-endian only; big-endian files come from
   other tools).  swapped_header o hbL hbB: hbB is hbL with each numeric field the parser reads
   (hdr_size, version, n_scalars, n_properties, n_count) byte-reversed and the two name blocks
   equal.  Then the parser detects the other order from hdr_size and returns the same header
   facts, the record loop returns the same streamlines from the byte-reversed records, and
   trk_load of the big-endian file equals trk_load of the little-endian one in everything but
   the recorded endianness.  The remaining header fields (voxel sizes, dimensions, vox_to_ras,
   voxel_order) are not part of trk_info: their byte order is compared by the harness only
   (trk_damaged:swap, big-endian copies). *)
Theorem C16_trk_header_byte_order : forall o hb hb' info,
  swapped_header o hb hb' ->
  bytes_ok (get_at (o_hsize o) 4 hb) -> length (get_at (o_hsize o) 4 hb) = 4%nat ->
  trk_parse_header o hb = Ok info -> i_be info = false ->
  trk_parse_header o hb' =
    Ok (mkInfo true (i_count info) (i_nscal info) (i_nprop info) (i_sslices info) (i_pslices info)).
Proof. exact trk_header_swapped. Qed.
Print Assumptions C16_trk_header_byte_order.

Theorem C16_trk_data_byte_order : forall S P sl fuel, 0 <= S -> 0 <= P ->
  Forall (wf_tstream S P) sl -> (length sl < fuel)%nat ->
  forall be, trk_loop fuel be (3 + S) P (Some (zlen sl)) 0 (flat_map (trk_record be) sl) [] = Ok sl.
Proof. exact trk_data_any_order. Qed.
Print Assumptions C16_trk_data_byte_order.

Theorem C16_trk_load_byte_order : forall o hbL hbB info S P sl,
  zlen hbL = trk_header_size -> zlen hbB = trk_header_size ->
  swapped_header o hbL hbB ->
  bytes_ok (get_at (o_hsize o) 4 hbL) -> length (get_at (o_hsize o) 4 hbL) = 4%nat ->
  trk_parse_header o hbL = Ok info -> i_be info = false ->
  i_nscal info = S -> i_nprop info = P -> i_count info = zlen sl -> sl <> [] ->
  0 <= S -> 0 <= P -> Forall (wf_tstream S P) sl ->
  exists infoB,
    trk_load o 0 (hbB ++ flat_map (trk_record true) sl) = Ok (infoB, sl)
    /\ trk_load o 0 (hbL ++ flat_map (trk_record false) sl) = Ok (info, sl)
    /\ i_be infoB = true /\ i_count infoB = i_count info /\ i_nscal infoB = i_nscal info
    /\ i_nprop infoB = i_nprop info /\ i_sslices infoB = i_sslices info /\ i_pslices infoB = i_pslices info.
Proof. exact trk_load_swapped. Qed.
Print Assumptions C16_trk_load_byte_order.


(* ---- FLOAT ARITHMETIC of the TRK coordinates, first bound (Flocq, round-to-nearest-even in the
   formats FLX 53 / FLX 24: unbounded exponent range, i.e. no overflow and no subnormal product),
   for ONE coordinate in the common DIAGONAL case (voxel sizes + translation; header voxel order
   and orientation of vox_to_ras equal up to axis flips): trackvis->RAS+mm is x |-> a x + b and
   RAS+mm->trackvis is x |-> a' x + b' with float64 a, b, a', b'.
   coord_apply a b x = f32(fl64(fl64(a x) + b)) is what apply_affine computes and what is stored
   (save: '<f4' record; eager load: the float32 coordinate array); coord_apply64 keeps the
   float64 (lazy load).  u64 = 2^-53, u32 = 2^-24, e64 = 3 u64, e32 = u32 + (1 + u32) 3 u64.
   One step is within e32 (e64) of the exact a x + b, relative to the magnitude budget
   |a x| + |b|; save followed by load returns x within
     e32 (|a y| + |b|) + |a| e32 (|a' x| + |b'|) + |a a' - 1| |x| + |a b' + b|      (y = stored voxmm)
   where the last two terms are the residuals of the numerical inverse (np.linalg.inv), zero for
   an exact inverse.  With both budgets about |x| this is ~ 2 * 2^-24 |x| = one float32 ulp of x:
   "equal to single precision". *)
Module FloatBound.
Import Reals C16.ModelFloat.
Local Open Scope R_scope.

Theorem C16_trk_coord_step_bound : forall a b x,
  Rabs (coord_apply a b x - (a * x + b)) <= e32 * (Rabs (a * x) + Rabs b)
  /\ Rabs (coord_apply64 a b x - (a * x + b)) <= e64 * (Rabs (a * x) + Rabs b).
Proof. intros a b x. split; [exact (C16.LemmasFloat.coord_apply_err a b x)|exact (C16.LemmasFloat.coord_apply64_err a b x)]. Qed.
Print Assumptions C16_trk_coord_step_bound.

Theorem C16_trk_coord_roundtrip_bound : forall a b a' b' x,
  let y := coord_apply a' b' x in
  Rabs (trk_coord_roundtrip a b a' b' x - x)
  <= e32 * (Rabs (a * y) + Rabs b) + Rabs a * (e32 * (Rabs (a' * x) + Rabs b'))
     + Rabs (a * a' - 1) * Rabs x + Rabs (a * b' + b).
Proof. exact C16.LemmasFloat.trk_roundtrip_err. Qed.
Print Assumptions C16_trk_coord_roundtrip_bound.

Theorem C16_trk_coord_roundtrip_bound_lazy : forall a b a' b' x,
  let y := coord_apply a' b' x in
  Rabs (trk_coord_roundtrip_lazy a b a' b' x - x)
  <= e64 * (Rabs (a * y) + Rabs b) + Rabs a * (e32 * (Rabs (a' * x) + Rabs b'))
     + Rabs (a * a' - 1) * Rabs x + Rabs (a * b' + b).
Proof. exact C16.LemmasFloat.trk_roundtrip_lazy_err. Qed.
Print Assumptions C16_trk_coord_roundtrip_bound_lazy.

Theorem C16_float_units : u64 = / IZR (2 ^ 53) /\ u32 = / IZR (2 ^ 24).
Proof. exact C16.LemmasFloat.u_values. Qed.
Print Assumptions C16_float_units.
End FloatBound.

Definition one_tck : list (list triple) := [[(1065353216, 0, 3212836864)]; [(7, 8, 9); (1, 2, 3)]].
Definition one_trk : list trk_stream :=
  [mkStream [[1065353216; 0; 3212836864]] []; mkStream [[7; 8; 9]; [1; 2; 3]] []].
Definition user0 : trk_user :=
  mkUser [1; 1; 1] [1065353216; 1065353216; 1065353216] [0; 0; 0]
         [1065353216; 0; 0; 0; 0; 1065353216; 0; 0; 0; 0; 1065353216; 0; 0; 0; 0; 1065353216] [82; 65; 83] 0 0 0.

(* the sessions do succeed on real files, with abandoned passes returning the first items *)
Example C16_position_nonvacuous :
  (exists bytes f', tck_save 0 [] one_tck = Ok bytes
     /\ tck_session 4194304 true [PAbandon 1; PComplete; PAbandon 2] (mkF 5 bytes)
        = Ok ([firstn 1 one_tck; firstn 1 one_tck; one_tck; one_tck], f') /\ fpos f' = 5)
  /\ (exists bytes f', trk_save offs0 (mkF 0 []) user0 [] [] one_trk = Ok bytes
     /\ trk_session offs0 true [PAbandon 1; PComplete] (mkF 0 bytes)
        = Ok ([firstn 1 one_trk; firstn 1 one_trk; one_trk], f') /\ fpos f' = 0).
Proof.
  split; eexists; eexists; (split; [vm_compute; reflexivity|split; vm_compute; reflexivity]).
Qed.

(* ---- non-vacuity: concrete non-trivial instances meet the hypotheses *)
Example C16_tck_nonvacuous :
  let items := [([99; 111; 109; 109; 101; 110; 116], [104; 105; 32; 116; 104; 101; 114; 101])] in
  let sl := [[(1065353216, 2143289345, 4286578688); (0, 2147483648, 1)]; [(2139095040, 7, 2139095040)]] in
  wf_items items /\ Forall wf_stream sl /\ (exists h0, tck_header 7 items = Ok h0)
  /\ (forall b, 0 <= b -> exists f h, tck_header (zlen sl) items = Ok h /\ tck_save 7 items sl = Ok f
                                  /\ f = h ++ tck_data sl /\ tck_load b f = Ok sl).
Proof.
  cbv zeta.
  assert (W : wf_items [([99; 111; 109; 109; 101; 110; 116], [104; 105; 32; 116; 104; 101; 114; 101])]).
  { unfold wf_items. vm_compute kept. constructor; [|constructor]. split; clean_lit. }
  assert (S : Forall wf_stream [[(1065353216, 2143289345, 4286578688); (0, 2147483648, 1)]; [(2139095040, 7, 2139095040)]]).
  { repeat constructor; try discriminate; cbn; lia. }
  assert (H0 : exists h0, tck_header 7 [([99; 111; 109; 109; 101; 110; 116], [104; 105; 32; 116; 104; 101; 114; 101])] = Ok h0).
  { eexists. vm_compute. reflexivity. }
  split; [exact W|]. split; [exact S|]. split; [exact H0|].
  intros b Hb. apply tck_file_roundtrip'; try assumption; cbn; lia.
Qed.

Example C16_trk_nonvacuous :
  let skeys := [([102; 97], 1); ([99; 111; 108], 3)] in
  let pkeys := [([119], 2)] in
  let sl := [mkStream [[1; 2; 3; 4; 5; 6; 7]; [8; 9; 10; 11; 12; 13; 14]] [15; 16];
             mkStream [[21; 22; 23; 24; 25; 26; 2143289344]] [4286578688; 0]] in
  wf_offs offs0 = true /\ wf_user user0 /\ Forall wf_key skeys /\ Forall wf_key pkeys
  /\ Forall (wf_tstream (widths skeys) (widths pkeys)) sl
  /\ exists bytes, trk_save offs0 (mkF 3 [9; 9; 9]) user0 skeys pkeys sl = Ok bytes
       /\ trk_load offs0 3 bytes = Ok (mkInfo false 2 4 2 [([102; 97], (0, 1)); ([99; 111; 108], (1, 4))] [([119], (0, 2))], sl).
Proof.
  cbv zeta.
  assert (K1 : Forall wf_key [([102; 97], 1); ([99; 111; 108], 3)]).
  { repeat constructor; try discriminate; vm_compute; intuition discriminate. }
  assert (K2 : Forall wf_key [([119], 2)]).
  { repeat constructor; try discriminate; vm_compute; intuition discriminate. }
  assert (U : wf_user user0) by (repeat split).
  assert (O : wf_offs offs0 = true) by (vm_compute; reflexivity).
  assert (T : Forall (wf_tstream 4 2) [mkStream [[1; 2; 3; 4; 5; 6; 7]; [8; 9; 10; 11; 12; 13; 14]] [15; 16];
             mkStream [[21; 22; 23; 24; 25; 26; 2143289344]] [4286578688; 0]]).
  { repeat constructor; try discriminate; unfold f32_ok; cbn; lia. }
  split; [exact O|]. split; [exact U|]. split; [exact K1|]. split; [exact K2|]. split; [exact T|].
  set (sl := [mkStream [[1; 2; 3; 4; 5; 6; 7]; [8; 9; 10; 11; 12; 13; 14]] [15; 16];
              mkStream [[21; 22; 23; 24; 25; 26; 2143289344]] [4286578688; 0]]) in *.
  set (skeys := [([102; 97], 1); ([99; 111; 108], 3)]) in *. set (pkeys := [([119], 2)]) in *.
  assert (Hne : sl <> []) by discriminate.
  assert (Hn : zlen sl < 2 ^ 31) by (cbn; lia).
  assert (N1 : NoDup (map fst skeys)).
  { repeat constructor; cbn; intuition discriminate. }
  assert (N2 : NoDup (map fst pkeys)).
  { repeat constructor; cbn; intuition discriminate. }
  destruct (trk_roundtrip_struct offs0 user0 skeys pkeys sl [9; 9; 9] O U Hne Hn K1 K2 N1 N2
              ltac:(cbn; lia) ltac:(cbn; lia) ltac:(cbn; lia) ltac:(cbn; lia) T) as (bytes & E1 & E2).
  exists bytes. split; [exact E1|exact E2].
Qed.

(* the premises are met by the header nibabel's writer model produces, with the five fields swapped *)
Definition swap_at (off n : Z) (hb : list Z) : list Z := set_at off (rev (get_at off n hb)) hb.
Definition bo_sl : list trk_stream :=
  [mkStream [[1; 2; 3; 4; 5; 6; 7]; [8; 9; 10; 11; 12; 13; 14]] [15; 16];
   mkStream [[21; 22; 23; 24; 25; 26; 2143289344]] [4286578688; 0]].
Definition bo_hbL : list Z :=
  match trk_save offs0 (mkF 0 []) user0 [([102; 97], 1); ([99; 111; 108], 3)] [([119], 2)] bo_sl with
  | Ok b => takez trk_header_size b | Err _ => [] end.
Definition bo_hbB : list Z :=
  swap_at (o_count offs0) 4 (swap_at (o_nprop offs0) 2 (swap_at (o_nscal offs0) 2
    (swap_at (o_version offs0) 4 (swap_at (o_hsize offs0) 4 bo_hbL)))).
Example C16_trk_byte_order_nonvacuous :
  zlen bo_hbL = trk_header_size /\ zlen bo_hbB = trk_header_size /\ bo_hbB <> bo_hbL
  /\ swapped_header offs0 bo_hbL bo_hbB
  /\ get_at (o_hsize offs0) 4 bo_hbL = [232; 3; 0; 0]
  /\ (exists info, trk_parse_header offs0 bo_hbL = Ok info /\ i_be info = false
        /\ i_nscal info = 4 /\ i_nprop info = 2 /\ i_count info = zlen bo_sl)
  /\ (exists infoB, trk_load offs0 0 (bo_hbB ++ flat_map (trk_record true) bo_sl) = Ok (infoB, bo_sl)
        /\ i_be infoB = true).
Proof.
  split; [vm_compute; reflexivity|]. split; [vm_compute; reflexivity|].
  split; [vm_compute; discriminate|].
  split; [unfold swapped_header; repeat split; vm_compute; reflexivity|].
  split; [vm_compute; reflexivity|].
  split; [eexists; split; [vm_compute; reflexivity|repeat split; reflexivity]|].
  eexists; split; [vm_compute; reflexivity|reflexivity].
Qed.
Print Assumptions C16_trk_byte_order_nonvacuous.

(* the converse of C16_abandoned_is_prefix is false, as its comment says: an abandoned pass
   succeeds on a file whose eager load fails (two whole records followed by a torn count field) *)
Theorem C16_abandoned_may_succeed_where_eager_fails : exists hdr f,
  (exists e, trk_read_fo hdr f = Err e)
  /\ trk_abandon_fo hdr 1 f = Ok (firstn 1 bo_sl, f)
  /\ trk_abandon_fo hdr 2 f = Ok (bo_sl, f)
  /\ (exists e, trk_abandon_fo hdr 3 f = Err e).
Proof.
  exists (mkInfo false 0 4 2 [] [], 0), (mkF 0 (flat_map (trk_record false) bo_sl ++ [1; 0])).
  split; [eexists; vm_compute; reflexivity|].
  split; [vm_compute; reflexivity|]. split; [vm_compute; reflexivity|].
  eexists; vm_compute; reflexivity.
Qed.
Print Assumptions C16_abandoned_may_succeed_where_eager_fails.
