From Coq Require Import ZArith List Bool Lia.
From NV Require Import Base.Bytes C16.Tables C16.Model C16.Lemmas.
Import ListNotations.
Open Scope Z_scope.
Example C16_nonvacuous : ndigits 100 = 3.
Proof. vm_compute; reflexivity. Qed.
