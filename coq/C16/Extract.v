(* C16/Extract.v — extraction of the executable model (ExtrOcamlBasic only) *)
Require Extraction. Require ExtrOcamlBasic.
From NV Require Import Base.Bytes C16.Tables C16.Model C16.ModelAffine C16.ModelLazy.
Extraction Language OCaml.
Extraction "c16_model.ml" ndigits dec_str tck_hdr_offset tck_header tck_save tck_parse_header
  tck_bufsize tck_read_data tck_read_all tck_load enc_points triples_of
  trk_offs_now wf_offs trk_save trk_load trk_record rows_of words_of enc_list
  tck_session trk_session
  order_ornt io_orient_sp to_rasmm to_trackvis aff_apply all_ornts
  lz_of_tractogram lz_of_data_func lz_streamlines lz_items lz_apply_affine lz_to_world aff_red.
