(* C16/LemmasTrkSwap.v — a TRK file in the OTHER byte order (nibabel always writes little-endian;
   big-endian files come from other tools) loads the same tractogram: the header parser detects
   the byte order from the hdr_size field and then reads every numeric field in that order, the
   record loop decodes every count, coordinate, scalar and property in that order. *)
From Coq Require Import ZArith List Bool Lia.
From NV Require Import Base.Bytes C16.Tables C16.Model C16.Lemmas C16.LemmasTrk.
Import ListNotations.
Open Scope Z_scope.

Lemma dec_s_swap l : dec_s true (rev l) = dec_s false l.
Proof. unfold dec_s. rewrite rev_length. f_equal. apply (dec_swap false). Qed.

(* hb' is hb with each numeric field the parser reads byte-reversed, the name blocks equal *)
Definition swapped_header (o : trk_offs) (hb hb' : list Z) : Prop :=
  get_at (o_hsize o) 4 hb' = rev (get_at (o_hsize o) 4 hb)
  /\ get_at (o_version o) 4 hb' = rev (get_at (o_version o) 4 hb)
  /\ get_at (o_nscal o) 2 hb' = rev (get_at (o_nscal o) 2 hb)
  /\ get_at (o_nprop o) 2 hb' = rev (get_at (o_nprop o) 2 hb)
  /\ get_at (o_count o) 4 hb' = rev (get_at (o_count o) 4 hb)
  /\ get_at (o_sname o) 200 hb' = get_at (o_sname o) 200 hb
  /\ get_at (o_pname o) 200 hb' = get_at (o_pname o) 200 hb.

Lemma hsize_le_bytes hs : bytes_ok hs -> length hs = 4%nat -> dec_s false hs = trk_header_size ->
  hs = [232; 3; 0; 0].
Proof.
  intros Hok Hlen H. pose proof (dec_range false hs Hok) as R. rewrite Hlen in R.
  unfold dec_s, to_signed in H. rewrite Hlen in H. change (pow256 4) with 4294967296 in *.
  change trk_header_size with 1000 in H.
  assert (E : dec false hs = 1000).
  { destruct (dec false hs <? 4294967296 / 2) eqn:C; lia. }
  rewrite <- (enc_dec false hs Hok), Hlen, E. reflexivity.
Qed.

Lemma trk_header_swapped o hb hb' info :
  swapped_header o hb hb' ->
  bytes_ok (get_at (o_hsize o) 4 hb) -> length (get_at (o_hsize o) 4 hb) = 4%nat ->
  trk_parse_header o hb = Ok info -> i_be info = false ->
  trk_parse_header o hb' =
    Ok (mkInfo true (i_count info) (i_nscal info) (i_nprop info) (i_sslices info) (i_pslices info)).
Proof.
  intros (E1 & E2 & E3 & E4 & E5 & E6 & E7) Hok Hlen H Hbe.
  unfold trk_parse_header in *. rewrite E1, E2, E3, E4, E5, E6, E7. cbv zeta in *. rewrite dec_s_swap.
  destruct (dec_s false (get_at (o_hsize o) 4 hb) =? trk_header_size) eqn:C.
  - apply Z.eqb_eq in C. pose proof (hsize_le_bytes _ Hok Hlen C) as Ehs. rewrite Ehs.
    change (dec_s false (rev [232; 3; 0; 0]) =? trk_header_size) with false.
    change (dec_s false [232; 3; 0; 0] =? trk_header_size) with true. cbv iota. rewrite !dec_s_swap.
    destruct (negb _); [discriminate|].
    destruct (name_slices _ _ S_scalars) as [ss|]; [|discriminate].
    destruct (name_slices _ _ S_properties) as [ps|]; [|discriminate].
    injection H as <-. reflexivity.
  - (* the original was not detected as little-endian: contradicts i_be info = false *)
    destruct (dec_s true (get_at (o_hsize o) 4 hb) =? trk_header_size); [|discriminate].
    destruct (negb _); [discriminate|].
    destruct (name_slices _ _ S_scalars) as [ss|]; [|discriminate].
    destruct (name_slices _ _ S_properties) as [ps|]; [|discriminate].
    injection H as <-. discriminate Hbe.
Qed.

(* the data block: records written in either byte order read back as the same streamlines *)
Lemma trk_data_any_order S P sl fuel : 0 <= S -> 0 <= P ->
  Forall (wf_tstream S P) sl -> (length sl < fuel)%nat ->
  forall be, trk_loop fuel be (3 + S) P (Some (zlen sl)) 0 (flat_map (trk_record be) sl) [] = Ok sl.
Proof.
  intros HS HP Hwf Hf be.
  rewrite (trk_loop_records be S P HS HP sl fuel 0 [] (zlen sl)); [reflexivity|assumption|assumption|lia].
Qed.

(* swapped header + swapped data: trk_load gives the same streamlines and the same header facts *)
Lemma trk_load_swapped o hbL hbB info S P sl :
  zlen hbL = trk_header_size -> zlen hbB = trk_header_size ->
  swapped_header o hbL hbB ->
  bytes_ok (get_at (o_hsize o) 4 hbL) -> length (get_at (o_hsize o) 4 hbL) = 4%nat ->
  trk_parse_header o hbL = Ok info -> i_be info = false ->
  i_nscal info = S -> i_nprop info = P -> i_count info = zlen sl -> sl <> [] ->
  0 <= S -> 0 <= P -> Forall (wf_tstream S P) sl ->
  exists infoB,
    trk_load o 0 (hbB ++ flat_map (trk_record true) sl) = Ok (infoB, sl)
    /\ trk_load o 0 (hbL ++ flat_map (trk_record false) sl) = Ok (info, sl)
    /\ i_be infoB = true /\ i_count infoB = i_count info /\ i_nscal infoB = i_nscal info
    /\ i_nprop infoB = i_nprop info /\ i_sslices infoB = i_sslices info /\ i_pslices infoB = i_pslices info.
Proof.
  intros LL LB Hsw Hok Hlen Hp Hbe HS HP Hc Hne S0 P0 Hwf.
  pose proof (trk_header_swapped _ _ _ _ Hsw Hok Hlen Hp Hbe) as HpB.
  assert (Hcnt : (i_count info =? 0) = false).
  { apply Z.eqb_neq. rewrite Hc. destruct sl; [congruence|]. rewrite zlen_cons. pose proof (zlen_nonneg sl). lia. }
  assert (Load : forall hb be inf, zlen hb = trk_header_size -> trk_parse_header o hb = Ok inf ->
            i_be inf = be -> i_nscal inf = S -> i_nprop inf = P -> i_count inf = zlen sl ->
            trk_load o 0 (hb ++ flat_map (trk_record be) sl) = Ok (inf, sl)).
  { intros hb be inf L Hparse Hb Hs' Hp' Hc'. unfold trk_load.
    rewrite (dropz_eq _ 0), (drop_0 0) by lia. rewrite takez_eq, take_app_len by exact L.
    rewrite L, Z.sub_diag. change (zeros 0) with (@nil Z).
    rewrite app_nil_r, Hparse, Z.add_0_l. rewrite dropz_eq, drop_app_len by exact L.
    rewrite Hs', Hp', Hb, Hc'.
    replace ((S <? 0) || (P <? 0)) with false by lia.
    replace (zlen sl =? 0) with false by (rewrite <- Hc, Hcnt; reflexivity).
    cbv iota. rewrite trk_data_any_order; [reflexivity|assumption|assumption|assumption|].
    pose proof (records_length be sl). lia. }
  eexists. split; [apply (Load hbB true); [exact LB|exact HpB|reflexivity|exact HS|exact HP|exact Hc]|].
  split; [apply (Load hbL false); assumption|]. cbn. repeat split; reflexivity.
Qed.
