(* C05/Model.v — Gallina counterparts of the code that rearranges or crops the voxel grid:
     nibabel/orientations.py  io_orientation (the loop after the SVD), ornt_transform,
                              apply_orientation, inv_ornt_aff, ornt2axcodes, axcodes2ornt,
                              aff2axcodes
     nibabel/spatialimages.py SpatialFirstSlicer.check_slicing / slice_affine / __getitem__
                              (as of fix 71fc4b9b: start, step from slice.indices),
                              SpatialImage.as_reoriented
     nibabel/nifti1.py        Nifti1Pair.as_reoriented (dim_info remap)
     nibabel/funcs.py         as_closest_canonical
   Conventions.  An orientation is a list of rows (axis, flip); rows of the float array that
   are [nan, nan] are None (only io_orientation / axcodes2ornt produce them).  An array is
   (shape, get : index -> value): NumPy's flip / transpose / basic indexing are given at index
   level (what they return at output index j), validated against NumPy on every voxel of
   every case of ./check C05.  Affines are matrices (lists of rows) over Z: the check uses
   integer-valued affines so that world positions compare exactly; every identity proved is
   a polynomial identity and holds in any commutative ring.  The part of io_orientation
   before its loop (zooms, SVD, rank threshold, R = P[:,keep] . Qs[keep]) is an oracle
   `rot`, a parameter; its entries are scaled to integers by a common positive factor
   (binary floats allow that exactly), which the loop is invariant under, the absolute
   tolerance of np.allclose being scaled with them.  canonical_slicers is C06's model.
   Definitions only. *)
From Coq Require Import ZArith List Bool.
From NV Require Import Base.PySlice C06.Model.
Import ListNotations.
Open Scope Z_scope.

(* ------------------------------------------------------------------ results *)
Inductive e5 := E5Index | E5Value | E5Orient.
Inductive r5 (A : Type) := Ok5 (a : A) | Err5 (e : e5).
Arguments Ok5 {A}. Arguments Err5 {A}.
Definition bind5 {A B} (r : r5 A) (f : A -> r5 B) : r5 B :=
  match r with Ok5 a => f a | Err5 e => Err5 e end.
Notation "x <~ r ;; k" := (bind5 r (fun x => k)) (at level 61, r at next level, right associativity).

Definition lift6 {A} (r : res A) : r5 A :=
  match r with Ok a => Ok5 a | Err EIndex => Err5 E5Index | Err _ => Err5 E5Value end.

(* ------------------------------------------------------------------ lists *)
Definition znth {A} (l : list A) (k : Z) (d : A) : A := nth (Z.to_nat k) l d.

Fixpoint upd {A} (l : list A) (k : nat) (v : A) : list A :=
  match l, k with
  | [], _ => []
  | _ :: r, O => v :: r
  | x :: r, S k' => x :: upd r k' v
  end.
Definition zupd {A} (l : list A) (k : Z) (v : A) : list A := upd l (Z.to_nat k) v.

(* position of the first occurrence (length of the list when absent) *)
Fixpoint index_of (a : Z) (l : list Z) : Z :=
  match l with [] => 0 | x :: r => if x =? a then 0 else 1 + index_of a r end.

(* ------------------------------------------------------------------ matrices *)
Definition mat := list (list Z).

Fixpoint dot (u v : list Z) : Z :=
  match u, v with x :: u', y :: v' => x * y + dot u' v' | _, _ => 0 end.
Definition mat_vec (M : mat) (v : list Z) : list Z := map (fun r => dot r v) M.
Definition mcol (M : mat) (k : nat) : list Z := map (fun r => nth k r 0) M.
Definition ncols (M : mat) : nat := match M with [] => O | r :: _ => length r end.
Definition mat_mul (A B : mat) : mat :=
  map (fun r => map (fun k => dot r (mcol B k)) (seq 0 (ncols B))) A.
Definition eye (n : Z) : mat :=
  map (fun i => map (fun k => if i =? k then 1 else 0) (zseq n)) (zseq n).
(* np.dot of 2-D arrays: inner dimensions must agree *)
Definition np_dot (A B : mat) : r5 mat :=
  if forallb (fun r => Nat.eqb (length r) (length B)) A then Ok5 (mat_mul A B) else Err5 E5Value.

(* ------------------------------------------------------------------ arrays *)
Record arr (V : Type) := mkArr { a_shape : list Z; a_get : list Z -> V }.
Arguments mkArr {V}. Arguments a_shape {V}. Arguments a_get {V}.

(* np.flip(t, axis=ax) *)
Definition np_flip {V} (ax : Z) (t : arr V) : arr V :=
  mkArr (a_shape t)
        (fun i => a_get t (zupd i ax (znth (a_shape t) ax 0 - 1 - znth i ax 0))).

(* t.transpose(axes): output axis k is input axis axes[k] *)
Definition np_transpose {V} (axes : list Z) (t : arr V) : arr V :=
  mkArr (map (fun a => znth (a_shape t) a 0) axes)
        (fun j => a_get t (map (fun a => znth j (index_of a axes) 0) (zseq (zlen axes)))).

(* np.argsort (stable for the short key lists used here) *)
Fixpoint ins_sorted (x : Z * Z) (l : list (Z * Z)) : list (Z * Z) :=
  match l with
  | [] => [x]
  | y :: r => if fst x <? fst y then x :: l else y :: ins_sorted x r
  end.
Definition argsort (keys : list Z) : list Z :=
  map snd (fold_left (fun acc x => ins_sorted x acc) (combine keys (zseq (zlen keys))) []).

(* ------------------------------------------------------------------ orientations *)
Definition ornt := list (Z * Z).
Definition axes (o : ornt) : list Z := map fst o.
Definition flips (o : ornt) : list Z := map snd o.

(* apply_orientation(arr, ornt): flips, then transpose by argsort(ornt[:, 0]) *)
Definition apply_orientation {V} (t : arr V) (o : ornt) : r5 (arr V) :=
  let n := zlen o in
  let ndim := zlen (a_shape t) in
  if ndim <? n then Err5 E5Orient
  else
    let t1 := fold_left (fun (u : arr V) (p : Z * Z) => if snd p =? -1 then np_flip (fst p) u else u)
                        (combine (zseq n) (flips o)) t in
    let full_transpose := argsort (axes o) ++ skipn (length o) (zseq ndim) in
    Ok5 (np_transpose full_transpose t1).

(* inv_ornt_aff(ornt, shape).  center_trans = -(shape-1)/2.0 and the offset
   flip*center_trans - center_trans are kept doubled (center2) and halved at the end: for
   flip = +-1 the doubled value is even, so the code's float arithmetic is exact (checked by
   the correspondence on even and odd axis lengths). *)
Definition inv_ornt_aff (o : ornt) (shape : list Z) : mat :=
  let p := zlen o in
  let shp := firstn (length o) shape in
  let undo_reorder := map (fun a => znth (eye (p + 1)) a []) (axes o ++ [p]) in
  let center2 := map (fun n => - (n - 1)) shp in
  let off := map (fun fc : Z * Z => (fst fc * snd fc - snd fc) / 2) (combine (flips o) center2) in
  let dg := flips o ++ [1] in
  let undo_flip :=
    map (fun i => map (fun k => if (k =? p) && (i <? p) then znth off i 0
                                else if i =? k then znth dg i 0 else 0) (zseq (p + 1)))
        (zseq (p + 1)) in
  mat_mul undo_flip undo_reorder.

(* ornt_transform(start, end); rows of np.empty_like never assigned stay (0, 0) here *)
Fixpoint find_axis (a : Z) (s : ornt) (i : Z) : option (Z * Z) :=
  match s with
  | [] => None
  | (ax, fl) :: r => if ax =? a then Some (i, fl) else find_axis a r (i + 1)
  end.
Fixpoint ornt_transform_loop (s : ornt) (e : list (Z * (Z * Z))) (result : ornt) : r5 ornt :=
  match e with
  | [] => Ok5 result
  | (end_in, (end_out, end_flip)) :: r =>
      match find_axis end_out s 0 with
      | None => Err5 E5Value
      | Some (start_in, start_flip) =>
          ornt_transform_loop s r
            (zupd result start_in (end_in, if start_flip =? end_flip then 1 else -1))
      end
  end.
Definition ornt_transform (s e : ornt) : r5 ornt :=
  if negb (Nat.eqb (length s) (length e)) then Err5 E5Value
  else ornt_transform_loop s (combine (zseq (zlen e)) e) (map (fun _ => (0, 0)) s).

(* axis codes: labels = ((neg, pos), ...) as character codes; default LR / PA / IS *)
Definition labels := list (Z * Z).
Definition ras_labels : labels := [(76, 82); (80, 65); (73, 83)].

Definition axcode_of (lb : labels) (row : option (Z * Z)) : r5 (option Z) :=
  match row with
  | None => Ok5 None
  | Some (ax, d) =>
      if (ax <? - zlen lb) || (zlen lb <=? ax) then Err5 E5Index
      else
        let pr := znth lb (if ax <? 0 then ax + zlen lb else ax) (0, 0) in
        if d =? 1 then Ok5 (Some (snd pr))
        else if d =? -1 then Ok5 (Some (fst pr))
        else Err5 E5Value
  end.
(* rows are visited in order: the first offending row decides the exception *)
Fixpoint ornt2axcodes (lb : labels) (o : list (option (Z * Z))) : r5 (list (option Z)) :=
  match o with
  | [] => Ok5 []
  | row :: r => c <~ axcode_of lb row ;; t <~ ornt2axcodes lb r ;; Ok5 (c :: t)
  end.

Fixpoint nodupb (l : list Z) : bool :=
  match l with [] => true | x :: r => negb (existsb (Z.eqb x) r) && nodupb r end.
Fixpoint find_label (code : Z) (lb : labels) (i : Z) : option (Z * Z) :=
  match lb with
  | [] => None
  | (c0, c1) :: r =>
      if (code =? c0) || (code =? c1) then Some (i, if code =? c0 then -1 else 1)
      else find_label code r (i + 1)
  end.
Definition axcodes2ornt (lb : labels) (codes : list (option Z)) : r5 (list (option (Z * Z))) :=
  let allowed := flat_map (fun p : Z * Z => [fst p; snd p]) lb in
  if negb (nodupb allowed) then Err5 E5Value
  else if negb (forallb (fun c => match c with None => true | Some x => existsb (Z.eqb x) allowed end) codes)
  then Err5 E5Value
  else Ok5 (map (fun c => match c with None => None | Some x => find_label x lb 0 end) codes).

Definition all_some {A} (l : list (option A)) : option (list A) :=
  fold_right (fun x acc => match x, acc with Some v, Some t => Some (v :: t) | _, _ => None end) (Some []) l.

(* the loop of io_orientation over the matrix R (q rows, p columns) *)
Fixpoint argmax_go (l : list Z) (i best_i best : Z) : Z :=
  match l with
  | [] => best_i
  | x :: r => if best <? Z.abs x then argmax_go r (i + 1) i (Z.abs x) else argmax_go r (i + 1) best_i best
  end.
(* np.argmax(np.abs(col)): first index of the maximum *)
Definition argmax_abs (col : list Z) : Z :=
  match col with [] => 0 | x :: r => argmax_go r 1 0 (Z.abs x) end.
(* np.allclose(col, 0): |x| <= atol + rtol * 0 *)
Definition allclose0 (atol : Z) (col : list Z) : bool := forallb (fun x => Z.abs x <=? atol) col.
Definition zero_row (R : mat) (k : Z) : mat :=
  map (fun ir : Z * list Z => if fst ir =? k then map (fun _ => 0) (snd ir) else snd ir)
      (combine (zseq (zlen R)) R).
Fixpoint io_loop (atol : Z) (R : mat) (in_axes : list Z) : list (option (Z * Z)) :=
  match in_axes with
  | [] => []
  | a :: rest =>
      let col := map (fun row => znth row a 0) R in
      if allclose0 atol col then None :: io_loop atol R rest
      else
        let out_ax := argmax_abs col in
        Some (out_ax, if znth col out_ax 0 <? 0 then -1 else 1) :: io_loop atol (zero_row R out_ax) rest
  end.
(* rot : affine -> R is the oracle (zooms, SVD, rank threshold); p = number of input axes *)
Definition io_orientation (rot : mat -> mat) (atol : Z) (A : mat) : list (option (Z * Z)) :=
  io_loop atol (rot A) (zseq (Z.of_nat (ncols A) - 1)).
Definition aff2axcodes (rot : mat -> mat) (atol : Z) (lb : labels) (A : mat) :=
  ornt2axcodes lb (io_orientation rot atol A).

(* ------------------------------------------------------------------ images *)
(* dim_info = (freq, phase, slice), each None or an axis number; only NIfTI images remap it *)
Record img (V : Type) := mkImg { i_data : arr V; i_aff : mat; i_dim : list (option Z) }.
Arguments mkImg {V}. Arguments i_data {V}. Arguments i_aff {V}. Arguments i_dim {V}.

Definition ornt_eqb (a b : ornt) : bool :=
  Nat.eqb (length a) (length b)
  && forallb (fun p : (Z * Z) * (Z * Z) => (fst (fst p) =? fst (snd p)) && (snd (fst p) =? snd (snd p))) (combine a b).
Definition ident3 : ornt := [(0, 1); (1, 1); (2, 1)].

(* SpatialImage.as_reoriented: (true, img) means the very same image object was returned *)
Definition as_reoriented {V} (im : img V) (o : ornt) : r5 (bool * img V) :=
  if ornt_eqb o ident3 then Ok5 (true, im)
  else
    t <~ apply_orientation (i_data im) o ;;
    aff <~ np_dot (i_aff im) (inv_ornt_aff o (a_shape (i_data im))) ;;
    Ok5 (false, mkImg t aff (i_dim im)).

(* Nifti1Pair.as_reoriented: new_dim = ornt[orig_dim, 0] *)
Definition remap_dim (o : ornt) (d : list (option Z)) : list (option Z) :=
  map (fun x => match x with None => None | Some a => Some (fst (znth o a (0, 0))) end) d.
Definition nifti_as_reoriented {V} (im : img V) (o : ornt) : r5 (bool * img V) :=
  r <~ as_reoriented im o ;;
  if fst r then Ok5 r
  else Ok5 (false, mkImg (i_data (snd r)) (i_aff (snd r)) (remap_dim o (i_dim (snd r)))).

(* as_closest_canonical(img) (enforce_diag=False) *)
Definition as_closest_canonical {V} (rot : mat -> mat) (atol : Z) (im : img V) : r5 (bool * img V) :=
  match all_some (io_orientation rot atol (i_aff im)) with
  | None => Err5 E5Orient       (* nan row: apply_orientation cannot drop coordinates *)
  | Some o => nifti_as_reoriented im o
  end.

(* ------------------------------------------------------------------ the slicer *)
Definition is_csl (c : cidx) : bool := match c with CSl _ => true | _ => false end.

(* check_slicing: canonical_slicers (ValueError / IndexError), then no None / int among the
   first three canonical entries (IndexError) *)
Definition check_slicing (ix : list idx) (shape : list Z) : r5 (list cidx) :=
  c <~ lift6 (canonical_slicers true ix shape) ;;
  if forallb is_csl (firstn 3 c) then Ok5 c else Err5 E5Index.

Definition slice_row (i : Z) (n : Z) (c : cidx) : r5 (list Z) :=
  match c with
  | CSl s =>
      if opt_eqb (s_step s) (Some 0) then Err5 E5Value
      else
        let '(start, _, step) := adjust n s in
        Ok5 (map (fun k => if k =? 3 then start else if k =? i then step else 0) (zseq 4))
  | _ => Ok5 (znth (eye 4) i [])
  end.

Fixpoint slice_rows (i : Z) (shape : list Z) (sp : list cidx) : r5 mat :=
  match sp with
  | [] => Ok5 []
  | c :: r =>
      row <~ slice_row i (znth shape i 0) c ;;
      t <~ slice_rows (i + 1) shape r ;;
      Ok5 (row :: t)
  end.

(* the transform built by slice_affine: rows of the spatial slicers, identity below them *)
Definition slice_transform (shape : list Z) (sp : list cidx) : r5 mat :=
  rows <~ slice_rows 0 shape sp ;;
  Ok5 (rows ++ skipn (length rows) (eye 4)).

Definition slice_affine (A : mat) (shape : list Z) (ix : list idx) : r5 mat :=
  c <~ check_slicing ix shape ;;
  T <~ slice_transform shape (firstn 3 c) ;;
  np_dot A T.

(* NumPy basic indexing with a canonical index, at index level: the source index of output
   index k.  (None consumes an output axis of length 1, an int produces no output axis.) *)
Fixpoint src_index (shape : list Z) (c : list cidx) (k : list Z) : list Z :=
  match c with
  | [] => []
  | CNew :: r => src_index shape r (tl k)
  | CInt i :: r => (if i <? 0 then i + hd 0 shape else i) :: src_index (tl shape) r k
  | CSl s :: r => snth (adjust (hd 0 shape) s) (hd 0 k) :: src_index (tl shape) r (tl k)
  end.
(* the errors of ndarray.__getitem__ for such an index: too many indices (IndexError) first,
   then, axis by axis, an integer out of bounds (IndexError) or a zero step (ValueError) *)
Definition is_cnew (c : cidx) : bool := match c with CNew => true | _ => false end.
Fixpoint np_check (shape : list Z) (c : list cidx) : r5 unit :=
  match c with
  | [] => Ok5 tt
  | CNew :: r => np_check shape r
  | CInt k :: r =>
      let n := hd 0 shape in
      if (k <? - n) || (n <=? k) then Err5 E5Index else np_check (tl shape) r
  | CSl s :: r =>
      if opt_eqb (s_step s) (Some 0) then Err5 E5Value else np_check (tl shape) r
  end.
Definition np_getitem {V} (c : list cidx) (t : arr V) : r5 (arr V) :=
  if zlen (a_shape t) <? zlen (filter (fun x => negb (is_cnew x)) c) then Err5 E5Index
  else
    _ <~ np_check (a_shape t) c ;;
    Ok5 (mkArr (np_shape (a_shape t) c) (fun k => a_get t (src_index (a_shape t) c k))).

(* SpatialFirstSlicer.__getitem__ *)
Definition slicer_getitem {V} (im : img V) (ix : list idx) : r5 (img V) :=
  let shape := a_shape (i_data im) in
  c <~ match check_slicing ix shape with
       | Err5 E5Value => Err5 E5Index          (* except ValueError: raise IndexError *)
       | r => r
       end ;;
  d <~ np_getitem c (i_data im) ;;
  if existsb (fun n => n =? 0) (a_shape d) then Err5 E5Index
  else
    aff <~ slice_affine (i_aff im) shape (map cidx_to_idx c) ;;
    Ok5 (mkImg d aff (i_dim im)).

(* ------------------------------------------------------------------ funcs.py *)
(* _aff_is_diag: np.allclose(rzs, diag(diag(rzs))) — off-diagonal |x| <= 1e-8; for the
   integer-valued affines of this model that is x = 0 *)
Definition aff_is_diag (A : mat) : bool :=
  forallb (fun i => forallb (fun k => (i =? k) || (znth (znth A i []) k 0 =? 0)) [0; 1; 2]) [0; 1; 2].
(* as_closest_canonical(img, enforce_diag=True) *)
Definition as_closest_canonical_diag {V} (rot : mat -> mat) (atol : Z) (im : img V) : r5 (bool * img V) :=
  r <~ as_closest_canonical rot atol im ;;
  if aff_is_diag (i_aff (snd r)) then Ok5 r else Err5 E5Orient.

(* four_to_three: one 3-D image per index of the last axis, same affine and header *)
Definition four_to_three {V} (im : img V) : r5 (list (img V)) :=
  let t := i_data im in
  if negb (Nat.eqb (length (a_shape t)) 4) then Err5 E5Value
  else Ok5 (map (fun i => mkImg (mkArr (firstn 3 (a_shape t)) (fun j => a_get t (j ++ [i]))) (i_aff im) (i_dim im))
                (zseq (znth (a_shape t) 3 0))).

(* squeeze_image: final axes of length 1 beyond the third are dropped (a reshape) *)
Fixpoint count_trailing_ones (l : list Z) : nat :=      (* l = reversed shape[3:] *)
  match l with 1 :: r => S (count_trailing_ones r) | _ => O end.
Definition squeeze_image {V} (im : img V) : img V :=
  let t := i_data im in
  let k := count_trailing_ones (rev (skipn 3 (a_shape t))) in
  mkImg (mkArr (firstn (length (a_shape t) - k) (a_shape t)) (fun j => a_get t (j ++ repeat 0 k))) (i_aff im) (i_dim im).

(* concat_images(images, check_affines=True, axis=None): new last axis *)
Definition mat_eqb (A B : mat) : bool :=
  Nat.eqb (length A) (length B)
  && forallb (fun p : list Z * list Z => Nat.eqb (length (fst p)) (length (snd p))
                && forallb (fun q : Z * Z => fst q =? snd q) (combine (fst p) (snd p))) (combine A B).
Definition shape_eqb (a b : list Z) : bool :=
  Nat.eqb (length a) (length b) && forallb (fun q : Z * Z => fst q =? snd q) (combine a b).
Definition concat_images {V} (ims : list (img V)) : r5 (img V) :=
  match ims with
  | [] => Err5 E5Value
  | im0 :: _ =>
      let sh0 := a_shape (i_data im0) in
      if negb (forallb (fun im => shape_eqb (a_shape (i_data im)) sh0 && mat_eqb (i_aff im) (i_aff im0)) ims)
      then Err5 E5Value
      else Ok5 (mkImg (mkArr (sh0 ++ [zlen ims])
                             (fun j => a_get (i_data (nth (Z.to_nat (last j 0)) ims im0)) (removelast j)))
                      (i_aff im0) (i_dim im0))
  end.

(* ------------------------------------------------------------------ compositions *)
(* any sequence of img.slicer[...] and img.as_reoriented(...) calls, each on the result of the
   previous one (nifti: the NIfTI flavour of as_reoriented, which also remaps dim_info) *)
Inductive op := OSlice (ix : list idx) | OReorient (o : ornt).
Definition step_op {V} (nifti : bool) (im : img V) (p : op) : r5 (img V) :=
  match p with
  | OSlice ix => slicer_getitem im ix
  | OReorient o => r <~ (if nifti then nifti_as_reoriented im o else as_reoriented im o) ;; Ok5 (snd r)
  end.
Fixpoint run_ops {V} (nifti : bool) (im : img V) (ops : list op) : r5 (img V) :=
  match ops with
  | [] => Ok5 im
  | p :: r => im' <~ step_op nifti im p ;; run_ops nifti im' r
  end.

(* ------------------------------------------------------------------ the get_fdata cache *)
(* An image object also carries the array cached by get_fdata() (_fdata_cache): a converted copy
   of the data (conv: the dtype conversion, e.g. narrowing to float32), which callers may edit in
   place and uncache() drops.  as_reoriented and the slicer read self.dataobj, never the cache,
   and return a NEW image object, which has no cache. *)
Record cimg (V : Type) := mkC { c_im : img V; c_cache : option (arr V) }.
Arguments mkC {V}. Arguments c_im {V}. Arguments c_cache {V}.
Inductive cop (V : Type) :=
  | CGet (conv : V -> V) (fill : bool)   (* get_fdata(dtype=..., caching='fill' | 'unchanged') *)
  | CEdit (f : V -> V)                   (* in-place edit of the array get_fdata returned *)
  | CUncache                             (* img.uncache() *)
  | COp (p : op).                        (* img = img.slicer[...] / img.as_reoriented(...) *)
Arguments CGet {V}. Arguments CEdit {V}. Arguments CUncache {V}. Arguments COp {V}.
Definition amap {V} (f : V -> V) (t : arr V) : arr V := mkArr (a_shape t) (fun j => f (a_get t j)).
Definition cstep {V} (nifti : bool) (c : cimg V) (x : cop V) : r5 (cimg V) :=
  match x with
  | CGet conv fill =>
      Ok5 (if fill then mkC (c_im c) (Some (match c_cache c with Some t => t | None => amap conv (i_data (c_im c)) end))
           else c)
  | CEdit f => Ok5 (mkC (c_im c) (match c_cache c with Some t => Some (amap f t) | None => None end))
  | CUncache => Ok5 (mkC (c_im c) None)
  | COp p => im' <~ step_op nifti (c_im c) p ;; Ok5 (mkC im' None)
  end.
Fixpoint run_cops {V} (nifti : bool) (c : cimg V) (xs : list (cop V)) : r5 (cimg V) :=
  match xs with
  | [] => Ok5 c
  | x :: r => c' <~ cstep nifti c x ;; run_cops nifti c' r
  end.
Fixpoint ops_of {V} (xs : list (cop V)) : list op :=
  match xs with
  | [] => []
  | COp p :: r => p :: ops_of r
  | _ :: r => ops_of r
  end.

(* ------------------------------------------------------------------ specifications *)
(* what the property asks of a reorientation: source index of output index j *)
Definition src_spec (o : ornt) (shape j : list Z) : list Z :=
  map (fun a => let jp := znth j (fst (znth o a (0, 0))) 0 in
                if snd (znth o a (0, 0)) =? -1 then znth shape a 0 - 1 - jp else jp)
      (zseq (zlen o))
  ++ skipn (length o) j.
(* the inverse map: output index of input index i *)
Definition dst_spec (o : ornt) (shape i : list Z) : list Z :=
  map (fun k => let a := index_of k (axes o) in
                if snd (znth o a (0, 0)) =? -1 then znth shape a 0 - 1 - znth i a 0 else znth i a 0)
      (zseq (zlen o))
  ++ skipn (length o) i.
Definition out_shape_spec (o : ornt) (shape : list Z) : list Z :=
  map (fun k => znth shape (index_of k (axes o)) 0) (zseq (zlen o)) ++ skipn (length o) shape.

(* composition of two orientation changes (first t1, then t2) *)
Definition ornt_compose (t1 t2 : ornt) : ornt :=
  map (fun r : Z * Z => let r2 := znth t2 (fst r) (0, 0) in (fst r2, snd r * snd r2)) t1.

(* the 48 signed permutations of three axes *)
Definition perms3 : list (list Z) := [[0;1;2]; [0;2;1]; [1;0;2]; [1;2;0]; [2;0;1]; [2;1;0]].
Definition signs3 : list (list Z) :=
  [[1;1;1]; [1;1;-1]; [1;-1;1]; [1;-1;-1]; [-1;1;1]; [-1;1;-1]; [-1;-1;1]; [-1;-1;-1]].
Definition all48 : list ornt := flat_map (fun p => map (fun f => combine p f) signs3) perms3.
Definition is_ornt3 (o : ornt) : bool :=
  Nat.eqb (length o) 3
  && forallb (fun k => existsb (Z.eqb k) (axes o)) [0; 1; 2]
  && forallb (fun f => (f =? 1) || (f =? -1)) (flips o).

Definition in_box (shape idx : list Z) : Prop := Forall2 (fun n i => 0 <= i < n) shape idx.

(* ------------------------------------------------------------------ driver support *)
Fixpoint ndindex (shape : list Z) : list (list Z) :=       (* np.ndindex order *)
  match shape with
  | [] => [[]]
  | n :: r => flat_map (fun i => map (cons i) (ndindex r)) (zseq n)
  end.
Definition ravel_c (shape idx : list Z) : Z :=
  fold_left (fun acc ni => acc * fst ni + snd ni) (combine shape idx) 0.
Definition id_arr (shape : list Z) : arr (list Z) := mkArr shape (fun i => i).
Definition srcs_of (shape : list Z) (t : arr (list Z)) : list Z :=
  map (fun j => ravel_c shape (a_get t j)) (ndindex (a_shape t)).

(* reorient: out shape, affine, dim_info, same-object flag, C-order source offsets *)
Definition run_reorient (nifti : bool) (shape : list Z) (o : ornt) (A : mat) (dim : list (option Z))
  : r5 (bool * list Z * mat * list (option Z) * list Z) :=
  r <~ (if nifti then nifti_as_reoriented else as_reoriented) (mkImg (id_arr shape) A dim) o ;;
  let im := snd r in
  Ok5 (fst r, a_shape (i_data im), i_aff im, i_dim im, srcs_of shape (i_data im)).

Definition run_slicer (shape : list Z) (ix : list idx) (A : mat) (dim : list (option Z))
  : r5 (list Z * mat * list (option Z) * list Z) :=
  im <~ slicer_getitem (mkImg (id_arr shape) A dim) ix ;;
  Ok5 (a_shape (i_data im), i_aff im, i_dim im, srcs_of shape (i_data im)).

Definition run_canonical_hyp (c : list cidx) (shape : list Z) : bool := ix_validb shape c.

Definition run_sequence (nifti : bool) (shape : list Z) (A : mat) (dim : list (option Z)) (ops : list op)
  : r5 (list Z * mat * list (option Z) * list Z) :=
  im <~ run_ops nifti (mkImg (id_arr shape) A dim) ops ;;
  Ok5 (a_shape (i_data im), i_aff im, i_dim im, srcs_of shape (i_data im)).

(* apply_orientation / flip_axis on the identity-valued array: out shape + C-order sources *)
Definition run_apply (shape : list Z) (o : ornt) : r5 (list Z * list Z) :=
  t <~ apply_orientation (id_arr shape) o ;; Ok5 (a_shape t, srcs_of shape t).
Definition run_flip_axis (shape : list Z) (ax : Z) : list Z := srcs_of shape (np_flip ax (id_arr shape)).
Definition img_out (shape : list Z) (im : img (list Z)) := (a_shape (i_data im), i_aff im, srcs_of shape (i_data im)).
Definition run_four_to_three (shape : list Z) (A : mat) : r5 (list (list Z * mat * list Z)) :=
  l <~ four_to_three (mkImg (id_arr shape) A []) ;; Ok5 (map (img_out shape) l).
Definition run_squeeze (shape : list Z) (A : mat) := img_out shape (squeeze_image (mkImg (id_arr shape) A [])).
Definition run_concat43 (shape : list Z) (A : mat) : r5 (list Z * mat * list Z) :=
  l <~ four_to_three (mkImg (id_arr shape) A []) ;; c <~ concat_images l ;; Ok5 (img_out shape c).
(* enforce_diag on an integer affine whose orientation o is given (the loop's answer) *)
Definition run_enforce_diag (shape : list Z) (o : ornt) (A : mat) : r5 (list Z * mat) :=
  r <~ nifti_as_reoriented (mkImg (id_arr shape) A []) o ;;
  if aff_is_diag (i_aff (snd r)) then Ok5 (a_shape (i_data (snd r)), i_aff (snd r)) else Err5 E5Orient.

(* sequences with cache operations in between; the conversions tag the value so that any use of
   the cache would show in the sources *)
Definition run_csequence (nifti : bool) (shape : list Z) (A : mat) (dim : list (option Z))
    (xs : list (cop (list Z))) : r5 (list Z * mat * list (option Z) * list Z) :=
  c <~ run_cops nifti (mkC (mkImg (id_arr shape) A dim) None) xs ;;
  let im := c_im c in
  Ok5 (a_shape (i_data im), i_aff im, i_dim im, srcs_of shape (i_data im)).
Definition tag_conv (k : Z) (v : list Z) : list Z := map (fun x => x + k) v.

(* what the slicer reads from the data block of a file-backed image: C06's fileslice (default
   threshold heuristic, Fortran order) on the canonical index *)
Definition run_file_slicer (file : list Z) (shape : list Z) (w off : Z) (ix : list idx) : r5 (list Z * list Z) :=
  c <~ check_slicing ix shape ;;
  lift6 (fileslice_h (threshold_heuristic SKIP_THRESH) file (map cidx_to_idx c) shape w off OrdF).
