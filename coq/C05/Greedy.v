(* C05/Greedy.v — the loop of io_orientation over a matrix R with any number of axes: when every
   input axis has its own strictly dominant output axis, the loop returns exactly these *)
From Coq Require Import ZArith List Bool Lia ZifyBool.
From NV Require Import Base.PySlice C06.Model C06.Lemmas C05.Model.
Import ListNotations.
Open Scope Z_scope.

(* ====================================================================================
   Part 5: the loop of io_orientation (any number of axes) *)
Definition mcolz (R : mat) (a : Z) : list Z := map (fun row => znth row a 0) R.

(* row d of column col strictly dominates every other row and exceeds the allclose tolerance *)
Definition dominant (atol : Z) (col : list Z) (d : Z) : Prop :=
  0 <= d < zlen col /\ 0 <= atol < Z.abs (znth col d 0)
  /\ forall i, 0 <= i < zlen col -> i <> d -> Z.abs (znth col i 0) < Z.abs (znth col d 0).

Lemma argmax_go_after : forall l i bi b, (forall x, In x l -> Z.abs x <= b) -> argmax_go l i bi b = bi.
Proof.
  induction l as [|x l IH]; intros i bi b H; [reflexivity|]. cbn [argmax_go].
  replace (b <? Z.abs x) with false by (specialize (H x (or_introl eq_refl)); lia).
  apply IH. intros y Hy. apply H. now right.
Qed.

Lemma argmax_go_before : forall l (k : nat) i bi b, (k < length l)%nat ->
  b < Z.abs (nth k l 0) ->
  (forall m, (m < length l)%nat -> m <> k -> Z.abs (nth m l 0) < Z.abs (nth k l 0)) ->
  argmax_go l i bi b = i + Z.of_nat k.
Proof.
  induction l as [|x l IH]; intros k i bi b Hk Hb Hd; [cbn in Hk; lia|]. cbn [argmax_go].
  destruct k as [|k].
  - cbn [nth] in *. replace (b <? Z.abs x) with true by lia.
    rewrite argmax_go_after; [lia|]. intros y Hy. apply In_nth with (d := 0) in Hy. destruct Hy as (m & Hm & <-).
    specialize (Hd (S m) ltac:(cbn; lia) ltac:(lia)). cbn [nth] in Hd. lia.
  - cbn [nth length] in *.
    assert (Hx : Z.abs x < Z.abs (nth k l 0)) by (apply (Hd O); lia).
    assert (Hd' : forall m, (m < length l)%nat -> m <> k -> Z.abs (nth m l 0) < Z.abs (nth k l 0)).
    { intros m Hm Hne. apply (Hd (S m)); lia. }
    destruct (b <? Z.abs x); rewrite (IH k) by (assumption || lia); lia.
Qed.

Lemma argmax_dominant atol col d : dominant atol col d -> argmax_abs col = d.
Proof.
  intros (Hd & _ & Hdom). unfold zlen in *. destruct col as [|x r]; [cbn in Hd; lia|]. unfold argmax_abs.
  destruct (Z.eq_dec d 0) as [->|Hne].
  - apply argmax_go_after. intros y Hy. apply In_nth with (d := 0) in Hy. destruct Hy as (m & Hm & <-).
    specialize (Hdom (Z.of_nat (S m)) ltac:(cbn [length]; lia) ltac:(lia)). unfold znth in Hdom.
    rewrite Nat2Z.id in Hdom. cbn [nth Z.to_nat] in Hdom. lia.
  - cbn [length] in Hd, Hdom.
    assert (Hz : forall m : nat, znth (x :: r) (Z.of_nat (S m)) 0 = nth m r 0)
      by (intros m; unfold znth; now rewrite Nat2Z.id).
    replace d with (Z.of_nat (S (Z.to_nat (d - 1)))) in * by lia. set (k := Z.to_nat (d - 1)) in *.
    rewrite Hz in Hdom.
    rewrite (argmax_go_before r k 1 0 (Z.abs x)); [lia|lia| |].
    + specialize (Hdom 0 ltac:(lia) ltac:(lia)). exact Hdom.
    + intros m Hm Hmk. specialize (Hdom (Z.of_nat (S m)) ltac:(lia) ltac:(lia)). now rewrite Hz in Hdom.
Qed.

Lemma allclose0_dominant atol col d : dominant atol col d -> allclose0 atol col = false.
Proof.
  intros (Hd & Ha & _). unfold allclose0. apply not_true_is_false. intros H. rewrite forallb_forall in H.
  assert (Hin : In (znth col d 0) col) by (unfold znth, zlen in *; apply nth_In; lia).
  specialize (H _ Hin). lia.
Qed.

Lemma mcolz_len R a : zlen (mcolz R a) = zlen R.
Proof. unfold mcolz, zlen. now rewrite map_length. Qed.

(* zeroing row k of R zeroes entry k of every column *)
Lemma mcolz_zero_row R k a i : 0 <= i < zlen R ->
  znth (mcolz (zero_row R k) a) i 0 = if i =? k then 0 else znth (mcolz R a) i 0.
Proof.
  intros Hi. unfold mcolz, zero_row, zlen in *.
  assert (Hz : length (zseq (Z.of_nat (length R))) = length R)
    by (unfold zseq; rewrite map_length, seq_length; lia).
  assert (Hlen : length (combine (zseq (Z.of_nat (length R))) R) = length R)
    by (rewrite combine_length; lia).
  unfold znth at 1.
  rewrite (nth_map_in _ _ _ 0 []) by (rewrite map_length, Hlen; lia).
  rewrite (nth_map_in _ _ _ [] (0, [])) by (rewrite Hlen; lia).
  rewrite combine_nth by assumption. cbn [fst snd]. rewrite nth_zseq by lia.
  unfold znth at 2. rewrite (nth_map_in _ _ _ 0 []) by lia.
  destruct (i =? k); [|reflexivity].
  set (row := nth (Z.to_nat i) R []). clearbody row. unfold znth. generalize (Z.to_nat a). clear.
  induction row as [|x row IH]; intros [|n]; cbn; auto.
Qed.

Lemma zero_row_len R k : zlen (zero_row R k) = zlen R.
Proof.
  unfold zero_row, zlen. rewrite map_length, combine_length. unfold zseq. rewrite map_length, seq_length. lia.
Qed.

Lemma dominant_zero_row atol R k a d : d <> k -> dominant atol (mcolz R a) d ->
  dominant atol (mcolz (zero_row R k) a) d
  /\ znth (mcolz (zero_row R k) a) d 0 = znth (mcolz R a) d 0.
Proof.
  intros Hne (Hd & Ha & Hdom). rewrite mcolz_len in *.
  assert (E : znth (mcolz (zero_row R k) a) d 0 = znth (mcolz R a) d 0).
  { rewrite mcolz_zero_row by assumption. replace (d =? k) with false by lia. reflexivity. }
  split; [|exact E]. unfold dominant. rewrite mcolz_len, zero_row_len, E. split; [assumption|]. split; [assumption|].
  intros i Hi Hid. rewrite mcolz_zero_row by assumption. destruct (i =? k); [lia|]. now apply Hdom.
Qed.

(* if every input axis has its own dominant output axis d(a), the loop returns exactly these *)
Theorem io_loop_dominant atol (d : Z -> Z) : forall axs R,
  NoDup axs -> (forall a b, In a axs -> In b axs -> a <> b -> d a <> d b) ->
  (forall a, In a axs -> dominant atol (mcolz R a) (d a)) ->
  io_loop atol R axs
  = map (fun a => Some (d a, if znth (mcolz R a) (d a) 0 <? 0 then -1 else 1)) axs.
Proof.
  induction axs as [|a axs IH]; intros R Hnd Hinj Hdom; [reflexivity|].
  cbn [io_loop map]. fold (mcolz R a).
  pose proof (Hdom a (or_introl eq_refl)) as Ha.
  rewrite (allclose0_dominant _ _ _ Ha), (argmax_dominant _ _ _ Ha). f_equal.
  inversion Hnd as [|? ? Hnotin Hnd']; subst.
  rewrite IH.
  - apply map_ext_in. intros b Hb.
    assert (Hab : d b <> d a).
    { apply Hinj; [now right|now left|]. intros ->. contradiction. }
    destruct (dominant_zero_row atol R (d a) b (d b) Hab (Hdom b (or_intror Hb))) as [_ E]. now rewrite E.
  - assumption.
  - intros x y Hx Hy. apply Hinj; now right.
  - intros b Hb.
    assert (Hab : d b <> d a).
    { apply Hinj; [now right|now left|]. intros ->. contradiction. }
    apply (dominant_zero_row atol R (d a) b (d b) Hab (Hdom b (or_intror Hb))).
Qed.
