(* C05/Consist.v — orientation arrays, axis codes and ornt_transform are mutually consistent for all 48 (finite domain, enumerated completely) *)
From Coq Require Import ZArith List Bool Lia ZifyBool.
From NV Require Import Base.PySlice C06.Model C06.Lemmas C05.Model.
Import ListNotations.
Open Scope Z_scope.

Lemma ornt_eqb_eq : forall a b, ornt_eqb a b = true -> a = b.
Proof.
  unfold ornt_eqb. induction a as [|[x f] a IH]; intros [|[y g] b] H; cbn in H; try discriminate; [reflexivity|].
  apply andb_true_iff in H. destruct H as [Hl H]. apply andb_true_iff in H. destruct H as [H1 H2].
  apply andb_true_iff in H1. destruct H1 as [Hx Hf]. apply Z.eqb_eq in Hx, Hf. subst.
  f_equal. apply IH. now rewrite Hl, H2.
Qed.

Lemma all48_rows : forall o, In o all48 -> exists p0 f0 p1 f1 p2 f2, o = [(p0, f0); (p1, f1); (p2, f2)].
Proof.
  intros o Ho. vm_compute in Ho.
  repeat (destruct Ho as [<-|Ho]; [do 6 eexists; reflexivity|]). contradiction.
Qed.

(* ====================================================================================
   Part 4: orientation arrays, axis codes, transforms — all 48 *)
Lemma all48_codes : forall o, In o all48 ->
  exists c0 c1 c2,
    ornt2axcodes ras_labels (map Some o) = Ok5 [Some c0; Some c1; Some c2]
    /\ axcodes2ornt ras_labels [Some c0; Some c1; Some c2] = Ok5 (map Some o)
    /\ c0 <> c1 /\ c0 <> c2 /\ c1 <> c2.
Proof.
  intros o Ho. vm_compute in Ho.
  repeat (destruct Ho as [<-|Ho];
    [do 3 eexists; split; [vm_compute; reflexivity|]; split; [vm_compute; reflexivity|];
     repeat split; discriminate|]).
  contradiction.
Qed.

Lemma all48_is_ornt3 : forall o, is_ornt3 o = true <-> In o all48.
Proof.
  intros o. split.
  - intros H. unfold is_ornt3 in H.
    apply andb_true_iff in H. destruct H as [H Hf]. apply andb_true_iff in H. destruct H as [Hl Hp].
    destruct o as [|[p0 f0] [|[p1 f1] [|[p2 f2] [|? ?]]]]; cbn in Hl; try discriminate.
    cbn [flips map snd forallb] in Hf. cbn [axes map fst forallb existsb] in Hp.
    assert (F : forall f, (f =? 1) || (f =? -1) = true -> f = 1 \/ f = -1) by (intros; lia).
    repeat (apply andb_true_iff in Hf; destruct Hf as [?%F Hf]).
    apply andb_true_iff in Hp. destruct Hp as [Hp0 Hp]. apply andb_true_iff in Hp. destruct Hp as [Hp1 Hp].
    apply andb_true_iff in Hp. destruct Hp as [Hp2 _].
    assert (Q0 : p0 = 0 \/ p1 = 0 \/ p2 = 0) by lia.
    assert (Q1 : p0 = 1 \/ p1 = 1 \/ p2 = 1) by lia.
    assert (Q2 : p0 = 2 \/ p1 = 2 \/ p2 = 2) by lia.
    clear Hp0 Hp1 Hp2 Hl.
    destruct Q0 as [E0|[E0|E0]], Q1 as [E1|[E1|E1]], Q2 as [E2|[E2|E2]]; try lia; subst;
      repeat match goal with H : _ = 1 \/ _ = -1 |- _ => destruct H as [->| ->] end; vm_compute; tauto.
  - intros Ho. vm_compute in Ho. repeat (destruct Ho as [<-|Ho]; [reflexivity|]). contradiction.
Qed.

(* meaning of ornt_transform(a, b) = t in terms of the affines: reorienting by t an image
   whose voxel axis r points along world axis a_r (sign f_r) gives an image whose voxel axis
   t_r.axis points along that same world axis with sign f_r * t_r.flip — which must be b *)
Definition pair_eqb (x y : Z * Z) : bool := (fst x =? fst y) && (snd x =? snd y).
Definition transform_check (a b : ornt) : bool :=
  match ornt_transform a b with
  | Ok5 t =>
      is_ornt3 t
      && forallb (fun r => let ar := znth a r (0, 0) in let tr := znth t r (0, 0) in
                           pair_eqb (znth b (fst tr) (0, 0)) (fst ar, snd ar * snd tr)) [0; 1; 2]
      && (if ornt_eqb a b then ornt_eqb t ident3 else negb (ornt_eqb t ident3))
  | Err5 _ => false
  end.
Lemma all48_transform : forallb (fun a => forallb (transform_check a) all48) all48 = true.
Proof. vm_compute. reflexivity. Qed.

Definition comp_check (a b c : ornt) : bool :=
  match ornt_transform a b, ornt_transform b c, ornt_transform a c with
  | Ok5 x, Ok5 y, Ok5 z => ornt_eqb z (ornt_compose x y)
  | _, _, _ => false
  end.
Lemma all48_comp : forallb (fun a => forallb (fun b => forallb (comp_check a b) all48) all48) all48 = true.
Proof. vm_compute. reflexivity. Qed.

Theorem ornt_consistency :
  (forall o, In o all48 ->
     exists c0 c1 c2,
       ornt2axcodes ras_labels (map Some o) = Ok5 [Some c0; Some c1; Some c2]
       /\ axcodes2ornt ras_labels [Some c0; Some c1; Some c2] = Ok5 (map Some o)
       /\ c0 <> c1 /\ c0 <> c2 /\ c1 <> c2)
  /\ (forall a b, In a all48 -> In b all48 ->
        exists t, ornt_transform a b = Ok5 t /\ In t all48 /\ (t = ident3 <-> a = b)
          /\ forall r, 0 <= r < 3 ->
               znth b (fst (znth t r (0, 0))) (0, 0)
               = (fst (znth a r (0, 0)), snd (znth a r (0, 0)) * snd (znth t r (0, 0))))
  /\ (forall a b c, In a all48 -> In b all48 -> In c all48 ->
        exists x y z, ornt_transform a b = Ok5 x /\ ornt_transform b c = Ok5 y
          /\ ornt_transform a c = Ok5 z /\ z = ornt_compose x y).
Proof.
  split; [exact all48_codes|]. split.
  - intros a b Ha Hb. pose proof all48_transform as H.
    rewrite forallb_forall in H. specialize (H a Ha). rewrite forallb_forall in H. specialize (H b Hb).
    unfold transform_check in H. destruct (ornt_transform a b) as [t|]; [|discriminate].
    apply andb_true_iff in H. destruct H as [H H3]. apply andb_true_iff in H. destruct H as [H1 H2].
    exists t. split; [reflexivity|]. split; [now apply all48_is_ornt3|]. split.
    + destruct (ornt_eqb a b) eqn:E.
      * apply ornt_eqb_eq in E, H3. now split.
      * split; intros Hx.
        -- subst t. cbn in H3. discriminate.
        -- subst b. assert (ornt_eqb a a = true); [|congruence].
           clear. unfold ornt_eqb. rewrite Nat.eqb_refl. cbn [andb]. induction a as [|[x f] a IH]; [reflexivity|].
           cbn. now rewrite !Z.eqb_refl.
    + intros r Hr. rewrite forallb_forall in H2.
      assert (Hin : In r [0; 1; 2]) by (cbn; lia). specialize (H2 r Hin). cbv zeta in H2.
      unfold pair_eqb in H2. apply andb_true_iff in H2. destruct H2 as [E1 E2]. cbn [fst snd] in E1, E2.
      apply Z.eqb_eq in E1, E2. destruct (znth b (fst (znth t r (0, 0))) (0, 0)) as [u v]. cbn [fst snd] in *. congruence.
  - intros a b c Ha Hb Hc. pose proof all48_comp as H.
    rewrite forallb_forall in H. specialize (H a Ha). rewrite forallb_forall in H. specialize (H b Hb).
    rewrite forallb_forall in H. specialize (H c Hc). unfold comp_check in H.
    destruct (ornt_transform a b) as [x|]; [|discriminate].
    destruct (ornt_transform b c) as [y|]; [|discriminate].
    destruct (ornt_transform a c) as [z|]; [|discriminate].
    exists x, y, z. repeat split. now apply ornt_eqb_eq.
Qed.



(* ---- axis codes with ANY label table of three pairs with six pairwise distinct codes *)
Lemma nodupb_cons x l : nodupb (x :: l) = true -> (forall y, In y l -> x <> y) /\ nodupb l = true.
Proof.
  cbn [nodupb]. intros H. apply andb_true_iff in H. destruct H as [H1 H2]. split; [|assumption].
  intros y Hy ->. apply negb_true_iff in H1.
  assert (existsb (Z.eqb y) l = true); [|congruence].
  apply existsb_exists. exists y. split; [assumption|apply Z.eqb_refl].
Qed.

Section Labels.
Variables a0 b0 a1 b1 a2 b2 : Z.
Hypothesis D : nodupb [a0; b0; a1; b1; a2; b2] = true.
Let lb : labels := [(a0, b0); (a1, b1); (a2, b2)].

Lemma lab_neq : a0 <> b0 /\ a0 <> a1 /\ a0 <> b1 /\ a0 <> a2 /\ a0 <> b2 /\ b0 <> a1 /\ b0 <> b1 /\ b0 <> a2
  /\ b0 <> b2 /\ a1 <> b1 /\ a1 <> a2 /\ a1 <> b2 /\ b1 <> a2 /\ b1 <> b2 /\ a2 <> b2.
Proof.
  destruct (nodupb_cons _ _ D) as [H0 D1]. destruct (nodupb_cons _ _ D1) as [H1 D2].
  destruct (nodupb_cons _ _ D2) as [H2 D3]. destruct (nodupb_cons _ _ D3) as [H3 D4].
  destruct (nodupb_cons _ _ D4) as [H4 _].
  repeat split; first [apply H0|apply H1|apply H2|apply H3|apply H4]; cbn; tauto.
Qed.

Ltac neq_solve := first [assumption | apply not_eq_sym; assumption].
Ltac eqbs := destruct lab_neq as (?&?&?&?&?&?&?&?&?&?&?&?&?&?&?); unfold lb; cbn [find_label existsb];
  repeat match goal with |- context [?x =? ?y] =>
    first [ rewrite (Z.eqb_refl x) | replace (x =? y) with false by (symmetry; apply Z.eqb_neq; neq_solve) ] end;
  reflexivity.
Lemma fl_a0 : find_label a0 lb 0 = Some (0, -1). Proof. eqbs. Qed.
Lemma fl_b0 : find_label b0 lb 0 = Some (0, 1). Proof. eqbs. Qed.
Lemma fl_a1 : find_label a1 lb 0 = Some (1, -1). Proof. eqbs. Qed.
Lemma fl_b1 : find_label b1 lb 0 = Some (1, 1). Proof. eqbs. Qed.
Lemma fl_a2 : find_label a2 lb 0 = Some (2, -1). Proof. eqbs. Qed.
Lemma fl_b2 : find_label b2 lb 0 = Some (2, 1). Proof. eqbs. Qed.
Lemma ex_in x : In x [a0; b0; a1; b1; a2; b2] -> existsb (Z.eqb x) [a0; b0; a1; b1; a2; b2] = true.
Proof. intros H. apply existsb_exists. exists x. split; [assumption|apply Z.eqb_refl]. Qed.

Lemma all48_codes_labels : forall o, In o all48 ->
  exists c0 c1 c2,
    ornt2axcodes lb (map Some o) = Ok5 [Some c0; Some c1; Some c2]
    /\ axcodes2ornt lb [Some c0; Some c1; Some c2] = Ok5 (map Some o)
    /\ c0 <> c1 /\ c0 <> c2 /\ c1 <> c2.
Proof.
  intros o Ho. destruct lab_neq as (?&?&?&?&?&?&?&?&?&?&?&?&?&?&?). vm_compute in Ho.
  repeat (destruct Ho as [<-|Ho];
    [do 3 eexists; split; [vm_compute; reflexivity|]; split;
     [unfold axcodes2ornt, lb; cbn [flat_map fst snd app]; rewrite D; cbn [negb forallb];
      rewrite !ex_in by (cbn; tauto); cbn [andb negb map]; fold lb;
      rewrite ?fl_a0, ?fl_b0, ?fl_a1, ?fl_b1, ?fl_a2, ?fl_b2; reflexivity
     |repeat split; neq_solve]|]).
  contradiction.
Qed.
End Labels.
