(* C05 driver body (after `open C05_model` and drvlib.ml).
   Orientations "a:f,a:f,..." (row "n" = nan row); matrices "a,b,c,d|e,f,g,h|..." (rows by |);
   dim_info / axis codes "x,y,_" (_ = None); shapes "[a,b,c]"; index tuples as in C06:
   i<k> | s<a>:<b>:<c> (_ = None) | n | e, "()" = empty.
   reorient <nifti> <shape> <ornt> <affine> <dim> | slicer <shape> <ix> <affine> <dim>
   fslc <filehex> <shape> <itemsize> <offset> <ix> | slaff <shape> <ix> <affine> | hyp <shape> <ix> | invaff <ornt> <shape> | otrans <o1> <o2>
   ops <nifti> <shape> <affine> <dim> <op;op;...> (op = S=<ix> | R=<ornt>) | ocomp <o1> <o2> | o2c <orows> | c2o <codes> | ioloop <atol> <R> <p> *)
let optz s = if s = "_" then None else Some (z_of_string s)
let str_optz = function None -> "_" | Some v -> string_of_z v
let split c s = if s = "" || s = "()" then [] else String.split_on_char c s
let parse_orow t = if t = "n" then None else match String.split_on_char ':' t with
  | [a; f] -> Some (z_of_string a, z_of_string f) | _ -> failwith "bad ornt row"
let parse_orows s = List.map parse_orow (split ',' s)
let parse_ornt s = List.map (fun r -> match r with Some p -> p | None -> failwith "nan row") (parse_orows s)
let str_orow = function None -> "n" | Some (a, f) -> string_of_z a ^ ":" ^ string_of_z f
let str_orows l = if l = [] then "()" else String.concat "," (List.map str_orow l)
let str_ornt l = str_orows (List.map (fun p -> Some p) l)
let parse_mat s = List.map (fun r -> List.map z_of_string (split ',' r)) (split '|' s)
let str_mat m = if m = [] then "()" else String.concat "|" (List.map (fun r -> String.concat "," (List.map string_of_z r)) m)
let parse_opts s = List.map optz (split ',' s)
let str_opts l = if l = [] then "()" else String.concat "," (List.map str_optz l)
let parse_sl s = match String.split_on_char ':' s with
  | [a; b; c] -> { s_start = optz a; s_stop = optz b; s_step = optz c }
  | _ -> failwith "bad slice"
let parse_idx tok =
  if tok = "n" then INew else if tok = "e" then IEll
  else if tok.[0] = 'i' then IInt (z_of_string (String.sub tok 1 (String.length tok - 1)))
  else if tok.[0] = 's' then ISl (parse_sl (String.sub tok 1 (String.length tok - 1)))
  else failwith "bad index token"
let parse_ix s = List.map parse_idx (split ',' s)
let str_e5 = function E5Index -> "index" | E5Value -> "value" | E5Orient -> "orient"
let res f = function Ok5 a -> "ok " ^ f a | Err5 e -> "err " ^ str_e5 e
let handle op args = match op, args with
  | "reorient", [nif; shape; o; aff; dim] ->
    res (fun ((((same, sh), a), d), srcs) ->
        "same=" ^ string_of_bool same ^ " shape=" ^ string_of_zlist sh ^ " aff=" ^ str_mat a
        ^ " dim=" ^ str_opts d ^ " srcs=" ^ string_of_zlist srcs)
      (run_reorient (bool_of_string nif) (zlist_of_string shape) (parse_ornt o) (parse_mat aff) (parse_opts dim))
  | "slicer", [shape; ix; aff; dim] ->
    res (fun (((sh, a), d), srcs) -> "shape=" ^ string_of_zlist sh ^ " aff=" ^ str_mat a ^ " dim=" ^ str_opts d
                                     ^ " srcs=" ^ string_of_zlist srcs)
      (run_slicer (zlist_of_string shape) (parse_ix ix) (parse_mat aff) (parse_opts dim))
  | "ops", [nif; shape; aff; dim; ops] ->
    (* op = S=<ix> | R=<ornt> | G=<k> (get_fdata, conversion tagged k, caching='fill') | N=<k> (caching='unchanged')
       | E=<k> (edit the cached array) | U=0 (uncache) *)
    let arg t = String.sub t 2 (String.length t - 2) in
    let parse_op t = match t.[0] with
      | 'S' -> COp (OSlice (parse_ix (arg t)))
      | 'R' -> COp (OReorient (parse_ornt (arg t)))
      | 'G' -> CGet (tag_conv (z_of_string (arg t)), true)
      | 'N' -> CGet (tag_conv (z_of_string (arg t)), false)
      | 'E' -> CEdit (tag_conv (z_of_string (arg t)))
      | 'U' -> CUncache
      | _ -> failwith "bad op" in
    res (fun (((sh, a), d), srcs) -> "shape=" ^ string_of_zlist sh ^ " aff=" ^ str_mat a ^ " dim=" ^ str_opts d
                                     ^ " srcs=" ^ string_of_zlist srcs)
      (run_csequence (bool_of_string nif) (zlist_of_string shape) (parse_mat aff) (parse_opts dim)
         (List.map parse_op (split ';' ops)))
  | "fslc", [file; shape; w; off; ix] ->
    res (fun (sh, b) -> string_of_zlist sh ^ " " ^ hex_of_bytes b)
      (run_file_slicer (bytes_of_hex file) (zlist_of_string shape) (z_of_string w) (z_of_string off) (parse_ix ix))
  | "slaff", [shape; ix; aff] ->
    res str_mat (slice_affine (parse_mat aff) (zlist_of_string shape) (parse_ix ix))
  | "hyp", [shape; ix] ->
    res (fun c -> string_of_bool (run_canonical_hyp c (zlist_of_string shape)))
      (check_slicing (parse_ix ix) (zlist_of_string shape))
  | "invaff", [o; shape] -> "ok " ^ str_mat (inv_ornt_aff (parse_ornt o) (zlist_of_string shape))
  | "otrans", [a; b] -> res str_ornt (ornt_transform (parse_ornt a) (parse_ornt b))
  | "ocomp", [a; b] -> "ok " ^ str_ornt (ornt_compose (parse_ornt a) (parse_ornt b))
  | "applyo", [shape; o] ->
    res (fun (sh, srcs) -> "shape=" ^ string_of_zlist sh ^ " srcs=" ^ string_of_zlist srcs)
      (run_apply (zlist_of_string shape) (parse_ornt o))
  | "flipax", [shape; ax] -> "ok " ^ string_of_zlist (run_flip_axis (zlist_of_string shape) (z_of_string ax))
  | "f43", [shape; aff] ->
    res (fun l -> String.concat " ; " (List.map (fun ((sh, a), srcs) ->
        "shape=" ^ string_of_zlist sh ^ " aff=" ^ str_mat a ^ " srcs=" ^ string_of_zlist srcs) l))
      (run_four_to_three (zlist_of_string shape) (parse_mat aff))
  | "squeeze", [shape; aff] ->
    (let ((sh, a), srcs) = run_squeeze (zlist_of_string shape) (parse_mat aff) in
     "ok shape=" ^ string_of_zlist sh ^ " aff=" ^ str_mat a ^ " srcs=" ^ string_of_zlist srcs)
  | "concat43", [shape; aff] ->
    res (fun ((sh, a), srcs) -> "shape=" ^ string_of_zlist sh ^ " aff=" ^ str_mat a ^ " srcs=" ^ string_of_zlist srcs)
      (run_concat43 (zlist_of_string shape) (parse_mat aff))
  | "ediag", [shape; o; aff] ->
    res (fun (sh, a) -> "shape=" ^ string_of_zlist sh ^ " aff=" ^ str_mat a)
      (run_enforce_diag (zlist_of_string shape) (parse_ornt o) (parse_mat aff))
  | "o2cl", [lb; o] -> res str_opts (ornt2axcodes (parse_ornt lb) (parse_orows o))
  | "c2ol", [lb; c] -> res str_orows (axcodes2ornt (parse_ornt lb) (parse_opts c))
  | "o2c", [o] -> res str_opts (ornt2axcodes ras_labels (parse_orows o))
  | "c2o", [c] -> res str_orows (axcodes2ornt ras_labels (parse_opts c))
  | "ioloop", [atol; r; p] ->
    let pz = int_of_string p in
    "ok " ^ str_orows (io_loop (z_of_string atol) (parse_mat r) (List.init pz z_of_int))
  | "all48", [] -> "ok " ^ String.concat ";" (List.map str_ornt all48)
  | _ -> "err driver:badop"
let () = run_lines handle
