(* C05/Compose.v — any composition of img.slicer[...] and img.as_reoriented(...) keeps every voxel
   at its world position: the relation "im' tracks im" (a source-index map under which value and
   world position are preserved and boxes are respected) is reflexive, transitive and contains
   each single step *)
From Coq Require Import ZArith List Bool Lia ZifyBool.
From NV Require Import Base.PySlice C06.Model C06.Lemmas
  C05.Model C05.LemmasS C05.Orient48 C05.OrientBox C05.Consist C05.Greedy C05.Canon C05.Lemmas.
Import ListNotations.
Open Scope Z_scope.

Definition world (A : mat) (j : list Z) : list Z := mat_vec A (firstn 3 j ++ [1]).
Definition good {V} (im : img V) : Prop :=
  rows4 (i_aff im) /\ (3 <= length (a_shape (i_data im)))%nat.
Definition tracks {V} (im im' : img V) : Prop :=
  exists src : list Z -> list Z,
    forall j, in_box (a_shape (i_data im')) j ->
      in_box (a_shape (i_data im)) (src j)
      /\ a_get (i_data im') j = a_get (i_data im) (src j)
      /\ world (i_aff im') j = world (i_aff im) (src j).

Lemma tracks_refl {V} (im : img V) : tracks im im.
Proof. exists (fun j => j). intros j Hj. repeat split; auto. Qed.

Lemma tracks_trans {V} (a b c : img V) : tracks a b -> tracks b c -> tracks a c.
Proof.
  intros [f Hf] [g Hg]. exists (fun j => f (g j)). intros j Hj.
  destruct (Hg j Hj) as (Hb & Hv & Hw). destruct (Hf (g j) Hb) as (Ha & Hv' & Hw').
  split; [assumption|]. split; congruence.
Qed.

Lemma in_box_cons n sh idx : in_box (n :: sh) idx ->
  exists i r, idx = i :: r /\ 0 <= i < n /\ in_box sh r.
Proof. intros H. inversion H; subst. eauto. Qed.

Lemma in_box_length sh idx : in_box sh idx -> length idx = length sh.
Proof. unfold in_box. induction 1; cbn; congruence. Qed.

(* NumPy basic indexing of the non-spatial axes stays inside the array *)
Lemma src_index_in_box : forall c shape k, ix_valid shape c ->
  in_box (np_shape shape c) k -> in_box shape (src_index shape c k).
Proof.
  induction c as [|x c IH]; intros shape k Hv Hk.
  - cbn in Hv. subst shape. constructor.
  - destruct x as [i|s|].
    + cbn [ix_valid] in Hv. destruct shape as [|n sh]; [contradiction|]. destruct Hv as (Hn & Hi & Hv).
      cbn [valid_cidx] in Hi. cbn [np_shape tl] in Hk. cbn [src_index hd tl].
      replace (i <? 0) with false by lia. constructor; [lia|]. now apply IH.
    + cbn [ix_valid] in Hv. destruct shape as [|n sh]; [contradiction|]. destruct Hv as (Hn & Hs & Hv).
      cbn [valid_cidx] in Hs. cbn [np_shape hd tl] in Hk.
      destruct (in_box_cons _ _ _ Hk) as (i & r & -> & Hi & Hr). cbn [src_index hd tl].
      unfold zlen in Hi. rewrite py_indices_length in Hi.
      constructor; [now apply snth_in_range|]. now apply IH.
    + cbn [ix_valid] in Hv. cbn [np_shape] in Hk.
      destruct (in_box_cons _ _ _ Hk) as (i & r & -> & Hi & Hr). cbn [src_index tl]. now apply IH.
Qed.

Lemma rows4_mul A M : ncols M = 4%nat -> rows4 (mat_mul A M).
Proof.
  intros Hc. unfold rows4, mat_mul. rewrite Forall_forall. intros r Hr. apply in_map_iff in Hr.
  destruct Hr as (x & <- & _). now rewrite map_length, seq_length.
Qed.

Lemma len_ge3 {A} (l : list A) : (3 <= length l)%nat -> exists a b c r, l = a :: b :: c :: r.
Proof. destruct l as [|a [|b [|c r]]]; cbn; intros H; try lia. now exists a, b, c, r. Qed.

(* one slicing step *)
Lemma slicer_step_tracks {V} (im im' : img V) ix : good im ->
  (forall c, check_slicing ix (a_shape (i_data im)) = Ok5 c -> ix_valid (a_shape (i_data im)) c) ->
  slicer_getitem im ix = Ok5 im' -> tracks im im' /\ good im'.
Proof.
  intros [HA Hr] Hhyp Hg.
  destruct (slicer_getitem_world im im' ix HA Hr Hg) as (c & Hc & Hrest).
  specialize (Hhyp c Hc). destruct (Hrest Hhyp) as
    (n0 & n1 & n2 & rest & s0 & s1 & s2 & crest & Hs & -> & Hsh & Hp0 & Hp1 & Hp2 & Hvox).
  destruct (check_slicing_shape ix _ _ Hr Hc Hhyp) as (_ & n0' & n1' & n2' & rest' & s0' & s1' & s2' & crest' & Hs' & Hc' & _ & _ & _ & _ & _ & _ & Hvr).
  rewrite Hs in Hs'. injection Hs' as <- <- <- <-. injection Hc' as <- <- <- <-.
  assert (Haff : i_aff im' = mat_mul (i_aff im) (T3 (adjust n0 s0) (adjust n1 s1) (adjust n2 s2))).
  { unfold slicer_getitem in Hg. rewrite Hc in Hg. cbn [bind5] in Hg.
    destruct (np_getitem _ (i_data im)) as [d|]; [|discriminate]. cbn [bind5] in Hg.
    destruct (existsb _ (a_shape d)); [discriminate|].
    destruct (slicer_affine_world (i_aff im) _ ix _ HA Hr Hc Hhyp) as
      (m0 & m1 & m2 & rs & u0 & u1 & u2 & cr & Hs2 & Hc2 & _ & Ha2 & _).
    rewrite Hs in Hs2. injection Hs2 as <- <- <- <-. injection Hc2 as <- <- <- <-.
    rewrite Ha2 in Hg. cbn [bind5] in Hg. now injection Hg as <-. }
  split.
  - exists (fun j => src_index (a_shape (i_data im)) (CSl s0 :: CSl s1 :: CSl s2 :: crest) j).
    intros j Hj. rewrite Hsh in Hj.
    destruct (in_box_cons _ _ _ Hj) as (k0 & r0 & -> & Hk0 & Hj0).
    destruct (in_box_cons _ _ _ Hj0) as (k1 & r1 & -> & Hk1 & Hj1).
    destruct (in_box_cons _ _ _ Hj1) as (k2 & kr & -> & Hk2 & Hjr).
    destruct (Hvox k0 k1 k2 kr Hk0 Hk1 Hk2) as (Hget & Hw & Hb0 & Hb1 & Hb2).
    rewrite Hs. cbn [src_index hd tl].
    split; [|split].
    + repeat (constructor; [assumption|]). now apply src_index_in_box.
    + exact Hget.
    + unfold world. cbn [firstn app]. exact Hw.
  - split.
    + rewrite Haff. now apply rows4_mul.
    + rewrite Hsh. cbn [length]. lia.
Qed.

Lemma nifti_like_spatial {V} (im : img V) o same im' : nifti_as_reoriented im o = Ok5 (same, im') ->
  exists im'', as_reoriented im o = Ok5 (same, im'') /\ i_data im' = i_data im'' /\ i_aff im' = i_aff im''.
Proof.
  unfold nifti_as_reoriented. destruct (as_reoriented im o) as [[s im'']|]; [|discriminate].
  cbn [bind5 fst snd]. destruct s; intros H; injection H as <- <-; eauto.
Qed.

(* one reorientation step (either flavour) *)
Lemma reorient_step_tracks {V} nifti (im im' : img V) o : good im -> In o all48 ->
  step_op nifti im (OReorient o) = Ok5 im' -> tracks im im' /\ good im'.
Proof.
  intros [HA Hr] Ho Hstep.
  destruct (len_ge3 _ Hr) as (n0 & n1 & n2 & rest & Hs).
  destruct (as_reoriented_world im o n0 n1 n2 rest Ho Hs HA) as
    (same & im1 & Has & Hsame & Hdiff & Hsh & _ & Hvox).
  assert (E : i_data im' = i_data im1 /\ i_aff im' = i_aff im1).
  { cbn [step_op] in Hstep. destruct nifti.
    - destruct (nifti_as_reoriented im o) as [[s2 im2]|] eqn:En; [|discriminate].
      cbn [bind5 snd] in Hstep. injection Hstep as <-.
      destruct (nifti_like_spatial _ _ _ _ En) as (im3 & H3 & Hd & Ha). rewrite Has in H3.
      injection H3 as <- <-. now split.
    - rewrite Has in Hstep. cbn [bind5 snd] in Hstep. injection Hstep as <-. now split. }
  destruct E as [Ed Ea]. unfold tracks, good. rewrite Ed, Ea.
  pose proof (fun x0 x1 x2 xr => all48_box_ok o Ho n0 n1 n2 rest x0 x1 x2 xr) as Hbox. cbv zeta in Hbox.
  split.
  - exists (fun j => src_spec o (n0 :: n1 :: n2 :: rest) j). intros j Hj.
    destruct (Hbox 0 0 0 []) as (HM & _). rewrite Hsh, HM in Hj.
    destruct (in_box_cons _ _ _ Hj) as (j0 & r0 & -> & Hk0 & Hj0).
    destruct (in_box_cons _ _ _ Hj0) as (j1 & r1 & -> & Hk1 & Hj1).
    destruct (in_box_cons _ _ _ Hj1) as (j2 & jr & -> & Hk2 & Hjr).
    destruct (Hbox j0 j1 j2 jr) as (_ & HS & _ & Hiff & _).
    destruct (Hvox j0 j1 j2 jr (in_box_length _ _ Hjr)) as (Hget & Hw & _).
    rewrite Hs. split; [|split].
    + rewrite HS. destruct Hiff as [Hfw _]. destruct (Hfw (conj Hk0 (conj Hk1 Hk2))) as (B0 & B1 & B2).
      repeat (constructor; [assumption|]). assumption.
    + exact Hget.
    + unfold world. cbn [firstn app]. exact Hw.
  - split.
    + destruct same.
      * destruct (Hsame eq_refl) as [-> _]. assumption.
      * destruct (Hdiff eq_refl) as [_ ->]. apply rows4_mul.
        apply is44_ncols. apply (all48_inv_aff_ok o Ho n0 n1 n2 rest 0 0 0 []).
    + rewrite Hsh. destruct (Hbox 0 0 0 []) as (HM & _). rewrite HM. cbn [length]. lia.
Qed.

(* side conditions of a sequence: every orientation is one of the 48; every index accepted by
   check_slicing has a valid canonical form (decidable; measured by the harness) *)
Fixpoint ops_hyp {V} (nifti : bool) (im : img V) (ops : list op) : Prop :=
  match ops with
  | [] => True
  | p :: r =>
      match p with
      | OSlice ix => forall c, check_slicing ix (a_shape (i_data im)) = Ok5 c -> ix_valid (a_shape (i_data im)) c
      | OReorient o => In o all48
      end
      /\ forall im', step_op nifti im p = Ok5 im' -> ops_hyp nifti im' r
  end.

Theorem compose_voxel_world {V} nifti : forall ops (im im' : img V),
  good im -> ops_hyp nifti im ops -> run_ops nifti im ops = Ok5 im' -> tracks im im' /\ good im'.
Proof.
  induction ops as [|p ops IH]; intros im im' Hg Hh Hrun.
  - cbn in Hrun. injection Hrun as <-. split; [apply tracks_refl|assumption].
  - cbn [run_ops] in Hrun. destruct (step_op nifti im p) as [im1|] eqn:Es; [|discriminate].
    cbn [bind5] in Hrun. cbn [ops_hyp] in Hh. destruct Hh as [Hp Hnext].
    assert (H1 : tracks im im1 /\ good im1).
    { destruct p as [ix|o].
      - cbn [step_op] in Es. now apply (slicer_step_tracks im im1 ix).
      - now apply (reorient_step_tracks nifti im im1 o). }
    destruct H1 as [Ht1 Hg1]. destruct (IH im1 im' Hg1 (Hnext im1 Es) Hrun) as [Ht2 Hg2].
    split; [now apply (tracks_trans im im1 im')|assumption].
Qed.

(* ====================================================================================
   Frame condition: the get_fdata cache is invisible to reorientation and slicing.  Whatever
   get_fdata / edit / uncache calls are interleaved with the slicer / as_reoriented calls, from
   whatever cache state, the resulting image is the one the plain sequence gives from the source
   image alone — and a freshly returned image has no cache. *)
Theorem cache_frame {V} nifti : forall (xs : list (cop V)) (c c' : cimg V),
  run_cops nifti c xs = Ok5 c' -> run_ops nifti (c_im c) (ops_of xs) = Ok5 (c_im c').
Proof.
  induction xs as [|x xs IH]; intros c c' H.
  - cbn in H. injection H as <-. reflexivity.
  - cbn [run_cops] in H. destruct (cstep nifti c x) as [c1|] eqn:E; [|discriminate]. cbn [bind5] in H.
    destruct x as [conv fill|f| |p]; cbn [cstep] in E.
    + injection E as <-. cbn [ops_of]. destruct fill; apply (IH _ _ H).
    + injection E as <-. cbn [ops_of]. now apply (IH _ _ H).
    + injection E as <-. cbn [ops_of]. now apply (IH _ _ H).
    + destruct (step_op nifti (c_im c) p) as [im'|] eqn:Es; [|discriminate]. cbn [bind5] in E.
      injection E as <-. cbn [ops_of run_ops]. rewrite Es. cbn [bind5]. now apply (IH _ _ H).
Qed.

Corollary cache_independent {V} nifti (xs ys : list (cop V)) (im : img V) k1 k2 c1 c2 :
  ops_of xs = ops_of ys ->
  run_cops nifti (mkC im k1) xs = Ok5 c1 -> run_cops nifti (mkC im k2) ys = Ok5 c2 -> c_im c1 = c_im c2.
Proof.
  intros Ho H1 H2. apply cache_frame in H1, H2. cbn [c_im] in H1, H2. rewrite Ho in H1. congruence.
Qed.

Lemma cstep_op_no_cache {V} nifti (c c' : cimg V) p : cstep nifti c (COp p) = Ok5 c' -> c_cache c' = None.
Proof.
  cbn [cstep]. destruct (step_op nifti (c_im c) p); [|discriminate]. cbn [bind5]. intros H. now injection H as <-.
Qed.
