(* C05/LemmasS.v — matrices with rows of length 4; the slicer (check_slicing, slice_affine,
   SpatialFirstSlicer.__getitem__) *)
From Coq Require Import ZArith List Bool Lia ZifyBool.
From NV Require Import Base.PySlice C06.Model C06.Lemmas C05.Model.
Import ListNotations.
Open Scope Z_scope.

(* equality of explicit lists of ring expressions, entry by entry *)
Ltac list_eq := repeat (apply (f_equal2 (@cons Z)); [try ring|]); try reflexivity.

(* ====================================================================================
   Part 1: matrices with rows of length 4 *)
Definition rows4 (A : mat) : Prop := Forall (fun r => length r = 4%nat) A.
Definition is44 (M : mat) : Prop := length M = 4%nat /\ rows4 M.

Lemma len4 {A} (l : list A) : length l = 4%nat -> exists a b c d, l = [a; b; c; d].
Proof.
  destruct l as [|a [|b [|c [|d [|e l]]]]]; cbn; intros H; try discriminate.
  now exists a, b, c, d.
Qed.

(* (A . M) . v = A . (M . v) *)
Lemma mat_assoc4 A M v : rows4 A -> is44 M -> length v = 4%nat ->
  mat_vec (mat_mul A M) v = mat_vec A (mat_vec M v).
Proof.
  intros HA [HM HMr] Hv.
  destruct (len4 M HM) as (r0 & r1 & r2 & r3 & ->).
  inversion HMr as [|? ? H0 HM1]; subst. inversion HM1 as [|? ? H1 HM2]; subst.
  inversion HM2 as [|? ? H2 HM3]; subst. inversion HM3 as [|? ? H3 _]; subst.
  destruct (len4 r0 H0) as (m00 & m01 & m02 & m03 & ->).
  destruct (len4 r1 H1) as (m10 & m11 & m12 & m13 & ->).
  destruct (len4 r2 H2) as (m20 & m21 & m22 & m23 & ->).
  destruct (len4 r3 H3) as (m30 & m31 & m32 & m33 & ->).
  destruct (len4 v Hv) as (v0 & v1 & v2 & v3 & ->).
  unfold mat_vec, mat_mul. rewrite map_map. apply map_ext_in. intros r Hr.
  unfold rows4 in HA. rewrite Forall_forall in HA. specialize (HA r Hr).
  destruct (len4 r HA) as (a & b & c & d & ->).
  cbn [ncols length seq map mcol nth dot]. ring.
Qed.

Lemma np_dot_44 A M : rows4 A -> length M = 4%nat -> np_dot A M = Ok5 (mat_mul A M).
Proof.
  intros HA HM. unfold np_dot.
  replace (forallb (fun r => Nat.eqb (length r) (length M)) A) with true; [reflexivity|].
  symmetry. apply forallb_forall. intros r Hr. unfold rows4 in HA. rewrite Forall_forall in HA.
  rewrite (HA r Hr), HM. reflexivity.
Qed.

(* ====================================================================================
   Part 2: the slicer *)

(* the transform slice_affine builds for three spatial slices *)
Definition T3 (t0 t1 t2 : Z * Z * Z) : mat :=
  [[snd t0; 0; 0; fst (fst t0)]; [0; snd t1; 0; fst (fst t1)]; [0; 0; snd t2; fst (fst t2)]; [0; 0; 0; 1]].

Lemma T3_is44 t0 t1 t2 : is44 (T3 t0 t1 t2).
Proof. split; [reflexivity|]. repeat constructor. Qed.

(* one axis: T . k is the k-th selected index *)
Lemma T3_vec t0 t1 t2 k0 k1 k2 :
  mat_vec (T3 t0 t1 t2) [k0; k1; k2; 1] = [snth t0 k0; snth t1 k1; snth t2 k2; 1].
Proof.
  destruct t0 as [[a0 b0] s0], t1 as [[a1 b1] s1], t2 as [[a2 b2] s2].
  unfold T3, mat_vec, snth. cbn [map dot fst snd]. list_eq.
Qed.

Lemma slice_transform_3 n0 n1 n2 rest s0 s1 s2 :
  s_step s0 <> Some 0 -> s_step s1 <> Some 0 -> s_step s2 <> Some 0 ->
  slice_transform (n0 :: n1 :: n2 :: rest) [CSl s0; CSl s1; CSl s2]
  = Ok5 (T3 (adjust n0 s0) (adjust n1 s1) (adjust n2 s2)).
Proof.
  intros H0 H1 H2.
  assert (E : forall s, s_step s <> Some 0 -> opt_eqb (s_step s) (Some 0) = false).
  { intros s H. destruct (s_step s) as [v|]; cbn; [|reflexivity].
    apply Z.eqb_neq. intros ->. now apply H. }
  unfold slice_transform, slice_rows, slice_row. rewrite (E _ H0), (E _ H1), (E _ H2).
  change (znth (n0 :: n1 :: n2 :: rest) 0 0) with n0.
  change (0 + 1) with 1. change (znth (n0 :: n1 :: n2 :: rest) 1 0) with n1.
  change (1 + 1) with 2. change (znth (n0 :: n1 :: n2 :: rest) 2 0) with n2.
  destruct (adjust n0 s0) as [[a0 b0] t0], (adjust n1 s1) as [[a1 b1] t1], (adjust n2 s2) as [[a2 b2] t2].
  reflexivity.
Qed.

(* A.T sends k to the world position of voxel start + k*step, for ANY triples and ANY k *)
Lemma slicer_axis_world A t0 t1 t2 k0 k1 k2 : rows4 A ->
  mat_vec (mat_mul A (T3 t0 t1 t2)) [k0; k1; k2; 1]
  = mat_vec A [snth t0 k0; snth t1 k1; snth t2 k2; 1].
Proof.
  intros HA. rewrite mat_assoc4; [|assumption|apply T3_is44|reflexivity]. now rewrite T3_vec.
Qed.

(* canonical_slicers applied to its own output (check_slicing is called twice by __getitem__):
   C06's canon_plain with the weaker hypothesis ix_valid (any non-zero step) *)
Lemma canon_plain5 : forall c pre sh acc, ix_valid sh c ->
  canon true (pre ++ sh) (map cidx_to_idx c) (zlen pre) acc
  = Ok (rev acc ++ normalize sh c, zlen pre + zlen sh).
Proof.
  induction c as [|x c IH]; intros pre sh acc Hv.
  - cbn in Hv. subst sh. cbn. rewrite app_nil_r. f_equal. f_equal. unfold zlen; cbn; lia.
  - destruct x as [k|s|]; cbn [ix_valid] in Hv.
    + destruct sh as [|n sh]; [contradiction|]. destruct Hv as (Hn & Hk & Hv). cbn [valid_cidx] in Hk.
      cbn [map cidx_to_idx canon]. rewrite py_nth_app. cbn [bind].
      replace (k <? 0) with false by lia. replace (true && (n <=? k)) with false by lia.
      replace (pre ++ n :: sh) with ((pre ++ [n]) ++ sh) by (rewrite <- app_assoc; reflexivity).
      replace (zlen pre + 1) with (zlen (pre ++ [n])) by (unfold zlen; rewrite app_length; cbn; lia).
      rewrite IH by assumption. cbn [rev normalize tl]. rewrite <- app_assoc. cbn [app].
      f_equal. f_equal. unfold zlen. rewrite app_length. cbn [length]. lia.
    + destruct sh as [|n sh]; [contradiction|]. destruct Hv as (Hn & Hs & Hv).
      cbn [map cidx_to_idx canon]. rewrite py_nth_app. cbn [bind].
      replace (pre ++ n :: sh) with ((pre ++ [n]) ++ sh) by (rewrite <- app_assoc; reflexivity).
      replace (zlen pre + 1) with (zlen (pre ++ [n])) by (unfold zlen; rewrite app_length; cbn; lia).
      rewrite IH by assumption. cbn [rev normalize tl hd]. rewrite <- app_assoc. cbn [app].
      f_equal. f_equal. unfold zlen. rewrite app_length. cbn [length]. lia.
    + cbn [map cidx_to_idx canon]. rewrite IH by assumption. cbn [rev normalize]. rewrite <- app_assoc. reflexivity.
Qed.

Lemma canonical_of_canonical shape c : ix_valid shape c ->
  canonical_slicers true (map cidx_to_idx c) shape = Ok (normalize shape c).
Proof.
  intros Hv. unfold canonical_slicers.
  assert (Hc : canon true shape (map cidx_to_idx c) 0 [] = Ok (normalize shape c, zlen shape))
    by exact (canon_plain5 c [] shape [] Hv).
  rewrite Hc. cbn [bind]. replace (zlen shape - zlen shape) with 0 by lia. cbn [Z.to_nat repeat].
  now rewrite app_nil_r.
Qed.

Lemma adjust_norm_sl d s : 0 <= d -> adjust d (norm_sl d s) = adjust d s.
Proof.
  intros Hd. unfold norm_sl.
  destruct (negb (pslice_eqb s sl_none) && opt_eqb (s_stop s) (Some d) && opt_in0 (s_start s) 0 && opt_in0 (s_step s) 1) eqn:E;
    [|reflexivity].
  apply andb_true_iff in E. destruct E as [E E3]. apply andb_true_iff in E. destruct E as [E E2].
  apply andb_true_iff in E. destruct E as [_ E1].
  destruct s as [a b c]. cbn [s_start s_stop s_step] in *.
  destruct b as [b|]; cbn in E1; [|discriminate]. apply Z.eqb_eq in E1. subst b.
  unfold adjust, step_of, sl_none, clampv. cbn [s_start s_stop s_step].
  destruct c as [c|]; cbn in E3; [apply Z.eqb_eq in E3; subst c|];
    (destruct a as [a|]; cbn in E2; [apply Z.eqb_eq in E2; subst a|]); cbn [Z.ltb Z.compare];
    replace (d <? 0) with false by lia; rewrite ?Z.min_id, ?Z.min_l by lia; reflexivity.
Qed.

Lemma norm_sl_step d s : step_of s <> 0 -> s_step (norm_sl d s) <> Some 0.
Proof.
  intros H. unfold norm_sl. destruct (_ && _ && _ && _); [cbn; discriminate|].
  intros E. apply H. unfold step_of. now rewrite E.
Qed.

Lemma step_of_some0 s : step_of s <> 0 -> s_step s <> Some 0.
Proof. intros H E. apply H. unfold step_of. now rewrite E. Qed.

(* a canonical index accepted by check_slicing on an image of rank >= 3 starts with three slices *)
Lemma check_slicing_shape ix shape c : (3 <= length shape)%nat ->
  check_slicing ix shape = Ok5 c -> ix_valid shape c ->
  canonical_slicers true ix shape = Ok c /\
  exists n0 n1 n2 rest s0 s1 s2 crest,
    shape = n0 :: n1 :: n2 :: rest /\ c = CSl s0 :: CSl s1 :: CSl s2 :: crest
    /\ 0 <= n0 /\ 0 <= n1 /\ 0 <= n2 /\ step_of s0 <> 0 /\ step_of s1 <> 0 /\ step_of s2 <> 0
    /\ ix_valid rest crest.
Proof.
  intros Hr Hc Hv. unfold check_slicing in Hc.
  destruct (canonical_slicers true ix shape) as [c'|e] eqn:Ec; [|destruct e; discriminate].
  cbn [lift6 bind5] in Hc. destruct (forallb is_csl (firstn 3 c')) eqn:Ef; [|discriminate].
  injection Hc as ->. split; [reflexivity|].
  destruct shape as [|n0 [|n1 [|n2 rest]]]; cbn in Hr; try lia.
  assert (Hnew : forall sh l, ix_valid sh (CNew :: l) -> forallb is_csl (firstn 3 (CNew :: l)) = true -> False)
    by (intros sh l _ H; cbn in H; discriminate).
  destruct c as [|x0 c]; [cbn in Hv; discriminate|].
  destruct x0 as [k0|s0|]; [cbn in Ef; discriminate| |cbn in Ef; discriminate].
  cbn [ix_valid] in Hv. destruct Hv as (Hn0 & Hs0 & Hv).
  destruct c as [|x1 c]; [cbn in Hv; discriminate|].
  destruct x1 as [k1|s1|]; [cbn in Ef; discriminate| |cbn in Ef; discriminate].
  cbn [ix_valid] in Hv. destruct Hv as (Hn1 & Hs1 & Hv).
  destruct c as [|x2 c]; [cbn in Hv; discriminate|].
  destruct x2 as [k2|s2|]; [cbn in Ef; discriminate| |cbn in Ef; discriminate].
  cbn [ix_valid] in Hv. destruct Hv as (Hn2 & Hs2 & Hv).
  exists n0, n1, n2, rest, s0, s1, s2, c. cbn [valid_cidx] in *. repeat split; assumption.
Qed.

Theorem slicer_affine_world A shape ix c : rows4 A -> (3 <= length shape)%nat ->
  check_slicing ix shape = Ok5 c -> ix_valid shape c ->
  exists n0 n1 n2 rest s0 s1 s2 crest,
    shape = n0 :: n1 :: n2 :: rest /\ c = CSl s0 :: CSl s1 :: CSl s2 :: crest /\
    let t0 := adjust n0 s0 in let t1 := adjust n1 s1 in let t2 := adjust n2 s2 in
    let A' := mat_mul A (T3 t0 t1 t2) in
    slice_affine A shape ix = Ok5 A' /\
    slice_affine A shape (map cidx_to_idx c) = Ok5 A' /\
    forall k0 k1 k2, 0 <= k0 < slen t0 -> 0 <= k1 < slen t1 -> 0 <= k2 < slen t2 ->
      mat_vec A' [k0; k1; k2; 1] = mat_vec A [snth t0 k0; snth t1 k1; snth t2 k2; 1]
      /\ 0 <= snth t0 k0 < n0 /\ 0 <= snth t1 k1 < n1 /\ 0 <= snth t2 k2 < n2
      /\ forall kr, src_index shape c (k0 :: k1 :: k2 :: kr)
                    = snth t0 k0 :: snth t1 k1 :: snth t2 k2 :: src_index rest crest kr.
Proof.
  intros HA Hr Hc Hv.
  destruct (check_slicing_shape ix shape c Hr Hc Hv) as
    (Hcan & n0 & n1 & n2 & rest & s0 & s1 & s2 & crest & -> & -> & Hn0 & Hn1 & Hn2 & Hs0 & Hs1 & Hs2 & Hvr).
  exists n0, n1, n2, rest, s0, s1, s2, crest. split; [reflexivity|]. split; [reflexivity|].
  cbv zeta. split; [|split].
  - unfold slice_affine. rewrite Hc. cbn [bind5 firstn].
    rewrite slice_transform_3 by (now apply step_of_some0). cbn [bind5].
    apply np_dot_44; [assumption|reflexivity].
  - unfold slice_affine, check_slicing. rewrite canonical_of_canonical by assumption.
    cbn [lift6 bind5 normalize hd tl firstn forallb is_csl andb].
    rewrite slice_transform_3 by (now apply norm_sl_step). cbn [bind5].
    rewrite !adjust_norm_sl by assumption. apply np_dot_44; [assumption|reflexivity].
  - intros k0 k1 k2 Hk0 Hk1 Hk2.
    split; [|split; [|split; [|split]]].
    + rewrite mat_assoc4; [|assumption|apply T3_is44|reflexivity]. now rewrite T3_vec.
    + now apply snth_in_range.
    + now apply snth_in_range.
    + now apply snth_in_range.
    + intros kr. reflexivity.
Qed.

Lemma np_getitem_ok {V} c (t d : arr V) : np_getitem c t = Ok5 d ->
  a_shape d = np_shape (a_shape t) c /\ forall k, a_get d k = a_get t (src_index (a_shape t) c k).
Proof.
  unfold np_getitem. destruct (_ <? _); [discriminate|].
  destruct (np_check (a_shape t) c) as [[]|]; [|discriminate]. cbn [bind5].
  intros H. injection H as <-. split; reflexivity.
Qed.

(* SpatialFirstSlicer.__getitem__ as a whole *)
Theorem slicer_getitem_world {V} (im im' : img V) ix :
  let shape := a_shape (i_data im) in
  rows4 (i_aff im) -> (3 <= length shape)%nat ->
  slicer_getitem im ix = Ok5 im' ->
  exists c, check_slicing ix shape = Ok5 c /\
  (ix_valid shape c ->
   exists n0 n1 n2 rest s0 s1 s2 crest,
    shape = n0 :: n1 :: n2 :: rest /\ c = CSl s0 :: CSl s1 :: CSl s2 :: crest /\
    let t0 := adjust n0 s0 in let t1 := adjust n1 s1 in let t2 := adjust n2 s2 in
    a_shape (i_data im') = slen t0 :: slen t1 :: slen t2 :: np_shape rest crest /\
    0 < slen t0 /\ 0 < slen t1 /\ 0 < slen t2 /\
    forall k0 k1 k2 kr, 0 <= k0 < slen t0 -> 0 <= k1 < slen t1 -> 0 <= k2 < slen t2 ->
      a_get (i_data im') (k0 :: k1 :: k2 :: kr)
        = a_get (i_data im) (snth t0 k0 :: snth t1 k1 :: snth t2 k2 :: src_index rest crest kr)
      /\ mat_vec (i_aff im') [k0; k1; k2; 1] = mat_vec (i_aff im) [snth t0 k0; snth t1 k1; snth t2 k2; 1]
      /\ 0 <= snth t0 k0 < n0 /\ 0 <= snth t1 k1 < n1 /\ 0 <= snth t2 k2 < n2).
Proof.
  intros shape HA Hr Hg. unfold slicer_getitem in Hg. subst shape.
  set (shape := a_shape (i_data im)) in *.
  destruct (check_slicing ix shape) as [c|e] eqn:Hc; [|destruct e; discriminate].
  cbn [bind5] in Hg. exists c. split; [reflexivity|]. intros Hv.
  destruct (slicer_affine_world (i_aff im) shape ix c HA Hr Hc Hv) as
    (n0 & n1 & n2 & rest & s0 & s1 & s2 & crest & Hs & -> & _ & Haff & Hw).
  exists n0, n1, n2, rest, s0, s1, s2, crest. split; [assumption|]. split; [reflexivity|]. cbv zeta.
  destruct (np_getitem (CSl s0 :: CSl s1 :: CSl s2 :: crest) (i_data im)) as [d|] eqn:Hd; [|discriminate].
  cbn [bind5] in Hg. destruct (np_getitem_ok _ _ _ Hd) as [Hsh Hget]. fold shape in Hsh, Hget.
  destruct (existsb (fun n => n =? 0) (a_shape d)) eqn:Ez; [discriminate|].
  rewrite Haff in Hg. cbn [bind5] in Hg. injection Hg as <-.
  change (i_data (mkImg d (mat_mul (i_aff im) (T3 (adjust n0 s0) (adjust n1 s1) (adjust n2 s2))) (i_dim im))) with d.
  change (i_aff (mkImg d (mat_mul (i_aff im) (T3 (adjust n0 s0) (adjust n1 s1) (adjust n2 s2))) (i_dim im)))
    with (mat_mul (i_aff im) (T3 (adjust n0 s0) (adjust n1 s1) (adjust n2 s2))).
  assert (Hsh' : a_shape d = slen (adjust n0 s0) :: slen (adjust n1 s1) :: slen (adjust n2 s2) :: np_shape rest crest).
  { rewrite Hsh, Hs. cbn [np_shape hd tl]. unfold zlen. now rewrite !py_indices_length. }
  rewrite Hsh' in Ez. cbn [existsb] in Ez. apply orb_false_iff in Ez. destruct Ez as [E0 Ez].
  apply orb_false_iff in Ez. destruct Ez as [E1 Ez]. apply orb_false_iff in Ez. destruct Ez as [E2 _].
  pose proof (slen_nonneg (adjust n0 s0)). pose proof (slen_nonneg (adjust n1 s1)). pose proof (slen_nonneg (adjust n2 s2)).
  split; [assumption|]. split; [lia|]. split; [lia|]. split; [lia|].
  intros k0 k1 k2 kr Hk0 Hk1 Hk2.
  destruct (Hw k0 k1 k2 Hk0 Hk1 Hk2) as (Hm & Hb0 & Hb1 & Hb2 & Hsrc).
  rewrite Hget, Hsrc. repeat split; try assumption; lia.
Qed.

(* empty results are refused; integer or None among the spatial entries is refused *)
Lemma slicer_refuses_scalar {V} (im : img V) ix c :
  canonical_slicers true ix (a_shape (i_data im)) = Ok c ->
  forallb is_csl (firstn 3 c) = false -> slicer_getitem im ix = Err5 E5Index.
Proof.
  intros Hc Hf. unfold slicer_getitem, check_slicing. rewrite Hc. cbn [lift6 bind5]. now rewrite Hf.
Qed.

(* ====================================================================================
   Part 3a: three-row orientations, explicit forms *)
(* ---- three-row orientations with symbolic entries: explicit forms (all by computation) *)
Definition off (f n : Z) : Z := (f * - (n - 1) - - (n - 1)) / 2.
Lemma off_m1 n : off (-1) n = n - 1.
Proof. unfold off. replace (-1 * - (n - 1) - - (n - 1)) with ((n - 1) * 2) by ring. apply Z.div_mul. lia. Qed.
Lemma off_p1 n : off 1 n = 0.
Proof. unfold off. replace (1 * - (n - 1) - - (n - 1)) with 0 by ring. reflexivity. Qed.

Lemma inv_ornt_aff_3 p0 f0 p1 f1 p2 f2 n0 n1 n2 rest :
  inv_ornt_aff [(p0, f0); (p1, f1); (p2, f2)] (n0 :: n1 :: n2 :: rest)
  = mat_mul [[f0; 0; 0; off f0 n0]; [0; f1; 0; off f1 n1]; [0; 0; f2; off f2 n2]; [0; 0; 0; 1]]
            [znth (eye 4) p0 []; znth (eye 4) p1 []; znth (eye 4) p2 []; [0; 0; 0; 1]].
Proof. reflexivity. Qed.

Definition flipv (f n v : Z) : Z := if f =? -1 then n - 1 - v else v.

Lemma src_spec_3 p0 f0 p1 f1 p2 f2 n0 n1 n2 rest j0 j1 j2 jr :
  let j := j0 :: j1 :: j2 :: jr in
  src_spec [(p0, f0); (p1, f1); (p2, f2)] (n0 :: n1 :: n2 :: rest) j
  = flipv f0 n0 (znth j p0 0) :: flipv f1 n1 (znth j p1 0) :: flipv f2 n2 (znth j p2 0) :: jr.
Proof. reflexivity. Qed.

Ltac znth_red := repeat match goal with
  | |- context [znth (?a :: ?b :: ?c :: ?l) 0 ?d] => change (znth (a :: b :: c :: l) 0 d) with a
  | |- context [znth (?a :: ?b :: ?c :: ?l) 1 ?d] => change (znth (a :: b :: c :: l) 1 d) with b
  | |- context [znth (?a :: ?b :: ?c :: ?l) 2 ?d] => change (znth (a :: b :: c :: l) 2 d) with c
  end.

Lemma out_shape_spec_3 p0 f0 p1 f1 p2 f2 n0 n1 n2 rest :
  let sh := n0 :: n1 :: n2 :: rest in
  out_shape_spec [(p0, f0); (p1, f1); (p2, f2)] sh
  = znth sh (index_of 0 [p0; p1; p2]) 0 :: znth sh (index_of 1 [p0; p1; p2]) 0
    :: znth sh (index_of 2 [p0; p1; p2]) 0 :: rest.
Proof. reflexivity. Qed.

Lemma dst_spec_3 p0 f0 p1 f1 p2 f2 n0 n1 n2 rest i0 i1 i2 ir :
  let o := [(p0, f0); (p1, f1); (p2, f2)] in
  let sh := n0 :: n1 :: n2 :: rest in
  let i := i0 :: i1 :: i2 :: ir in
  let g := fun k => let a := index_of k [p0; p1; p2] in flipv (snd (znth o a (0, 0))) (znth sh a 0) (znth i a 0) in
  dst_spec o sh i = g 0 :: g 1 :: g 2 :: ir.
Proof. reflexivity. Qed.

Ltac norm3 :=
  cbv zeta; rewrite ?out_shape_spec_3, ?src_spec_3; cbv zeta; rewrite ?dst_spec_3; cbv zeta; rewrite ?src_spec_3; cbv zeta;
  cbn [index_of Z.eqb Pos.eqb Z.add Pos.add]; znth_red; cbn [snd fst]; unfold flipv; cbn [Z.eqb Pos.eqb]; znth_red.


(* slicing only the non-spatial axes (img.slicer[..., 0], [:, :, :, 1:]) leaves the affine alone *)
Lemma mat_mul_T3_id A n0 n1 n2 : rows4 A -> mat_mul A (T3 (0, n0, 1) (0, n1, 1) (0, n2, 1)) = A.
Proof.
  intros HA. unfold mat_mul. rewrite <- (map_id A) at 2. apply map_ext_in. intros r Hr.
  unfold rows4 in HA. rewrite Forall_forall in HA. destruct (len4 r (HA r Hr)) as (a & b & c & d & ->).
  cbn [T3 ncols length seq map mcol nth dot fst snd]. list_eq.
Qed.

Lemma nonspatial_slicing_keeps_affine A shape ix crest : rows4 A -> (3 <= length shape)%nat ->
  check_slicing ix shape = Ok5 (CSl sl_none :: CSl sl_none :: CSl sl_none :: crest) ->
  ix_valid shape (CSl sl_none :: CSl sl_none :: CSl sl_none :: crest) ->
  slice_affine A shape ix = Ok5 A.
Proof.
  intros HA Hr Hc Hv.
  destruct (slicer_affine_world A shape ix _ HA Hr Hc Hv) as
    (n0 & n1 & n2 & rest & s0 & s1 & s2 & cr & _ & E & H & _).
  injection E as <- <- <- _. cbv zeta in H. rewrite H. f_equal.
  change (adjust n0 sl_none) with (0, n0, 1). change (adjust n1 sl_none) with (0, n1, 1).
  change (adjust n2 sl_none) with (0, n2, 1). now apply mat_mul_T3_id.
Qed.
