(* C05/Extract.v — extraction of the executable model (ExtrOcamlBasic only; Z stays inductive) *)
Require Extraction. Require ExtrOcamlBasic.
From NV Require Import Base.PySlice C06.Model C05.Model.
Extraction Language OCaml.
Extraction "c05_model.ml" run_reorient run_slicer run_file_slicer run_sequence run_csequence tag_conv run_apply run_flip_axis run_four_to_three run_squeeze run_concat43 run_enforce_diag slice_affine check_slicing run_canonical_hyp inv_ornt_aff
  ornt_transform ornt_compose ornt2axcodes axcodes2ornt ras_labels io_loop all48 apply_orientation src_spec.
