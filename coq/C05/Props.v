From Coq Require Import ZArith.
Theorem C05_stub : 1 + 1 = 2. Proof. reflexivity. Qed.
Print Assumptions C05_stub.
