(* C05/Props.v — property theorems only (each closed by `exact`, Print Assumptions beneath).
   Property C05: reorienting, canonicalising and slicing keep each voxel at its world position.
   Arrays are (shape, get); affines are matrices over Z (every identity below is a polynomial
   identity, valid in any commutative ring); A has rows of length 4 (rows4) and any number of
   rows.  all48 = the 48 signed permutations of three axes (C05_all48_complete). *)
From Coq Require Import ZArith List Bool Lia.
From NV Require Import Base.PySlice C06.Model C06.Lemmas
  C05.Model C05.LemmasS C05.Orient48 C05.OrientBox C05.Consist C05.Greedy C05.Canon C05.Lemmas C05.Compose C05.Bridge.
Import ListNotations.
Open Scope Z_scope.

(* ---------------------------------------------------------------------------- the slicer *)

(* per axis and lifted to three axes, for ANY triples (start, stop, step) and ANY k: the affine
   A.T built from start and step sends k to the world position of voxel start + k*step *)
Theorem C05_slicer_axis_world : forall A t0 t1 t2 k0 k1 k2, rows4 A ->
  mat_vec (mat_mul A (T3 t0 t1 t2)) [k0; k1; k2; 1]
  = mat_vec A [snth t0 k0; snth t1 k1; snth t2 k2; 1].
Proof. exact slicer_axis_world. Qed.
Print Assumptions C05_slicer_axis_world.

(* every axis length n >= 0, every slice (any sign / None / out-of-range start and stop, step <> 0):
   the k-th selected index is a valid index of the axis *)
Theorem C05_slicer_selected_in_range : forall n s k, 0 <= n -> step_of s <> 0 ->
  0 <= k < slen (adjust n s) -> 0 <= snth (adjust n s) k < n.
Proof. exact snth_in_range. Qed.
Print Assumptions C05_slicer_selected_in_range.

(* slice_affine, for every shape of rank >= 3, every affine and every index tuple accepted by
   check_slicing whose canonical form c is valid (ix_valid: ints in range, as many real entries
   as axes, non-zero steps — decidable, measured by the harness on every accepted case): the
   three spatial entries are slices, slice_affine(index) = slice_affine(canonical index) =
   A . T(start, step from slice.indices), every output voxel keeps its world position, the
   selected voxels are inside the input, and the source index is NumPy's *)
Theorem C05_slice_affine_world : forall A shape ix c, rows4 A -> (3 <= length shape)%nat ->
  check_slicing ix shape = Ok5 c -> ix_valid shape c ->
  exists n0 n1 n2 rest s0 s1 s2 crest,
    shape = n0 :: n1 :: n2 :: rest /\ c = CSl s0 :: CSl s1 :: CSl s2 :: crest /\
    let t0 := adjust n0 s0 in let t1 := adjust n1 s1 in let t2 := adjust n2 s2 in
    let A' := mat_mul A (T3 t0 t1 t2) in
    slice_affine A shape ix = Ok5 A' /\
    slice_affine A shape (map cidx_to_idx c) = Ok5 A' /\
    forall k0 k1 k2, 0 <= k0 < slen t0 -> 0 <= k1 < slen t1 -> 0 <= k2 < slen t2 ->
      mat_vec A' [k0; k1; k2; 1] = mat_vec A [snth t0 k0; snth t1 k1; snth t2 k2; 1]
      /\ 0 <= snth t0 k0 < n0 /\ 0 <= snth t1 k1 < n1 /\ 0 <= snth t2 k2 < n2
      /\ forall kr, src_index shape c (k0 :: k1 :: k2 :: kr)
                    = snth t0 k0 :: snth t1 k1 :: snth t2 k2 :: src_index rest crest kr.
Proof. exact slicer_affine_world. Qed.
Print Assumptions C05_slice_affine_world.

(* img.slicer[index] as a whole: whenever it returns an image, every output voxel
   (k0, k1, k2, kr) holds the value of input voxel (start_i + k_i * step_i, NumPy's index on the
   other axes), at the same world position under the new affine; no output axis is empty *)
Theorem C05_slicer_voxel_world : forall V (im im' : img V) ix,
  let shape := a_shape (i_data im) in
  rows4 (i_aff im) -> (3 <= length shape)%nat ->
  slicer_getitem im ix = Ok5 im' ->
  exists c, check_slicing ix shape = Ok5 c /\
  (ix_valid shape c ->
   exists n0 n1 n2 rest s0 s1 s2 crest,
    shape = n0 :: n1 :: n2 :: rest /\ c = CSl s0 :: CSl s1 :: CSl s2 :: crest /\
    let t0 := adjust n0 s0 in let t1 := adjust n1 s1 in let t2 := adjust n2 s2 in
    a_shape (i_data im') = slen t0 :: slen t1 :: slen t2 :: np_shape rest crest /\
    0 < slen t0 /\ 0 < slen t1 /\ 0 < slen t2 /\
    forall k0 k1 k2 kr, 0 <= k0 < slen t0 -> 0 <= k1 < slen t1 -> 0 <= k2 < slen t2 ->
      a_get (i_data im') (k0 :: k1 :: k2 :: kr)
        = a_get (i_data im) (snth t0 k0 :: snth t1 k1 :: snth t2 k2 :: src_index rest crest kr)
      /\ mat_vec (i_aff im') [k0; k1; k2; 1] = mat_vec (i_aff im) [snth t0 k0; snth t1 k1; snth t2 k2; 1]
      /\ 0 <= snth t0 k0 < n0 /\ 0 <= snth t1 k1 < n1 /\ 0 <= snth t2 k2 < n2).
Proof. exact @slicer_getitem_world. Qed.
Print Assumptions C05_slicer_voxel_world.

(* slicing only non-spatial axes (img.slicer[..., 0], img.slicer[:, :, :, 1:]): the affine is unchanged *)
Theorem C05_nonspatial_slicing_keeps_affine : forall A shape ix crest, rows4 A -> (3 <= length shape)%nat ->
  check_slicing ix shape = Ok5 (CSl sl_none :: CSl sl_none :: CSl sl_none :: crest) ->
  ix_valid shape (CSl sl_none :: CSl sl_none :: CSl sl_none :: crest) ->
  slice_affine A shape ix = Ok5 A.
Proof. exact nonspatial_slicing_keeps_affine. Qed.
Print Assumptions C05_nonspatial_slicing_keeps_affine.

(* an integer or None among the three spatial entries is refused (IndexError), never answered *)
Theorem C05_slicer_refuses_scalar : forall V (im : img V) ix c,
  canonical_slicers true ix (a_shape (i_data im)) = Ok c ->
  forallb is_csl (firstn 3 c) = false -> slicer_getitem im ix = Err5 E5Index.
Proof. exact @slicer_refuses_scalar. Qed.
Print Assumptions C05_slicer_refuses_scalar.

(* ---------------------------------------------------------------------------- reorientation *)

(* every shape of rank >= 3 (any axis lengths), each of the 48 orientations, every affine:
   as_reoriented (NIfTI flavour: dim_info remapped) returns an image whose voxel j holds the
   value of input voxel src_spec o shape j, at the same world position; non-spatial indices
   are unchanged; the identity orientation returns the image itself *)
Theorem C05_reorient_voxel_world : forall V (im : img V) o n0 n1 n2 rest,
  In o all48 -> a_shape (i_data im) = n0 :: n1 :: n2 :: rest -> rows4 (i_aff im) -> dims_ok (i_dim im) ->
  let shape := n0 :: n1 :: n2 :: rest in
  exists same im', nifti_as_reoriented im o = Ok5 (same, im') /\
    (same = true -> im' = im /\ o = ident3) /\
    (same = false -> o <> ident3 /\ i_aff im' = mat_mul (i_aff im) (inv_ornt_aff o shape)) /\
    a_shape (i_data im') = out_shape_spec o shape /\
    i_dim im' = remap_dim o (i_dim im) /\
    forall j0 j1 j2 jr, length jr = length rest ->
      let s := src_spec o shape (j0 :: j1 :: j2 :: jr) in
      a_get (i_data im') (j0 :: j1 :: j2 :: jr) = a_get (i_data im) s /\
      mat_vec (i_aff im') [j0; j1; j2; 1] = mat_vec (i_aff im) (firstn 3 s ++ [1]) /\
      skipn 3 s = jr.
Proof. exact @nifti_as_reoriented_world. Qed.
Print Assumptions C05_reorient_voxel_world.

(* the same for SpatialImage.as_reoriented (Analyze, MGH, ...): dim_info untouched *)
Theorem C05_reorient_voxel_world_spatial : forall V (im : img V) o n0 n1 n2 rest,
  In o all48 -> a_shape (i_data im) = n0 :: n1 :: n2 :: rest -> rows4 (i_aff im) ->
  let shape := n0 :: n1 :: n2 :: rest in
  exists same im', as_reoriented im o = Ok5 (same, im') /\
    (same = true -> im' = im /\ o = ident3) /\
    (same = false -> o <> ident3 /\ i_aff im' = mat_mul (i_aff im) (inv_ornt_aff o shape)) /\
    a_shape (i_data im') = out_shape_spec o shape /\
    i_dim im' = i_dim im /\
    forall j0 j1 j2 jr, length jr = length rest ->
      let s := src_spec o shape (j0 :: j1 :: j2 :: jr) in
      a_get (i_data im') (j0 :: j1 :: j2 :: jr) = a_get (i_data im) s /\
      mat_vec (i_aff im') [j0; j1; j2; 1] = mat_vec (i_aff im) (firstn 3 s ++ [1]) /\
      skipn 3 s = jr.
Proof. exact @as_reoriented_world. Qed.
Print Assumptions C05_reorient_voxel_world_spatial.

(* apply_orientation and inv_ornt_aff on their own (any array, any rank >= 3) *)
Theorem C05_apply_orientation_spec : forall o, In o all48 ->
  forall V (t : arr V) n0 n1 n2 rest, a_shape t = n0 :: n1 :: n2 :: rest ->
    exists t', apply_orientation t o = Ok5 t' /\
      a_shape t' = out_shape_spec o (n0 :: n1 :: n2 :: rest) /\
      forall j0 j1 j2 jr, length jr = length rest ->
        a_get t' (j0 :: j1 :: j2 :: jr) = a_get t (src_spec o (n0 :: n1 :: n2 :: rest) (j0 :: j1 :: j2 :: jr)).
Proof. exact all48_reorient_ok. Qed.
Print Assumptions C05_apply_orientation_spec.

Theorem C05_inv_ornt_aff_spec : forall o, In o all48 ->
  forall n0 n1 n2 rest j0 j1 j2 jr,
    let shape := n0 :: n1 :: n2 :: rest in
    is44 (inv_ornt_aff o shape) /\
    mat_vec (inv_ornt_aff o shape) [j0; j1; j2; 1]
    = firstn 3 (src_spec o shape (j0 :: j1 :: j2 :: jr)) ++ [1].
Proof. exact all48_inv_aff_ok. Qed.
Print Assumptions C05_inv_ornt_aff_spec.

(* no voxel is lost or duplicated: src_spec is a bijection between the index box of the output
   shape and that of the input shape (inverse dst_spec), and the number of voxels is the same *)
Theorem C05_reorient_bijection : forall o, In o all48 -> box_ok o.
Proof. exact all48_box_ok. Qed.
Print Assumptions C05_reorient_bijection.

(* NIfTI freq / phase / slice labels: the label on input axis d moves to the output axis that
   runs along input axis d (same length; index equal or reversed; no other output axis moves it) *)
Theorem C05_dim_info_follows : forall o, In o all48 -> dim_follows o.
Proof. exact all48_dim_follows. Qed.
Print Assumptions C05_dim_info_follows.

(* ---------------------------------------------------------------------------- consistency *)

(* all48 is exactly the set of orientation arrays of three axes *)
Theorem C05_all48_complete : forall o, is_ornt3 o = true <-> In o all48.
Proof. exact all48_is_ornt3. Qed.
Print Assumptions C05_all48_complete.

(* for all 48 (finite domain, enumerated completely): axcodes2ornt (ornt2axcodes o) = o with three
   distinct codes; ornt_transform a b is again one of the 48, is the identity iff a = b, turns an
   image of orientation a into one of orientation b (row-wise relation on the affines' columns);
   ornt_transform a c = ornt_transform a b followed by ornt_transform b c, for all 48^3 triples *)
Theorem C05_ornt_consistency :
  (forall o, In o all48 ->
     exists c0 c1 c2,
       ornt2axcodes ras_labels (map Some o) = Ok5 [Some c0; Some c1; Some c2]
       /\ axcodes2ornt ras_labels [Some c0; Some c1; Some c2] = Ok5 (map Some o)
       /\ c0 <> c1 /\ c0 <> c2 /\ c1 <> c2)
  /\ (forall a b, In a all48 -> In b all48 ->
        exists t, ornt_transform a b = Ok5 t /\ In t all48 /\ (t = ident3 <-> a = b)
          /\ forall r, 0 <= r < 3 ->
               znth b (fst (znth t r (0, 0))) (0, 0)
               = (fst (znth a r (0, 0)), snd (znth a r (0, 0)) * snd (znth t r (0, 0))))
  /\ (forall a b c, In a all48 -> In b all48 -> In c all48 ->
        exists x y z, ornt_transform a b = Ok5 x /\ ornt_transform b c = Ok5 y
          /\ ornt_transform a c = Ok5 z /\ z = ornt_compose x y).
Proof. exact ornt_consistency. Qed.
Print Assumptions C05_ornt_consistency.

(* what ornt_compose means on arrays: reading through t1 then t2 = reading through the composition *)
Theorem C05_ornt_compose_spec : forall t1, In t1 all48 -> compose_ok t1.
Proof. exact all48_compose_ok. Qed.
Print Assumptions C05_ornt_compose_spec.

(* ---------------------------------------------------------------------------- canonical *)

(* the loop of io_orientation, any number of axes: if every input axis a has its own output axis
   d(a) strictly dominating its column of R (above the allclose tolerance), the loop returns
   exactly (d(a), sign) — the greedy row removal never interferes *)
Theorem C05_io_loop_dominant : forall atol (d : Z -> Z) axs R,
  NoDup axs -> (forall a b, In a axs -> In b axs -> a <> b -> d a <> d b) ->
  (forall a, In a axs -> dominant atol (mcolz R a) (d a)) ->
  io_loop atol R axs
  = map (fun a => Some (d a, if znth (mcolz R a) (d a) 0 <? 0 then -1 else 1)) axs.
Proof. exact io_loop_dominant. Qed.
Print Assumptions C05_io_loop_dominant.

(* canonicalising twice changes nothing whenever each voxel axis has its own dominant world axis
   (dom_ornt, on the oracle's output R = rot(affine)), GIVEN the oracle contract rot_equivariant
   (the polar factor of numpy.linalg.svd commutes with signed column permutations — exact
   arithmetic; the float layer is measured by the harness with a dominance margin).  The first
   canonicalisation is the reorientation by o of C05_reorient_voxel_world. *)
Theorem C05_canonical_idempotent : forall V (rot : mat -> mat) (atol : Z) (im : img V) o n0 n1 n2 rest,
  rot_equivariant rot ->
  In o all48 -> a_shape (i_data im) = n0 :: n1 :: n2 :: rest -> is44 (i_aff im) -> dims_ok (i_dim im) ->
  is33 (rot (i_aff im)) -> dom_ornt atol (rot (i_aff im)) o ->
  io_orientation rot atol (i_aff im) = map Some o /\
  exists same im1,
    as_closest_canonical rot atol im = Ok5 (same, im1)
    /\ nifti_as_reoriented im o = Ok5 (same, im1)
    /\ io_orientation rot atol (i_aff im1) = map Some ident3
    /\ as_closest_canonical rot atol im1 = Ok5 (true, im1).
Proof. exact @canonical_twice. Qed.
Print Assumptions C05_canonical_idempotent.

(* ---------------------------------------------------------------------------- compositions *)

(* ANY sequence of img.slicer[...] and img.as_reoriented(...) calls (either flavour), in any order:
   whenever it returns an image im', there is a source-index map under which every voxel of im'
   (index inside its shape) is a voxel of im (index inside its shape) with the same value and the
   same world position (world A j = A . (j0, j1, j2, 1)); affine shape and rank >= 3 are kept.
   Side conditions (ops_hyp): orientations among the 48; canonical indices valid (measured). *)
Theorem C05_compose_voxel_world : forall V nifti ops (im im' : img V),
  good im -> ops_hyp nifti im ops -> run_ops nifti im ops = Ok5 im' -> tracks im im' /\ good im'.
Proof. exact @compose_voxel_world. Qed.
Print Assumptions C05_compose_voxel_world.

(* frame condition: get_fdata (any dtype, filling the cache or not), in-place edits of the cached
   array and uncache(), interleaved anywhere with slicer / as_reoriented calls and from any initial
   cache state, do not change the resulting image: it is what the plain sequence gives from the
   source dataobj alone (so C05_compose_voxel_world applies to it) *)
Theorem C05_cache_frame : forall V nifti (xs : list (cop V)) (c c' : cimg V),
  run_cops nifti c xs = Ok5 c' -> run_ops nifti (c_im c) (ops_of xs) = Ok5 (c_im c').
Proof. exact @cache_frame. Qed.
Print Assumptions C05_cache_frame.

Theorem C05_cache_independent : forall V nifti (xs ys : list (cop V)) (im : img V) k1 k2 c1 c2,
  ops_of xs = ops_of ys ->
  run_cops nifti (mkC im k1) xs = Ok5 c1 -> run_cops nifti (mkC im k2) ys = Ok5 c2 -> c_im c1 = c_im c2.
Proof. exact @cache_independent. Qed.
Print Assumptions C05_cache_independent.

(* axis codes with ANY table of three label pairs whose six codes are pairwise distinct
   (the default LR/PA/IS is one instance): ornt2axcodes / axcodes2ornt round trip for all 48 *)
Theorem C05_axcodes_any_labels : forall a0 b0 a1 b1 a2 b2,
  nodupb [a0; b0; a1; b1; a2; b2] = true ->
  forall o, In o all48 ->
  exists c0 c1 c2,
    ornt2axcodes [(a0, b0); (a1, b1); (a2, b2)] (map Some o) = Ok5 [Some c0; Some c1; Some c2]
    /\ axcodes2ornt [(a0, b0); (a1, b1); (a2, b2)] [Some c0; Some c1; Some c2] = Ok5 (map Some o)
    /\ c0 <> c1 /\ c0 <> c2 /\ c1 <> c2.
Proof. exact all48_codes_labels. Qed.
Print Assumptions C05_axcodes_any_labels.

(* ---------------------------------------------------------------------------- funcs.py *)

(* four_to_three: volume i holds, at (j0, j1, j2), the value of voxel (j0, j1, j2, i) under the
   same affine and header; squeeze_image keeps affine, labels, spatial shape and (reshape) values;
   enforce_diag=True answers only with a diagonal affine *)
Theorem C05_four_to_three : forall V (im : img V) l, four_to_three im = Ok5 l ->
  length (a_shape (i_data im)) = 4%nat /\
  forall i, 0 <= i < znth (a_shape (i_data im)) 3 0 ->
    let v := nth (Z.to_nat i) l im in
    i_aff v = i_aff im /\ i_dim v = i_dim im /\ a_shape (i_data v) = firstn 3 (a_shape (i_data im))
    /\ forall j, a_get (i_data v) j = a_get (i_data im) (j ++ [i]).
Proof. exact @four_to_three_spec. Qed.
Print Assumptions C05_four_to_three.

Theorem C05_squeeze_image : forall V (im : img V), (3 <= length (a_shape (i_data im)))%nat ->
  let im' := squeeze_image im in
  i_aff im' = i_aff im /\ i_dim im' = i_dim im
  /\ firstn 3 (a_shape (i_data im')) = firstn 3 (a_shape (i_data im))
  /\ exists k, forall j, a_get (i_data im') j = a_get (i_data im) (j ++ repeat 0%Z k).
Proof. exact @squeeze_image_spec. Qed.
Print Assumptions C05_squeeze_image.

Theorem C05_enforce_diag : forall V rot atol (im : img V) r,
  as_closest_canonical_diag rot atol im = Ok5 r ->
  as_closest_canonical rot atol im = Ok5 r /\ aff_is_diag (i_aff (snd r)) = true.
Proof. exact @enforce_diag_spec. Qed.
Print Assumptions C05_enforce_diag.

(* ---------------------------------------------------------------------------- one indexing function *)

(* C05's index-level specification of NumPy basic indexing (src_index) and C06's list-level one
   (offs / np_index_F, the yardstick of C06_fileslice_eq_numpy) are the same function: for every
   valid canonical index — ints, slices, None; Ellipsis is already expanded in canonical form —
   and every shape and stride, the offsets C06 selects, in C06's order, are the offsets of the
   source indices src_index gives to the output indices enumerated first-axis-fastest (ndindexF,
   which lists exactly the index box of the output shape); same output shape np_shape on both sides *)
Theorem C05_src_index_is_np_index :
  (forall c shape strd, ix_valid shape c ->
     offs shape c strd = map (fun k => ravs shape (src_index shape c k) strd) (ndindexF (np_shape shape c)))
  /\ (forall shape k, In k (ndindexF shape) <-> in_box shape k)
  /\ (forall shape, Forall (fun n => 0 <= n) shape -> zlen (ndindexF shape) = prod shape).
Proof. exact (conj offs_is_src_index (conj ndindexF_in_box ndindexF_length)). Qed.
Print Assumptions C05_src_index_is_np_index.

Theorem C05_np_index_is_src_index : forall A (d : A) shape c elems, ix_valid shape c ->
  np_index_F d shape c elems
  = (np_shape shape c,
     map (fun k => nth (Z.to_nat (ravs shape (src_index shape c k) 1)) elems d) (ndindexF (np_shape shape c))).
Proof. exact @np_index_F_is_src_index. Qed.
Print Assumptions C05_np_index_is_src_index.

(* composed with C06_fileslice_eq_numpy: for an F-ordered array stored in a file (a NIfTI data
   block; file_arr), fileslice with any admissible heuristic returns exactly the model's sliced
   array (np_getitem): same shape, and at output index k the stored item of source voxel src_index k *)
Theorem C05_fileslice_is_model_slice : forall h file ix shape w off c d, h_ok h -> 0 < w -> 0 <= off ->
  canonical_slicers true ix shape = Ok c -> ix_valid shape c ->
  off + w * prod shape <= zlen file ->
  np_getitem c (file_arr file shape w off) = Ok5 d ->
  fileslice_h h file ix shape w off OrdF
  = Ok (a_shape d, flat_map (a_get d) (ndindexF (a_shape d))).
Proof. exact fileslice_is_np_getitem. Qed.
Print Assumptions C05_fileslice_is_model_slice.

(* img.slicer[ix] on a FILE-backed image: the bytes fileslice returns for the (canonical) index
   the slicer passes to dataobj[...] are the data of the model's result image im' — the image of
   which C05_slicer_voxel_world / C05_compose_voxel_world say that every voxel keeps value and
   world position *)
Theorem C05_slicer_file_backed : forall h file shape w off A dim ix (im' : img (list Z)),
  h_ok h -> 0 < w -> 0 <= off -> off + w * prod shape <= zlen file ->
  slicer_getitem (mkImg (file_arr file shape w off) A dim) ix = Ok5 im' ->
  exists c, check_slicing ix shape = Ok5 c /\
   (ix_valid shape c ->
    fileslice_h h file (map cidx_to_idx c) shape w off OrdF
    = Ok (a_shape (i_data im'), flat_map (a_get (i_data im')) (ndindexF (a_shape (i_data im'))))).
Proof. exact slicer_file_backed. Qed.
Print Assumptions C05_slicer_file_backed.

(* ---------------------------------------------------------------------------- non-vacuity *)

(* slicer: a 4-D image, reversed / strided / out-of-range spatial slices, Ellipsis and an int on
   the last axis; hypotheses hold and the result is the expected non-trivial one *)
Example C05_nonvacuous :
  let A := [[2; -1; 1; 7]; [1; 3; 0; -4]; [0; 1; -2; 5]; [0; 0; 0; 1]] in
  let ix := [ISl (mkSl None None (Some (-1))); ISl (mkSl (Some (-7)) None (Some 2)); IEll; IInt 1] in
  rows4 A
  /\ (exists c, check_slicing ix [2; 3; 4; 2] = Ok5 c /\ ix_validb [2; 3; 4; 2] c = true)
  /\ run_slicer [2; 3; 4; 2] ix A [Some 1; None; Some 2]
     = Ok5 ([2; 2; 4], [[-2; -2; 1; 9]; [-1; 6; 0; -3]; [0; 2; -2; 5]; [0; 0; 0; 1]], [Some 1; None; Some 2],
            [25; 27; 29; 31; 41; 43; 45; 47; 1; 3; 5; 7; 17; 19; 21; 23])
  (* reorientation: a non-identity member of the 48 on a 4-D shape *)
  /\ In [(1, -1); (2, 1); (0, -1)] all48
  /\ run_reorient true [2; 3; 4] [(1, -1); (2, 1); (0, -1)] A [Some 0; Some 2; None]
     = Ok5 (false, [4; 2; 3], [[-1; -2; -1; 12]; [0; -1; 3; -3]; [2; 0; 1; -1]; [0; 0; 0; 1]],
            [Some 1; Some 0; None],
            [15; 19; 23; 3; 7; 11; 14; 18; 22; 2; 6; 10; 13; 17; 21; 1; 5; 9; 12; 16; 20; 0; 4; 8])
  (* composition: slice, reorient, slice on a NIfTI image *)
  /\ run_sequence true [2; 3; 4] A [Some 0; Some 2; None]
       [OSlice [ISl (mkSl None None (Some (-1))); ISl (mkSl (Some 1) None None)];
        OReorient [(1, -1); (2, 1); (0, -1)];
        OSlice [IEll; ISl (mkSl None None (Some 2))]]
     = Ok5 ([4; 2; 1], [[-1; 2; -2; 9]; [0; 1; 6; -1]; [2; 0; 2; 0]; [0; 0; 0; 1]], [Some 1; Some 0; None],
            [7; 19; 6; 18; 5; 17; 4; 16])
  (* canonical: the oracle contract is satisfiable and the dominance hypothesis holds on an
     oblique integer affine with a non-identity orientation *)
  /\ rot_equivariant lin3
  /\ (let B := [[0; -3; 1; 5]; [4; 0; 0; 6]; [1; 1; 5; 7]; [0; 0; 0; 1]] in
      is44 B /\ is33 (lin3 B) /\ In [(1, 1); (0, -1); (2, 1)] all48
      /\ io_orientation lin3 0 B = [Some (1, 1); Some (0, -1); Some (2, 1)]
      /\ io_orientation lin3 0 (mat_mul B (inv_ornt_aff [(1, 1); (0, -1); (2, 1)] [2; 3; 4]))
         = map Some ident3).
Proof.
  cbv zeta. split; [repeat constructor|]. split; [eexists; split; vm_compute; reflexivity|].
  split; [vm_compute; reflexivity|]. split; [vm_compute; tauto|]. split; [vm_compute; reflexivity|].
  split; [vm_compute; reflexivity|].
  split; [exact lin3_equivariant|].
  split; [split; [reflexivity|repeat constructor]|]. split; [split; [reflexivity|repeat constructor]|].
  split; [vm_compute; tauto|]. split; vm_compute; reflexivity.
Qed.

(* the bridge on a concrete file: 2x3x2 one-byte items after a 3-byte header, reversed / strided slicing *)
Example C05_bridge_nonvacuous :
  let file := map Z.of_nat (seq 100 15) in
  let ix := [ISl (mkSl None None (Some (-1))); ISl (mkSl (Some 1) None None); IEll] in
  exists c, check_slicing ix [2; 3; 2] = Ok5 c /\ ix_validb [2; 3; 2] c = true
    /\ 3 + 1 * prod [2; 3; 2] <= zlen file
    /\ fileslice_h (threshold_heuristic 256) file (map cidx_to_idx c) [2; 3; 2] 1 3 OrdF
       = Ok ([2; 2; 2], [106; 105; 108; 107; 112; 111; 114; 113])
    /\ map (fun k => ravs [2; 3; 2] (src_index [2; 3; 2] c k) 1) (ndindexF [2; 2; 2]) = [3; 2; 5; 4; 9; 8; 11; 10].
Proof.
  eexists. split; [vm_compute; reflexivity|]. split; [vm_compute; reflexivity|].
  split; [vm_compute; discriminate|]. split; vm_compute; reflexivity.
Qed.
