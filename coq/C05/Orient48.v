(* C05/Orient48.v — apply_orientation and inv_ornt_aff for each of the 48 signed permutations of three axes, by computation on symbolic shapes and indices (any rank >= 3, any axis lengths) *)
From Coq Require Import ZArith List Bool Lia ZifyBool.
From NV Require Import Base.PySlice C06.Model C06.Lemmas C05.Model C05.LemmasS.
Import ListNotations.
Open Scope Z_scope.

(* ====================================================================================
   Part 3: orientations.  Tail lemmas (axes beyond the three spatial ones are untouched) *)
Lemma zlen_cons3 {A} (a b c : A) l : zlen (a :: b :: c :: l) = 3 + zlen l.
Proof. unfold zlen. cbn [length]. lia. Qed.

Lemma zseq_3_plus m : 0 <= m -> zseq (3 + m) = 0 :: 1 :: 2 :: map (fun k => 3 + k) (zseq m).
Proof. intros H. now rewrite zseq_add by lia. Qed.

Lemma skipn3_zseq m : 0 <= m -> skipn 3 (zseq (3 + m)) = map (fun k => 3 + k) (zseq m).
Proof. intros H. now rewrite zseq_3_plus. Qed.

Lemma znth_3_plus {A} (a b c : A) l k d : 0 <= k -> znth (a :: b :: c :: l) (3 + k) d = znth l k d.
Proof.
  intros H. unfold znth. replace (Z.to_nat (3 + k)) with (S (S (S (Z.to_nat k)))) by lia. reflexivity.
Qed.

Lemma map_znth_self (l : list Z) : map (fun k => znth l k 0) (zseq (zlen l)) = l.
Proof. exact (sel_nth_self l). Qed.

Lemma index_of_shift c m k : 0 <= k < m -> index_of (c + k) (map (fun i => c + i) (zseq m)) = k.
Proof.
  intros [H0 Hm]. assert (Hm0 : 0 <= m) by lia. revert k H0 Hm. pattern m. apply natlike_ind; [intros; lia| |exact Hm0].
  intros y Hy IH k H0 Hk. replace (Z.succ y) with (y + 1) in * by lia.
  rewrite zseq_succ, map_app by lia. cbn [map].
  assert (G : forall l x, (forall i, In i l -> i <> x) -> index_of x (l ++ [x]) = zlen l).
  { induction l as [|i l IHl]; intros x Hx; cbn [app index_of].
    - now rewrite Z.eqb_refl.
    - replace (i =? x) with false by (specialize (Hx i (or_introl eq_refl)); lia).
      rewrite IHl by (intros; apply Hx; now right). unfold zlen. cbn [length]. lia. }
  destruct (Z.eq_dec k y) as [->|Hne].
  - rewrite G.
    + unfold zlen. rewrite map_length. apply zseq_length; lia.
    + intros i Hi. apply in_map_iff in Hi. destruct Hi as (x & <- & Hx). apply zseq_In in Hx. lia.
  - assert (G2 : forall l x z, In x l -> index_of x (l ++ z) = index_of x l).
    { induction l as [|i l IHl]; intros x z Hx; [contradiction|]. cbn [app index_of].
      destruct (i =? x) eqn:E; [reflexivity|]. rewrite IHl; [reflexivity|].
      destruct Hx as [->|Hx]; [lia|assumption]. }
    rewrite G2; [apply IH; lia|]. apply in_map_iff. exists k. split; [reflexivity|]. apply zseq_In. lia.
Qed.

(* transposing by (a permutation of 0,1,2) ++ (3, 4, ...) at index level *)
Lemma transpose_index p0 p1 p2 m (j0 j1 j2 : Z) jr :
  0 <= p0 < 3 -> 0 <= p1 < 3 -> 0 <= p2 < 3 -> zlen jr = m ->
  let full := p0 :: p1 :: p2 :: map (fun k => 3 + k) (zseq m) in
  let j := j0 :: j1 :: j2 :: jr in
  map (fun a => znth j (index_of a full) 0) (zseq (zlen full))
  = znth j (index_of 0 full) 0 :: znth j (index_of 1 full) 0 :: znth j (index_of 2 full) 0 :: jr.
Proof.
  intros H0 H1 H2 Hm full j.
  assert (Hm0 : 0 <= m) by (unfold zlen in Hm; lia).
  assert (Hl : zlen full = 3 + m).
  { unfold full. rewrite zlen_cons3. unfold zlen. rewrite map_length. pose proof (zseq_length m Hm0). lia. }
  rewrite Hl, zseq_3_plus by assumption. cbn [map]. do 3 f_equal.
  rewrite map_map. etransitivity; [|apply (map_znth_self jr)]. rewrite Hm.
  apply map_ext_in. intros k Hk. apply zseq_In in Hk.
  assert (E : index_of (3 + k) full = 3 + k).
  { unfold full. cbn [index_of].
    replace (p0 =? 3 + k) with false by lia. replace (p1 =? 3 + k) with false by lia.
    replace (p2 =? 3 + k) with false by lia. rewrite index_of_shift by lia. lia. }
  rewrite E. unfold j. apply znth_3_plus. lia.
Qed.

Lemma transpose_shape p0 p1 p2 (n0 n1 n2 : Z) rest :
  let sh := n0 :: n1 :: n2 :: rest in
  map (fun a => znth sh a 0) (p0 :: p1 :: p2 :: map (fun k => 3 + k) (zseq (zlen rest)))
  = znth sh p0 0 :: znth sh p1 0 :: znth sh p2 0 :: rest.
Proof.
  intros sh. cbn [map]. do 3 f_equal. rewrite map_map. etransitivity; [|apply (map_znth_self rest)].
  apply map_ext_in. intros k Hk. apply zseq_In in Hk. unfold sh. apply znth_3_plus. lia.
Qed.

(* ---- per-orientation facts, proved for each of the 48 by computation on symbolic shapes *)
Definition reorient_ok (o : ornt) : Prop :=
  forall V (t : arr V) n0 n1 n2 rest, a_shape t = n0 :: n1 :: n2 :: rest ->
    exists t', apply_orientation t o = Ok5 t' /\
      a_shape t' = out_shape_spec o (n0 :: n1 :: n2 :: rest) /\
      forall j0 j1 j2 jr, length jr = length rest ->
        a_get t' (j0 :: j1 :: j2 :: jr) = a_get t (src_spec o (n0 :: n1 :: n2 :: rest) (j0 :: j1 :: j2 :: jr)).

Ltac solve_reorient :=
  intros V t n0 n1 n2 rest Hs; unfold apply_orientation; rewrite Hs;
  rewrite zlen_cons3;
  match goal with |- context [zlen ?o] => change (zlen o) with 3 end;
  replace (3 + zlen rest <? 3) with false by (unfold zlen; lia);
  match goal with |- context [skipn (length ?o) _] => change (length o) with 3%nat end;
  rewrite skipn3_zseq by (unfold zlen; lia);
  eexists; split; [reflexivity|];
  match goal with |- context [argsort ?a] =>
    let q := eval vm_compute in (argsort a) in change (argsort a) with q;
    match q with [?q0; ?q1; ?q2] =>
      match goal with |- context [combine (zseq 3) ?fl] =>
        let c := eval vm_compute in (combine (zseq 3) fl) in change (combine (zseq 3) fl) with c end;
      cbn [fold_left snd fst Z.eqb Pos.eqb app];
      split;
      [ unfold np_transpose; cbn [a_shape np_flip]; rewrite Hs; rewrite (transpose_shape q0 q1 q2); reflexivity
      | intros j0 j1 j2 jr Hj; unfold np_transpose; cbn [a_get];
        rewrite (transpose_index q0 q1 q2 (zlen rest) j0 j1 j2 jr) by (unfold zlen; lia);
        cbn [index_of Z.eqb Pos.eqb Z.add Pos.add];
        unfold np_flip; cbn [a_get a_shape]; rewrite ?Hs; reflexivity ]
    end
  end.

Lemma all48_reorient_ok : forall o, In o all48 -> reorient_ok o.
Proof.
  intros o Ho. vm_compute in Ho.
  repeat (destruct Ho as [<-|Ho]; [unfold reorient_ok; solve_reorient|]). contradiction.
Qed.

Definition inv_aff_ok (o : ornt) : Prop :=
  forall n0 n1 n2 rest j0 j1 j2 jr,
    let shape := n0 :: n1 :: n2 :: rest in
    is44 (inv_ornt_aff o shape) /\
    mat_vec (inv_ornt_aff o shape) [j0; j1; j2; 1]
    = firstn 3 (src_spec o shape (j0 :: j1 :: j2 :: jr)) ++ [1].

Ltac solve_inv_aff :=
  intros n0 n1 n2 rest j0 j1 j2 jr; cbv zeta; rewrite inv_ornt_aff_3; rewrite ?off_m1, ?off_p1;
  repeat match goal with |- context [znth (eye 4) ?p []] =>
    let r := eval vm_compute in (znth (eye 4) p []) in change (znth (eye 4) p []) with r end;
  split;
  [ split; [reflexivity|]; cbv [mat_mul map dot mcol nth ncols length seq]; repeat constructor
  | rewrite src_spec_3; unfold flipv; cbn [Z.eqb Pos.eqb firstn app]; znth_red;
    cbv [mat_vec mat_mul map dot mcol nth ncols length seq]; list_eq ].

Lemma all48_inv_aff_ok : forall o, In o all48 -> inv_aff_ok o.
Proof.
  intros o Ho. vm_compute in Ho.
  repeat (destruct Ho as [<-|Ho]; [unfold inv_aff_ok; solve_inv_aff|]). contradiction.
Qed.

