(* C05/Canon.v — the loop of io_orientation on R and on R . (linear part of inv_ornt_aff o), for each of the 48 *)
From Coq Require Import ZArith List Bool Lia ZifyBool.
From NV Require Import Base.PySlice C06.Model C06.Lemmas C05.Model C05.LemmasS C05.Greedy.
Import ListNotations.
Open Scope Z_scope.

(* ====================================================================================
   Part 6: canonicalising twice *)
Definition lin3 (M : mat) : mat := map (firstn 3) (firstn 3 M).
Definition is33 (R : mat) : Prop := length R = 3%nat /\ Forall (fun r => length r = 3%nat) R.
(* every voxel axis a has its own dominant world axis o_a.axis, with the sign o_a.flip *)
Definition dom_ornt (atol : Z) (R : mat) (o : ornt) : Prop :=
  forall a, 0 <= a < 3 ->
    dominant atol (mcolz R a) (fst (znth o a (0, 0)))
    /\ (if znth (mcolz R a) (fst (znth o a (0, 0))) 0 <? 0 then -1 else 1) = snd (znth o a (0, 0)).

Lemma dominant3 atol x0 x1 x2 d : dominant atol [x0; x1; x2] d <->
  0 <= atol /\
  ((d = 0 /\ atol < Z.abs x0 /\ Z.abs x1 < Z.abs x0 /\ Z.abs x2 < Z.abs x0) \/
   (d = 1 /\ atol < Z.abs x1 /\ Z.abs x0 < Z.abs x1 /\ Z.abs x2 < Z.abs x1) \/
   (d = 2 /\ atol < Z.abs x2 /\ Z.abs x0 < Z.abs x2 /\ Z.abs x1 < Z.abs x2)).
Proof.
  unfold dominant. change (zlen [x0; x1; x2]) with 3. split.
  - intros (Hd & Ha & H). split; [lia|].
    pose proof (H 0 ltac:(lia)) as H0. pose proof (H 1 ltac:(lia)) as H1. pose proof (H 2 ltac:(lia)) as H2.
    change (znth [x0; x1; x2] 0 0) with x0 in *. change (znth [x0; x1; x2] 1 0) with x1 in *.
    change (znth [x0; x1; x2] 2 0) with x2 in *.
    assert (Hc : d = 0 \/ d = 1 \/ d = 2) by lia. destruct Hc as [->|[->| ->]].
    + left. change (znth [x0; x1; x2] 0 0) with x0 in *. lia.
    + right; left. change (znth [x0; x1; x2] 1 0) with x1 in *. lia.
    + right; right. change (znth [x0; x1; x2] 2 0) with x2 in *. lia.
  - intros (Ha & [(-> & H)|[(-> & H)|(-> & H)]]); (split; [lia|]);
      [change (znth [x0; x1; x2] 0 0) with x0|change (znth [x0; x1; x2] 1 0) with x1|change (znth [x0; x1; x2] 2 0) with x2];
      (split; [lia|]); intros i Hi Hne; assert (Hc : i = 0 \/ i = 1 \/ i = 2) by lia;
      destruct Hc as [->|[->| ->]]; try lia;
      [change (znth [x0; x1; x2] 1 0) with x1|change (znth [x0; x1; x2] 2 0) with x2
      |change (znth [x0; x1; x2] 0 0) with x0|change (znth [x0; x1; x2] 2 0) with x2
      |change (znth [x0; x1; x2] 0 0) with x0|change (znth [x0; x1; x2] 1 0) with x1]; lia.
Qed.
Lemma dominant3_0 atol x0 x1 x2 : dominant atol [x0; x1; x2] 0 <->
  0 <= atol < Z.abs x0 /\ Z.abs x1 < Z.abs x0 /\ Z.abs x2 < Z.abs x0.
Proof. rewrite dominant3. lia. Qed.
Lemma dominant3_1 atol x0 x1 x2 : dominant atol [x0; x1; x2] 1 <->
  0 <= atol < Z.abs x1 /\ Z.abs x0 < Z.abs x1 /\ Z.abs x2 < Z.abs x1.
Proof. rewrite dominant3. lia. Qed.
Lemma dominant3_2 atol x0 x1 x2 : dominant atol [x0; x1; x2] 2 <->
  0 <= atol < Z.abs x2 /\ Z.abs x0 < Z.abs x2 /\ Z.abs x1 < Z.abs x2.
Proof. rewrite dominant3. lia. Qed.
Ltac dom3_in H := match type of H with
  | dominant _ _ 0 => apply dominant3_0 in H | dominant _ _ 1 => apply dominant3_1 in H
  | dominant _ _ 2 => apply dominant3_2 in H end.
Ltac dom3 := match goal with
  | |- dominant _ _ 0 => apply dominant3_0 | |- dominant _ _ 1 => apply dominant3_1
  | |- dominant _ _ 2 => apply dominant3_2 end.
Lemma sgn_m1 x : (if x <? 0 then -1 else 1) = -1 -> x < 0.
Proof. destruct (x <? 0) eqn:E; intros; lia. Qed.
Lemma sgn_p1 x : (if x <? 0 then -1 else 1) = 1 -> 0 <= x.
Proof. destruct (x <? 0) eqn:E; intros; lia. Qed.
Lemma sgn_pos x : 0 < x -> (if x <? 0 then -1 else 1) = 1.
Proof. intros H. destruct (x <? 0) eqn:E; lia. Qed.
Ltac sgn_of H := match type of H with
  | _ = -1 => pose proof (sgn_m1 _ H) | _ = 1 => pose proof (sgn_p1 _ H) end.

Lemma len3 {A} (l : list A) : length l = 3%nat -> exists a b c, l = [a; b; c].
Proof. destruct l as [|a [|b [|c [|d l]]]]; cbn; intros H; try discriminate. now exists a, b, c. Qed.

Lemma is33_explicit R : is33 R -> exists r00 r01 r02 r10 r11 r12 r20 r21 r22,
  R = [[r00; r01; r02]; [r10; r11; r12]; [r20; r21; r22]].
Proof.
  intros [HR Hr]. destruct (len3 R HR) as (a & b & c & ->).
  inversion Hr as [|? ? Ha H1]; subst. inversion H1 as [|? ? Hb H2]; subst. inversion H2 as [|? ? Hc _]; subst.
  destruct (len3 a Ha) as (? & ? & ? & ->). destruct (len3 b Hb) as (? & ? & ? & ->).
  destruct (len3 c Hc) as (? & ? & ? & ->). now do 9 eexists.
Qed.

Ltac zr1 := repeat match goal with
  | |- context [znth (?a :: ?l) 0 ?d] => change (znth (a :: l) 0 d) with a
  | |- context [znth (?a :: ?b :: ?l) 1 ?d] => change (znth (a :: b :: l) 1 d) with b
  | |- context [znth (?a :: ?b :: ?c :: ?l) 2 ?d] => change (znth (a :: b :: c :: l) 2 d) with c
  | H : context [znth (?a :: ?l) 0 ?d] |- _ => change (znth (a :: l) 0 d) with a in H
  | H : context [znth (?a :: ?b :: ?l) 1 ?d] |- _ => change (znth (a :: b :: l) 1 d) with b in H
  | H : context [znth (?a :: ?b :: ?c :: ?l) 2 ?d] |- _ => change (znth (a :: b :: c :: l) 2 d) with c in H
  end.
Ltac zr := repeat (progress (zr1; cbn [fst snd] in *)).

(* for each of the 48: the loop on R returns o, and on R . (linear part of inv_ornt_aff o) every
   axis is dominated by itself with positive sign *)
Definition canon_ok (o : ornt) : Prop :=
  forall atol R n0 n1 n2 rest, is33 R -> dom_ornt atol R o ->
    io_loop atol R [0; 1; 2] = map Some o /\
    dom_ornt atol (mat_mul R (lin3 (inv_ornt_aff o (n0 :: n1 :: n2 :: rest)))) ident3.

Ltac solve_canon :=
  intros atol R n0 n1 n2 rest HR H;
  destruct (is33_explicit R HR) as (r00 & r01 & r02 & r10 & r11 & r12 & r20 & r21 & r22 & ->);
  destruct (H 0 ltac:(lia)) as [D0 S0]; destruct (H 1 ltac:(lia)) as [D1 S1]; destruct (H 2 ltac:(lia)) as [D2 S2];
  clear H; cbv [mcolz map] in D0, D1, D2, S0, S1, S2; zr;
  dom3_in D0; dom3_in D1; dom3_in D2; sgn_of S0; sgn_of S1; sgn_of S2;
  split;
  [ match goal with |- io_loop _ _ _ = map Some ?o =>
      rewrite (io_loop_dominant atol (fun a => fst (znth o a (0, 0))));
      [ cbv [mcolz map]; zr; rewrite S0, S1, S2; reflexivity
      | repeat constructor; cbn; lia
      | intros a b Ha Hb Hab; cbn in Ha, Hb;
        destruct Ha as [<-|[<-|[<-|[]]]], Hb as [<-|[<-|[<-|[]]]]; vm_compute; lia
      | intros a Ha; cbn in Ha; destruct Ha as [<-|[<-|[<-|[]]]]; cbv [mcolz map]; zr; dom3; lia ]
    end
  | rewrite inv_ornt_aff_3, ?off_m1, ?off_p1;
    repeat match goal with |- context [znth (eye 4) ?p []] =>
      let r := eval vm_compute in (znth (eye 4) p []) in change (znth (eye 4) p []) with r end;
    cbv [lin3 mat_mul map dot mcol nth ncols length seq firstn];
    intros a Ha; assert (Hc : a = 0 \/ a = 1 \/ a = 2) by lia; destruct Hc as [->|[->| ->]];
    cbv [mcolz map ident3]; zr; cbn [Z.mul Z.add Pos.mul Pos.add];
    rewrite ?Z.mul_0_r, ?Z.add_0_r, ?Z.add_0_l, ?Z.mul_1_r; (split; [dom3; lia|apply sgn_pos; lia]) ].

Lemma all48_canon_ok : forall o, In o all48 -> canon_ok o.
Proof.
  intros o Ho. vm_compute in Ho.
  repeat (destruct Ho as [<-|Ho]; [unfold canon_ok; solve_canon|]). contradiction.
Qed.
