(* C05/Lemmas.v — image-level theorems: as_reoriented, NIfTI dim_info, as_closest_canonical twice (builds on LemmasS, Orient48, OrientBox, Consist, Greedy, Canon) *)
From Coq Require Import ZArith List Bool Lia ZifyBool.
From NV Require Import Base.PySlice C06.Model C06.Lemmas C05.Model C05.LemmasS C05.Orient48 C05.OrientBox C05.Consist C05.Greedy C05.Canon.
Import ListNotations.
Open Scope Z_scope.

(* ---- image level *)


Definition dims_ok (d : list (option Z)) : Prop :=
  Forall (fun x => x = None \/ x = Some 0 \/ x = Some 1 \/ x = Some 2) d.

Lemma remap_ident d : dims_ok d -> remap_dim ident3 d = d.
Proof.
  induction 1 as [|x d Hx _ IH]; [reflexivity|]. cbn [remap_dim map]. unfold remap_dim in IH. rewrite IH.
  destruct Hx as [->|[->|[->| ->]]]; reflexivity.
Qed.

Theorem as_reoriented_world {V} (im : img V) o n0 n1 n2 rest :
  In o all48 -> a_shape (i_data im) = n0 :: n1 :: n2 :: rest -> rows4 (i_aff im) ->
  let shape := n0 :: n1 :: n2 :: rest in
  exists same im', as_reoriented im o = Ok5 (same, im') /\
    (same = true -> im' = im /\ o = ident3) /\
    (same = false -> o <> ident3 /\ i_aff im' = mat_mul (i_aff im) (inv_ornt_aff o shape)) /\
    a_shape (i_data im') = out_shape_spec o shape /\
    i_dim im' = i_dim im /\
    forall j0 j1 j2 jr, length jr = length rest ->
      let s := src_spec o shape (j0 :: j1 :: j2 :: jr) in
      a_get (i_data im') (j0 :: j1 :: j2 :: jr) = a_get (i_data im) s /\
      mat_vec (i_aff im') [j0; j1; j2; 1] = mat_vec (i_aff im) (firstn 3 s ++ [1]) /\
      skipn 3 s = jr.
Proof.
  intros Ho Hs HA shape. unfold as_reoriented.
  destruct (ornt_eqb o ident3) eqn:E.
  - apply ornt_eqb_eq in E. subst o. exists true, im. split; [reflexivity|]. split; [now split|].
    split; [discriminate|]. split; [exact Hs|]. split; [reflexivity|].
    intros j0 j1 j2 jr Hj. cbv zeta. unfold shape, ident3. rewrite src_spec_3. unfold flipv. cbn [Z.eqb Pos.eqb]. znth_red.
    repeat split; reflexivity.
  - destruct (all48_reorient_ok o Ho V (i_data im) n0 n1 n2 rest Hs) as (t' & Ht & Hsh & Hget).
    rewrite Ht. cbn [bind5]. rewrite Hs. fold shape.
    assert (H44 : is44 (inv_ornt_aff o shape)) by (apply (all48_inv_aff_ok o Ho n0 n1 n2 rest 0 0 0 [])).
    rewrite np_dot_44 by (assumption || apply H44). cbn [bind5].
    eexists false, _. split; [reflexivity|]. split; [discriminate|].
    cbn [i_data i_aff i_dim]. split; [intros _; split; [intros ->; discriminate|reflexivity]|].
    split; [exact Hsh|]. split; [reflexivity|].
    intros j0 j1 j2 jr Hj. cbv zeta. split; [now apply Hget|].
    destruct (all48_inv_aff_ok o Ho n0 n1 n2 rest j0 j1 j2 jr) as [_ Hm]. fold shape in Hm.
    split.
    + rewrite mat_assoc4 by (assumption || reflexivity). now rewrite Hm.
    + destruct (all48_rows o Ho) as (p0 & f0 & p1 & f1 & p2 & f2 & ->). unfold shape. now rewrite src_spec_3.
Qed.

Theorem nifti_as_reoriented_world {V} (im : img V) o n0 n1 n2 rest :
  In o all48 -> a_shape (i_data im) = n0 :: n1 :: n2 :: rest -> rows4 (i_aff im) -> dims_ok (i_dim im) ->
  let shape := n0 :: n1 :: n2 :: rest in
  exists same im', nifti_as_reoriented im o = Ok5 (same, im') /\
    (same = true -> im' = im /\ o = ident3) /\
    (same = false -> o <> ident3 /\ i_aff im' = mat_mul (i_aff im) (inv_ornt_aff o shape)) /\
    a_shape (i_data im') = out_shape_spec o shape /\
    i_dim im' = remap_dim o (i_dim im) /\
    forall j0 j1 j2 jr, length jr = length rest ->
      let s := src_spec o shape (j0 :: j1 :: j2 :: jr) in
      a_get (i_data im') (j0 :: j1 :: j2 :: jr) = a_get (i_data im) s /\
      mat_vec (i_aff im') [j0; j1; j2; 1] = mat_vec (i_aff im) (firstn 3 s ++ [1]) /\
      skipn 3 s = jr.
Proof.
  intros Ho Hs HA Hd shape.
  destruct (as_reoriented_world im o n0 n1 n2 rest Ho Hs HA) as (same & im' & Hr & Hsame & Hdiff & Hsh & Hdim & Hj).
  unfold nifti_as_reoriented. rewrite Hr. cbn [bind5 fst snd]. destruct same.
  - exists true, im'. split; [reflexivity|]. split; [assumption|]. split; [assumption|]. split; [assumption|].
    split; [|assumption]. destruct (Hsame eq_refl) as [-> ->]. now rewrite remap_ident.
  - eexists false, _. split; [reflexivity|]. split; [discriminate|]. split; [assumption|].
    cbn [i_data i_aff i_dim]. split; [assumption|]. split; [now rewrite Hdim|]. assumption.
Qed.


(* ====================================================================================
   as_closest_canonical, once and twice.  `rot` is the oracle (zooms, SVD, rank threshold of
   io_orientation); its contract: the polar factor is equivariant under signed permutations
   of the columns (an identity of exact arithmetic: polar(X.M) = polar(X).M for orthogonal M,
   and the column normalisation commutes with signed column permutations). *)
Definition rot_equivariant (rot : mat -> mat) : Prop :=
  forall A o n0 n1 n2 rest, is44 A -> In o all48 ->
    let shape := n0 :: n1 :: n2 :: rest in
    rot (mat_mul A (inv_ornt_aff o shape)) = mat_mul (rot A) (lin3 (inv_ornt_aff o shape)).

Lemma all_some_map {A} (l : list A) : all_some (map Some l) = Some l.
Proof. unfold all_some. induction l as [|x l IH]; [reflexivity|]. cbn [map fold_right]. now rewrite IH. Qed.

Lemma is44_ncols A : is44 A -> ncols A = 4%nat.
Proof.
  intros [HA Hr]. destruct A as [|r A]; [discriminate|]. inversion Hr; subst. assumption.
Qed.

Lemma is44_mul A M : is44 A -> is44 M -> is44 (mat_mul A M).
Proof.
  intros [HA HAr] HM. pose proof (is44_ncols M HM) as Hc. split.
  - unfold mat_mul. now rewrite map_length.
  - unfold rows4, mat_mul. rewrite Forall_forall. intros r Hr. apply in_map_iff in Hr.
    destruct Hr as (x & <- & _). now rewrite map_length, seq_length.
Qed.

Lemma is33_mul R M : is33 R -> is44 M -> is33 (mat_mul R (lin3 M)).
Proof.
  intros [HR _] [HM HMr]. destruct (len4 M HM) as (a & b & c & d & ->).
  inversion HMr as [|? ? Ha _]; subst. destruct (len4 a Ha) as (? & ? & ? & ? & ->).
  split.
  - unfold mat_mul. now rewrite map_length.
  - unfold mat_mul. rewrite Forall_forall. intros r Hr. apply in_map_iff in Hr.
    destruct Hr as (y & <- & _). rewrite map_length, seq_length. reflexivity.
Qed.

Theorem canonical_twice {V} (rot : mat -> mat) (atol : Z) (im : img V) o n0 n1 n2 rest :
  rot_equivariant rot ->
  In o all48 -> a_shape (i_data im) = n0 :: n1 :: n2 :: rest -> is44 (i_aff im) -> dims_ok (i_dim im) ->
  is33 (rot (i_aff im)) -> dom_ornt atol (rot (i_aff im)) o ->
  let shape := n0 :: n1 :: n2 :: rest in
  io_orientation rot atol (i_aff im) = map Some o /\
  exists same im1,
    as_closest_canonical rot atol im = Ok5 (same, im1)
    /\ nifti_as_reoriented im o = Ok5 (same, im1)
    /\ io_orientation rot atol (i_aff im1) = map Some ident3
    /\ as_closest_canonical rot atol im1 = Ok5 (true, im1).
Proof.
  intros Heq Ho Hs HA Hd HR Hdom shape. subst shape. set (shape := n0 :: n1 :: n2 :: rest) in *.
  destruct (all48_canon_ok o Ho atol (rot (i_aff im)) n0 n1 n2 rest HR Hdom) as [Hloop Hdom'].
  assert (Hio : io_orientation rot atol (i_aff im) = map Some o).
  { unfold io_orientation. rewrite (is44_ncols _ HA). exact Hloop. }
  split; [exact Hio|].
  destruct (nifti_as_reoriented_world im o n0 n1 n2 rest Ho Hs (proj2 HA) Hd)
    as (same & im1 & Hr & Hsame & Hdiff & _).
  exists same, im1.
  assert (Hc1 : as_closest_canonical rot atol im = Ok5 (same, im1)).
  { unfold as_closest_canonical. now rewrite Hio, all_some_map. }
  split; [exact Hc1|]. split; [exact Hr|].
  assert (Hid : In ident3 all48) by (apply all48_is_ornt3; reflexivity).
  assert (Hio1 : io_orientation rot atol (i_aff im1) = map Some ident3).
  { destruct same.
    - destruct (Hsame eq_refl) as [-> ->]. exact Hio.
    - destruct (Hdiff eq_refl) as [_ Haff]. rewrite Haff.
      assert (H44 : is44 (inv_ornt_aff o shape)) by (apply (all48_inv_aff_ok o Ho n0 n1 n2 rest 0 0 0 [])).
      unfold io_orientation. fold shape. rewrite (is44_ncols _ (is44_mul _ _ HA H44)).
      pose proof (Heq (i_aff im) o n0 n1 n2 rest HA Ho) as He. cbv zeta in He. fold shape in He. rewrite He.
      apply (all48_canon_ok ident3 Hid atol _ 0 0 0 [] (is33_mul _ _ HR H44) Hdom'). }
  split; [exact Hio1|].
  unfold as_closest_canonical. rewrite Hio1, all_some_map. reflexivity.
Qed.

(* the contract is satisfiable: for an affine whose linear part is already orthonormal the polar
   factor is the linear part itself, and "take the linear part" is equivariant *)
Lemma lin3_mul A M m33 : is44 A -> is44 M -> nth 3 M [] = [0; 0; 0; m33] ->
  lin3 (mat_mul A M) = mat_mul (lin3 A) (lin3 M).
Proof.
  intros [HA HAr] [HM HMr] Hlast.
  destruct (len4 A HA) as (a & b & c & d & ->). destruct (len4 M HM) as (p & q & r & t & ->).
  cbn [nth] in Hlast. subst t.
  inversion HAr as [|? ? Ha H1]; subst. inversion H1 as [|? ? Hb H2]; subst.
  inversion H2 as [|? ? Hc H3]; subst. inversion H3 as [|? ? Hd _]; subst.
  inversion HMr as [|? ? Hp G1]; subst. inversion G1 as [|? ? Hq G2]; subst. inversion G2 as [|? ? Hr _]; subst.
  destruct (len4 a Ha) as (a0 & a1 & a2 & a3 & ->). destruct (len4 b Hb) as (b0 & b1 & b2 & b3 & ->).
  destruct (len4 c Hc) as (c0 & c1 & c2 & c3 & ->). destruct (len4 d Hd) as (d0 & d1 & d2 & d3 & ->).
  destruct (len4 p Hp) as (p0 & p1 & p2 & p3 & ->). destruct (len4 q Hq) as (q0 & q1 & q2 & q3 & ->).
  destruct (len4 r Hr) as (r0 & r1 & r2 & r3 & ->).
  cbv [lin3 mat_mul map dot mcol nth ncols length seq firstn].
  repeat (apply (f_equal2 (@cons (list Z))); [list_eq|]); reflexivity.
Qed.

Lemma all48_last_row : forall o, In o all48 -> forall n0 n1 n2 rest,
  nth 3 (inv_ornt_aff o (n0 :: n1 :: n2 :: rest)) [] = [0; 0; 0; 1].
Proof.
  intros o Ho n0 n1 n2 rest. vm_compute in Ho.
  repeat (destruct Ho as [<-|Ho];
    [rewrite inv_ornt_aff_3;
     repeat match goal with |- context [znth (eye 4) ?p []] =>
       let r := eval vm_compute in (znth (eye 4) p []) in change (znth (eye 4) p []) with r end;
     reflexivity|]).
  contradiction.
Qed.

Lemma lin3_equivariant : rot_equivariant lin3.
Proof.
  intros A o n0 n1 n2 rest HA Ho. cbv zeta.
  apply (lin3_mul A _ 1 HA).
  - apply (all48_inv_aff_ok o Ho n0 n1 n2 rest 0 0 0 []).
  - now apply all48_last_row.
Qed.

(* ====================================================================================
   funcs.py helpers that keep the affine: four_to_three, squeeze_image, enforce_diag *)
Lemma four_to_three_spec {V} (im : img V) l : four_to_three im = Ok5 l ->
  length (a_shape (i_data im)) = 4%nat /\
  forall i, 0 <= i < znth (a_shape (i_data im)) 3 0 ->
    let v := nth (Z.to_nat i) l im in
    i_aff v = i_aff im /\ i_dim v = i_dim im /\ a_shape (i_data v) = firstn 3 (a_shape (i_data im))
    /\ forall j, a_get (i_data v) j = a_get (i_data im) (j ++ [i]).
Proof.
  unfold four_to_three. destruct (Nat.eqb (length (a_shape (i_data im))) 4) eqn:E; [|discriminate].
  cbn [negb]. intros H. injection H as <-. apply Nat.eqb_eq in E. split; [assumption|].
  intros i Hi. cbv zeta.
  rewrite (nth_map_in _ _ _ im 0) by (pose proof (zseq_length (znth (a_shape (i_data im)) 3 0)); lia).
  rewrite nth_zseq by assumption. cbn [i_aff i_dim i_data a_shape a_get]. repeat split.
Qed.

Lemma count_trailing_ones_le l : (count_trailing_ones l <= length l)%nat.
Proof.
  induction l as [|x l IH]; [cbn; lia|]. cbn [count_trailing_ones length].
  destruct x as [|p|p]; try lia. destruct p; lia.
Qed.

Lemma squeeze_image_spec {V} (im : img V) : (3 <= length (a_shape (i_data im)))%nat ->
  let im' := squeeze_image im in
  i_aff im' = i_aff im /\ i_dim im' = i_dim im
  /\ firstn 3 (a_shape (i_data im')) = firstn 3 (a_shape (i_data im))
  /\ exists k, forall j, a_get (i_data im') j = a_get (i_data im) (j ++ repeat 0%Z k).
Proof.
  intros H3. cbv zeta. unfold squeeze_image. cbn [i_aff i_dim i_data a_shape a_get].
  split; [reflexivity|]. split; [reflexivity|]. split; [|eexists; intros; reflexivity].
  set (k := count_trailing_ones (rev (skipn 3 (a_shape (i_data im))))).
  assert (Hk : (k <= length (a_shape (i_data im)) - 3)%nat).
  { unfold k. pose proof (count_trailing_ones_le (rev (skipn 3 (a_shape (i_data im))))) as Hle.
    rewrite rev_length, skipn_length in Hle. exact Hle. }
  rewrite firstn_firstn. f_equal. lia.
Qed.

(* enforce_diag=True: an answer has a diagonal affine, a non-diagonal canonical affine is refused *)
Lemma enforce_diag_spec {V} rot atol (im : img V) r :
  as_closest_canonical_diag rot atol im = Ok5 r ->
  as_closest_canonical rot atol im = Ok5 r /\ aff_is_diag (i_aff (snd r)) = true.
Proof.
  unfold as_closest_canonical_diag. destruct (as_closest_canonical rot atol im) as [r'|]; [|discriminate].
  cbn [bind5]. destruct (aff_is_diag (i_aff (snd r'))) eqn:E; [|discriminate].
  intros H. injection H as <-. now split.
Qed.
