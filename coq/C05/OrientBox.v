(* C05/OrientBox.v — for each of the 48: the index map is a bijection of the index boxes; dim_info labels follow their axes *)
From Coq Require Import ZArith List Bool Lia ZifyBool.
From NV Require Import Base.PySlice C06.Model C06.Lemmas C05.Model C05.LemmasS.
Import ListNotations.
Open Scope Z_scope.

(* the index map is a bijection between the boxes of the output and the input shape *)
Definition box_ok (o : ornt) : Prop :=
  forall n0 n1 n2 rest x0 x1 x2 xr,
    let shape := n0 :: n1 :: n2 :: rest in
    let x := x0 :: x1 :: x2 :: xr in
    let M := out_shape_spec o shape in
    let S := src_spec o shape x in
    let D := dst_spec o shape x in
    let m0 := znth M 0 0 in let m1 := znth M 1 0 in let m2 := znth M 2 0 in
    let s0 := znth S 0 0 in let s1 := znth S 1 0 in let s2 := znth S 2 0 in
    let d0 := znth D 0 0 in let d1 := znth D 1 0 in let d2 := znth D 2 0 in
    M = m0 :: m1 :: m2 :: rest /\ S = s0 :: s1 :: s2 :: xr /\ D = d0 :: d1 :: d2 :: xr /\
    ((0 <= x0 < m0 /\ 0 <= x1 < m1 /\ 0 <= x2 < m2) <-> (0 <= s0 < n0 /\ 0 <= s1 < n1 /\ 0 <= s2 < n2)) /\
    ((0 <= x0 < n0 /\ 0 <= x1 < n1 /\ 0 <= x2 < n2) <-> (0 <= d0 < m0 /\ 0 <= d1 < m1 /\ 0 <= d2 < m2)) /\
    dst_spec o shape S = x /\ src_spec o shape D = x /\
    m0 * (m1 * m2) = n0 * (n1 * n2).

Lemma all48_box_ok : forall o, In o all48 -> box_ok o.
Proof.
  intros o Ho. vm_compute in Ho.
  repeat (destruct Ho as [<-|Ho];
    [unfold box_ok; intros n0 n1 n2 rest x0 x1 x2 xr; norm3;
     split; [reflexivity|]; split; [reflexivity|]; split; [reflexivity|];
     split; [lia|]; split; [lia|]; split; [list_eq|]; split; [list_eq|ring]|]).
  contradiction.
Qed.


(* the frequency / phase / slice labels follow their axes: the label on input axis d goes to the
   output axis that runs along input axis d (same length, index equal or reversed) *)
Definition dim_follows (o : ornt) : Prop :=
  forall d, 0 <= d < 3 ->
    exists k, remap_dim o [Some d] = [Some k] /\ 0 <= k < 3 /\
    forall n0 n1 n2 rest j0 j1 j2 jr,
      let shape := n0 :: n1 :: n2 :: rest in
      let j := j0 :: j1 :: j2 :: jr in
      znth (out_shape_spec o shape) k 0 = znth shape d 0 /\
      (znth (src_spec o shape j) d 0 = znth j k 0 \/
       znth (src_spec o shape j) d 0 = znth shape d 0 - 1 - znth j k 0) /\
      (forall k', 0 <= k' < 3 -> k' <> k -> forall v,
         znth (src_spec o shape (zupd j k' v)) d 0 = znth (src_spec o shape j) d 0).

Lemma all48_dim_follows : forall o, In o all48 -> dim_follows o.
Proof.
  intros o Ho. vm_compute in Ho.
  repeat (destruct Ho as [<-|Ho];
    [intros d Hd; assert (Hc : d = 0 \/ d = 1 \/ d = 2) by lia; destruct Hc as [->|[->| ->]];
     (match goal with |- exists k, remap_dim ?o [Some ?d] = _ /\ _ =>
        let k := eval vm_compute in (fst (znth o d (0, 0))) in exists k end;
      split; [reflexivity|]; split; [lia|];
      intros n0 n1 n2 rest j0 j1 j2 jr; norm3; split; [reflexivity|]; split; [auto|];
      intros k' Hk' Hne v; assert (Hc : k' = 0 \/ k' = 1 \/ k' = 2) by lia;
      destruct Hc as [->|[->| ->]]; try lia; reflexivity)|]).
  contradiction.
Qed.


(* composition of two orientation changes at index level: applying t1 and then t2 reads the
   input at the same index as applying ornt_compose t1 t2 (t2: any three rows with flips +-1) *)
Lemma flipv_mul f g n v : f = 1 \/ f = -1 -> g = 1 \/ g = -1 -> flipv (f * g) n v = flipv f n (flipv g n v).
Proof. intros [->| ->] [->| ->]; unfold flipv; cbn [Z.mul Z.eqb Pos.mul Pos.eqb]; lia. Qed.

Definition compose_ok (t1 : ornt) : Prop :=
  forall q0 g0 q1 g1 q2 g2 n0 n1 n2 rest j0 j1 j2 jr,
    (g0 = 1 \/ g0 = -1) -> (g1 = 1 \/ g1 = -1) -> (g2 = 1 \/ g2 = -1) ->
    let t2 := [(q0, g0); (q1, g1); (q2, g2)] in
    let shape := n0 :: n1 :: n2 :: rest in
    let j := j0 :: j1 :: j2 :: jr in
    src_spec (ornt_compose t1 t2) shape j = src_spec t1 shape (src_spec t2 (out_shape_spec t1 shape) j).

Lemma all48_compose_ok : forall t1, In t1 all48 -> compose_ok t1.
Proof.
  intros o Ho. vm_compute in Ho.
  repeat (destruct Ho as [<-|Ho];
    [intros q0 g0 q1 g1 q2 g2 n0 n1 n2 rest j0 j1 j2 jr G0 G1 G2; cbv zeta;
     unfold ornt_compose; cbn [map fst snd]; znth_red; cbn [fst snd];
     rewrite out_shape_spec_3; cbv zeta; rewrite !src_spec_3; cbv zeta;
     cbn [index_of Z.eqb Pos.eqb Z.add Pos.add]; znth_red;
     repeat (apply (f_equal2 (@cons Z)); [apply flipv_mul; (assumption || (now left) || (now right))|]);
     reflexivity|]).
  contradiction.
Qed.
