(* C05/Bridge.v — C05's index-level specification of NumPy basic indexing (src_index: the source
   index of every output index) and C06's list-level one (offs / np_index: the selected element
   offsets enumerated in Fortran order) are the same function; hence C06_fileslice_eq_numpy (what
   fileslice reads for a file-backed image) and C05's slicer theorems speak about the same voxels. *)
From Coq Require Import ZArith List Bool Lia ZifyBool.
From NV Require Import Base.PySlice C06.Model C06.Lemmas C05.Model C05.LemmasS.
Import ListNotations.
Open Scope Z_scope.

(* element offset (in units of strd) of index idx in a Fortran-ordered array of that shape *)
Fixpoint ravs (shape idx : list Z) (strd : Z) : Z :=
  match shape, idx with
  | n :: sh, i :: r => strd * i + ravs sh r (strd * n)
  | _, _ => 0
  end.
(* all indices of the box of a shape, first axis fastest (the order of C06's offs / np_index_F) *)
Fixpoint ndindexF (shape : list Z) : list (list Z) :=
  match shape with
  | [] => [[]]
  | m :: sh => flat_map (fun kr => map (fun k0 => k0 :: kr) (zseq m)) (ndindexF sh)
  end.

Lemma ndindexF_in_box : forall shape k, In k (ndindexF shape) <-> in_box shape k.
Proof.
  induction shape as [|m sh IH]; intros k.
  - cbn. split.
    + intros [<-|[]]. constructor.
    + intros H. inversion H. now left.
  - cbn [ndindexF]. rewrite in_flat_map. split.
    + intros (kr & Hkr & Hk). apply in_map_iff in Hk. destruct Hk as (k0 & <- & H0).
      apply zseq_In in H0. constructor; [assumption|]. now apply IH.
    + intros H. inversion H as [|? k0 ? kr H0 Hr]; subst. exists kr. split; [now apply IH|].
      apply in_map_iff. exists k0. split; [reflexivity|]. now apply zseq_In.
Qed.

Lemma ndindexF_length : forall shape, Forall (fun n => 0 <= n) shape -> zlen (ndindexF shape) = prod shape.
Proof.
  induction 1 as [|m sh Hm _ IH]; [reflexivity|]. cbn [ndindexF prod fold_right]. fold (prod sh).
  rewrite (zlen_flat_map_const _ m).
  - rewrite IH. reflexivity.
  - intros kr. rewrite zlen_map. unfold zlen. now apply zseq_length.
Qed.

(* THE BRIDGE: the offsets C06's NumPy specification selects, in its order, are the offsets of
   the source indices src_index assigns to the output indices, enumerated first-axis-fastest *)
Theorem offs_is_src_index : forall c shape strd, ix_valid shape c ->
  offs shape c strd
  = map (fun k => ravs shape (src_index shape c k) strd) (ndindexF (np_shape shape c)).
Proof.
  induction c as [|x c IH]; intros shape strd Hv.
  - cbn in Hv. subst shape. reflexivity.
  - destruct x as [i|s|]; cbn [ix_valid] in Hv.
    + destruct shape as [|n sh]; [contradiction|]. destruct Hv as (Hn & Hi & Hv). cbn [valid_cidx] in Hi.
      cbn [offs axis_sel np_shape tl]. rewrite (IH sh (strd * n) Hv).
      rewrite flat_map_map. cbn [map]. rewrite flat_map_singleton.
      apply map_ext. intros k. cbn [src_index hd tl ravs]. replace (i <? 0) with false by lia. reflexivity.
    + destruct shape as [|n sh]; [contradiction|]. destruct Hv as (Hn & Hs & Hv).
      cbn [offs axis_sel np_shape hd tl ndindexF]. rewrite (IH sh (strd * n) Hv).
      rewrite flat_map_map, map_flat_map. apply flat_map_ext_in'. intros kr _.
      rewrite map_map. unfold py_indices, range_of. rewrite map_map.
      unfold zlen. rewrite map_length.
      replace (Z.of_nat (length (zseq (slen (adjust n s))))) with (slen (adjust n s))
        by (symmetry; apply zseq_length, slen_nonneg).
      apply map_ext. intros k0. cbn [src_index hd tl ravs]. reflexivity.
    + cbn [offs np_shape ndindexF]. rewrite (IH shape strd Hv).
      rewrite map_flat_map. change (zseq 1) with [0]. cbn [map]. rewrite flat_map_singleton.
      apply map_ext. intros kr. reflexivity.
Qed.

(* the same for C06's np_index_F: the array NumPy returns holds, at output index k (enumerated
   first-axis-fastest over the box of np_shape), the source element at src_index k *)
Corollary np_index_F_is_src_index {A} (d : A) shape c elems : ix_valid shape c ->
  np_index_F d shape c elems
  = (np_shape shape c,
     map (fun k => nth (Z.to_nat (ravs shape (src_index shape c k) 1)) elems d) (ndindexF (np_shape shape c))).
Proof.
  intros Hv. unfold np_index_F. rewrite (offs_is_src_index c shape 1 Hv), map_map. reflexivity.
Qed.

(* ---- file-backed images.  An F-ordered array stored in `file` at byte offset off with items
   of w bytes, as an arr whose values are the items' bytes *)
Definition file_arr (file : list Z) (shape : list Z) (w off : Z) : arr (list Z) :=
  mkArr shape (fun j => elem_bytes file off w (ravs shape j w)).

(* fileslice (any admissible heuristic) on such a file returns exactly the model's sliced array:
   same shape, and its bytes are the values a_get d k of the model's result d enumerated
   first-axis-fastest — i.e. at output voxel k the item of source voxel src_index k *)
Theorem fileslice_is_np_getitem h file ix shape w off c d : h_ok h -> 0 < w -> 0 <= off ->
  canonical_slicers true ix shape = Ok c -> ix_valid shape c ->
  off + w * prod shape <= zlen file ->
  np_getitem c (file_arr file shape w off) = Ok5 d ->
  fileslice_h h file ix shape w off OrdF
  = Ok (a_shape d, flat_map (a_get d) (ndindexF (a_shape d))).
Proof.
  intros Hh Hw Hoff Hc Hv Hfit Hd.
  destruct (fileslice_eq_numpy h file ix shape w off OrdF c Hh Hw Hoff Hc Hv Hfit) as [H1 H2].
  rewrite H1, H2. cbn [result_of]. unfold result_spec.
  destruct (np_getitem_ok _ _ _ Hd) as [Hsh Hget]. cbn [file_arr a_shape a_get] in Hsh, Hget.
  rewrite Hsh. rewrite (offs_is_src_index c shape w Hv), flat_map_map. do 2 f_equal.
  apply flat_map_ext_in'. intros k _. now rewrite Hget.
Qed.

(* ---- the slicer passes its CANONICAL index to dataobj[...]: canonical_slicers runs again on it
   (C06's normalize); that changes neither validity, nor the output shape, nor any source index *)
Lemma norm_sl_step_of d s : step_of s <> 0 -> step_of (norm_sl d s) <> 0.
Proof. intros H. unfold norm_sl. destruct (_ && _ && _ && _); [cbn; lia|assumption]. Qed.

Lemma ix_valid_normalize : forall c shape, ix_valid shape c -> ix_valid shape (normalize shape c).
Proof.
  induction c as [|x c IH]; intros shape Hv; [assumption|].
  destruct x as [i|s|]; cbn [ix_valid normalize] in *.
  - destruct shape as [|n sh]; [contradiction|]. destruct Hv as (Hn & Hi & Hv). cbn [tl]. auto.
  - destruct shape as [|n sh]; [contradiction|]. destruct Hv as (Hn & Hs & Hv). cbn [tl hd valid_cidx] in *.
    split; [assumption|]. split; [now apply norm_sl_step_of|auto].
  - auto.
Qed.

Lemma np_shape_normalize : forall c shape, ix_valid shape c -> np_shape shape (normalize shape c) = np_shape shape c.
Proof.
  induction c as [|x c IH]; intros shape Hv; [reflexivity|].
  destruct x as [i|s|]; cbn [ix_valid normalize np_shape] in *.
  - destruct shape as [|n sh]; [contradiction|]. destruct Hv as (_ & _ & Hv). cbn [tl]. auto.
  - destruct shape as [|n sh]; [contradiction|]. destruct Hv as (Hn & _ & Hv). cbn [tl hd].
    rewrite norm_sl_indices by assumption. f_equal. auto.
  - f_equal. auto.
Qed.

Lemma src_index_normalize : forall c shape k, ix_valid shape c ->
  src_index shape (normalize shape c) k = src_index shape c k.
Proof.
  induction c as [|x c IH]; intros shape k Hv; [reflexivity|].
  destruct x as [i|s|]; cbn [ix_valid normalize src_index] in *.
  - destruct shape as [|n sh]; [contradiction|]. destruct Hv as (_ & _ & Hv). cbn [tl]. f_equal. auto.
  - destruct shape as [|n sh]; [contradiction|]. destruct Hv as (Hn & _ & Hv). cbn [tl hd].
    rewrite adjust_norm_sl by assumption. f_equal. auto.
  - auto.
Qed.

(* img.slicer[ix] on a FILE-backed image: what fileslice returns for the index the slicer passes
   to dataobj[...] is exactly the data of the model's result image — same shape, and at every
   output voxel k (first-axis-fastest enumeration) the stored item of the voxel that
   C05_slicer_voxel_world / C05_compose_voxel_world place at the same world position *)
Theorem slicer_file_backed h file shape w off A dim ix (im' : img (list Z)) :
  h_ok h -> 0 < w -> 0 <= off -> off + w * prod shape <= zlen file ->
  slicer_getitem (mkImg (file_arr file shape w off) A dim) ix = Ok5 im' ->
  exists c, check_slicing ix shape = Ok5 c /\
   (ix_valid shape c ->
    fileslice_h h file (map cidx_to_idx c) shape w off OrdF
    = Ok (a_shape (i_data im'), flat_map (a_get (i_data im')) (ndindexF (a_shape (i_data im'))))).
Proof.
  intros Hh Hw Hoff Hfit Hg. unfold slicer_getitem in Hg. cbn [i_data i_aff i_dim] in Hg.
  change (a_shape (file_arr file shape w off)) with shape in Hg.
  destruct (check_slicing ix shape) as [c|e] eqn:Hc; [|destruct e; discriminate].
  cbn [bind5] in Hg. exists c. split; [reflexivity|]. intros Hv.
  destruct (np_getitem c (file_arr file shape w off)) as [d|] eqn:Hd; [|discriminate]. cbn [bind5] in Hg.
  destruct (existsb (fun n => n =? 0) (a_shape d)); [discriminate|].
  destruct (slice_affine A shape (map cidx_to_idx c)) as [aff|]; [|discriminate]. cbn [bind5] in Hg.
  injection Hg as <-. cbn [i_data].
  pose proof (ix_valid_normalize c shape Hv) as Hv'.
  destruct (fileslice_eq_numpy h file (map cidx_to_idx c) shape w off OrdF (normalize shape c) Hh Hw Hoff
              (canonical_of_canonical shape c Hv) Hv' Hfit) as [H1 H2].
  rewrite H1, H2. cbn [result_of]. unfold result_spec.
  destruct (np_getitem_ok _ _ _ Hd) as [Hsh Hget]. cbn [file_arr a_shape a_get] in Hsh, Hget.
  rewrite (offs_is_src_index _ shape w Hv'), flat_map_map, np_shape_normalize by assumption.
  rewrite Hsh. do 2 f_equal. apply flat_map_ext_in'. intros k _.
  rewrite src_index_normalize by assumption. now rewrite Hget.
Qed.
