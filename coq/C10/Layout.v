(* C10/Layout.v — generic fixed-layout struct codec (definitions only; proofs are in
   LayoutLemmas.v).  A layout is the list of fields of a packed NumPy structured dtype
   (np.dtype.fields: name, offset, base item size, number of items, kind) in offset order.
   A string field 'Sn' is n items of width 1.  A decoded header is an association list
   field-id -> list of element values; every element value is the UNSIGNED integer held by
   its bytes in the header's byte order (floats: the IEEE bit pattern; signed ints: the two's
   complement image).  Bytes are Z in [0,256); be = true means big endian. *)
From Coq Require Import ZArith List Bool.
From NV Require Import Base.Bytes.
Import ListNotations.
Open Scope Z_scope.

Inductive kind := KInt | KUInt | KFloat | KStr.

Record field := mkField { fid : Z; foff : Z; fwidth : nat; fcount : nat; fkind : kind }.
Definition layout := list field.

(* identifiers of the check functions found in the classes' _get_checks() *)
Inductive ck_id := CkSizeof | CkDatatype | CkBitpix | CkPixdims | CkQfac | CkMagic | CkOffset
                 | CkQform | CkSform | CkEol | CkOrigin | CkVersion.

Definition hdr := list (Z * list Z).

Definition fsize (f : field) : nat := (fwidth f * fcount f)%nat.
Definition layout_size (L : layout) : Z := fold_right (fun f a => Z.of_nat (fsize f) + a) 0 L.

(* c consecutive chunks of w items *)
Fixpoint chunks {A} (w c : nat) (b : list A) : list (list A) :=
  match c with
  | O => []
  | S c' => firstn w b :: chunks w c' (skipn w b)
  end.

Definition dec_elems (be : bool) (w c : nat) (b : list Z) : list Z := map (dec be) (chunks w c b).
Definition enc_elems (be : bool) (w : nat) (vs : list Z) : list Z := flat_map (enc be w) vs.

(* np.ndarray(shape=(), dtype=dt.newbyteorder(e), buffer=b): field values *)
Fixpoint decode_struct (L : layout) (be : bool) (b : list Z) : hdr :=
  match L with
  | [] => []
  | f :: L' => (fid f, dec_elems be (fwidth f) (fcount f) b) :: decode_struct L' be (skipn (fsize f) b)
  end.

(* structarr.tobytes() *)
Fixpoint encode_struct (L : layout) (be : bool) (h : hdr) : list Z :=
  match L, h with
  | f :: L', (_, vs) :: h' => enc_elems be (fwidth f) vs ++ encode_struct L' be h'
  | _, _ => []
  end.

(* structarr.byteswap().tobytes(): every item's bytes reversed, field by field *)
Fixpoint swap_struct (L : layout) (b : list Z) : list Z :=
  match L with
  | [] => []
  | f :: L' => flat_map (@rev Z) (chunks (fwidth f) (fcount f) b) ++ swap_struct L' (skipn (fsize f) b)
  end.

(* the bytes NumPy's field offset designates *)
Definition field_bytes (f : field) (b : list Z) : list Z := firstn (fsize f) (skipn (Z.to_nat (foff f)) b).

(* ---- association-list access (first match) *)
Fixpoint getf (i : Z) (h : hdr) : list Z :=
  match h with
  | [] => []
  | (k, x) :: r => if k =? i then x else getf i r
  end.
Fixpoint setf (i : Z) (v : list Z) (h : hdr) : hdr :=
  match h with
  | [] => []
  | (k, x) :: r => if k =? i then (k, v) :: r else (k, x) :: setf i v r
  end.
Fixpoint hasf (i : Z) (h : hdr) : bool :=
  match h with
  | [] => false
  | (k, _) :: r => (k =? i) || hasf i r
  end.

Fixpoint find_field (i : Z) (L : layout) : option field :=
  match L with
  | [] => None
  | f :: L' => if fid f =? i then Some f else find_field i L'
  end.

(* ---- boolean well-formedness of a layout table *)
Fixpoint offsets_ok (pos : Z) (L : layout) : bool :=
  match L with
  | [] => true
  | f :: L' => (foff f =? pos) && offsets_ok (pos + Z.of_nat (fsize f)) L'
  end.
Fixpoint memZ (x : Z) (l : list Z) : bool :=
  match l with [] => false | y :: r => (x =? y) || memZ x r end.
Fixpoint nodupZ (l : list Z) : bool :=
  match l with [] => true | x :: r => negb (memZ x r) && nodupZ r end.
Definition width_ok (f : field) : bool :=
  match fkind f, fwidth f with
  | KStr, 1%nat => true
  | KFloat, 4%nat | KFloat, 8%nat => true
  | (KInt | KUInt), (1 | 2 | 4 | 8)%nat => true
  | _, _ => false
  end.
Definition wf_layout (L : layout) : bool :=
  offsets_ok 0 L && nodupZ (map fid L) && forallb width_ok L && forallb (fun f => Nat.ltb 0 (fcount f)) L.

(* a decoded header fits a layout: same field ids in the same order, the right number of
   items, every item in range for its width *)
Fixpoint hdr_fits (L : layout) (h : hdr) : bool :=
  match L, h with
  | [], [] => true
  | f :: L', (k, vs) :: h' =>
      (k =? fid f) && Nat.eqb (length vs) (fcount f)
      && forallb (fun v => (0 <=? v) && (v <? pow256 (fwidth f))) vs && hdr_fits L' h'
  | _, _ => false
  end.
