(* C10/Extract.v — extraction of the executable model (ExtrOcamlBasic only; Z stays inductive) *)
Require Extraction. Require ExtrOcamlBasic.
From NV Require Import Base.Bytes C10.Layout C10.Tables C10.Model.
Extraction Language OCaml.
Extraction "c10_model.ml" layout_of size_of decode_struct encode_struct swap_struct guessed_endian from_bytes
  copy_hdr as_byteswapped hdr_eq fields_of check_bytes default_obj from_header native_be new_header copy_ref mutate view signature written n2_cifti.
