(* C10/Lemmas.v — proofs about C10/Model.v *)
From Coq Require Import ZArith List Bool Lia ZifyBool.
From NV Require Import Base.Bytes C10.Layout C10.LayoutLemmas C10.Tables C10.Model.
Import ListNotations.
Open Scope Z_scope.

(* ================================================================== table well-formedness
   (vm_compute over the regenerated Tables.v: a change of the source tables that keeps them
   well-formed re-proves silently, one that does not breaks these lemmas) *)
Lemma layouts_wf : forall c, wf_layout (layout_of c) = true.
Proof. destruct c; vm_compute; reflexivity. Qed.

Lemma layouts_size : forall c, layout_size (layout_of c) = size_of c.
Proof. destruct c; vm_compute; reflexivity. Qed.

Lemma wf_offsets L : wf_layout L = true -> offsets_ok 0 L = true /\ nodupZ (map fid L) = true.
Proof.
  unfold wf_layout. intros H. apply andb_prop in H as [H _]. apply andb_prop in H as [H _].
  apply andb_prop in H as [H1 H2]. now split.
Qed.

(* ================================================================== bytes <-> fields *)
Lemma list_eqb_refl l : list_eqb l l = true.
Proof. induction l as [|x l IH]; simpl; [reflexivity|]. now rewrite Z.eqb_refl. Qed.

Lemma list_eqb_eq a : forall b, list_eqb a b = true -> a = b.
Proof.
  induction a as [|x a IH]; intros [|y b] H; simpl in H; try discriminate; [reflexivity|].
  apply andb_prop in H as [H1 H2]. apply Z.eqb_eq in H1. subst. f_equal. now apply IH.
Qed.

Lemma class_bytes_roundtrip c be b : bytes_ok b -> zlen b = size_of c ->
  encode_struct (layout_of c) be (decode_struct (layout_of c) be b) = b.
Proof. intros Hb Hl. apply encode_decode; [assumption|]. now rewrite layouts_size. Qed.

Lemma class_decode_encode c be h : hdr_fits (layout_of c) h = true ->
  decode_struct (layout_of c) be (encode_struct (layout_of c) be h) = h
  /\ zlen (encode_struct (layout_of c) be h) = size_of c.
Proof.
  intros H. split; [now apply decode_encode_exact|]. rewrite <- layouts_size. now apply encode_length.
Qed.

(* the value of a field is the decoding of the bytes at its NumPy offset *)
Lemma class_field_at_offset c be b f : In f (layout_of c) ->
  getf (fid f) (decode_struct (layout_of c) be b)
  = dec_elems be (fwidth f) (fcount f) (skipn (Z.to_nat (foff f)) b).
Proof.
  intros Hin. destruct (wf_offsets _ (layouts_wf c)) as [Ho Hn].
  exact (field_at_offset (layout_of c) be 0 b f Ho Hn Hin (Z.le_refl 0)).
Qed.

(* ================================================================== byte swapping, equality *)
Lemma swap_equal c nat_be e b : c <> Mgh -> bytes_ok b -> zlen b = size_of c ->
  exists b', as_byteswapped c nat_be None (e, b) = Some (negb e, b')
    /\ zlen b' = size_of c
    /\ fields_of c (negb e, b') = fields_of c (e, b)
    /\ hdr_eq c (e, b) (negb e, b') = true /\ hdr_eq c (negb e, b') (e, b) = true
    /\ as_byteswapped c nat_be None (negb e, b') = Some (e, b).
Proof.
  intros Hc Hb Hl. exists (swap_struct (layout_of c) b).
  assert (Hs : zlen (swap_struct (layout_of c) b) = size_of c)
    by (rewrite swap_length; rewrite layouts_size; lia).
  assert (Hinv : swap_struct (layout_of c) (swap_struct (layout_of c) b) = b)
    by (apply swap_involutive; [assumption|now rewrite layouts_size]).
  assert (Hne : Bool.eqb (negb e) e = false) by (destruct e; reflexivity).
  assert (Hne' : Bool.eqb e (negb e) = false) by (destruct e; reflexivity).
  repeat split.
  - unfold as_byteswapped. cbn [fst snd]. rewrite Hne.
    destruct c; try contradiction; unfold from_bytes; rewrite Hs, Z.eqb_refl; reflexivity.
  - exact Hs.
  - unfold fields_of. cbn [fst snd]. apply swap_decode. rewrite layouts_size. lia.
  - unfold hdr_eq. cbn [fst snd]. rewrite Hne'. rewrite Hinv. apply list_eqb_refl.
  - unfold hdr_eq. cbn [fst snd]. rewrite Hne. apply list_eqb_refl.
  - unfold as_byteswapped. cbn [fst snd]. rewrite negb_involutive, Hne', Hinv.
    destruct c; try contradiction; unfold from_bytes; rewrite Hl, Z.eqb_refl; reflexivity.
Qed.

(* MGH headers are always big endian: swapping is refused, asking for '>' gives a copy *)
Lemma mgh_swap_refused nat_be o : as_byteswapped Mgh nat_be None o = None
  /\ as_byteswapped Mgh nat_be (Some false) o = None
  /\ as_byteswapped Mgh nat_be (Some true) o = copy_hdr Mgh nat_be o.
Proof. repeat split. Qed.

(* a header built from bytes (check=False) serialises to the same bytes *)
Lemma from_bytes_faithful c nat_be en b : c <> Mgh -> zlen b = size_of c ->
  exists e, from_bytes c nat_be en b = Some (e, b) /\ (forall e0, en = Some e0 -> e = e0).
Proof.
  intros Hc Hl. destruct c; try contradiction; unfold from_bytes; rewrite Hl, Z.eqb_refl; cbn [negb];
    (eexists; split; [reflexivity|]; intros e0 ->; reflexivity).
Qed.

Lemma from_bytes_wrong_size c nat_be en b : c <> Mgh -> zlen b <> size_of c ->
  from_bytes c nat_be en b = None.
Proof.
  intros Hc Hl. apply Z.eqb_neq in Hl.
  destruct c; try contradiction; unfold from_bytes; rewrite Hl; reflexivity.
Qed.


(* ================================================================== byte order detection *)
Lemma hd_dec_elems be w c bs : (0 < c)%nat -> hd 0 (dec_elems be w c bs) = dec be (firstn w bs).
Proof. destruct c; [lia|]. reflexivity. Qed.

Lemma to_signed_nonneg w u d : 0 <= u < pow256 w -> to_signed w u = d -> 0 <= d -> u = d.
Proof. unfold to_signed. intros Hu H Hd. destruct (u <? pow256 w / 2); lia. Qed.

Lemma chunk_is_enc e (ch : list Z) d : bytes_ok ch -> (0 < length ch)%nat ->
  to_signed (length ch) (dec e ch) = d -> 0 <= d -> ch = enc e (length ch) d.
Proof.
  intros Hb Hw Hd Hnn. rewrite <- (enc_dec e ch Hb) at 1. f_equal.
  eapply to_signed_nonneg; eauto. now apply dec_range.
Qed.

Lemma guess_core w S nat_be e (chd chs : list Z) :
  (w = 2 \/ w = 8)%nat -> (S = 348 \/ S = 540) ->
  length chd = w -> length chs = 4%nat -> bytes_ok chd -> bytes_ok chs ->
  0 <= to_signed w (dec e chd) <= 7 ->
  (to_signed w (dec e chd) = 0 -> to_signed 4 (dec e chs) = S) ->
  guess_analyze nat_be S (to_signed w (dec nat_be chd)) (to_signed 4 (dec (negb nat_be) chs)) = e.
Proof.
  intros Hw HS Ld Ls Bd Bs Hr H0.
  remember (to_signed w (dec e chd)) as d eqn:Dd.
  assert (Ed : chd = enc e w d).
  { rewrite <- Ld. apply chunk_is_enc; rewrite ?Ld; auto; try lia; try (destruct Hw; lia). }
  assert (Hd : d = 0 \/ d = 1 \/ d = 2 \/ d = 3 \/ d = 4 \/ d = 5 \/ d = 6 \/ d = 7) by lia.
  destruct Hd as [Hd|Hd].
  - assert (Es : chs = enc e 4 S).
    { rewrite <- Ls. apply chunk_is_enc; rewrite ?Ls; auto; try lia; try (destruct HS; lia). }
    rewrite Ed, Es, Hd. clear - Hw HS.
    destruct Hw as [->| ->], HS as [->| ->], nat_be, e; vm_compute; reflexivity.
  - rewrite Ed. clear - Hd Hw.
    destruct Hw as [->| ->], nat_be, e;
      repeat (destruct Hd as [->|Hd]; [vm_compute; reflexivity|]); rewrite Hd; vm_compute; reflexivity.
Qed.

Lemma firstn_skipn_len {A} n m (l : list A) : (n + m <= length l)%nat -> length (firstn m (skipn n l)) = m.
Proof. intros H. rewrite firstn_length, skipn_length. lia. Qed.

Lemma endian_generic c nat_be e b fd fs :
  In fd (layout_of c) -> In fs (layout_of c) -> fid fd = f_dim -> fid fs = f_sizeof_hdr ->
  fwidth fd = dim_w c -> (dim_w c = 2 \/ dim_w c = 8)%nat -> fwidth fs = 4%nat ->
  (0 < fcount fd)%nat -> (0 < fcount fs)%nat ->
  foff fd + Z.of_nat (fwidth fd) <= size_of c -> foff fs + 4 <= size_of c -> 0 <= foff fd -> 0 <= foff fs ->
  (sizeof_hdr_of c = 348 \/ sizeof_hdr_of c = 540) -> analyze_family c = true ->
  bytes_ok b -> zlen b = size_of c ->
  0 <= sval (dim_w c) (getf f_dim (decode_struct (layout_of c) e b)) <= 7 ->
  (sval (dim_w c) (getf f_dim (decode_struct (layout_of c) e b)) = 0 ->
   sval 4 (getf f_sizeof_hdr (decode_struct (layout_of c) e b)) = sizeof_hdr_of c) ->
  guessed_endian c nat_be b = e.
Proof.
  intros Hind Hins Eid Eis Ewd Hw Ews Hcd Hcs Hod Hos Hpd Hps HS Hfam Hb Hl Hr H0.
  assert (G : guessed_endian c nat_be b =
              guess_analyze nat_be (sizeof_hdr_of c)
                (sval (dim_w c) (getf f_dim (decode_struct (layout_of c) nat_be b)))
                (sval 4 (getf f_sizeof_hdr (decode_struct (layout_of c) (negb nat_be) b))))
    by (destruct c; try discriminate; reflexivity).
  rewrite G. clear G. unfold sval in *. rewrite <- Eid, <- Eis in *.
  rewrite !class_field_at_offset in * by assumption.
  rewrite !hd_dec_elems in * by assumption.
  rewrite Ews, <- Ewd in *. unfold zlen in Hl.
  apply guess_core; auto.
  - apply firstn_skipn_len. lia.
  - apply firstn_skipn_len. lia.
  - now apply bytes_ok_firstn, bytes_ok_skipn.
  - now apply bytes_ok_firstn, bytes_ok_skipn.
Qed.

Lemma find_field_in i L f : find_field i L = Some f -> In f L /\ fid f = i.
Proof.
  induction L as [|g L IH]; simpl; [discriminate|].
  destruct (Z.eqb_spec (fid g) i); intros H.
  - inversion H; subst. split; [now left|reflexivity].
  - destruct (IH H). split; [now right|assumption].
Qed.

(* for every header valid in byte order e (dim[0] in 0..7; sizeof_hdr right when dim[0] = 0),
   guessed_endian applied to its bytes returns e, whatever the platform and the other fields *)
Lemma endian_detected_analyze c nat_be e b : analyze_family c = true ->
  bytes_ok b -> zlen b = size_of c ->
  0 <= sval (dim_w c) (getf f_dim (decode_struct (layout_of c) e b)) <= 7 ->
  (sval (dim_w c) (getf f_dim (decode_struct (layout_of c) e b)) = 0 ->
   sval 4 (getf f_sizeof_hdr (decode_struct (layout_of c) e b)) = sizeof_hdr_of c) ->
  guessed_endian c nat_be b = e.
Proof.
  intros Hfam.
  destruct (find_field f_dim (layout_of c)) as [fd|] eqn:Ed; [|destruct c; discriminate].
  destruct (find_field f_sizeof_hdr (layout_of c)) as [fs|] eqn:Es; [|destruct c; discriminate].
  destruct (find_field_in _ _ _ Ed) as [Hind Eid]. destruct (find_field_in _ _ _ Es) as [Hins Eis].
  apply (endian_generic c nat_be e b fd fs); auto;
    destruct c; try discriminate; vm_compute in Ed, Es; inversion Ed; inversion Es; subst;
      vm_compute; try (intuition congruence); auto; try lia.
Qed.

Lemma endian_detected_ecat nat_be e b : bytes_ok b -> zlen b = size_of Ecat ->
  hd 0 (getf f_sw_version (decode_struct (layout_of Ecat) e b)) = 74 ->
  guessed_endian Ecat nat_be b = e.
Proof.
  intros Hb Hl H. unfold guessed_endian.
  destruct (find_field f_sw_version (layout_of Ecat)) as [fv|] eqn:Ev; [|discriminate].
  destruct (find_field_in _ _ _ Ev) as [Hin Eid]. vm_compute in Ev. inversion Ev; subst fv. clear Ev.
  rewrite <- Eid in *. rewrite !class_field_at_offset in * by assumption.
  cbn [fwidth foff fcount] in *. rewrite !hd_dec_elems in * by lia.
  set (ch := firstn 2 (skipn (Z.to_nat 46) b)) in *.
  assert (Lc : length ch = 2%nat) by (apply firstn_skipn_len; unfold zlen in Hl; change (size_of Ecat) with 512 in Hl; lia).
  assert (Bc : bytes_ok ch) by now apply bytes_ok_firstn, bytes_ok_skipn.
  assert (Ec : ch = enc e 2 74).
  { rewrite <- Lc. rewrite <- (enc_dec e ch Bc) at 1. now rewrite H. }
  rewrite Ec. destruct nat_be, e; vm_compute; reflexivity.
Qed.

Lemma endian_mgh nat_be b : guessed_endian Mgh nat_be b = true.
Proof. reflexivity. Qed.

(* ================================================================== check batteries *)
(* ---- IEEE bit-pattern facts used by the repairs (both float widths) *)
Lemma f_one_not_le0 w : (w = 4 \/ w = 8)%nat -> f_le0 w (f_one w) = false.
Proof. intros [->| ->]; vm_compute; reflexivity. Qed.

Lemma f_abs_facts w v : (w = 4 \/ w = 8)%nat ->
  f_is_zero w (f_abs w v) = f_is_zero w v /\ f_is_nan w (f_abs w v) = f_is_nan w v
  /\ f_sign w (f_abs w v) = false.
Proof.
  intros [->| ->].
  - unfold f_is_zero, f_is_nan, f_sign, f_abs, f_exp, f_mant, f_exp_max.
    change (sign_bit 4) with 2147483648. change (mant_bits 4) with 23. change (exp_bits 4) with 8.
    change (2 ^ 23) with 8388608. change (2 ^ 8) with 256.
    assert (E1 : (v mod 2147483648 / 8388608) mod 256 = (v / 8388608) mod 256)
      by (Z.to_euclidean_division_equations; lia).
    assert (E2 : (v mod 2147483648) mod 8388608 = v mod 8388608)
      by (Z.to_euclidean_division_equations; lia).
    rewrite E1, E2. repeat split. pose proof (Z.mod_pos_bound v 2147483648). lia.
  - unfold f_is_zero, f_is_nan, f_sign, f_abs, f_exp, f_mant, f_exp_max.
    change (sign_bit 8) with 9223372036854775808. change (mant_bits 8) with 52. change (exp_bits 8) with 11.
    change (2 ^ 52) with 4503599627370496. change (2 ^ 11) with 2048.
    assert (E1 : (v mod 9223372036854775808 / 4503599627370496) mod 2048 = (v / 4503599627370496) mod 2048)
      by (Z.to_euclidean_division_equations; lia).
    assert (E2 : (v mod 9223372036854775808) mod 4503599627370496 = v mod 4503599627370496)
      by (Z.to_euclidean_division_equations; lia).
    rewrite E1, E2. repeat split. pose proof (Z.mod_pos_bound v 9223372036854775808). lia.
Qed.

Definition pix_repair (w : nat) (x : list Z) : list Z :=
  let x1 := map (fun v => if f_is_zero w v then f_one w else v) x in
  if any (f_lt0 w) x then map (f_abs w) x1 else x1.

Lemma pix_repair_cures w x : (w = 4 \/ w = 8)%nat -> any (f_le0 w) (pix_repair w x) = false.
Proof.
  intros Hw. unfold pix_repair, any.
  assert (G : forall v, f_le0 w (if f_is_zero w v then f_one w else v) = f_lt0 w v
                        /\ f_is_zero w (if f_is_zero w v then f_one w else v) = false).
  { intros v. destruct (f_is_zero w v) eqn:Z.
    - pose proof (f_one_not_le0 w Hw) as H1. unfold f_le0 in H1. apply orb_false_elim in H1 as [H1 H2].
      unfold f_le0. rewrite H1, H2. unfold f_lt0. rewrite Z. rewrite andb_false_r. split; reflexivity.
    - unfold f_le0. rewrite Z. split; reflexivity. }
  destruct (existsb (f_lt0 w) x) eqn:N.
  - rewrite map_map. induction x as [|v x IH]; [reflexivity|]. cbn [map existsb].
    destruct (G v) as [_ G2]. destruct (f_abs_facts w (if f_is_zero w v then f_one w else v) Hw) as (A1 & A2 & A3).
    unfold f_le0 at 1, f_lt0 at 1. rewrite A1, A3, G2. cbn [andb orb].
    clear N IH. induction x as [|u x IH]; [reflexivity|]. cbn [map existsb].
    destruct (G u) as [_ Gu]. destruct (f_abs_facts w (if f_is_zero w u then f_one w else u) Hw) as (B1 & B2 & B3).
    unfold f_le0 at 1, f_lt0 at 1. rewrite B1, B3, Gu. cbn [andb orb]. exact IH.
  - induction x as [|v x IH]; [reflexivity|]. cbn [map existsb] in *.
    apply orb_false_elim in N as [N1 N2]. destruct (G v) as [G1 _]. rewrite G1, N1. cbn [orb]. now apply IH.
Qed.

(* ---- facts about the class tables used by the repairs *)
Lemma battery_pix_w c : In CkPixdims (battery_of c) \/ In CkQfac (battery_of c) -> (pix_w c = 4 \/ pix_w c = 8)%nat.
Proof. destruct c; vm_compute; intuition discriminate. Qed.

Lemma sizeof_repair_cures c : sval 4 [of_signed 4 (sizeof_hdr_of c)] =? sizeof_hdr_of c = true.
Proof. destruct c; vm_compute; reflexivity. Qed.

Lemma dtsizes_bounded c : forallb (fun p : Z * Z => (0 <=? snd p) && (snd p <? 4096)) (dtcodes_of c) = true.
Proof. destruct c; vm_compute; reflexivity. Qed.

Lemma lookup_bound t k sz : forallb (fun p : Z * Z => (0 <=? snd p) && (snd p <? 4096)) t = true ->
  lookup k t = Some sz -> 0 <= sz < 4096.
Proof.
  induction t as [|[a b] t IH]; simpl; [discriminate|]. intros H. apply andb_prop in H as [H1 H2].
  destruct (a =? k); intros E; [inversion E; subst; lia|now apply IH].
Qed.

Lemma bitpix_repair_cures sz : 0 <= sz < 4096 -> sz * 8 =? sval 2 [of_signed 2 (sz * 8)] = true.
Proof.
  intros H. unfold sval, of_signed, to_signed. cbn [hd]. change (pow256 2) with 65536. change (65536 / 2) with 32768.
  rewrite Z.mod_small by lia. destruct (Z.ltb_spec (sz * 8) 32768); lia.
Qed.

Lemma offset_repair_cures c : In CkOffset (battery_of c) ->
  off_lt c [off_of_int c (single_vox_offset_of c)] (single_vox_offset_of c) = false
  /\ off_mult16 c [off_of_int c (single_vox_offset_of c)] = true.
Proof. destruct c; vm_compute; intuition discriminate. Qed.

Lemma xform_repair_cures c : In CkQform (battery_of c) \/ In CkSform (battery_of c) ->
  memZ (sval (xform_w c) [0]) (xform_codes_of c) = true.
Proof. destruct c; vm_compute; intuition discriminate. Qed.

(* ---- per check: the repair cures the problem, or the problem is of an unfixable class and the
   header is left alone *)
Definition unfixable (m : msg) : bool :=
  match m with MDtUnrec | MDtUnsup | MBpNoDt | MMagic | MOffNot16 | MOrigin => true | _ => false end.
Definition level (r : report) : Z := fst (fst r).
Definition rmsg (r : report) : msg := snd (fst r).

Lemma after_fix e k x : In k (battery_of (e_cls e)) ->
  ck_bad e k (ck_fixv e k x) = false
  \/ (ck_fixv e k x = x /\ unfixable (rmsg (ck_rep e k false x)) = true).
Proof.
  intros Hin. unfold ck_fixv, ck_rep. destruct (ck_bad e k x) eqn:Bad; cbn [negb]; [|now left].
  destruct k.
  - left. unfold ck_bad. now rewrite sizeof_repair_cures.
  - right. split; [reflexivity|]. unfold ck_bad in Bad.
    destruct (lookup (dt_code e) (dtcodes_of (e_cls e))); reflexivity.
  - unfold ck_bad in *. destruct (lookup (dt_code e) (dtcodes_of (e_cls e))) as [sz|] eqn:L.
    + left. rewrite bitpix_repair_cures; [reflexivity|].
      eapply lookup_bound; [apply dtsizes_bounded|exact L].
    + right. split; reflexivity.
  - left. unfold ck_bad. apply (pix_repair_cures (pix_w (e_cls e)) x). apply battery_pix_w. now left.
  - left. unfold ck_bad. cbn [hd]. rewrite Z.eqb_refl. reflexivity.
  - right. split; reflexivity.
  - destruct (off_too_low e x) eqn:Low.
    + left. unfold ck_bad, off_too_low. destruct (offset_repair_cures _ Hin) as [H1 H2].
      rewrite H1, H2. rewrite andb_false_r. cbn [orb negb]. apply andb_false_r.
    + right. split; reflexivity.
  - left. unfold ck_bad. rewrite xform_repair_cures by now left. reflexivity.
  - left. unfold ck_bad. rewrite xform_repair_cures by now right. reflexivity.
  - left. reflexivity.
  - right. split; reflexivity.
  - left. reflexivity.
Qed.

Lemma fixv_not_bad e k x : ck_bad e k x = false -> ck_fixv e k x = x.
Proof. intros H. unfold ck_fixv. now rewrite H. Qed.

Lemma ck_fix_stable e k x : In k (battery_of (e_cls e)) ->
  ck_fixv e k (ck_fixv e k x) = ck_fixv e k x.
Proof.
  intros Hin. destruct (after_fix e k x Hin) as [H|[H _]].
  - now apply fixv_not_bad.
  - now rewrite !H.
Qed.

Lemma level_zero_iff e k f x : level (ck_rep e k f x) = 0 <-> ck_bad e k x = false.
Proof.
  unfold ck_rep, level. destruct (ck_bad e k x); cbn [negb]; split; try reflexivity; try discriminate.
  destruct k; cbn;
    repeat match goal with |- context [match ?t with _ => _ end] => destruct t end; cbn; discriminate.
Qed.

Lemma rep_fix_irrelevant e k f x :
  level (ck_rep e k f x) = level (ck_rep e k false x) /\ rmsg (ck_rep e k f x) = rmsg (ck_rep e k false x).
Proof.
  unfold ck_rep, level, rmsg. destruct (ck_bad e k x); cbn [negb]; [|split; reflexivity].
  destruct k; cbn;
    repeat match goal with |- context [match ?t with _ => _ end] => destruct t end; split; reflexivity.
Qed.

Lemma raises_bad e k x : ck_raises e k x = true -> ck_bad e k x = true.
Proof.
  destruct k; cbn; try discriminate. intros H.
  apply andb_prop in H as [H _]. apply andb_prop in H as [H H2]. apply andb_prop in H as [_ H1].
  rewrite H1, H2. reflexivity.
Qed.

Lemma raises_stable e k x : In k (battery_of (e_cls e)) ->
  ck_raises e k x = false -> ck_raises e k (ck_fixv e k x) = false.
Proof.
  intros Hin Hr. destruct (after_fix e k x Hin) as [H|[H _]].
  - destruct (ck_raises e k (ck_fixv e k x)) eqn:R; [|reflexivity]. apply raises_bad in R. congruence.
  - now rewrite H.
Qed.

Lemma fixv_noslot e k x : ck_slot k = None -> ck_fixv e k x = x.
Proof. unfold ck_fixv. destruct k; try discriminate; intros _; destruct (negb _); reflexivity. Qed.

(* ---- slots are lenses *)
Lemma get_put_same s x v : get_slot s (put_slot s x v) = x.
Proof. destruct s; reflexivity. Qed.
Lemma get_put_other s s' x v : s <> s' -> get_slot s (put_slot s' x v) = get_slot s v.
Proof. destruct s, s'; try congruence; reflexivity. Qed.
Lemma put_put_comm s s' x y v : s <> s' -> put_slot s x (put_slot s' y v) = put_slot s' y (put_slot s x v).
Proof. destruct s, s'; try congruence; reflexivity. Qed.
Lemma put_get s v : put_slot s (get_slot s v) v = v.
Proof. destruct s, v; reflexivity. Qed.

(* one check's repair as a state transformer; the whole battery's *)
Definition upd (e : cenv) (k : ck_id) (v : cslots) : cslots := slot_upd k (ck_fixv e k (slot_val k v)) v.
Definition fixs (e : cenv) (ks : list ck_id) (v : cslots) : cslots := fold_left (fun v k => upd e k v) ks v.

(* two checks never write the same slot *)
Definition indep (k j : ck_id) : Prop := forall s s', ck_slot k = Some s -> ck_slot j = Some s' -> s <> s'.
Fixpoint wf_bat (ks : list ck_id) : Prop :=
  match ks with [] => True | k :: r => Forall (indep k) r /\ wf_bat r end.

Lemma indep_sym k j : indep k j -> indep j k.
Proof. intros H s s' A B E. apply (H s' s B A). now symmetry. Qed.

Lemma slot_val_upd_other e k j v : indep k j -> slot_val j (upd e k v) = slot_val j v.
Proof.
  intros H. unfold slot_val, upd, slot_upd.
  destruct (ck_slot j) as [s'|] eqn:Ej; [|reflexivity].
  destruct (ck_slot k) as [s|] eqn:Ek; [|reflexivity].
  apply get_put_other. intros E. apply (H s s' Ek Ej). now symmetry.
Qed.

Lemma slot_val_upd_same e k v : slot_val k (upd e k v) = ck_fixv e k (slot_val k v).
Proof.
  unfold upd, slot_upd. destruct (ck_slot k) as [s|] eqn:Ek.
  - unfold slot_val at 1. rewrite Ek. apply get_put_same.
  - unfold slot_val. rewrite Ek. symmetry. now apply fixv_noslot.
Qed.

Lemma upd_comm e k j v : indep k j -> upd e k (upd e j v) = upd e j (upd e k v).
Proof.
  intros H. unfold upd at 1 3. rewrite (slot_val_upd_other e j k v (indep_sym _ _ H)).
  rewrite (slot_val_upd_other e k j v H). unfold upd, slot_upd.
  destruct (ck_slot k) as [s|] eqn:Ek; [|reflexivity].
  destruct (ck_slot j) as [s'|] eqn:Ej; [|reflexivity].
  apply put_put_comm. exact (H s s' Ek Ej).
Qed.

Lemma upd_fixs_comm e k ks : forall v, Forall (indep k) ks -> upd e k (fixs e ks v) = fixs e ks (upd e k v).
Proof.
  induction ks as [|j ks IH]; intros v H; [reflexivity|]. inversion H as [|? ? Hj Hks]; subst.
  cbn [fixs fold_left]. fold (fixs e ks (upd e j v)). fold (fixs e ks (upd e j (upd e k v))).
  rewrite IH by assumption. now rewrite upd_comm.
Qed.

Lemma slot_val_fixs_other e k ks : forall v, Forall (indep k) ks -> slot_val k (fixs e ks v) = slot_val k v.
Proof.
  induction ks as [|j ks IH]; intros v H; [reflexivity|]. inversion H as [|? ? Hj Hks]; subst.
  cbn [fixs fold_left]. fold (fixs e ks (upd e j v)). rewrite IH by assumption.
  apply slot_val_upd_other. now apply indep_sym.
Qed.

Lemma slot_val_fixs_in e k ks : forall v, wf_bat ks -> In k ks ->
  slot_val k (fixs e ks v) = ck_fixv e k (slot_val k v).
Proof.
  induction ks as [|j ks IH]; intros v Hw0 Hin; [destruct Hin|]. destruct Hw0 as [Hj Hw].
  cbn [fixs fold_left]. fold (fixs e ks (upd e j v)).
  destruct (ck_slot k) as [s|] eqn:Ek.
  - destruct Hin as [->|Hin].
    + rewrite slot_val_fixs_other by assumption. apply slot_val_upd_same.
    + rewrite IH by assumption. f_equal. apply slot_val_upd_other.
      rewrite Forall_forall in Hj. now apply Hj.
  - unfold slot_val. rewrite Ek. symmetry. now apply fixv_noslot.
Qed.

Lemma upd_idem e k v : In k (battery_of (e_cls e)) -> upd e k (upd e k v) = upd e k v.
Proof.
  intros Hin. unfold upd at 1. rewrite slot_val_upd_same, ck_fix_stable by assumption.
  unfold upd, slot_upd. destruct (ck_slot k) as [s|]; [|reflexivity].
  destruct s, v; reflexivity.
Qed.

Lemma fixs_idem e ks : forall v, wf_bat ks -> (forall k, In k ks -> In k (battery_of (e_cls e))) ->
  fixs e ks (fixs e ks v) = fixs e ks v.
Proof.
  induction ks as [|k ks IH]; intros v Hw0 Hsub; [reflexivity|]. destruct Hw0 as [Hk Hw].
  cbn [fixs fold_left]. fold (fixs e ks (upd e k v)). fold (fixs e ks (upd e k (fixs e ks (upd e k v)))).
  rewrite upd_fixs_comm by assumption. rewrite upd_idem by (apply Hsub; now left).
  apply IH; [assumption|]. intros j Hj. apply Hsub. now right.
Qed.

(* ---- the sequential runner in closed form *)
Definition noraise (e : cenv) (ks : list ck_id) (v : cslots) : bool :=
  forallb (fun k => negb (ck_raises e k (slot_val k v))) ks.
Definition reps (e : cenv) (f : bool) (ks : list ck_id) (v : cslots) : list report :=
  map (fun k => ck_rep e k f (slot_val k v)) ks.

Lemma run_spec e f ks : forall v, wf_bat ks ->
  run_checks e f ks v = if noraise e ks v then Some (if f then fixs e ks v else v, reps e f ks v) else None.
Proof.
  induction ks as [|k ks IH]; intros v Hw0; [destruct f; reflexivity|]. destruct Hw0 as [Hk Hw].
  cbn [run_checks noraise forallb reps map]. fold (noraise e ks v). fold (reps e f ks v).
  destruct (ck_raises e k (slot_val k v)); cbn [negb andb]; [reflexivity|].
  rewrite IH by assumption.
  assert (Hsame : forall j, In j ks -> slot_val j (upd e k v) = slot_val j v).
  { intros j Hj. apply slot_val_upd_other. rewrite Forall_forall in Hk. now apply Hk. }
  assert (N : noraise e ks (if f then slot_upd k (ck_fixv e k (slot_val k v)) v else v) = noraise e ks v).
  { destruct f; [|reflexivity]. fold (upd e k v). unfold noraise.
    clear - Hsame. induction ks as [|j ks IH]; [reflexivity|]. cbn [forallb].
    rewrite Hsame by now left. rewrite IH; [reflexivity|]. intros i Hi. apply Hsame. now right. }
  assert (R : reps e f ks (if f then slot_upd k (ck_fixv e k (slot_val k v)) v else v) = reps e f ks v).
  { destruct f; [|reflexivity]. fold (upd e k v). unfold reps. apply map_ext_in. intros j Hj. now rewrite Hsame. }
  rewrite N, R. destruct (noraise e ks v); [|reflexivity]. destruct f; reflexivity.
Qed.

(* ---- the properties of the repair, for any battery whose checks write distinct slots *)
Section Battery.
  Variable e : cenv.
  Variable ks : list ck_id.
  Hypothesis Hwf : wf_bat ks.
  Hypothesis Hsub : forall k, In k ks -> In k (battery_of (e_cls e)).

  Lemma noraise_after_fix v : noraise e ks v = true -> noraise e ks (fixs e ks v) = true.
  Proof.
    unfold noraise. rewrite !forallb_forall. intros H k Hk.
    rewrite slot_val_fixs_in by assumption. specialize (H k Hk).
    apply negb_true_iff in H. apply negb_true_iff. apply raises_stable; auto.
  Qed.

  Lemma battery_fix_idempotent v v1 r1 : run_checks e true ks v = Some (v1, r1) ->
    exists r2, run_checks e true ks v1 = Some (v1, r2).
  Proof.
    rewrite run_spec by assumption. destruct (noraise e ks v) eqn:N; [|discriminate].
    intros H. inversion H; subst. clear H. exists (reps e true ks (fixs e ks v)).
    rewrite run_spec by assumption. rewrite noraise_after_fix by assumption.
    now rewrite fixs_idem.
  Qed.

  Lemma check_only_pure v v1 r1 : run_checks e false ks v = Some (v1, r1) -> v1 = v.
  Proof.
    rewrite run_spec by assumption. destruct (noraise e ks v); [|discriminate]. intros H. now inversion H.
  Qed.

  Lemma fixs_noop_on_clean : forall l v, (forall k, In k l -> ck_bad e k (slot_val k v) = false) -> fixs e l v = v.
  Proof.
    induction l as [|k l IH]; intros v H; [reflexivity|].
    cbn [fixs fold_left]. fold (fixs e l (upd e k v)).
    assert (U : upd e k v = v).
    { unfold upd. rewrite fixv_not_bad by (apply H; now left).
      unfold slot_val, slot_upd. destruct (ck_slot k); [apply put_get|reflexivity]. }
    rewrite U. apply IH. intros j Hj. apply H. now right.
  Qed.

  Lemma battery_fix_noop_on_clean v v0 r0 : run_checks e false ks v = Some (v0, r0) ->
    Forall (fun r => level r = 0) r0 ->
    exists r1, run_checks e true ks v = Some (v, r1).
  Proof.
    rewrite !run_spec by assumption. destruct (noraise e ks v); [|discriminate].
    intros H Hz. assert (E : r0 = reps e false ks v) by (inversion H; reflexivity). clear H.
    eexists. f_equal. f_equal.
    apply fixs_noop_on_clean. intros k Hk. apply (level_zero_iff e k false).
    rewrite Forall_forall in Hz. apply Hz. rewrite E. unfold reps.
    now apply (in_map (fun k => ck_rep e k false (slot_val k v))).
  Qed.

  Lemma battery_fix_clears v v1 r1 : run_checks e true ks v = Some (v1, r1) ->
    exists r2, run_checks e false ks v1 = Some (v1, r2)
      /\ Forall (fun r => level r = 0 \/ unfixable (rmsg r) = true) r2.
  Proof.
    rewrite !run_spec by assumption. destruct (noraise e ks v) eqn:N; [|discriminate].
    intros H. inversion H; subst. clear H. rewrite noraise_after_fix by assumption.
    eexists. split; [reflexivity|]. unfold reps. apply Forall_forall. intros r Hr.
    apply in_map_iff in Hr as (k & <- & Hk). rewrite slot_val_fixs_in by assumption.
    destruct (after_fix e k (slot_val k v) (Hsub k Hk)) as [H|[H1 H2]].
    - left. now apply level_zero_iff.
    - right. now rewrite H1.
  Qed.

  (* check_fix reports what check_only reports (levels and message classes) *)
  Lemma battery_reports_agree v v1 r1 v0 r0 :
    run_checks e true ks v = Some (v1, r1) -> run_checks e false ks v = Some (v0, r0) ->
    map (fun r => (level r, rmsg r)) r1 = map (fun r => (level r, rmsg r)) r0.
  Proof.
    rewrite !run_spec by assumption. destruct (noraise e ks v); [|discriminate].
    intros H1 H0. inversion H1; inversion H0; subst. unfold reps. rewrite !map_map.
    apply map_ext. intros k. f_equal; apply rep_fix_irrelevant.
  Qed.
End Battery.

(* the class batteries read from _get_checks() write distinct slots *)
Scheme Equality for slot.
Definition oslot_clash (a b : option slot) : bool :=
  match a, b with Some x, Some y => slot_beq x y | _, _ => false end.
Fixpoint wf_batb (ks : list ck_id) : bool :=
  match ks with
  | [] => true
  | k :: r => negb (existsb (fun j => oslot_clash (ck_slot k) (ck_slot j)) r) && wf_batb r
  end.
Lemma wf_batb_sound ks : wf_batb ks = true -> wf_bat ks.
Proof.
  induction ks as [|k ks IH]; [constructor|]. cbn [wf_batb wf_bat]. intros H.
  apply andb_prop in H as [H1 H2]. split; [|now apply IH].
  apply Forall_forall. intros j Hj s s' Ek Ej E. subst s'.
  apply negb_true_iff in H1. assert (X : existsb (fun j => oslot_clash (ck_slot k) (ck_slot j)) ks = true).
  { apply existsb_exists. exists j. split; [assumption|]. rewrite Ek, Ej. cbn. destruct s; reflexivity. }
  congruence.
Qed.
Lemma batteries_wf c : wf_bat (battery_of c).
Proof. apply wf_batb_sound. destruct c; vm_compute; reflexivity. Qed.

(* ---- lifting to decoded headers: view_slots / writeback *)
Definition field_of_slot (s : slot) : Z :=
  match s with
  | SSizeof => f_sizeof_hdr | SBitpix => f_bitpix | SSpat => f_pixdim | SQfac => f_pixdim
  | SOffset => f_vox_offset | SQform => f_qform_code | SSform => f_sform_code | SEol => f_eol_check
  | SVersion => f_version
  end.

Lemma getf_setf_gen i x h : getf i (setf i x h) = if hasf i h then x else [].
Proof.
  induction h as [|[k y] r IH]; simpl; [reflexivity|].
  destruct (Z.eqb_spec k i); simpl.
  - destruct (Z.eqb_spec k i); [reflexivity|contradiction].
  - destruct (Z.eqb_spec k i); [contradiction|exact IH].
Qed.

Lemma getf_absent i h : hasf i h = false -> getf i h = [].
Proof.
  induction h as [|[k y] r IH]; simpl; [reflexivity|].
  destruct (k =? i); simpl; [discriminate|exact IH].
Qed.

Lemma hdr_fits_keys L : forall h, hdr_fits L h = true -> map fst h = map fid L.
Proof.
  induction L as [|f L IH]; intros [|[k vs] h] H; simpl in *; try discriminate; [reflexivity|].
  apply andb_prop in H as [H H4]. apply andb_prop in H as [H H3]. apply andb_prop in H as [H1 H2].
  apply Z.eqb_eq in H1. subst. f_equal. now apply IH.
Qed.

Lemma hdr_fits_len L i f : forall h, hdr_fits L h = true -> find_field i L = Some f ->
  length (getf i h) = fcount f.
Proof.
  induction L as [|g L IH]; intros [|[k vs] h] H E; simpl in *; try discriminate.
  apply andb_prop in H as [H H4]. apply andb_prop in H as [H H3]. apply andb_prop in H as [H1 H2].
  apply Z.eqb_eq in H1. apply Nat.eqb_eq in H2. subst k.
  destruct (fid g =? i); [inversion E; subst; assumption|now apply IH].
Qed.

Ltac ids_neq := let H := fresh in intro H; vm_compute in H; discriminate H.

Lemma view_env_writeback c v h : view_env c (writeback v h) = view_env c h.
Proof.
  unfold view_env, writeback. f_equal; repeat rewrite getf_setf_other by ids_neq; reflexivity.
Qed.

Definition plain_ok (i : Z) (x : list Z) (h : hdr) : Prop := hasf i h = true \/ x = [].
Definition pix_ok (v : cslots) (h : hdr) : Prop :=
  (hasf f_pixdim h = true /\ length (s_qfac v) = 1%nat /\ length (s_spat v) = 3%nat)
  \/ (hasf f_pixdim h = false /\ s_qfac v = [] /\ s_spat v = []).
Definition slots_fit (v : cslots) (h : hdr) : Prop :=
  plain_ok f_sizeof_hdr (s_sizeof v) h /\ plain_ok f_bitpix (s_bitpix v) h /\ pix_ok v h
  /\ plain_ok f_vox_offset (s_offset v) h /\ plain_ok f_qform_code (s_qform v) h
  /\ plain_ok f_sform_code (s_sform v) h /\ plain_ok f_eol_check (s_eol v) h /\ plain_ok f_version (s_version v) h.

Lemma plain_get i x h : plain_ok i x h -> (if hasf i h then x else []) = x.
Proof. intros [H|H]; [now rewrite H|subst; now destruct (hasf i h)]. Qed.

Lemma firstn_app_exact {A} (a b : list A) n : length a = n -> firstn n (a ++ b) = a.
Proof. intros <-. rewrite firstn_app, Nat.sub_diag, firstn_all. simpl. apply app_nil_r. Qed.
Lemma skipn_app_exact {A} (a b : list A) n : length a = n -> skipn n (a ++ b) = b.
Proof. intros <-. rewrite skipn_app, Nat.sub_diag, skipn_all. reflexivity. Qed.

Lemma view_slots_writeback v h : slots_fit v h -> view_slots (writeback v h) = v.
Proof.
  intros (H1 & H2 & H3 & H4 & H5 & H6 & H7 & H8). destruct v as [a b sp q o qf sf eo ve]. unfold pix_ok in H3. cbn [s_sizeof s_bitpix s_spat s_qfac s_offset s_qform s_sform s_eol s_version] in *.
  unfold view_slots, writeback. cbn [s_sizeof s_bitpix s_spat s_qfac s_offset s_qform s_sform s_eol s_version].
  repeat (rewrite getf_setf_gen || rewrite getf_setf_other by ids_neq). repeat rewrite hasf_setf.
  rewrite (plain_get _ _ _ H1), (plain_get _ _ _ H2), (plain_get _ _ _ H4), (plain_get _ _ _ H5),
          (plain_get _ _ _ H6), (plain_get _ _ _ H7), (plain_get _ _ _ H8).
  destruct H3 as [(P & Lq & Ls)|(P & -> & ->)]; rewrite P.
  - rewrite (firstn_app_exact q _ 1 Lq), (skipn_app_exact q _ 1 Lq), (firstn_app_exact sp _ 3 Ls). reflexivity.
  - reflexivity.
Qed.


Lemma writeback_view h : writeback (view_slots h) h = h.
Proof.
  unfold writeback, view_slots. cbn [s_sizeof s_bitpix s_spat s_qfac s_offset s_qform s_sform s_eol s_version].
  assert (P : firstn 1 (getf f_pixdim h) ++ firstn 3 (skipn 1 (getf f_pixdim h)) ++ skipn 4 (getf f_pixdim h)
              = getf f_pixdim h).
  { change 4%nat with (3 + 1)%nat. rewrite <- skipn_skipn'. rewrite firstn_skipn. apply firstn_skipn. }
  rewrite P. now rewrite !setf_getf.
Qed.

Lemma hasf_writeback i v h : hasf i (writeback v h) = hasf i h.
Proof. unfold writeback. now rewrite !hasf_setf. Qed.

Lemma get_fixs_cases e s ks : forall v, wf_bat ks ->
  get_slot s (fixs e ks v) = get_slot s v
  \/ exists k, In k ks /\ ck_slot k = Some s /\ get_slot s (fixs e ks v) = ck_fixv e k (get_slot s v).
Proof.
  induction ks as [|k ks IH]; intros v Hw0; [now left|]. destruct Hw0 as [Hk Hw].
  cbn [fixs fold_left]. fold (fixs e ks (upd e k v)).
  assert (U : forall s', ck_slot k <> Some s' -> get_slot s' (upd e k v) = get_slot s' v).
  { intros s' Hne. unfold upd, slot_upd. destruct (ck_slot k) as [t|]; [|reflexivity].
    apply get_put_other. congruence. }
  destruct (IH (upd e k v) Hw) as [E|(j & Hj & Sj & E)].
  - rewrite E. destruct (ck_slot k) as [t|] eqn:Ek.
    + destruct (slot_eq_dec t s) as [->|Hne].
      * right. exists k. split; [now left|]. split; [assumption|].
        unfold upd, slot_upd, slot_val. rewrite Ek. apply get_put_same.
      * left. apply U. congruence.
    + left. apply U. congruence.
  - right. exists j. split; [now right|]. split; [assumption|]. rewrite E. f_equal.
    apply U. intros Ek. rewrite Forall_forall in Hk. exact (Hk j Hj s s Ek Sj eq_refl).
Qed.

Lemma battery_fields_present c :
  forallb (fun k => match ck_slot k with
                    | Some s => memZ (field_of_slot s) (map fid (layout_of c))
                    | None => true end) (battery_of c) = true.
Proof. destruct c; vm_compute; reflexivity. Qed.

Lemma pixdim_count c :
  match find_field f_pixdim (layout_of c) with Some f => Nat.leb 4 (fcount f) | None => true end = true.
Proof. destruct c; vm_compute; reflexivity. Qed.

Lemma memZ_find i L : memZ i (map fid L) = true -> exists f, find_field i L = Some f.
Proof.
  induction L as [|g L IH]; simpl; [discriminate|]. rewrite (Z.eqb_sym i (fid g)).
  destruct (fid g =? i); [eexists; reflexivity|exact IH].
Qed.

Lemma fixv_len_qfac e k x : ck_slot k = Some SQfac -> length x = 1%nat -> length (ck_fixv e k x) = 1%nat.
Proof. destruct k; try discriminate. intros _ H. unfold ck_fixv. destruct (negb _); [assumption|reflexivity]. Qed.
Lemma fixv_len_spat e k x : ck_slot k = Some SSpat -> length (ck_fixv e k x) = length x.
Proof.
  destruct k; try discriminate. intros _. unfold ck_fixv. destruct (negb _); [reflexivity|].
  cbv zeta. destruct (any _ x); now rewrite ?map_length.
Qed.

Lemma fix_slots_fit c h : hdr_fits (layout_of c) h = true ->
  slots_fit (fixs (view_env c h) (battery_of c) (view_slots h)) h.
Proof.
  intros Hfit. set (e := view_env c h). set (ks := battery_of c). set (v0 := view_slots h).
  pose proof (batteries_wf c) as Hw. fold ks in Hw.
  assert (Hkeys : forall i, hasf i h = memZ i (map fid (layout_of c)))
    by (intros i; rewrite hasf_keys; now rewrite (hdr_fits_keys _ _ Hfit)).
  assert (Hpres : forall k s, In k ks -> ck_slot k = Some s -> hasf (field_of_slot s) h = true).
  { intros k s Hk Es. rewrite Hkeys. pose proof (battery_fields_present c) as P.
    rewrite forallb_forall in P. specialize (P k Hk). now rewrite Es in P. }
  assert (Plain : forall s, get_slot s v0 = getf (field_of_slot s) h ->
                            plain_ok (field_of_slot s) (get_slot s (fixs e ks v0)) h).
  { intros s Hv. destruct (get_fixs_cases e s ks v0 Hw) as [E|(k & Hk & Sk & _)].
    - rewrite E, Hv. unfold plain_ok. destruct (hasf (field_of_slot s) h) eqn:P; [now left|right].
      now apply getf_absent.
    - left. now apply (Hpres k s). }
  unfold slots_fit.
  repeat match goal with |- _ /\ _ => split end;
    try (match goal with |- plain_ok ?i (?proj _) h =>
           first [exact (Plain SSizeof eq_refl)|exact (Plain SBitpix eq_refl)|exact (Plain SOffset eq_refl)
                 |exact (Plain SQform eq_refl)|exact (Plain SSform eq_refl)|exact (Plain SEol eq_refl)
                 |exact (Plain SVersion eq_refl)] end).
  (* pixdim: two slots in one field *)
  unfold pix_ok. change (s_qfac (fixs e ks v0)) with (get_slot SQfac (fixs e ks v0)).
  change (s_spat (fixs e ks v0)) with (get_slot SSpat (fixs e ks v0)).
  set (p := getf f_pixdim h).
  assert (Q0 : get_slot SQfac v0 = firstn 1 p) by reflexivity.
  assert (S0 : get_slot SSpat v0 = firstn 3 (skipn 1 p)) by reflexivity.
  destruct (hasf f_pixdim h) eqn:P.
  - left. split; [reflexivity|].
    assert (Lp : (4 <= length p)%nat).
    { rewrite Hkeys in P. destruct (memZ_find _ _ P) as [f Ef]. pose proof (pixdim_count c) as C.
      rewrite Ef in C. apply Nat.leb_le in C. unfold p. now rewrite (hdr_fits_len _ _ _ _ Hfit Ef). }
    split.
    + destruct (get_fixs_cases e SQfac ks v0 Hw) as [E|(k & Hk & Sk & E)]; rewrite E, Q0.
      * rewrite firstn_length. lia.
      * apply fixv_len_qfac; [assumption|]. rewrite firstn_length. lia.
    + destruct (get_fixs_cases e SSpat ks v0 Hw) as [E|(k & Hk & Sk & E)]; rewrite E, S0.
      * rewrite firstn_length, skipn_length. lia.
      * rewrite fixv_len_spat by assumption. rewrite firstn_length, skipn_length. lia.
  - right. split; [reflexivity|].
    assert (Ep : p = []) by now apply getf_absent.
    split.
    + destruct (get_fixs_cases e SQfac ks v0 Hw) as [E|(k & Hk & Sk & _)].
      * rewrite E, Q0, Ep. reflexivity.
      * pose proof (Hpres k SQfac Hk Sk) as X. cbn [field_of_slot] in X. congruence.
    + destruct (get_fixs_cases e SSpat ks v0 Hw) as [E|(k & Hk & Sk & _)].
      * rewrite E, S0, Ep. reflexivity.
      * pose proof (Hpres k SSpat Hk Sk) as X. cbn [field_of_slot] in X. congruence.
Qed.

(* ---- the battery on decoded headers *)
Lemma hdr_fix_idempotent c h h1 r1 : hdr_fits (layout_of c) h = true ->
  check_hdr c true h = Some (h1, r1) -> exists r2, check_hdr c true h1 = Some (h1, r2).
Proof.
  intros Hfit H. unfold check_hdr in H.
  destruct (run_checks (view_env c h) true (battery_of c) (view_slots h)) as [[v1 rs]|] eqn:R; [|discriminate].
  inversion H; subst. clear H.
  assert (V : v1 = fixs (view_env c h) (battery_of c) (view_slots h)).
  { rewrite run_spec in R by apply batteries_wf. destruct (noraise _ _ _); [|discriminate]. now inversion R. }
  destruct (battery_fix_idempotent (view_env c h) (battery_of c) (batteries_wf c) (fun k H => H) _ _ _ R) as [r2 R2].
  exists r2. unfold check_hdr. rewrite view_env_writeback.
  rewrite view_slots_writeback by (rewrite V; now apply fix_slots_fit).
  rewrite R2. f_equal. f_equal.
  rewrite <- (view_slots_writeback v1 h) at 1 by (rewrite V; now apply fix_slots_fit).
  apply writeback_view.
Qed.

Lemma hdr_check_only_pure c h h0 r0 : check_hdr c false h = Some (h0, r0) -> h0 = h.
Proof.
  unfold check_hdr.
  destruct (run_checks (view_env c h) false (battery_of c) (view_slots h)) as [[v rs]|] eqn:R; [|discriminate].
  intros H. inversion H; subst. rewrite (check_only_pure _ _ (batteries_wf c) _ _ _ R). apply writeback_view.
Qed.

Lemma hdr_fix_noop_on_clean c h h0 r0 : check_hdr c false h = Some (h0, r0) ->
  Forall (fun r => level r = 0) r0 -> exists r1, check_hdr c true h = Some (h, r1).
Proof.
  unfold check_hdr.
  destruct (run_checks (view_env c h) false (battery_of c) (view_slots h)) as [[v rs]|] eqn:R; [|discriminate].
  intros H Hz. inversion H; subst.
  destruct (battery_fix_noop_on_clean _ _ (batteries_wf c) _ _ _ R Hz) as [r1 R1].
  exists r1. rewrite R1. now rewrite writeback_view.
Qed.

Lemma hdr_fix_clears c h h1 r1 : hdr_fits (layout_of c) h = true ->
  check_hdr c true h = Some (h1, r1) ->
  exists r2, check_hdr c false h1 = Some (h1, r2)
    /\ Forall (fun r => level r = 0 \/ unfixable (rmsg r) = true) r2.
Proof.
  intros Hfit H. unfold check_hdr in H.
  destruct (run_checks (view_env c h) true (battery_of c) (view_slots h)) as [[v1 rs]|] eqn:R; [|discriminate].
  inversion H; subst. clear H.
  assert (V : v1 = fixs (view_env c h) (battery_of c) (view_slots h)).
  { rewrite run_spec in R by apply batteries_wf. destruct (noraise _ _ _); [|discriminate]. now inversion R. }
  destruct (battery_fix_clears (view_env c h) (battery_of c) (batteries_wf c) (fun k H => H) _ _ _ R) as (r2 & R2 & F).
  exists r2. split; [|exact F]. unfold check_hdr. rewrite view_env_writeback.
  rewrite view_slots_writeback by (rewrite V; now apply fix_slots_fit).
  rewrite R2. f_equal. f_equal.
  rewrite <- (view_slots_writeback v1 h) at 1 by (rewrite V; now apply fix_slots_fit).
  apply writeback_view.
Qed.

Lemma hdr_reports_agree c h h1 r1 h0 r0 :
  check_hdr c true h = Some (h1, r1) -> check_hdr c false h = Some (h0, r0) ->
  map (fun r => (level r, rmsg r)) r1 = map (fun r => (level r, rmsg r)) r0.
Proof.
  unfold check_hdr.
  destruct (run_checks (view_env c h) true (battery_of c) (view_slots h)) as [[v1 rs1]|] eqn:R1; [|discriminate].
  destruct (run_checks (view_env c h) false (battery_of c) (view_slots h)) as [[v0 rs0]|] eqn:R0; [|discriminate].
  intros H1 H0. inversion H1; inversion H0; subst.
  exact (battery_reports_agree _ _ (batteries_wf c) _ _ _ _ _ R1 R0).
Qed.

(* ================================================================== conversions (from_header) *)
Definition rederived : list Z := [f_magic; f_datatype; f_bitpix; f_dim; f_pixdim; f_glmin].

Lemma memZ_false_neq x l y : memZ x l = false -> In y l -> x <> y.
Proof. intros H Hin E. subst. apply (memZ_false_in _ _ H Hin). Qed.

Lemma find_field_mem i L f : find_field i L = Some f -> memZ i (map fid L) = true.
Proof.
  induction L as [|g L IH]; simpl; [discriminate|]. rewrite (Z.eqb_sym i (fid g)).
  destruct (fid g =? i); [reflexivity|exact IH].
Qed.

Lemma hasf_false_getf i h : hasf i h = false -> getf i h = [].
Proof. apply getf_absent. Qed.

Lemma apply_mapping_get Ls Ld i fs fd : find_field i Ls = Some fs -> find_field i Ld = Some fd ->
  forall src obj, nodupZ (map fst src) = true -> hasf i obj = true ->
  getf i (apply_mapping Ls Ld src obj)
  = if hasf i src then map (cast_field fs fd) (getf i src) else getf i obj.
Proof.
  intros Es Ed. induction src as [|[k vs] r IH]; intros obj Hnd Hobj; [reflexivity|].
  cbn [map fst nodupZ] in Hnd. apply andb_prop in Hnd as [Hk Hnd]. apply negb_true_iff in Hk.
  cbn [apply_mapping hasf getf]. destruct (Z.eqb_spec k i) as [->|Hne].
  - rewrite Es, Ed. cbn [orb].
    rewrite IH; [|assumption|now rewrite hasf_setf].
    rewrite <- hasf_keys in Hk. rewrite Hk. now apply getf_setf_same.
  - cbn [orb].
    assert (G : forall o', (o' = obj \/ exists x, o' = setf k x obj) -> hasf i o' = true /\ getf i o' = getf i obj).
    { intros o' [->|[x ->]]; [now split|]. split; [now rewrite hasf_setf|]. apply getf_setf_other. congruence. }
    destruct (find_field k Ls), (find_field k Ld);
      (rewrite IH; [|assumption|apply G; eauto]);
      (destruct (hasf i r); [reflexivity|apply G; eauto]).
Qed.

Lemma hdr_fits_range L i f : forall h, hdr_fits L h = true -> find_field i L = Some f ->
  Forall (in_range (fwidth f)) (getf i h).
Proof.
  induction L as [|g L IH]; intros [|[k vs] h] H E; simpl in *; try discriminate.
  apply andb_prop in H as [H H4]. apply andb_prop in H as [H H3]. apply andb_prop in H as [H1 H2].
  apply Z.eqb_eq in H1. subst k.
  destruct (fid g =? i); [inversion E; subst; now apply forallb_in_range|now apply IH].
Qed.

Lemma of_to_signed w v : 0 <= v < pow256 w -> of_signed w (to_signed w v) = v.
Proof.
  intros H. unfold of_signed, to_signed. destruct (v <? pow256 w / 2).
  - apply Z.mod_small. exact H.
  - replace (v - pow256 w) with (v + (-1) * pow256 w) by lia. rewrite Z.mod_add by lia. now apply Z.mod_small.
Qed.

Lemma cast_same fs fd v : fwidth fs = fwidth fd -> fkind fs = fkind fd -> in_range (fwidth fs) v ->
  cast_field fs fd v = v.
Proof.
  intros Ew Ek Hr. unfold cast_field. rewrite <- Ek, <- Ew. destruct (fkind fs).
  - now apply of_to_signed.
  - unfold of_signed. now apply Z.mod_small.
  - unfold f_cast. now rewrite Nat.eqb_refl.
  - reflexivity.
Qed.

Lemma default_keys c : map fst (default_hdr c) = map fid (layout_of c).
Proof. destruct c; vm_compute; reflexivity. Qed.

Lemma set_shape_plain_get c shape h h' i : set_shape_plain c shape h = COk h' ->
  i <> f_pixdim -> i <> f_dim -> getf i h' = getf i h.
Proof.
  unfold set_shape_plain. destruct (_ || _); [discriminate|]. intros H N1 N2. inversion H; subst.
  now rewrite !getf_setf_other by assumption.
Qed.

Lemma set_shape_get c shape h h' i : set_shape c shape h = COk h' ->
  i <> f_pixdim -> i <> f_dim -> i <> f_glmin -> getf i h' = getf i h.
Proof.
  unfold set_shape. intros H N1 N2 N3.
  repeat match type of H with
         | (if ?b then _ else _) = _ => destruct b
         | match ?t with _ => _ end = _ => destruct t
         end; try discriminate;
    try (rewrite (set_shape_plain_get _ _ _ _ _ H N1 N2); try reflexivity; now apply getf_setf_other).
Qed.

(* every same-named field of equal type that the conversion does not re-derive is copied *)
Lemma convert_preserves_field src dst h h' i fs fd :
  from_header src dst false h = COk h' -> hdr_fits (layout_of src) h = true ->
  find_field i (layout_of src) = Some fs -> find_field i (layout_of dst) = Some fd ->
  fwidth fs = fwidth fd -> fkind fs = fkind fd -> memZ i rederived = false ->
  getf i h' = getf i h.
Proof.
  intros H Hfit Es Ed Ew Ek Hre. unfold from_header in H.
  destruct (negb (dim0_in_scope src h)); [discriminate|].
  assert (N : forall j, In j rederived -> i <> j) by (intros j Hj; eapply memZ_false_neq; eauto).
  set (obj0 := clean_after_mapping dst (apply_mapping (layout_of src) (layout_of dst) h (default_hdr dst))) in *.
  destruct (set_dtype src dst (sval 2 (getf f_datatype h)) obj0) as [obj1|] eqn:E1; [|discriminate].
  destruct (get_shape src h) as [shape|]; [|discriminate].
  destruct (set_shape dst shape obj1) as [obj2|] eqn:E2; [|discriminate].
  destruct (set_zooms dst (pix_w src) (get_zooms src h) obj2) as [obj3|] eqn:E3; [|discriminate].
  inversion H; subst h'. clear H.
  (* later steps only write re-derived fields *)
  assert (G3 : getf i obj3 = getf i obj2).
  { unfold set_zooms in E3. repeat (destruct (_ : bool) in E3; try discriminate).
    inversion E3; subst. apply getf_setf_other. apply N. simpl; tauto. }
  assert (G2 : getf i obj2 = getf i obj1) by (apply (set_shape_get _ _ _ _ _ E2); apply N; simpl; tauto).
  assert (G1 : getf i obj1 = getf i obj0).
  { unfold set_dtype in E1. destruct (lookup _ (dtcodes_of src)); [|discriminate].
    destruct (lookup _ (dtcodes_of dst)); [|discriminate]. destruct (_ =? 0); [discriminate|].
    inversion E1; subst. rewrite !getf_setf_other by (apply N; simpl; tauto). reflexivity. }
  assert (G0 : getf i obj0 = getf i (apply_mapping (layout_of src) (layout_of dst) h (default_hdr dst))).
  { unfold obj0, clean_after_mapping. destruct (is_nifti dst); [|reflexivity].
    apply getf_setf_other. apply N. simpl; tauto. }
  rewrite G3, G2, G1, G0.
  rewrite (apply_mapping_get _ _ i fs fd Es Ed).
  - assert (Hh : hasf i h = true).
    { rewrite hasf_keys, (hdr_fits_keys _ _ Hfit). eapply find_field_mem; eauto. }
    rewrite Hh. pose proof (hdr_fits_range _ _ _ _ Hfit Es) as Hr.
    induction Hr as [|v vs Hv Hvs IH]; [reflexivity|]. cbn [map]. rewrite IH. f_equal. now apply cast_same.
  - rewrite (hdr_fits_keys _ _ Hfit). destruct (wf_offsets _ (layouts_wf src)) as [_ Hn]. exact Hn.
  - rewrite hasf_keys, default_keys. eapply find_field_mem; eauto.
Qed.

Lemma to_signed_range w u : (0 < w)%nat -> 0 <= u < pow256 w -> - (pow256 w / 2) <= to_signed w u < pow256 w / 2.
Proof.
  intros Hw Hu. unfold to_signed. destruct w as [|w]; [lia|]. rewrite pow256_S in *.
  pose proof (pow256_pos w). replace (256 * pow256 w / 2) with (128 * pow256 w)
    by (replace (256 * pow256 w) with (128 * pow256 w * 2) by lia; now rewrite Z.div_mul).
  destruct (Z.ltb_spec u (128 * pow256 w)); lia.
Qed.

Lemma apply_mapping_keys Ls Ld : forall src obj, map fst (apply_mapping Ls Ld src obj) = map fst obj.
Proof.
  induction src as [|[k vs] r IH]; intros obj; [reflexivity|]. cbn [apply_mapping].
  destruct (find_field k Ls), (find_field k Ld); rewrite IH; rewrite ?setf_keys; reflexivity.
Qed.

(* the data type code of the converted header is the source's *)
Lemma convert_preserves_dtype src dst h h' : analyze_family dst = true ->
  from_header src dst false h = COk h' -> hdr_fits (layout_of src) h = true ->
  find_field f_datatype (layout_of src) <> None ->
  sval 2 (getf f_datatype h') = sval 2 (getf f_datatype h).
Proof.
  intros Hfam H Hfit Hsrc. unfold from_header in H.
  destruct (negb (dim0_in_scope src h)); [discriminate|].
  set (obj0 := clean_after_mapping dst (apply_mapping (layout_of src) (layout_of dst) h (default_hdr dst))) in *.
  destruct (set_dtype src dst (sval 2 (getf f_datatype h)) obj0) as [obj1|] eqn:E1; [|discriminate].
  destruct (get_shape src h) as [shape|]; [|discriminate].
  destruct (set_shape dst shape obj1) as [obj2|] eqn:E2; [|discriminate].
  destruct (set_zooms dst (pix_w src) (get_zooms src h) obj2) as [obj3|] eqn:E3; [|discriminate].
  inversion H; subst h'. clear H.
  assert (G3 : getf f_datatype obj3 = getf f_datatype obj2).
  { unfold set_zooms in E3. repeat (destruct (_ : bool) in E3; try discriminate).
    inversion E3; subst. apply getf_setf_other. ids_neq. }
  assert (G2 : getf f_datatype obj2 = getf f_datatype obj1) by (apply (set_shape_get _ _ _ _ _ E2); ids_neq).
  rewrite G3, G2. unfold set_dtype in E1.
  destruct (lookup _ (dtcodes_of src)); [|discriminate].
  destruct (lookup _ (dtcodes_of dst)); [|discriminate]. destruct (_ =? 0); [discriminate|].
  inversion E1; subst. rewrite getf_setf_other by ids_neq.
  assert (Hobj : hasf f_datatype obj0 = true).
  { rewrite hasf_keys. unfold obj0, clean_after_mapping.
    destruct (is_nifti dst); rewrite ?setf_keys, apply_mapping_keys, default_keys;
      destruct dst; try discriminate; vm_compute; reflexivity. }
  rewrite getf_setf_same by assumption.
  destruct (find_field f_datatype (layout_of src)) as [fs|] eqn:Es; [|contradiction].
  pose proof (hdr_fits_range _ _ _ _ Hfit Es) as Hr.
  assert (Hw : fwidth fs = 2%nat) by (destruct src; vm_compute in Es; inversion Es; reflexivity).
  rewrite Hw in Hr.
  assert (Hu : 0 <= hd 0 (getf f_datatype h) < pow256 2).
  { destruct Hr as [|v vs Hv _]; [cbn; change (pow256 2) with 65536; lia|exact Hv]. }
  unfold sval at 1. cbn [hd]. apply to_of_signed; [lia|]. apply to_signed_range; [lia|exact Hu].
Qed.

(* same-named fields of two Analyze-family layouts have the same item count and a kind the
   model's cast_field covers (same kind; float -> 8-byte int; int -> float) *)
Definition kind_compat (fs fd : field) : bool :=
  match fkind fs, fkind fd with
  | (KInt | KUInt), (KInt | KUInt) | KFloat, KFloat | KStr, KStr => true
  | KFloat, KInt => Nat.eqb (fwidth fd) 8
  | KInt, KFloat => true
  | _, _ => false
  end.
Definition layouts_compat (Ls Ld : layout) : bool :=
  forallb (fun fs => match find_field (fid fs) Ld with
                     | None => true
                     | Some fd => Nat.eqb (fcount fs) (fcount fd) && kind_compat fs fd
                     end) Ls.
Lemma family_compat s d : analyze_family s = true -> analyze_family d = true ->
  layouts_compat (layout_of s) (layout_of d) = true.
Proof. destruct s, d; try discriminate; intros _ _; vm_compute; reflexivity. Qed.

(* ================================================================== MGH constructor *)
Lemma mgh_from_bytes nat_be en b : bytes_ok b -> zlen b = size_of Mgh ->
  sval 2 (getf f_goodRASFlag (decode_struct (layout_of Mgh) true b)) <> 0 ->
  from_bytes Mgh nat_be en b = Some (true, b).
Proof.
  intros Hb Hl Hf. unfold from_bytes. rewrite Hl.
  change (hdr_size_mgh <=? size_of Mgh) with true. cbn [negb].
  replace (size_of Mgh - size_of Mgh) with 0 by lia. change (zeros 0) with (@nil Z). rewrite app_nil_r.
  assert (T : take (size_of Mgh) b = b).
  { unfold take. rewrite <- Hl. unfold zlen. rewrite Nat2Z.id. apply firstn_all. }
  rewrite T, Hl, Z.eqb_refl. cbn [negb].
  destruct (Z.eqb_spec (sval 2 (getf f_goodRASFlag (decode_struct (layout_of Mgh) true b))) 0); [contradiction|].
  now rewrite class_bytes_roundtrip.
Qed.

(* ================================================================== check batteries on header BYTES *)
Definition vals_fit (f : field) (n : nat) (x : list Z) : Prop := length x = n /\ Forall (in_range (fwidth f)) x.

Lemma in_range_forallb w x : Forall (in_range w) x -> forallb (fun v => (0 <=? v) && (v <? pow256 w)) x = true.
Proof. intros H. apply forallb_forall. rewrite Forall_forall in H. intros v Hv. specialize (H v Hv). unfold in_range in H. lia. Qed.

Lemma hdr_fits_setf L i x : forall h, hdr_fits L h = true ->
  (forall f, find_field i L = Some f -> vals_fit f (fcount f) x) -> hdr_fits L (setf i x h) = true.
Proof.
  induction L as [|g L IH]; intros [|[k vs] h] H Hx; simpl in *; try discriminate; [reflexivity|].
  apply andb_prop in H as [H H4]. apply andb_prop in H as [H H3]. apply andb_prop in H as [H1 H2].
  apply Z.eqb_eq in H1. subst k. destruct (Z.eqb_spec (fid g) i) as [E|NE].
  - destruct (Hx g eq_refl) as [Lx Rx]. cbn [hdr_fits]. rewrite Z.eqb_refl, Lx, Nat.eqb_refl, in_range_forallb, H4 by assumption.
    reflexivity.
  - cbn [hdr_fits]. rewrite Z.eqb_refl, H2, H3. cbn [andb]. apply IH; assumption.
Qed.

Definition slot_count (s : slot) (f : field) : nat :=
  match s with SSpat => 3%nat | SQfac => 1%nat | _ => fcount f end.
Definition slot_fit (c : hclass) (s : slot) (x : list Z) : Prop :=
  forall f, find_field (field_of_slot s) (layout_of c) = Some f -> vals_fit f (slot_count s f) x.

(* table fact: the fields the checks of each battery repair have the width / count the repairs assume,
   and the constant written by the offset repair fits its field *)
Definition repair_shape_ok (c : hclass) (k : ck_id) (f : field) : bool :=
  match k with
  | CkSizeof | CkVersion => Nat.eqb (fwidth f) 4 && Nat.eqb (fcount f) 1
  | CkBitpix => Nat.eqb (fwidth f) 2 && Nat.eqb (fcount f) 1
  | CkPixdims | CkQfac => (Nat.eqb (fwidth f) 4 || Nat.eqb (fwidth f) 8) && Nat.leb 4 (fcount f)
  | CkOffset => Nat.eqb (fcount f) 1 && (0 <=? off_of_int c (single_vox_offset_of c))
                && (off_of_int c (single_vox_offset_of c) <? pow256 (fwidth f))
  | CkQform | CkSform => Nat.eqb (fcount f) 1
  | CkEol => Nat.eqb (fwidth f) 1 && Nat.eqb (fcount f) 4
  | _ => true
  end.
Definition battery_shapes (c : hclass) : bool :=
  forallb (fun k => match ck_slot k with
                    | Some s => match find_field (field_of_slot s) (layout_of c) with
                                | Some f => repair_shape_ok c k f
                                | None => false
                                end
                    | None => true
                    end) (battery_of c).
Lemma battery_shapes_all c : battery_shapes c = true.
Proof. destruct c; vm_compute; reflexivity. Qed.

Lemma f_one_in_range w : (w = 4 \/ w = 8)%nat -> in_range w (f_one w).
Proof. intros [->| ->]; unfold in_range; split; vm_compute; first [discriminate|reflexivity]. Qed.
Lemma f_abs_in_range w v : (w = 4 \/ w = 8)%nat -> in_range w (f_abs w v).
Proof.
  intros [->| ->]; unfold in_range, f_abs.
  - change (sign_bit 4) with 2147483648. change (pow256 4) with 4294967296.
    pose proof (Z.mod_pos_bound v 2147483648). lia.
  - change (sign_bit 8) with 9223372036854775808. change (pow256 8) with 18446744073709551616.
    pose proof (Z.mod_pos_bound v 9223372036854775808). lia.
Qed.
Lemma in_range_of_signed w z : in_range w (of_signed w z).
Proof. unfold in_range. apply of_signed_range. Qed.
Lemma in_range_small w v : (0 < w)%nat -> 0 <= v < 256 -> in_range w v.
Proof.
  intros Hw Hv. unfold in_range. destruct w as [|w]; [lia|]. rewrite pow256_S. pose proof (pow256_pos w). nia.
Qed.

(* every value a repair writes fits the field it is written to *)
Lemma fixv_fits e k s x : In k (battery_of (e_cls e)) -> ck_slot k = Some s ->
  slot_fit (e_cls e) s x -> slot_fit (e_cls e) s (ck_fixv e k x).
Proof.
  intros Hin Hs Hx f Hf. specialize (Hx f Hf).
  pose proof (battery_shapes_all (e_cls e)) as B. unfold battery_shapes in B. rewrite forallb_forall in B.
  specialize (B k Hin). rewrite Hs, Hf in B.
  unfold ck_fixv. destruct (negb (ck_bad e k x)); [exact Hx|].
  destruct k; cbn in Hs; inversion Hs; subst s; cbn [slot_count] in *; cbn [repair_shape_ok] in B; try exact Hx.
  - apply andb_prop in B as [B1 B2]. apply Nat.eqb_eq in B1, B2. split; [now rewrite B2|].
    rewrite B1. constructor; [apply in_range_of_signed|constructor].
  - destruct (lookup _ _); [|exact Hx]. apply andb_prop in B as [B1 B2]. apply Nat.eqb_eq in B1, B2.
    split; [now rewrite B2|]. rewrite B1. constructor; [apply in_range_of_signed|constructor].
  - apply andb_prop in B as [B1 _].
    assert (W : (fwidth f = 4 \/ fwidth f = 8)%nat) by (apply orb_prop in B1 as [E|E]; apply Nat.eqb_eq in E; auto).
    assert (PW : pix_w (e_cls e) = fwidth f) by (unfold pix_w, fwidth_of; cbn [field_of_slot] in Hf; now rewrite Hf).
    rewrite PW. destruct Hx as [Lx Rx]. cbv zeta.
    assert (R1 : Forall (in_range (fwidth f)) (map (fun v => if f_is_zero (fwidth f) v then f_one (fwidth f) else v) x)).
    { clear Lx. induction Rx as [|v x Hv Hxs IH]; cbn [map]; constructor; [|exact IH].
      destruct (f_is_zero _ v); [now apply f_one_in_range|exact Hv]. }
    destruct (any _ x); split; rewrite ?map_length; try exact Lx; try exact R1.
    clear - W. induction (map _ x) as [|v l IH]; cbn [map]; constructor; [now apply f_abs_in_range|exact IH].
  - apply andb_prop in B as [B1 _].
    assert (W : (fwidth f = 4 \/ fwidth f = 8)%nat) by (apply orb_prop in B1 as [E|E]; apply Nat.eqb_eq in E; auto).
    assert (PW : pix_w (e_cls e) = fwidth f) by (unfold pix_w, fwidth_of; cbn [field_of_slot] in Hf; now rewrite Hf).
    rewrite PW. split; [reflexivity|]. constructor; [now apply f_one_in_range|constructor].
  - destruct (off_too_low e x); [|exact Hx].
    apply andb_prop in B as [B B3]. apply andb_prop in B as [B1 B2]. apply Nat.eqb_eq in B1.
    split; [now rewrite B1|]. constructor; [unfold in_range; lia|constructor].
  - apply Nat.eqb_eq in B. split; [now rewrite B|]. constructor; [|constructor].
    unfold in_range. pose proof (pow256_pos (fwidth f)). lia.
  - apply Nat.eqb_eq in B. split; [now rewrite B|]. constructor; [|constructor].
    unfold in_range. pose proof (pow256_pos (fwidth f)). lia.
  - apply andb_prop in B as [B1 B2]. apply Nat.eqb_eq in B1, B2. split; [now rewrite B2|].
    unfold eol_good. repeat (apply Forall_cons; [apply in_range_small; rewrite ?B1; lia|]). apply Forall_nil.
  - apply andb_prop in B as [B1 B2]. apply Nat.eqb_eq in B1, B2. split; [now rewrite B2|].
    constructor; [apply in_range_small; rewrite ?B1; lia|constructor].
Qed.

Lemma Forall_firstn {A} (P : A -> Prop) n l : Forall P l -> Forall P (firstn n l).
Proof. intros H. apply Forall_forall. intros x Hx. rewrite Forall_forall in H. apply H.
  rewrite <- (firstn_skipn n l). apply in_or_app. now left. Qed.
Lemma Forall_skipn {A} (P : A -> Prop) n l : Forall P l -> Forall P (skipn n l).
Proof. intros H. apply Forall_forall. intros x Hx. rewrite Forall_forall in H. apply H.
  rewrite <- (firstn_skipn n l). apply in_or_app. now right. Qed.

Lemma pix_count_ge4 c f : find_field f_pixdim (layout_of c) = Some f -> (4 <= fcount f)%nat.
Proof. intros H. pose proof (pixdim_count c) as P. rewrite H in P. now apply Nat.leb_le. Qed.

Lemma view_slot_fit c h s : hdr_fits (layout_of c) h = true -> slot_fit c s (get_slot s (view_slots h)).
Proof.
  intros Hfit f Hf.
  assert (G : forall i g, find_field i (layout_of c) = Some g -> vals_fit g (fcount g) (getf i h)).
  { intros i g Hg. split; [now apply (hdr_fits_len _ _ _ _ Hfit Hg)|now apply (hdr_fits_range _ _ _ _ Hfit Hg)]. }
  destruct s; cbn [get_slot view_slots s_sizeof s_bitpix s_spat s_qfac s_offset s_qform s_sform s_eol s_version
                   field_of_slot slot_count] in *; try (now apply G).
  - destruct (G _ _ Hf) as [Lp Rp]. pose proof (pix_count_ge4 c f Hf). split.
    + rewrite firstn_length, skipn_length. lia.
    + now apply Forall_firstn, Forall_skipn.
  - destruct (G _ _ Hf) as [Lp Rp]. pose proof (pix_count_ge4 c f Hf). split.
    + rewrite firstn_length. lia.
    + now apply Forall_firstn.
Qed.

Lemma fixs_slot_fit c h s : hdr_fits (layout_of c) h = true ->
  slot_fit c s (get_slot s (fixs (view_env c h) (battery_of c) (view_slots h))).
Proof.
  intros Hfit. destruct (get_fixs_cases (view_env c h) s (battery_of c) (view_slots h) (batteries_wf c))
    as [E|(k & Hk & Sk & E)]; rewrite E.
  - now apply view_slot_fit.
  - apply (fixv_fits (view_env c h) k s); [exact Hk|exact Sk|now apply view_slot_fit].
Qed.

Lemma writeback_fits c v h : hdr_fits (layout_of c) h = true ->
  (forall s, slot_fit c s (get_slot s v)) -> hdr_fits (layout_of c) (writeback v h) = true.
Proof.
  intros Hfit Hv. unfold writeback.
  repeat (apply hdr_fits_setf; [|first
    [ exact (Hv SSizeof) | exact (Hv SBitpix) | exact (Hv SOffset) | exact (Hv SQform) | exact (Hv SSform)
    | exact (Hv SEol) | exact (Hv SVersion) | idtac ]]); try exact Hfit.
  (* pixdim = qfac ++ spatial ++ the rest of the old value *)
  intros f Hf. destruct (Hv SQfac f Hf) as [Lq Rq]. destruct (Hv SSpat f Hf) as [Ls Rs].
  cbn [get_slot slot_count] in *. pose proof (pix_count_ge4 c f Hf) as H4.
  pose proof (hdr_fits_len _ _ _ _ Hfit Hf) as Lp. pose proof (hdr_fits_range _ _ _ _ Hfit Hf) as Rp.
  split.
  - rewrite !app_length, skipn_length, Lq, Ls, Lp. lia.
  - apply Forall_app. split; [exact Rq|]. apply Forall_app. split; [exact Rs|now apply Forall_skipn].
Qed.

Lemma check_fix_fits c h h1 r1 : hdr_fits (layout_of c) h = true ->
  check_hdr c true h = Some (h1, r1) -> hdr_fits (layout_of c) h1 = true.
Proof.
  intros Hfit H. unfold check_hdr in H.
  destruct (run_checks (view_env c h) true (battery_of c) (view_slots h)) as [[v1 rs]|] eqn:R; [|discriminate].
  inversion H; subst. clear H.
  assert (V : v1 = fixs (view_env c h) (battery_of c) (view_slots h)).
  { rewrite run_spec in R by apply batteries_wf. destruct (noraise _ _ _); [|discriminate]. now inversion R. }
  apply writeback_fits; [assumption|]. intros s. rewrite V. now apply fixs_slot_fit.
Qed.

(* ---- byte level: check_bytes = encode o check_hdr o decode *)
Lemma bytes_fix_idempotent c be b b1 r1 : bytes_ok b -> zlen b = size_of c ->
  check_bytes c true be b = Some (b1, r1) ->
  zlen b1 = size_of c /\ exists r2, check_bytes c true be b1 = Some (b1, r2).
Proof.
  intros Hb Hl H. unfold check_bytes in H.
  set (h := decode_struct (layout_of c) be b) in *.
  assert (Hfit : hdr_fits (layout_of c) h = true) by (apply decode_fits; [assumption|rewrite layouts_size; lia]).
  destruct (check_hdr c true h) as [[h1 rs]|] eqn:C; [|discriminate]. inversion H; subst. clear H.
  pose proof (check_fix_fits c h h1 r1 Hfit C) as Hfit1.
  destruct (class_decode_encode c be h1 Hfit1) as [D L]. split; [exact L|].
  destruct (hdr_fix_idempotent c h h1 r1 Hfit C) as [r2 C2].
  exists r2. unfold check_bytes. now rewrite D, C2.
Qed.

Lemma bytes_fix_noop_on_clean c be b b0 r0 : bytes_ok b -> zlen b = size_of c ->
  check_bytes c false be b = Some (b0, r0) ->
  b0 = b /\ (Forall (fun r => level r = 0) r0 -> exists r1, check_bytes c true be b = Some (b, r1)).
Proof.
  intros Hb Hl H. unfold check_bytes in *.
  set (h := decode_struct (layout_of c) be b) in *.
  destruct (check_hdr c false h) as [[h0 rs]|] eqn:C; [|discriminate]. inversion H; subst. clear H.
  pose proof (hdr_check_only_pure c h h0 r0 C) as ->.
  assert (E : encode_struct (layout_of c) be h = b) by (unfold h; now apply class_bytes_roundtrip).
  split; [exact E|]. intros Hz. destruct (hdr_fix_noop_on_clean c h h r0 C Hz) as [r1 C1].
  exists r1. now rewrite C1, E.
Qed.

Lemma bytes_fix_clears c be b b1 r1 : bytes_ok b -> zlen b = size_of c ->
  check_bytes c true be b = Some (b1, r1) ->
  exists r2, check_bytes c false be b1 = Some (b1, r2)
    /\ Forall (fun r => level r = 0 \/ unfixable (rmsg r) = true) r2.
Proof.
  intros Hb Hl H. unfold check_bytes in H.
  set (h := decode_struct (layout_of c) be b) in *.
  assert (Hfit : hdr_fits (layout_of c) h = true) by (apply decode_fits; [assumption|rewrite layouts_size; lia]).
  destruct (check_hdr c true h) as [[h1 rs]|] eqn:C; [|discriminate]. inversion H; subst. clear H.
  pose proof (check_fix_fits c h h1 r1 Hfit C) as Hfit1.
  destruct (class_decode_encode c be h1 Hfit1) as [D L].
  destruct (hdr_fix_clears c h h1 r1 Hfit C) as (r2 & C2 & F).
  exists r2. split; [|exact F]. unfold check_bytes. now rewrite D, C2.
Qed.

(* ================================================================== conversions: shape and zooms *)
(* shapes that involve none of the FreeSurfer conventions of NIfTI-1 (large vectors, ico7) *)
Definition plain_shape (shape : list Z) : Prop :=
  shape <> [] /\ zlen shape <= 7 /\ Forall (fun x => 0 <= x <= 32767) shape /\ prefix3 shape 27307 1 6 = false.

Lemma dim_w_family c : analyze_family c = true -> (dim_w c = 2 \/ dim_w c = 8)%nat.
Proof. destruct c; try discriminate; intros _; vm_compute; auto. Qed.
Lemma dim_w_nifti1 c : is_nifti1 c = true -> dim_w c = 2%nat.
Proof. destruct c; try discriminate; intros _; reflexivity. Qed.

Lemma prefix3_false_ge shape a b c : Forall (fun x => 0 <= x <= 32767) shape -> (a < 0 \/ 32767 < a) ->
  prefix3 shape a b c = false.
Proof.
  intros H Ha. destruct shape as [|x [|y [|z r]]]; try reflexivity. cbn [prefix3].
  inversion H as [|? ? Hx _]; subst. destruct (Z.eqb_spec x a); [lia|reflexivity].
Qed.

Lemma set_shape_is_plain c shape h : plain_shape shape -> set_shape c shape h = set_shape_plain c shape h.
Proof.
  intros (_ & _ & Hr & _). unfold set_shape. destruct (is_nifti1 c) eqn:N; [|reflexivity].
  rewrite (prefix3_false_ge shape 163842 1 1 Hr) by lia.
  destruct shape as [|x [|y [|z r]]]; try reflexivity.
  - destruct y; try reflexivity. destruct p; reflexivity.
  - destruct y as [|p|p]; try reflexivity. destruct p; try reflexivity.
    destruct z as [|q|q]; try reflexivity. destruct q; try reflexivity.
    rewrite (dim_w_nifti1 c N). change (pow256 2 / 2 - 1) with 32767.
    inversion Hr as [|? ? Hx _]; subst. destruct (Z.ltb_spec 32767 x); [lia|reflexivity].
Qed.

Lemma to_signed_id w v : (w = 2 \/ w = 8)%nat -> 0 <= v <= 32767 -> to_signed w v = v.
Proof.
  intros [->| ->] Hv; unfold to_signed.
  - change (pow256 2 / 2) with 32768. destruct (Z.ltb_spec v 32768); lia.
  - change (pow256 8 / 2) with 9223372036854775808. destruct (Z.ltb_spec v 9223372036854775808); lia.
Qed.

Lemma fits_small w x : (w = 2 \/ w = 8)%nat -> 0 <= x <= 32767 -> - (pow256 w / 2) <= x < pow256 w / 2.
Proof. intros [->| ->] H; [change (pow256 2 / 2) with 32768|change (pow256 8 / 2) with 9223372036854775808]; lia. Qed.

Lemma map_to_of_signed w shape : (w = 2 \/ w = 8)%nat -> Forall (fun x => 0 <= x <= 32767) shape ->
  map (to_signed w) (map (of_signed w) shape) = shape.
Proof.
  intros Hw H. induction H as [|x l Hx Hl IH]; [reflexivity|]. cbn [map]. rewrite IH. f_equal.
  apply to_of_signed; [destruct Hw; lia|now apply fits_small].
Qed.

Lemma map_to_signed_ones w n : (w = 2 \/ w = 8)%nat -> map (to_signed w) (repeat 1 n) = repeat 1 n.
Proof. intros Hw. induction n; [reflexivity|]. cbn [repeat map]. rewrite IHn. f_equal. apply to_signed_id; [assumption|lia]. Qed.

Lemma skipn_repeat {A} (x : A) n m : skipn n (repeat x m) = repeat x (m - n).
Proof. revert m; induction n as [|n IH]; intros m; [now rewrite Nat.sub_0_r|]. destruct m; [reflexivity|]. cbn. apply IH. Qed.

(* the dim field written by set_data_shape reads back as the shape *)
Lemma get_shape_of_dims c h shape : analyze_family c = true -> plain_shape shape ->
  getf f_dim h = zlen shape :: map (of_signed (dim_w c)) shape ++ skipn (length shape) (repeat 1 7) ->
  get_shape c h = COk shape.
Proof.
  intros Hf (Hne & Hlen & Hr & H27) Hd. pose proof (dim_w_family c Hf) as Hw.
  assert (Hn : 0 < zlen shape) by (destruct shape; [congruence|unfold zlen; cbn [length]; lia]).
  unfold get_shape. rewrite Hd. cbn [map hd]. rewrite map_app, (map_to_of_signed _ _ Hw Hr).
  replace (skipn (length shape) (repeat 1 7)) with (repeat 1 (7 - length shape)).
  2:{ symmetry. apply skipn_repeat. }
  rewrite (map_to_signed_ones _ _ Hw). rewrite (to_signed_id _ _ Hw) by lia.
  destruct (Z.eqb_spec (zlen shape) 0); [lia|].
  assert (S1 : py_slice1 (zlen shape + 1) (zlen shape :: shape ++ repeat 1 (7 - length shape)) = shape).
  { unfold py_slice1. replace (zlen (zlen shape :: shape ++ repeat 1 (7 - length shape))) with 8
      by (unfold zlen in *; cbn [length]; rewrite app_length, repeat_length; lia).
    destruct (Z.ltb_spec (zlen shape + 1) 0); [lia|]. rewrite Z.min_l by lia.
    destruct (Z.leb_spec (zlen shape + 1) 1); [lia|].
    replace (zlen shape + 1 - 1) with (zlen shape) by lia.
    change (drop 1 (zlen shape :: shape ++ repeat 1 (7 - length shape))) with (shape ++ repeat 1 (7 - length shape)).
    apply take_app_exact. }
  rewrite S1. destruct (is_nifti1 c); [|reflexivity].
  rewrite (prefix3_false_ge shape (-1) 1 1 Hr) by lia. now rewrite H27.
Qed.

Lemma family_has_dim c : analyze_family c = true -> memZ f_dim (map fid (layout_of c)) = true
  /\ memZ f_pixdim (map fid (layout_of c)) = true.
Proof. destruct c; try discriminate; intros _; vm_compute; split; reflexivity. Qed.

Lemma obj_keys_after_mapping src dst h :
  map fst (clean_after_mapping dst (apply_mapping (layout_of src) (layout_of dst) h (default_hdr dst)))
  = map fid (layout_of dst).
Proof.
  unfold clean_after_mapping. destruct (is_nifti dst); rewrite ?setf_keys, apply_mapping_keys; apply default_keys.
Qed.

(* dst.from_header(src, check=False) keeps the shape (shapes without FreeSurfer conventions) *)
Lemma convert_preserves_shape src dst h h' shape : analyze_family dst = true ->
  from_header src dst false h = COk h' -> get_shape src h = COk shape -> plain_shape shape ->
  get_shape dst h' = COk shape.
Proof.
  intros Hfam H Hs Hp. unfold from_header in H.
  destruct (negb (dim0_in_scope src h)); [discriminate|].
  set (obj0 := clean_after_mapping dst (apply_mapping (layout_of src) (layout_of dst) h (default_hdr dst))) in *.
  destruct (set_dtype src dst (sval 2 (getf f_datatype h)) obj0) as [obj1|] eqn:E1; [|discriminate].
  rewrite Hs in H. rewrite (set_shape_is_plain dst shape obj1 Hp) in H.
  unfold set_shape_plain in H. destruct (negb (all (fits_signed (dim_w dst)) shape) || (7 <? zlen shape)); [discriminate|].
  cbv zeta in H.
  match type of H with
  | match set_zooms ?c ?w ?z ?o with _ => _ end = _ => destruct (set_zooms c w z o) as [obj3|] eqn:E3; [|discriminate]
  end.
  inversion H; subst h'. clear H.
  assert (K1 : map fst obj1 = map fid (layout_of dst)).
  { unfold set_dtype in E1. destruct (lookup _ (dtcodes_of src)); [|discriminate].
    destruct (lookup _ (dtcodes_of dst)); [|discriminate]. destruct (_ =? 0); [discriminate|].
    inversion E1; subst. rewrite !setf_keys. apply obj_keys_after_mapping. }
  assert (Hd : hasf f_dim obj1 = true) by (rewrite hasf_keys, K1; apply (family_has_dim dst Hfam)).
  apply get_shape_of_dims; [assumption|assumption|].
  unfold set_zooms in E3. repeat (destruct (_ : bool) in E3; try discriminate). inversion E3; subst obj3. clear E3.
  rewrite getf_setf_other by ids_neq. rewrite getf_setf_other by ids_neq.
  rewrite getf_setf_same by assumption.
  cbn [put_from]. now rewrite map_length.
Qed.

Lemma zlen_nn {A} (l : list A) : 0 <= zlen l.
Proof. unfold zlen. lia. Qed.

Lemma py_slice1_cons n x (zs rest : list Z) : zlen zs = n -> 0 < n ->
  py_slice1 (n + 1) (x :: zs ++ rest) = zs.
Proof.
  intros Hl Hn. unfold py_slice1.
  assert (L : zlen (x :: zs ++ rest) = 1 + n + zlen rest) by (unfold zlen in *; cbn [length]; rewrite app_length; lia).
  rewrite L. pose proof (zlen_nn rest).
  destruct (Z.ltb_spec (n + 1) 0); [lia|]. rewrite Z.min_l by lia. destruct (Z.leb_spec (n + 1) 1); [lia|].
  replace (n + 1 - 1) with n by lia. change (drop 1 (x :: zs ++ rest)) with (zs ++ rest).
  rewrite <- Hl. apply take_app_exact.
Qed.

(* ... and the zooms, cast to the destination's float width *)
Lemma convert_preserves_zooms src dst h h' shape : analyze_family src = true -> analyze_family dst = true ->
  hdr_fits (layout_of src) h = true ->
  from_header src dst false h = COk h' -> get_shape src h = COk shape -> plain_shape shape ->
  get_zooms dst h' = map (f_cast (pix_w src) (pix_w dst)) (get_zooms src h).
Proof.
  intros Hfs Hfam Hfit H Hs Hp. pose proof Hp as (Hne & Hlen & Hr & H27). unfold from_header in H.
  destruct (negb (dim0_in_scope src h)); [discriminate|].
  set (obj0 := clean_after_mapping dst (apply_mapping (layout_of src) (layout_of dst) h (default_hdr dst))) in *.
  destruct (set_dtype src dst (sval 2 (getf f_datatype h)) obj0) as [obj1|] eqn:E1; [|discriminate].
  rewrite Hs in H. rewrite (set_shape_is_plain dst shape obj1 Hp) in H.
  unfold set_shape_plain in H. destruct (negb (all (fits_signed (dim_w dst)) shape) || (7 <? zlen shape)); [discriminate|].
  cbv zeta in H.
  match type of H with
  | match set_zooms ?c ?w ?z ?o with _ => _ end = _ => destruct (set_zooms c w z o) as [obj3|] eqn:E3; [|discriminate]
  end.
  inversion H; subst h'. clear H.
  assert (K0 : map fst obj0 = map fid (layout_of dst)) by apply obj_keys_after_mapping.
  assert (G1 : forall i, i <> f_bitpix -> i <> f_datatype -> getf i obj1 = getf i obj0 /\ hasf i obj1 = hasf i obj0).
  { intros i N1 N2. unfold set_dtype in E1. destruct (lookup _ (dtcodes_of src)); [|discriminate].
    destruct (lookup _ (dtcodes_of dst)); [|discriminate]. destruct (_ =? 0); [discriminate|].
    inversion E1; subst. rewrite !getf_setf_other, !hasf_setf by assumption. now split. }
  destruct (family_has_dim dst Hfam) as [Md Mp]. destruct (family_has_dim src Hfs) as [_ Mps].
  assert (Hd : hasf f_dim obj1 = true) by (rewrite (proj2 (G1 f_dim ltac:(ids_neq) ltac:(ids_neq))), hasf_keys, K0; exact Md).
  assert (Hpx : hasf f_pixdim obj1 = true) by (rewrite (proj2 (G1 f_pixdim ltac:(ids_neq) ltac:(ids_neq))), hasf_keys, K0; exact Mp).
  (* the source's pixdim was copied: at least 4 items *)
  assert (Pne : exists x0 rest, getf f_pixdim obj1 = x0 :: rest).
  { rewrite (proj1 (G1 f_pixdim ltac:(ids_neq) ltac:(ids_neq))).
    destruct (memZ_find _ _ Mps) as [fs Es]. destruct (memZ_find _ _ Mp) as [fd Ed].
    assert (E0 : getf f_pixdim obj0 = map (cast_field fs fd) (getf f_pixdim h)).
    { unfold obj0, clean_after_mapping. destruct (is_nifti dst); rewrite ?getf_setf_other by ids_neq;
        (rewrite (apply_mapping_get _ _ f_pixdim fs fd Es Ed);
         [rewrite hasf_keys, (hdr_fits_keys _ _ Hfit), Mps; reflexivity
         |rewrite (hdr_fits_keys _ _ Hfit); apply (wf_offsets _ (layouts_wf src))
         |rewrite hasf_keys, default_keys; exact Mp]). }
    rewrite E0. pose proof (hdr_fits_len _ _ _ _ Hfit Es) as L. pose proof (pix_count_ge4 src fs Es).
    destruct (getf f_pixdim h) as [|a l]; [simpl in L; lia|]. cbn [map]. eauto. }
  destruct Pne as (x0 & rest & Ep).
  unfold set_zooms in E3.
  set (dims := put_from 1 (map (of_signed (dim_w dst)) shape) (zlen shape :: repeat 1 7)) in *.
  assert (Dm : getf f_dim (setf f_pixdim (firstn (S (length shape)) (getf f_pixdim obj1) ++
                 map (fun _ => f_one (pix_w dst)) (skipn (S (length shape)) (getf f_pixdim obj1))) (setf f_dim dims obj1)) = dims)
    by (rewrite getf_setf_other by ids_neq; now apply getf_setf_same).
  rewrite Dm in E3.
  assert (Nd : sval (dim_w dst) dims = zlen shape).
  { unfold dims, sval. cbn [put_from hd]. apply to_signed_id; [now apply dim_w_family|]. pose proof (zlen_nn shape). lia. }
  rewrite Nd in E3.
  destruct (Z.eqb_spec (zlen (get_zooms src h)) (zlen shape)) as [Lz|]; [|discriminate]. cbn [negb] in E3.
  destruct (any _ _); [discriminate|]. inversion E3; subst obj3. clear E3.
  unfold get_zooms at 1.
  rewrite !(getf_setf_other f_dim f_pixdim) by ids_neq. rewrite (getf_setf_same f_dim) by exact Hd. rewrite Nd.
  assert (Hn : 0 < zlen shape) by (destruct shape; [congruence|unfold zlen; cbn [length]; lia]).
  destruct (Z.eqb_spec (zlen shape) 0); [lia|].
  rewrite (getf_setf_same f_pixdim) by (rewrite !hasf_setf; exact Hpx).
  rewrite (getf_setf_same f_pixdim) by (rewrite hasf_setf; exact Hpx).
  rewrite Ep. cbv iota. cbn [app put_from]. apply py_slice1_cons; [|exact Hn].
  unfold zlen in *. now rewrite map_length.
Qed.

(* ================================================================== copies are independent *)
Lemma nth_upd_same {A} n (x d : A) l : (n < length l)%nat -> nth n (upd_nth n x l) d = x.
Proof. revert l; induction n as [|n IH]; intros [|y l] H; simpl in *; try lia; [reflexivity|apply IH; lia]. Qed.
Lemma nth_upd_other {A} n k (x d : A) l : n <> k -> nth k (upd_nth n x l) d = nth k l d.
Proof.
  revert k l; induction n as [|n IH]; intros k [|y l] H; simpl; try reflexivity.
  - destruct k; [congruence|reflexivity].
  - destruct k; [reflexivity|]. apply IH. congruence.
Qed.
Lemma upd_nth_length {A} n (x : A) l : length (upd_nth n x l) = length l.
Proof. revert l; induction n as [|n IH]; intros [|y l]; simpl; auto. Qed.

Lemma mutate_view_self s r m : ref_ok s r -> view (mutate s r m) r = mutated_view (view s r) m.
Proof.
  intros [Hb He]. unfold view. destruct m; cbn [mutate mutated_view s_bufs s_lists];
    rewrite ?nth_upd_same by assumption; reflexivity.
Qed.

Lemma mutate_view_other s r r' m : r_buf r' <> r_buf r -> r_exts r' <> r_exts r ->
  view (mutate s r m) r' = view s r'.
Proof.
  intros Hb He. unfold view. destruct m; cbn [mutate s_bufs s_lists];
    rewrite ?nth_upd_other by congruence; reflexivity.
Qed.

Lemma mutate_ok s r r' m : ref_ok s r' -> ref_ok (mutate s r m) r'.
Proof. intros [A B]. unfold ref_ok. destruct m; cbn [mutate s_bufs s_lists]; rewrite ?upd_nth_length; split; assumption. Qed.

(* a copy gets fresh ids, shows the same contents, leaves every existing object as it was, and no
   sequence of mutations through either of the two ever shows through the other *)
Lemma copy_fresh s r : ref_ok s r ->
  let (s', r') := copy_ref s r in
  r_buf r' <> r_buf r /\ r_exts r' <> r_exts r /\ ref_ok s' r' /\ ref_ok s' r
  /\ view s' r' = view s r /\ (forall q, ref_ok s q -> view s' q = view s q /\ r_buf r' <> r_buf q /\ r_exts r' <> r_exts q).
Proof.
  intros [Hb He]. unfold copy_ref, new_header. cbn [r_buf r_exts r_be].
  repeat split; cbn [s_bufs s_lists r_buf r_exts]; rewrite ?app_length; cbn [length]; try lia.
  - unfold view. cbn [s_bufs s_lists r_buf r_exts r_be].
    rewrite !app_nth2, !Nat.sub_diag by lia. reflexivity.
  - destruct H as [Qb Qe]. unfold view. cbn [s_bufs s_lists]. now rewrite !app_nth1 by assumption.
  - destruct H. lia.
  - destruct H. lia.
Qed.

Fixpoint mutate_all (s : store) (ms : list (bool * mutation)) (r r' : href) : store :=
  match ms with
  | [] => s
  | (true, m) :: t => mutate_all (mutate s r m) t r r'       (* through the original *)
  | (false, m) :: t => mutate_all (mutate s r' m) t r r'     (* through the copy *)
  end.
Fixpoint apply_own (v : bool * list Z * list extn) (who : bool) (ms : list (bool * mutation)) :=
  match ms with
  | [] => v
  | (w, m) :: t => apply_own (if Bool.eqb w who then mutated_view v m else v) who t
  end.

Lemma copy_independent s r ms : ref_ok s r ->
  let (s', r') := copy_ref s r in
  view (mutate_all s' ms r r') r = apply_own (view s r) true ms
  /\ view (mutate_all s' ms r r') r' = apply_own (view s r) false ms.
Proof.
  intros Hok. pose proof (copy_fresh s r Hok) as F. destruct (copy_ref s r) as [s' r'].
  destruct F as (Nb & Ne & Ok' & Ok & V' & Hq). destruct (Hq r Hok) as [V _]. rewrite <- V' at 2. rewrite <- V.
  clear V V' Hq Hok. revert s' Ok' Ok. induction ms as [|[w m] t IH]; intros s' Ok' Ok; [split; reflexivity|].
  destruct w; cbn [mutate_all apply_own Bool.eqb].
  - destruct (IH (mutate s' r m) (mutate_ok _ _ _ _ Ok') (mutate_ok _ _ _ _ Ok)) as [A B].
    rewrite A, B. rewrite mutate_view_self by assumption. rewrite mutate_view_other by congruence. split; reflexivity.
  - destruct (IH (mutate s' r' m) (mutate_ok _ _ _ _ Ok') (mutate_ok _ _ _ _ Ok)) as [A B].
    rewrite A, B. rewrite mutate_view_self by assumption. rewrite mutate_view_other by congruence. split; reflexivity.
Qed.

(* ================================================================== conversions with check=True *)
Definition repaired_fields : list Z :=
  [f_sizeof_hdr; f_bitpix; f_pixdim; f_vox_offset; f_qform_code; f_sform_code; f_eol_check; f_version].

Lemma writeback_other v h i : memZ i repaired_fields = false -> getf i (writeback v h) = getf i h.
Proof.
  intros H. assert (N : forall j, In j repaired_fields -> i <> j) by (intros j Hj; eapply memZ_false_neq; eauto).
  unfold writeback. rewrite !getf_setf_other by (apply N; simpl; tauto). reflexivity.
Qed.

Lemma check_hdr_other c f h h' rs i : check_hdr c f h = Some (h', rs) -> memZ i repaired_fields = false ->
  getf i h' = getf i h.
Proof.
  unfold check_hdr. destruct (run_checks _ _ _ _) as [[v r]|]; [|discriminate]. intros E Hi.
  inversion E; subst. now apply writeback_other.
Qed.

(* from_header(check=True) = from_header(check=False), then check_fix, refused when a report reaches level 40 *)
Lemma from_header_check_split src dst h h' : from_header src dst true h = COk h' ->
  exists h0 rs, from_header src dst false h = COk h0 /\ check_hdr dst true h0 = Some (h', rs)
    /\ existsb (fun r : report => 40 <=? fst (fst r)) rs = false.
Proof.
  unfold from_header. destruct (negb (dim0_in_scope src h)); [discriminate|].
  destruct (set_dtype _ _ _ _) as [o1|]; [|discriminate]. destruct (get_shape src h) as [sh|]; [|discriminate].
  destruct (set_shape dst sh o1) as [o2|]; [|discriminate].
  destruct (set_zooms _ _ _ o2) as [o3|]; [|discriminate].
  destruct (check_hdr dst true o3) as [[o4 rs]|] eqn:C; [|discriminate].
  destruct (existsb _ rs) eqn:X; [discriminate|]. intros E. inversion E; subst.
  exists o3, rs. repeat split; assumption.
Qed.

Lemma get_shape_ext c h1 h2 : getf f_dim h1 = getf f_dim h2 -> getf f_glmin h1 = getf f_glmin h2 ->
  get_shape c h1 = get_shape c h2.
Proof. intros A B. unfold get_shape. now rewrite A, B. Qed.

(* ================================================================== conversions: any shape, FreeSurfer conventions *)
Definition storable (w : nat) (shape : list Z) : Prop :=
  shape <> [] /\ zlen shape <= 7 /\ Forall (fun x => fits_signed w x = true) shape.

Lemma map_to_of_signed_fits w shape : (w = 2 \/ w = 8)%nat -> Forall (fun x => fits_signed w x = true) shape ->
  map (to_signed w) (map (of_signed w) shape) = shape.
Proof.
  intros Hw H. induction H as [|x l Hx Hl IH]; [reflexivity|]. cbn [map]. rewrite IH. f_equal.
  apply to_of_signed; [destruct Hw; lia|]. unfold fits_signed in Hx. lia.
Qed.

(* what AnalyzeHeader.get_data_shape reads from a dim field written by set_data_shape *)
Definition raw_shape (c : hclass) (h : hdr) : list Z :=
  let dims := map (to_signed (dim_w c)) (getf f_dim h) in
  if hd 0 dims =? 0 then [0] else py_slice1 (hd 0 dims + 1) dims.

Lemma raw_shape_of_dims c h shape : analyze_family c = true -> storable (dim_w c) shape ->
  getf f_dim h = zlen shape :: map (of_signed (dim_w c)) shape ++ skipn (length shape) (repeat 1 7) ->
  raw_shape c h = shape.
Proof.
  intros Hf (Hne & Hlen & Hr) Hd. pose proof (dim_w_family c Hf) as Hw.
  assert (Hn : 0 < zlen shape) by (destruct shape; [congruence|unfold zlen; cbn [length]; lia]).
  unfold raw_shape. rewrite Hd. cbn [map hd]. rewrite map_app, (map_to_of_signed_fits _ _ Hw Hr).
  rewrite skipn_repeat, (map_to_signed_ones _ _ Hw). rewrite (to_signed_id _ _ Hw) by lia.
  destruct (Z.eqb_spec (zlen shape) 0); [lia|].
  unfold py_slice1. replace (zlen (zlen shape :: shape ++ repeat 1 (7 - length shape))) with 8
    by (unfold zlen in *; cbn [length]; rewrite app_length, repeat_length; lia).
  destruct (Z.ltb_spec (zlen shape + 1) 0); [lia|]. rewrite Z.min_l by lia.
  destruct (Z.leb_spec (zlen shape + 1) 1); [lia|].
  replace (zlen shape + 1 - 1) with (zlen shape) by lia.
  change (drop 1 (zlen shape :: shape ++ repeat 1 (7 - length shape))) with (shape ++ repeat 1 (7 - length shape)).
  apply take_app_exact.
Qed.

Lemma get_shape_raw c h : get_shape c h =
  let shape := raw_shape c h in
  if is_nifti1 c then
    if prefix3 shape (-1) 1 1 then
      let vl := sval 4 (getf f_glmin h) in
      if vl =? 0 then CErr ErrShape else COk (vl :: 1 :: 1 :: skipn 3 shape)
    else if prefix3 shape 27307 1 6 then COk (163842 :: 1 :: 1 :: skipn 3 shape)
    else COk shape
  else COk shape.
Proof. reflexivity. Qed.

Lemma all_fits_forall w shape : all (fits_signed w) shape = true -> Forall (fun x => fits_signed w x = true) shape.
Proof. unfold all. rewrite forallb_forall. intros H. apply Forall_forall. exact H. Qed.

Lemma set_shape_plain_spec c stored o o2 : analyze_family c = true -> hasf f_dim o = true -> stored <> [] ->
  set_shape_plain c stored o = COk o2 ->
  raw_shape c o2 = stored /\ getf f_glmin o2 = getf f_glmin o.
Proof.
  intros Hf Hd Hne H. unfold set_shape_plain in H.
  destruct (all (fits_signed (dim_w c)) stored) eqn:A; [|discriminate]. cbn [negb orb] in H.
  destruct (Z.ltb_spec 7 (zlen stored)); [discriminate|]. inversion H; subst o2. clear H. split.
  - apply raw_shape_of_dims; [assumption|repeat split; [assumption|lia|now apply all_fits_forall]|].
    rewrite getf_setf_other by ids_neq. rewrite getf_setf_same by assumption. cbn [put_from]. now rewrite map_length.
  - now rewrite !getf_setf_other by ids_neq.
Qed.

Definition readable (c : hclass) (shape : list Z) : Prop :=
  is_nifti1 c = true -> prefix3 shape (-1) 1 1 = false /\ prefix3 shape 27307 1 6 = false.

(* set_data_shape then get_data_shape, with the FreeSurfer large-vector (dim[1] = -1, length in glmin) and
   ico7 (163842 = 27307 x 6) conventions of NIfTI-1 *)
Lemma set_get_shape c shape o o2 : analyze_family c = true -> hasf f_dim o = true ->
  (is_nifti1 c = true -> hasf f_glmin o = true) -> shape <> [] -> readable c shape ->
  set_shape c shape o = COk o2 -> get_shape c o2 = COk shape.
Proof.
  intros Hf Hd Hg Hne Hrd H. rewrite get_shape_raw. cbv zeta. unfold set_shape in H.
  destruct (is_nifti1 c) eqn:N.
  2:{ destruct (set_shape_plain_spec c shape o o2 Hf Hd Hne H) as [R _]. now rewrite R. }
  destruct (Hrd N) as [Hm1 H27]. specialize (Hg eq_refl).
  destruct (prefix3 shape 163842 1 1) eqn:P.
  - (* ico7 *)
    destruct shape as [|x [|y [|z r]]]; try discriminate. cbn [prefix3] in P.
    apply andb_prop in P as [P Pz]. apply andb_prop in P as [Px Py].
    apply Z.eqb_eq in Px, Py, Pz. subst. cbn [skipn] in H.
    destruct (set_shape_plain_spec c (27307 :: 1 :: 6 :: r) o o2 Hf Hd ltac:(discriminate) H) as [R _].
    rewrite R. reflexivity.
  - assert (Plain : set_shape_plain c shape o = COk o2 -> raw_shape c o2 = shape ->
                    (if prefix3 (raw_shape c o2) (-1) 1 1 then
                       if sval 4 (getf f_glmin o2) =? 0 then CErr ErrShape
                       else COk (sval 4 (getf f_glmin o2) :: 1 :: 1 :: skipn 3 (raw_shape c o2))
                     else if prefix3 (raw_shape c o2) 27307 1 6 then COk (163842 :: 1 :: 1 :: skipn 3 (raw_shape c o2))
                     else COk (raw_shape c o2)) = COk shape)
      by (intros _ R; rewrite R, Hm1, H27; reflexivity).
    destruct shape as [|x [|y [|z r]]];
      try (destruct (set_shape_plain_spec c _ o o2 Hf Hd Hne H) as [R _]; now apply Plain).
    + destruct y as [|p|p]; try (destruct (set_shape_plain_spec c _ o o2 Hf Hd Hne H) as [R _]; now apply Plain).
      destruct p; (destruct (set_shape_plain_spec c _ o o2 Hf Hd Hne H) as [R _]; now apply Plain).
    + destruct y as [|p|p]; try (destruct (set_shape_plain_spec c _ o o2 Hf Hd Hne H) as [R _]; now apply Plain).
      destruct p; try (destruct (set_shape_plain_spec c _ o o2 Hf Hd Hne H) as [R _]; now apply Plain).
      destruct z as [|q|q]; try (destruct (set_shape_plain_spec c _ o o2 Hf Hd Hne H) as [R _]; now apply Plain).
      destruct q; try (destruct (set_shape_plain_spec c _ o o2 Hf Hd Hne H) as [R _]; now apply Plain).
      destruct (pow256 (dim_w c) / 2 - 1 <? x) eqn:Big;
        [|destruct (set_shape_plain_spec c _ o o2 Hf Hd Hne H) as [R _]; now apply Plain].
      (* large vector *)
      destruct (fits_signed 4 x) eqn:F4; [|discriminate].
      assert (Hd' : hasf f_dim (setf f_glmin [of_signed 4 x] o) = true) by now rewrite hasf_setf.
      destruct (set_shape_plain_spec c (-1 :: 1 :: 1 :: r) _ o2 Hf Hd' ltac:(discriminate) H) as [R G].
      rewrite R. cbn [prefix3 Z.eqb Pos.eqb andb skipn]. rewrite G, getf_setf_same by assumption.
      assert (X : sval 4 [of_signed 4 x] = x).
      { unfold sval. cbn [hd]. apply to_of_signed; [lia|]. unfold fits_signed in F4. lia. }
      rewrite X. rewrite (dim_w_nifti1 c N) in Big. change (pow256 2 / 2 - 1) with 32767 in Big.
      destruct (Z.eqb_spec x 0); [lia|reflexivity].
Qed.

Lemma nifti1_has_glmin c : is_nifti1 c = true -> memZ f_glmin (map fid (layout_of c)) = true.
Proof. destruct c; try discriminate; intros _; vm_compute; reflexivity. Qed.

(* dst.from_header(src, check=False) keeps the shape: EVERY shape, including those stored with the
   FreeSurfer conventions, except (NIfTI-1 destination) shapes that NIfTI-1 cannot tell from a
   convention: (-1, 1, 1, ...) and (27307, 1, 6, ...) *)
Lemma convert_preserves_shape_any src dst h h' shape : analyze_family dst = true ->
  from_header src dst false h = COk h' -> get_shape src h = COk shape -> shape <> [] -> readable dst shape ->
  get_shape dst h' = COk shape.
Proof.
  intros Hfam H Hs Hne Hrd. unfold from_header in H.
  destruct (negb (dim0_in_scope src h)); [discriminate|].
  set (obj0 := clean_after_mapping dst (apply_mapping (layout_of src) (layout_of dst) h (default_hdr dst))) in *.
  destruct (set_dtype src dst (sval 2 (getf f_datatype h)) obj0) as [obj1|] eqn:E1; [|discriminate].
  rewrite Hs in H. destruct (set_shape dst shape obj1) as [obj2|] eqn:E2; [|discriminate].
  destruct (set_zooms dst (pix_w src) (get_zooms src h) obj2) as [obj3|] eqn:E3; [|discriminate].
  inversion H; subst h'. clear H.
  assert (K1 : map fst obj1 = map fid (layout_of dst)).
  { unfold set_dtype in E1. destruct (lookup _ (dtcodes_of src)); [|discriminate].
    destruct (lookup _ (dtcodes_of dst)); [|discriminate]. destruct (_ =? 0); [discriminate|].
    inversion E1; subst. rewrite !setf_keys. apply obj_keys_after_mapping. }
  assert (G : get_shape dst obj3 = get_shape dst obj2).
  { unfold set_zooms in E3. repeat (destruct (_ : bool) in E3; try discriminate). inversion E3; subst.
    apply get_shape_ext; apply getf_setf_other; ids_neq. }
  rewrite G. apply (set_get_shape dst shape obj1 obj2); try assumption.
  - rewrite hasf_keys, K1. apply (family_has_dim dst Hfam).
  - intros N. rewrite hasf_keys, K1. now apply nifti1_has_glmin.
Qed.

(* ================================================================== written headers carry their signature *)
Lemma enc_elems_ok be w vs : bytes_ok (enc_elems be w vs).
Proof. unfold enc_elems. induction vs as [|v vs IH]; cbn [flat_map]; [constructor|]. apply bytes_ok_app; [apply enc_ok|exact IH]. Qed.
Lemma encode_bytes_ok L be : forall h, bytes_ok (encode_struct L be h).
Proof.
  induction L as [|f L IH]; intros [|[k vs] h]; cbn [encode_struct]; try constructor.
  apply bytes_ok_app; [apply enc_elems_ok|apply IH].
Qed.

(* the bytes of a field in the serialised header are the encodings of its values *)
Lemma field_bytes_of_encode c be h f : hdr_fits (layout_of c) h = true -> In f (layout_of c) ->
  firstn (fwidth f * fcount f) (skipn (Z.to_nat (foff f)) (encode_struct (layout_of c) be h))
  = enc_elems be (fwidth f) (getf (fid f) h).
Proof.
  intros Hfit Hin. set (b := encode_struct (layout_of c) be h).
  destruct (class_decode_encode c be h Hfit) as [D L]. fold b in D, L.
  pose proof (class_field_at_offset c be b f Hin) as A. rewrite D in A. rewrite A.
  symmetry. apply enc_dec_elems; [apply bytes_ok_skipn, encode_bytes_ok|].
  rewrite skipn_length.
  (* the field lies inside the block *)
  assert (Hend : foff f + Z.of_nat (fwidth f * fcount f) <= size_of c /\ 0 <= foff f).
  { rewrite <- layouts_size. destruct (wf_offsets _ (layouts_wf c)) as [Ho _]. clear - Ho Hin.
    assert (G : forall L pos, offsets_ok pos L = true -> In f L -> 0 <= pos ->
                foff f + Z.of_nat (fsize f) <= pos + layout_size L /\ 0 <= foff f).
    { induction L as [|g L IH]; intros pos H Hi Hp; [destruct Hi|]. cbn [offsets_ok] in H.
      apply andb_prop in H as [H1 H2]. apply Z.eqb_eq in H1. rewrite layout_size_cons.
      pose proof (layout_size_nonneg L). destruct Hi as [->|Hi]; [lia|].
      destruct (IH _ H2 Hi ltac:(lia)). lia. }
    destruct (G _ 0 Ho Hin ltac:(lia)). unfold fsize in *. lia. }
  unfold zlen in L. lia.
Qed.

Lemma apply_writes_get c ws : forall h i, memZ i (protected_fields c) = true ->
  Forall (fun w => allowed_write c w = true) ws -> getf i (apply_writes ws h) = getf i h.
Proof.
  induction ws as [|[j vs] ws IH]; intros h i Hp Hw; [reflexivity|]. inversion Hw as [|? ? Hj Hws]; subst.
  cbn [apply_writes fold_left fst snd]. fold (apply_writes ws (setf j vs h)). rewrite IH by assumption.
  apply getf_setf_other. cbn [allowed_write] in Hj. apply andb_prop in Hj as [Hj _]. apply negb_true_iff in Hj.
  intros E. subst. congruence.
Qed.

Lemma apply_writes_fits c ws : forall h, hdr_fits (layout_of c) h = true ->
  Forall (fun w => allowed_write c w = true) ws -> hdr_fits (layout_of c) (apply_writes ws h) = true.
Proof.
  induction ws as [|[j vs] ws IH]; intros h Hf Hw; [exact Hf|]. inversion Hw as [|? ? Hj Hws]; subst.
  cbn [apply_writes fold_left fst snd]. fold (apply_writes ws (setf j vs h)). apply IH; [|assumption].
  apply hdr_fits_setf; [assumption|]. intros f Ef. cbn [allowed_write] in Hj. rewrite Ef in Hj.
  apply andb_prop in Hj as [_ Hj]. apply andb_prop in Hj as [Hj _]. unfold vals_fitb in Hj.
  apply andb_prop in Hj as [A B]. apply Nat.eqb_eq in A. split; [exact A|now apply forallb_in_range].
Qed.

Lemma apply_writes_xform c ws i : forall h, (i = f_qform_code \/ i = f_sform_code) ->
  Forall (fun w => allowed_write c w = true) ws ->
  (forall v, In v (getf i h) -> memZ (to_signed (fwidth_of c i) v) (xform_codes_of c) = true) ->
  forall v, In v (getf i (apply_writes ws h)) -> memZ (to_signed (fwidth_of c i) v) (xform_codes_of c) = true.
Proof.
  induction ws as [|[j vs] ws IH]; intros h Hi Hw H0; [exact H0|]. inversion Hw as [|? ? Hj Hws]; subst.
  cbn [apply_writes fold_left fst snd]. fold (apply_writes ws (setf j vs h)). apply IH; [assumption|assumption|].
  intros v Hv. destruct (Z.eq_dec j i) as [->|Ne].
  - rewrite getf_setf_gen in Hv. destruct (hasf i h); [|destruct Hv].
    cbn [allowed_write] in Hj. apply andb_prop in Hj as [_ Hj]. unfold fwidth_of.
    destruct (find_field i (layout_of c)) as [f|]; [|discriminate]. apply andb_prop in Hj as [_ Hj].
    assert (X : (i =? f_qform_code) || (i =? f_sform_code) = true) by (destruct Hi as [->| ->]; rewrite Z.eqb_refl; auto using orb_true_r).
    rewrite X in Hj. cbn [negb orb] in Hj. rewrite forallb_forall in Hj. now apply Hj.
  - rewrite getf_setf_other in Hv by congruence. now apply H0.
Qed.

Lemma default_fits c : hdr_fits (layout_of c) (default_hdr c) = true.
Proof. destruct c; vm_compute; reflexivity. Qed.

Lemma take_drop_firstn_skipn {A} n k (l : list A) : 0 <= n -> 0 <= k -> take n (drop k l) = firstn (Z.to_nat n) (skipn (Z.to_nat k) l).
Proof. reflexivity. Qed.

Definition final_hdr (c : hclass) (ws : list (Z * list Z)) : hdr := finalise c (apply_writes ws (default_hdr c)).
Definition enc_order (c : hclass) (be : bool) : bool := match c with Mgh => true | _ => be end.

Lemma magic_fits c f : is_nifti c = true -> find_field f_magic (layout_of c) = Some f ->
  vals_fit f (fcount f) (pad_to 4 (if is_single_of c then single_magic_of c else pair_magic_of c)).
Proof.
  intros N E. destruct c; try discriminate; vm_compute in E; inversion E; subst; split; try reflexivity;
    repeat (apply Forall_cons; [unfold in_range; vm_compute; split; [discriminate|reflexivity]|]); apply Forall_nil.
Qed.

Lemma final_fits c ws : Forall (fun w => allowed_write c w = true) ws -> hdr_fits (layout_of c) (final_hdr c ws) = true.
Proof.
  intros Hw. unfold final_hdr, finalise. pose proof (apply_writes_fits c ws _ (default_fits c) Hw) as F.
  destruct (is_nifti c) eqn:N; [|exact F]. apply hdr_fits_setf; [exact F|]. intros f E. now apply magic_fits.
Qed.

Lemma written_field c be ws f : Forall (fun w => allowed_write c w = true) ws -> In f (layout_of c) ->
  take (Z.of_nat (fwidth f * fcount f)) (drop (foff f) (written c be ws))
  = enc_elems (enc_order c be) (fwidth f) (getf (fid f) (final_hdr c ws)).
Proof.
  intros Hw Hin. unfold take, drop, written. rewrite Nat2Z.id. fold (final_hdr c ws). fold (enc_order c be).
  apply field_bytes_of_encode; [now apply final_fits|assumption].
Qed.

Lemma written_length c be ws : Forall (fun w => allowed_write c w = true) ws -> zlen (written c be ws) = size_of c.
Proof.
  intros Hw. unfold written. fold (final_hdr c ws).
  exact (proj2 (class_decode_encode c _ _ (final_fits c ws Hw))).
Qed.

Lemma final_protected c ws i : Forall (fun w => allowed_write c w = true) ws ->
  memZ i (protected_fields c) = true -> i <> f_magic -> getf i (final_hdr c ws) = getf i (default_hdr c).
Proof.
  intros Hw Hp Hm. unfold final_hdr, finalise. destruct (is_nifti c); [rewrite getf_setf_other by assumption|];
    now apply (apply_writes_get c).
Qed.

Lemma final_keys c ws : map fst (final_hdr c ws) = map fid (layout_of c).
Proof.
  unfold final_hdr, finalise. assert (K : forall h, map fst (apply_writes ws h) = map fst h).
  { induction ws as [|w ws IH]; intros h; [reflexivity|]. cbn [apply_writes fold_left]. fold (apply_writes ws (setf (fst w) (snd w) h)).
    now rewrite IH, setf_keys. }
  destruct (is_nifti c); rewrite ?setf_keys, K; apply default_keys.
Qed.

(* NIfTI-1 single / pair: 348 bytes with a NIfTI-1 magic at 344:348 *)
Lemma sig_nifti1 c be ws cf : is_nifti1 c = true -> Forall (fun w => allowed_write c w = true) ws ->
  signature c cf (written c be ws) = true.
Proof.
  intros N Hw.
  destruct (find_field f_magic (layout_of c)) as [f|] eqn:E; [|destruct c; discriminate].
  destruct (find_field_in _ _ _ E) as [Hin Eid].
  pose proof (written_field c be ws f Hw Hin) as B. pose proof (written_length c be ws Hw) as L.
  assert (G : getf f_magic (final_hdr c ws) = pad_to 4 (if is_single_of c then single_magic_of c else pair_magic_of c)).
  { unfold final_hdr, finalise. replace (is_nifti c) with true by (destruct c; try discriminate; reflexivity).
    apply getf_setf_same. rewrite hasf_keys.
    assert (K : forall h, map fst (apply_writes ws h) = map fst h).
    { clear. induction ws as [|w ws IH]; intros h; [reflexivity|]. cbn [apply_writes fold_left].
      fold (apply_writes ws (setf (fst w) (snd w) h)). now rewrite IH, setf_keys. }
    rewrite K, default_keys. destruct c; try discriminate; reflexivity. }
  rewrite Eid, G in B.
  destruct c; try discriminate; vm_compute in E; inversion E; subst f; cbn [fwidth fcount foff] in B;
    change (Z.of_nat (1 * 4)) with 4 in B; unfold signature, has_magic1; rewrite L, B;
    destruct be; vm_compute; reflexivity.
Qed.

(* Analyze / SPM99 / SPM2: 348 bytes, sizeof_hdr 348 in the header's byte order, bytes 344:348 (smin) are zero *)
Lemma sig_analyze c be ws cf : analyze_family c = true -> is_nifti c = false ->
  Forall (fun w => allowed_write c w = true) ws -> signature c cf (written c be ws) = true.
Proof.
  intros A N Hw.
  destruct (find_field f_sizeof_hdr (layout_of c)) as [fs|] eqn:Es; [|destruct c; discriminate].
  destruct (find_field f_smin (layout_of c)) as [fm|] eqn:Em; [|destruct c; discriminate].
  destruct (find_field_in _ _ _ Es) as [Hins Eis]. destruct (find_field_in _ _ _ Em) as [Hinm Eim].
  pose proof (written_field c be ws fs Hw Hins) as Bs. pose proof (written_field c be ws fm Hw Hinm) as Bm.
  pose proof (written_length c be ws Hw) as L.
  rewrite Eis in Bs. rewrite Eim in Bm.
  rewrite (final_protected c ws f_sizeof_hdr Hw) in Bs by (destruct c; try discriminate; reflexivity || ids_neq).
  rewrite (final_protected c ws f_smin Hw) in Bm by (destruct c; try discriminate; reflexivity || ids_neq).
  destruct c; try discriminate; vm_compute in Es, Em; inversion Es; inversion Em; subst fs fm;
    cbn [fwidth fcount foff] in Bs, Bm; change (Z.of_nat (4 * 1)) with 4 in Bs, Bm;
    change (drop 0 ?x) with x in Bs; unfold signature, has_magic1, sz_is; rewrite L, Bs, Bm;
    destruct be; vm_compute; reflexivity.
Qed.

Lemma sig_mgh be ws cf : Forall (fun w => allowed_write Mgh w = true) ws -> signature Mgh cf (written Mgh be ws) = true.
Proof.
  intros Hw. destruct (find_field f_version (layout_of Mgh)) as [f|] eqn:E; [|discriminate].
  destruct (find_field_in _ _ _ E) as [Hin Eid].
  pose proof (written_field Mgh be ws f Hw Hin) as B. rewrite Eid in B.
  rewrite (final_protected Mgh ws f_version Hw) in B by (reflexivity || ids_neq).
  vm_compute in E. inversion E; subst f. cbn [fwidth fcount foff] in B. change (Z.of_nat (4 * 1)) with 4 in B.
  change (drop 0 ?x) with x in B. unfold signature. rewrite B. vm_compute. reflexivity.
Qed.

Lemma singleton_of_len1 {A} (l : list A) : length l = 1%nat -> exists x, l = [x].
Proof. destruct l as [|x [|y l]]; try discriminate. intros _. now exists x. Qed.

Lemma default_qform_codes c : is_nifti c = true -> forall v, In v (getf f_qform_code (default_hdr c)) ->
  memZ (to_signed (fwidth_of c f_qform_code) v) (xform_codes_of c) = true.
Proof.
  intros N v Hv. assert (E : getf f_qform_code (default_hdr c) = [0]) by (destruct c; try discriminate; vm_compute; reflexivity).
  rewrite E in Hv. destruct Hv as [<-|[]]. destruct c; try discriminate; vm_compute; reflexivity.
Qed.

(* NIfTI-2 single / pair: 540 bytes, sizeof_hdr 540, bytes 344:348 hold qform_code (a recoder code,
   never a NIfTI-1 magic) *)
Lemma sig_nifti2 c be ws : is_nifti c = true -> is_nifti1 c = false ->
  Forall (fun w => allowed_write c w = true) ws ->
  signature c (n2_cifti (written c be ws)) (written c be ws) = true.
Proof.
  intros N N1 Hw.
  destruct (find_field f_sizeof_hdr (layout_of c)) as [fs|] eqn:Es; [|destruct c; discriminate].
  destruct (find_field f_qform_code (layout_of c)) as [fq|] eqn:Eq; [|destruct c; discriminate].
  destruct (find_field_in _ _ _ Es) as [Hins Eis]. destruct (find_field_in _ _ _ Eq) as [Hinq Eiq].
  pose proof (written_field c be ws fs Hw Hins) as Bs. pose proof (written_field c be ws fq Hw Hinq) as Bq.
  pose proof (written_length c be ws Hw) as L. rewrite Eis in Bs. rewrite Eiq in Bq.
  rewrite (final_protected c ws f_sizeof_hdr Hw) in Bs by (destruct c; try discriminate; reflexivity || ids_neq).
  (* qform_code holds one recoder code *)
  pose proof (final_fits c ws Hw) as Hfit.
  pose proof (hdr_fits_len _ _ _ _ Hfit Eq) as Lq. pose proof (hdr_fits_range _ _ _ _ Hfit Eq) as Rq.
  assert (Cq : forall v, In v (getf f_qform_code (final_hdr c ws)) ->
                         memZ (to_signed (fwidth_of c f_qform_code) v) (xform_codes_of c) = true).
  { unfold final_hdr, finalise. rewrite N. intros v. rewrite getf_setf_other by ids_neq.
    apply (apply_writes_xform c ws f_qform_code); [now left|assumption|].
    now apply default_qform_codes. }
  assert (Wq : fwidth fq = 4%nat /\ fcount fq = 1%nat /\ fwidth_of c f_qform_code = 4%nat /\ xform_codes_of c = [0; 1; 2; 3; 4; 5])
    by (destruct c; try discriminate; vm_compute in Eq; inversion Eq; subst; repeat split; reflexivity).
  destruct Wq as (W1 & W2 & W3 & W4). rewrite W2 in Lq. destruct (singleton_of_len1 _ Lq) as [v Ev].
  rewrite Ev in *. specialize (Cq v (or_introl eq_refl)). rewrite W3, W4 in Cq. inversion Rq as [|? ? Rv _]; subst.
  rewrite W1 in Rv. unfold in_range in Rv.
  assert (Hv : v = 0 \/ v = 1 \/ v = 2 \/ v = 3 \/ v = 4 \/ v = 5).
  { unfold to_signed in Cq. change (pow256 4 / 2) with 2147483648 in Cq. change (pow256 4) with 4294967296 in *.
    destruct (Z.ltb_spec v 2147483648).
    - cbn [memZ] in Cq. lia.
    - cbn [memZ] in Cq. lia. }
  destruct c; try discriminate; vm_compute in Es, Eq; inversion Es; inversion Eq; subst fs fq;
    cbn [fwidth fcount foff] in Bs, Bq; change (Z.of_nat (4 * 1)) with 4 in Bs, Bq;
    change (drop 0 ?x) with x in Bs; unfold signature, has_magic1, sz_is; rewrite L, Bs, Bq, Bool.eqb_reflx;
    destruct be; repeat (destruct Hv as [->|Hv]; [vm_compute; reflexivity|]); subst v; vm_compute; reflexivity.
Qed.

Lemma firstn_firstn_le {A} n m (l : list A) : (n <= m)%nat -> firstn n (firstn m l) = firstn n l.
Proof. intros H. rewrite firstn_firstn. f_equal. lia. Qed.

(* ... and the intent the CIFTI sniffer reads (in the byte order it guesses from dim[0]) is the header's
   intent_code, for every header with dim[0] in 0..7 *)
Lemma n2_cifti_spec c be ws : is_nifti c = true -> is_nifti1 c = false ->
  Forall (fun w => allowed_write c w = true) ws ->
  0 <= sval 8 (getf f_dim (final_hdr c ws)) <= 7 ->
  n2_cifti (written c be ws) = in_intervals (sval 4 (getf f_intent_code (final_hdr c ws))) cifti_intents.
Proof.
  intros N N1 Hw Hd.
  destruct (find_field f_sizeof_hdr (layout_of c)) as [fs|] eqn:Es; [|destruct c; discriminate].
  destruct (find_field f_dim (layout_of c)) as [fd|] eqn:Ed; [|destruct c; discriminate].
  destruct (find_field f_intent_code (layout_of c)) as [fi|] eqn:Ei; [|destruct c; discriminate].
  destruct (find_field_in _ _ _ Es) as [Hins Eis]. destruct (find_field_in _ _ _ Ed) as [Hind Eid].
  destruct (find_field_in _ _ _ Ei) as [Hini Eii].
  pose proof (written_field c be ws fs Hw Hins) as Bs. pose proof (written_field c be ws fd Hw Hind) as Bd.
  pose proof (written_field c be ws fi Hw Hini) as Bi. rewrite Eis in Bs. rewrite Eid in Bd. rewrite Eii in Bi.
  rewrite (final_protected c ws f_sizeof_hdr Hw) in Bs by (destruct c; try discriminate; reflexivity || ids_neq).
  pose proof (final_fits c ws Hw) as Hfit. pose proof (written_length c be ws Hw) as L.
  pose proof (hdr_fits_len _ _ _ _ Hfit Ed) as Ld. pose proof (hdr_fits_range _ _ _ _ Hfit Ed) as Rd.
  pose proof (hdr_fits_len _ _ _ _ Hfit Ei) as Li. pose proof (hdr_fits_range _ _ _ _ Hfit Ei) as Ri.
  assert (EO : enc_order c be = be) by (destruct c; try discriminate; reflexivity).
  rewrite EO in *.
  assert (Sh : fs = mkField f_sizeof_hdr 0 4 1 KInt /\ fd = mkField f_dim 16 8 8 KInt /\ fi = mkField f_intent_code 504 4 1 KInt
               /\ getf f_sizeof_hdr (default_hdr c) = [540] /\ size_of c = 540)
    by (destruct c; try discriminate; vm_compute in Es, Ed, Ei; inversion Es; inversion Ed; inversion Ei; repeat split; reflexivity).
  destruct Sh as (-> & -> & -> & Dz & Sz). cbn [fwidth fcount foff] in *. rewrite Dz in Bs. rewrite Sz in L.
  change (Z.of_nat (4 * 1)) with 4 in *. change (Z.of_nat (8 * 8)) with 64 in *. change (drop 0 ?x) with x in Bs.
  destruct (getf f_dim (final_hdr c ws)) as [|d0 drest] eqn:Edim; [discriminate|].
  destruct (singleton_of_len1 _ Li) as [vi Evi]. rewrite Evi in *.
  inversion Rd as [|? ? Rd0 _]; subst. inversion Ri as [|? ? Rvi _]; subst.
  set (b := written c be ws) in *.
  assert (Chd : take 8 (drop 16 b) = enc be 8 d0).
  { unfold take in *. change (Z.to_nat 8) with 8%nat. change (Z.to_nat 64) with 64%nat in Bd.
    rewrite <- (firstn_firstn_le 8 64) by lia. rewrite Bd. cbn [enc_elems flat_map].
    apply firstn_app_exact, enc_length. }
  assert (Chs : take 4 b = enc be 4 540) by (rewrite Bs; cbn [enc_elems flat_map]; apply app_nil_r).
  assert (Chi : take 4 (drop 504 b) = enc be 4 vi) by (rewrite Bi; cbn [enc_elems flat_map]; apply app_nil_r).
  assert (BE : n2_big_endian b = be).
  { unfold n2_big_endian. rewrite Chd, Chs. unfold dec_s. rewrite !enc_length.
    pose proof (guess_core 8 540 false be (enc be 8 d0) (enc be 4 540)) as G. cbn [negb] in G.
    unfold guess_analyze in G. cbn [negb] in G.
    assert (X : to_signed 8 (dec be (enc be 8 d0)) = sval 8 (d0 :: drest)).
    { rewrite dec_enc by exact Rd0. reflexivity. }
    specialize (G (or_intror eq_refl) (or_intror eq_refl) (enc_length _ _ _) (enc_length _ _ _) (enc_ok _ _ _) (enc_ok _ _ _)).
    rewrite X in G. specialize (G Hd).
    assert (Y : to_signed 4 (dec be (enc be 4 540)) = 540) by (destruct be; vm_compute; reflexivity).
    specialize (G (fun _ => Y)).
    destruct (to_signed 8 (dec false (enc be 8 d0)) =? 0).
    - destruct (to_signed 4 (dec true (enc be 4 540)) =? 540); exact G.
    - exact G. }
  unfold n2_cifti. rewrite BE, Chi. f_equal. unfold dec_s. rewrite enc_length, dec_enc by exact Rvi. reflexivity.
Qed.

(* ================================================================== pixdim under check=True *)
Lemma family_battery_pixdims c : analyze_family c = true -> In CkPixdims (battery_of c).
Proof. destruct c; try discriminate; intros _; vm_compute; tauto. Qed.

(* the only repairs check_fix makes to pixdim: pixdim[0] by _chk_qfac (when the class has that check),
   pixdim[1:4] by _chk_pixdims (zeros -> 1, then abs of all three if any is negative); pixdim[4:] is kept *)
Lemma check_fix_pixdim c h h' rs : analyze_family c = true -> hdr_fits (layout_of c) h = true ->
  check_hdr c true h = Some (h', rs) ->
  let p := getf f_pixdim h in
  let e := view_env c h in
  getf f_pixdim h'
  = (if existsb (fun k => match k with CkQfac => true | _ => false end) (battery_of c)
     then ck_fixv e CkQfac (firstn 1 p) else firstn 1 p)
    ++ ck_fixv e CkPixdims (firstn 3 (skipn 1 p)) ++ skipn 4 p.
Proof.
  intros Hf Hfit H. cbv zeta. unfold check_hdr in H.
  destruct (run_checks (view_env c h) true (battery_of c) (view_slots h)) as [[v1 r]|] eqn:R; [|discriminate].
  inversion H; subst h' rs. clear H.
  assert (V : v1 = fixs (view_env c h) (battery_of c) (view_slots h)).
  { rewrite run_spec in R by apply batteries_wf. destruct (noraise _ _ _); [|discriminate]. now inversion R. }
  assert (Hp : hasf f_pixdim h = true).
  { rewrite hasf_keys, (hdr_fits_keys _ _ Hfit). apply (family_has_dim c Hf). }
  unfold writeback. repeat rewrite getf_setf_other by ids_neq. rewrite getf_setf_same by (rewrite !hasf_setf; exact Hp).
  f_equal; [|f_equal].
  - change (s_qfac v1) with (get_slot SQfac v1). rewrite V.
    destruct (existsb _ (battery_of c)) eqn:Q.
    + assert (Hin : In CkQfac (battery_of c)).
      { apply existsb_exists in Q as (k & Hk & E). destruct k; try discriminate. exact Hk. }
      exact (slot_val_fixs_in (view_env c h) CkQfac (battery_of c) (view_slots h) (batteries_wf c) Hin).
    + destruct (get_fixs_cases (view_env c h) SQfac (battery_of c) (view_slots h) (batteries_wf c)) as [E|(k & Hk & Sk & _)];
        [exact E|].
      exfalso. assert (X : existsb (fun k => match k with CkQfac => true | _ => false end) (battery_of c) = true).
      { apply existsb_exists. exists k. split; [exact Hk|]. destruct k; try discriminate; reflexivity. }
      congruence.
  - change (s_spat v1) with (get_slot SSpat v1). rewrite V.
    exact (slot_val_fixs_in (view_env c h) CkPixdims (battery_of c) (view_slots h) (batteries_wf c) (family_battery_pixdims c Hf)).
Qed.

(* hence: when pixdim[1:4] has no zero and no negative entry, check_fix leaves pixdim[1:] - the zooms - alone *)
Lemma check_fix_zooms_clean c h h' rs : analyze_family c = true -> hdr_fits (layout_of c) h = true ->
  check_hdr c true h = Some (h', rs) ->
  any (f_le0 (pix_w c)) (firstn 3 (skipn 1 (getf f_pixdim h))) = false ->
  skipn 1 (getf f_pixdim h') = skipn 1 (getf f_pixdim h) /\ get_zooms c h' = get_zooms c h.
Proof.
  intros Hf Hfit H Hz. pose proof (check_fix_pixdim c h h' rs Hf Hfit H) as P. cbv zeta in P.
  assert (F : ck_fixv (view_env c h) CkPixdims (firstn 3 (skipn 1 (getf f_pixdim h))) = firstn 3 (skipn 1 (getf f_pixdim h))).
  { apply fixv_not_bad. unfold ck_bad. cbn [e_cls view_env]. exact Hz. }
  rewrite F in P.
  assert (L1 : forall q, length q = 1%nat -> skipn 1 (q ++ firstn 3 (skipn 1 (getf f_pixdim h)) ++ skipn 4 (getf f_pixdim h))
                                         = skipn 1 (getf f_pixdim h)).
  { intros q Lq. rewrite (skipn_app_exact q _ 1 Lq). change 4%nat with (3 + 1)%nat. rewrite <- skipn_skipn'. apply firstn_skipn. }
  assert (Ldim : (4 <= length (getf f_pixdim h))%nat).
  { pose proof (family_has_dim c Hf) as [_ Mp]. destruct (memZ_find _ _ Mp) as [f Ef].
    rewrite (hdr_fits_len _ _ _ _ Hfit Ef). now apply (pix_count_ge4 c). }
  assert (S1 : skipn 1 (getf f_pixdim h') = skipn 1 (getf f_pixdim h)).
  { rewrite P. apply L1. destruct (existsb _ _) eqn:Q.
    - apply fixv_len_qfac; [reflexivity|]. rewrite firstn_length. lia.
    - rewrite firstn_length. lia. }
  split; [exact S1|].
  unfold get_zooms. rewrite (check_hdr_other c true h h' rs f_dim H eq_refl).
  destruct (sval (dim_w c) (getf f_dim h) =? 0); [reflexivity|].
  unfold py_slice1. assert (Ln : zlen (getf f_pixdim h') = zlen (getf f_pixdim h)).
  { unfold zlen. f_equal. rewrite P, !app_length, skipn_length, firstn_length, skipn_length.
    destruct (existsb _ _); [rewrite (fixv_len_qfac (view_env c h) CkQfac _ eq_refl) by (rewrite firstn_length; lia)|rewrite firstn_length]; lia. }
  rewrite Ln. unfold drop. change (Z.to_nat 1) with 1%nat. now rewrite S1.
Qed.

(* ================================================================== no public setter writes a protected field *)
Lemma setters_avoid_protected c :
  forallb (fun ws => forallb (fun i => negb (memZ i (protected_fields c))) ws) (setter_writes_of c) = true.
Proof. destruct c; vm_compute; reflexivity. Qed.

Lemma setter_write_allowed c w : setter_write c w = true -> allowed_write c w = true.
Proof.
  destruct w as [i vs]. cbn [setter_write allowed_write]. intros H. apply andb_prop in H as [H1 H2].
  rewrite H2, andb_true_r. apply existsb_exists in H1 as (ws & Hin & Hm).
  pose proof (setters_avoid_protected c) as P. rewrite forallb_forall in P. specialize (P ws Hin).
  rewrite forallb_forall in P.
  assert (Hi : In i ws).
  { clear - Hm. induction ws as [|y ws IH]; [discriminate|]. cbn [memZ] in Hm. apply orb_prop in Hm as [E|E].
    - apply Z.eqb_eq in E. now left.
    - right. now apply IH. }
  exact (P i Hi).
Qed.

Lemma setter_writes_allowed c ws : Forall (fun w => setter_write c w = true) ws ->
  Forall (fun w => allowed_write c w = true) ws.
Proof. intros H. induction H; constructor; [now apply setter_write_allowed|assumption]. Qed.

(* ================================================================== conversions: zooms for every shape *)
(* whatever convention set_data_shape uses, it stores as many extents as the shape has, and leaves pixdim to
   set_shape_plain *)
Lemma set_shape_stored c shape o o2 : set_shape c shape o = COk o2 ->
  exists stored o', set_shape_plain c stored o' = COk o2 /\ length stored = length shape
    /\ getf f_pixdim o' = getf f_pixdim o /\ hasf f_pixdim o' = hasf f_pixdim o /\ hasf f_dim o' = hasf f_dim o.
Proof.
  unfold set_shape. intros H.
  assert (Same : set_shape_plain c shape o = COk o2 ->
                 exists stored o', set_shape_plain c stored o' = COk o2 /\ length stored = length shape
                   /\ getf f_pixdim o' = getf f_pixdim o /\ hasf f_pixdim o' = hasf f_pixdim o /\ hasf f_dim o' = hasf f_dim o)
    by (intros E; exists shape, o; repeat split; assumption).
  destruct (is_nifti1 c); [|now apply Same].
  destruct (prefix3 shape 163842 1 1) eqn:P.
  - destruct shape as [|x [|y [|z r]]]; try discriminate. cbn [skipn] in H.
    exists (27307 :: 1 :: 6 :: r), o. repeat split; try assumption; reflexivity.
  - destruct shape as [|x [|y [|z r]]]; try (now apply Same).
    + destruct y as [|p|p]; try (now apply Same). destruct p; now apply Same.
    + destruct y as [|p|p]; try (now apply Same). destruct p; try (now apply Same).
      destruct z as [|q|q]; try (now apply Same). destruct q; try (now apply Same).
      destruct (pow256 (dim_w c) / 2 - 1 <? x); [|now apply Same].
      destruct (fits_signed 4 x); [|discriminate].
      exists (-1 :: 1 :: 1 :: r), (setf f_glmin [of_signed 4 x] o). repeat split; try assumption; try reflexivity.
      * apply getf_setf_other. ids_neq.
      * apply hasf_setf.
      * apply hasf_setf.
Qed.

(* dst.from_header(src, check=False) keeps the zooms (cast to the destination's float width) for EVERY shape,
   the FreeSurfer conventions included: set_data_shape stores as many extents as the shape has (dim[0] is the
   rank under every convention), resets pixdim[rank+1:] to 1, and set_zooms then writes pixdim[1:rank+1] *)
Lemma convert_preserves_zooms_any src dst h h' shape : analyze_family src = true -> analyze_family dst = true ->
  hdr_fits (layout_of src) h = true ->
  from_header src dst false h = COk h' -> get_shape src h = COk shape -> shape <> [] ->
  get_zooms dst h' = map (f_cast (pix_w src) (pix_w dst)) (get_zooms src h).
Proof.
  intros Hfs Hfam Hfit H Hs Hne. unfold from_header in H.
  destruct (negb (dim0_in_scope src h)); [discriminate|].
  set (obj0 := clean_after_mapping dst (apply_mapping (layout_of src) (layout_of dst) h (default_hdr dst))) in *.
  destruct (set_dtype src dst (sval 2 (getf f_datatype h)) obj0) as [obj1|] eqn:E1; [|discriminate].
  rewrite Hs in H. destruct (set_shape dst shape obj1) as [obj2|] eqn:E2; [|discriminate].
  destruct (set_zooms dst (pix_w src) (get_zooms src h) obj2) as [obj3|] eqn:E3; [|discriminate].
  inversion H; subst h'. clear H.
  destruct (set_shape_stored dst shape obj1 obj2 E2) as (stored & o' & Ep2 & Lst & Gp & Hp' & Hd').
  unfold set_shape_plain in Ep2.
  destruct (negb (all (fits_signed (dim_w dst)) stored) || (7 <? zlen stored)) eqn:Chk; [discriminate|].
  cbv zeta in Ep2. injection Ep2 as Eo2. subst obj2.
  assert (K0 : map fst obj0 = map fid (layout_of dst)) by apply obj_keys_after_mapping.
  assert (G1 : forall i, i <> f_bitpix -> i <> f_datatype -> getf i obj1 = getf i obj0 /\ hasf i obj1 = hasf i obj0).
  { intros i N1 N2. unfold set_dtype in E1. destruct (lookup _ (dtcodes_of src)); [|discriminate].
    destruct (lookup _ (dtcodes_of dst)); [|discriminate]. destruct (_ =? 0); [discriminate|].
    inversion E1; subst. rewrite !getf_setf_other, !hasf_setf by assumption. now split. }
  destruct (family_has_dim dst Hfam) as [Md Mp]. destruct (family_has_dim src Hfs) as [_ Mps].
  assert (Hd : hasf f_dim o' = true) by (rewrite Hd', (proj2 (G1 f_dim ltac:(ids_neq) ltac:(ids_neq))), hasf_keys, K0; exact Md).
  assert (Hpx : hasf f_pixdim o' = true) by (rewrite Hp', (proj2 (G1 f_pixdim ltac:(ids_neq) ltac:(ids_neq))), hasf_keys, K0; exact Mp).
  assert (Pne : exists x0 rest, getf f_pixdim o' = x0 :: rest).
  { rewrite Gp, (proj1 (G1 f_pixdim ltac:(ids_neq) ltac:(ids_neq))).
    destruct (memZ_find _ _ Mps) as [fs Es]. destruct (memZ_find _ _ Mp) as [fd Ed].
    assert (E0 : getf f_pixdim obj0 = map (cast_field fs fd) (getf f_pixdim h)).
    { unfold obj0, clean_after_mapping. destruct (is_nifti dst); rewrite ?getf_setf_other by ids_neq;
        (rewrite (apply_mapping_get _ _ f_pixdim fs fd Es Ed);
         [rewrite hasf_keys, (hdr_fits_keys _ _ Hfit), Mps; reflexivity
         |rewrite (hdr_fits_keys _ _ Hfit); apply (wf_offsets _ (layouts_wf src))
         |rewrite hasf_keys, default_keys; exact Mp]). }
    rewrite E0. pose proof (hdr_fits_len _ _ _ _ Hfit Es) as L. pose proof (pix_count_ge4 src fs Es).
    destruct (getf f_pixdim h) as [|a l]; [simpl in L; lia|]. cbn [map]. eauto. }
  destruct Pne as (x0 & rest & Ep).
  unfold set_zooms in E3.
  assert (Lz7 : zlen stored <= 7) by (apply orb_false_elim in Chk as [_ C]; lia).
  assert (Nd : forall l, sval (dim_w dst) (zlen stored :: l) = zlen shape).
  { intros l. unfold sval. cbn [hd]. rewrite (to_signed_id _ _ (dim_w_family dst Hfam)) by (pose proof (zlen_nn stored); lia).
    unfold zlen. now rewrite Lst. }
  rewrite !(getf_setf_other f_dim f_pixdim) in E3 by ids_neq. rewrite (getf_setf_same f_dim) in E3 by exact Hd.
  cbn [put_from] in E3. rewrite Nd in E3.
  destruct (Z.eqb_spec (zlen (get_zooms src h)) (zlen shape)) as [Lz|]; [|discriminate]. cbn [negb] in E3.
  destruct (any _ _); [discriminate|]. inversion E3; subst obj3. clear E3.
  unfold get_zooms at 1.
  rewrite !(getf_setf_other f_dim f_pixdim) by ids_neq. rewrite (getf_setf_same f_dim) by exact Hd.
  cbn [put_from]. rewrite Nd.
  assert (Hn : 0 < zlen shape) by (destruct shape; [congruence|unfold zlen; cbn [length]; lia]).
  destruct (Z.eqb_spec (zlen shape) 0); [lia|].
  rewrite (getf_setf_same f_pixdim) by (rewrite !hasf_setf; exact Hpx).
  rewrite (getf_setf_same f_pixdim) by (rewrite hasf_setf; exact Hpx).
  rewrite Ep. cbn [firstn app]. cbn [put_from]. apply py_slice1_cons; [|exact Hn].
  unfold zlen in *. now rewrite map_length.
Qed.
