(* C10/LayoutLemmas.v — proofs about the generic struct codec of Layout.v *)
From Coq Require Import ZArith List Bool Lia ZifyBool.
From NV Require Import Base.Bytes C10.Layout.
Import ListNotations.
Open Scope Z_scope.

(* ------------------------------------------------------------------ chunks *)
Lemma chunks_length {A} w c (b : list A) : length (chunks w c b) = c.
Proof. revert b; induction c as [|c IH]; intros b; simpl; [reflexivity|now rewrite IH]. Qed.

Lemma firstn_skipn_add {A} (n m : nat) (l : list A) :
  firstn n l ++ firstn m (skipn n l) = firstn (n + m) l.
Proof.
  revert l; induction n as [|n IH]; intros l; simpl; [reflexivity|].
  destruct l as [|x l]; simpl; [now rewrite firstn_nil|]. now rewrite IH.
Qed.

Lemma concat_chunks {A} w c (b : list A) : concat (chunks w c b) = firstn (w * c) b.
Proof.
  revert b; induction c as [|c IH]; intros b; simpl.
  - now rewrite Nat.mul_0_r.
  - rewrite IH, firstn_skipn_add. f_equal. lia.
Qed.

Lemma chunks_all_len {A} w c (b : list A) : (w * c <= length b)%nat ->
  Forall (fun ch => length ch = w) (chunks w c b).
Proof.
  revert b; induction c as [|c IH]; intros b H; simpl; constructor.
  - rewrite firstn_length. lia.
  - apply IH. rewrite skipn_length. lia.
Qed.

Lemma bytes_ok_firstn n l : bytes_ok l -> bytes_ok (firstn n l).
Proof.
  unfold bytes_ok. rewrite !Forall_forall. intros H x Hx. apply H.
  rewrite <- (firstn_skipn n l). apply in_or_app. now left.
Qed.
Lemma bytes_ok_skipn n l : bytes_ok l -> bytes_ok (skipn n l).
Proof.
  unfold bytes_ok. rewrite !Forall_forall. intros H x Hx. apply H.
  rewrite <- (firstn_skipn n l). apply in_or_app. now right.
Qed.
Lemma bytes_ok_app a b : bytes_ok a -> bytes_ok b -> bytes_ok (a ++ b).
Proof. unfold bytes_ok. intros. now apply Forall_app. Qed.

(* chunks of a concatenation of w-long pieces *)
Lemma chunks_concat {A} w (ps : list (list A)) rest :
  Forall (fun p => length p = w) ps -> chunks w (length ps) (concat ps ++ rest) = ps.
Proof.
  induction ps as [|p ps IH]; intros H; simpl; [reflexivity|].
  inversion H as [|? ? Hp Hps]; subst. rewrite <- app_assoc.
  rewrite firstn_app, Nat.sub_diag, firstn_all. simpl. rewrite app_nil_r.
  rewrite skipn_app, Nat.sub_diag, skipn_all. simpl. now rewrite IH.
Qed.

Lemma skipn_concat {A} w (ps : list (list A)) rest :
  Forall (fun p => length p = w) ps -> skipn (w * length ps) (concat ps ++ rest) = rest.
Proof.
  intros H. assert (E : length (concat ps) = (w * length ps)%nat).
  { induction H as [|p ps Hp Hps IH]; simpl; [lia|]. rewrite app_length, IH, Hp. lia. }
  rewrite <- E. rewrite skipn_app, Nat.sub_diag, skipn_all. reflexivity.
Qed.

(* ------------------------------------------------------------------ element codecs *)
Lemma flat_map_concat_map {A B} (f : A -> list B) l : flat_map f l = concat (map f l).
Proof. induction l; simpl; [reflexivity|now f_equal]. Qed.

Lemma enc_dec_chunks be w (chs : list (list Z)) :
  Forall (fun ch => length ch = w) chs -> Forall bytes_ok chs ->
  map (enc be w) (map (dec be) chs) = chs.
Proof.
  induction chs as [|ch chs IH]; intros Hl Hb; simpl; [reflexivity|].
  inversion Hl as [|? ? Hch Hl']; inversion Hb as [|? ? Hbch Hb']; subst.
  rewrite IH by assumption. f_equal. now apply enc_dec.
Qed.

Lemma chunks_bytes_ok w c b : bytes_ok b -> Forall bytes_ok (chunks w c b).
Proof.
  revert b; induction c as [|c IH]; intros b H; simpl; constructor.
  - now apply bytes_ok_firstn.
  - apply IH. now apply bytes_ok_skipn.
Qed.

Lemma enc_dec_elems be w c b : bytes_ok b -> (w * c <= length b)%nat ->
  enc_elems be w (dec_elems be w c b) = firstn (w * c) b.
Proof.
  intros Hb Hl. unfold enc_elems, dec_elems. rewrite flat_map_concat_map.
  rewrite enc_dec_chunks; [apply concat_chunks|now apply chunks_all_len|now apply chunks_bytes_ok].
Qed.

Definition in_range (w : nat) (v : Z) : Prop := 0 <= v < pow256 w.

Lemma enc_all_len be w vs : Forall (fun p => length p = w) (map (enc be w) vs).
Proof. induction vs; simpl; constructor; [apply enc_length|assumption]. Qed.

Lemma dec_enc_elems be w vs rest : Forall (in_range w) vs ->
  dec_elems be w (length vs) (enc_elems be w vs ++ rest) = vs.
Proof.
  intros H. unfold dec_elems, enc_elems. rewrite flat_map_concat_map.
  rewrite <- (map_length (enc be w) vs) at 1.
  rewrite chunks_concat by apply enc_all_len.
  rewrite map_map. induction H as [|v vs Hv Hvs IH]; simpl; [reflexivity|].
  rewrite dec_enc by exact Hv. now rewrite IH.
Qed.

Lemma skipn_enc_elems be w vs rest :
  skipn (w * length vs) (enc_elems be w vs ++ rest) = rest.
Proof.
  unfold enc_elems. rewrite flat_map_concat_map.
  rewrite <- (map_length (enc be w) vs). apply skipn_concat, enc_all_len.
Qed.

(* ------------------------------------------------------------------ struct codecs *)
Lemma layout_size_cons f L : layout_size (f :: L) = Z.of_nat (fsize f) + layout_size L.
Proof. reflexivity. Qed.

Lemma layout_size_nonneg L : 0 <= layout_size L.
Proof. induction L as [|f L IH]; [cbn; lia|rewrite layout_size_cons; lia]. Qed.

Lemma encode_decode_prefix L be : forall b, bytes_ok b -> layout_size L <= zlen b ->
  encode_struct L be (decode_struct L be b) = firstn (Z.to_nat (layout_size L)) b.
Proof.
  induction L as [|f L IH]; intros b Hb Hl.
  - reflexivity.
  - rewrite layout_size_cons in *. pose proof (layout_size_nonneg L) as Hnn. unfold zlen in Hl.
    cbn [decode_struct encode_struct].
    rewrite enc_dec_elems by (auto; unfold fsize in *; lia).
    rewrite IH; [|now apply bytes_ok_skipn|unfold zlen; rewrite skipn_length; lia].
    fold (fsize f). rewrite firstn_skipn_add. f_equal. lia.
Qed.

Lemma encode_decode L be b : bytes_ok b -> zlen b = layout_size L ->
  encode_struct L be (decode_struct L be b) = b.
Proof.
  intros Hb Hl. rewrite encode_decode_prefix by (auto; lia).
  rewrite <- Hl. unfold zlen. rewrite Nat2Z.id. apply firstn_all.
Qed.

Lemma forallb_in_range w vs :
  forallb (fun v => (0 <=? v) && (v <? pow256 w)) vs = true -> Forall (in_range w) vs.
Proof.
  intros H. apply Forall_forall. intros v Hv. rewrite forallb_forall in H. specialize (H v Hv).
  unfold in_range. lia.
Qed.

Lemma decode_encode L be : forall h rest, hdr_fits L h = true ->
  decode_struct L be (encode_struct L be h ++ rest) = h.
Proof.
  induction L as [|f L IH]; intros h rest H.
  - destruct h; [reflexivity|discriminate].
  - destruct h as [|[k vs] h]; [discriminate|]. cbn [hdr_fits] in H.
    apply andb_prop in H as [H H4]. apply andb_prop in H as [H H3]. apply andb_prop in H as [H1 H2].
    apply Z.eqb_eq in H1. apply Nat.eqb_eq in H2. subst k.
    cbn [decode_struct encode_struct]. rewrite <- app_assoc. unfold fsize. rewrite <- H2.
    rewrite dec_enc_elems by now apply forallb_in_range.
    rewrite skipn_enc_elems. now rewrite IH.
Qed.

Lemma decode_encode_exact L be h : hdr_fits L h = true ->
  decode_struct L be (encode_struct L be h) = h.
Proof. intros H. rewrite <- (app_nil_r (encode_struct L be h)). now apply decode_encode. Qed.

Lemma encode_length L be : forall h, hdr_fits L h = true ->
  zlen (encode_struct L be h) = layout_size L.
Proof.
  induction L as [|f L IH]; intros h H.
  - destruct h; [reflexivity|discriminate].
  - destruct h as [|[k vs] h]; [discriminate|]. cbn [hdr_fits] in H.
    apply andb_prop in H as [H H4]. apply andb_prop in H as [H H3]. apply andb_prop in H as [H1 H2].
    apply Nat.eqb_eq in H2. cbn [encode_struct]. rewrite layout_size_cons. unfold zlen in *.
    rewrite app_length, Nat2Z.inj_add, IH by assumption. f_equal.
    unfold enc_elems, fsize. rewrite <- H2. clear. induction vs as [|v vs IHv]; simpl; [lia|].
    rewrite app_length, enc_length. lia.
Qed.

Lemma dec_range_elems be w c b : bytes_ok b -> (w * c <= length b)%nat ->
  Forall (in_range w) (dec_elems be w c b).
Proof.
  intros Hb Hl. unfold dec_elems.
  pose proof (chunks_all_len w c b Hl) as Hlen. pose proof (chunks_bytes_ok w c b Hb) as Hok.
  induction (chunks w c b) as [|ch chs IH]; simpl; constructor.
  - inversion Hlen; inversion Hok; subst. unfold in_range. apply dec_range. assumption.
  - inversion Hlen; inversion Hok; subst. now apply IH.
Qed.

Lemma decode_fits L be : forall b, bytes_ok b -> layout_size L <= zlen b ->
  hdr_fits L (decode_struct L be b) = true.
Proof.
  induction L as [|f L IH]; intros b Hb Hl; [reflexivity|].
  rewrite layout_size_cons in Hl. pose proof (layout_size_nonneg L). unfold zlen in Hl.
  cbn [decode_struct hdr_fits]. rewrite Z.eqb_refl. unfold dec_elems at 1.
  rewrite map_length, chunks_length, Nat.eqb_refl. cbn [andb].
  rewrite IH; [|now apply bytes_ok_skipn|unfold zlen; rewrite skipn_length; lia].
  rewrite andb_true_r. apply forallb_forall. intros v Hv.
  pose proof (dec_range_elems be (fwidth f) (fcount f) b Hb) as Hr.
  rewrite Forall_forall in Hr. unfold fsize in Hl. specialize (Hr ltac:(lia) v Hv). unfold in_range in Hr. lia.
Qed.

Lemma decode_keys L be b : map fst (decode_struct L be b) = map fid L.
Proof. revert b; induction L as [|f L IH]; intros b; simpl; [reflexivity|now rewrite IH]. Qed.

(* ------------------------------------------------------------------ byte swapping *)
Lemma map_rev_all_len {A} w (chs : list (list A)) :
  Forall (fun ch => length ch = w) chs -> Forall (fun ch => length ch = w) (map (@rev A) chs).
Proof. induction 1; simpl; constructor; [now rewrite rev_length|assumption]. Qed.

Lemma swap_decode L be : forall b, layout_size L <= zlen b ->
  decode_struct L (negb be) (swap_struct L b) = decode_struct L be b.
Proof.
  induction L as [|f L IH]; intros b Hl; [reflexivity|].
  rewrite layout_size_cons in Hl. pose proof (layout_size_nonneg L). unfold zlen in Hl.
  cbn [swap_struct decode_struct]. rewrite flat_map_concat_map.
  assert (Hlen : Forall (fun ch => length ch = fwidth f) (chunks (fwidth f) (fcount f) b))
    by (apply chunks_all_len; unfold fsize in Hl; lia).
  f_equal.
  - f_equal. unfold dec_elems.
    rewrite <- (chunks_length (fwidth f) (fcount f) b) at 1.
    rewrite <- (map_length (@rev Z)). rewrite chunks_concat by now apply map_rev_all_len.
    rewrite map_map. apply map_ext. intros ch. apply dec_swap.
  - unfold fsize. rewrite <- (chunks_length (fwidth f) (fcount f) b) at 1.
    rewrite <- (map_length (@rev Z)). rewrite skipn_concat by now apply map_rev_all_len.
    apply IH. unfold zlen. rewrite skipn_length. unfold fsize in Hl. lia.
Qed.

Lemma swap_length L : forall b, layout_size L <= zlen b -> zlen (swap_struct L b) = layout_size L.
Proof.
  induction L as [|f L IH]; intros b Hl; [reflexivity|].
  rewrite layout_size_cons in *. pose proof (layout_size_nonneg L). unfold zlen in *.
  cbn [swap_struct]. rewrite app_length, Nat2Z.inj_add.
  rewrite IH by (rewrite skipn_length; lia). f_equal.
  rewrite flat_map_concat_map.
  assert (Hlen : Forall (fun ch => length ch = fwidth f) (map (@rev Z) (chunks (fwidth f) (fcount f) b)))
    by (apply map_rev_all_len, chunks_all_len; unfold fsize in Hl; lia).
  assert (E : forall w (ps : list (list Z)), Forall (fun p => length p = w) ps ->
              length (concat ps) = (w * length ps)%nat).
  { clear. intros w ps H. induction H as [|p ps Hp Hps IH]; simpl; [lia|]. rewrite app_length, IH, Hp. lia. }
  rewrite (E _ _ Hlen), map_length, chunks_length. reflexivity.
Qed.

Lemma swap_is_recode L be : forall b, bytes_ok b -> layout_size L <= zlen b ->
  swap_struct L b = encode_struct L (negb be) (decode_struct L be b).
Proof.
  induction L as [|f L IH]; intros b Hb Hl; [reflexivity|].
  rewrite layout_size_cons in Hl. pose proof (layout_size_nonneg L). unfold zlen in Hl.
  cbn [swap_struct decode_struct encode_struct]. f_equal.
  - unfold enc_elems, dec_elems. rewrite !flat_map_concat_map. f_equal. rewrite map_map.
    pose proof (chunks_all_len (fwidth f) (fcount f) b ltac:(unfold fsize in Hl; lia)) as Hlen.
    pose proof (chunks_bytes_ok (fwidth f) (fcount f) b Hb) as Hok.
    induction (chunks (fwidth f) (fcount f) b) as [|ch chs IHc]; simpl; [reflexivity|].
    inversion Hlen as [|? ? Hch Hlen']; inversion Hok as [|? ? Hbch Hok']; subst.
    rewrite IHc by assumption. f_equal.
    rewrite swap_enc. f_equal. symmetry. rewrite <- Hch. now apply enc_dec.
  - apply IH; [now apply bytes_ok_skipn|unfold zlen; rewrite skipn_length; lia].
Qed.

Lemma swap_bytes_ok L : forall b, bytes_ok b -> bytes_ok (swap_struct L b).
Proof.
  induction L as [|f L IH]; intros b Hb; [constructor|].
  cbn [swap_struct]. apply bytes_ok_app; [|apply IH; now apply bytes_ok_skipn].
  pose proof (chunks_bytes_ok (fwidth f) (fcount f) b Hb) as Hok.
  induction Hok as [|ch chs Hch Hchs IHc]; simpl; [constructor|].
  apply bytes_ok_app; [now apply bytes_ok_rev|assumption].
Qed.

Lemma swap_involutive L b : bytes_ok b -> zlen b = layout_size L ->
  swap_struct L (swap_struct L b) = b.
Proof.
  intros Hb Hl.
  rewrite (swap_is_recode L true (swap_struct L b)); [|now apply swap_bytes_ok|rewrite swap_length; lia].
  change true with (negb false) at 2. rewrite swap_decode by lia.
  cbn [negb]. now apply encode_decode.
Qed.

(* ------------------------------------------------------------------ association lists *)
Lemma getf_setf_same i v h : hasf i h = true -> getf i (setf i v h) = v.
Proof.
  induction h as [|[k x] r IH]; simpl; [discriminate|].
  destruct (Z.eqb_spec k i); simpl; intros H.
  - destruct (Z.eqb_spec k i); [reflexivity|contradiction].
  - destruct (Z.eqb_spec k i); [contradiction|]. now apply IH.
Qed.

Lemma getf_setf_other i j v h : i <> j -> getf i (setf j v h) = getf i h.
Proof.
  intros Hij. induction h as [|[k x] r IH]; simpl; [reflexivity|].
  destruct (Z.eqb_spec k j); simpl.
  - subst k. destruct (Z.eqb_spec j i); [congruence|reflexivity].
  - destruct (Z.eqb_spec k i); [reflexivity|apply IH].
Qed.

Lemma setf_getf i h : setf i (getf i h) h = h.
Proof.
  induction h as [|[k x] r IH]; simpl; [reflexivity|].
  destruct (Z.eqb_spec k i); [reflexivity|now rewrite IH].
Qed.

Lemma setf_setf_same i v v' h : setf i v (setf i v' h) = setf i v h.
Proof.
  induction h as [|[k x] r IH]; simpl; [reflexivity|].
  destruct (Z.eqb_spec k i); simpl.
  - destruct (Z.eqb_spec k i); [reflexivity|contradiction].
  - destruct (Z.eqb_spec k i); [contradiction|now rewrite IH].
Qed.

Lemma setf_setf_comm i j v w h : i <> j -> setf i v (setf j w h) = setf j w (setf i v h).
Proof.
  intros Hij. induction h as [|[k x] r IH]; simpl; [reflexivity|].
  destruct (Z.eqb_spec k j), (Z.eqb_spec k i); simpl; try congruence.
  - destruct (Z.eqb_spec k j); [|contradiction]. destruct (Z.eqb_spec k i); [congruence|reflexivity].
  - destruct (Z.eqb_spec k i); [|contradiction]. destruct (Z.eqb_spec k j); [congruence|reflexivity].
  - destruct (Z.eqb_spec k i); [contradiction|]. destruct (Z.eqb_spec k j); [contradiction|]. now rewrite IH.
Qed.

Lemma setf_keys i v h : map fst (setf i v h) = map fst h.
Proof.
  induction h as [|[k x] r IH]; simpl; [reflexivity|].
  destruct (Z.eqb_spec k i); simpl; [reflexivity|now rewrite IH].
Qed.

Lemma hasf_setf i j v h : hasf i (setf j v h) = hasf i h.
Proof.
  induction h as [|[k x] r IH]; simpl; [reflexivity|].
  destruct (Z.eqb_spec k j); simpl; [reflexivity|now rewrite IH].
Qed.

Lemma hasf_keys i h : hasf i h = memZ i (map fst h).
Proof.
  induction h as [|[k x] r IH]; simpl; [reflexivity|]. rewrite IH.
  rewrite (Z.eqb_sym k i). reflexivity.
Qed.

(* ------------------------------------------------------------------ NumPy offsets *)
(* a field's value in the decoded header is the decoding of the bytes at its NumPy offset *)
Lemma memZ_false_in x l : memZ x l = false -> ~ In x l.
Proof.
  induction l as [|y r IH]; simpl; [tauto|]. intros H [E|Hin].
  - subst. rewrite Z.eqb_refl in H. discriminate.
  - apply IH; [|assumption]. destruct (x =? y); [discriminate|exact H].
Qed.

Lemma skipn_skipn' {A} (x y : nat) (l : list A) : skipn x (skipn y l) = skipn (x + y) l.
Proof.
  revert l; induction y as [|y IH]; intros l; simpl.
  - now rewrite Nat.add_0_r.
  - rewrite Nat.add_succ_r. destruct l as [|a l]; simpl; [now rewrite skipn_nil|apply IH].
Qed.

Lemma field_at_offset L be : forall pos b f,
  offsets_ok pos L = true -> nodupZ (map fid L) = true -> In f L -> 0 <= pos ->
  getf (fid f) (decode_struct L be (skipn (Z.to_nat pos) b))
  = dec_elems be (fwidth f) (fcount f) (skipn (Z.to_nat (foff f)) b).
Proof.
  induction L as [|g L IH]; intros pos b f Hoff Hnd Hin Hpos; [destruct Hin|].
  cbn [offsets_ok] in Hoff. apply andb_prop in Hoff as [Hg Hoff]. apply Z.eqb_eq in Hg.
  cbn [map nodupZ] in Hnd. apply andb_prop in Hnd as [Hng Hnd].
  cbn [decode_struct getf]. destruct Hin as [->|Hin].
  - rewrite Z.eqb_refl. now rewrite Hg.
  - destruct (Z.eqb_spec (fid g) (fid f)) as [E|NE].
    + exfalso. apply negb_true_iff in Hng. apply memZ_false_in in Hng. apply Hng.
      rewrite E. now apply in_map.
    + rewrite skipn_skipn'.
      replace (fsize g + Z.to_nat pos)%nat with (Z.to_nat (pos + Z.of_nat (fsize g))) by lia.
      apply IH; auto; lia.
Qed.
