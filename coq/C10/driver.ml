(* C10 driver body (after `open C10_model` and drvlib.ml).  <cls> is one of analyze spm99 spm2 nifti1
   nifti1pair nifti2 nifti2pair mgh ecat; <be> 0/1; <opt> 0/1/- ; byte strings x<hex>.
   fields <cls> <be> <hex>                      -> ok <id>=<v>,<v>;<id>=...     (unsigned element values)
   rt <cls> <be> <hex>                          -> ok <hex>                     encode (decode b)
   guess <cls> <natbe> <hex>                    -> ok <be>
   frombytes <cls> <natbe> <opt endian> <hex>   -> ok <be> <hex> | err size
   swap <cls> <natbe> <opt target> <be> <hex>   -> ok <be> <hex> | err refuse
   eq <cls> <be1> <hex1> <be2> <hex2>           -> ok 0/1
   check <cls> <fix> <be> <hex>                 -> ok <hex> <lvl>:<msg>:<fixflag>,... | err raise
   default <cls> <be>                           -> ok <be> <hex>
   conv <src> <dst> <check> <be> <hex>          -> ok <hex> (native byte order) | err <enum>
   sig <cls> <cifti 0/1> <hex>                  -> ok 0/1   signature of the class on header bytes
   copymut <be> <hex> <who o|c> <mut> <n> (<code> <hex>)*   header with n extensions, copy_ref, one mutation through the
        original (o) or the copy (c); mut = bytes:<hex> | append:<code>:<hex> | clear | set   (set: to [(7, xff)])
        -> ok shared=<0/1> orig=<be> <hex> <n> (<code> <hex>)* copy=<be> <hex> <n> ... *)
let cls_of_string = function
  | "analyze" -> Analyze | "spm99" -> Spm99 | "spm2" -> Spm2 | "nifti1" -> Nifti1
  | "nifti1pair" -> Nifti1Pair | "nifti2" -> Nifti2 | "nifti2pair" -> Nifti2Pair
  | "mgh" -> Mgh | "ecat" -> Ecat | s -> failwith ("bad class " ^ s)
let opt_of_string s = if s = "-" then None else Some (bool_of_string s)
let string_of_msg = function
  | MNone -> "none" | MSizeof -> "sizeof" | MDtUnrec -> "dt_unrec" | MDtUnsup -> "dt_unsup"
  | MBpNoDt -> "bp_nodt" | MBpMismatch -> "bp_mismatch" | MPixZero -> "pix_zero" | MPixNeg -> "pix_neg"
  | MPixZeroNeg -> "pix_zero_neg" | MQfac -> "qfac" | MMagic -> "magic" | MOffLow -> "off_low"
  | MOffNot16 -> "off_not16" | MQform -> "qform" | MSform -> "sform" | MEolZero -> "eol_zero"
  | MEolBad -> "eol_bad" | MOrigin -> "origin" | MVersion -> "version"
let string_of_reports rs =
  if rs = [] then "-" else
  String.concat "," (List.map (fun ((l, m), f) -> string_of_z l ^ ":" ^ string_of_msg m ^ ":" ^ string_of_bool f) rs)
let string_of_hdr h =
  String.concat ";" (List.map (fun (k, vs) -> string_of_z k ^ "=" ^ String.concat "," (List.map string_of_z vs)) h)
let string_of_cerr = function
  | ErrDtype -> "dtype" | ErrShape -> "shape" | ErrZooms -> "zooms" | ErrCheck -> "check"
  | ErrRaise -> "raise" | ErrScope -> "scope"
let obj_out = function
  | Some (be, b) -> "ok " ^ string_of_bool be ^ " " ^ hex_of_bytes b
  | None -> "err refuse"
let handle op args = match op, args with
  | "fields", [c; be; h] ->
    "ok " ^ string_of_hdr (decode_struct (layout_of (cls_of_string c)) (bool_of_string be) (bytes_of_hex h))
  | "rt", [c; be; h] ->
    let l = layout_of (cls_of_string c) and be = bool_of_string be in
    "ok " ^ hex_of_bytes (encode_struct l be (decode_struct l be (bytes_of_hex h)))
  | "guess", [c; nb; h] ->
    "ok " ^ string_of_bool (guessed_endian (cls_of_string c) (bool_of_string nb) (bytes_of_hex h))
  | "frombytes", [c; nb; e; h] ->
    (match from_bytes (cls_of_string c) (bool_of_string nb) (opt_of_string e) (bytes_of_hex h) with
     | Some (be, b) -> "ok " ^ string_of_bool be ^ " " ^ hex_of_bytes b
     | None -> "err size")
  | "swap", [c; nb; t; be; h] ->
    obj_out (as_byteswapped (cls_of_string c) (bool_of_string nb) (opt_of_string t) (bool_of_string be, bytes_of_hex h))
  | "eq", [c; be1; h1; be2; h2] ->
    "ok " ^ string_of_bool (hdr_eq (cls_of_string c) (bool_of_string be1, bytes_of_hex h1) (bool_of_string be2, bytes_of_hex h2))
  | "check", [c; fx; be; h] ->
    (match check_bytes (cls_of_string c) (bool_of_string fx) (bool_of_string be) (bytes_of_hex h) with
     | Some (b, rs) -> "ok " ^ hex_of_bytes b ^ " " ^ string_of_reports rs
     | None -> "err raise")
  | "default", [c; be] ->
    let (e, b) = default_obj (cls_of_string c) (bool_of_string be) in
    "ok " ^ string_of_bool e ^ " " ^ hex_of_bytes b
  | "conv", [s; d; ck; be; h] ->
    let s = cls_of_string s and d = cls_of_string d in
    (match from_header s d (bool_of_string ck) (decode_struct (layout_of s) (bool_of_string be) (bytes_of_hex h)) with
     | COk o -> "ok " ^ hex_of_bytes (encode_struct (layout_of d) native_be o)
     | CErr e -> "err " ^ string_of_cerr e)
  | "sig", [c; cf; h] -> "ok " ^ string_of_bool (signature (cls_of_string c) (bool_of_string cf) (bytes_of_hex h))
  | "copymut", be :: h :: who :: mut :: n :: rest ->
    let rec exts k args = if k = 0 then [] else (match args with
      | c :: x :: r -> (z_of_string c, bytes_of_hex x) :: exts (k - 1) r | _ -> failwith "bad exts") in
    let l = exts (int_of_string n) rest in
    let (s0, r) = new_header { s_bufs = []; s_lists = [] } (bool_of_string be) (bytes_of_hex h) l in
    let (s1, r') = copy_ref s0 r in
    let m = (match String.split_on_char ':' mut with
      | ["bytes"; x] -> MSetBytes (bytes_of_hex x)
      | ["append"; c; x] -> MExtAppend (z_of_string c, bytes_of_hex x)
      | ["clear"] -> MExtClear
      | ["set"] -> MExtSet [(z_of_int 7, bytes_of_hex "xff")]
      | _ -> failwith "bad mutation") in
    let s2 = mutate s1 (if who = "o" then r else r') m in
    let show rf = let ((e, b), l) = view s2 rf in
      string_of_bool e ^ " " ^ hex_of_bytes b ^ " " ^ string_of_int (List.length l) ^
      String.concat "" (List.map (fun (c, x) -> " " ^ string_of_z c ^ " " ^ hex_of_bytes x) l) in
    "ok shared=" ^ string_of_bool (r.r_buf = r'.r_buf || r.r_exts = r'.r_exts) ^ " orig=" ^ show r ^ " copy=" ^ show r'
  | _ -> "err driver:badop"
let () = run_lines handle
