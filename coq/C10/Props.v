(* C10/Props.v — property theorems only.  Property C10: binary headers are faithful to their bytes,
   byte order and repairs.  Each theorem is closed by `exact <lemma>` and followed by
   Print Assumptions.  hclass ranges over Analyze, Spm99, Spm2, Nifti1, Nifti1Pair, Nifti2, Nifti2Pair,
   Mgh, Ecat; their layouts, code tables, class constants and check batteries are the regenerated
   Tables.v. *)
From Coq Require Import ZArith List Bool Lia.
From NV Require Import Base.Bytes C10.Layout C10.LayoutLemmas C10.Tables C10.Model C10.Lemmas.
Import ListNotations.
Open Scope Z_scope.

(* the regenerated tables are well-formed: fields contiguous from offset 0 (NumPy offsets =
   cumulative sizes), names distinct, widths legal, total size = itemsize; no two checks of a
   battery write the same field slot; same-named fields of Analyze-family layouts agree in count
   and have kinds the conversion model covers *)
Theorem C10_tables_wf : forall c,
  wf_layout (layout_of c) = true /\ layout_size (layout_of c) = size_of c /\ wf_bat (battery_of c)
  /\ (forall d, analyze_family c = true -> analyze_family d = true ->
        layouts_compat (layout_of c) (layout_of d) = true).
Proof.
  intros c. split; [apply layouts_wf|]. split; [apply layouts_size|]. split; [apply batteries_wf|].
  intros d. apply family_compat.
Qed.
Print Assumptions C10_tables_wf.

(* a header built from bytes serialises to the same bytes: every layout, either byte order,
   every byte string of the layout size *)
Theorem C10_bytes_roundtrip : forall L be b, bytes_ok b -> zlen b = layout_size L ->
  encode_struct L be (decode_struct L be b) = b.
Proof. exact encode_decode. Qed.
Print Assumptions C10_bytes_roundtrip.

(* and field values survive serialisation *)
Theorem C10_decode_encode : forall L be h, hdr_fits L h = true ->
  decode_struct L be (encode_struct L be h) = h /\ zlen (encode_struct L be h) = layout_size L.
Proof. intros L be h H. split; [now apply decode_encode_exact|now apply encode_length]. Qed.
Print Assumptions C10_decode_encode.

(* the sequential codec reads every field at the offset NumPy reports for it *)
Theorem C10_field_at_offset : forall c be b f, In f (layout_of c) ->
  getf (fid f) (decode_struct (layout_of c) be b)
  = dec_elems be (fwidth f) (fcount f) (skipn (Z.to_nat (foff f)) b).
Proof. exact class_field_at_offset. Qed.
Print Assumptions C10_field_at_offset.

(* klass(bytes, endianness, check=False): every class but MGH keeps the bytes and the requested
   byte order; wrong sizes are refused *)
Theorem C10_from_bytes_faithful : forall c nat_be en b, c <> Mgh ->
  (zlen b = size_of c ->
     exists e, from_bytes c nat_be en b = Some (e, b) /\ (forall e0, en = Some e0 -> e = e0))
  /\ (zlen b <> size_of c -> from_bytes c nat_be en b = None).
Proof.
  intros c nat_be en b Hc. split; [now apply from_bytes_faithful|now apply from_bytes_wrong_size].
Qed.
Print Assumptions C10_from_bytes_faithful.

(* MGH.  FULL STATEMENT (from_bytes Mgh .. b = Some (true, b) for every b of the right size) is
   false of the faithful model: the constructor resets the affine fields when goodRASFlag is 0
   (finding S-C10a, see C10_mgh_from_bytes_refuted).  Proved: goodRASFlag <> 0. *)
Theorem C10_mgh_from_bytes_partial : forall nat_be en b, bytes_ok b -> zlen b = size_of Mgh ->
  sval 2 (getf f_goodRASFlag (decode_struct (layout_of Mgh) true b)) <> 0 ->
  from_bytes Mgh nat_be en b = Some (true, b).
Proof. exact mgh_from_bytes. Qed.
Print Assumptions C10_mgh_from_bytes_partial.

Theorem C10_mgh_from_bytes_refuted : exists b b', bytes_ok b /\ zlen b = size_of Mgh
  /\ from_bytes Mgh false None b = Some (true, b') /\ list_eqb b' b = false.
Proof.
  exists (repeat 7 28 ++ [0; 0] ++ repeat 7 80). eexists.
  split; [|split; [reflexivity|split; [vm_compute; reflexivity|]]].
  - apply Forall_forall. intros x Hx. apply in_app_or in Hx as [Hx|Hx]; [|apply in_app_or in Hx as [Hx|Hx]].
    + apply repeat_spec in Hx. subst. unfold byte_ok. lia.
    + destruct Hx as [<-|[<-|[]]]; unfold byte_ok; lia.
    + apply repeat_spec in Hx. subst. unfold byte_ok. lia.
  - vm_compute. reflexivity.
Qed.
Print Assumptions C10_mgh_from_bytes_refuted.

(* a byte-swapped copy has the other byte order, field-wise identical values, compares equal in
   both directions, and swapping back returns the original (every class but MGH, whose headers
   are always big endian: swapping is refused) *)
Theorem C10_swap_equal : forall c nat_be e b, c <> Mgh -> bytes_ok b -> zlen b = size_of c ->
  exists b', as_byteswapped c nat_be None (e, b) = Some (negb e, b')
    /\ zlen b' = size_of c
    /\ fields_of c (negb e, b') = fields_of c (e, b)
    /\ hdr_eq c (e, b) (negb e, b') = true /\ hdr_eq c (negb e, b') (e, b) = true
    /\ as_byteswapped c nat_be None (negb e, b') = Some (e, b).
Proof. exact swap_equal. Qed.
Print Assumptions C10_swap_equal.

Theorem C10_mgh_swap_refused : forall nat_be o, as_byteswapped Mgh nat_be None o = None
  /\ as_byteswapped Mgh nat_be (Some false) o = None
  /\ as_byteswapped Mgh nat_be (Some true) o = copy_hdr Mgh nat_be o.
Proof. exact mgh_swap_refused. Qed.
Print Assumptions C10_mgh_swap_refused.

(* byte order detection: for every Analyze-family header valid in byte order e (dim[0] in 0..7, and
   sizeof_hdr right when dim[0] = 0), whatever all its other bytes and whatever the platform's
   byte order, guessed_endian of the bytes is e; ECAT: sw_version = 74; MGH: always big *)
Theorem C10_endian_detected : forall c nat_be e b, bytes_ok b -> zlen b = size_of c ->
  (analyze_family c = true ->
     0 <= sval (dim_w c) (getf f_dim (decode_struct (layout_of c) e b)) <= 7 ->
     (sval (dim_w c) (getf f_dim (decode_struct (layout_of c) e b)) = 0 ->
      sval 4 (getf f_sizeof_hdr (decode_struct (layout_of c) e b)) = sizeof_hdr_of c) ->
     guessed_endian c nat_be b = e)
  /\ (c = Ecat -> hd 0 (getf f_sw_version (decode_struct (layout_of c) e b)) = 74 ->
      guessed_endian c nat_be b = e)
  /\ (c = Mgh -> guessed_endian c nat_be b = true).
Proof.
  intros c nat_be e b Hb Hl. split; [|split].
  - intros Hf. now apply endian_detected_analyze.
  - intros ->. now apply endian_detected_ecat.
  - intros ->. reflexivity.
Qed.
Print Assumptions C10_endian_detected.

(* check batteries, on the decoded field values of any header that fits its layout (every
   header decoded from bytes of the right size does: decode_fits).  None = a check raised. *)
Theorem C10_fix_idempotent : forall c h h1 r1, hdr_fits (layout_of c) h = true ->
  check_hdr c true h = Some (h1, r1) -> exists r2, check_hdr c true h1 = Some (h1, r2).
Proof. exact hdr_fix_idempotent. Qed.
Print Assumptions C10_fix_idempotent.

Theorem C10_fix_noop_on_clean : forall c h h0 r0, check_hdr c false h = Some (h0, r0) ->
  h0 = h /\ (Forall (fun r => level r = 0) r0 -> exists r1, check_hdr c true h = Some (h, r1)).
Proof.
  intros c h h0 r0 H. split; [now apply (hdr_check_only_pure c h h0 r0)|].
  intros Hz. now apply (hdr_fix_noop_on_clean c h h0 r0).
Qed.
Print Assumptions C10_fix_noop_on_clean.

(* after check_fix, check_only reports only problems of the classes no check repairs (unknown /
   unsupported datatype, bitpix without datatype, bad magic, offset not a multiple of 16, SPM origin) *)
Theorem C10_fix_clears : forall c h h1 r1, hdr_fits (layout_of c) h = true ->
  check_hdr c true h = Some (h1, r1) ->
  exists r2, check_hdr c false h1 = Some (h1, r2)
    /\ Forall (fun r => level r = 0 \/ unfixable (rmsg r) = true) r2.
Proof. exact hdr_fix_clears. Qed.
Print Assumptions C10_fix_clears.

(* check_fix reports the same (level, message class) list as check_only *)
Theorem C10_fix_reports_agree : forall c h h1 r1 h0 r0,
  check_hdr c true h = Some (h1, r1) -> check_hdr c false h = Some (h0, r0) ->
  map (fun r => (level r, rmsg r)) r1 = map (fun r => (level r, rmsg r)) r0.
Proof. exact hdr_reports_agree. Qed.
Print Assumptions C10_fix_reports_agree.

(* the same three facts on header BYTES: check_bytes = encode o check_hdr o decode.  Every value a
   repair writes fits the width / count of its field (fixv_fits, over the regenerated layouts), so the
   repaired header re-encodes and decodes to itself *)
Theorem C10_fix_idempotent_bytes : forall c be b b1 r1, bytes_ok b -> zlen b = size_of c ->
  check_bytes c true be b = Some (b1, r1) ->
  zlen b1 = size_of c /\ exists r2, check_bytes c true be b1 = Some (b1, r2).
Proof. exact bytes_fix_idempotent. Qed.
Print Assumptions C10_fix_idempotent_bytes.

Theorem C10_fix_noop_on_clean_bytes : forall c be b b0 r0, bytes_ok b -> zlen b = size_of c ->
  check_bytes c false be b = Some (b0, r0) ->
  b0 = b /\ (Forall (fun r => level r = 0) r0 -> exists r1, check_bytes c true be b = Some (b, r1)).
Proof. exact bytes_fix_noop_on_clean. Qed.
Print Assumptions C10_fix_noop_on_clean_bytes.

Theorem C10_fix_clears_bytes : forall c be b b1 r1, bytes_ok b -> zlen b = size_of c ->
  check_bytes c true be b = Some (b1, r1) ->
  exists r2, check_bytes c false be b1 = Some (b1, r2)
    /\ Forall (fun r => level r = 0 \/ unfixable (rmsg r) = true) r2.
Proof. exact bytes_fix_clears. Qed.
Print Assumptions C10_fix_clears_bytes.

(* decoded headers fit, so the four theorems above apply to every header object *)
Theorem C10_decoded_fits : forall c be b, bytes_ok b -> zlen b = size_of c ->
  hdr_fits (layout_of c) (decode_struct (layout_of c) be b) = true.
Proof. intros c be b Hb Hl. apply decode_fits; [assumption|]. rewrite layouts_size. lia. Qed.
Print Assumptions C10_decoded_fits.

(* conversion dst.from_header(src, check=False): the datatype code and every same-named field of
   equal width and kind that the conversion does not re-derive (magic, datatype, bitpix, dim, pixdim,
   glmin) are preserved ... *)
Theorem C10_convert_preserves_partial : forall src dst h h',
  from_header src dst false h = COk h' -> hdr_fits (layout_of src) h = true ->
  (forall i fs fd, find_field i (layout_of src) = Some fs -> find_field i (layout_of dst) = Some fd ->
     fwidth fs = fwidth fd -> fkind fs = fkind fd -> memZ i rederived = false ->
     getf i h' = getf i h)
  /\ (analyze_family dst = true -> find_field f_datatype (layout_of src) <> None ->
      sval 2 (getf f_datatype h') = sval 2 (getf f_datatype h)).
Proof.
  intros src dst h h' H Hfit. split.
  - intros i fs fd. now apply (convert_preserves_field src dst h h' i fs fd).
  - intros Hf Hs. now apply (convert_preserves_dtype src dst h h').
Qed.
Print Assumptions C10_convert_preserves_partial.

(* ... and so are the shape and the zooms (cast to the destination's float width), for every shape
   without the FreeSurfer conventions of NIfTI-1 (1 to 7 extents in 0..32767, not (27307, 1, 6, ...)).
   Not proved: shapes that go through the large-vector / ico7 conventions (covered by the
   correspondence check and the direct predicate). *)
Theorem C10_convert_preserves_shape_zooms : forall src dst h h' shape,
  analyze_family src = true -> analyze_family dst = true -> hdr_fits (layout_of src) h = true ->
  from_header src dst false h = COk h' -> get_shape src h = COk shape -> plain_shape shape ->
  get_shape dst h' = COk shape
  /\ get_zooms dst h' = map (f_cast (pix_w src) (pix_w dst)) (get_zooms src h).
Proof.
  intros src dst h h' shape Hs Hd Hf H Hsh Hp. split.
  - now apply (convert_preserves_shape src dst h h' shape).
  - now apply (convert_preserves_zooms src dst h h' shape).
Qed.
Print Assumptions C10_convert_preserves_shape_zooms.

(* the shape clause for EVERY shape, the FreeSurfer conventions of NIfTI-1 included (large vectors
   stored as dim[1] = -1 with the length in glmin; 163842 stored as 27307 x 1 x 6): whatever
   get_data_shape returns on the source is what it returns on the converted header.  Excluded, for
   a NIfTI-1 destination only, are the two shapes NIfTI-1 cannot tell from a convention:
   (-1, 1, 1, ...) and (27307, 1, 6, ...) - they read back as the convention's meaning. *)
Theorem C10_convert_preserves_shape_any : forall src dst h h' shape, analyze_family dst = true ->
  from_header src dst false h = COk h' -> get_shape src h = COk shape -> shape <> [] -> readable dst shape ->
  get_shape dst h' = COk shape.
Proof. exact convert_preserves_shape_any. Qed.
Print Assumptions C10_convert_preserves_shape_any.

(* the zooms clause for EVERY shape, FreeSurfer conventions included.  What the code does with pixdim there:
   set_data_shape stores as many extents as the shape has under every convention (dim[0] is the rank; a large
   vector becomes (-1, 1, 1, ...) with the length in glmin, 163842 becomes 27307 x 1 x 6), resets
   pixdim[rank+1:] to 1, and set_zooms then writes pixdim[1:rank+1]; get_zooms reads pixdim[1:dim[0]+1].  So the
   zooms are preserved (cast to the destination float width) whenever the conversion succeeds. *)
Theorem C10_convert_preserves_zooms_any : forall src dst h h' shape,
  analyze_family src = true -> analyze_family dst = true -> hdr_fits (layout_of src) h = true ->
  from_header src dst false h = COk h' -> get_shape src h = COk shape -> shape <> [] ->
  get_zooms dst h' = map (f_cast (pix_w src) (pix_w dst)) (get_zooms src h).
Proof. exact convert_preserves_zooms_any. Qed.
Print Assumptions C10_convert_preserves_zooms_any.

(* conversion with check=True: from_header(check=False) followed by check_fix, refused when a report
   reaches level 40.  Everything the battery does not repair (every field but sizeof_hdr, bitpix, pixdim,
   vox_offset, qform_code, sform_code, eol_check, version) is as after the unchecked conversion, hence the
   same-named fields, the datatype code and the shape are preserved; pixdim (zooms, qfac) may be
   repaired by _chk_pixdims / _chk_qfac and is covered by the C10_fix_* theorems instead *)
Theorem C10_convert_check_preserves : forall src dst h h',
  from_header src dst true h = COk h' -> hdr_fits (layout_of src) h = true ->
  (exists h0 rs, from_header src dst false h = COk h0 /\ check_hdr dst true h0 = Some (h', rs)
     /\ existsb (fun r : report => 40 <=? fst (fst r)) rs = false)
  /\ (forall i fs fd, find_field i (layout_of src) = Some fs -> find_field i (layout_of dst) = Some fd ->
       fwidth fs = fwidth fd -> fkind fs = fkind fd -> memZ i rederived = false -> memZ i repaired_fields = false ->
       getf i h' = getf i h)
  /\ (analyze_family dst = true -> find_field f_datatype (layout_of src) <> None ->
      sval 2 (getf f_datatype h') = sval 2 (getf f_datatype h))
  /\ (forall shape, analyze_family dst = true -> get_shape src h = COk shape -> plain_shape shape ->
      get_shape dst h' = COk shape).
Proof.
  intros src dst h h' H Hfit. destruct (from_header_check_split src dst h h' H) as (h0 & rs & H0 & C & X).
  split; [exists h0, rs; repeat split; assumption|]. split; [|split].
  - intros i fs fd Es Ed Ew Ek Hre Hrp. rewrite (check_hdr_other dst true h0 h' rs i C Hrp).
    now apply (convert_preserves_field src dst h h0 i fs fd).
  - intros Hf Hs. rewrite (check_hdr_other dst true h0 h' rs f_datatype C eq_refl).
    now apply (convert_preserves_dtype src dst h h0).
  - intros shape Hf Hs Hp.
    rewrite (get_shape_ext dst h' h0 (check_hdr_other dst true h0 h' rs f_dim C eq_refl)
                                    (check_hdr_other dst true h0 h' rs f_glmin C eq_refl)).
    now apply (convert_preserves_shape src dst h h0 shape).
Qed.
Print Assumptions C10_convert_check_preserves.

(* every header a class writes carries the signature its sniffer (may_contain_header) looks for: the
   bytes of the default header after ANY sequence of named-setter writes (arbitrary fitting values in every
   field but the protected ones: sizeof_hdr, magic, eol_check; smin for Analyze / SPM; version for MGH; xform
   codes only from the recoder) and the save-time finalisation (magic by single / pair), in either byte
   order.  NIfTI-2: `cifti` is what the CIFTI sniffer computes, and it is the header's intent_code looked up
   in the accepted intervals whenever dim[0] is in 0..7 (so a NIfTI-2 writer that never sets a CIFTI intent
   has signature ... false, Cifti2Image ... true).  This is the premise writer_sig of C12_load_picks_writer. *)
Theorem C10_written_header_has_signature : forall c be ws,
  Forall (fun w => allowed_write c w = true) ws ->
  (is_nifti c = true -> is_nifti1 c = false ->
     signature c (n2_cifti (written c be ws)) (written c be ws) = true
     /\ (0 <= sval 8 (getf f_dim (final_hdr c ws)) <= 7 ->
         n2_cifti (written c be ws) = in_intervals (sval 4 (getf f_intent_code (final_hdr c ws))) cifti_intents))
  /\ ((is_nifti c = false \/ is_nifti1 c = true) -> forall cf, signature c cf (written c be ws) = true).
Proof.
  intros c be ws Hw. split.
  - intros N N1. split; [now apply sig_nifti2|now apply n2_cifti_spec].
  - intros H cf. destruct (is_nifti1 c) eqn:N1; [now apply sig_nifti1|].
    destruct H as [N|]; [|discriminate]. destruct c; try discriminate.
    + now apply sig_analyze. + now apply sig_analyze. + now apply sig_analyze. + now apply sig_mgh. + reflexivity.
Qed.
Print Assumptions C10_written_header_has_signature.

(* ... and the premise "no public setter writes a protected field" is a table fact: the write set of every
   public setter of every header class (Tables.setter_writes_*, measured on every run by diffing the fields
   before / after calls with random arguments) is disjoint from the protected fields (vm_compute), so any
   sequence of setter writes keeps the class signature *)
Theorem C10_setters_keep_signature : forall c be ws,
  forallb (fun s => forallb (fun i => negb (memZ i (protected_fields c))) s) (setter_writes_of c) = true
  /\ (Forall (fun w => setter_write c w = true) ws ->
      (is_nifti c = true -> is_nifti1 c = false ->
         signature c (n2_cifti (written c be ws)) (written c be ws) = true)
      /\ ((is_nifti c = false \/ is_nifti1 c = true) -> forall cf, signature c cf (written c be ws) = true)).
Proof.
  intros c be ws. split; [apply setters_avoid_protected|]. intros H.
  pose proof (C10_written_header_has_signature c be ws (setter_writes_allowed c ws H)) as [A B].
  split; [intros N N1; exact (proj1 (A N N1))|exact B].
Qed.
Print Assumptions C10_setters_keep_signature.

(* the protection of smin matters: with raw item assignment (hdr['smin'] = 0x0031696e, a value that fits
   the field) an Analyze header spells the NIfTI-1 magic 'ni1\0' at 344:348 and loses its signature - such
   a file loads as Nifti1Pair (the corner C12 excludes).  No named Analyze / SPM setter writes smin. *)
Theorem C10_signature_raw_assignment_refuted : exists ws,
  Forall (fun w : Z * list Z => match find_field (fst w) (layout_of Analyze) with
                                | Some f => vals_fitb f (snd w) | None => false end = true) ws
  /\ signature Analyze false (written Analyze false ws) = false
  /\ signature Nifti1Pair false (written Analyze false ws) = true.
Proof.
  exists [(f_smin, [3238254])]. split; [repeat constructor|split; vm_compute; reflexivity].
Qed.
Print Assumptions C10_signature_raw_assignment_refuted.

(* which pixdim repairs check_fix can make (every Analyze-family class, every header that fits): pixdim[0] by
   _chk_qfac where the class has it, pixdim[1:4] by _chk_pixdims (zeros -> 1, then abs of all three if one is
   negative), pixdim[4:] never; so when pixdim[1:4] holds no zero and no negative the zooms are untouched.
   With C10_convert_check_preserves this is the zooms clause of conversion with check=True: for the header h0
   of the unchecked conversion (C10_convert_preserves_shape_zooms gives its zooms), provided h0 fits the
   destination layout (premise: not proved for from_header, checked by the byte-level correspondence). *)
Theorem C10_check_fix_pixdim : forall c h h' rs, analyze_family c = true -> hdr_fits (layout_of c) h = true ->
  check_hdr c true h = Some (h', rs) ->
  getf f_pixdim h'
  = (if existsb (fun k => match k with CkQfac => true | _ => false end) (battery_of c)
     then ck_fixv (view_env c h) CkQfac (firstn 1 (getf f_pixdim h)) else firstn 1 (getf f_pixdim h))
    ++ ck_fixv (view_env c h) CkPixdims (firstn 3 (skipn 1 (getf f_pixdim h))) ++ skipn 4 (getf f_pixdim h)
  /\ (any (f_le0 (pix_w c)) (firstn 3 (skipn 1 (getf f_pixdim h))) = false ->
      skipn 1 (getf f_pixdim h') = skipn 1 (getf f_pixdim h) /\ get_zooms c h' = get_zooms c h).
Proof.
  intros c h h' rs Hf Hfit H. split; [exact (check_fix_pixdim c h h' rs Hf Hfit H)|].
  now apply (check_fix_zooms_clean c h h' rs).
Qed.
Print Assumptions C10_check_fix_pixdim.

(* copies are independent of the original.  The mutable parts of a header object (struct-array
   buffer, extension list) are store locations; copy() / same-class from_header / image construction
   allocate fresh ones with the same contents.  For every store, every valid header reference and
   EVERY sequence of mutations applied through the original (true) or through the copy (false):
   each of the two shows exactly the mutations made through itself, never the other's; and the
   copy's ids differ from those of every object that existed before *)
Theorem C10_copy_independent : forall s r, ref_ok s r ->
  let (s', r') := copy_ref s r in
  (r_buf r' <> r_buf r /\ r_exts r' <> r_exts r /\ view s' r' = view s r
   /\ forall q, ref_ok s q -> view s' q = view s q /\ r_buf r' <> r_buf q /\ r_exts r' <> r_exts q)
  /\ forall ms, view (mutate_all s' ms r r') r = apply_own (view s r) true ms
              /\ view (mutate_all s' ms r r') r' = apply_own (view s r) false ms.
Proof.
  intros s r Hok. pose proof (copy_fresh s r Hok) as F. pose proof (fun ms => copy_independent s r ms Hok) as I.
  destruct (copy_ref s r) as [s' r']. destruct F as (A & B & _ & _ & C & D). split; [split; [exact A|split; [exact B|split; [exact C|exact D]]]|exact I].
Qed.
Print Assumptions C10_copy_independent.

(* non-vacuity: a populated big-endian NIfTI-1 header with three seeded defects (sizeof_hdr,
   bitpix, negative pixdim) is repaired, the repair is stable, and its byte order is detected *)
Definition nv_hdr : hdr :=
  setf f_sizeof_hdr [0] (setf f_bitpix [7]
    (setf f_pixdim [f_one 4; f_neg 4 (f_one 4); 0; f_one 4; f_one 4; f_one 4; f_one 4; f_one 4]
       (setf f_dim [3; 4; 5; 6; 1; 1; 1; 1] (default_hdr Nifti1)))).
Example C10_nonvacuous :
  hdr_fits (layout_of Nifti1) nv_hdr = true
  /\ (exists h1 r1, check_hdr Nifti1 true nv_hdr = Some (h1, r1) /\ h1 <> nv_hdr
        /\ map (fun r => (level r, rmsg r)) r1
           = [(30, MSizeof); (0, MNone); (10, MBpMismatch); (35, MPixZeroNeg); (0, MNone); (0, MNone);
              (0, MNone); (0, MNone); (0, MNone)]
        /\ check_hdr Nifti1 false h1 = Some (h1, repeat rep_ok 9))
  /\ guessed_endian Nifti1 false (encode_struct (layout_of Nifti1) true nv_hdr) = true.
Proof.
  split; [vm_compute; reflexivity|]. split; [|vm_compute; reflexivity].
  eexists. eexists. split; [vm_compute; reflexivity|]. split; [vm_compute; discriminate|].
  split; vm_compute; reflexivity.
Qed.
