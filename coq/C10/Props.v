From Coq Require Import ZArith List Bool Lia.
From NV Require Import Base.Bytes C10.Layout C10.LayoutLemmas C10.Tables C10.Model.
Import ListNotations.
Open Scope Z_scope.
Theorem C10_bytes_roundtrip : forall L be b, bytes_ok b -> zlen b = layout_size L ->
  encode_struct L be (decode_struct L be b) = b.
Proof. exact encode_decode. Qed.
Print Assumptions C10_bytes_roundtrip.
