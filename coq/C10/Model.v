(* C10/Model.v — binary headers as views of their bytes (definitions only).
   Counterparts in /repo/nibabel:
     wrapstruct.py  WrapStruct.__init__/binaryblock/endianness/copy/__eq__/as_byteswapped
                    -> from_bytes / (snd) / (fst) / copy_hdr / hdr_eq / as_byteswapped
     analyze.py     AnalyzeHeader.guessed_endian, default_structarr, _chk_sizeof_hdr, _chk_datatype,
                    _chk_bitpix, _chk_pixdims, from_header, get/set_data_shape, get/set_zooms
     spm99analyze.py _chk_origin;  nifti1.py _chk_qfac/_chk_magic/_chk_offset/_chk_xform_code,
                    get/set_data_shape (FreeSurfer hacks), _clean_after_mapping
     nifti2.py      _chk_eol_check;  freesurfer/mghformat.py MGHHeader.__init__, chk_version
     ecat.py        EcatHeader.guessed_endian
     batteryrunners.py BatteryRunner.check_only / check_fix -> run_checks
   A header object is (be, bytes): its byte order and its binaryblock.  Field values are the
   unsigned images of Layout.decode_struct; floats are bit patterns classified by sign / zero /
   nan / inf and, for vox_offset only, compared with small integers exactly. *)
From Coq Require Import ZArith List Bool.
From NV Require Import Base.Bytes C10.Layout C10.Tables.
Import ListNotations.
Open Scope Z_scope.

Inductive hclass := Analyze | Spm99 | Spm2 | Nifti1 | Nifti1Pair | Nifti2 | Nifti2Pair | Mgh | Ecat.

Definition layout_of (c : hclass) : layout :=
  match c with
  | Analyze => L_analyze | Spm99 => L_spm99 | Spm2 => L_spm2
  | Nifti1 => L_nifti1 | Nifti1Pair => L_nifti1pair | Nifti2 => L_nifti2 | Nifti2Pair => L_nifti2pair
  | Mgh => L_mgh | Ecat => L_ecat
  end.
Definition size_of (c : hclass) : Z :=
  match c with
  | Analyze => size_analyze | Spm99 => size_spm99 | Spm2 => size_spm2
  | Nifti1 => size_nifti1 | Nifti1Pair => size_nifti1pair | Nifti2 => size_nifti2
  | Nifti2Pair => size_nifti2pair | Mgh => size_mgh | Ecat => size_ecat
  end.
Definition battery_of (c : hclass) : list ck_id :=
  match c with
  | Analyze => battery_analyze | Spm99 => battery_spm99 | Spm2 => battery_spm2
  | Nifti1 => battery_nifti1 | Nifti1Pair => battery_nifti1pair | Nifti2 => battery_nifti2
  | Nifti2Pair => battery_nifti2pair | Mgh => battery_mgh | Ecat => battery_ecat
  end.
Definition sizeof_hdr_of (c : hclass) : Z :=
  match c with
  | Analyze => sizeof_hdr_analyze | Spm99 => sizeof_hdr_spm99 | Spm2 => sizeof_hdr_spm2
  | Nifti1 => sizeof_hdr_nifti1 | Nifti1Pair => sizeof_hdr_nifti1pair | Nifti2 => sizeof_hdr_nifti2
  | Nifti2Pair => sizeof_hdr_nifti2pair | Mgh | Ecat => 0
  end.
Definition dtcodes_of (c : hclass) : list (Z * Z) :=
  match c with
  | Analyze => dtcodes_analyze | Spm99 => dtcodes_spm99 | Spm2 => dtcodes_spm2
  | Nifti1 => dtcodes_nifti1 | Nifti1Pair => dtcodes_nifti1pair | Nifti2 => dtcodes_nifti2
  | Nifti2Pair => dtcodes_nifti2pair | Mgh | Ecat => []
  end.
Definition single_magic_of (c : hclass) : list Z :=
  match c with
  | Nifti1 => single_magic_nifti1 | Nifti1Pair => single_magic_nifti1pair
  | Nifti2 => single_magic_nifti2 | Nifti2Pair => single_magic_nifti2pair | _ => []
  end.
Definition pair_magic_of (c : hclass) : list Z :=
  match c with
  | Nifti1 => pair_magic_nifti1 | Nifti1Pair => pair_magic_nifti1pair
  | Nifti2 => pair_magic_nifti2 | Nifti2Pair => pair_magic_nifti2pair | _ => []
  end.
Definition single_vox_offset_of (c : hclass) : Z :=
  match c with
  | Nifti1 => single_vox_offset_nifti1 | Nifti1Pair => single_vox_offset_nifti1pair
  | Nifti2 => single_vox_offset_nifti2 | Nifti2Pair => single_vox_offset_nifti2pair | _ => 0
  end.
Definition is_single_of (c : hclass) : bool :=
  match c with
  | Nifti1 => is_single_nifti1 | Nifti1Pair => is_single_nifti1pair
  | Nifti2 => is_single_nifti2 | Nifti2Pair => is_single_nifti2pair | _ => false
  end.
Definition xform_codes_of (c : hclass) : list Z :=
  match c with
  | Nifti1 => xform_codes_nifti1 | Nifti1Pair => xform_codes_nifti1pair
  | Nifti2 => xform_codes_nifti2 | Nifti2Pair => xform_codes_nifti2pair | _ => []
  end.
Definition is_nifti (c : hclass) : bool :=
  match c with Nifti1 | Nifti1Pair | Nifti2 | Nifti2Pair => true | _ => false end.
Definition is_nifti1 (c : hclass) : bool :=
  match c with Nifti1 | Nifti1Pair => true | _ => false end.
Definition is_spm (c : hclass) : bool :=
  match c with Spm99 | Spm2 => true | _ => false end.
Definition analyze_family (c : hclass) : bool :=
  match c with Mgh | Ecat => false | _ => true end.

Definition fwidth_of (c : hclass) (i : Z) : nat :=
  match find_field i (layout_of c) with Some f => fwidth f | None => 0%nat end.
Definition fkind_of (c : hclass) (i : Z) : kind :=
  match find_field i (layout_of c) with Some f => fkind f | None => KStr end.

Fixpoint list_eqb (a b : list Z) : bool :=
  match a, b with
  | [], [] => true
  | x :: a', y :: b' => (x =? y) && list_eqb a' b'
  | _, _ => false
  end.

(* ------------------------------------------------------------------ IEEE bit patterns *)
Definition mant_bits (w : nat) : Z := if Nat.eqb w 4 then 23 else 52.
Definition exp_bits (w : nat) : Z := if Nat.eqb w 4 then 8 else 11.
Definition sign_bit (w : nat) : Z := 2 ^ (8 * Z.of_nat w - 1).
Definition f_sign (w : nat) (v : Z) : bool := sign_bit w <=? v.
Definition f_exp (w : nat) (v : Z) : Z := (v / 2 ^ mant_bits w) mod 2 ^ exp_bits w.
Definition f_mant (w : nat) (v : Z) : Z := v mod 2 ^ mant_bits w.
Definition f_exp_max (w : nat) : Z := 2 ^ exp_bits w - 1.
Definition f_bias (w : nat) : Z := 2 ^ (exp_bits w - 1) - 1.
Definition f_is_nan w v := (f_exp w v =? f_exp_max w) && negb (f_mant w v =? 0).
Definition f_is_inf w v := (f_exp w v =? f_exp_max w) && (f_mant w v =? 0).
Definition f_is_zero w v := (f_exp w v =? 0) && (f_mant w v =? 0).
Definition f_lt0 w v := f_sign w v && negb (f_is_nan w v) && negb (f_is_zero w v).   (* x < 0 *)
Definition f_le0 w v := f_is_zero w v || f_lt0 w v.                                  (* x <= 0 *)
Definition f_abs (w : nat) (v : Z) : Z := v mod sign_bit w.                          (* np.abs *)
(* the float equal to a small non-negative integer k (k < 2^mant_bits) *)
Definition f_of_nat (w : nat) (k : Z) : Z :=
  if k <=? 0 then 0
  else let l := Z.log2 k in (l + f_bias w) * 2 ^ mant_bits w + (k * 2 ^ (mant_bits w - l) - 2 ^ mant_bits w).
Definition f_one (w : nat) : Z := f_of_nat w 1.
Definition f_neg (w : nat) (v : Z) : Z := if f_sign w v then v - sign_bit w else v + sign_bit w.
(* finite value = (+/-) f_sig * 2 ^ f_e2 *)
Definition f_sig w v := if f_exp w v =? 0 then f_mant w v else f_mant w v + 2 ^ mant_bits w.
Definition f_e2 w v := (if f_exp w v =? 0 then 1 else f_exp w v) - f_bias w - mant_bits w.
Definition f_snum w v := if f_sign w v then - f_sig w v else f_sig w v.
(* x < k, x == k for an integer k (Python float comparison is exact) *)
Definition f_lt_int w v k :=
  if f_is_nan w v then false else if f_is_inf w v then f_sign w v
  else if 0 <=? f_e2 w v then f_snum w v * 2 ^ f_e2 w v <? k else f_snum w v <? k * 2 ^ (- f_e2 w v).
(* not (x % 16): x is a finite integer multiple of 16 *)
Definition f_mult16 w v :=
  if f_is_nan w v || f_is_inf w v then false
  else if 0 <=? f_e2 w v then (f_sig w v * 2 ^ f_e2 w v) mod 16 =? 0
  else f_sig w v mod 2 ^ (- f_e2 w v + 4) =? 0.

(* C casts between float widths (NumPy astype on assignment): widening is exact (signalling
   NaNs quieted); narrowing rounds to nearest even, overflows to inf *)
Definition f_widen (v : Z) : Z :=
  let s := if f_sign 4 v then sign_bit 8 else 0 in
  if f_exp 4 v =? 255 then
    s + 2047 * 2 ^ 52 + (if f_mant 4 v =? 0 then 0 else Z.lor (f_mant 4 v * 2 ^ 29) (2 ^ 51))
  else if f_sig 4 v =? 0 then s
  else let sg := f_sig 4 v in let l := Z.log2 sg in
       (* value = sg * 2^e2 = 1.xxx * 2^(e2 + l) *)
       s + (f_e2 4 v + l + 1023) * 2 ^ 52 + (sg * 2 ^ (52 - l) - 2 ^ 52).
Definition round_half_even (n d : Z) : Z :=   (* n / d to nearest, ties to even; d > 0 *)
  let q := n / d in let r := n mod d in
  if 2 * r <? d then q else if d <? 2 * r then q + 1 else if Z.even q then q else q + 1.
Definition f_narrow (v : Z) : Z :=
  let s := if f_sign 8 v then sign_bit 4 else 0 in
  if f_exp 8 v =? 2047 then
    s + 255 * 2 ^ 23 + (if f_mant 8 v =? 0 then 0 else Z.lor (f_mant 8 v / 2 ^ 29) (2 ^ 22))
  else if f_sig 8 v =? 0 then s
  else let sg := f_sig 8 v in let e2 := f_e2 8 v in
       let top := e2 + Z.log2 sg in                  (* exponent of the leading bit *)
       let q := Z.max (top - 23) (-149) in           (* exponent of the target quantum *)
       let n := round_half_even sg (2 ^ (q - e2)) in
       let bits := (q + 149) * 2 ^ 23 + n in
       if 255 * 2 ^ 23 <=? bits then s + 255 * 2 ^ 23 else s + bits.
Definition f_cast (sw dw : nat) (v : Z) : Z :=
  if Nat.eqb sw dw then v else if Nat.ltb sw dw then f_widen v else f_narrow v.
(* integer -> float (round to nearest even) and float -> 64-bit integer (C cast: truncation;
   NaN, inf and out-of-range give the x86 "integer indefinite" value -2^63) *)
Definition f_of_Z (w : nat) (z : Z) : Z :=
  if z =? 0 then 0 else
  let s := if z <? 0 then sign_bit w else 0 in
  let m := Z.abs z in let l := Z.log2 m in let mb := mant_bits w in
  if l <=? mb then s + (l + f_bias w) * 2 ^ mb + (m * 2 ^ (mb - l) - 2 ^ mb)
  else s + (l + f_bias w) * 2 ^ mb + (round_half_even m (2 ^ (l - mb)) - 2 ^ mb).
Definition f_to_int64 (w : nat) (v : Z) : Z :=       (* unsigned image of the int64 result *)
  if f_is_nan w v || f_is_inf w v then 2 ^ 63 else
  let t := if 0 <=? f_e2 w v then f_snum w v * 2 ^ f_e2 w v else Z.quot (f_snum w v) (2 ^ (- f_e2 w v)) in
  if (- 2 ^ 63 <=? t) && (t <? 2 ^ 63) then t mod 2 ^ 64 else 2 ^ 63.

(* ------------------------------------------------------------------ check batteries *)
Inductive msg := MNone | MSizeof | MDtUnrec | MDtUnsup | MBpNoDt | MBpMismatch | MPixZero | MPixNeg
               | MPixZeroNeg | MQfac | MMagic | MOffLow | MOffNot16 | MQform | MSform | MEolZero | MEolBad
               | MOrigin | MVersion.
(* problem_level, message class, fix_msg non-empty *)
Definition report := (Z * msg * bool)%type.
Definition rep_ok : report := (0, MNone, false).

Inductive slot := SSizeof | SBitpix | SSpat | SQfac | SOffset | SQform | SSform | SEol | SVersion.
Record cslots := mkSlots { s_sizeof : list Z; s_bitpix : list Z; s_spat : list Z; s_qfac : list Z;
                           s_offset : list Z; s_qform : list Z; s_sform : list Z; s_eol : list Z;
                           s_version : list Z }.
(* what the checks read but never write *)
Record cenv := mkEnv { e_cls : hclass; e_datatype : list Z; e_magic : list Z; e_dim : list Z; e_origin : list Z }.

Definition get_slot (s : slot) (v : cslots) : list Z :=
  match s with
  | SSizeof => s_sizeof v | SBitpix => s_bitpix v | SSpat => s_spat v | SQfac => s_qfac v
  | SOffset => s_offset v | SQform => s_qform v | SSform => s_sform v | SEol => s_eol v
  | SVersion => s_version v
  end.
Definition put_slot (s : slot) (x : list Z) (v : cslots) : cslots :=
  match s with
  | SSizeof => mkSlots x (s_bitpix v) (s_spat v) (s_qfac v) (s_offset v) (s_qform v) (s_sform v) (s_eol v) (s_version v)
  | SBitpix => mkSlots (s_sizeof v) x (s_spat v) (s_qfac v) (s_offset v) (s_qform v) (s_sform v) (s_eol v) (s_version v)
  | SSpat => mkSlots (s_sizeof v) (s_bitpix v) x (s_qfac v) (s_offset v) (s_qform v) (s_sform v) (s_eol v) (s_version v)
  | SQfac => mkSlots (s_sizeof v) (s_bitpix v) (s_spat v) x (s_offset v) (s_qform v) (s_sform v) (s_eol v) (s_version v)
  | SOffset => mkSlots (s_sizeof v) (s_bitpix v) (s_spat v) (s_qfac v) x (s_qform v) (s_sform v) (s_eol v) (s_version v)
  | SQform => mkSlots (s_sizeof v) (s_bitpix v) (s_spat v) (s_qfac v) (s_offset v) x (s_sform v) (s_eol v) (s_version v)
  | SSform => mkSlots (s_sizeof v) (s_bitpix v) (s_spat v) (s_qfac v) (s_offset v) (s_qform v) x (s_eol v) (s_version v)
  | SEol => mkSlots (s_sizeof v) (s_bitpix v) (s_spat v) (s_qfac v) (s_offset v) (s_qform v) (s_sform v) x (s_version v)
  | SVersion => mkSlots (s_sizeof v) (s_bitpix v) (s_spat v) (s_qfac v) (s_offset v) (s_qform v) (s_sform v) (s_eol v) x
  end.

(* the slot a check may write (None: the check never modifies the header) *)
Definition ck_slot (k : ck_id) : option slot :=
  match k with
  | CkSizeof => Some SSizeof | CkDatatype => None | CkBitpix => Some SBitpix | CkPixdims => Some SSpat
  | CkQfac => Some SQfac | CkMagic => None | CkOffset => Some SOffset | CkQform => Some SQform
  | CkSform => Some SSform | CkEol => Some SEol | CkOrigin => None | CkVersion => Some SVersion
  end.

Fixpoint lookup (k : Z) (t : list (Z * Z)) : option Z :=
  match t with [] => None | (a, b) :: r => if a =? k then Some b else lookup k r end.

Definition sval (w : nat) (x : list Z) : Z := to_signed w (hd 0 x).      (* int(hdr[field]) *)
Definition dt_code (e : cenv) : Z := sval 2 (e_datatype e).
Definition magic_str (e : cenv) : list Z := rstrip0 (e_magic e).         (* hdr['magic'].item() *)
Definition pix_w (c : hclass) : nat := fwidth_of c f_pixdim.
Definition off_w (c : hclass) : nat := fwidth_of c f_vox_offset.
Definition off_is_float (c : hclass) : bool := match fkind_of c f_vox_offset with KFloat => true | _ => false end.
Definition xform_w (c : hclass) : nat := fwidth_of c f_qform_code.
Definition dim_w (c : hclass) : nat := fwidth_of c f_dim.

Definition eol_good : list Z := [13; 10; 26; 10].
Definition wrap16 (z : Z) : Z := to_signed 2 (of_signed 2 z).

Definition any (f : Z -> bool) (l : list Z) : bool := existsb f l.
Definition all (f : Z -> bool) (l : list Z) : bool := forallb f l.
Fixpoint all2 (f : Z -> Z -> bool) (a b : list Z) : bool :=
  match a, b with
  | x :: a', y :: b' => f x y && all2 f a' b'
  | _, _ => true
  end.

(* vox_offset tests, on the float bit pattern (NIfTI-1) or the int64 (NIfTI-2) *)
Definition off_is0 c x := if off_is_float c then f_is_zero (off_w c) (hd 0 x) else sval (off_w c) x =? 0.
Definition off_lt c x k := if off_is_float c then f_lt_int (off_w c) (hd 0 x) k else sval (off_w c) x <? k.
Definition off_mult16 c x := if off_is_float c then f_mult16 (off_w c) (hd 0 x) else sval (off_w c) x mod 16 =? 0.
Definition off_of_int c k := if off_is_float c then f_of_nat (off_w c) k else of_signed (off_w c) k.
Definition off_too_low (e : cenv) x :=
  list_eqb (magic_str e) (single_magic_of (e_cls e)) && off_lt (e_cls e) x (single_vox_offset_of (e_cls e)).

Definition origin_ok (e : cenv) : bool :=
  let o := map (to_signed 2) (firstn 3 (e_origin e)) in
  let d := map (to_signed 2) (firstn 3 (skipn 1 (e_dim e))) in
  negb (any (fun v => negb (v =? 0)) o)
  || (all2 (fun a b => wrap16 (- b) <? a) o d && all2 (fun a b => a <? wrap16 (b * 2)) o d).

(* does the check see a problem in slot value x ? *)
Definition ck_bad (e : cenv) (k : ck_id) (x : list Z) : bool :=
  let c := e_cls e in
  match k with
  | CkSizeof => negb (sval 4 x =? sizeof_hdr_of c)
  | CkDatatype => match lookup (dt_code e) (dtcodes_of c) with None => true | Some sz => sz =? 0 end
  | CkBitpix => match lookup (dt_code e) (dtcodes_of c) with None => true | Some sz => negb (sz * 8 =? sval 2 x) end
  | CkPixdims => any (f_le0 (pix_w c)) x
  | CkQfac => negb ((hd 0 x =? f_one (pix_w c)) || (hd 0 x =? f_neg (pix_w c) (f_one (pix_w c))))
  | CkMagic => negb (list_eqb (magic_str e) (pair_magic_of c) || list_eqb (magic_str e) (single_magic_of c))
  | CkOffset => negb (off_is0 c x) && (off_too_low e x || negb (off_mult16 c x))
  | CkQform | CkSform => negb (memZ (sval (xform_w c) x) (xform_codes_of c))
  | CkEol => negb (list_eqb (map (to_signed 1) x) eol_good)
  | CkOrigin => negb (origin_ok e)
  | CkVersion => negb (sval 4 x =? 1)
  end.

Definition ck_rep (e : cenv) (k : ck_id) (fix_ : bool) (x : list Z) : report :=
  let c := e_cls e in
  if negb (ck_bad e k x) then rep_ok else
  match k with
  | CkSizeof => (30, MSizeof, fix_)
  | CkDatatype => match lookup (dt_code e) (dtcodes_of c) with None => (40, MDtUnrec, fix_) | Some _ => (40, MDtUnsup, fix_) end
  | CkBitpix => match lookup (dt_code e) (dtcodes_of c) with None => (10, MBpNoDt, fix_) | Some _ => (10, MBpMismatch, fix_) end
  | CkPixdims =>
      let z := any (f_is_zero (pix_w c)) x in let n := any (f_lt0 (pix_w c)) x in
      if n then (35, (if z then MPixZeroNeg else MPixNeg), fix_) else (30, MPixZero, fix_)
  | CkQfac => (20, MQfac, fix_)
  | CkMagic => (45, MMagic, fix_)
  | CkOffset => if off_too_low e x then (40, MOffLow, fix_) else (30, MOffNot16, fix_)
  | CkQform => (30, MQform, fix_)
  | CkSform => (30, MSform, fix_)
  | CkEol => if all (fun v => v =? 0) x then (20, MEolZero, fix_) else (40, MEolBad, fix_)
  | CkOrigin => (20, MOrigin, fix_)
  | CkVersion => (40, MVersion, false)
  end.

(* the slot value after the check's repair *)
Definition ck_fixv (e : cenv) (k : ck_id) (x : list Z) : list Z :=
  let c := e_cls e in
  if negb (ck_bad e k x) then x else
  match k with
  | CkSizeof => [of_signed 4 (sizeof_hdr_of c)]
  | CkBitpix => match lookup (dt_code e) (dtcodes_of c) with None => x | Some sz => [of_signed 2 (sz * 8)] end
  | CkPixdims =>
      let w := pix_w c in
      let x1 := map (fun v => if f_is_zero w v then f_one w else v) x in   (* spat_dims[zero_dims] = 1 *)
      if any (f_lt0 w) x then map (f_abs w) x1 else x1                    (* spat_dims = np.abs(spat_dims) *)
  | CkQfac => [f_one (pix_w c)]
  | CkOffset => if off_too_low e x then [off_of_int c (single_vox_offset_of c)] else x
  | CkQform | CkSform => [0]
  | CkEol => eol_good
  | CkVersion => [1]
  | CkDatatype | CkMagic | CkOrigin => x
  end.

(* f'... {int(offset)} ...' raises OverflowError when offset is -inf *)
Definition ck_raises (e : cenv) (k : ck_id) (x : list Z) : bool :=
  match k with
  | CkOffset => off_is_float (e_cls e) && negb (off_is0 (e_cls e) x) && off_too_low e x
                && f_is_inf (off_w (e_cls e)) (hd 0 x)
  | _ => false
  end.

Definition slot_val (k : ck_id) (v : cslots) : list Z :=
  match ck_slot k with Some s => get_slot s v | None => [] end.
Definition slot_upd (k : ck_id) (x : list Z) (v : cslots) : cslots :=
  match ck_slot k with Some s => put_slot s x v | None => v end.

(* BatteryRunner.check_only (fix_ = false) / check_fix (fix_ = true): the checks run in order, each
   on the object as left by the previous ones; None = a check raised *)
Fixpoint run_checks (e : cenv) (fix_ : bool) (ks : list ck_id) (v : cslots) : option (cslots * list report) :=
  match ks with
  | [] => Some (v, [])
  | k :: ks' =>
      let x := slot_val k v in
      if ck_raises e k x then None else
      let r := ck_rep e k fix_ x in
      let v' := if fix_ then slot_upd k (ck_fixv e k x) v else v in
      match run_checks e fix_ ks' v' with
      | Some (v'', rs) => Some (v'', r :: rs)
      | None => None
      end
  end.

(* ---- the fields the checks touch, read from / written back to a decoded header *)
Definition view_env (c : hclass) (h : hdr) : cenv :=
  mkEnv c (getf f_datatype h) (getf f_magic h) (getf f_dim h) (getf f_origin h).
Definition view_slots (h : hdr) : cslots :=
  let p := getf f_pixdim h in
  mkSlots (getf f_sizeof_hdr h) (getf f_bitpix h) (firstn 3 (skipn 1 p)) (firstn 1 p)
          (getf f_vox_offset h) (getf f_qform_code h) (getf f_sform_code h) (getf f_eol_check h)
          (getf f_version h).
Definition writeback (v : cslots) (h : hdr) : hdr :=
  let p := getf f_pixdim h in
  setf f_sizeof_hdr (s_sizeof v) (setf f_bitpix (s_bitpix v)
  (setf f_pixdim (s_qfac v ++ s_spat v ++ skipn 4 p)
  (setf f_vox_offset (s_offset v) (setf f_qform_code (s_qform v) (setf f_sform_code (s_sform v)
  (setf f_eol_check (s_eol v) (setf f_version (s_version v) h))))))).

Definition check_hdr (c : hclass) (fix_ : bool) (h : hdr) : option (hdr * list report) :=
  match run_checks (view_env c h) fix_ (battery_of c) (view_slots h) with
  | None => None
  | Some (v, rs) => Some (writeback v h, rs)
  end.

(* on a header object (be, bytes) *)
Definition check_bytes (c : hclass) (fix_ : bool) (be : bool) (b : list Z) : option (list Z * list report) :=
  match check_hdr c fix_ (decode_struct (layout_of c) be b) with
  | None => None
  | Some (h, rs) => Some (encode_struct (layout_of c) be h, rs)
  end.

(* ------------------------------------------------------------------ header objects *)
Definition hobj := (bool * list Z)%type.

(* guessed_endian(np.ndarray((), template_dtype, buffer=b)); nat_be: the platform is big endian *)
Definition guess_analyze (nat_be : bool) (sz : Z) (dim0_native sizeof_swapped : Z) : bool :=
  if dim0_native =? 0 then (if sizeof_swapped =? sz then negb nat_be else nat_be)
  else if (1 <=? dim0_native) && (dim0_native <=? 7) then nat_be
  else negb nat_be.
Definition guessed_endian (c : hclass) (nat_be : bool) (b : list Z) : bool :=
  let hn := decode_struct (layout_of c) nat_be b in
  let hs := decode_struct (layout_of c) (negb nat_be) b in
  match c with
  | Mgh => true
  | Ecat => if hd 0 (getf f_sw_version hn) =? 74 then nat_be else negb nat_be
  | _ => guess_analyze nat_be (sizeof_hdr_of c) (sval (dim_w c) (getf f_dim hn)) (sval 4 (getf f_sizeof_hdr hs))
  end.

(* MGHHeader._set_affine_default *)
Definition mgh_default_affine (h : hdr) : hdr :=
  let o := f_one 4 in let m := f_neg 4 o in
  setf f_goodRASFlag [1] (setf f_delta [o; o; o]
  (setf f_Mdc [m; 0; 0; 0; 0; o; 0; m; 0] (setf f_Pxyz_c [0; 0; 0] h))).

(* klass(binaryblock, endianness, check=False); endianness None = guess *)
Definition from_bytes (c : hclass) (nat_be : bool) (endianness : option bool) (b : list Z) : option hobj :=
  match c with
  | Mgh =>
      let b1 := if hdr_size_mgh <=? zlen b then take (size_of c) b ++ zeros (size_of c - zlen b) else b in
      if negb (zlen b1 =? size_of c) then None else
      let h := decode_struct (layout_of c) true b1 in
      let h' := if sval 2 (getf f_goodRASFlag h) =? 0 then mgh_default_affine h else h in
      Some (true, encode_struct (layout_of c) true h')
  | _ =>
      if negb (zlen b =? size_of c) then None else
      Some (match endianness with Some e => e | None => guessed_endian c nat_be b end, b)
  end.

Definition copy_hdr (c : hclass) (nat_be : bool) (o : hobj) : option hobj :=
  from_bytes c nat_be (Some (fst o)) (snd o).

(* as_byteswapped(endianness); target None = the other byte order *)
Definition as_byteswapped (c : hclass) (nat_be : bool) (target : option bool) (o : hobj) : option hobj :=
  match c with
  | Mgh => match target with Some true => copy_hdr c nat_be o | _ => None end
  | _ =>
      let t := match target with Some t => t | None => negb (fst o) end in
      if Bool.eqb t (fst o) then copy_hdr c nat_be o
      else from_bytes c nat_be (Some t) (swap_struct (layout_of c) (snd o))
  end.

(* WrapStruct.__eq__ *)
Definition hdr_eq (c : hclass) (a b : hobj) : bool :=
  if Bool.eqb (fst a) (fst b) then list_eqb (snd a) (snd b)
  else list_eqb (snd a) (swap_struct (layout_of c) (snd b)).

(* field values of a header object *)
Definition fields_of (c : hclass) (o : hobj) : hdr := decode_struct (layout_of c) (fst o) (snd o).

(* ------------------------------------------------------------------ default headers *)
Definition pad_to (n : nat) (l : list Z) : list Z := firstn n (l ++ repeat 0 n).
Definition default_hdr (c : hclass) : hdr :=
  let h0 := decode_struct (layout_of c) false (zeros (size_of c)) in
  match c with
  | Mgh =>
      setf f_version [1] (setf f_dims [1; 1; 1; 1] (setf f_type [3] (mgh_default_affine h0)))
  | Ecat =>
      setf f_magic_number (pad_to 14 [77; 65; 84; 82; 73; 88; 55; 50])
        (setf f_sw_version [74] (setf f_ecat_calibration_factor [f_one 4] h0))
  | _ =>
      let o := f_one (pix_w c) in
      let h1 := setf f_sizeof_hdr [of_signed 4 (sizeof_hdr_of c)]
                (setf f_dim [0; 1; 1; 1; 1; 1; 1; 1] (setf f_pixdim (repeat o 8)
                (setf f_datatype [16] (setf f_bitpix [32] h0)))) in
      let h2 := if is_spm c || is_nifti c then setf f_scl_slope [f_one (fwidth_of c f_scl_slope)] h1 else h1 in
      let h3 := if is_nifti c then
                  setf f_magic (pad_to 4 (if is_single_of c then single_magic_of c else pair_magic_of c)) h2
                else h2 in
      if negb (is_nifti c) || is_nifti1 c then h3 else setf f_eol_check eol_good h3
  end.
Definition default_obj (c : hclass) (be : bool) : hobj :=
  (match c with Mgh => true | _ => be end,
   encode_struct (layout_of c) (match c with Mgh => true | _ => be end) (default_hdr c)).

(* ------------------------------------------------------------------ from_header (Analyze family) *)
Inductive cerr := ErrDtype | ErrShape | ErrZooms | ErrCheck | ErrRaise | ErrScope.
Inductive cres (A : Type) := COk (a : A) | CErr (e : cerr).
Arguments COk {A}. Arguments CErr {A}.

(* l[1:stop] with Python's treatment of a negative or too large stop *)
Definition py_slice1 (stop : Z) (l : list Z) : list Z :=
  let n := zlen l in
  let s := if stop <? 0 then Z.max 0 (stop + n) else Z.min stop n in
  if s <=? 1 then [] else take (s - 1) (drop 1 l).

Definition prefix3 (l : list Z) (a b c : Z) : bool :=
  match l with x :: y :: z :: _ => (x =? a) && (y =? b) && (z =? c) | _ => false end.

(* AnalyzeHeader.get_data_shape / Nifti1Header.get_data_shape (FreeSurfer hacks) *)
Definition get_shape (c : hclass) (h : hdr) : cres (list Z) :=
  let dims := map (to_signed (dim_w c)) (getf f_dim h) in
  let nd := hd 0 dims in
  let shape := if nd =? 0 then [0] else py_slice1 (nd + 1) dims in
  if is_nifti1 c then
    if prefix3 shape (-1) 1 1 then
      let vl := sval 4 (getf f_glmin h) in
      if vl =? 0 then CErr ErrShape else COk (vl :: 1 :: 1 :: skipn 3 shape)
    else if prefix3 shape 27307 1 6 then COk (163842 :: 1 :: 1 :: skipn 3 shape)
    else COk shape
  else COk shape.

Definition get_zooms (c : hclass) (h : hdr) : list Z :=     (* float bit patterns of width pix_w c *)
  let nd := sval (dim_w c) (getf f_dim h) in
  if nd =? 0 then [f_one (pix_w c)] else py_slice1 (nd + 1) (getf f_pixdim h).

Definition fits_signed (w : nat) (z : Z) : bool := (- (pow256 w / 2) <=? z) && (z <? pow256 w / 2).

Fixpoint put_from (i : nat) (vs : list Z) (l : list Z) : list Z :=    (* l[i:i+len(vs)] = vs *)
  match i, l with
  | O, _ => vs ++ skipn (length vs) l
  | S i', x :: l' => x :: put_from i' vs l'
  | S _, [] => []
  end.

(* AnalyzeHeader.set_data_shape on the destination *)
Definition set_shape_plain (c : hclass) (shape : list Z) (h : hdr) : cres hdr :=
  let w := dim_w c in
  let nd := zlen shape in
  if negb (all (fits_signed w) shape) || (7 <? nd) then CErr ErrShape else
  let dims := put_from 1 (map (of_signed w) shape) (nd :: repeat 1 7) in
  let p := getf f_pixdim h in
  let p' := firstn (S (length shape)) p ++ map (fun _ => f_one (pix_w c)) (skipn (S (length shape)) p) in
  COk (setf f_pixdim p' (setf f_dim dims h)).

(* Nifti1Header.set_data_shape / Nifti2Header, AnalyzeHeader.set_data_shape *)
Definition set_shape (c : hclass) (shape : list Z) (h : hdr) : cres hdr :=
  if is_nifti1 c then
    if prefix3 shape 163842 1 1 then set_shape_plain c (27307 :: 1 :: 6 :: skipn 3 shape) h
    else match shape with
         | x :: 1 :: 1 :: r =>
             if pow256 (dim_w c) / 2 - 1 <? x then
               if fits_signed 4 x then set_shape_plain c (-1 :: 1 :: 1 :: r) (setf f_glmin [of_signed 4 x] h)
               else CErr ErrShape
             else set_shape_plain c shape h
         | _ => set_shape_plain c shape h
         end
  else set_shape_plain c shape h.

(* set_zooms on the destination: zooms are float bit patterns of width sw *)
Definition set_zooms (c : hclass) (sw : nat) (zooms : list Z) (h : hdr) : cres hdr :=
  let nd := sval (dim_w c) (getf f_dim h) in
  if negb (zlen zooms =? nd) then CErr ErrZooms
  else if any (f_lt0 sw) zooms then CErr ErrZooms
  else COk (setf f_pixdim (put_from 1 (map (f_cast sw (pix_w c)) zooms) (getf f_pixdim h)) h).

(* obj[key] = mapping[key]: NumPy assignment casts *)
Definition cast_field (fs fd : field) (v : Z) : Z :=
  match fkind fs, fkind fd with
  | KFloat, KFloat => f_cast (fwidth fs) (fwidth fd) v
  | KInt, (KInt | KUInt) => of_signed (fwidth fd) (to_signed (fwidth fs) v)
  | KUInt, (KInt | KUInt) => of_signed (fwidth fd) v
  | KFloat, KInt => if Nat.eqb (fwidth fd) 8 then f_to_int64 (fwidth fs) v else v
  | KInt, KFloat => f_of_Z (fwidth fd) (to_signed (fwidth fs) v)
  | _, _ => v
  end.
Fixpoint apply_mapping (Ls Ld : layout) (src : hdr) (obj : hdr) : hdr :=
  match src with
  | [] => obj
  | (k, vs) :: r =>
      let obj' := match find_field k Ls, find_field k Ld with
                  | Some fs, Some fd => setf k (map (cast_field fs fd) vs) obj
                  | _, _ => obj
                  end in
      apply_mapping Ls Ld r obj'
  end.

Definition clean_after_mapping (c : hclass) (h : hdr) : hdr :=
  if is_nifti c then setf f_magic (pad_to 4 (if is_single_of c then single_magic_of c else pair_magic_of c)) h
  else h.

(* set_data_dtype(header.get_data_dtype()) *)
Definition set_dtype (src dst : hclass) (code : Z) (h : hdr) : cres hdr :=
  match lookup code (dtcodes_of src), lookup code (dtcodes_of dst) with
  | Some _, Some sz => if sz =? 0 then CErr ErrDtype
                       else COk (setf f_bitpix [of_signed 2 (sz * 8)] (setf f_datatype [of_signed 2 code] h))
  | _, _ => CErr ErrDtype
  end.

Definition dim0_in_scope (c : hclass) (h : hdr) : bool :=
  let nd := sval (dim_w c) (getf f_dim h) in (0 <=? nd) && (nd <=? 7).

(* dst_klass.from_header(src_header, check) for src, dst in the Analyze family, src <> dst;
   src header given by its field values; result = field values of the new (native) header *)
Definition from_header (src dst : hclass) (check : bool) (h : hdr) : cres hdr :=
  if negb (dim0_in_scope src h) then CErr ErrScope else
  let obj := apply_mapping (layout_of src) (layout_of dst) h (default_hdr dst) in
  let obj := clean_after_mapping dst obj in
  match set_dtype src dst (sval 2 (getf f_datatype h)) obj with
  | CErr e => CErr e
  | COk obj =>
    match get_shape src h with
    | CErr e => CErr e
    | COk shape =>
      match set_shape dst shape obj with
      | CErr e => CErr e
      | COk obj =>
        match set_zooms dst (pix_w src) (get_zooms src h) obj with
        | CErr e => CErr e
        | COk obj =>
          if check then
            match check_hdr dst true obj with
            | None => CErr ErrRaise
            | Some (obj', rs) => if existsb (fun r : report => 40 <=? fst (fst r)) rs then CErr ErrCheck else COk obj'
            end
          else COk obj
        end
      end
    end
  end.

(* ------------------------------------------------------------------ identity of the mutable parts
   A header object owns two mutable parts: the NumPy buffer of its struct array and (NIfTI only)
   the Python list of its extensions (the extension objects in it have no public mutator and are
   shared by design: "take reference to extensions").  The store maps buffer ids / list ids to their
   current contents; a header reference holds one id of each.  Counterparts:
     WrapStruct.copy / Nifti1Header.copy  = klass(self.binaryblock, self.endianness, False, self.extensions)
       -> copy_ref: tobytes() makes a new buffer, exts_klass(extensions) a new list with the same items
     same-class from_header, image construction from a header -> copy_ref
     hdr[field] = v, setters                -> MSetBytes (through the buffer id)
     hdr.extensions.append / del [:] / [:] = -> MExtAppend / MExtClear / MExtSet (through the list id) *)
Definition extn := (Z * list Z)%type.                      (* (code, content) *)
Record store := mkStore { s_bufs : list (list Z); s_lists : list (list extn) }.
Record href := mkRef { r_be : bool; r_buf : nat; r_exts : nat }.

Definition view (s : store) (r : href) : bool * list Z * list extn :=
  (r_be r, nth (r_buf r) (s_bufs s) [], nth (r_exts r) (s_lists s) []).
Definition ref_ok (s : store) (r : href) : Prop :=
  (r_buf r < length (s_bufs s))%nat /\ (r_exts r < length (s_lists s))%nat.

Definition new_header (s : store) (be : bool) (b : list Z) (l : list extn) : store * href :=
  (mkStore (s_bufs s ++ [b]) (s_lists s ++ [l]), mkRef be (length (s_bufs s)) (length (s_lists s))).
Definition copy_ref (s : store) (r : href) : store * href :=
  new_header s (r_be r) (nth (r_buf r) (s_bufs s) []) (nth (r_exts r) (s_lists s) []).

Fixpoint upd_nth {A} (n : nat) (x : A) (l : list A) : list A :=
  match n, l with
  | O, _ :: t => x :: t
  | S n', y :: t => y :: upd_nth n' x t
  | _, [] => []
  end.
Inductive mutation := MSetBytes (b : list Z) | MExtAppend (e : extn) | MExtClear | MExtSet (l : list extn).
Definition mutate (s : store) (r : href) (m : mutation) : store :=
  match m with
  | MSetBytes b => mkStore (upd_nth (r_buf r) b (s_bufs s)) (s_lists s)
  | MExtAppend e => mkStore (s_bufs s) (upd_nth (r_exts r) (nth (r_exts r) (s_lists s) [] ++ [e]) (s_lists s))
  | MExtClear => mkStore (s_bufs s) (upd_nth (r_exts r) [] (s_lists s))
  | MExtSet l => mkStore (s_bufs s) (upd_nth (r_exts r) l (s_lists s))
  end.
(* what the mutation does to the view of the object it goes through *)
Definition mutated_view (v : bool * list Z * list extn) (m : mutation) : bool * list Z * list extn :=
  match v, m with
  | (be, b, l), MSetBytes b' => (be, b', l)
  | (be, b, l), MExtAppend e => (be, b, l ++ [e])
  | (be, b, l), MExtClear => (be, b, [])
  | (be, b, l), MExtSet l' => (be, b, l')
  end.

(* ------------------------------------------------------------------ what a written header looks like
   to the class sniffers (may_contain_header of each header class, used by load): the signature
   predicates on the header bytes, and the writers: default header, any sequence of named-setter
   writes, save-time finalisation.  Named setters (set_data_dtype, set_data_shape, set_zooms,
   set_data_offset, set_slope_inter, set_qform, set_sform, set_intent, set_dim_info, set_xyzt_units,
   set_slice_*, set_origin_from_affine, descrip / aux_file ..., MGH set_* ) are over-approximated by
   arbitrary fitting writes to every field they may touch: all fields except sizeof_hdr, magic,
   eol_check (NIfTI), smin (Analyze / SPM: bytes 344:348) and version (MGH); xform codes are written
   only with codes of the recoder (set_qform / set_sform look the code up). *)
Definition NI1 : list Z := [110; 105; 49; 0].
Definition NP1 : list Z := [110; 43; 49; 0].
Definition has_magic1 (b : list Z) : bool :=
  list_eqb (take 4 (drop 344 b)) NI1 || list_eqb (take 4 (drop 344 b)) NP1.
Definition sz_is (b : list Z) (k : Z) : bool := (dec_s false (take 4 b) =? k) || (dec_s true (take 4 b) =? k).
(* AnalyzeHeader.guessed_endian on a NIfTI-2 block read natively (little endian) *)
Definition n2_big_endian (b : list Z) : bool :=
  let dim0 := dec_s false (take 8 (drop 16 b)) in
  if dim0 =? 0 then dec_s true (take 4 b) =? 540
  else if (1 <=? dim0) && (dim0 <=? 7) then false else true.
Definition in_intervals (c : Z) (iv : list (Z * Z)) : bool :=
  existsb (fun ab => (fst ab <=? c) && (c <=? snd ab)) iv.
Definition n2_cifti (b : list Z) : bool :=
  in_intervals (dec_s (n2_big_endian b) (take 4 (drop 504 b))) cifti_intents.

(* cifti: the header is written by Cifti2Image (a NIfTI-2 header with a CIFTI intent) *)
Definition signature (c : hclass) (cifti : bool) (b : list Z) : bool :=
  match c with
  | Nifti1 | Nifti1Pair => (348 <=? zlen b) && has_magic1 b
  | Nifti2 | Nifti2Pair => (540 <=? zlen b) && sz_is b 540 && negb (has_magic1 b) && Bool.eqb (n2_cifti b) cifti
  | Analyze | Spm99 | Spm2 =>
      (348 <=? zlen b) && sz_is b 348 && negb (has_magic1 b) && negb ((540 <=? zlen b) && sz_is b 540)
  | Mgh => list_eqb (take 4 b) [0; 0; 0; 1]
  | Ecat => true
  end.

Definition protected_fields (c : hclass) : list Z :=
  match c with
  | Mgh => [f_version]
  | Ecat => []
  | Analyze | Spm99 | Spm2 => [f_sizeof_hdr; f_smin]
  | _ => [f_sizeof_hdr; f_magic; f_eol_check]
  end.
Definition vals_fitb (f : field) (vs : list Z) : bool :=
  Nat.eqb (length vs) (fcount f) && forallb (fun v => (0 <=? v) && (v <? pow256 (fwidth f))) vs.
(* a named-setter write of values vs to field i *)
Definition allowed_write (c : hclass) (w : Z * list Z) : bool :=
  let (i, vs) := w in
  negb (memZ i (protected_fields c))
  && match find_field i (layout_of c) with
     | Some f => vals_fitb f vs
                 && (negb ((i =? f_qform_code) || (i =? f_sform_code))
                     || forallb (fun v => memZ (to_signed (fwidth f) v) (xform_codes_of c)) vs)
     | None => false
     end.
Definition apply_writes (ws : list (Z * list Z)) (h : hdr) : hdr :=
  fold_left (fun h w => setf (fst w) (snd w) h) ws h.
(* Nifti1Pair.update_header / Nifti1Image.update_header: magic by single / pair *)
Definition finalise (c : hclass) (h : hdr) : hdr :=
  if is_nifti c then setf f_magic (pad_to 4 (if is_single_of c then single_magic_of c else pair_magic_of c)) h else h.
Definition written (c : hclass) (be : bool) (ws : list (Z * list Z)) : list Z :=
  encode_struct (layout_of c) (match c with Mgh => true | _ => be end) (finalise c (apply_writes ws (default_hdr c))).

(* the public setters, as the fields each was measured to write (Tables.setter_writes_*: regenerated on
   every run by diffing the header fields before / after calls with random arguments) *)
Definition setter_writes_of (c : hclass) : list (list Z) :=
  match c with
  | Analyze => setter_writes_analyze | Spm99 => setter_writes_spm99 | Spm2 => setter_writes_spm2
  | Nifti1 => setter_writes_nifti1 | Nifti1Pair => setter_writes_nifti1pair | Nifti2 => setter_writes_nifti2
  | Nifti2Pair => setter_writes_nifti2pair | Mgh => setter_writes_mgh | Ecat => setter_writes_ecat
  end.
(* one write made by some public setter: a field of some setter's write set, fitting values, xform codes
   from the recoder (measured too: set_qform / set_sform never store another code) *)
Definition setter_write (c : hclass) (w : Z * list Z) : bool :=
  let (i, vs) := w in
  existsb (memZ i) (setter_writes_of c)
  && match find_field i (layout_of c) with
     | Some f => vals_fitb f vs
                 && (negb ((i =? f_qform_code) || (i =? f_sform_code))
                     || forallb (fun v => memZ (to_signed (fwidth f) v) (xform_codes_of c)) vs)
     | None => false
     end.
