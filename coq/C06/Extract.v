(* C06/Extract.v — extraction of the executable model (ExtrOcamlBasic only) *)
Require Extraction. Require ExtrOcamlBasic.
From NV Require Import Base.PySlice C06.Model.
Extraction Language OCaml.
Extraction "c06_model.ml" py_indices fill_slicer slice2len predict_shape slice2outax canonical_slicers
  positive_slice threshold_heuristic optimize_slicer calc_slicedefs read_segments fileslice_h numpy_slice canonical_valid.
