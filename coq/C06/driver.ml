(* C06 driver body.  Index tuples: comma separated tokens i<k> | s<a>:<b>:<c> (with _ for None)
   | n (None/newaxis) | e (Ellipsis); "()" is the empty tuple.  Heuristics: full | contig |
   none | t<thresh>.  Orders: C | F.  Shapes "[a,b,c]". *)
let optz s = if s = "_" then None else Some (z_of_string s)
let str_optz = function None -> "_" | Some v -> string_of_z v
let parse_sl s = match String.split_on_char ':' s with
  | [a; b; c] -> { s_start = optz a; s_stop = optz b; s_step = optz c }
  | _ -> failwith "bad slice"
let parse_idx tok =
  if tok = "n" then INew else if tok = "e" then IEll
  else if tok.[0] = 'i' then IInt (z_of_string (String.sub tok 1 (String.length tok - 1)))
  else if tok.[0] = 's' then ISl (parse_sl (String.sub tok 1 (String.length tok - 1)))
  else failwith "bad index token"
let parse_ix s = if s = "()" then [] else List.map parse_idx (String.split_on_char ',' s)
let str_sl s = str_optz s.s_start ^ ":" ^ str_optz s.s_stop ^ ":" ^ str_optz s.s_step
let str_cidx = function CInt k -> "i" ^ string_of_z k | CSl s -> "s" ^ str_sl s | CNew -> "n"
let str_post = function PDrop -> "d" | PInt k -> "i" ^ string_of_z k | PSl s -> "s" ^ str_sl s
let str_list f l = if l = [] then "()" else String.concat "," (List.map f l)
let str_err = function EValue -> "value" | EIndex -> "index" | EIO -> "io"
let parse_heur s : heuristic =
  if s = "full" then (fun _ _ _ -> AFull) else if s = "contig" then (fun sl _ _ -> match sl with HInt _ -> ANone | HSl _ -> AContig)
  else if s = "fullint" then (fun sl _ _ -> match sl with HInt _ -> AFull | HSl _ -> AContig)
  else if s = "none" then (fun _ _ _ -> ANone)
  else if s.[0] = 't' then threshold_heuristic (z_of_string (String.sub s 1 (String.length s - 1)))
  else failwith "bad heuristic"
let parse_order s = if s = "C" then OrdC else OrdF
let str_fsl f = string_of_z f.f_start ^ ":" ^ str_optz f.f_stop ^ ":" ^ string_of_z f.f_step
let res f = function Ok a -> "ok " ^ f a | Err e -> "err " ^ str_err e
let handle op args = match op, args with
  | "pyidx", [sl; n] -> "ok " ^ string_of_zlist (py_indices (z_of_string n) (parse_sl sl))
  | "fill", [sl; n] -> res str_fsl (fill_slicer (parse_sl sl) (z_of_string n))
  | "slen", [sl; n] -> res string_of_z (slice2len (parse_sl sl) (z_of_string n))
  | "pshape", [shape; ix] -> res string_of_zlist (predict_shape (parse_ix ix) (zlist_of_string shape))
  | "outax", [ndim; ix] -> res (str_list str_optz) (slice2outax (z_of_string ndim) (parse_ix ix))
  | "canon", [shape; ix] -> res (str_list str_cidx) (canonical_slicers true (parse_ix ix) (zlist_of_string shape))
  | "ixvalid", [shape; ix] -> res string_of_bool (canonical_valid (parse_ix ix) (zlist_of_string shape))
  | "possl", [a; b; c] -> "ok " ^ str_fsl (positive_slice { f_start = z_of_string a; f_stop = optz b; f_step = z_of_string c })
  | "defs", [h; shape; w; off; o; ix] ->
    res (fun ((segs, rshape), ps) ->
        "segs=" ^ str_list (fun (a, b) -> string_of_z a ^ ":" ^ string_of_z b) segs
        ^ " rshape=" ^ string_of_zlist rshape ^ " post=" ^ str_list str_post ps)
      (calc_slicedefs (parse_ix ix) (zlist_of_string shape) (z_of_string w) (z_of_string off) (parse_order o) (parse_heur h))
  | "fsl", [h; file; shape; w; off; o; ix] ->
    res (fun (s, b) -> string_of_zlist s ^ " " ^ hex_of_bytes b)
      (fileslice_h (parse_heur h) (bytes_of_hex file) (parse_ix ix) (zlist_of_string shape) (z_of_string w) (z_of_string off) (parse_order o))
  | "np", [file; shape; w; off; o; ix] ->
    res (fun (s, b) -> string_of_zlist s ^ " " ^ hex_of_bytes b)
      (numpy_slice (bytes_of_hex file) (parse_ix ix) (zlist_of_string shape) (z_of_string w) (z_of_string off) (parse_order o))
  | _ -> "err driver:badop"
let () = run_lines handle
