(* placeholder, proofs follow *)
From NV Require Import Base.PySlice C06.Model.
