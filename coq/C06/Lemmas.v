(* C06/Lemmas.v — proofs about C06/Model.v.  Part 1: per-axis arithmetic. *)
From Coq Require Import ZArith List Bool Lia ZifyBool.
From NV Require Import Base.PySlice C06.Model.
Import ListNotations.
Open Scope Z_scope.

(* indices selected by a filled slicer *)
Definition fsl_triple (f : fsl) : Z * Z * Z := (f_start f, stop_or f, f_step f).
Definition fsl_indices (f : fsl) : list Z := range_of (fsl_triple f).

Lemma zseq_0 : zseq 0 = [].
Proof. reflexivity. Qed.

Lemma range_of_empty t : slen t = 0 -> range_of t = [].
Proof. intros H. unfold range_of. now rewrite H. Qed.

Lemma range_of_length t : Z.of_nat (length (range_of t)) = slen t.
Proof. unfold range_of. rewrite map_length. apply zseq_length, slen_nonneg. Qed.

Lemma range_of_ext a b b' st : slen (a, b, st) = slen (a, b', st) -> range_of (a, b, st) = range_of (a, b', st).
Proof. intros H. unfold range_of. rewrite H. reflexivity. Qed.

(* ---- fill_slicer: same selected indices as Python's slice on an axis of length n *)
Lemma fill_slicer_ok s n : step_of s <> 0 -> exists f, fill_slicer s n = Ok f.
Proof.
  intros H. unfold fill_slicer. replace (step_of s =? 0) with false by lia.
  destruct (adjust n s) as [[a b] st].
  destruct (st <? 0); [destruct (a <? 0); [|destruct (b <? 0)]|]; eexists; reflexivity.
Qed.

Lemma fill_slicer_step0 s n : step_of s = 0 -> fill_slicer s n = Err EValue.
Proof. intros H. unfold fill_slicer. now rewrite H. Qed.

Lemma fill_slicer_indices s n f : 0 <= n -> fill_slicer s n = Ok f ->
  fsl_indices f = py_indices n s /\ f_step f = step_of s /\ step_of s <> 0.
Proof.
  intros Hn. unfold fill_slicer.
  destruct (step_of s =? 0) eqn:E0; [discriminate|].
  pose proof (adjust_bounds n s Hn) as HB. pose proof (adjust_step n s) as HS.
  unfold py_indices. destruct (adjust n s) as [[a b] st] eqn:EA. cbn [snd] in HS. subst st.
  destruct HB as [HB1 HB2].
  destruct (step_of s <? 0) eqn:E1.
  - specialize (HB2 ltac:(lia)).
    destruct (a <? 0) eqn:E2; [|destruct (b <? 0) eqn:E3]; intros H; injection H as <-;
      (split; [|split; [reflexivity|lia]]); unfold fsl_indices, fsl_triple, stop_or; cbn [f_start f_stop f_step].
    + assert (E1' : slen (a, b, step_of s) = 0)
        by (unfold slen; replace (0 <? step_of s) with false by lia; replace (b <? a) with false by lia; reflexivity).
      assert (E2' : slen (0, 0, step_of s) = 0)
        by (unfold slen; replace (0 <? step_of s) with false by lia; reflexivity).
      now rewrite (range_of_empty _ E1'), (range_of_empty _ E2').
    + replace b with (-1) by lia. reflexivity.
    + reflexivity.
  - intros H; injection H as <-. split; [reflexivity|split; [reflexivity|lia]].
Qed.

(* ---- _full_slicer_len is len(range(...)) *)
Lemma cdiv_pos gap st : 0 < st -> 0 < gap -> cdiv gap st = (gap - 1) / st + 1.
Proof. intros. unfold cdiv. Z.to_euclidean_division_equations. nia. Qed.

Lemma cdiv_neg gap st : st < 0 -> gap < 0 -> cdiv gap st = (- gap - 1) / (- st) + 1.
Proof. intros. unfold cdiv. Z.to_euclidean_division_equations. nia. Qed.

Lemma full_slicer_len_spec f : f_step f <> 0 -> full_slicer_len f = slen (fsl_triple f).
Proof.
  intros Hs. unfold full_slicer_len, slen, fsl_triple.
  set (a := f_start f). set (b := stop_or f). set (st := f_step f) in *.
  destruct (0 <? st) eqn:E1.
  - destruct (a <? b) eqn:E2.
    + replace ((true && (b - a <=? 0)) || ((st <? 0) && (0 <=? b - a))) with false by lia.
      rewrite cdiv_pos by lia. reflexivity.
    + replace ((true && (b - a <=? 0)) || ((st <? 0) && (0 <=? b - a))) with true by lia. reflexivity.
  - destruct (b <? a) eqn:E2.
    + replace ((false && (b - a <=? 0)) || ((st <? 0) && (0 <=? b - a))) with false by lia.
      rewrite cdiv_neg by lia. replace (- (b - a) - 1) with (a - b - 1) by lia. reflexivity.
    + replace ((false && (b - a <=? 0)) || ((st <? 0) && (0 <=? b - a))) with true by lia. reflexivity.
Qed.

Lemma slice2len_spec s n : 0 <= n -> step_of s <> 0 -> slice2len s n = Ok (zlen (py_indices n s)).
Proof.
  intros Hn Hs. unfold slice2len.
  destruct (pslice_eqb s sl_none) eqn:E.
  - assert (s = sl_none).
    { destruct s as [[a|] [b|] [c|]]; try discriminate. reflexivity. }
    subst s. rewrite py_indices_none by lia. unfold zlen. now rewrite zseq_length.
  - destruct (fill_slicer_ok s n Hs) as [f Hf]. rewrite Hf. cbn [bind].
    destruct (fill_slicer_indices s n f Hn Hf) as (Hi & Hst & _).
    rewrite full_slicer_len_spec by lia. unfold zlen. rewrite <- Hi.
    unfold fsl_indices. now rewrite range_of_length.
Qed.

(* ------------------------------------------------------------------------------------
   ranges as index lists: membership without division *)
Definition inside (t : Z * Z * Z) (j : Z) : Prop :=
  let '(a, b, st) := t in (0 < st /\ a + j * st < b) \/ (st < 0 /\ b < a + j * st).

Lemma slen_iff a b st j : st <> 0 -> 0 <= j -> (j < slen (a, b, st) <-> inside (a, b, st) j).
Proof.
  intros Hst Hj. pose proof (range_maximal a b st Hst) as [HM1 HM2].
  pose proof (slen_nonneg (a, b, st)) as Hn. unfold inside. split.
  - intros Hlt. pose proof (range_bound a b st j Hst ltac:(lia)) as [HB1 HB2].
    destruct (Z_lt_ge_dec 0 st); [left; specialize (HB1 ltac:(lia)); lia|right; specialize (HB2 ltac:(lia)); lia].
  - intros [[Hp H]|[Hm H]].
    + specialize (HM1 Hp). destruct (Z_lt_ge_dec j (slen (a, b, st))); [assumption|]. nia.
    + specialize (HM2 Hm). destruct (Z_lt_ge_dec j (slen (a, b, st))); [assumption|]. nia.
Qed.

Lemma slen_eq t t' : snd t <> 0 -> snd t' <> 0 ->
  (forall j, 0 <= j -> (inside t j <-> inside t' j)) -> slen t = slen t'.
Proof.
  destruct t as [[a b] st], t' as [[a' b'] st']. cbn [snd]. intros H1 H2 H.
  pose proof (slen_nonneg (a, b, st)) as N1. pose proof (slen_nonneg (a', b', st')) as N2.
  destruct (Z.lt_trichotomy (slen (a, b, st)) (slen (a', b', st'))) as [L|[E|L]]; [|assumption|].
  - exfalso. apply (slen_iff a' b' st' _ H2 N1) in L. apply H in L; [|assumption].
    apply (slen_iff a b st _ H1 N1) in L. lia.
  - exfalso. apply (slen_iff a b st _ H1 N2) in L. apply H in L; [|assumption].
    apply (slen_iff a' b' st' _ H2 N2) in L. lia.
Qed.

Definition sel_nth (L J : list Z) : list Z := map (fun j => nth (Z.to_nat j) L 0) J.

Lemma nth_zseq n j d : 0 <= j < n -> nth (Z.to_nat j) (zseq n) d = j.
Proof.
  intros H. unfold zseq. rewrite (nth_indep _ d (Z.of_nat 0)) by (rewrite map_length, seq_length; lia).
  rewrite map_nth, seq_nth by lia. lia.
Qed.

Lemma nth_range_of t j d : 0 <= j < slen t -> nth (Z.to_nat j) (range_of t) d = snth t j.
Proof.
  intros H. unfold range_of.
  rewrite (nth_indep _ d (snth t 0)) by (rewrite map_length; pose proof (zseq_length (slen t)); lia).
  rewrite map_nth. f_equal. now apply nth_zseq.
Qed.

(* composition of ranges: picking the u-indexed elements of range t gives range v *)
Lemma range_compose t u v :
  slen u = slen v ->
  (forall j, 0 <= j < slen u -> 0 <= snth u j < slen t /\ snth t (snth u j) = snth v j) ->
  sel_nth (range_of t) (range_of u) = range_of v.
Proof.
  intros Hl H. unfold sel_nth. unfold range_of at 2 3. rewrite map_map, <- Hl.
  apply map_ext_in. intros j Hj. apply zseq_In in Hj. destruct (H j Hj) as [H1 H2].
  now rewrite nth_range_of.
Qed.

Lemma zseq_as_range n : 0 <= n -> zseq n = range_of (0, n, 1).
Proof.
  intros H. unfold range_of, snth, slen. cbn.
  destruct (0 <? n) eqn:E.
  - replace ((n - 0 - 1) / 1 + 1) with n by (rewrite Z.div_1_r; lia).
    rewrite <- (map_id (zseq n)) at 1. apply map_ext. intros; lia.
  - replace n with 0 by lia. reflexivity.
Qed.

Lemma slen_unit n : 0 <= n -> slen (0, n, 1) = n.
Proof.
  intros H. unfold slen. cbn. destruct (0 <? n) eqn:E; [|lia].
  replace (n - 0 - 1) with (n - 1) by lia. rewrite Z.div_1_r. lia.
Qed.

Lemma zlen_range_of t : zlen (range_of t) = slen t.
Proof. apply range_of_length. Qed.

(* identity selection *)
Lemma sel_nth_all t : sel_nth (range_of t) (zseq (slen t)) = range_of t.
Proof.
  rewrite (zseq_as_range _ (slen_nonneg t)). apply range_compose.
  - apply slen_unit, slen_nonneg.
  - intros j Hj. rewrite slen_unit in Hj by apply slen_nonneg. unfold snth at 1 2. cbn. split; [lia|f_equal; lia].
Qed.

(* reversed range *)
Definition rev_triple (t : Z * Z * Z) : Z * Z * Z :=
  let '(a, b, st) := t in (a + (slen t - 1) * st, a - st, - st).

Lemma slen_rev_triple t : snd t <> 0 -> slen (rev_triple t) = slen t.
Proof.
  destruct t as [[a b] st]. cbn [snd]. intros Hst.
  pose proof (slen_nonneg (a, b, st)) as Hn. set (m := slen (a, b, st)) in *.
  unfold rev_triple. fold m.
  destruct (Z.eq_dec m 0) as [E0|NE].
  - rewrite E0. unfold slen. destruct (0 <? - st) eqn:E.
    + replace (a + (0 - 1) * st <? a - st) with false by lia. reflexivity.
    + replace (a - st <? a + (0 - 1) * st) with false by lia. reflexivity.
  - pose proof (slen_nonneg (a + (m - 1) * st, a - st, - st)) as Hn'.
    destruct (Z.lt_trichotomy (slen (a + (m - 1) * st, a - st, - st)) m) as [L|[E|L]]; [|assumption|]; exfalso.
    + assert (Hi : inside (a + (m - 1) * st, a - st, - st) (slen (a + (m - 1) * st, a - st, - st))).
      { unfold inside. destruct (Z_lt_ge_dec 0 st); [right|left]; nia. }
      apply slen_iff in Hi; [lia|lia|lia].
    + apply slen_iff in L; [|lia|lia]. unfold inside in L. nia.
Qed.

Lemma rev_range_of t : snd t <> 0 -> rev (range_of t) = range_of (rev_triple t).
Proof.
  intros Hst. pose proof (slen_rev_triple t Hst) as Hl.
  apply nth_ext with (d := 0) (d' := 0).
  - rewrite rev_length. apply Nat2Z.inj. rewrite !range_of_length. now symmetry.
  - intros k Hk. rewrite rev_length in Hk.
    assert (Hk' : Z.of_nat k < slen t) by (rewrite <- range_of_length; lia).
    rewrite rev_nth by assumption.
    replace (length (range_of t) - S k)%nat with (Z.to_nat (slen t - 1 - Z.of_nat k))
      by (pose proof (range_of_length t); lia).
    rewrite nth_range_of by lia.
    replace k with (Z.to_nat (Z.of_nat k)) at 2 by lia.
    rewrite nth_range_of by lia.
    destruct t as [[a b] st]. unfold rev_triple, snth. lia.
Qed.

Lemma sel_nth_rev t : snd t <> 0 ->
  sel_nth (range_of t) (range_of (slen t - 1, -1, -1)) = rev (range_of t).
Proof.
  intros Hst. rewrite rev_range_of by assumption. pose proof (slen_nonneg t) as Hn.
  assert (Hl : slen (slen t - 1, -1, -1) = slen t).
  { unfold slen at 1. cbn. destruct (-1 <? slen t - 1) eqn:E; [|lia].
    replace (slen t - 1 - -1 - 1) with (slen t - 1) by lia. rewrite Z.div_1_r. lia. }
  apply range_compose.
  - rewrite Hl. symmetry. now apply slen_rev_triple.
  - intros j Hj. rewrite Hl in Hj. destruct t as [[a b] st]. unfold snth, rev_triple. split; [lia|lia].
Qed.

(* ------------------------------------------------------------------------------------
   filled slicers relative to an axis length *)
Definition wf_fsl (n : Z) (f : fsl) : Prop :=
  (0 < f_step f /\ 0 <= f_start f <= n /\ exists b, f_stop f = Some b /\ 0 <= b <= n)
  \/ (f_step f < 0 /\
      ((0 <= f_start f <= n - 1 /\ (f_stop f = None \/ exists b, f_stop f = Some b /\ 0 <= b <= n - 1))
       \/ (f_start f = 0 /\ f_stop f = Some 0))).

Lemma fill_slicer_wf s n f : 0 <= n -> fill_slicer s n = Ok f -> wf_fsl n f.
Proof.
  intros Hn. unfold fill_slicer. destruct (step_of s =? 0) eqn:E0; [discriminate|].
  pose proof (adjust_bounds n s Hn) as HB. pose proof (adjust_step n s) as HS.
  destruct (adjust n s) as [[a b] st] eqn:EA. cbn [snd] in HS. subst st. destruct HB as [HB1 HB2].
  unfold wf_fsl.
  destruct (step_of s <? 0) eqn:E1.
  - specialize (HB2 ltac:(lia)).
    destruct (a <? 0) eqn:E2; [|destruct (b <? 0) eqn:E3]; intros H; injection H as <-; cbn [f_start f_stop f_step]; right;
      (split; [lia|]).
    + right. split; reflexivity.
    + left. split; [lia|]. left; reflexivity.
    + left. split; [lia|]. right. exists b. split; [reflexivity|lia].
  - specialize (HB1 ltac:(lia)). intros H; injection H as <-; cbn [f_start f_stop f_step]. left.
    split; [lia|]. split; [lia|]. exists b. split; [reflexivity|lia].
Qed.

Lemma py_indices_fsl n f : 0 <= n -> wf_fsl n f -> py_indices n (fsl_to_pslice f) = fsl_indices f.
Proof.
  intros Hn Hwf. unfold py_indices, fsl_indices, fsl_triple, fsl_to_pslice, adjust, step_of, clampv, stop_or.
  cbn [s_start s_stop s_step].
  destruct Hwf as [(Hst & Ha & b & Hb & Hbb)|(Hst & [(Ha & [Hb|(b & Hb & Hbb)])|(Ha & Hb)])]; rewrite Hb.
  - replace (f_step f <? 0) with false by lia. replace (f_start f <? 0) with false by lia.
    replace (b <? 0) with false by lia. rewrite !Z.min_l by lia. reflexivity.
  - replace (f_step f <? 0) with true by lia. replace (f_start f <? 0) with false by lia.
    rewrite Z.min_l by lia. reflexivity.
  - replace (f_step f <? 0) with true by lia. replace (f_start f <? 0) with false by lia.
    replace (b <? 0) with false by lia. rewrite !Z.min_l by lia. reflexivity.
  - rewrite Ha. replace (f_step f <? 0) with true by lia. cbn [Z.ltb Z.compare].
    rewrite !range_of_empty; [reflexivity| |]; unfold slen; replace (0 <? f_step f) with false by lia.
    + reflexivity.
    + destruct (Z.min 0 (n - 1) <? Z.min 0 (n - 1)) eqn:E; [lia|reflexivity].
Qed.

(* _positive_slice enumerates the same indices backwards *)
Lemma positive_slice_spec f : f_step f < 0 ->
  fsl_indices (positive_slice f) = rev (fsl_indices f)
  /\ f_step (positive_slice f) = - f_step f
  /\ exists b, f_stop (positive_slice f) = Some b.
Proof.
  intros Hst. unfold positive_slice. replace (0 <? f_step f) with false by lia.
  unfold fsl_indices. rewrite rev_range_of by (unfold fsl_triple; cbn; lia).
  pose proof (full_slicer_len_spec f ltac:(lia)) as HL.
  unfold full_slicer_len in HL. unfold fsl_triple in *. cbn [rev_triple].
  set (a := f_start f) in *. set (b := stop_or f) in *. set (st := f_step f) in *.
  destruct (0 <=? b - a) eqn:Eg.
  - cbn [f_start f_stop f_step stop_or].
    replace ((0 <? st) && (b - a <=? 0) || (st <? 0) && true) with true in HL by lia.
    rewrite <- HL. split; [|split; [reflexivity|eexists; reflexivity]].
    rewrite !range_of_empty; [reflexivity| |]; unfold slen.
    + replace (0 <? - st) with true by lia. replace (a + (0 - 1) * st <? a - st) with false by lia. reflexivity.
    + replace (0 <? - st) with true by lia. reflexivity.
  - cbn [f_start f_stop f_step stop_or].
    replace ((0 <? st) && (b - a <=? 0) || (st <? 0) && false) with false in HL by lia.
    rewrite <- HL. split; [|split; [reflexivity|eexists; reflexivity]].
    apply range_of_ext.
    apply slen_eq; cbn [snd]; [lia|lia|]. intros j Hj. unfold inside.
    clear HL. set (c := cdiv (b - a) st). clearbody c.
    split; intros [[H1 H2]|[H1 H2]]; try lia.
    all: left; (split; [lia|]); assert (0 <= c - 1 - j) by nia; nia.
Qed.

(* ------------------------------------------------------------------------------------
   optimize_slicer: what is read, post-sliced, is what was asked for (any heuristic) *)
Lemma slen_step1 a b : slen (a, b, 1) = if a <? b then b - a else 0.
Proof.
  unfold slen. cbn. destruct (a <? b) eqn:E; [|reflexivity]. rewrite Z.div_1_r. lia.
Qed.

Lemma sel_nth_zseq n J : (forall j, In j J -> 0 <= j < n) -> sel_nth (zseq n) J = J.
Proof.
  intros H. unfold sel_nth. rewrite <- (map_id J) at 2. apply map_ext_in. intros j Hj.
  apply nth_zseq. now apply H.
Qed.

Lemma py_indices_rev1 m : 0 <= m -> py_indices m (rev_slice (-1)) = range_of (m - 1, -1, -1).
Proof. intros H. reflexivity. Qed.

Lemma py_indices_revstep m st : 0 <= m -> st <> 0 ->
  py_indices m (rev_slice st) = range_of (if st <? 0 then (m - 1, -1, st) else (0, m, st)).
Proof.
  intros H Hs. unfold py_indices, adjust, rev_slice, step_of. cbn [s_start s_stop s_step].
  destruct (st <? 0); reflexivity.
Qed.

Definition valid_cidx (n : Z) (c : cidx) : Prop :=
  match c with CInt k => 0 <= k < n | CSl s => step_of s <> 0 | CNew => False end.

Definition read_post_ok (n : Z) (orig : list Z) (rd : cidx) (ps : post) : Prop :=
  match rd with
  | CInt k => orig = [k] /\ ps = PDrop
  | CSl r => 0 < step_of r
             /\ sel_nth (py_indices n r) (axis_sel (zlen (py_indices n r)) (post_to_cidx ps)) = orig
             /\ ps <> PDrop
             /\ valid_cidx (zlen (py_indices n r)) (post_to_cidx ps)
  | CNew => False
  end.

Ltac rpv := cbn [post_to_cidx valid_cidx]; unfold step_of, rev_slice, fsl_to_pslice, sl_none; cbn [s_step]; try lia.

Lemma rpo_none_none n : 0 <= n -> read_post_ok n (range_of (0, n, 1)) (CSl sl_none) (PSl sl_none).
Proof.
  intros Hn. unfold read_post_ok. split; [reflexivity|]. split; [|split; [discriminate|rpv]].
  cbn [post_to_cidx axis_sel]. rewrite (py_indices_none n Hn).
  assert (E : zlen (zseq n) = n) by (unfold zlen; now apply zseq_length). rewrite E.
  rewrite (py_indices_none n Hn). rewrite sel_nth_zseq by (intros j Hj; now apply zseq_In).
  now apply zseq_as_range.
Qed.

Lemma rpo_none_rev n : 0 <= n -> read_post_ok n (range_of (n - 1, -1, -1)) (CSl sl_none) (PSl (rev_slice (-1))).
Proof.
  intros Hn. unfold read_post_ok. split; [reflexivity|]. split; [|split; [discriminate|rpv]].
  cbn [post_to_cidx axis_sel]. rewrite (py_indices_none n Hn).
  assert (E : zlen (zseq n) = n) by (unfold zlen; now apply zseq_length). rewrite E.
  rewrite py_indices_rev1 by assumption.
  rewrite (zseq_as_range n Hn).
  replace (n - 1, -1, -1) with (slen (0, n, 1) - 1, -1, -1) at 1 by (rewrite (slen_unit n Hn); reflexivity).
  rewrite sel_nth_rev by (cbn; lia). rewrite rev_range_of by (cbn; lia).
  unfold rev_triple. rewrite (slen_unit n Hn).
  replace (0 + (n - 1) * 1) with (n - 1) by lia. reflexivity.
Qed.

Lemma rpo_full_slice n f : 0 <= n -> wf_fsl n f -> f_step f <> 0 ->
  read_post_ok n (fsl_indices f) (CSl sl_none) (PSl (fsl_to_pslice f)).
Proof.
  intros Hn Hwf Hst. unfold read_post_ok. split; [reflexivity|]. split; [|split; [discriminate|rpv]].
  cbn [post_to_cidx axis_sel]. rewrite (py_indices_none n Hn).
  assert (E : zlen (zseq n) = n) by (unfold zlen; now apply zseq_length). rewrite E.
  rewrite sel_nth_zseq; [now apply py_indices_fsl|].
  intros j Hj. apply (py_indices_in_range n (fsl_to_pslice f)); [assumption| |assumption].
  unfold step_of, fsl_to_pslice. cbn. assumption.
Qed.

Lemma rpo_full_int n k : 0 <= k < n -> read_post_ok n [k] (CSl sl_none) (PInt k).
Proof.
  intros Hk. unfold read_post_ok. split; [reflexivity|]. split; [|split; [discriminate|]].
  2:{ cbn [post_to_cidx valid_cidx]. rewrite py_indices_none by lia. unfold zlen. rewrite zseq_length; lia. }
  cbn [post_to_cidx axis_sel]. rewrite py_indices_none by lia. apply sel_nth_zseq.
  intros j [<-|[]]. assumption.
Qed.

Lemma rpo_same_pos n f : 0 <= n -> wf_fsl n f -> 0 < f_step f ->
  read_post_ok n (fsl_indices f) (CSl (fsl_to_pslice f)) (PSl sl_none).
Proof.
  intros Hn Hwf Hst. unfold read_post_ok. split; [exact Hst|]. split; [|split; [discriminate|rpv]].
  cbn [post_to_cidx axis_sel]. rewrite py_indices_fsl by assumption.
  rewrite py_indices_none by apply Nat2Z.is_nonneg.
  unfold fsl_indices. rewrite zlen_range_of. apply sel_nth_all.
Qed.

(* the positive version of a wf negative-step slicer is wf *)
Lemma positive_slice_wf n f : 0 <= n -> wf_fsl n f -> f_step f < 0 -> wf_fsl n (positive_slice f).
Proof.
  intros Hn Hwf Hst. unfold positive_slice. replace (0 <? f_step f) with false by lia.
  assert (Hab : -1 <= stop_or f /\ (stop_or f < f_start f -> 0 <= f_start f <= n - 1)).
  { unfold stop_or. destruct Hwf as [(H & _)|(_ & [(Ha & [Hb|(b0 & Hb & Hbb)])|(Ha & Hb)])]; try rewrite Hb; lia. }
  pose proof (full_slicer_len_spec f ltac:(lia)) as HL. unfold full_slicer_len in HL.
  unfold fsl_triple in HL.
  set (a := f_start f) in *. set (b := stop_or f) in *. set (st := f_step f) in *.
  destruct (0 <=? b - a) eqn:Eg.
  - left. cbn. split; [lia|]. split; [lia|]. exists 0. split; [reflexivity|lia].
  - replace ((0 <? st) && (b - a <=? 0) || (st <? 0) && false) with false in HL by lia.
    rewrite HL. set (c := slen (a, b, st)).
    assert (Hc : 0 < c).
    { assert (H0 : inside (a, b, st) 0) by (unfold inside; right; lia).
      apply slen_iff in H0; [exact H0|lia|lia]. }
    pose proof (range_bound a b st (c - 1) ltac:(lia) ltac:(unfold c; lia)) as [_ HB]. specialize (HB Hst).
    left. cbn [f_start f_stop f_step]. split; [lia|]. split; [lia|]. exists (a + 1). split; [reflexivity|lia].
Qed.

Lemma rpo_positive_rev n f : 0 <= n -> wf_fsl n f -> f_step f < 0 ->
  read_post_ok n (fsl_indices f) (CSl (fsl_to_pslice (positive_slice f))) (PSl (rev_slice (-1))).
Proof.
  intros Hn Hwf Hst. destruct (positive_slice_spec f Hst) as (Hi & Hs & _).
  unfold read_post_ok. split; [unfold step_of, fsl_to_pslice; cbn; lia|]. split; [|split; [discriminate|rpv]].
  cbn [post_to_cidx axis_sel]. rewrite py_indices_fsl by (try apply positive_slice_wf; assumption).
  rewrite py_indices_rev1 by apply Nat2Z.is_nonneg.
  unfold fsl_indices at 1 2. rewrite zlen_range_of.
  rewrite sel_nth_rev by (unfold fsl_triple; cbn [snd]; lia).
  fold (fsl_indices (positive_slice f)). rewrite Hi. apply rev_involutive.
Qed.

Lemma wf_fsl_unit n a b : 0 <= a <= n -> 0 <= b <= n -> wf_fsl n (mkF a (Some b) 1).
Proof. intros Ha Hb. left. cbn. split; [lia|]. split; [lia|]. exists b. split; [reflexivity|lia]. Qed.

Lemma rpo_contig_pos n f : 0 <= n -> wf_fsl n f -> 0 < f_step f ->
  read_post_ok n (fsl_indices f) (CSl (mkSl (Some (f_start f)) (f_stop f) (Some 1))) (PSl (rev_slice (f_step f))).
Proof.
  intros Hn Hwf Hst.
  destruct Hwf as [(_ & Ha & b & Hb & Hbb)|(H & _)]; [|lia].
  unfold read_post_ok. split; [reflexivity|]. split; [|split; [discriminate|rpv]].
  cbn [post_to_cidx axis_sel]. rewrite Hb.
  change (mkSl (Some (f_start f)) (Some b) (Some 1)) with (fsl_to_pslice (mkF (f_start f) (Some b) 1)).
  rewrite py_indices_fsl by (try apply wf_fsl_unit; assumption).
  unfold fsl_indices at 1 2, fsl_triple. cbn [f_start f_stop f_step stop_or].
  rewrite zlen_range_of. rewrite py_indices_revstep by (try apply slen_nonneg; lia).
  replace (f_step f <? 0) with false by lia.
  unfold fsl_indices, fsl_triple, stop_or. rewrite Hb.
  set (a := f_start f) in *. set (st := f_step f) in *.
  assert (Hm : slen (a, b, 1) = if a <? b then b - a else 0) by apply slen_step1.
  apply range_compose.
  - apply slen_eq; cbn [snd]; [lia|lia|]. intros j Hj. unfold inside. rewrite Hm.
    destruct (a <? b) eqn:E; split; intros [[H1 H2]|[H1 H2]]; try lia; left; (split; [lia|]); nia.
  - intros j [Hj0 Hj]. apply slen_iff in Hj; [|lia|lia]. unfold inside in Hj. unfold snth. rewrite Hm in *.
    destruct (a <? b) eqn:E; destruct Hj as [[H1 H2]|[H1 H2]]; try lia; split; nia.
Qed.

Lemma rpo_contig_neg n f : 0 <= n -> wf_fsl n f -> f_step f < 0 ->
  read_post_ok n (fsl_indices f)
    (CSl (mkSl (Some (f_start (positive_slice f))) (f_stop (positive_slice f)) (Some 1)))
    (PSl (rev_slice (f_step f))).
Proof.
  intros Hn Hwf Hst.
  pose proof (positive_slice_wf n f Hn Hwf Hst) as Hpw.
  assert (Hab : -1 <= stop_or f /\ (stop_or f < f_start f -> 0 <= f_start f <= n - 1)).
  { unfold stop_or. destruct Hwf as [(H & _)|(_ & [(Ha & [Hb|(b0 & Hb & Hbb)])|(Ha & Hb)])]; try rewrite Hb; lia. }
  pose proof (full_slicer_len_spec f ltac:(lia)) as HL. unfold full_slicer_len, fsl_triple in HL.
  assert (HL0 : 0 <= stop_or f - f_start f -> slen (f_start f, stop_or f, f_step f) = 0).
  { intros H. rewrite <- HL.
    replace ((0 <? f_step f) && (stop_or f - f_start f <=? 0) || (f_step f <? 0) && (0 <=? stop_or f - f_start f)) with true by lia.
    reflexivity. }
  assert (HL1 : stop_or f - f_start f < 0 -> cdiv (stop_or f - f_start f) (f_step f) = slen (f_start f, stop_or f, f_step f)).
  { intros H. rewrite <- HL.
    replace ((0 <? f_step f) && (stop_or f - f_start f <=? 0) || (f_step f <? 0) && (0 <=? stop_or f - f_start f)) with false by lia.
    reflexivity. }
  clear HL.
  unfold read_post_ok. split; [reflexivity|]. split; [|split; [discriminate|rpv]].
  cbn [post_to_cidx axis_sel].
  unfold positive_slice in *. replace (0 <? f_step f) with false in * by lia.
  unfold fsl_indices at 1, fsl_triple.
  set (a := f_start f) in *. set (b := stop_or f) in *. set (st := f_step f) in *.
  destruct (0 <=? b - a) eqn:Eg; cbn [f_start f_stop f_step] in *.
  - (* empty *)
    specialize (HL0 ltac:(lia)).
    change (mkSl (Some 0) (Some 0) (Some 1)) with (fsl_to_pslice (mkF 0 (Some 0) 1)).
    rewrite py_indices_fsl by (try apply wf_fsl_unit; lia).
    unfold fsl_indices, fsl_triple. cbn [f_start f_stop f_step stop_or].
    rewrite (range_of_empty (a, b, st)) by exact HL0.
    rewrite zlen_range_of. replace (slen (0, 0, 1)) with 0 by reflexivity.
    rewrite py_indices_revstep by lia. replace (st <? 0) with true by lia.
    rewrite (range_of_empty (0 - 1, -1, st)); [reflexivity|].
    unfold slen. replace (0 <? st) with false by lia. reflexivity.
  - specialize (HL1 ltac:(lia)).
    rewrite HL1 in *. set (c := slen (a, b, st)) in *.
    assert (Hc : 0 < c).
    { assert (H0 : inside (a, b, st) 0) by (unfold inside; right; lia).
      apply slen_iff in H0; [exact H0|lia|lia]. }
    set (e := a + (c - 1) * st) in *.
    assert (He : 0 <= e <= a).
    { pose proof (range_bound a b st (c - 1) ltac:(lia) ltac:(unfold c; lia)) as [_ HB]. specialize (HB Hst).
      unfold e. lia. }
    change (mkSl (Some e) (Some (a + 1)) (Some 1)) with (fsl_to_pslice (mkF e (Some (a + 1)) 1)).
    rewrite py_indices_fsl by (try apply wf_fsl_unit; lia).
    unfold fsl_indices, fsl_triple. cbn [f_start f_stop f_step stop_or].
    rewrite zlen_range_of. rewrite py_indices_revstep by (try apply slen_nonneg; lia).
    replace (st <? 0) with true by lia.
    assert (Hm : slen (e, a + 1, 1) = a + 1 - e) by (rewrite slen_step1; replace (e <? a + 1) with true by lia; reflexivity).
    rewrite Hm.
    assert (Hin : forall j, 0 <= j -> (inside (a, b, st) j <-> j < c)).
    { intros j Hj. symmetry. apply slen_iff; lia. }
    apply range_compose.
    + apply slen_eq; cbn [snd]; [lia|lia|]. intros j Hj. rewrite (Hin j Hj). unfold inside, e.
      split.
      * intros [[H1 H2]|[H1 H2]]; [lia|]. nia.
      * intros H. right. split; [lia|]. nia.
    + intros j [Hj0 Hj]. apply slen_iff in Hj; [|lia|lia]. unfold inside in Hj. unfold snth.
      destruct Hj as [[H1 H2]|[H1 H2]]; [lia|]. rewrite Hm. unfold e in *. split; [nia|lia].
Qed.

Lemma optimize_rest_int_sound k n af sl stride h rd ps : 0 <= k < n ->
  optimize_rest (HInt k) n af sl stride h = Ok (rd, ps) -> read_post_ok n [k] rd ps.
Proof.
  intros Hk. unfold optimize_rest.
  assert (Hfall : forall rd ps, Ok (CInt k, PDrop) = Ok (rd, ps) -> read_post_ok n [k] rd ps).
  { intros rd0 ps0 H. injection H as <- <-. split; reflexivity. }
  destruct af; [|apply Hfall].
  destruct (h (HInt k) n stride) eqn:Eh; cbn [andb action_eqb].
  - destruct sl; cbn [andb]; [apply Hfall|].
    intros H. injection H as <- <-. now apply rpo_full_int.
  - discriminate.
  - rewrite andb_false_r. apply Hfall.
Qed.

Lemma optimize_rest_sl_sound f n af sl stride h rd ps : 0 <= n -> wf_fsl n f -> f_step f <> 0 ->
  optimize_rest (HSl f) n af sl stride h = Ok (rd, ps) -> read_post_ok n (fsl_indices f) rd ps.
Proof.
  intros Hn Hwf Hst. unfold optimize_rest.
  assert (Hfall : forall rd ps,
    (if 0 <? f_step f then Ok (CSl (fsl_to_pslice f), PSl sl_none)
     else Ok (CSl (fsl_to_pslice (positive_slice f)), PSl (rev_slice (-1)))) = Ok (rd, ps) ->
    read_post_ok n (fsl_indices f) rd ps).
  { intros rd0 ps0. destruct (0 <? f_step f) eqn:E; intros H; injection H as <- <-.
    - apply rpo_same_pos; [assumption|assumption|lia].
    - apply rpo_positive_rev; [assumption|assumption|lia]. }
  assert (Hcontig : forall rd ps,
    (if (f_step f =? -1) || (f_step f =? 1)
     then if 0 <? f_step f then Ok (CSl (fsl_to_pslice f), PSl sl_none)
          else Ok (CSl (fsl_to_pslice (positive_slice f)), PSl (rev_slice (-1)))
     else Ok (CSl (mkSl (Some (f_start (if f_step f <? 0 then positive_slice f else f)))
                        (f_stop (if f_step f <? 0 then positive_slice f else f)) (Some 1)),
              PSl (rev_slice (f_step f)))) = Ok (rd, ps) ->
    read_post_ok n (fsl_indices f) rd ps).
  { intros rd0 ps0. destruct ((f_step f =? -1) || (f_step f =? 1)); [apply Hfall|].
    destruct (f_step f <? 0) eqn:E; intros H; injection H as <- <-.
    - apply rpo_contig_neg; [assumption|assumption|lia].
    - apply rpo_contig_pos; [assumption|assumption|lia]. }
  destruct af; [|apply Hfall].
  cbn [andb].
  destruct (h (HSl f) n stride) eqn:Eh; cbn [action_eqb andb].
  - destruct sl; cbn [andb].
    + apply Hcontig.
    + intros H. injection H as <- <-. now apply rpo_full_slice.
  - rewrite andb_false_r. apply Hcontig.
  - rewrite andb_false_r. apply Hfall.
Qed.

Lemma pslice_eqb_none s : pslice_eqb s sl_none = true -> s = sl_none.
Proof. destruct s as [[a|] [b|] [c|]]; try discriminate. reflexivity. Qed.

Lemma fsl_eqb_eq a b : fsl_eqb a b = true -> a = b.
Proof.
  destruct a as [a1 a2 a3], b as [b1 b2 b3]. unfold fsl_eqb. cbn [f_start f_stop f_step].
  intros H. apply andb_true_iff in H. destruct H as [H H3]. apply andb_true_iff in H. destruct H as [H1 H2].
  apply Z.eqb_eq in H1, H3. subst.
  destruct a2 as [x|], b2 as [y|]; cbn in H2; try discriminate; [apply Z.eqb_eq in H2; now subst|reflexivity].
Qed.

Theorem optimize_slicer_sound c n af sl stride h rd ps :
  0 <= n -> valid_cidx n c ->
  optimize_slicer c n af sl stride h = Ok (rd, ps) ->
  read_post_ok n (axis_sel n c) rd ps.
Proof.
  intros Hn Hv. destruct c as [k|s|]; cbn [valid_cidx] in Hv; [| |contradiction]; cbn [optimize_slicer axis_sel].
  - replace (k <? 0) with false by lia. now apply optimize_rest_int_sound.
  - destruct (pslice_eqb s sl_none) eqn:E.
    + apply pslice_eqb_none in E. subst s. intros H. injection H as <- <-.
      rewrite (py_indices_none n Hn), (zseq_as_range n Hn). now apply rpo_none_none.
    + destruct (fill_slicer_ok s n Hv) as [f Hf]. rewrite Hf. cbn [bind].
      destruct (fill_slicer_indices s n f Hn Hf) as (Hi & Hst & _).
      pose proof (fill_slicer_wf s n f Hn Hf) as Hwf. rewrite <- Hi.
      destruct (fsl_eqb f (mkF 0 (Some n) 1)) eqn:E1.
      * apply fsl_eqb_eq in E1. subst f. intros H. injection H as <- <-. now apply rpo_none_none.
      * destruct (fsl_eqb f (mkF (n - 1) None (-1))) eqn:E2.
        -- apply fsl_eqb_eq in E2. subst f. intros H. injection H as <- <-. now apply rpo_none_rev.
        -- apply optimize_rest_sl_sound; [assumption|assumption|lia].
Qed.

(* ====================================================================================
   Part 2: slicers2segments reads, in order, exactly the F-order bytes of the sub-array
   selected by the read slicers (any rank). *)
Definition pos1 (s : seg) : list Z := map (fun k => fst s + k) (zseq (snd s)).
Definition positions (l : list seg) : list Z := flat_map pos1 l.
Definition shift (d : Z) (s : seg) : seg := (fst s + d, snd s).

Lemma pos1_shift d s : pos1 (shift d s) = map (fun p => p + d) (pos1 s).
Proof. unfold pos1, shift; cbn [fst snd]. rewrite map_map. apply map_ext; intros; lia. Qed.

Lemma positions_shift d l : positions (map (shift d) l) = map (fun p => p + d) (positions l).
Proof.
  unfold positions. induction l as [|s l IH]; [reflexivity|].
  cbn [map flat_map]. rewrite map_app, pos1_shift, IH. reflexivity.
Qed.

Lemma positions_app a b : positions (a ++ b) = positions a ++ positions b.
Proof. unfold positions. apply flat_map_app. Qed.

Lemma positions_flat_map (c : Z) (L : list Z) l :
  positions (flat_map (fun i => map (shift (c * i)) l) L)
  = flat_map (fun i => map (fun p => p + c * i) (positions l)) L.
Proof.
  induction L as [|i L IH]; [reflexivity|]. cbn [flat_map].
  rewrite positions_app, positions_shift, IH. reflexivity.
Qed.

Lemma map_flat_map {A B C} (g : B -> C) (f : A -> list B) l :
  map g (flat_map f l) = flat_map (fun x => map g (f x)) l.
Proof. induction l as [|x l IH]; [reflexivity|]. cbn [flat_map]. now rewrite map_app, IH. Qed.

Lemma flat_map_flat_map {A B C} (g : B -> list C) (f : A -> list B) l :
  flat_map g (flat_map f l) = flat_map (fun x => flat_map g (f x)) l.
Proof. induction l as [|x l IH]; [reflexivity|]. cbn [flat_map]. now rewrite flat_map_app, IH. Qed.

Lemma flat_map_map {A B C} (f : B -> list C) (g : A -> B) l :
  flat_map f (map g l) = flat_map (fun x => f (g x)) l.
Proof. induction l as [|x l IH]; [reflexivity|]. cbn [map flat_map]. now rewrite IH. Qed.

Lemma flat_map_singleton {A B} (f : A -> B) l : flat_map (fun x => [f x]) l = map f l.
Proof. induction l as [|x l IH]; [reflexivity|]. cbn [flat_map map]. now rewrite IH. Qed.

Lemma zseq_succ n : 0 <= n -> zseq (n + 1) = zseq n ++ [n].
Proof.
  intros H. unfold zseq. replace (Z.to_nat (n + 1)) with (S (Z.to_nat n)) by lia.
  rewrite seq_S, map_app. cbn [map Nat.add]. f_equal. f_equal. lia.
Qed.

Lemma zseq_add a b : 0 <= a -> 0 <= b -> zseq (a + b) = zseq a ++ map (fun k => a + k) (zseq b).
Proof.
  intros Ha Hb. pattern b. apply natlike_ind; [| |exact Hb].
  - rewrite Z.add_0_r. cbn. now rewrite app_nil_r.
  - intros y Hy IHy. replace (a + Z.succ y) with (a + y + 1) by lia. replace (Z.succ y) with (y + 1) by lia.
    rewrite zseq_succ by lia. rewrite IHy.
    rewrite (zseq_succ y Hy), map_app, <- app_assoc. reflexivity.
Qed.

(* a block of l*m consecutive bytes = m consecutive blocks of l bytes *)
Lemma block_split (o l m : Z) : 0 <= l -> 0 <= m ->
  map (fun k => o + k) (zseq (l * m))
  = flat_map (fun j => map (fun k => o + l * j + k) (zseq l)) (zseq m).
Proof.
  intros Hl Hm. pattern m. apply natlike_ind; [| |exact Hm].
  - rewrite Z.mul_0_r. reflexivity.
  - intros x Hx IH. replace (Z.succ x) with (x + 1) by lia.
    rewrite zseq_succ by assumption. rewrite flat_map_app. cbn [flat_map]. rewrite app_nil_r.
    rewrite <- IH. clear IH.
    replace (l * (x + 1)) with (l * x + l) by lia.
    rewrite zseq_add by nia. rewrite map_app, map_map. f_equal. apply map_ext. intros; lia.
Qed.

(* the read slicers produced by optimize_read_slicers *)
Definition read_valid (n : Z) (c : cidx) : Prop :=
  match c with CInt k => 0 <= k < n | CSl r => 0 < step_of r | CNew => True end.

Fixpoint reads_valid (shape : list Z) (rd : list cidx) : Prop :=
  match rd with
  | [] => shape = []
  | CNew :: r => reads_valid shape r
  | c :: r => match shape with n :: sh => 0 <= n /\ read_valid n c /\ reads_valid sh r | [] => False end
  end.

Lemma py_nth_app pre n post : py_nth (pre ++ n :: post) (zlen pre) = Ok n.
Proof.
  unfold py_nth, zlen. rewrite app_length. cbn [length].
  replace ((Z.of_nat (length pre) <? - Z.of_nat (length pre + S (length post))) ||
           (Z.of_nat (length pre + S (length post)) <=? Z.of_nat (length pre))) with false by lia.
  replace (Z.of_nat (length pre) <? 0) with false by lia.
  rewrite Nat2Z.id. rewrite app_nth2 by lia. now rewrite Nat.sub_diag.
Qed.

Lemma fill_positive s n f : 0 <= n -> 0 < step_of s -> fill_slicer s n = Ok f ->
  exists b, f_stop f = Some b /\ frange f = Ok (py_indices n s) /\ 0 < f_step f
            /\ full_slicer_len f = zlen (py_indices n s).
Proof.
  intros Hn Hs Hf. destruct (fill_slicer_indices s n f Hn Hf) as (Hi & Hst & _).
  pose proof (fill_slicer_wf s n f Hn Hf) as [(H1 & _ & b & Hb & _)|(H1 & _)]; [|lia].
  exists b. split; [assumption|]. split; [|split; [lia|]].
  - unfold frange. rewrite Hb. replace (f_step f =? 0) with false by lia. rewrite <- Hi.
    unfold fsl_indices, fsl_triple, stop_or. now rewrite Hb.
  - rewrite full_slicer_len_spec by lia. rewrite <- Hi. unfold fsl_indices. now rewrite zlen_range_of.
Qed.

Definition seg_inv (af : bool) (stride : Z) (S : list seg) : Prop :=
  af = true -> exists o, S = [(o, stride)].

Lemma s2s_positions : forall rd pre sh stride af S S',
  reads_valid sh rd -> 0 <= stride -> seg_inv af stride S ->
  s2s_loop rd (pre ++ sh) (zlen pre) stride af S = Ok S' ->
  positions S' = flat_map (fun outer => map (fun p => p + outer) (positions S)) (offs sh rd stride).
Proof.
  induction rd as [|c rd IH]; intros pre sh stride af S S' Hv Hstr Hinv Hrun.
  - cbn in Hrun. injection Hrun as <-. cbn [offs flat_map]. rewrite app_nil_r.
    rewrite <- (map_id (positions S)) at 1. apply map_ext; intros; lia.
  - destruct c as [k|s|].
    + (* int *)
      destruct sh as [|n sh]; [cbn in Hv; contradiction|]. cbn [reads_valid] in Hv. destruct Hv as (Hn & Hk & Hv).
      cbn [s2s_loop] in Hrun. rewrite py_nth_app in Hrun. cbn [bind] in Hrun.
      replace (pre ++ n :: sh) with ((pre ++ [n]) ++ sh) in Hrun by (rewrite <- app_assoc; reflexivity).
      replace (zlen pre + 1) with (zlen (pre ++ [n])) in Hrun by (unfold zlen; rewrite app_length; cbn; lia).
      apply IH in Hrun; [|assumption|nia|intros H; discriminate].
      rewrite Hrun. cbn [offs axis_sel].
      change (fun s0 : seg => (fst s0 + stride * k, snd s0)) with (shift (stride * k)).
      rewrite positions_shift. rewrite flat_map_flat_map. apply flat_map_ext. intros o'.
      cbn [map flat_map]. rewrite app_nil_r. rewrite map_map. apply map_ext. intros; lia.
    + (* slice *)
      destruct sh as [|n sh]; [cbn in Hv; contradiction|]. cbn [reads_valid] in Hv. destruct Hv as (Hn & Hs & Hv).
      cbn [read_valid] in Hs.
      cbn [s2s_loop] in Hrun. rewrite py_nth_app in Hrun. cbn [bind] in Hrun.
      destruct (fill_slicer_ok s n ltac:(lia)) as [f Hf]. rewrite Hf in Hrun. cbn [bind] in Hrun.
      destruct (fill_positive s n f Hn Hs Hf) as (b & Hb & Hfr & Hfst & Hlen).
      set (idxs := py_indices n s) in *.
      (* both branches give segments whose positions are the per-index shifted copies *)
      assert (Hstep : exists S1,
         (if af && (f_step f =? 1)
          then match S with (o, l) :: rest => Ok ((o + stride * f_start f, l * full_slicer_len f) :: rest) | [] => Ok [] end
          else idxs0 <- frange f;; Ok (flat_map (fun i => map (fun s0 : seg => (fst s0 + stride * i, snd s0)) S) idxs0)) = Ok S1
         /\ positions S1 = flat_map (fun i => map (fun p => p + stride * i) (positions S)) idxs
         /\ seg_inv (af && fsl_eqb f (mkF 0 (Some n) 1)) (stride * n) S1).
      { destruct (af && (f_step f =? 1)) eqn:Em.
        - apply andb_true_iff in Em. destruct Em as [Eaf E1]. apply Z.eqb_eq in E1.
          destruct (Hinv Eaf) as [o HS]. subst S. eexists. split; [reflexivity|]. split.
          + destruct (fill_slicer_indices s n f Hn Hf) as (Hi & _ & _). fold idxs in Hi.
            assert (Hidx : idxs = map (fun j => f_start f + j * 1) (zseq (zlen idxs))).
            { rewrite <- Hi at 1. unfold fsl_indices, fsl_triple, stop_or. rewrite Hb, E1.
              unfold range_of, snth. rewrite <- Hi. unfold fsl_indices, fsl_triple, stop_or.
              rewrite Hb, E1, zlen_range_of. reflexivity. }
            rewrite Hlen. set (m := zlen idxs) in *.
            assert (Hm : 0 <= m) by (unfold m, zlen; lia).
            rewrite Hidx. unfold positions. cbn [flat_map]. rewrite !app_nil_r. unfold pos1. cbn [fst snd].
            rewrite block_split by assumption.
            rewrite flat_map_map. apply flat_map_ext. intros j. rewrite map_map.
            apply map_ext. intros; lia.
          + intros Hfull. apply andb_true_iff in Hfull. destruct Hfull as [_ Hfull]. apply fsl_eqb_eq in Hfull.
            exists (o + stride * f_start f). rewrite Hlen. f_equal. f_equal.
            destruct (fill_slicer_indices s n f Hn Hf) as (Hi & _ & _). fold idxs in Hi. rewrite <- Hi.
            subst f. unfold fsl_indices, fsl_triple, stop_or. cbn [f_start f_stop f_step].
            rewrite zlen_range_of. now rewrite slen_unit.
        - rewrite Hfr. cbn [bind]. eexists. split; [reflexivity|]. split.
          + change (fun s0 : seg => (fst s0 + stride * ?i, snd s0)) with (shift (stride * i)).
            apply (positions_flat_map stride idxs S).
          + intros Hfull. apply andb_true_iff in Hfull. destruct Hfull as [Eaf Hfull]. apply fsl_eqb_eq in Hfull.
            subst f. cbn [f_step] in Em. rewrite Eaf in Em. discriminate. }
      destruct Hstep as (S1 & HS1 & HP1 & Hinv1). rewrite HS1 in Hrun. cbn [bind] in Hrun.
      replace (pre ++ n :: sh) with ((pre ++ [n]) ++ sh) in Hrun by (rewrite <- app_assoc; reflexivity).
      replace (zlen pre + 1) with (zlen (pre ++ [n])) in Hrun by (unfold zlen; rewrite app_length; cbn; lia).
      apply IH in Hrun; [|assumption|nia|assumption].
      rewrite Hrun, HP1. cbn [offs axis_sel]. fold idxs.
      rewrite flat_map_flat_map. apply flat_map_ext. intros o'.
      rewrite map_flat_map, flat_map_map. apply flat_map_ext. intros i.
      rewrite map_map. apply map_ext. intros; lia.
    + (* new axis *)
      cbn [reads_valid] in Hv. cbn [s2s_loop] in Hrun. cbn [offs]. now apply IH with (pre := pre) (af := af).
Qed.

Lemma pos1_off o d w : map (fun p => p + d) (pos1 (o, w)) = pos1 (o + d, w).
Proof. unfold pos1. cbn [fst snd]. rewrite map_map. apply map_ext. intros; lia. Qed.

Theorem segments_are_F_order rd shape off w segs :
  reads_valid shape rd -> 0 <= w ->
  slicers2segments rd shape off w = Ok segs ->
  positions segs = flat_map (fun d => pos1 (off + d, w)) (offs shape rd w).
Proof.
  intros Hv Hw Hrun. unfold slicers2segments in Hrun.
  apply (s2s_positions rd [] shape w true [(off, w)] segs Hv Hw) in Hrun.
  - rewrite Hrun. apply flat_map_ext. intros d. unfold positions. cbn [flat_map]. rewrite app_nil_r.
    apply pos1_off.
  - intros _. exists off. reflexivity.
Qed.

(* and it always succeeds on valid read slicers *)
Lemma s2s_total : forall rd pre sh stride af S,
  reads_valid sh rd -> exists S', s2s_loop rd (pre ++ sh) (zlen pre) stride af S = Ok S'.
Proof.
  induction rd as [|c rd IH]; intros pre sh stride af S Hv.
  - eexists. reflexivity.
  - destruct c as [k|s|].
    + destruct sh as [|n sh]; [cbn in Hv; contradiction|]. cbn [reads_valid] in Hv. destruct Hv as (Hn & Hk & Hv).
      cbn [s2s_loop]. rewrite py_nth_app. cbn [bind].
      replace (pre ++ n :: sh) with ((pre ++ [n]) ++ sh) by (rewrite <- app_assoc; reflexivity).
      replace (zlen pre + 1) with (zlen (pre ++ [n])) by (unfold zlen; rewrite app_length; cbn; lia).
      apply IH. assumption.
    + destruct sh as [|n sh]; [cbn in Hv; contradiction|]. cbn [reads_valid] in Hv. destruct Hv as (Hn & Hs & Hv).
      cbn [read_valid] in Hs. cbn [s2s_loop]. rewrite py_nth_app. cbn [bind].
      destruct (fill_slicer_ok s n ltac:(lia)) as [f Hf]. rewrite Hf. cbn [bind].
      destruct (fill_positive s n f Hn Hs Hf) as (b & Hb & Hfr & Hfst & Hlen). rewrite Hfr. cbn [bind].
      replace (pre ++ n :: sh) with ((pre ++ [n]) ++ sh) by (rewrite <- app_assoc; reflexivity).
      replace (zlen pre + 1) with (zlen (pre ++ [n])) by (unfold zlen; rewrite app_length; cbn; lia).
      destruct (af && (f_step f =? 1)); [destruct S as [|[o l] rest]|]; cbn [bind]; apply IH; assumption.
    + cbn [reads_valid] in Hv. cbn [s2s_loop]. apply IH. assumption.
Qed.

Lemma slicers2segments_total rd shape off w : reads_valid shape rd ->
  exists segs, slicers2segments rd shape off w = Ok segs.
Proof. intros Hv. unfold slicers2segments. apply (s2s_total rd [] shape w true _ Hv). Qed.

(* ====================================================================================
   Part 3: post-slicing the block that was read gives the block that was asked for *)
Fixpoint ix_valid (shape : list Z) (ix : list cidx) : Prop :=
  match ix with
  | [] => shape = []
  | CNew :: r => ix_valid shape r
  | c :: r => match shape with n :: sh => 0 <= n /\ valid_cidx n c /\ ix_valid sh r | [] => False end
  end.

Lemma offs_scale : forall ix sh k strd,
  offs sh ix (k * strd) = map (fun x => k * x) (offs sh ix strd).
Proof.
  induction ix as [|c ix IH]; intros sh k strd.
  - cbn. f_equal. lia.
  - assert (G : forall n sh', 
      flat_map (fun outer => map (fun i => k * strd * i + outer) (axis_sel n c)) (offs sh' ix (k * strd * n))
      = map (fun x => k * x) (flat_map (fun outer => map (fun i => strd * i + outer) (axis_sel n c)) (offs sh' ix (strd * n)))).
    { intros n sh'. replace (k * strd * n) with (k * (strd * n)) by lia. rewrite IH.
      rewrite flat_map_map, map_flat_map. apply flat_map_ext. intros o. rewrite map_map.
      apply map_ext. intros; lia. }
    destruct c as [k0|s|]; cbn [offs]; [destruct sh as [|n sh']; [reflexivity|apply G]
                                      |destruct sh as [|n sh']; [reflexivity|apply G]|apply IH].
Qed.

Lemma axis_sel_in_range n c i : 0 <= n -> valid_cidx n c -> In i (axis_sel n c) -> 0 <= i < n.
Proof.
  intros Hn Hv Hi. destruct c as [k|s|]; cbn in *; [destruct Hi as [<-|[]]; assumption| |contradiction].
  now apply (py_indices_in_range n s).
Qed.

Lemma prod_nonneg l : Forall (fun n => 0 <= n) l -> 0 <= prod l.
Proof. induction 1; cbn; [lia|]. unfold prod in *. nia. Qed.

Lemma ix_valid_shape_nonneg : forall ix shape, ix_valid shape ix -> Forall (fun n => 0 <= n) shape.
Proof.
  induction ix as [|c ix IH]; intros shape Hv.
  - cbn in Hv. subst. constructor.
  - destruct c as [k|s|]; cbn [ix_valid] in Hv; [| |now apply IH];
      (destruct shape as [|n sh]; [contradiction|]); destruct Hv as (Hn & _ & Hv); constructor; auto.
Qed.

Lemma offs_range : forall ix shape o, ix_valid shape ix -> In o (offs shape ix 1) -> 0 <= o < prod shape.
Proof.
  induction ix as [|c ix IH]; intros shape o Hv Ho.
  - cbn in *. subst. destruct Ho as [<-|[]]. cbn. lia.
  - assert (G : forall n sh, 0 <= n -> valid_cidx n c -> ix_valid sh ix ->
       In o (flat_map (fun outer => map (fun i => 1 * i + outer) (axis_sel n c)) (offs sh ix (1 * n))) ->
       0 <= o < prod (n :: sh)).
    { intros n sh Hn Hc Hv' Ho'. apply in_flat_map in Ho'. destruct Ho' as (outer & Hout & Hin).
      apply in_map_iff in Hin. destruct Hin as (i & <- & Hi).
      replace (1 * n) with (n * 1) in Hout by lia. rewrite offs_scale in Hout.
      apply in_map_iff in Hout. destruct Hout as (o2 & <- & Ho2).
      pose proof (IH sh o2 Hv' Ho2) as Hr. pose proof (axis_sel_in_range n c i Hn Hc Hi) as Hir.
      cbn [prod fold_right]. fold (prod sh). nia. }
    destruct c as [k|s|]; cbn [ix_valid offs] in *;
      [destruct shape as [|n sh]; [contradiction|]; destruct Hv as (Hn & Hc & Hv); now apply G
      |destruct shape as [|n sh]; [contradiction|]; destruct Hv as (Hn & Hc & Hv); now apply G
      |now apply IH].
Qed.

Lemma zlen_map {A B} (f : A -> B) l : zlen (map f l) = zlen l.
Proof. unfold zlen. now rewrite map_length. Qed.

Lemma zlen_flat_map_const {A B} (F : A -> list B) m l :
  (forall x, zlen (F x) = m) -> zlen (flat_map F l) = m * zlen l.
Proof.
  intros H. induction l as [|x l IH]; cbn [flat_map]; [unfold zlen; cbn; lia|].
  unfold zlen in *. rewrite app_length. cbn [length]. rewrite Nat2Z.inj_add, IH, H. lia.
Qed.

Lemma offs_length : forall ix shape strd, ix_valid shape ix ->
  zlen (offs shape ix strd) = prod (np_shape shape ix).
Proof.
  induction ix as [|c ix IH]; intros shape strd Hv.
  - reflexivity.
  - destruct c as [k|s|]; cbn [ix_valid] in Hv.
    + destruct shape as [|n sh]; [contradiction|]. destruct Hv as (Hn & Hc & Hv).
      cbn [offs np_shape axis_sel tl]. rewrite (zlen_flat_map_const _ 1) by (intros; reflexivity).
      rewrite IH by assumption. lia.
    + destruct shape as [|n sh]; [contradiction|]. destruct Hv as (Hn & Hc & Hv).
      cbn [offs np_shape axis_sel tl hd]. rewrite (zlen_flat_map_const _ (zlen (py_indices n s))) by (intros; apply zlen_map).
      rewrite IH by assumption. reflexivity.
    + cbn [offs np_shape]. rewrite IH by assumption. cbn [prod fold_right]. fold (prod (np_shape shape ix)). lia.
Qed.

(* nth into a concatenation of equal-length blocks *)
Lemma nth_blocks {A B} (F : A -> list B) (m : nat) (O : list A) (d : B) (da : A) :
  (forall o, length (F o) = m) -> forall (j i : nat), (i < m)%nat -> (j < length O)%nat ->
  nth (i + m * j) (flat_map F O) d = nth i (F (nth j O da)) d.
Proof.
  intros HF. induction O as [|o O IH]; intros j i Hi Hj; cbn [length] in Hj; [lia|].
  cbn [flat_map]. destruct j as [|j].
  - rewrite Nat.mul_0_r, Nat.add_0_r. rewrite app_nth1 by (rewrite HF; lia). reflexivity.
  - rewrite app_nth2 by (rewrite HF; lia). rewrite HF.
    replace (i + m * S j - m)%nat with (i + m * j)%nat by lia. cbn [nth]. apply IH; lia.
Qed.

Lemma sel_nth_flat_map L (F : Z -> list Z) J : sel_nth L (flat_map F J) = flat_map (fun j => sel_nth L (F j)) J.
Proof. unfold sel_nth. apply map_flat_map. Qed.

Lemma nth_map_in {A B} (f : A -> B) l n d d' : (n < length l)%nat -> nth n (map f l) d = f (nth n l d').
Proof. intros H. rewrite (nth_indep _ d (f d')) by (rewrite map_length; lia). apply map_nth. Qed.

Lemma flat_map_ext_in' {A B} (f g : A -> list B) l :
  (forall x, In x l -> f x = g x) -> flat_map f l = flat_map g l.
Proof.
  induction l as [|x l IH]; intros H; [reflexivity|]. cbn [flat_map].
  rewrite H by (left; reflexivity). rewrite IH; [reflexivity|]. intros y Hy. apply H. now right.
Qed.

(* the nested-block selection lemma *)
Lemma sel_nested strd S O I J :
  (forall i, In i I -> 0 <= i < zlen S) -> (forall j, In j J -> 0 <= j < zlen O) ->
  sel_nth (flat_map (fun outer => map (fun i => strd * i + outer) S) O)
          (flat_map (fun j => map (fun i => 1 * i + j) I) (map (fun x => zlen S * x) J))
  = flat_map (fun outer => map (fun i => strd * i + outer) (sel_nth S I)) (sel_nth O J).
Proof.
  intros HI HJ. rewrite sel_nth_flat_map, flat_map_map. unfold sel_nth at 3. rewrite flat_map_map.
  apply flat_map_ext_in'. intros j Hj. unfold sel_nth. rewrite !map_map.
  apply map_ext_in. intros i Hi. specialize (HI i Hi). specialize (HJ j Hj). unfold zlen in *.
  replace (Z.to_nat (1 * i + Z.of_nat (length S) * j)) with (Z.to_nat i + length S * Z.to_nat j)%nat by nia.
  rewrite (nth_blocks (fun outer => map (fun i0 => strd * i0 + outer) S) (length S) O 0 0);
    [|intros; apply map_length|lia|lia].
  rewrite (nth_map_in _ S (Z.to_nat i) 0 0) by lia. reflexivity.
Qed.

(* relation between the canonical index c, the read slicers rd and the post slicers ps *)
Inductive rp_rel : list Z -> list cidx -> list cidx -> list post -> Prop :=
| rp_nil : rp_rel [] [] [] []
| rp_new shape c rd ps : rp_rel shape c rd ps ->
    rp_rel shape (CNew :: c) (CNew :: rd) (PSl sl_none :: ps)
| rp_int n shape k c rd ps : 0 <= n -> 0 <= k < n -> rp_rel shape c rd ps ->
    rp_rel (n :: shape) (CInt k :: c) (CInt k :: rd) ps
| rp_sl n shape x r p c rd ps : 0 <= n -> valid_cidx n x ->
    read_post_ok n (axis_sel n x) (CSl r) p ->
    ((forall k, p = PInt k -> x = CInt k) /\ (forall q, p = PSl q -> exists s, x = CSl s)) -> rp_rel shape c rd ps ->
    rp_rel (n :: shape) (x :: c) (CSl r :: rd) (p :: ps).

Lemma rp_rel_reads_valid shape c rd ps : rp_rel shape c rd ps -> reads_valid shape rd.
Proof.
  induction 1 as [|? ? ? ? ? IH|? ? ? ? ? ? Hn Hk ? IH|? ? ? ? ? ? ? ? Hn Hx Hrp Hpi ? IH]; cbn [reads_valid read_valid]; auto.
  destruct Hrp as (Hs & _). auto.
Qed.

Lemma rp_rel_ix_valid shape c rd ps : rp_rel shape c rd ps -> ix_valid shape c.
Proof.
  induction 1 as [|? ? ? ? ? IH|? ? ? ? ? ? Hn Hk ? IH|? ? x ? ? ? ? ? Hn Hx Hrp Hpi ? IH]; cbn [ix_valid valid_cidx]; auto.
  destruct x as [k|s|]; cbn [valid_cidx] in Hx; [| |contradiction]; auto.
Qed.

Lemma valid_cidx_not_new n x : valid_cidx n x -> x <> CNew.
Proof. destruct x; cbn; [discriminate|discriminate|contradiction]. Qed.

Lemma rp_rel_post_valid shape c rd ps : rp_rel shape c rd ps ->
  ix_valid (np_shape shape rd) (map post_to_cidx ps).
Proof.
  induction 1 as [|? ? ? ? ? IH|? ? ? ? ? ? Hn Hk ? IH|? ? x ? p ? ? ? Hn Hx Hrp Hpi ? IH];
    cbn [np_shape map post_to_cidx ix_valid tl hd]; auto.
  - split; [lia|]. split; [discriminate|assumption].
  - destruct Hrp as (_ & _ & Hnd & Hpv).
    destruct p as [|k|q]; [contradiction| |]; cbn [post_to_cidx] in *;
      (split; [apply Nat2Z.is_nonneg|]); (split; [exact Hpv|assumption]).
Qed.

Lemma reads_valid_ix_valid : forall rd shape, reads_valid shape rd -> ix_valid shape rd.
Proof.
  induction rd as [|c rd IH]; intros shape H; [exact H|].
  destruct c as [k|s|]; cbn [reads_valid ix_valid] in *; [| |now apply IH];
    (destruct shape as [|n sh]; [contradiction|]); destruct H as (Hn & Hc & H);
    (split; [assumption|]); (split; [|now apply IH]); cbn [read_valid valid_cidx] in *; lia.
Qed.

Lemma offs_cons_real n sh x ix strd : x <> CNew ->
  offs (n :: sh) (x :: ix) strd
  = flat_map (fun outer => map (fun i => strd * i + outer) (axis_sel n x)) (offs sh ix (strd * n)).
Proof. destruct x; [reflexivity|reflexivity|contradiction]. Qed.

Theorem compose_offs shape c rd ps : rp_rel shape c rd ps -> forall strd,
  sel_nth (offs shape rd strd) (offs (np_shape shape rd) (map post_to_cidx ps) 1) = offs shape c strd.
Proof.
  induction 1 as [|shape c rd ps Hrel IH|n shape k c rd ps Hn Hk Hrel IH|n shape x r p c rd ps Hn Hx Hrp Hpi Hrel IH]; intros strd.
  - reflexivity.
  - (* new axis: length-1 axis of the block read, post slice(None) *)
    cbn [np_shape map post_to_cidx offs axis_sel].
    rewrite (py_indices_none 1) by lia.
    replace (zseq 1) with [0] by reflexivity.
    replace (flat_map (fun outer => map (fun i => 1 * i + outer) [0])
              (offs (np_shape shape rd) (map post_to_cidx ps) (1 * 1)))
      with (offs (np_shape shape rd) (map post_to_cidx ps) 1).
    + apply IH.
    + replace (1 * 1) with 1 by lia. cbn [map]. rewrite flat_map_singleton.
      rewrite <- (map_id (offs _ _ 1)) at 1. apply map_ext. intros; lia.
  - (* int read: the axis is absent from the block read *)
    cbn [np_shape tl]. cbn [offs axis_sel]. cbn [map]. rewrite !flat_map_singleton.
    pose proof (rp_rel_post_valid _ _ _ _ Hrel) as Hpv.
    pose proof (rp_rel_reads_valid _ _ _ _ Hrel) as Hrv.
    rewrite <- (IH (strd * n)). unfold sel_nth. rewrite map_map. apply map_ext_in. intros j Hj.
    apply (offs_range _ _ _ Hpv) in Hj.
    assert (Hlen : zlen (offs shape rd (strd * n)) = prod (np_shape shape rd)).
    { apply offs_length. now apply reads_valid_ix_valid. }
    apply nth_map_in. unfold zlen in Hlen. lia.
  - (* slice read *)
    pose proof (valid_cidx_not_new n x Hx) as Hnn.
    rewrite (offs_cons_real n shape x c strd Hnn).
    cbn [np_shape tl hd map].
    pose proof Hrp as (Hs & Hsel & Hnd & Hpv).
    assert (Hpn : post_to_cidx p <> CNew) by (destruct p; [contradiction|discriminate|discriminate]).
    rewrite (offs_cons_real _ _ _ _ 1 Hpn).
    cbn [offs axis_sel].
    set (S := py_indices n r) in *. set (m := zlen S) in *.
    replace (1 * m) with (m * 1) by lia. rewrite (offs_scale (map post_to_cidx ps) (np_shape shape rd) m 1).
    pose proof (rp_rel_post_valid _ _ _ _ Hrel) as Hpvs.
    pose proof (rp_rel_reads_valid _ _ _ _ Hrel) as Hrv.
    assert (Hlen : zlen (offs shape rd (strd * n)) = prod (np_shape shape rd)).
    { apply offs_length. now apply reads_valid_ix_valid. }
    rewrite sel_nested.
    + rewrite Hsel, IH. reflexivity.
    + intros i Hi. apply (axis_sel_in_range m (post_to_cidx p)); [unfold m, zlen; lia|exact Hpv|exact Hi].
    + intros j Hj. rewrite Hlen. now apply (offs_range _ _ _ Hpvs).
Qed.

(* ====================================================================================
   Part 3a: optimize_read_slicers establishes rp_rel (any heuristic that never answers
   'contiguous' for an int index; otherwise the code raises ValueError) *)
Definition h_ok (h : heuristic) : Prop := forall k n s, h (HInt k) n s <> AContig.

Lemma optimize_rest_sl_not_int f n af sl stride h rd ps :
  optimize_rest (HSl f) n af sl stride h = Ok (rd, ps) -> exists r, rd = CSl r.
Proof.
  unfold optimize_rest.
  destruct af; [destruct (h (HSl f) n stride), sl|]; cbn [andb action_eqb];
    repeat match goal with |- context [if ?c then _ else _] => destruct c end;
    intros H; inversion H; subst; eexists; reflexivity.
Qed.

Lemma optimize_slicer_int_inv c n af sl stride h k ps : valid_cidx n c ->
  optimize_slicer c n af sl stride h = Ok (CInt k, ps) -> c = CInt k.
Proof.
  intros Hv. destruct c as [k0|s|]; cbn [valid_cidx] in Hv; [| |contradiction]; cbn [optimize_slicer].
  - replace (k0 <? 0) with false by lia. unfold optimize_rest.
    destruct af, (h (HInt k0) n stride), sl; cbn [andb action_eqb];
      intros H; try discriminate; inversion H; subst; reflexivity.
  - destruct (pslice_eqb s sl_none); [discriminate|].
    destruct (fill_slicer s n) as [f|e]; cbn [bind]; [|discriminate].
    destruct (fsl_eqb f _); [discriminate|]. destruct (fsl_eqb f _); [discriminate|].
    intros H. apply optimize_rest_sl_not_int in H. destruct H as [r Hr]. discriminate.
Qed.

Lemma optimize_rest_sl_not_pint f n af sl stride h rd k :
  optimize_rest (HSl f) n af sl stride h = Ok (rd, PInt k) -> False.
Proof.
  unfold optimize_rest.
  destruct af; [destruct (h (HSl f) n stride), sl|]; cbn [andb action_eqb];
    repeat match goal with |- context [if ?c then _ else _] => destruct c end;
    intros H; inversion H.
Qed.

Lemma optimize_slicer_pint_inv c n af sl stride h rd k : valid_cidx n c ->
  optimize_slicer c n af sl stride h = Ok (rd, PInt k) -> c = CInt k.
Proof.
  intros Hv. destruct c as [k0|s|]; cbn [valid_cidx] in Hv; [| |contradiction]; cbn [optimize_slicer].
  - replace (k0 <? 0) with false by lia. unfold optimize_rest.
    destruct af, (h (HInt k0) n stride), sl; cbn [andb action_eqb];
      intros H; try discriminate; inversion H; subst; reflexivity.
  - destruct (pslice_eqb s sl_none); [discriminate|].
    destruct (fill_slicer s n) as [f|e]; cbn [bind]; [|discriminate].
    destruct (fsl_eqb f _); [discriminate|]. destruct (fsl_eqb f _); [discriminate|].
    intros H. apply optimize_rest_sl_not_pint in H. contradiction.
Qed.

Lemma optimize_slicer_psl_inv c n af sl stride h rd q : valid_cidx n c ->
  optimize_slicer c n af sl stride h = Ok (rd, PSl q) -> exists s, c = CSl s.
Proof.
  intros Hv. destruct c as [k0|s|]; cbn [valid_cidx] in Hv; [| |contradiction]; [|eexists; reflexivity].
  cbn [optimize_slicer]. replace (k0 <? 0) with false by lia. unfold optimize_rest.
  destruct af, (h (HInt k0) n stride), sl; cbn [andb action_eqb]; intros H; discriminate.
Qed.

Lemma optimize_slicer_total c n af sl stride h : h_ok h -> 0 <= n -> valid_cidx n c ->
  exists rd ps, optimize_slicer c n af sl stride h = Ok (rd, ps).
Proof.
  intros Hh Hn Hv. destruct c as [k0|s|]; cbn [valid_cidx] in Hv; [| |contradiction]; cbn [optimize_slicer].
  - replace (k0 <? 0) with false by lia. unfold optimize_rest. specialize (Hh k0 n stride).
    destruct af, (h (HInt k0) n stride), sl; cbn [andb action_eqb]; try contradiction;
      eexists; eexists; reflexivity.
  - destruct (pslice_eqb s sl_none); [eexists; eexists; reflexivity|].
    destruct (fill_slicer_ok s n Hv) as [f Hf]. rewrite Hf. cbn [bind].
    destruct (fsl_eqb f _); [eexists; eexists; reflexivity|].
    destruct (fsl_eqb f _); [eexists; eexists; reflexivity|].
    unfold optimize_rest.
    destruct af, (h (HSl f) n stride), sl; cbn [andb action_eqb];
      repeat match goal with |- context [if ?c then _ else _] => destruct c end;
      eexists; eexists; reflexivity.
Qed.

Lemma opt_read_loop_sound : forall c pre sh h stride af rd ps,
  ix_valid sh c ->
  opt_read_loop c (pre ++ sh) h (zlen pre) stride af = Ok (rd, ps) -> rp_rel sh c rd ps.
Proof.
  induction c as [|x c IH]; intros pre sh h stride af rd ps Hv Hrun.
  - cbn in Hv, Hrun. subst sh. injection Hrun as <- <-. constructor.
  - assert (Hreal : forall n sh', sh = n :: sh' -> 0 <= n -> valid_cidx n x -> ix_valid sh' c ->
      (dim_len <- py_nth (pre ++ sh) (zlen pre) ;;
       rp <- optimize_slicer x dim_len af (zlen pre + 1 =? zlen (pre ++ sh)) stride h ;;
       (let '(rd0, ps0) := rp in
        t <- opt_read_loop c (pre ++ sh) h (zlen pre + 1) (stride * dim_len) (af && cidx_is_none_slice rd0) ;;
        Ok (rd0 :: fst t, match rd0 with CInt _ => snd t | _ => ps0 :: snd t end))) = Ok (rd, ps) ->
      rp_rel sh (x :: c) rd ps).
    { intros n sh' -> Hn Hx Hv' Hr. rewrite py_nth_app in Hr. cbn [bind] in Hr.
      destruct (optimize_slicer x n af _ stride h) as [[rd0 ps0]|e] eqn:Eo; cbn [bind] in Hr; [|discriminate].
      replace (pre ++ n :: sh') with ((pre ++ [n]) ++ sh') in Hr by (rewrite <- app_assoc; reflexivity).
      replace (zlen pre + 1) with (zlen (pre ++ [n])) in Hr by (unfold zlen; rewrite app_length; cbn; lia).
      destruct (opt_read_loop c ((pre ++ [n]) ++ sh') h _ _ _) as [[rdt pst]|e] eqn:El; cbn [bind] in Hr; [|discriminate].
      apply IH in El; [|assumption]. cbn [fst snd] in Hr.
      pose proof (optimize_slicer_sound x n af _ stride h rd0 ps0 Hn Hx Eo) as Hs.
      destruct rd0 as [k|r|]; [| |cbn in Hs; contradiction]; injection Hr as <- <-.
      - apply optimize_slicer_int_inv in Eo; [|assumption]. subst x. cbn in Hx. now constructor.
      - constructor; try assumption. split.
        + intros k0 ->. eapply optimize_slicer_pint_inv; eauto.
        + intros q ->. eapply optimize_slicer_psl_inv; eauto. }
    destruct x as [k|s|]; cbn [ix_valid] in Hv.
    + destruct sh as [|n sh']; [contradiction|]. destruct Hv as (Hn & Hx & Hv').
      cbn [opt_read_loop] in Hrun. eapply Hreal; eauto.
    + destruct sh as [|n sh']; [contradiction|]. destruct Hv as (Hn & Hx & Hv').
      cbn [opt_read_loop] in Hrun. eapply Hreal; eauto.
    + cbn [opt_read_loop] in Hrun.
      destruct (opt_read_loop c (pre ++ sh) h (zlen pre) stride af) as [[rdt pst]|e] eqn:El; cbn [bind] in Hrun; [|discriminate].
      injection Hrun as <- <-. cbn [fst snd]. constructor. eapply IH; eauto.
Qed.

Lemma opt_read_loop_total : forall c pre sh h stride af, h_ok h -> ix_valid sh c ->
  exists rd ps, opt_read_loop c (pre ++ sh) h (zlen pre) stride af = Ok (rd, ps).
Proof.
  induction c as [|x c IH]; intros pre sh h stride af Hh Hv.
  - eexists; eexists; reflexivity.
  - assert (Hreal : forall n sh', sh = n :: sh' -> 0 <= n -> valid_cidx n x -> ix_valid sh' c ->
      exists rd ps,
      (dim_len <- py_nth (pre ++ sh) (zlen pre) ;;
       rp <- optimize_slicer x dim_len af (zlen pre + 1 =? zlen (pre ++ sh)) stride h ;;
       (let '(rd0, ps0) := rp in
        t <- opt_read_loop c (pre ++ sh) h (zlen pre + 1) (stride * dim_len) (af && cidx_is_none_slice rd0) ;;
        Ok (rd0 :: fst t, match rd0 with CInt _ => snd t | _ => ps0 :: snd t end))) = Ok (rd, ps)).
    { intros n sh' -> Hn Hx Hv'. rewrite py_nth_app. cbn [bind].
      destruct (optimize_slicer_total x n af (zlen pre + 1 =? zlen (pre ++ n :: sh')) stride h Hh Hn Hx) as (rd0 & ps0 & Eo).
      rewrite Eo. cbn [bind].
      replace (pre ++ n :: sh') with ((pre ++ [n]) ++ sh') by (rewrite <- app_assoc; reflexivity).
      replace (zlen pre + 1) with (zlen (pre ++ [n])) by (unfold zlen; rewrite app_length; cbn; lia).
      destruct (IH (pre ++ [n]) sh' h (stride * n) (af && cidx_is_none_slice rd0) Hh Hv') as (rdt & pst & El).
      rewrite El. cbn [bind]. eexists; eexists; reflexivity. }
    destruct x as [k|s|]; cbn [ix_valid] in Hv.
    + destruct sh as [|n sh']; [contradiction|]. destruct Hv as (Hn & Hx & Hv'). cbn [opt_read_loop]. eapply Hreal; eauto.
    + destruct sh as [|n sh']; [contradiction|]. destruct Hv as (Hn & Hx & Hv'). cbn [opt_read_loop]. eapply Hreal; eauto.
    + cbn [opt_read_loop]. destruct (IH pre sh h stride af Hh Hv) as (rdt & pst & El). rewrite El. cbn [bind].
      eexists; eexists; reflexivity.
Qed.

(* ====================================================================================
   Part 3c: predict_shape on the read slicers (re-canonicalised by the code) *)
Definition norm_sl (d : Z) (s : pslice) : pslice :=
  if negb (pslice_eqb s sl_none) && opt_eqb (s_stop s) (Some d) && opt_in0 (s_start s) 0 && opt_in0 (s_step s) 1
  then sl_none else s.

Lemma norm_sl_indices d s : 0 <= d -> py_indices d (norm_sl d s) = py_indices d s.
Proof.
  intros Hd. unfold norm_sl.
  destruct (negb (pslice_eqb s sl_none) && opt_eqb (s_stop s) (Some d) && opt_in0 (s_start s) 0 && opt_in0 (s_step s) 1) eqn:E;
    [|reflexivity].
  apply andb_true_iff in E. destruct E as [E E3]. apply andb_true_iff in E. destruct E as [E E2].
  apply andb_true_iff in E. destruct E as [_ E1].
  destruct s as [a b c]. cbn [s_start s_stop s_step] in *.
  destruct b as [b|]; cbn in E1; [|discriminate]. apply Z.eqb_eq in E1. subst b.
  unfold py_indices. f_equal. unfold adjust, step_of, sl_none, clampv. cbn [s_start s_stop s_step].
  destruct c as [c|]; cbn in E3; [apply Z.eqb_eq in E3; subst c|];
    (destruct a as [a|]; cbn in E2; [apply Z.eqb_eq in E2; subst a|]); cbn [Z.ltb Z.compare];
    replace (d <? 0) with false by lia; rewrite ?Z.min_id, ?Z.min_l by lia; reflexivity.
Qed.

Fixpoint normalize (sh : list Z) (rd : list cidx) : list cidx :=
  match rd with
  | [] => []
  | CNew :: r => CNew :: normalize sh r
  | CInt k :: r => CInt k :: normalize (tl sh) r
  | CSl s :: r => CSl (norm_sl (hd 0 sh) s) :: normalize (tl sh) r
  end.

Lemma existsb_is_ell_map rd : existsb is_ell (map cidx_to_idx rd) = false.
Proof. induction rd as [|c rd IH]; [reflexivity|]. destruct c; cbn; assumption. Qed.

Lemma canon_plain : forall rd pre sh acc, reads_valid sh rd ->
  canon true (pre ++ sh) (map cidx_to_idx rd) (zlen pre) acc
  = Ok (rev acc ++ normalize sh rd, zlen pre + zlen sh).
Proof.
  induction rd as [|c rd IH]; intros pre sh acc Hv.
  - cbn in Hv. subst sh. cbn. rewrite app_nil_r. f_equal. f_equal. unfold zlen; cbn; lia.
  - destruct c as [k|s|]; cbn [reads_valid] in Hv.
    + destruct sh as [|n sh]; [contradiction|]. destruct Hv as (Hn & Hk & Hv). cbn [read_valid] in Hk.
      cbn [map cidx_to_idx canon]. rewrite py_nth_app. cbn [bind].
      replace (k <? 0) with false by lia. replace (true && (n <=? k)) with false by lia.
      replace (pre ++ n :: sh) with ((pre ++ [n]) ++ sh) by (rewrite <- app_assoc; reflexivity).
      replace (zlen pre + 1) with (zlen (pre ++ [n])) by (unfold zlen; rewrite app_length; cbn; lia).
      rewrite IH by assumption. cbn [rev normalize tl]. rewrite <- app_assoc. cbn [app].
      f_equal. f_equal. unfold zlen. rewrite app_length. cbn [length]. lia.
    + destruct sh as [|n sh]; [contradiction|]. destruct Hv as (Hn & Hs & Hv).
      cbn [map cidx_to_idx canon]. rewrite py_nth_app. cbn [bind].
      replace (pre ++ n :: sh) with ((pre ++ [n]) ++ sh) by (rewrite <- app_assoc; reflexivity).
      replace (zlen pre + 1) with (zlen (pre ++ [n])) by (unfold zlen; rewrite app_length; cbn; lia).
      rewrite IH by assumption. cbn [rev normalize tl hd]. rewrite <- app_assoc. cbn [app].
      f_equal. f_equal. unfold zlen. rewrite app_length. cbn [length]. lia.
    + cbn [map cidx_to_idx canon]. rewrite IH by assumption. cbn [rev normalize]. rewrite <- app_assoc. reflexivity.
Qed.

Lemma predict_loop_normalize : forall rd pre sh, reads_valid sh rd ->
  predict_loop (normalize sh rd) (pre ++ sh) (zlen pre) = Ok (np_shape sh rd).
Proof.
  induction rd as [|c rd IH]; intros pre sh Hv.
  - reflexivity.
  - destruct c as [k|s|]; cbn [reads_valid] in Hv.
    + destruct sh as [|n sh]; [contradiction|]. destruct Hv as (Hn & Hk & Hv).
      cbn [normalize predict_loop np_shape tl].
      replace (pre ++ n :: sh) with ((pre ++ [n]) ++ sh) by (rewrite <- app_assoc; reflexivity).
      replace (zlen pre + 1) with (zlen (pre ++ [n])) by (unfold zlen; rewrite app_length; cbn; lia).
      now apply IH.
    + destruct sh as [|n sh]; [contradiction|]. destruct Hv as (Hn & Hs & Hv). cbn [read_valid] in Hs.
      cbn [normalize predict_loop np_shape tl hd]. rewrite py_nth_app. cbn [bind].
      assert (Hst : step_of (norm_sl n s) <> 0).
      { unfold norm_sl. destruct (_ && _ && _ && _); [cbn; lia|lia]. }
      rewrite slice2len_spec by assumption. cbn [bind]. rewrite norm_sl_indices by assumption.
      replace (pre ++ n :: sh) with ((pre ++ [n]) ++ sh) by (rewrite <- app_assoc; reflexivity).
      replace (zlen pre + 1) with (zlen (pre ++ [n])) by (unfold zlen; rewrite app_length; cbn; lia).
      rewrite IH by assumption. reflexivity.
    + cbn [normalize predict_loop np_shape]. rewrite IH by assumption. reflexivity.
Qed.

Lemma predict_shape_reads rd shape : reads_valid shape rd ->
  predict_shape (map cidx_to_idx rd) shape = Ok (np_shape shape rd).
Proof.
  intros Hv. unfold predict_shape, canonical_slicers.
  assert (Hc : canon true shape (map cidx_to_idx rd) 0 [] = Ok (normalize shape rd, zlen shape))
    by exact (canon_plain rd [] shape [] Hv).
  rewrite Hc. cbn [bind]. replace (zlen shape - zlen shape) with 0 by lia. cbn [Z.to_nat repeat].
  rewrite app_nil_r. apply (predict_loop_normalize rd [] shape Hv).
Qed.


(* shape of the post-sliced block = shape of the directly indexed array *)
Lemma np_shape_compose shape c rd ps : rp_rel shape c rd ps ->
  np_shape (np_shape shape rd) (map post_to_cidx ps) = np_shape shape c.
Proof.
  induction 1 as [|? ? ? ? ? IH|? ? ? ? ? ? Hn Hk ? IH|n ? x r p ? ? ? Hn Hx Hrp Hpi ? IH].
  - reflexivity.
  - cbn [np_shape map post_to_cidx tl hd]. rewrite IH. f_equal.
  - cbn [np_shape tl]. exact IH.
  - destruct Hrp as (_ & Hsel & Hnd & Hpv). destruct Hpi as [Hpi1 Hpi2].
    destruct p as [|k|q]; [contradiction| |]; cbn [map post_to_cidx np_shape tl hd axis_sel] in *.
    + rewrite (Hpi1 k eq_refl). cbn [np_shape tl]. exact IH.
    + destruct (Hpi2 q eq_refl) as [s ->]. cbn [np_shape tl hd axis_sel] in *. rewrite IH. f_equal.
      rewrite <- Hsel. unfold sel_nth, zlen. now rewrite map_length.
Qed.

(* ====================================================================================
   Part 3e: the segments stay inside the array's extent and read_segments returns the bytes
   at the positions covered, in order *)
Definition seg_ok (lo : Z) (s : seg) : Prop := lo <= fst s /\ 0 <= snd s.

Lemma s2s_seg_ok : forall rd pre sh stride af S S' lo,
  reads_valid sh rd -> 0 <= stride -> Forall (seg_ok lo) S ->
  s2s_loop rd (pre ++ sh) (zlen pre) stride af S = Ok S' -> Forall (seg_ok lo) S'.
Proof.
  induction rd as [|c rd IH]; intros pre sh stride af S S' lo Hv Hstr HS Hrun.
  - cbn in Hrun. now injection Hrun as <-.
  - destruct c as [k|s|].
    + destruct sh as [|n sh]; [cbn in Hv; contradiction|]. cbn [reads_valid] in Hv. destruct Hv as (Hn & Hk & Hv).
      cbn [read_valid] in Hk. cbn [s2s_loop] in Hrun. rewrite py_nth_app in Hrun. cbn [bind] in Hrun.
      replace (pre ++ n :: sh) with ((pre ++ [n]) ++ sh) in Hrun by (rewrite <- app_assoc; reflexivity).
      replace (zlen pre + 1) with (zlen (pre ++ [n])) in Hrun by (unfold zlen; rewrite app_length; cbn; lia).
      eapply IH in Hrun; eauto; [nia|].
      apply Forall_map. eapply Forall_impl; [|exact HS]. intros [o l] [H1 H2]. unfold seg_ok in *. cbn [fst snd] in *. nia.
    + destruct sh as [|n sh]; [cbn in Hv; contradiction|]. cbn [reads_valid] in Hv. destruct Hv as (Hn & Hs & Hv).
      cbn [read_valid] in Hs. cbn [s2s_loop] in Hrun. rewrite py_nth_app in Hrun. cbn [bind] in Hrun.
      destruct (fill_slicer_ok s n ltac:(lia)) as [f Hf]. rewrite Hf in Hrun. cbn [bind] in Hrun.
      destruct (fill_positive s n f Hn Hs Hf) as (b & Hb & Hfr & Hfst & Hlen).
      pose proof (fill_slicer_wf s n f Hn Hf) as Hwf.
      assert (Ha : 0 <= f_start f) by (destruct Hwf as [(_ & Ha & _)|(Hneg & _)]; lia).
      assert (Hstep : exists S1,
         (if af && (f_step f =? 1)
          then match S with (o, l) :: rest => Ok ((o + stride * f_start f, l * full_slicer_len f) :: rest) | [] => Ok [] end
          else idxs0 <- frange f;; Ok (flat_map (fun i => map (fun s0 : seg => (fst s0 + stride * i, snd s0)) S) idxs0)) = Ok S1
         /\ Forall (seg_ok lo) S1).
      { destruct (af && (f_step f =? 1)).
        - destruct S as [|[o l] rest]; eexists; (split; [reflexivity|]); [constructor|].
          inversion HS as [|? ? [H1 H2] Hrest]; subst. constructor; [|assumption].
          unfold seg_ok in *. cbn [fst snd] in *. rewrite Hlen. unfold zlen. nia.
        - rewrite Hfr. cbn [bind]. eexists. split; [reflexivity|].
          apply Forall_flat_map. apply Forall_forall. intros i Hi.
          apply (py_indices_in_range n s i Hn ltac:(lia)) in Hi.
          apply Forall_map. eapply Forall_impl; [|exact HS]. intros [o l] [H1 H2]. unfold seg_ok in *. cbn [fst snd] in *. nia. }
      destruct Hstep as (S1 & HS1 & HF1). rewrite HS1 in Hrun. cbn [bind] in Hrun.
      replace (pre ++ n :: sh) with ((pre ++ [n]) ++ sh) in Hrun by (rewrite <- app_assoc; reflexivity).
      replace (zlen pre + 1) with (zlen (pre ++ [n])) in Hrun by (unfold zlen; rewrite app_length; cbn; lia).
      eapply IH in Hrun; eauto. nia.
    + cbn [reads_valid] in Hv. cbn [s2s_loop] in Hrun. eapply IH; eauto.
Qed.

Lemma in_positions p segs : In p (positions segs) <-> exists s, In s segs /\ fst s <= p < fst s + snd s.
Proof.
  unfold positions. rewrite in_flat_map. split; intros (s & Hs & Hp); exists s; (split; [assumption|]).
  - unfold pos1 in Hp. apply in_map_iff in Hp. destruct Hp as (k & <- & Hk). apply zseq_In in Hk. lia.
  - unfold pos1. apply in_map_iff. exists (p - fst s). split; [lia|]. apply zseq_In. lia.
Qed.

(* no read leaves the extent [off, off + w * size) of the array *)
Theorem reads_in_extent rd shape off w segs :
  reads_valid shape rd -> 0 < w ->
  slicers2segments rd shape off w = Ok segs ->
  Forall (fun s => 0 <= snd s /\ off <= fst s /\ (0 < snd s -> fst s + snd s <= off + w * prod shape)) segs.
Proof.
  intros Hv Hw Hrun. pose proof (segments_are_F_order rd shape off w segs Hv ltac:(lia) Hrun) as Hpos.
  assert (Hok : Forall (seg_ok off) segs).
  { unfold slicers2segments in Hrun.
    apply (s2s_seg_ok rd [] shape w true [(off, w)] segs off Hv ltac:(lia)) in Hrun; [assumption|].
    constructor; [|constructor]. unfold seg_ok. cbn. lia. }
  apply Forall_forall. intros [o l] Hin. pose proof (proj1 (Forall_forall _ _) Hok _ Hin) as [H1 H2].
  cbn [fst snd] in *. split; [assumption|]. split; [assumption|]. intros Hl.
  assert (Hlast : In (o + l - 1) (positions segs)).
  { apply in_positions. exists (o, l). split; [assumption|]. cbn [fst snd]. lia. }
  rewrite Hpos in Hlast. apply in_flat_map in Hlast. destruct Hlast as (d & Hd & Hp).
  unfold pos1 in Hp. cbn [fst snd] in Hp. apply in_map_iff in Hp. destruct Hp as (k & Hk & Hkr). apply zseq_In in Hkr.
  replace w with (w * 1) in Hd by lia. rewrite offs_scale in Hd. apply in_map_iff in Hd. destruct Hd as (e & <- & He).
  apply (offs_range rd shape e (reads_valid_ix_valid rd shape Hv)) in He. nia.
Qed.

Definition bytes_at (file : list Z) (P : list Z) : list Z := map (fun p => nth (Z.to_nat p) file 0) P.

Lemma bytes_at_app file P Q : bytes_at file (P ++ Q) = bytes_at file P ++ bytes_at file Q.
Proof. unfold bytes_at. apply map_app. Qed.

Lemma my_nth_firstn {A} : forall (l : list A) n k d, (k < n)%nat -> nth k (firstn n l) d = nth k l d.
Proof.
  induction l as [|x l IH]; intros n k d H; [destruct n, k; reflexivity|].
  destruct n; [lia|]. destruct k; [reflexivity|]. cbn. apply IH. lia.
Qed.

Lemma my_nth_skipn {A} : forall (l : list A) n k d, nth k (skipn n l) d = nth (n + k) l d.
Proof.
  induction l as [|x l IH]; intros n k d; [destruct n, k; reflexivity|].
  destruct n; [reflexivity|]. cbn. apply IH.
Qed.

Lemma take_drop_bytes_at file o l : 0 <= o -> 0 <= l -> (l = 0 \/ o + l <= zlen file) ->
  take l (drop o file) = bytes_at file (pos1 (o, l)).
Proof.
  intros Ho Hl Hfit. unfold take, drop, bytes_at, pos1. cbn [fst snd].
  destruct Hfit as [->|Hfit]; [reflexivity|].
  apply nth_ext with (d := 0) (d' := 0).
  - rewrite firstn_length, skipn_length, map_length, map_length.
    pose proof (zseq_length l Hl). unfold zlen in Hfit. lia.
  - intros k Hk. rewrite firstn_length, skipn_length in Hk. unfold zlen in Hfit.
    rewrite my_nth_firstn by lia. rewrite my_nth_skipn.
    rewrite map_map. rewrite (nth_map_in _ (zseq l) k 0 0) by (pose proof (zseq_length l Hl); lia).
    replace k with (Z.to_nat (Z.of_nat k)) at 2 by lia. rewrite nth_zseq by lia.
    f_equal. lia.
Qed.

Definition seg_fits (file : list Z) (s : seg) : Prop :=
  0 <= fst s /\ 0 <= snd s /\ (snd s = 0 \/ fst s + snd s <= zlen file).

Lemma fread_at_ok file o l : seg_fits file (o, l) -> fread_at file o l = Ok (bytes_at file (pos1 (o, l))).
Proof.
  intros (Ho & Hl & Hfit). cbn [fst snd] in *. unfold fread_at.
  replace (o <? 0) with false by lia. replace (l <? 0) with false by lia.
  f_equal. unfold Model.take, Model.drop. now apply take_drop_bytes_at.
Qed.

Lemma read_all_ok file segs : Forall (seg_fits file) segs ->
  read_all file segs = Ok (bytes_at file (positions segs)).
Proof.
  induction 1 as [|[o l] segs Hs HF IH]; [reflexivity|].
  cbn [read_all]. rewrite (fread_at_ok file o l Hs). cbn [bind]. rewrite IH. cbn [bind].
  unfold positions. cbn [flat_map]. now rewrite bytes_at_app.
Qed.

Lemma zlen_positions segs : Forall (fun s => 0 <= snd s) segs ->
  zlen (positions segs) = fold_right (fun s a => snd s + a) 0 segs.
Proof.
  induction 1 as [|[o l] segs Hl HF IH]; [reflexivity|].
  unfold positions in *. cbn [flat_map fold_right snd]. unfold zlen in *. rewrite app_length, Nat2Z.inj_add, IH.
  unfold pos1. cbn [fst snd]. rewrite map_length. pose proof (zseq_length l Hl). lia.
Qed.

Lemma zlen_bytes_at file P : zlen (bytes_at file P) = zlen P.
Proof. unfold bytes_at. apply zlen_map. Qed.

Lemma sum_zero_all_zero (segs : list seg) : Forall (fun s : seg => 0 <= snd s) segs ->
  fold_right (fun s a => snd s + a) 0 segs = 0 -> Forall (fun s : seg => snd s = 0) segs.
Proof.
  induction 1 as [|s segs Hs HF IH]; intros E0; [constructor|]. cbn [fold_right] in E0.
  assert (0 <= fold_right (fun s a => snd s + a) 0 segs).
  { clear -HF. induction HF as [|x l Hx HF IH]; cbn [fold_right]; lia. }
  constructor; [lia|apply IH; lia].
Qed.

Lemma positions_all_zero (segs : list seg) : Forall (fun s : seg => snd s = 0) segs -> positions segs = [].
Proof.
  induction 1 as [|[o l] segs Hs HF IH]; [reflexivity|].
  unfold positions in *. cbn [flat_map]. rewrite IH. cbn in Hs. subst l. reflexivity.
Qed.

Lemma read_multi file (segs : list seg) n_bytes : Forall (seg_fits file) segs ->
  zlen (positions segs) = n_bytes ->
  (if n_bytes =? 0
   then (if forallb (fun s : seg => snd s =? 0) segs then Ok [] else Err EValue)
   else b <- read_all file segs ;; if zlen b =? n_bytes then Ok b else Err EValue)
  = Ok (bytes_at file (positions segs)).
Proof.
  intros HF Hn.
  destruct (n_bytes =? 0) eqn:E0.
    + apply Z.eqb_eq in E0. subst n_bytes.
      assert (Hnn : Forall (fun s : seg => 0 <= snd s) segs)
        by (eapply Forall_impl; [|exact HF]; intros s (_ & H & _); exact H).
      rewrite zlen_positions in E0 by assumption.
      pose proof (sum_zero_all_zero segs Hnn E0) as Hz.
      replace (forallb (fun s : seg => snd s =? 0) segs) with true.
      * f_equal. now rewrite (positions_all_zero segs Hz).
      * symmetry. apply forallb_forall. intros s Hs. apply Z.eqb_eq.
        now apply (proj1 (Forall_forall _ _) Hz).
    + rewrite read_all_ok by assumption. cbn [bind]. rewrite zlen_bytes_at, Hn. now rewrite Z.eqb_refl.
Qed.

Lemma read_segments_ok file segs n_bytes : Forall (seg_fits file) segs ->
  zlen (positions segs) = n_bytes ->
  read_segments file segs n_bytes = Ok (bytes_at file (positions segs)).
Proof.
  intros HF Hn. unfold read_segments.
  destruct segs as [|[o l] [|s2 rest]].
  - cbn in Hn. subst. reflexivity.
  - pose proof (Forall_inv HF) as Hs. rewrite (fread_at_ok file o l Hs). cbn [bind].
    unfold positions in *. cbn [flat_map] in *. rewrite app_nil_r in *.
    rewrite zlen_bytes_at, Hn. now rewrite Z.eqb_refl.
  - now apply read_multi.
Qed.

(* w-byte elements of a concatenation of w-byte blocks *)
Lemma chunks_flat_map {A} (g : A -> list Z) w : 0 < w -> (forall d, zlen (g d) = w) ->
  forall E fuel, (length E <= fuel)%nat -> chunks fuel w (flat_map g E) = map g E.
Proof.
  intros Hw Hg. induction E as [|d E IH]; intros fuel Hf.
  - destruct fuel; reflexivity.
  - destruct fuel as [|fuel]; [cbn in Hf; lia|]. cbn [flat_map chunks map].
    pose proof (Hg d) as Hd. destruct (g d ++ flat_map g E) as [|x xs] eqn:Ex.
    + destruct (g d); [unfold zlen in Hd; cbn in Hd; lia|discriminate].
    + rewrite <- Ex. unfold Model.take, Model.drop.
      assert (E1 : Z.to_nat w = length (g d)) by (unfold zlen in Hd; lia). rewrite E1.
      rewrite firstn_app, Nat.sub_diag, firstn_all. cbn [firstn]. rewrite app_nil_r.
      rewrite skipn_app, Nat.sub_diag, skipn_all. cbn [skipn app]. f_equal. apply IH. cbn in Hf. lia.
Qed.

Lemma concat_map_flat_map {A} (g : A -> list Z) l : concat (map g l) = flat_map g l.
Proof. induction l as [|x l IH]; [reflexivity|]. cbn. now rewrite IH. Qed.

(* ====================================================================================
   Part 3f: assembling the final theorem (Fortran order first) *)
Definition elem_bytes (file : list Z) (off w d : Z) : list Z := bytes_at file (pos1 (off + d, w)).

Lemma zlen_elem_bytes file off w d : 0 <= w -> zlen (elem_bytes file off w d) = w.
Proof.
  intros Hw. unfold elem_bytes. rewrite zlen_bytes_at. unfold pos1, zlen. cbn [fst snd].
  rewrite map_length. now apply zseq_length.
Qed.

Lemma bytes_at_flat_map file (F : Z -> list Z) E :
  bytes_at file (flat_map F E) = flat_map (fun d => bytes_at file (F d)) E.
Proof. unfold bytes_at. apply map_flat_map. Qed.

Lemma concat_sel_elems (g : Z -> list Z) E J : (forall j, In j J -> 0 <= j < zlen E) ->
  concat (map (fun o => nth (Z.to_nat o) (map g E) []) J) = flat_map g (sel_nth E J).
Proof.
  intros HJ. rewrite concat_map_flat_map. unfold sel_nth. rewrite flat_map_map.
  apply flat_map_ext_in'. intros j Hj. specialize (HJ j Hj). unfold zlen in HJ.
  apply nth_map_in. lia.
Qed.

Lemma all_none_identity : forall ps rshape,
  forallb post_is_none_slice ps = true -> ix_valid rshape (map post_to_cidx ps) ->
  offs rshape (map post_to_cidx ps) 1 = zseq (prod rshape) /\ np_shape rshape (map post_to_cidx ps) = rshape.
Proof.
  induction ps as [|p ps IH]; intros rshape Hall Hv.
  - cbn in Hv. subst. split; reflexivity.
  - cbn [forallb] in Hall. apply andb_true_iff in Hall. destruct Hall as [Hp Hall].
    destruct p as [|k|q]; try discriminate. cbn [post_is_none_slice] in Hp. apply pslice_eqb_none in Hp. subst q.
    cbn [map post_to_cidx ix_valid] in Hv. destruct rshape as [|n rs]; [contradiction|]. destruct Hv as (Hn & _ & Hv).
    destruct (IH rs Hall Hv) as [IH1 IH2].
    cbn [map post_to_cidx offs np_shape axis_sel tl hd]. rewrite IH2. rewrite (py_indices_none n Hn). split.
    + replace (1 * n) with (n * 1) by lia. rewrite offs_scale, IH1. rewrite flat_map_map.
      cbn [prod fold_right]. fold (prod rs).
      assert (Hp : 0 <= prod rs) by (apply prod_nonneg; now apply (ix_valid_shape_nonneg _ _ Hv)).
      pose proof (block_split 0 n (prod rs) Hn Hp) as B.
      rewrite <- (map_id (zseq (n * prod rs))). rewrite (map_ext _ (fun k => 0 + k)) by (intros; lia).
      rewrite B. apply flat_map_ext. intros j. apply map_ext. intros; lia.
    + f_equal. unfold zlen. now apply zseq_length.
Qed.

Lemma sel_nth_self E : sel_nth E (zseq (zlen E)) = E.
Proof.
  unfold sel_nth. apply nth_ext with (d := 0) (d' := 0).
  - rewrite map_length. unfold zseq. rewrite map_length, seq_length. unfold zlen. lia.
  - intros k Hk. rewrite map_length in Hk. unfold zseq in Hk. rewrite map_length, seq_length in Hk. unfold zlen in Hk.
    rewrite (nth_map_in _ (zseq (zlen E)) k 0 0) by (unfold zseq, zlen; rewrite map_length, seq_length; lia).
    replace k with (Z.to_nat (Z.of_nat k)) at 1 by lia. rewrite nth_zseq by (unfold zlen; lia).
    now rewrite Nat2Z.id.
Qed.

(* specification side: the elements of the stored array *)
Lemma array_elems_spec file shape w off : 0 < w -> 0 <= off -> Forall (fun n => 0 <= n) shape ->
  off + w * prod shape <= zlen file ->
  array_elems file shape w off = map (fun i => elem_bytes file off w (w * i)) (zseq (prod shape)).
Proof.
  intros Hw Hoff Hsh Hfit. pose proof (prod_nonneg shape Hsh) as HP. unfold array_elems.
  rewrite take_drop_bytes_at by nia.
  replace (prod shape * w) with (w * prod shape) by lia.
  replace (pos1 (off, w * prod shape))
    with (flat_map (fun j => map (fun k => off + w * j + k) (zseq w)) (zseq (prod shape)))
    by (symmetry; unfold pos1; cbn [fst snd]; apply block_split; lia).
  rewrite bytes_at_flat_map. cbv beta.
  assert (Hblk : forall d, zlen (bytes_at file (map (fun k => off + w * d + k) (zseq w))) = w).
  { intros d. rewrite zlen_bytes_at. unfold zlen. rewrite map_length. apply zseq_length. lia. }
  rewrite (chunks_flat_map (fun j => bytes_at file (map (fun k => off + w * j + k) (zseq w))) w Hw Hblk).
  - apply map_ext. intros i. unfold elem_bytes, pos1. cbn [fst snd]. reflexivity.
  - pose proof (zlen_flat_map_const (fun j => bytes_at file (map (fun k => off + w * j + k) (zseq w))) w (zseq (prod shape)) Hblk) as HL.
    unfold zlen in HL. nia.
Qed.

Definition result_spec (file : list Z) (shape : list Z) (w off : Z) (c : list cidx) : list Z * list Z :=
  (np_shape shape c, flat_map (elem_bytes file off w) (offs shape c w)).

Lemma numpy_side_F file shape w off c : 0 < w -> 0 <= off -> ix_valid shape c ->
  off + w * prod shape <= zlen file ->
  (let '(s, e) := np_index_F [] shape c (array_elems file shape w off) in (s, concat e))
  = result_spec file shape w off c.
Proof.
  intros Hw Hoff Hv Hfit. unfold np_index_F, result_spec. f_equal.
  rewrite array_elems_spec by (try assumption; now apply (ix_valid_shape_nonneg c)).
  rewrite (concat_sel_elems (fun i => elem_bytes file off w (w * i))).
  - replace (offs shape c w) with (map (fun x => w * x) (offs shape c 1))
      by (rewrite <- offs_scale; f_equal; lia).
    unfold sel_nth. rewrite flat_map_map, flat_map_map. apply flat_map_ext_in'. intros o Ho.
    apply (offs_range c shape o Hv) in Ho.
    f_equal. rewrite nth_zseq by lia. reflexivity.
  - intros j Hj. apply (offs_range c shape j Hv) in Hj. unfold zlen.
    rewrite zseq_length; [lia|]. apply prod_nonneg. now apply (ix_valid_shape_nonneg c).
Qed.

Lemma impl_core_F file shape w off c rd ps segs : 0 < w -> 0 <= off ->
  rp_rel shape c rd ps -> off + w * prod shape <= zlen file ->
  slicers2segments rd shape off w = Ok segs ->
  let rshape := np_shape shape rd in
  let posts := map post_to_cidx ps in
  exists b, read_segments file segs (prod rshape * w) = Ok b
    /\ (let '(s, e) := np_index_F [] rshape posts (chunks (length b) w b) in (s, concat e))
       = result_spec file shape w off c
    /\ (forallb post_is_none_slice ps = true -> (rshape, b) = result_spec file shape w off c).
Proof.
  intros Hw Hoff Hrel Hfit Hsegs rshape posts.
  pose proof (rp_rel_reads_valid _ _ _ _ Hrel) as Hrv.
  pose proof (rp_rel_post_valid _ _ _ _ Hrel) as Hpv.
  pose proof (segments_are_F_order rd shape off w segs Hrv ltac:(lia) Hsegs) as Hpos.
  pose proof (reads_in_extent rd shape off w segs Hrv Hw Hsegs) as Hext.
  set (E := offs shape rd w) in *.
  assert (HE : zlen E = prod rshape) by (apply offs_length; now apply reads_valid_ix_valid).
  assert (Hfits : Forall (seg_fits file) segs).
  { eapply Forall_impl; [|exact Hext]. intros [o l] (H1 & H2 & H3). cbn [fst snd] in *.
    unfold seg_fits. cbn [fst snd]. split; [lia|]. split; [lia|].
    destruct (Z.eq_dec l 0); [left; assumption|right]. specialize (H3 ltac:(lia)). lia. }
  assert (Hb : bytes_at file (positions segs) = flat_map (elem_bytes file off w) E).
  { rewrite Hpos. apply bytes_at_flat_map. }
  assert (Hn : zlen (positions segs) = prod rshape * w).
  { rewrite <- zlen_bytes_at with (file := file). rewrite Hb.
    rewrite (zlen_flat_map_const _ w) by (intros; apply zlen_elem_bytes; lia). lia. }
  exists (bytes_at file (positions segs)). split; [now apply read_segments_ok|].
  rewrite Hb.
  assert (Hch : chunks (length (flat_map (elem_bytes file off w) E)) w (flat_map (elem_bytes file off w) E)
                = map (elem_bytes file off w) E).
  { apply chunks_flat_map; [assumption|intros; apply zlen_elem_bytes; lia|].
    pose proof (zlen_flat_map_const (elem_bytes file off w) w E ltac:(intros; apply zlen_elem_bytes; lia)) as HL.
    unfold zlen in HL. nia. }
  rewrite Hch.
  assert (Hcomp := compose_offs shape c rd ps Hrel w). fold E rshape posts in Hcomp.
  split.
  - unfold np_index_F, result_spec. f_equal.
    + now apply np_shape_compose.
    + rewrite concat_sel_elems; [now rewrite Hcomp|].
      intros j Hj. rewrite HE. now apply (offs_range posts rshape j Hpv).
  - intros Hall. destruct (all_none_identity ps rshape Hall Hpv) as [Ho Hs].
    unfold result_spec. f_equal.
    + rewrite <- (np_shape_compose shape c rd ps Hrel). symmetry. exact Hs.
    + rewrite <- Hcomp. unfold posts. rewrite Ho, <- HE. now rewrite sel_nth_self.
Qed.

Theorem fileslice_eq_numpy_F h file ix shape w off c : h_ok h -> 0 < w -> 0 <= off ->
  canonical_slicers true ix shape = Ok c -> ix_valid shape c ->
  off + w * prod shape <= zlen file ->
  fileslice_h h file ix shape w off OrdF = Ok (result_spec file shape w off c)
  /\ numpy_slice file ix shape w off OrdF = Ok (result_spec file shape w off c).
Proof.
  intros Hh Hw Hoff Hc Hv Hfit. split.
  - unfold fileslice_h, calc_slicedefs. rewrite Hc. cbn [bind].
    unfold optimize_read_slicers.
    destruct (opt_read_loop_total c [] shape h w true Hh Hv) as (rd & ps & Ho).
    change (opt_read_loop c shape h 0 w true) with (opt_read_loop c ([] ++ shape) h (zlen (@nil Z)) w true).
    rewrite Ho. cbn [bind].
    pose proof (opt_read_loop_sound c [] shape h w true rd ps Hv Ho) as Hrel.
    pose proof (rp_rel_reads_valid _ _ _ _ Hrel) as Hrv.
    destruct (slicers2segments_total rd shape off w Hrv) as (segs & Hs). rewrite Hs. cbn [bind].
    rewrite (predict_shape_reads rd shape Hrv). cbn [bind].
    destruct (impl_core_F file shape w off c rd ps segs Hw Hoff Hrel Hfit Hs) as (b & Hb & Hres & Hnone).
    rewrite Hb. cbn [bind].
    destruct (forallb post_is_none_slice ps) eqn:Eall.
    + f_equal. now apply Hnone.
    + destruct ps as [|p ps']; [discriminate|]. cbn [np_index]. cbv zeta in Hres. cbn [map] in Hres |- *.
      destruct (np_index_F [] (np_shape shape rd) (post_to_cidx p :: map post_to_cidx ps') (chunks (length b) w b)) as [s e] eqn:En.
      now f_equal.
  - unfold numpy_slice. rewrite Hc. cbn [bind np_index].
    pose proof (numpy_side_F file shape w off c Hw Hoff Hv Hfit) as Hn.
    destruct (np_index_F [] shape c (array_elems file shape w off)) as [s e]. now f_equal.
Qed.

(* ====================================================================================
   C order: the code reverses shape and index, works in F order, and reverses back *)
Definition is_cnew (c : cidx) : bool := match c with CNew => true | _ => false end.
Definition reals (c : list cidx) : list cidx := filter (fun x => negb (is_cnew x)) c.
Definition axis_ok (n : Z) (x : cidx) : Prop := 0 <= n /\ valid_cidx n x.

Lemma ix_valid_Forall2 : forall c shape, ix_valid shape c <-> Forall2 axis_ok shape (reals c).
Proof.
  induction c as [|x c IH]; intros shape.
  - cbn. split; [intros ->; constructor|intros H; now inversion H].
  - destruct x as [k|s|]; cbn [ix_valid reals filter is_cnew negb].
    + destruct shape as [|n sh]; [split; [contradiction|intros H; inversion H]|].
      fold (reals c). split.
      * intros (Hn & Hx & Hv). constructor; [split; assumption|now apply IH].
      * intros H. inversion H as [|? ? ? ? [Hn Hx] Hr]; subst. split; [assumption|]. split; [assumption|now apply IH].
    + destruct shape as [|n sh]; [split; [contradiction|intros H; inversion H]|].
      fold (reals c). split.
      * intros (Hn & Hx & Hv). constructor; [split; assumption|now apply IH].
      * intros H. inversion H as [|? ? ? ? [Hn Hx] Hr]; subst. split; [assumption|]. split; [assumption|now apply IH].
    + fold (reals c). apply IH.
Qed.

Lemma Forall2_rev' {A B} (R : A -> B -> Prop) l l' : Forall2 R l l' -> Forall2 R (rev l) (rev l').
Proof.
  induction 1 as [|x y l l' Hxy HF IH]; [constructor|]. cbn [rev].
  apply Forall2_app; [assumption|]. constructor; [assumption|constructor].
Qed.

Lemma reals_rev c : reals (rev c) = rev (reals c).
Proof.
  unfold reals. induction c as [|x c IH]; [reflexivity|]. cbn [rev filter].
  rewrite filter_app, IH. cbn [filter]. destruct (negb (is_cnew x)); cbn [rev]; [reflexivity|now rewrite app_nil_r].
Qed.

Lemma ix_valid_rev shape c : ix_valid shape c -> ix_valid (rev shape) (rev c).
Proof. rewrite !ix_valid_Forall2, reals_rev. apply Forall2_rev'. Qed.

Lemma prod_app a b : prod (a ++ b) = prod a * prod b.
Proof.
  induction a as [|x a IH].
  - cbn [app]. unfold prod at 2. cbn [fold_right]. lia.
  - cbn [app]. unfold prod in *. cbn [fold_right]. rewrite IH. lia.
Qed.

Lemma prod_rev l : prod (rev l) = prod l.
Proof.
  induction l as [|x l IH]; [reflexivity|]. cbn [rev]. rewrite prod_app, IH.
  cbn [prod fold_right]. fold (prod l). lia.
Qed.

Lemma forallb_rev {A} (f : A -> bool) l : forallb f (rev l) = forallb f l.
Proof.
  induction l as [|x l IH]; [reflexivity|]. cbn [rev forallb]. rewrite forallb_app, IH. cbn [forallb].
  destruct (f x), (forallb f l); reflexivity.
Qed.

Definition result_spec_C (file : list Z) (shape : list Z) (w off : Z) (c : list cidx) : list Z * list Z :=
  let '(s, e) := result_spec file (rev shape) w off (rev c) in (rev s, e).

Theorem fileslice_eq_numpy_C h file ix shape w off c : h_ok h -> 0 < w -> 0 <= off ->
  canonical_slicers true ix shape = Ok c -> ix_valid shape c ->
  off + w * prod shape <= zlen file ->
  fileslice_h h file ix shape w off OrdC = Ok (result_spec_C file shape w off c)
  /\ numpy_slice file ix shape w off OrdC = Ok (result_spec_C file shape w off c).
Proof.
  intros Hh Hw Hoff Hc Hv Hfit.
  pose proof (ix_valid_rev shape c Hv) as Hvr.
  assert (Hfitr : off + w * prod (rev shape) <= zlen file) by now rewrite prod_rev.
  split.
  - unfold fileslice_h, calc_slicedefs. rewrite Hc. cbn [bind].
    unfold optimize_read_slicers.
    destruct (opt_read_loop_total (rev c) [] (rev shape) h w true Hh Hvr) as (rd & ps & Ho).
    change (opt_read_loop (rev c) (rev shape) h 0 w true)
      with (opt_read_loop (rev c) ([] ++ rev shape) h (zlen (@nil Z)) w true).
    rewrite Ho. cbn [bind].
    pose proof (opt_read_loop_sound (rev c) [] (rev shape) h w true rd ps Hvr Ho) as Hrel.
    pose proof (rp_rel_reads_valid _ _ _ _ Hrel) as Hrv.
    destruct (slicers2segments_total rd (rev shape) off w Hrv) as (segs & Hs). rewrite Hs. cbn [bind].
    rewrite (predict_shape_reads rd (rev shape) Hrv). cbn [bind].
    destruct (impl_core_F file (rev shape) w off (rev c) rd ps segs Hw Hoff Hrel Hfitr Hs) as (b & Hb & Hres & Hnone).
    rewrite prod_rev. rewrite Hb. cbn [bind]. unfold result_spec_C.
    destruct (forallb post_is_none_slice ps) eqn:Eall.
    + cbn [rev]. specialize (Hnone eq_refl). rewrite <- Hnone. reflexivity.
    + destruct (rev ps) as [|p ps'] eqn:Er.
      * apply (f_equal (@rev post)) in Er. rewrite rev_involutive in Er. subst ps. discriminate.
      * rewrite <- Er. cbn [np_index]. rewrite rev_involutive, <- map_rev, rev_involutive.
        cbv zeta in Hres.
        destruct (np_index_F [] (np_shape (rev shape) rd) (map post_to_cidx ps) (chunks (length b) w b)) as [s e] eqn:En.
        rewrite <- Hres. reflexivity.
  - unfold numpy_slice. rewrite Hc. cbn [bind np_index]. unfold result_spec_C.
    pose proof (numpy_side_F file (rev shape) w off (rev c) Hw Hoff Hvr Hfitr) as Hn.
    assert (Ha : array_elems file shape w off = array_elems file (rev shape) w off)
      by (unfold array_elems; now rewrite prod_rev).
    rewrite Ha.
    destruct (np_index_F [] (rev shape) (rev c) (array_elems file (rev shape) w off)) as [s e].
    rewrite <- Hn. reflexivity.
Qed.

(* ====================================================================================
   Statements used by Props.v *)
Lemma threshold_h_ok t : h_ok (threshold_heuristic t).
Proof. intros k n s. unfold threshold_heuristic. destruct (_ <=? _); discriminate. Qed.

Definition result_of (o : order) := match o with OrdF => result_spec | OrdC => result_spec_C end.

Theorem fileslice_eq_numpy h file ix shape w off o c : h_ok h -> 0 < w -> 0 <= off ->
  canonical_slicers true ix shape = Ok c -> ix_valid shape c ->
  off + w * prod shape <= zlen file ->
  fileslice_h h file ix shape w off o = numpy_slice file ix shape w off o
  /\ numpy_slice file ix shape w off o = Ok (result_of o file shape w off c).
Proof.
  intros Hh Hw Hoff Hc Hv Hfit. destruct o.
  - destruct (fileslice_eq_numpy_C h file ix shape w off c Hh Hw Hoff Hc Hv Hfit) as [H1 H2].
    split; [now rewrite H1, H2|exact H2].
  - destruct (fileslice_eq_numpy_F h file ix shape w off c Hh Hw Hoff Hc Hv Hfit) as [H1 H2].
    split; [now rewrite H1, H2|exact H2].
Qed.

(* decidable version of ix_valid, evaluated by the harness on every successful case *)
Lemma ix_validb_spec : forall ix shape, ix_validb shape ix = true -> ix_valid shape ix.
Proof.
  induction ix as [|c ix IH]; intros shape H.
  - destruct shape; [reflexivity|discriminate].
  - destruct c as [k|s|]; cbn [ix_validb ix_valid] in *; [| |now apply IH];
      (destruct shape as [|n sh]; [discriminate|]);
      apply andb_true_iff in H; destruct H as [H H3]; apply andb_true_iff in H; destruct H as [H1 H2];
      (split; [lia|]); (split; [cbn [valid_cidxb valid_cidx] in *; lia|now apply IH]).
Qed.

(* every read of calc_slicedefs lies inside the array's extent, and the lengths add up *)
Theorem calc_slicedefs_extent h ix shape w off o c segs rshape ps : h_ok h -> 0 < w -> 0 <= off ->
  canonical_slicers true ix shape = Ok c -> ix_valid shape c ->
  calc_slicedefs ix shape w off o h = Ok (segs, rshape, ps) ->
  Forall (fun s => 0 <= snd s /\ off <= fst s /\ (0 < snd s -> fst s + snd s <= off + w * prod shape)) segs
  /\ fold_right (fun s a => snd s + a) 0 segs = w * prod rshape.
Proof.
  intros Hh Hw Hoff Hc Hv Hrun. unfold calc_slicedefs in Hrun. rewrite Hc in Hrun. cbn [bind] in Hrun.
  set (c1 := match o with OrdC => rev c | OrdF => c end) in *.
  set (sh1 := match o with OrdC => rev shape | OrdF => shape end) in *.
  assert (Hv1 : ix_valid sh1 c1) by (destruct o; [now apply ix_valid_rev|assumption]).
  assert (Hp1 : prod sh1 = prod shape) by (destruct o; [apply prod_rev|reflexivity]).
  unfold optimize_read_slicers in Hrun.
  destruct (opt_read_loop_total c1 [] sh1 h w true Hh Hv1) as (rd & ps0 & Ho).
  change (opt_read_loop c1 sh1 h 0 w true) with (opt_read_loop c1 ([] ++ sh1) h (zlen (@nil Z)) w true) in Hrun.
  rewrite Ho in Hrun. cbn [bind] in Hrun.
  pose proof (opt_read_loop_sound c1 [] sh1 h w true rd ps0 Hv1 Ho) as Hrel.
  pose proof (rp_rel_reads_valid _ _ _ _ Hrel) as Hrv.
  destruct (slicers2segments_total rd sh1 off w Hrv) as (segs0 & Hs). rewrite Hs in Hrun. cbn [bind] in Hrun.
  rewrite (predict_shape_reads rd sh1 Hrv) in Hrun. cbn [bind] in Hrun.
  assert (Hsegs : segs = segs0 /\ prod rshape = prod (np_shape sh1 rd)).
  { destruct o; injection Hrun as <- <- _; split; try reflexivity. apply prod_rev. }
  destruct Hsegs as [-> Hpr]. split.
  - rewrite <- Hp1. now apply (reads_in_extent rd sh1 off w segs0 Hrv Hw).
  - pose proof (reads_in_extent rd sh1 off w segs0 Hrv Hw Hs) as Hext.
    rewrite <- zlen_positions by (eapply Forall_impl; [|exact Hext]; intros s (H & _); exact H).
    rewrite (segments_are_F_order rd sh1 off w segs0 Hrv ltac:(lia) Hs).
    rewrite (zlen_flat_map_const _ w).
    + rewrite offs_length by now apply reads_valid_ix_valid. rewrite Hpr. reflexivity.
    + intros d. unfold pos1, zlen. cbn [fst snd]. rewrite map_length. apply zseq_length. lia.
Qed.

(* ====================================================================================
   canonical_slicers: for every user-level index that NumPy accepts structurally (at most one
   Ellipsis, not more real entries than axes, ints within [-n, n), non-zero steps) the
   canonical form is produced without error and is valid — so the hypothesis `ix_valid` of
   fileslice_eq_numpy is met. *)
Definition uvalid (n : Z) (i : idx) : Prop :=
  match i with IInt k => - n <= k < n | ISl s => step_of s <> 0 | INew => True | IEll => False end.

(* entries of l match, in order, the leading axes of sh (l has no Ellipsis) *)
Fixpoint pref_valid (sh : list Z) (l : list idx) : Prop :=
  match l with
  | [] => True
  | INew :: r => pref_valid sh r
  | i :: r => match sh with n :: sh' => 0 <= n /\ uvalid n i /\ pref_valid sh' r | [] => False end
  end.

Definition conv1 (n : Z) (i : idx) : cidx :=
  match i with
  | IInt k => CInt (if k <? 0 then n + k else k)
  | ISl s => CSl (norm_sl n s)
  | _ => CNew
  end.

Fixpoint conv (sh : list Z) (l : list idx) : list cidx :=
  match l with
  | [] => []
  | INew :: r => CNew :: conv sh r
  | i :: r => conv1 (hd 0 sh) i :: conv (tl sh) r
  end.

Lemma norm_sl_step n s : step_of s <> 0 -> step_of (norm_sl n s) <> 0.
Proof. intros H. unfold norm_sl. destruct (_ && _ && _ && _); [cbn; lia|assumption]. Qed.

Lemma canon_noell : forall l pre sh acc, pref_valid sh l ->
  canon true (pre ++ sh) l (zlen pre) acc = Ok (rev acc ++ conv sh l, zlen pre + count_real l).
Proof.
  induction l as [|i l IH]; intros pre sh acc Hv.
  - cbn. rewrite app_nil_r. f_equal. f_equal. unfold count_real, zlen. cbn. lia.
  - assert (Hcr : forall j, is_new j = false -> count_real (j :: l) = 1 + count_real l).
    { intros j Hj. unfold count_real, zlen. cbn [filter]. rewrite Hj. cbn [negb length]. lia. }
    destruct i as [k|s| |]; cbn [pref_valid] in Hv.
    + destruct sh as [|n sh]; [contradiction|]. destruct Hv as (Hn & Hk & Hv). cbn [uvalid] in Hk.
      cbn [canon]. rewrite py_nth_app. cbn [bind].
      replace (pre ++ n :: sh) with ((pre ++ [n]) ++ sh) by (rewrite <- app_assoc; reflexivity).
      replace (zlen pre + 1) with (zlen (pre ++ [n])) by (unfold zlen; rewrite app_length; cbn; lia).
      rewrite (Hcr (IInt k) eq_refl). cbn [conv conv1 hd tl].
      destruct (k <? 0) eqn:Ek.
      * replace (true && (n + k <? 0)) with false by lia. rewrite IH by assumption.
        cbn [rev]. rewrite <- app_assoc. cbn [app]. f_equal. f_equal. unfold zlen. rewrite app_length. cbn [length]. lia.
      * replace (true && (n <=? k)) with false by lia. rewrite IH by assumption.
        cbn [rev]. rewrite <- app_assoc. cbn [app]. f_equal. f_equal. unfold zlen. rewrite app_length. cbn [length]. lia.
    + destruct sh as [|n sh]; [contradiction|]. destruct Hv as (Hn & Hs & Hv).
      cbn [canon]. rewrite py_nth_app. cbn [bind].
      replace (pre ++ n :: sh) with ((pre ++ [n]) ++ sh) by (rewrite <- app_assoc; reflexivity).
      replace (zlen pre + 1) with (zlen (pre ++ [n])) by (unfold zlen; rewrite app_length; cbn; lia).
      rewrite (Hcr (ISl s) eq_refl). cbn [conv conv1 hd tl]. rewrite IH by assumption.
      cbn [rev]. rewrite <- app_assoc. cbn [app]. f_equal. f_equal. unfold zlen. rewrite app_length. cbn [length]. lia.
    + cbn [canon conv]. rewrite IH by assumption. cbn [rev]. rewrite <- app_assoc. cbn [app].
      reflexivity.
    + destruct sh; [contradiction|destruct Hv as (_ & [] & _)].
Qed.

(* validity of the converted prefix against exactly the axes it consumes *)
Lemma conv_valid : forall l sh, pref_valid sh l -> zlen sh = count_real l -> ix_valid sh (conv sh l).
Proof.
  induction l as [|i l IH]; intros sh Hv Hc.
  - unfold count_real, zlen in Hc. cbn in Hc. destruct sh; [reflexivity|cbn in Hc; lia].
  - assert (Hcr : forall j, is_new j = false -> count_real (j :: l) = 1 + count_real l).
    { intros j Hj. unfold count_real, zlen. cbn [filter]. rewrite Hj. cbn [negb length]. lia. }
    destruct i as [k|s| |]; cbn [pref_valid] in Hv.
    + destruct sh as [|n sh]; [contradiction|]. destruct Hv as (Hn & Hk & Hv). cbn [uvalid] in Hk.
      rewrite (Hcr (IInt k) eq_refl) in Hc. cbn [conv conv1 hd tl ix_valid valid_cidx].
      split; [assumption|]. split; [destruct (k <? 0) eqn:E; lia|]. apply IH; [assumption|].
      unfold zlen in *. cbn [length] in Hc. lia.
    + destruct sh as [|n sh]; [contradiction|]. destruct Hv as (Hn & Hs & Hv). cbn [uvalid] in Hs.
      rewrite (Hcr (ISl s) eq_refl) in Hc. cbn [conv conv1 hd tl ix_valid valid_cidx].
      split; [assumption|]. split; [now apply norm_sl_step|]. apply IH; [assumption|].
      unfold zlen in *. cbn [length] in Hc. lia.
    + cbn [conv ix_valid]. apply IH; [assumption|]. unfold count_real in *. cbn [filter is_new negb] in Hc. exact Hc.
    + destruct sh; [contradiction|destruct Hv as (_ & [] & _)].
Qed.

Lemma ix_valid_app : forall c1 s1 c2 s2, ix_valid s1 c1 -> ix_valid s2 c2 -> ix_valid (s1 ++ s2) (c1 ++ c2).
Proof.
  induction c1 as [|x c1 IH]; intros s1 c2 s2 H1 H2.
  - cbn in H1. subst. exact H2.
  - destruct x as [k|s|]; cbn [ix_valid app] in *; [| |now apply IH];
      (destruct s1 as [|n s1]; [contradiction|]); destruct H1 as (Hn & Hx & H1); cbn [app];
      (split; [assumption|]); (split; [assumption|now apply IH]).
Qed.

Lemma ix_valid_nones sh : Forall (fun n => 0 <= n) sh -> ix_valid sh (repeat (CSl sl_none) (length sh)).
Proof.
  induction 1 as [|n sh Hn HF IH]; [reflexivity|]. cbn [length repeat ix_valid valid_cidx].
  split; [assumption|]. split; [cbn; lia|assumption].
Qed.

Lemma pref_valid_split : forall l sh, pref_valid sh l -> count_real l <= zlen sh ->
  pref_valid (firstn (Z.to_nat (count_real l)) sh) l.
Proof.
  induction l as [|i l IH]; intros sh Hv Hc; [exact I|].
  assert (Hcr : forall j, is_new j = false -> count_real (j :: l) = 1 + count_real l).
  { intros j Hj. unfold count_real, zlen. cbn [filter]. rewrite Hj. cbn [negb length]. lia. }
  assert (Hnn : 0 <= count_real l) by (unfold count_real, zlen; lia).
  destruct i as [k|s| |]; cbn [pref_valid] in Hv |- *.
  - destruct sh as [|n sh]; [contradiction|]. destruct Hv as (Hn & Hk & Hv).
    rewrite (Hcr (IInt k) eq_refl) in *. replace (Z.to_nat (1 + count_real l)) with (S (Z.to_nat (count_real l))) by lia.
    cbn [firstn]. split; [assumption|]. split; [assumption|]. apply IH; [assumption|]. unfold zlen in *. cbn [length] in Hc. lia.
  - destruct sh as [|n sh]; [contradiction|]. destruct Hv as (Hn & Hk & Hv).
    rewrite (Hcr (ISl s) eq_refl) in *. replace (Z.to_nat (1 + count_real l)) with (S (Z.to_nat (count_real l))) by lia.
    cbn [firstn]. split; [assumption|]. split; [assumption|]. apply IH; [assumption|]. unfold zlen in *. cbn [length] in Hc. lia.
  - unfold count_real in *. cbn [filter is_new negb] in *. now apply IH.
  - destruct sh; [contradiction|destruct Hv as (_ & [] & _)].
Qed.

Lemma count_real_cons_real j l : is_new j = false -> count_real (j :: l) = 1 + count_real l.
Proof. intros Hj. unfold count_real, zlen. cbn [filter]. rewrite Hj. cbn [negb length]. lia. Qed.

Lemma count_real_nonneg l : 0 <= count_real l.
Proof. unfold count_real, zlen. lia. Qed.

Lemma canon_prefix : forall l rest pre sh acc, pref_valid sh l ->
  canon true (pre ++ sh) (l ++ rest) (zlen pre) acc
  = canon true (pre ++ sh) rest (zlen pre + count_real l) (rev (conv sh l) ++ acc).
Proof.
  induction l as [|i l IH]; intros rest pre sh acc Hv.
  - cbn [app conv rev]. unfold count_real at 1, zlen at 2. cbn [filter length Z.of_nat]. now rewrite Z.add_0_r.
  - destruct i as [k|s| |]; cbn [pref_valid] in Hv.
    + destruct sh as [|n sh]; [contradiction|]. destruct Hv as (Hn & Hk & Hv). cbn [uvalid] in Hk.
      cbn [app canon]. rewrite py_nth_app. cbn [bind].
      replace (pre ++ n :: sh) with ((pre ++ [n]) ++ sh) by (rewrite <- app_assoc; reflexivity).
      replace (zlen pre + 1) with (zlen (pre ++ [n])) by (unfold zlen; rewrite app_length; cbn [length]; lia).
      rewrite (count_real_cons_real (IInt k) l eq_refl). cbn [conv conv1 hd tl rev].
      replace (zlen pre + (1 + count_real l)) with (zlen (pre ++ [n]) + count_real l)
        by (unfold zlen; rewrite app_length; cbn [length]; lia).
      destruct (k <? 0) eqn:Ek.
      * replace (true && (n + k <? 0)) with false by lia. rewrite IH by assumption. f_equal. now rewrite <- app_assoc.
      * replace (true && (n <=? k)) with false by lia. rewrite IH by assumption. f_equal. now rewrite <- app_assoc.
    + destruct sh as [|n sh]; [contradiction|]. destruct Hv as (Hn & Hs & Hv).
      cbn [app canon]. rewrite py_nth_app. cbn [bind].
      replace (pre ++ n :: sh) with ((pre ++ [n]) ++ sh) by (rewrite <- app_assoc; reflexivity).
      replace (zlen pre + 1) with (zlen (pre ++ [n])) by (unfold zlen; rewrite app_length; cbn [length]; lia).
      rewrite (count_real_cons_real (ISl s) l eq_refl). cbn [conv conv1 hd tl rev].
      replace (zlen pre + (1 + count_real l)) with (zlen (pre ++ [n]) + count_real l)
        by (unfold zlen; rewrite app_length; cbn [length]; lia).
      rewrite IH by assumption. f_equal. now rewrite <- app_assoc.
    + cbn [app canon conv rev]. rewrite IH by assumption. f_equal. now rewrite <- app_assoc.
    + destruct sh; [contradiction|destruct Hv as (_ & [] & _)].
Qed.

Lemma conv_valid_pref : forall l sh, pref_valid sh l -> count_real l <= zlen sh ->
  ix_valid (firstn (Z.to_nat (count_real l)) sh) (conv sh l).
Proof.
  induction l as [|i l IH]; intros sh Hv Hc.
  - reflexivity.
  - pose proof (count_real_nonneg l) as Hnn.
    destruct i as [k|s| |]; cbn [pref_valid] in Hv.
    + destruct sh as [|n sh]; [contradiction|]. destruct Hv as (Hn & Hk & Hv). cbn [uvalid] in Hk.
      rewrite (count_real_cons_real (IInt k) l eq_refl) in *.
      replace (Z.to_nat (1 + count_real l)) with (S (Z.to_nat (count_real l))) by lia.
      cbn [firstn conv conv1 hd tl ix_valid valid_cidx].
      split; [assumption|]. split; [destruct (k <? 0) eqn:E; lia|]. apply IH; [assumption|].
      unfold zlen in *. cbn [length] in Hc. lia.
    + destruct sh as [|n sh]; [contradiction|]. destruct Hv as (Hn & Hs & Hv). cbn [uvalid] in Hs.
      rewrite (count_real_cons_real (ISl s) l eq_refl) in *.
      replace (Z.to_nat (1 + count_real l)) with (S (Z.to_nat (count_real l))) by lia.
      cbn [firstn conv conv1 hd tl ix_valid valid_cidx].
      split; [assumption|]. split; [now apply norm_sl_step|]. apply IH; [assumption|].
      unfold zlen in *. cbn [length] in Hc. lia.
    + cbn [conv ix_valid]. unfold count_real in *. cbn [filter is_new negb] in *. now apply IH.
    + destruct sh; [contradiction|destruct Hv as (_ & [] & _)].
Qed.

Lemma pref_valid_no_ell : forall l sh, pref_valid sh l -> existsb is_ell l = false.
Proof.
  induction l as [|i l IH]; intros sh Hv; [reflexivity|].
  destruct i as [k|s| |]; cbn [pref_valid existsb is_ell orb] in *.
  - destruct sh as [|n sh]; [contradiction|]. destruct Hv as (_ & _ & Hv). eapply IH; eauto.
  - destruct sh as [|n sh]; [contradiction|]. destruct Hv as (_ & _ & Hv). eapply IH; eauto.
  - eapply IH; eauto.
  - destruct sh; [contradiction|destruct Hv as (_ & [] & _)].
Qed.

Lemma Forall_firstn {A} (P : A -> Prop) n l : Forall P l -> Forall P (firstn n l).
Proof.
  revert n. induction l as [|x l IH]; intros n H; destruct n; cbn [firstn]; try constructor.
  - now inversion H.
  - apply IH. now inversion H.
Qed.
Lemma Forall_skipn {A} (P : A -> Prop) n l : Forall P l -> Forall P (skipn n l).
Proof.
  revert n. induction l as [|x l IH]; intros n H; destruct n; cbn [skipn]; try assumption.
  apply IH. now inversion H.
Qed.

Lemma my_skipn_skipn {A} : forall b a (l : list A), skipn a (skipn b l) = skipn (b + a) l.
Proof.
  induction b as [|b IH]; intros a l; [reflexivity|]. destruct l as [|x l]; [now destruct a|]. cbn [skipn Nat.add]. apply IH.
Qed.

(* the general statement: l1 before an optional Ellipsis, l2 after it *)
Theorem canonical_valid_ell shape l1 l2 :
  Forall (fun n => 0 <= n) shape ->
  count_real l1 + count_real l2 <= zlen shape ->
  pref_valid shape l1 ->
  pref_valid (skipn (Z.to_nat (zlen shape - count_real l2)) shape) l2 ->
  exists c, canonical_slicers true (l1 ++ IEll :: l2) shape = Ok c /\ ix_valid shape c.
Proof.
  intros Hsh Hcnt Hv1 Hv2.
  pose proof (count_real_nonneg l1) as H1. pose proof (count_real_nonneg l2) as H2.
  set (k1 := count_real l1) in *. set (k2 := count_real l2) in *. set (nd := zlen shape) in *.
  set (m := nd - k2) in *.
  unfold canonical_slicers.
  pose proof (canon_prefix l1 (IEll :: l2) [] shape [] Hv1) as E1. cbn [app] in E1.
  change (zlen (@nil Z)) with 0 in E1. rewrite Z.add_0_l, app_nil_r in E1. fold k1 in E1. rewrite E1.
  cbn [canon]. rewrite (pref_valid_no_ell l2 _ Hv2). fold nd k2.
  set (n_ell := nd - k1 - k2) in *.
  assert (Hsplit : shape = firstn (Z.to_nat m) shape ++ skipn (Z.to_nat m) shape) by (symmetry; apply firstn_skipn).
  assert (Hlen1 : zlen (firstn (Z.to_nat m) shape) = m).
  { unfold zlen. rewrite firstn_length. unfold nd, zlen in *. lia. }
  pose proof (canon_prefix l2 [] (firstn (Z.to_nat m) shape) (skipn (Z.to_nat m) shape)
                (repeat (CSl sl_none) (Z.to_nat n_ell) ++ rev (conv shape l1)) Hv2) as E2.
  rewrite <- Hsplit, Hlen1, app_nil_r in E2.
  replace (k1 + n_ell) with m by (unfold n_ell, m; lia). rewrite E2. cbn [canon bind].
  fold k2. replace (nd - (m + k2)) with 0 by (unfold m; lia). cbn [Z.to_nat repeat]. rewrite app_nil_r.
  eexists. split; [reflexivity|].
  rewrite rev_app_distr, rev_app_distr, rev_involutive, rev_involutive.
  assert (Hrep : rev (repeat (CSl sl_none) (Z.to_nat n_ell)) = repeat (CSl sl_none) (Z.to_nat n_ell)).
  { clear. induction (Z.to_nat n_ell) as [|q IH]; [reflexivity|]. cbn [repeat rev]. rewrite IH.
    clear. induction q as [|q IH]; [reflexivity|]. cbn [repeat app]. now rewrite IH. }
  rewrite Hrep, <- app_assoc.
  (* shape = first k1 axes ++ middle n_ell axes ++ last k2 axes *)
  assert (Hshape : shape = firstn (Z.to_nat k1) shape
                           ++ firstn (Z.to_nat n_ell) (skipn (Z.to_nat k1) shape)
                           ++ skipn (Z.to_nat m) shape).
  { rewrite <- (firstn_skipn (Z.to_nat k1) shape) at 1. f_equal.
    rewrite <- (firstn_skipn (Z.to_nat n_ell) (skipn (Z.to_nat k1) shape)) at 1. f_equal.
    rewrite my_skipn_skipn. f_equal. unfold m, n_ell. lia. }
  rewrite Hshape at 1.
  apply ix_valid_app; [apply conv_valid_pref; [assumption|unfold k1, nd in *; lia]|].
  apply ix_valid_app.
  - assert (Hl : length (firstn (Z.to_nat n_ell) (skipn (Z.to_nat k1) shape)) = Z.to_nat n_ell).
    { rewrite firstn_length, skipn_length. unfold nd, zlen, n_ell in *. lia. }
    rewrite <- Hl at 2. apply ix_valid_nones. apply Forall_firstn, Forall_skipn. assumption.
  - pose proof (conv_valid_pref l2 (skipn (Z.to_nat m) shape) Hv2) as Hc2. fold k2 in Hc2.
    assert (Hl2 : zlen (skipn (Z.to_nat m) shape) = k2).
    { unfold zlen. rewrite skipn_length. unfold nd, zlen, m in *. lia. }
    specialize (Hc2 ltac:(lia)).
    rewrite firstn_all2 in Hc2 by (unfold zlen in Hl2; lia). exact Hc2.
Qed.

Theorem canonical_valid_noell shape l :
  Forall (fun n => 0 <= n) shape -> count_real l <= zlen shape -> pref_valid shape l ->
  exists c, canonical_slicers true l shape = Ok c /\ ix_valid shape c.
Proof.
  intros Hsh Hcnt Hv. pose proof (count_real_nonneg l) as H1.
  unfold canonical_slicers.
  pose proof (canon_prefix l [] [] shape [] Hv) as E1. cbn [app] in E1.
  change (zlen (@nil Z)) with 0 in E1. rewrite Z.add_0_l, !app_nil_r in E1. rewrite E1.
  cbn [canon bind]. rewrite rev_involutive. eexists. split; [reflexivity|].
  set (k := count_real l) in *.
  rewrite <- (firstn_skipn (Z.to_nat k) shape) at 1.
  apply ix_valid_app; [apply conv_valid_pref; assumption|].
  assert (Hl : length (skipn (Z.to_nat k) shape) = Z.to_nat (zlen shape - k)).
  { rewrite skipn_length. unfold zlen in *. lia. }
  rewrite <- Hl. apply ix_valid_nones. now apply Forall_skipn.
Qed.

(* user-level corollaries: no hypothesis on the canonical form remains *)
Corollary fileslice_eq_numpy_noell h file l shape w off o : h_ok h -> 0 < w -> 0 <= off ->
  Forall (fun n => 0 <= n) shape -> count_real l <= zlen shape -> pref_valid shape l ->
  off + w * prod shape <= zlen file ->
  fileslice_h h file l shape w off o = numpy_slice file l shape w off o
  /\ exists r, numpy_slice file l shape w off o = Ok r.
Proof.
  intros Hh Hw Hoff Hsh Hc Hv Hfit.
  destruct (canonical_valid_noell shape l Hsh Hc Hv) as (c & Hcan & Hval).
  destruct (fileslice_eq_numpy h file l shape w off o c Hh Hw Hoff Hcan Hval Hfit) as [E1 E2].
  split; [exact E1|eexists; exact E2].
Qed.

Corollary fileslice_eq_numpy_ell h file l1 l2 shape w off o : h_ok h -> 0 < w -> 0 <= off ->
  Forall (fun n => 0 <= n) shape -> count_real l1 + count_real l2 <= zlen shape ->
  pref_valid shape l1 -> pref_valid (skipn (Z.to_nat (zlen shape - count_real l2)) shape) l2 ->
  off + w * prod shape <= zlen file ->
  fileslice_h h file (l1 ++ IEll :: l2) shape w off o = numpy_slice file (l1 ++ IEll :: l2) shape w off o
  /\ exists r, numpy_slice file (l1 ++ IEll :: l2) shape w off o = Ok r.
Proof.
  intros Hh Hw Hoff Hsh Hc Hv1 Hv2 Hfit.
  destruct (canonical_valid_ell shape l1 l2 Hsh Hc Hv1 Hv2) as (c & Hcan & Hval).
  destruct (fileslice_eq_numpy h file (l1 ++ IEll :: l2) shape w off o c Hh Hw Hoff Hcan Hval Hfit) as [E1 E2].
  split; [exact E1|eexists; exact E2].
Qed.

(* predict_shape on a user-level index: the shape NumPy gives (np_shape of the canonical index) *)
Lemma predict_loop_valid : forall c pre sh, ix_valid sh c ->
  predict_loop c (pre ++ sh) (zlen pre) = Ok (np_shape sh c).
Proof.
  induction c as [|x c IH]; intros pre sh Hv.
  - reflexivity.
  - destruct x as [k|s|]; cbn [ix_valid] in Hv.
    + destruct sh as [|n sh]; [contradiction|]. destruct Hv as (Hn & Hk & Hv).
      cbn [predict_loop np_shape tl].
      replace (pre ++ n :: sh) with ((pre ++ [n]) ++ sh) by (rewrite <- app_assoc; reflexivity).
      replace (zlen pre + 1) with (zlen (pre ++ [n])) by (unfold zlen; rewrite app_length; cbn [length]; lia).
      now apply IH.
    + destruct sh as [|n sh]; [contradiction|]. destruct Hv as (Hn & Hs & Hv). cbn [valid_cidx] in Hs.
      cbn [predict_loop np_shape tl hd]. rewrite py_nth_app. cbn [bind].
      rewrite slice2len_spec by assumption. cbn [bind].
      replace (pre ++ n :: sh) with ((pre ++ [n]) ++ sh) by (rewrite <- app_assoc; reflexivity).
      replace (zlen pre + 1) with (zlen (pre ++ [n])) by (unfold zlen; rewrite app_length; cbn [length]; lia).
      rewrite IH by assumption. reflexivity.
    + cbn [predict_loop np_shape]. rewrite IH by assumption. reflexivity.
Qed.

Theorem predict_shape_spec ix shape c :
  canonical_slicers true ix shape = Ok c -> ix_valid shape c ->
  predict_shape ix shape = Ok (np_shape shape c).
Proof.
  intros Hc Hv. unfold predict_shape. rewrite Hc. cbn [bind].
  exact (predict_loop_valid c [] shape Hv).
Qed.
