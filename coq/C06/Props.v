From NV Require Import Base.PySlice C06.Model C06.Lemmas.
