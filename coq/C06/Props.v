(* C06/Props.v — property theorems only (each closed by `exact`, Print Assumptions beneath).
   Property C06: reading a slice straight from file bytes equals NumPy indexing.
   Yardstick: Base/PySlice.v (py_indices n s = list(range(n))[s]), validated against CPython
   and NumPy on every run of ./check C06. *)
From Coq Require Import ZArith List Bool Lia.
From NV Require Import Base.PySlice C06.Model C06.Lemmas.
Import ListNotations.
Open Scope Z_scope.

(* helper predictions agree with Python/NumPy for EVERY slice and axis length *)
Theorem C06_fill_slicer_spec : forall s n f, 0 <= n -> fill_slicer s n = Ok f ->
  fsl_indices f = py_indices n s /\ f_step f = step_of s /\ step_of s <> 0.
Proof. exact fill_slicer_indices. Qed.
Print Assumptions C06_fill_slicer_spec.

Theorem C06_fill_slicer_total : forall s n, step_of s <> 0 -> exists f, fill_slicer s n = Ok f.
Proof. exact fill_slicer_ok. Qed.
Print Assumptions C06_fill_slicer_total.

Theorem C06_slice2len_spec : forall s n, 0 <= n -> step_of s <> 0 ->
  slice2len s n = Ok (zlen (py_indices n s)).
Proof. exact slice2len_spec. Qed.
Print Assumptions C06_slice2len_spec.

(* _positive_slice: same indices, reversed, positive step *)
Theorem C06_positive_slice_spec : forall f, f_step f < 0 ->
  fsl_indices (positive_slice f) = rev (fsl_indices f)
  /\ f_step (positive_slice f) = - f_step f
  /\ exists b, f_stop (positive_slice f) = Some b.
Proof. exact positive_slice_spec. Qed.
Print Assumptions C06_positive_slice_spec.

(* optimize_slicer, for ANY heuristic, any axis length, any int in range or slice: the read
   slicer has positive step and post-slicing what it reads selects exactly the elements of the
   original slicer in the original order (an int read keeps the int and drops the axis) *)
Theorem C06_optimize_slicer_sound : forall c n all_full is_slowest stride (h : heuristic) rd ps,
  0 <= n -> valid_cidx n c ->
  optimize_slicer c n all_full is_slowest stride h = Ok (rd, ps) ->
  read_post_ok n (axis_sel n c) rd ps.
Proof. exact optimize_slicer_sound. Qed.
Print Assumptions C06_optimize_slicer_sound.

(* slicers2segments, any rank, any item size and offset: the bytes covered by the segments, in
   the order they are read, are exactly the itemsize-byte blocks of the elements selected by
   the read slicers, enumerated in Fortran order (first axis fastest) *)
Theorem C06_segments_are_F_order : forall rd shape off w segs,
  reads_valid shape rd -> 0 <= w ->
  slicers2segments rd shape off w = Ok segs ->
  positions segs = flat_map (fun d => pos1 (off + d, w)) (offs shape rd w).
Proof. exact segments_are_F_order. Qed.
Print Assumptions C06_segments_are_F_order.

Theorem C06_segments_total : forall rd shape off w, reads_valid shape rd ->
  exists segs, slicers2segments rd shape off w = Ok segs.
Proof. exact slicers2segments_total. Qed.
Print Assumptions C06_segments_total.

(* predict_shape = the shape NumPy gives, for every index whose canonical form is valid *)
Theorem C06_predict_shape_spec : forall ix shape c,
  canonical_slicers true ix shape = Ok c -> ix_valid shape c ->
  predict_shape ix shape = Ok (np_shape shape c).
Proof. exact predict_shape_spec. Qed.
Print Assumptions C06_predict_shape_spec.

(* no read of calc_slicedefs leaves the array's extent [off, off + itemsize*size) and the
   segment lengths add up to the bytes of the block read (so neither ValueError guard of
   read_segments can fire on a long-enough file) — any rank, either order, any heuristic *)
Theorem C06_reads_in_extent : forall (h : heuristic) ix shape w off o c segs rshape ps,
  h_ok h -> 0 < w -> 0 <= off ->
  canonical_slicers true ix shape = Ok c -> ix_valid shape c ->
  calc_slicedefs ix shape w off o h = Ok (segs, rshape, ps) ->
  Forall (fun s => 0 <= snd s /\ off <= fst s /\ (0 < snd s -> fst s + snd s <= off + w * prod shape)) segs
  /\ fold_right (fun s a => snd s + a) 0 segs = w * prod rshape.
Proof. exact calc_slicedefs_extent. Qed.
Print Assumptions C06_reads_in_extent.

(* THE property: for every file, shape (any rank, zero-length axes included), item size,
   offset, order, heuristic (never answering 'contiguous' for an int, which the code rejects)
   and every index whose canonical form c is valid (ints in range, as many real entries as
   axes, non-zero steps): fileslice returns exactly NumPy's arr[ix] — same shape, same bytes.
   numpy_slice is the specification built from Base/PySlice.v only. *)
Theorem C06_fileslice_eq_numpy : forall (h : heuristic) file ix shape w off o c,
  h_ok h -> 0 < w -> 0 <= off ->
  canonical_slicers true ix shape = Ok c -> ix_valid shape c ->
  off + w * prod shape <= zlen file ->
  fileslice_h h file ix shape w off o = numpy_slice file ix shape w off o
  /\ numpy_slice file ix shape w off o = Ok (result_of o file shape w off c).
Proof. exact fileslice_eq_numpy. Qed.
Print Assumptions C06_fileslice_eq_numpy.

(* the default heuristic qualifies, for every threshold *)
Theorem C06_threshold_heuristic_ok : forall t, h_ok (threshold_heuristic t).
Proof. exact threshold_h_ok. Qed.
Print Assumptions C06_threshold_heuristic_ok.

Theorem C06_ix_validb_sound : forall ix shape, ix_validb shape ix = true -> ix_valid shape ix.
Proof. exact ix_validb_spec. Qed.
Print Assumptions C06_ix_validb_sound.

(* ... and the hypothesis on the canonical form is discharged for every index NumPy accepts
   structurally: ints within [-n, n), non-zero steps, None axes anywhere, at most one Ellipsis,
   not more real entries than axes (pref_valid matches entries to axes in order; after an
   Ellipsis they are matched against the trailing axes) *)
Theorem C06_fileslice_eq_numpy_noell : forall (h : heuristic) file l shape w off o,
  h_ok h -> 0 < w -> 0 <= off ->
  Forall (fun n => 0 <= n) shape -> count_real l <= zlen shape -> pref_valid shape l ->
  off + w * prod shape <= zlen file ->
  fileslice_h h file l shape w off o = numpy_slice file l shape w off o
  /\ exists r, numpy_slice file l shape w off o = Ok r.
Proof. exact fileslice_eq_numpy_noell. Qed.
Print Assumptions C06_fileslice_eq_numpy_noell.

Theorem C06_fileslice_eq_numpy_ell : forall (h : heuristic) file l1 l2 shape w off o,
  h_ok h -> 0 < w -> 0 <= off ->
  Forall (fun n => 0 <= n) shape -> count_real l1 + count_real l2 <= zlen shape ->
  pref_valid shape l1 -> pref_valid (skipn (Z.to_nat (zlen shape - count_real l2)) shape) l2 ->
  off + w * prod shape <= zlen file ->
  fileslice_h h file (l1 ++ IEll :: l2) shape w off o = numpy_slice file (l1 ++ IEll :: l2) shape w off o
  /\ exists r, numpy_slice file (l1 ++ IEll :: l2) shape w off o = Ok r.
Proof. exact fileslice_eq_numpy_ell. Qed.
Print Assumptions C06_fileslice_eq_numpy_ell.

(* non-vacuity: a 3-D C-order array, negative step, int, new axis and Ellipsis; the
   hypotheses hold and both sides compute to the same non-trivial result *)
Example C06_nonvacuous :
  let file := map Z.of_nat (seq 0 70) in
  let ix := [ISl (mkSl None None (Some (-2))); INew; IEll; IInt (-1)] in
  exists c, canonical_slicers true ix [3;4;5] = Ok c /\ ix_validb [3;4;5] c = true
    /\ 3 + 1 * prod [3;4;5] <= zlen file
    /\ fileslice_h (threshold_heuristic 5) file ix [3;4;5] 1 3 OrdC
       = Ok ([2;1;4], [47;52;57;62; 7;12;17;22]).
Proof. eexists. split; [vm_compute; reflexivity|]. split; [vm_compute; reflexivity|]. split; vm_compute; [discriminate|reflexivity]. Qed.
