(* C06/Props.v — property theorems only (each closed by `exact`, Print Assumptions beneath).
   Property C06: reading a slice straight from file bytes equals NumPy indexing.
   Yardstick: Base/PySlice.v (py_indices n s = list(range(n))[s]), validated against CPython
   and NumPy on every run of ./check C06. *)
From Coq Require Import ZArith List Bool Lia.
From NV Require Import Base.PySlice C06.Model C06.Lemmas.
Import ListNotations.
Open Scope Z_scope.

(* helper predictions agree with Python/NumPy for EVERY slice and axis length *)
Theorem C06_fill_slicer_spec : forall s n f, 0 <= n -> fill_slicer s n = Ok f ->
  fsl_indices f = py_indices n s /\ f_step f = step_of s /\ step_of s <> 0.
Proof. exact fill_slicer_indices. Qed.
Print Assumptions C06_fill_slicer_spec.

Theorem C06_fill_slicer_total : forall s n, step_of s <> 0 -> exists f, fill_slicer s n = Ok f.
Proof. exact fill_slicer_ok. Qed.
Print Assumptions C06_fill_slicer_total.

Theorem C06_slice2len_spec : forall s n, 0 <= n -> step_of s <> 0 ->
  slice2len s n = Ok (zlen (py_indices n s)).
Proof. exact slice2len_spec. Qed.
Print Assumptions C06_slice2len_spec.

(* _positive_slice: same indices, reversed, positive step *)
Theorem C06_positive_slice_spec : forall f, f_step f < 0 ->
  fsl_indices (positive_slice f) = rev (fsl_indices f)
  /\ f_step (positive_slice f) = - f_step f
  /\ exists b, f_stop (positive_slice f) = Some b.
Proof. exact positive_slice_spec. Qed.
Print Assumptions C06_positive_slice_spec.

(* optimize_slicer, for ANY heuristic, any axis length, any int in range or slice: the read
   slicer has positive step and post-slicing what it reads selects exactly the elements of the
   original slicer in the original order (an int read keeps the int and drops the axis) *)
Theorem C06_optimize_slicer_sound : forall c n all_full is_slowest stride (h : heuristic) rd ps,
  0 <= n -> valid_cidx n c ->
  optimize_slicer c n all_full is_slowest stride h = Ok (rd, ps) ->
  read_post_ok n (axis_sel n c) rd ps.
Proof. exact optimize_slicer_sound. Qed.
Print Assumptions C06_optimize_slicer_sound.

(* slicers2segments, any rank, any item size and offset: the bytes covered by the segments, in
   the order they are read, are exactly the itemsize-byte blocks of the elements selected by
   the read slicers, enumerated in Fortran order (first axis fastest) *)
Theorem C06_segments_are_F_order : forall rd shape off w segs,
  reads_valid shape rd -> 0 <= w ->
  slicers2segments rd shape off w = Ok segs ->
  positions segs = flat_map (fun d => pos1 (off + d, w)) (offs shape rd w).
Proof. exact segments_are_F_order. Qed.
Print Assumptions C06_segments_are_F_order.

Theorem C06_segments_total : forall rd shape off w, reads_valid shape rd ->
  exists segs, slicers2segments rd shape off w = Ok segs.
Proof. exact slicers2segments_total. Qed.
Print Assumptions C06_segments_total.
