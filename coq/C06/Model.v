(* C06/Model.v — line-for-line Gallina counterparts of nibabel/fileslice.py (as of the
   fix: commits b2fffcd8, 122ec27d, fbccfd65, e4b230cd):
     canonical_slicers, fill_slicer, _full_slicer_len, slice2len, predict_shape,
     slice2outax, _positive_slice, threshold_heuristic, optimize_slicer,
     optimize_read_slicers, slicers2segments, calc_slicedefs, read_segments, fileslice.
   The heuristic is a parameter.  The specification side (what NumPy indexing gives) is
   `np_index` at the end, built only from Base/PySlice.v.  Definitions only. *)
From Coq Require Import ZArith List Bool.
From NV Require Import Base.PySlice.
Import ListNotations.
Open Scope Z_scope.

Inductive err := EValue | EIndex | EIO.
Inductive res (A : Type) := Ok (a : A) | Err (e : err).
Arguments Ok {A}. Arguments Err {A}.
Definition bind {A B} (r : res A) (f : A -> res B) : res B :=
  match r with Ok a => f a | Err e => Err e end.
Notation "x <- r ;; k" := (bind r (fun x => k)) (at level 61, r at next level, right associativity).

Definition zlen {A} (l : list A) : Z := Z.of_nat (length l).
Definition prod (l : list Z) : Z := fold_right Z.mul 1 l.

(* user-level index entries and canonical ones (after Ellipsis expansion) *)
Inductive idx := IInt (k : Z) | ISl (s : pslice) | INew | IEll.
Inductive cidx := CInt (k : Z) | CSl (s : pslice) | CNew.

Definition cidx_is_none_slice (c : cidx) : bool :=
  match c with CSl s => pslice_eqb s sl_none | _ => false end.

(* Python l[i] for a tuple: negative wraps once, otherwise IndexError *)
Definition py_nth (l : list Z) (i : Z) : res Z :=
  let n := zlen l in
  if (i <? - n) || (n <=? i) then Err EIndex
  else Ok (nth (Z.to_nat (if i <? 0 then i + n else i)) l 0).

Definition is_ell (i : idx) : bool := match i with IEll => true | _ => false end.
Definition is_new (i : idx) : bool := match i with INew => true | _ => false end.
Definition count_real (l : list idx) : Z := zlen (filter (fun i => negb (is_new i)) l).

Definition opt_in0 (o : option Z) (v : Z) : bool :=
  match o with None => true | Some x => x =? v end.

Fixpoint canon (check : bool) (shape : list Z) (sl : list idx) (n_real : Z) (acc : list cidx)
  : res (list cidx * Z) :=
  match sl with
  | [] => Ok (rev acc, n_real)
  | INew :: r => canon check shape r n_real (CNew :: acc)
  | IEll :: r =>
      if existsb is_ell r then Err EValue
      else
        let n_ell := zlen shape - n_real - count_real r in
        canon check shape r (n_real + n_ell) (repeat (CSl sl_none) (Z.to_nat n_ell) ++ acc)
  | IInt k :: r =>
      d <- py_nth shape n_real ;;
      if k <? 0 then
        let k' := d + k in
        if check && (k' <? 0) then Err EValue else canon check shape r (n_real + 1) (CInt k' :: acc)
      else if check && (d <=? k) then Err EValue
      else canon check shape r (n_real + 1) (CInt k :: acc)
  | ISl s :: r =>
      d <- py_nth shape n_real ;;
      let s' := if negb (pslice_eqb s sl_none) && opt_eqb (s_stop s) (Some d)
                   && opt_in0 (s_start s) 0 && opt_in0 (s_step s) 1
                then sl_none else s in
      canon check shape r (n_real + 1) (CSl s' :: acc)
  end.

Definition canonical_slicers (check : bool) (sl : list idx) (shape : list Z) : res (list cidx) :=
  p <- canon check shape sl 0 [] ;;
  let '(c, n_real) := p in
  Ok (c ++ repeat (CSl sl_none) (Z.to_nat (zlen shape - n_real))).

(* "full" slices in the sense of fill_slicer: stop = None only for a negative step running
   down through element 0 *)
Record fsl := mkF { f_start : Z; f_stop : option Z; f_step : Z }.
Definition fsl_eqb (a b : fsl) : bool :=
  (f_start a =? f_start b) && opt_eqb (f_stop a) (f_stop b) && (f_step a =? f_step b).
Definition fsl_to_pslice (f : fsl) : pslice := mkSl (Some (f_start f)) (f_stop f) (Some (f_step f)).

Definition fill_slicer (s : pslice) (n : Z) : res fsl :=
  if step_of s =? 0 then Err EValue
  else
    let '(a, b, st) := adjust n s in
    if st <? 0 then
      if a <? 0 then Ok (mkF 0 (Some 0) st)
      else if b <? 0 then Ok (mkF a None st)
      else Ok (mkF a (Some b) st)
    else Ok (mkF a (Some b) st).

Definition cdiv (a b : Z) : Z := - ((- a) / b).     (* ceil(a / b), b <> 0 *)
Definition stop_or (f : fsl) : Z := match f_stop f with None => -1 | Some b => b end.

Definition full_slicer_len (f : fsl) : Z :=
  let gap := stop_or f - f_start f in
  if ((0 <? f_step f) && (gap <=? 0)) || ((f_step f <? 0) && (0 <=? gap)) then 0
  else cdiv gap (f_step f).

Definition slice2len (s : pslice) (n : Z) : res Z :=
  if pslice_eqb s sl_none then Ok n
  else f <- fill_slicer s n ;; Ok (full_slicer_len f).

Definition cidx_to_idx (c : cidx) : idx :=
  match c with CInt k => IInt k | CSl s => ISl s | CNew => INew end.

Fixpoint predict_loop (c : list cidx) (shape : list Z) (real_no : Z) : res (list Z) :=
  match c with
  | [] => Ok []
  | CNew :: r => t <- predict_loop r shape real_no ;; Ok (1 :: t)
  | CInt _ :: r => predict_loop r shape (real_no + 1)
  | CSl s :: r =>
      d <- py_nth shape real_no ;;
      l <- slice2len s d ;;
      t <- predict_loop r shape (real_no + 1) ;; Ok (l :: t)
  end.

Definition predict_shape (sl : list idx) (shape : list Z) : res (list Z) :=
  c <- canonical_slicers true sl shape ;; predict_loop c shape 0.

(* slice2outax: one entry per input axis: Some out-axis or None when dropped *)
Fixpoint outax_loop (c : list cidx) (out_no : Z) : list (option Z) :=
  match c with
  | [] => []
  | CInt _ :: r => None :: outax_loop r out_no
  | CNew :: r => outax_loop r (out_no + 1)
  | CSl _ :: r => Some out_no :: outax_loop r (out_no + 1)
  end.
Definition slice2outax (ndim : Z) (sl : list idx) : res (list (option Z)) :=
  c <- canonical_slicers false sl (repeat 1 (Z.to_nat ndim)) ;; Ok (outax_loop c 0).

Definition positive_slice (f : fsl) : fsl :=
  if 0 <? f_step f then f
  else
    let gap := stop_or f - f_start f in
    if 0 <=? gap then mkF 0 (Some 0) (- f_step f)
    else
      let n := cdiv gap (f_step f) - 1 in
      let e := f_start f + n * f_step f in
      mkF e (Some (f_start f + 1)) (- f_step f).

Inductive action := AFull | AContig | ANone.
Inductive hsl := HInt (k : Z) | HSl (f : fsl).
Definition heuristic := hsl -> Z -> Z -> action.

Definition threshold_heuristic (skip_thresh : Z) : heuristic := fun sl dim_len stride =>
  match sl with
  | HInt _ => if (dim_len - 1) * stride <=? skip_thresh then AFull else ANone
  | HSl f =>
      if skip_thresh <? Z.abs (f_step f) * stride then ANone
      else
        let p := positive_slice f in
        let read_len := stop_or p - f_start p in
        if (dim_len - read_len) * stride <=? skip_thresh then AFull else AContig
  end.

Inductive post := PDrop | PInt (k : Z) | PSl (s : pslice).
Definition post_is_none_slice (p : post) : bool :=
  match p with PSl s => pslice_eqb s sl_none | _ => false end.
Definition action_eqb (a b : action) : bool :=
  match a, b with AFull, AFull | AContig, AContig | ANone, ANone => true | _, _ => false end.

Definition rev_slice (st : Z) : pslice := mkSl None None (Some st).

(* the part of optimize_slicer after int/slice normalisation *)
Definition optimize_rest (sl : hsl) (dim_len : Z) (all_full is_slowest : bool) (stride : Z)
    (h : heuristic) : res (cidx * post) :=
  let is_int := match sl with HInt _ => true | _ => false end in
  let fallthrough :=
    match sl with
    | HInt k => Ok (CInt k, PDrop)
    | HSl f => if 0 <? f_step f then Ok (CSl (fsl_to_pslice f), PSl sl_none)
               else Ok (CSl (fsl_to_pslice (positive_slice f)), PSl (rev_slice (-1)))
    end in
  if all_full then
    let act := h sl dim_len stride in
    if is_int && action_eqb act AContig then Err EValue
    else
      let act' := if is_slowest && action_eqb act AFull then (if is_int then ANone else AContig) else act in
      match act' with
      | AFull => Ok (CSl sl_none, match sl with HInt k => PInt k | HSl f => PSl (fsl_to_pslice f) end)
      | AContig =>
          match sl with
          | HInt _ => fallthrough
          | HSl f =>
              let step := f_step f in
              if (step =? -1) || (step =? 1) then fallthrough
              else
                let f' := if step <? 0 then positive_slice f else f in
                Ok (CSl (mkSl (Some (f_start f')) (f_stop f') (Some 1)), PSl (rev_slice step))
          end
      | ANone => fallthrough
      end
  else fallthrough.

Definition optimize_slicer (c : cidx) (dim_len : Z) (all_full is_slowest : bool) (stride : Z)
    (h : heuristic) : res (cidx * post) :=
  match c with
  | CNew => Err EValue   (* never called with None *)
  | CSl s =>
      if pslice_eqb s sl_none then Ok (CSl sl_none, PSl sl_none)
      else
        f <- fill_slicer s dim_len ;;
        if fsl_eqb f (mkF 0 (Some dim_len) 1) then Ok (CSl sl_none, PSl sl_none)
        else if fsl_eqb f (mkF (dim_len - 1) None (-1)) then Ok (CSl sl_none, PSl (rev_slice (-1)))
        else optimize_rest (HSl f) dim_len all_full is_slowest stride h
  | CInt k =>
      let k' := if k <? 0 then dim_len + k else k in
      optimize_rest (HInt k') dim_len all_full is_slowest stride h
  end.

Fixpoint opt_read_loop (c : list cidx) (shape : list Z) (h : heuristic) (real_no stride : Z)
    (all_full : bool) : res (list cidx * list post) :=
  match c with
  | [] => Ok ([], [])
  | CNew :: r =>
      t <- opt_read_loop r shape h real_no stride all_full ;;
      Ok (CNew :: fst t, PSl sl_none :: snd t)
  | x :: r =>
      dim_len <- py_nth shape real_no ;;
      let real_no' := real_no + 1 in
      let is_last := real_no' =? zlen shape in
      rp <- optimize_slicer x dim_len all_full is_last stride h ;;
      let '(rd, ps) := rp in
      t <- opt_read_loop r shape h real_no' (stride * dim_len) (all_full && cidx_is_none_slice rd) ;;
      Ok (rd :: fst t, match rd with CInt _ => snd t | _ => ps :: snd t end)
  end.

Definition optimize_read_slicers (c : list cidx) (shape : list Z) (itemsize : Z) (h : heuristic) :=
  opt_read_loop c shape h 0 itemsize true.

Definition seg := (Z * Z)%type.

(* range(start, stop, step) for a full positive slicer; stop = None cannot be iterated *)
Definition frange (f : fsl) : res (list Z) :=
  match f_stop f with
  | None => Err EValue
  | Some b => if f_step f =? 0 then Err EValue else Ok (range_of (f_start f, b, f_step f))
  end.

Fixpoint s2s_loop (rs : list cidx) (shape : list Z) (real_no stride : Z) (all_full : bool)
    (segs : list seg) : res (list seg) :=
  match rs with
  | [] => Ok segs
  | CNew :: r => s2s_loop r shape real_no stride all_full segs
  | CInt k :: r =>
      dim_len <- py_nth shape real_no ;;
      s2s_loop r shape (real_no + 1) (stride * dim_len) false
        (map (fun s : seg => (fst s + stride * k, snd s)) segs)
  | CSl s :: r =>
      dim_len <- py_nth shape real_no ;;
      f <- fill_slicer s dim_len ;;
      let slice_len := full_slicer_len f in
      let is_full := fsl_eqb f (mkF 0 (Some dim_len) 1) in
      let is_contig := f_step f =? 1 in
      segs' <- (if all_full && is_contig then
                  match segs with
                  | (o, l) :: rest => Ok ((o + stride * f_start f, l * slice_len) :: rest)
                  | [] => Ok []
                  end
                else
                  idxs <- frange f ;;
                  Ok (flat_map (fun i => map (fun s : seg => (fst s + stride * i, snd s)) segs) idxs)) ;;
      s2s_loop r shape (real_no + 1) (stride * dim_len) (all_full && is_full) segs'
  end.

Definition slicers2segments (rs : list cidx) (shape : list Z) (offset itemsize : Z) : res (list seg) :=
  s2s_loop rs shape 0 itemsize true [(offset, itemsize)].

Inductive order := OrdC | OrdF.

Definition calc_slicedefs (sl : list idx) (shape : list Z) (itemsize offset : Z) (o : order)
    (h : heuristic) : res (list seg * list Z * list post) :=
  c <- canonical_slicers true sl shape ;;
  let c1 := match o with OrdC => rev c | OrdF => c end in
  let sh1 := match o with OrdC => rev shape | OrdF => shape end in
  rp <- optimize_read_slicers c1 sh1 itemsize h ;;
  let '(rd, ps) := rp in
  segs <- slicers2segments rd sh1 offset itemsize ;;
  let ps1 := if forallb post_is_none_slice ps then [] else ps in
  rshape <- predict_shape (map cidx_to_idx rd) sh1 ;;
  match o with
  | OrdC => Ok (segs, rev rshape, rev ps1)
  | OrdF => Ok (segs, rshape, ps1)
  end.

(* file objects: a byte list; seek to a negative offset raises; read(n) returns at most n
   bytes (n < 0: everything) *)
Definition take (n : Z) {A} (l : list A) : list A := firstn (Z.to_nat n) l.
Definition drop (n : Z) {A} (l : list A) : list A := skipn (Z.to_nat n) l.
Definition fread_at (file : list Z) (off len : Z) : res (list Z) :=
  if off <? 0 then Err EValue
  else Ok (if len <? 0 then drop off file else take len (drop off file)).

Fixpoint read_all (file : list Z) (segs : list seg) : res (list Z) :=
  match segs with
  | [] => Ok []
  | (o, l) :: r => b <- fread_at file o l ;; t <- read_all file r ;; Ok (b ++ t)
  end.

Definition read_segments (file : list Z) (segs : list seg) (n_bytes : Z) : res (list Z) :=
  match segs with
  | [] => if n_bytes =? 0 then Ok [] else Err EValue
  | [(o, l)] => b <- fread_at file o l ;; if zlen b =? n_bytes then Ok b else Err EValue
  | _ =>
      if n_bytes =? 0 then
        (if forallb (fun s : seg => snd s =? 0) segs then Ok [] else Err EValue)
      else b <- read_all file segs ;; if zlen b =? n_bytes then Ok b else Err EValue
  end.

(* ------------------------------------------------------------ NumPy indexing (spec side)
   An array is (shape, elements in F order); an element is any value.  np_index_F gives
   shape and F-order elements of arr[ix] for a canonical-style index list (ints assumed in
   range and non-negative, slices resolved by PySlice). *)
Definition axis_sel (n : Z) (c : cidx) : list Z :=
  match c with CInt k => [k] | CSl s => py_indices n s | CNew => [0] end.

(* element offsets (in units of strd) selected, first axis fastest *)
Fixpoint offs (shape : list Z) (ix : list cidx) (strd : Z) : list Z :=
  match ix with
  | [] => [0]
  | CNew :: r => offs shape r strd
  | c :: r =>
      match shape with
      | n :: sh => flat_map (fun outer => map (fun i => strd * i + outer) (axis_sel n c)) (offs sh r (strd * n))
      | [] => []
      end
  end.

Fixpoint np_shape (shape : list Z) (ix : list cidx) : list Z :=
  match ix with
  | [] => []
  | CNew :: r => 1 :: np_shape shape r
  | CInt _ :: r => np_shape (tl shape) r
  | CSl s :: r => zlen (py_indices (hd 0 shape) s) :: np_shape (tl shape) r
  end.

Definition np_index_F {A} (d : A) (shape : list Z) (ix : list cidx) (elems : list A) : list Z * list A :=
  (np_shape shape ix, map (fun o => nth (Z.to_nat o) elems d) (offs shape ix 1)).

(* C order: the same buffer seen in F order has the reversed shape; the index is reversed
   with it and the result comes out in C order *)
Definition np_index {A} (d : A) (o : order) (shape : list Z) (ix : list cidx) (elems : list A) :=
  match o with
  | OrdF => np_index_F d shape ix elems
  | OrdC => let '(s, e) := np_index_F d (rev shape) (rev ix) elems in (rev s, e)
  end.

Definition post_to_cidx (p : post) : cidx :=
  match p with PDrop => CNew | PInt k => CInt k | PSl s => CSl s end.

(* split a byte list into w-byte elements *)
Fixpoint chunks (fuel : nat) (w : Z) (l : list Z) : list (list Z) :=
  match fuel with
  | O => []
  | S f => match l with [] => [] | _ => take w l :: chunks f w (drop w l) end
  end.

(* fileslice with the heuristic made explicit (the real fileslice always uses the default
   threshold heuristic: calc_slicedefs is called without it) *)
Definition fileslice_h (h : heuristic) (file : list Z) (sl : list idx) (shape : list Z)
    (itemsize offset : Z) (o : order) : res (list Z * list Z) :=
  d <- calc_slicedefs sl shape itemsize offset o h ;;
  let '(segs, rshape, ps) := d in
  let n_bytes := prod rshape * itemsize in
  b <- read_segments file segs n_bytes ;;
  match ps with
  | [] => Ok (rshape, b)                      (* sliced[()] is sliced *)
  | _ =>
    let elems := chunks (length b) itemsize b in
    let '(s, e) := np_index [] o rshape (map post_to_cidx ps) elems in
    Ok (s, concat e)
  end.

Definition SKIP_THRESH : Z := 256.   (* nibabel.fileslice.SKIP_THRESH = 2**8 *)
Definition fileslice := fileslice_h (threshold_heuristic SKIP_THRESH).

(* the specification: A = ndarray(shape, itemsize-byte elements, buffer=file[offset:], order);
   A[ix] as (shape, bytes in `order` order) *)
Definition array_elems (file : list Z) (shape : list Z) (w off : Z) : list (list Z) :=
  let b := take (prod shape * w) (drop off file) in chunks (length b) w b.

Definition numpy_slice (file : list Z) (sl : list idx) (shape : list Z) (w off : Z) (o : order)
  : res (list Z * list Z) :=
  c <- canonical_slicers true sl shape ;;
  let '(s, e) := np_index [] o shape c (array_elems file shape w off) in
  Ok (s, concat e).

(* decidable validity of a canonical index for a shape (hypothesis of the main theorem) *)
Definition valid_cidxb (n : Z) (c : cidx) : bool :=
  match c with CInt k => (0 <=? k) && (k <? n) | CSl s => negb (step_of s =? 0) | CNew => false end.
Fixpoint ix_validb (shape : list Z) (ix : list cidx) : bool :=
  match ix with
  | [] => match shape with [] => true | _ => false end
  | CNew :: r => ix_validb shape r
  | c :: r => match shape with n :: sh => (0 <=? n) && valid_cidxb n c && ix_validb sh r | [] => false end
  end.


Definition canonical_valid (sl : list idx) (shape : list Z) : res bool :=
  c <- canonical_slicers true sl shape ;; Ok (ix_validb shape c).
