(* C15/Invariant.v — the structural invariant of reachable ArraySequence states and its
   preservation by the primitive state transformers of Model.v. *)
From Coq Require Import ZArith List Bool Arith Lia.
From NV Require Import C15.Model C15.ListLemmas.
Import ListNotations.

Definition pairs (s : seq) : list (nat * nat) := combine (offs s) (lens s).
Definition rows_of (st : state) (b : nat) : list Z := rows (getbuf (heap st) b).

(* a pending build cache extends the visible chain of its (non-view) sequence *)
Definition cache_ok (n : nat) (s : seq) (c : cache) : Prop :=
  is_view s = false /\
  (exists eo el, c_offs c = offs s ++ eo /\ c_lens c = lens s ++ el) /\
  chain 0 (c_offs c) (c_lens c) /\ c_next c = cend 0 (c_offs c) (c_lens c) /\
  c_next c <= n /\ (1 <= c_rpb c)%Z.

(* every buffer carries an ascending chain of disjoint elements inside its written prefix; all
   sequences on the buffer select elements of that chain, the non-view one (its owner) has
   exactly that chain *)
Definition buf_ok (st : state) (b : nat) : Prop :=
  exists os ls, chain 0 os ls /\ cend 0 os ls <= length (rows_of st b) /\
    forall k, k < length (seqs st) -> sbuf (getseq st k) = b ->
      incl (pairs (getseq st k)) (combine os ls) /\
      (is_view (getseq st k) = false -> offs (getseq st k) = os /\ lens (getseq st k) = ls).

Definition seq_ok (st : state) (s : seq) : Prop :=
  sbuf s < length (heap st) /\ length (offs s) = length (lens s) /\
  match scache s with None => True | Some c => cache_ok (length (rows_of st (sbuf s))) s c end.

Record wf (st : state) : Prop := mkWf {
  wf_heap : forall b, b < length (heap st) ->
              (Z.of_nat (length (rows_of st b)) <= cap (getbuf (heap st) b))%Z;
  wf_buf : forall b, b < length (heap st) -> buf_ok st b;
  wf_seq : forall k, k < length (seqs st) -> seq_ok st (getseq st k);
  wf_own : forall i j, i < length (seqs st) -> j < length (seqs st) -> i <> j ->
             sbuf (getseq st i) = sbuf (getseq st j) ->
             is_view (getseq st i) = true \/ is_view (getseq st j) = true }.

Lemma wf_init : wf init.
Proof. split; simpl; intros; lia. Qed.

(* ---------------------------------------------------------------- small facts *)
Lemma getbuf_app_old h x b : b < length h -> getbuf (h ++ [x]) b = getbuf h b.
Proof. intros. unfold getbuf. apply app_nth1; auto. Qed.
Lemma getbuf_app_new h x : getbuf (h ++ [x]) (length h) = x.
Proof. unfold getbuf. apply nth_app_new. Qed.

Lemma incl_combine_app (a b eo el : list nat) : length a = length b ->
  incl (combine a b) (combine (a ++ eo) (b ++ el)).
Proof.
  revert b; induction a; destruct b; simpl; intros; try discriminate.
  - intros x [].
  - intros x [E|Hin]; [left; auto|right]. apply IHa; auto.
Qed.

Lemma in_combine_nth (os ls : list nat) p : length os = length ls -> p < length os ->
  In (nth p os 0, nth p ls 0) (combine os ls).
Proof.
  intros. rewrite <- combine_nth by auto. apply nth_In. rewrite combine_length. lia.
Qed.

Lemma incl_pick (os ls : list nat) ps : length os = length ls -> Forall (fun p => p < length os) ps ->
  incl (combine (pick 0 os ps) (pick 0 ls ps)) (combine os ls).
Proof.
  intros HL HF. induction ps as [|p ps IH]; simpl; [intros x []|].
  inversion HF; subst. intros x [E|Hin]; [subst; apply in_combine_nth; auto|apply IH; auto].
Qed.

Lemma pick_length {A} (d : A) l ps : length (pick d l ps) = length ps.
Proof. apply map_length. Qed.

Lemma in_lens_pair (os ls : list nat) l : length os = length ls -> In l ls -> exists o, In (o, l) (combine os ls).
Proof.
  revert ls; induction os; destruct ls; simpl; intros; try discriminate; try tauto.
  destruct H0 as [E|H0]; [subst; eauto|]. destruct (IHos ls) as (o & ?); auto. eauto.
Qed.

(* lengths of the elements read from an in-bounds sequence *)
Lemma elems_lengths r os ls : length os = length ls ->
  (forall o l, In (o, l) (combine os ls) -> o + l <= length r) ->
  map (@length Z) (elems_of r os ls) = ls.
Proof.
  revert ls; induction os; destruct ls; simpl; intros; try discriminate; auto.
  unfold elems_of in *. simpl. f_equal.
  - apply slice_length. apply H0. auto.
  - apply IHos; auto.
Qed.

Lemma ext_rows_ge n rpb : (1 <= rpb)%Z -> (Z.of_nat n <= ext_rows n rpb)%Z.
Proof.
  intros. unfold ext_rows.
  pose proof (Z.div_mod (Z.of_nat n + rpb - 1) rpb ltac:(lia)).
  pose proof (Z.mod_pos_bound (Z.of_nat n + rpb - 1) rpb ltac:(lia)).
  nia.
Qed.

Lemma rows_per_buf_ge a b : (1 <= rows_per_buf a b)%Z.
Proof. unfold rows_per_buf. lia. Qed.

(* ---------------------------------------------------------------- (1) a new view *)
Lemma wf_add_view st i os ls bytes lv : wf st -> i < length (seqs st) ->
  length os = length ls -> incl (combine os ls) (pairs (getseq st i)) ->
  wf (add_seq st (mkSeq (sbuf (getseq st i)) os ls true bytes None lv)).
Proof.
  intros W Hi HL Hincl.
  set (s := getseq st i) in *.
  set (v := mkSeq (sbuf s) os ls true bytes None lv).
  assert (G : forall k, k < length (seqs st) -> getseq (add_seq st v) k = getseq st k).
  { intros. unfold getseq, add_seq; simpl. apply nth_app_old; auto. }
  assert (GN : getseq (add_seq st v) (length (seqs st)) = v).
  { unfold getseq, add_seq; simpl. apply nth_app_new. }
  assert (LN : length (seqs (add_seq st v)) = S (length (seqs st))).
  { unfold add_seq; simpl. rewrite app_length; simpl; lia. }
  split.
  - intros b Hb. exact (wf_heap _ W b Hb).
  - intros b Hb. destruct (wf_buf _ W b Hb) as (cos & cls & C1 & C2 & C3).
    exists cos, cls. split; [auto|split; [exact C2|]].
    intros k Hk Hs. rewrite LN in Hk.
    destruct (Nat.eq_dec k (length (seqs st))) as [->|Hne].
    + rewrite GN in *. simpl in Hs. split; [|discriminate].
      unfold pairs; simpl. intros x Hx. apply (proj1 (C3 i Hi Hs)). apply Hincl. exact Hx.
    + rewrite G in * by lia. apply C3; auto. lia.
  - intros k Hk. rewrite LN in Hk.
    destruct (Nat.eq_dec k (length (seqs st))) as [->|Hne].
    + rewrite GN. destruct (wf_seq _ W i Hi) as (S1 & _). repeat split; auto.
    + rewrite G by lia. apply (wf_seq _ W k). lia.
  - intros a b Ha Hb Hab Hs. rewrite LN in Ha, Hb.
    destruct (Nat.eq_dec a (length (seqs st))) as [->|Hna].
    + left. rewrite GN. reflexivity.
    + destruct (Nat.eq_dec b (length (seqs st))) as [->|Hnb].
      * right. rewrite GN. reflexivity.
      * rewrite !G in * by lia. apply (wf_own _ W a b); auto; lia.
Qed.

(* ---------------------------------------------------------------- (2) a new sequence on a fresh buffer *)
Lemma wf_add_fresh st x s' : wf st ->
  sbuf s' = length (heap st) -> is_view s' = false -> scache s' = None ->
  chain 0 (offs s') (lens s') -> cend 0 (offs s') (lens s') <= length (rows x) ->
  (Z.of_nat (length (rows x)) <= cap x)%Z ->
  wf (mkSt (heap st ++ [x]) (seqs st ++ [s'])).
Proof.
  intros W Hb Hv Hc Hch Hce Hcap.
  set (st' := mkSt (heap st ++ [x]) (seqs st ++ [s'])).
  assert (G : forall k, k < length (seqs st) -> getseq st' k = getseq st k).
  { intros. unfold getseq, st'; simpl. apply nth_app_old; auto. }
  assert (GN : getseq st' (length (seqs st)) = s').
  { unfold getseq, st'; simpl. apply nth_app_new. }
  assert (LN : length (seqs st') = S (length (seqs st))).
  { unfold st'; simpl. rewrite app_length; simpl; lia. }
  assert (LH : length (heap st') = S (length (heap st))).
  { unfold st'; simpl. rewrite app_length; simpl; lia. }
  assert (R : forall b, b < length (heap st) -> rows_of st' b = rows_of st b).
  { intros. unfold rows_of, st'; simpl. rewrite getbuf_app_old; auto. }
  assert (RN : rows_of st' (length (heap st)) = rows x).
  { unfold rows_of, st'; simpl. rewrite getbuf_app_new; auto. }
  assert (OLD : forall k, k < length (seqs st) -> sbuf (getseq st k) < length (heap st)).
  { intros k Hk. apply (wf_seq _ W k Hk). }
  split.
  - intros b Hb'. rewrite LH in Hb'. destruct (Nat.eq_dec b (length (heap st))) as [->|Hne].
    + rewrite RN. unfold st'; simpl. rewrite getbuf_app_new. exact Hcap.
    + rewrite R by lia. unfold st'; simpl. rewrite getbuf_app_old by lia. apply (wf_heap _ W). lia.
  - intros b Hb'. rewrite LH in Hb'. destruct (Nat.eq_dec b (length (heap st))) as [->|Hne].
    + exists (offs s'), (lens s'). rewrite RN. split; [auto|split; [auto|]].
      intros k Hk Hs. rewrite LN in Hk. destruct (Nat.eq_dec k (length (seqs st))) as [->|Hnk].
      * rewrite GN. split; [apply incl_refl|auto].
      * rewrite G in Hs by lia. specialize (OLD k ltac:(lia)). lia.
    + destruct (wf_buf _ W b ltac:(lia)) as (cos & cls & C1 & C2 & C3).
      exists cos, cls. rewrite R by lia. split; [auto|split; [auto|]].
      intros k Hk Hs. rewrite LN in Hk. destruct (Nat.eq_dec k (length (seqs st))) as [->|Hnk].
      * rewrite GN in Hs. lia.
      * rewrite G in * by lia. apply C3; auto. lia.
  - intros k Hk. rewrite LN in Hk. destruct (Nat.eq_dec k (length (seqs st))) as [->|Hnk].
    + rewrite GN. unfold seq_ok. rewrite Hc, Hb, LH. repeat split; auto.
      apply (chain_length _ _ _ Hch).
    + rewrite G by lia. destruct (wf_seq _ W k ltac:(lia)) as (S1 & S2 & S3).
      unfold seq_ok. rewrite LH. repeat split; auto. rewrite R by auto. exact S3.
  - intros a b Ha Hb' Hab Hs. rewrite LN in Ha, Hb'.
    destruct (Nat.eq_dec a (length (seqs st))) as [->|Hna];
      destruct (Nat.eq_dec b (length (seqs st))) as [->|Hnb]; try lia.
    + rewrite GN, G in Hs by lia. specialize (OLD b ltac:(lia)). lia.
    + rewrite GN, G in Hs by lia. specialize (OLD a ltac:(lia)). lia.
    + rewrite !G in * by lia. apply (wf_own _ W a b); auto; lia.
Qed.

(* ---------------------------------------------------------------- (2b) a clone: whole buffer and sequence fields copied *)
Lemma wf_add_clone st i lv : wf st -> i < length (seqs st) ->
  let s := getseq st i in
  wf (mkSt (heap st ++ [getbuf (heap st) (sbuf s)])
           (seqs st ++ [mkSeq (length (heap st)) (offs s) (lens s) (is_view s) (bufbytes s) (scache s) lv])).
Proof.
  intros W Hi s.
  set (x := getbuf (heap st) (sbuf s)).
  set (s' := mkSeq (length (heap st)) (offs s) (lens s) (is_view s) (bufbytes s) (scache s) lv).
  set (st' := mkSt (heap st ++ [x]) (seqs st ++ [s'])).
  destruct (wf_seq _ W i Hi) as (Sb & Sl & Sc). fold s in Sb, Sl, Sc.
  assert (G : forall k, k < length (seqs st) -> getseq st' k = getseq st k).
  { intros. unfold getseq, st'; simpl. apply nth_app_old; auto. }
  assert (GN : getseq st' (length (seqs st)) = s').
  { unfold getseq, st'; simpl. apply nth_app_new. }
  assert (LN : length (seqs st') = S (length (seqs st))).
  { unfold st'; simpl. rewrite app_length; simpl; lia. }
  assert (LH : length (heap st') = S (length (heap st))).
  { unfold st'; simpl. rewrite app_length; simpl; lia. }
  assert (R : forall b, b < length (heap st) -> rows_of st' b = rows_of st b).
  { intros. unfold rows_of, st'; simpl. rewrite getbuf_app_old; auto. }
  assert (RN : rows_of st' (length (heap st)) = rows_of st (sbuf s)).
  { unfold rows_of, st'; simpl. rewrite getbuf_app_new; auto. }
  assert (OLD : forall k, k < length (seqs st) -> sbuf (getseq st k) < length (heap st)).
  { intros k Hk. apply (wf_seq _ W k Hk). }
  split.
  - intros b Hb'. rewrite LH in Hb'. destruct (Nat.eq_dec b (length (heap st))) as [->|Hne].
    + rewrite RN. unfold st'; simpl. rewrite getbuf_app_new. apply (wf_heap _ W _ Sb).
    + rewrite R by lia. unfold st'; simpl. rewrite getbuf_app_old by lia. apply (wf_heap _ W). lia.
  - intros b Hb'. rewrite LH in Hb'. destruct (Nat.eq_dec b (length (heap st))) as [->|Hne].
    + destruct (wf_buf _ W _ Sb) as (os & ls & C1 & C2 & C3).
      exists os, ls. rewrite RN. split; [auto|split; [auto|]].
      intros k Hk Hs. rewrite LN in Hk. destruct (Nat.eq_dec k (length (seqs st))) as [->|Hnk].
      * rewrite GN. unfold pairs, s'; simpl. apply (C3 i Hi eq_refl).
      * rewrite G in Hs by lia. specialize (OLD k ltac:(lia)). lia.
    + destruct (wf_buf _ W b ltac:(lia)) as (cos & cls & C1 & C2 & C3).
      exists cos, cls. rewrite R by lia. split; [auto|split; [auto|]].
      intros k Hk Hs. rewrite LN in Hk. destruct (Nat.eq_dec k (length (seqs st))) as [->|Hnk].
      * rewrite GN in Hs. simpl in Hs. lia.
      * rewrite G in * by lia. apply C3; auto. lia.
  - intros k Hk. rewrite LN in Hk. destruct (Nat.eq_dec k (length (seqs st))) as [->|Hnk].
    + rewrite GN. unfold seq_ok, s'. cbn [sbuf offs lens scache]. rewrite LH, RN.
      split; [lia|split; [auto|]].
      destruct (scache s) as [c|]; auto.
    + rewrite G by lia. destruct (wf_seq _ W k ltac:(lia)) as (S1 & S2 & S3).
      unfold seq_ok. rewrite LH. repeat split; auto. rewrite R by auto. exact S3.
  - intros a b Ha Hb' Hab Hs. rewrite LN in Ha, Hb'.
    destruct (Nat.eq_dec a (length (seqs st))) as [->|Hna];
      destruct (Nat.eq_dec b (length (seqs st))) as [->|Hnb]; try lia.
    + rewrite GN, G in Hs by lia. simpl in Hs. specialize (OLD b ltac:(lia)). lia.
    + rewrite GN, G in Hs by lia. simpl in Hs. specialize (OLD a ltac:(lia)). lia.
    + rewrite !G in * by lia. apply (wf_own _ W a b); auto; lia.
Qed.

(* ---------------------------------------------------------------- (3) sequence i moves to a fresh buffer *)
Lemma wf_move_fresh st i x s' : wf st -> i < length (seqs st) ->
  sbuf s' = length (heap st) -> is_view s' = false ->
  chain 0 (offs s') (lens s') -> cend 0 (offs s') (lens s') <= length (rows x) ->
  (Z.of_nat (length (rows x)) <= cap x)%Z ->
  match scache s' with None => True | Some c => cache_ok (length (rows x)) s' c end ->
  wf (mkSt (heap st ++ [x]) (upd (seqs st) i s')).
Proof.
  intros W Hi Hb Hv Hch Hce Hcap Hc.
  set (st' := mkSt (heap st ++ [x]) (upd (seqs st) i s')).
  assert (G : forall k, k <> i -> getseq st' k = getseq st k).
  { intros. unfold getseq, st'; simpl. apply nth_upd_other; auto. }
  assert (GN : getseq st' i = s').
  { unfold getseq, st'; simpl. apply nth_upd_same; auto. }
  assert (LN : length (seqs st') = length (seqs st)).
  { unfold st'; simpl. apply upd_length. }
  assert (LH : length (heap st') = S (length (heap st))).
  { unfold st'; simpl. rewrite app_length; simpl; lia. }
  assert (R : forall b, b < length (heap st) -> rows_of st' b = rows_of st b).
  { intros. unfold rows_of, st'; simpl. rewrite getbuf_app_old; auto. }
  assert (RN : rows_of st' (length (heap st)) = rows x).
  { unfold rows_of, st'; simpl. rewrite getbuf_app_new; auto. }
  assert (OLD : forall k, k < length (seqs st) -> sbuf (getseq st k) < length (heap st)).
  { intros k Hk. apply (wf_seq _ W k Hk). }
  split.
  - intros b Hb'. rewrite LH in Hb'. destruct (Nat.eq_dec b (length (heap st))) as [->|Hne].
    + rewrite RN. unfold st'; simpl. rewrite getbuf_app_new. exact Hcap.
    + rewrite R by lia. unfold st'; simpl. rewrite getbuf_app_old by lia. apply (wf_heap _ W). lia.
  - intros b Hb'. rewrite LH in Hb'. destruct (Nat.eq_dec b (length (heap st))) as [->|Hne].
    + exists (offs s'), (lens s'). rewrite RN. split; [auto|split; [auto|]].
      intros k Hk Hs. rewrite LN in Hk. destruct (Nat.eq_dec k i) as [->|Hnk].
      * rewrite GN. split; [apply incl_refl|auto].
      * rewrite G in Hs by auto. specialize (OLD k Hk). lia.
    + destruct (wf_buf _ W b ltac:(lia)) as (cos & cls & C1 & C2 & C3).
      exists cos, cls. rewrite R by lia. split; [auto|split; [auto|]].
      intros k Hk Hs. rewrite LN in Hk. destruct (Nat.eq_dec k i) as [->|Hnk].
      * rewrite GN in Hs. lia.
      * rewrite G in * by auto. apply C3; auto.
  - intros k Hk. rewrite LN in Hk. destruct (Nat.eq_dec k i) as [->|Hnk].
    + rewrite GN. unfold seq_ok. rewrite Hb, LH, RN. repeat split; auto.
      apply (chain_length _ _ _ Hch).
    + rewrite G by auto. destruct (wf_seq _ W k Hk) as (S1 & S2 & S3).
      unfold seq_ok. rewrite LH. repeat split; auto. rewrite R by auto. exact S3.
  - intros a b Ha Hb' Hab Hs. rewrite LN in Ha, Hb'.
    destruct (Nat.eq_dec a i) as [->|Hna]; destruct (Nat.eq_dec b i) as [->|Hnb]; try lia.
    + rewrite GN, G in Hs by auto. specialize (OLD b Hb'). lia.
    + rewrite GN, G in Hs by auto. specialize (OLD a Ha). lia.
    + rewrite !G in * by auto. apply (wf_own _ W a b); auto.
Qed.

(* ---------------------------------------------------------------- (4) a buffer changes in place *)
Lemma rows_of_set_buf st b x b' : b < length (heap st) ->
  rows_of (set_buf st b x) b' = if b' =? b then rows x else rows_of st b'.
Proof.
  intros. unfold rows_of, set_buf, getbuf; simpl. rewrite nth_upd.
  apply Nat.ltb_lt in H. rewrite H, andb_true_r. destruct (b' =? b); reflexivity.
Qed.

Lemma wf_set_buf_gen st b x : wf st -> b < length (heap st) ->
  (Z.of_nat (length (rows x)) <= cap x)%Z ->
  (forall os ls, chain 0 os ls -> cend 0 os ls <= length (rows_of st b) ->
     (forall k, k < length (seqs st) -> sbuf (getseq st k) = b ->
        is_view (getseq st k) = false -> offs (getseq st k) = os /\ lens (getseq st k) = ls) ->
     cend 0 os ls <= length (rows x)) ->
  (forall k c, k < length (seqs st) -> sbuf (getseq st k) = b -> scache (getseq st k) = Some c ->
     c_next c <= length (rows x)) ->
  wf (set_buf st b x).
Proof.
  intros W Hb Hcap HW HC.
  assert (LH : length (heap (set_buf st b x)) = length (heap st)).
  { unfold set_buf; simpl. apply upd_length. }
  split.
  - intros b' Hb'. rewrite LH in Hb'. rewrite rows_of_set_buf by auto.
    unfold set_buf, getbuf; simpl. rewrite nth_upd.
    assert (E : (b <? length (heap st)) = true) by (apply Nat.ltb_lt; auto). rewrite E, andb_true_r.
    destruct (b' =? b); [exact Hcap|apply (wf_heap _ W b' Hb')].
  - intros b' Hb'. rewrite LH in Hb'.
    destruct (wf_buf _ W b' Hb') as (os & ls & C1 & C2 & C3).
    exists os, ls. split; [auto|]. rewrite rows_of_set_buf by auto.
    split; [|exact C3].
    destruct (Nat.eqb_spec b' b) as [->|Hne]; [|exact C2].
    apply HW; auto. intros k Hk Hs Hv. apply (proj2 (C3 k Hk Hs) Hv).
  - intros k Hk. change (getseq (set_buf st b x) k) with (getseq st k).
    change (length (seqs (set_buf st b x))) with (length (seqs st)) in Hk.
    destruct (wf_seq _ W k Hk) as (S1 & S2 & S3).
    unfold seq_ok. rewrite LH. split; [auto|split; [auto|]].
    destruct (scache (getseq st k)) as [c|] eqn:Ec; [|exact I].
    rewrite rows_of_set_buf by auto.
    destruct (Nat.eqb_spec (sbuf (getseq st k)) b) as [Eb|Hne]; [|exact S3].
    destruct S3 as (A1 & A2 & A3 & A4 & A5 & A6). repeat split; auto.
    apply (HC k c Hk Eb Ec).
  - exact (wf_own _ W).
Qed.

Lemma wf_set_buf_ge st b x : wf st -> b < length (heap st) ->
  (Z.of_nat (length (rows x)) <= cap x)%Z -> length (rows_of st b) <= length (rows x) ->
  wf (set_buf st b x).
Proof.
  intros W Hb Hcap Hge. apply wf_set_buf_gen; auto.
  - intros. lia.
  - intros k c Hk Hs Hc. destruct (wf_seq _ W k Hk) as (_ & _ & S3). rewrite Hc, Hs in S3.
    destruct S3 as (_ & _ & _ & _ & A5 & _). lia.
Qed.

Lemma wf_set_buf_owner st i x : wf st -> i < length (seqs st) -> is_view (getseq st i) = false ->
  (Z.of_nat (length (rows x)) <= cap x)%Z ->
  cend 0 (offs (getseq st i)) (lens (getseq st i)) <= length (rows x) ->
  match scache (getseq st i) with Some c => c_next c <= length (rows x) | None => True end ->
  wf (set_buf st (sbuf (getseq st i)) x).
Proof.
  intros W Hi Hv Hcap Hce Hc.
  assert (Hb : sbuf (getseq st i) < length (heap st)) by apply (wf_seq _ W i Hi).
  apply wf_set_buf_gen; auto.
  - intros os ls C1 C2 C3. destruct (C3 i Hi eq_refl Hv) as (<- & <-). exact Hce.
  - intros k c Hk Hs Hck. destruct (Nat.eq_dec k i) as [->|Hne].
    + rewrite Hck in Hc. exact Hc.
    + destruct (wf_seq _ W k Hk) as (_ & _ & S3). rewrite Hck in S3. destruct S3 as (A1 & _).
      destruct (wf_own _ W k i Hk Hi Hne Hs); congruence.
Qed.

(* ---------------------------------------------------------------- consequences of wf *)
Lemma wf_chain st i : wf st -> i < length (seqs st) -> is_view (getseq st i) = false ->
  chain 0 (offs (getseq st i)) (lens (getseq st i)) /\
  cend 0 (offs (getseq st i)) (lens (getseq st i)) <= length (rows_of st (sbuf (getseq st i))).
Proof.
  intros W Hi Hv. destruct (wf_seq _ W i Hi) as (S1 & _).
  destruct (wf_buf _ W _ S1) as (os & ls & C1 & C2 & C3).
  destruct (proj2 (C3 i Hi eq_refl) Hv) as (-> & ->). auto.
Qed.

Lemma wf_pair_bound st i o l : wf st -> i < length (seqs st) -> In (o, l) (pairs (getseq st i)) ->
  0 < l /\ o + l <= length (rows_of st (sbuf (getseq st i))).
Proof.
  intros W Hi Hin. destruct (wf_seq _ W i Hi) as (S1 & _).
  destruct (wf_buf _ W _ S1) as (os & ls & C1 & C2 & C3).
  apply (proj1 (C3 i Hi eq_refl)) in Hin.
  destruct (chain_in _ _ _ _ _ C1 Hin) as (_ & ? & ?). lia.
Qed.

(* two elements of sequences on the same buffer are the same cell or disjoint *)
Lemma wf_cells st i j p q : wf st -> i < length (seqs st) -> j < length (seqs st) ->
  sbuf (getseq st i) = sbuf (getseq st j) ->
  In p (pairs (getseq st i)) -> In q (pairs (getseq st j)) ->
  p = q \/ fst p + snd p <= fst q \/ fst q + snd q <= fst p.
Proof.
  intros W Hi Hj Hs Hp Hq. destruct (wf_seq _ W i Hi) as (S1 & _).
  destruct (wf_buf _ W _ S1) as (os & ls & C1 & C2 & C3).
  apply (proj1 (C3 i Hi eq_refl)) in Hp. apply (proj1 (C3 j Hj (eq_sym Hs))) in Hq.
  destruct p, q. apply (chain_disjoint _ _ _ _ _ _ _ C1 Hp Hq).
Qed.

(* ---------------------------------------------------------------- (5) fields of sequence i change, same buffer *)
Lemma wf_set_seq st i s' : wf st -> i < length (seqs st) ->
  sbuf s' = sbuf (getseq st i) -> is_view s' = is_view (getseq st i) ->
  (is_view (getseq st i) = true -> offs s' = offs (getseq st i) /\ lens s' = lens (getseq st i)) ->
  (is_view (getseq st i) = false ->
     exists eo el, offs s' = offs (getseq st i) ++ eo /\ lens s' = lens (getseq st i) ++ el /\
       chain 0 (offs s') (lens s') /\
       cend 0 (offs s') (lens s') <= length (rows_of st (sbuf (getseq st i)))) ->
  match scache s' with None => True
                  | Some c => cache_ok (length (rows_of st (sbuf (getseq st i)))) s' c end ->
  wf (set_seq st i s').
Proof.
  intros W Hi Hb Hv HV HN Hc.
  set (s := getseq st i) in *.
  assert (G : forall k, k <> i -> getseq (set_seq st i s') k = getseq st k).
  { intros. unfold getseq, set_seq; simpl. apply nth_upd_other; auto. }
  assert (GN : getseq (set_seq st i s') i = s').
  { unfold getseq, set_seq; simpl. apply nth_upd_same; auto. }
  assert (LN : length (seqs (set_seq st i s')) = length (seqs st)).
  { unfold set_seq; simpl. apply upd_length. }
  destruct (wf_seq _ W i Hi) as (S1 & S2 & S3). fold s in S1, S2, S3.
  split.
  - exact (wf_heap _ W).
  - intros b Hb'. change (heap (set_seq st i s')) with (heap st) in Hb'.
    change (rows_of (set_seq st i s') b) with (rows_of st b).
    destruct (wf_buf _ W b Hb') as (os & ls & C1 & C2 & C3).
    destruct (Nat.eq_dec b (sbuf s)) as [->|Hne].
    + destruct (is_view s) eqn:Ev.
      * destruct (HV eq_refl) as (E1 & E2).
        exists os, ls. split; [auto|split; [auto|]]. intros k Hk Hs. rewrite LN in Hk.
        destruct (Nat.eq_dec k i) as [->|Hnk].
        -- rewrite GN. unfold pairs. rewrite E1, E2, Hv. split; [|discriminate].
           apply (proj1 (C3 i Hi eq_refl)).
        -- rewrite G in * by auto. apply C3; auto.
      * destruct (HN eq_refl) as (eo & el & E1 & E2 & E3 & E4).
        destruct (proj2 (C3 i Hi eq_refl) Ev) as (<- & <-).
        exists (offs s'), (lens s'). split; [auto|split; [auto|]]. intros k Hk Hs. rewrite LN in Hk.
        destruct (Nat.eq_dec k i) as [->|Hnk].
        -- rewrite GN. split; [apply incl_refl|auto].
        -- rewrite G in * by auto. split.
           ++ rewrite E1, E2. eapply incl_tran; [apply (proj1 (C3 k Hk Hs))|].
              apply incl_combine_app; auto.
           ++ intros Hvk. destruct (wf_own _ W k i Hk Hi Hnk Hs); unfold s in *; congruence.
    + exists os, ls. split; [auto|split; [auto|]]. intros k Hk Hs. rewrite LN in Hk.
      destruct (Nat.eq_dec k i) as [->|Hnk].
      * rewrite GN in Hs. congruence.
      * rewrite G in * by auto. apply C3; auto.
  - intros k Hk. rewrite LN in Hk. destruct (Nat.eq_dec k i) as [->|Hnk].
    + rewrite GN. unfold seq_ok. rewrite Hb. change (heap (set_seq st i s')) with (heap st).
      change (rows_of (set_seq st i s') (sbuf s)) with (rows_of st (sbuf s)).
      split; [auto|split; [|exact Hc]].
      destruct (is_view s) eqn:Ev.
      * destruct (HV eq_refl) as (-> & ->). auto.
      * destruct (HN eq_refl) as (eo & el & E1 & E2 & E3 & E4). apply (chain_length _ _ _ E3).
    + rewrite G by auto. exact (wf_seq _ W k Hk).
  - intros a b Ha Hb' Hab Hs. rewrite LN in Ha, Hb'.
    destruct (Nat.eq_dec a i) as [->|Hna]; destruct (Nat.eq_dec b i) as [->|Hnb]; try lia.
    + rewrite GN, G in * by auto. rewrite Hv. rewrite Hb in Hs. apply (wf_own _ W i b); auto.
    + rewrite GN, G in * by auto. rewrite Hv. rewrite Hb in Hs. apply (wf_own _ W a i); auto.
    + rewrite !G in * by auto. apply (wf_own _ W a b); auto.
Qed.
