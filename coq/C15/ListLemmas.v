(* C15/ListLemmas.v — list facts used by the C15 proofs: upd, slice/write, cumulative offsets,
   ascending chains of (offset, length) pairs and _get_next_offset on them. *)
From Coq Require Import ZArith List Bool Arith Lia.
From NV Require Import C15.Model.
Import ListNotations.

(* ---------------------------------------------------------------- upd / nth *)
Lemma upd_length {A} (l : list A) k x : length (upd l k x) = length l.
Proof. revert k; induction l; destruct k; simpl; auto. Qed.

Lemma nth_upd {A} (l : list A) k j x d :
  nth j (upd l k x) d = if (j =? k) && (k <? length l) then x else nth j l d.
Proof.
  revert k j; induction l as [|a l IH]; intros k j.
  - simpl. destruct k, j; simpl; try rewrite andb_false_r; auto.
  - destruct k, j; simpl; auto.
    rewrite IH. reflexivity.
Qed.

Lemma nth_upd_same {A} (l : list A) k x d : k < length l -> nth k (upd l k x) d = x.
Proof. intros. rewrite nth_upd, Nat.eqb_refl. apply Nat.ltb_lt in H. rewrite H. reflexivity. Qed.

Lemma nth_upd_other {A} (l : list A) k j x d : j <> k -> nth j (upd l k x) d = nth j l d.
Proof. intros. rewrite nth_upd. apply Nat.eqb_neq in H. rewrite H. reflexivity. Qed.

Lemma upd_ge {A} (l : list A) k x : length l <= k -> upd l k x = l.
Proof. revert k; induction l; destruct k; simpl; intros; auto; try lia. f_equal. apply IHl. lia. Qed.

Lemma nth_app_new {A} (l : list A) x d : nth (length l) (l ++ [x]) d = x.
Proof. rewrite app_nth2, Nat.sub_diag; auto. Qed.

Lemma nth_app_old {A} (l : list A) x k d : k < length l -> nth k (l ++ [x]) d = nth k l d.
Proof. intros. apply app_nth1; auto. Qed.

(* ---------------------------------------------------------------- slice / write *)
Lemma write_length o e r : length (write o e r) = Nat.max (length r) (o + length e).
Proof.
  unfold write. rewrite !app_length, firstn_length, app_length, repeat_length, skipn_length. lia.
Qed.

Lemma write_length_in o e r : o + length e <= length r -> length (write o e r) = length r.
Proof. intros. rewrite write_length. lia. Qed.

Lemma firstn_app_pad (o : nat) (r : list Z) k : o <= length r -> firstn o (r ++ repeat 0%Z k) = firstn o r.
Proof. intros. rewrite firstn_app. replace (o - length r) with 0 by lia. simpl. apply app_nil_r. Qed.

(* reading the range just written *)
Lemma slice_write_same o e r : slice o (length e) (write o e r) = e.
Proof.
  unfold slice, write.
  assert (L : length (firstn o (r ++ repeat 0%Z (o - length r))) = o).
  { rewrite firstn_length, app_length, repeat_length. lia. }
  rewrite skipn_app, L, Nat.sub_diag. simpl.
  rewrite skipn_all2 by lia. simpl.
  rewrite firstn_app, Nat.sub_diag. simpl. rewrite firstn_all. apply app_nil_r.
Qed.

Lemma slice_app_l o l (a b : list Z) : o + l <= length a -> slice o l (a ++ b) = slice o l a.
Proof.
  intros. unfold slice. rewrite skipn_app, firstn_app, skipn_length.
  replace (o - length a) with 0 by lia. replace (l - (length a - o)) with 0 by lia.
  simpl. apply app_nil_r.
Qed.

Lemma slice_firstn o l n r : o + l <= n -> slice o l (firstn n r) = slice o l r.
Proof.
  intros. destruct (le_lt_dec n (length r)).
  - rewrite <- (firstn_skipn n r) at 2. symmetry. apply slice_app_l. rewrite firstn_length. lia.
  - rewrite firstn_all2 by lia. reflexivity.
Qed.

(* reading a range below the written one *)
Lemma slice_write_below o l o' e r : o + l <= o' -> o + l <= length r ->
  slice o l (write o' e r) = slice o l r.
Proof.
  intros H1 H2. unfold write.
  rewrite slice_app_l by (rewrite firstn_length, app_length, repeat_length; lia).
  rewrite slice_firstn by lia. apply slice_app_l. lia.
Qed.

Lemma skipn_skipn' {A} a b (l : list A) : skipn a (skipn b l) = skipn (b + a) l.
Proof. revert l; induction b; intros; simpl; auto. destruct l; simpl; auto. destruct a; auto. Qed.

(* reading a range above the written one (inside the written prefix) *)
Lemma slice_write_above o l o' e r : o' + length e <= o -> o' + length e <= length r ->
  slice o l (write o' e r) = slice o l r.
Proof.
  intros H1 H2. unfold slice, write.
  rewrite firstn_app_pad by lia.
  assert (L1 : length (firstn o' r) = o') by (rewrite firstn_length; lia).
  rewrite skipn_app, L1.
  rewrite skipn_all2 with (l := firstn o' r) by lia. simpl.
  rewrite skipn_app.
  rewrite skipn_all2 with (l := e) by lia. simpl.
  rewrite skipn_skipn'. f_equal. f_equal. lia.
Qed.

Lemma slice_length o l r : o + l <= length r -> length (slice o l r) = l.
Proof. intros. unfold slice. rewrite firstn_length, skipn_length. lia. Qed.

Lemma ztake_length n r : (0 <= n)%Z -> length (ztake n r) = Nat.min (length r) (Z.to_nat n).
Proof.
  intros. unfold ztake. destruct (Z.leb_spec (Z.of_nat (length r)) n).
  - lia.
  - rewrite firstn_length. lia.
Qed.

Lemma slice_ztake o l n r : (Z.of_nat (o + l) <= n)%Z -> slice o l (ztake n r) = slice o l r.
Proof.
  intros. unfold ztake. destruct (Z.leb_spec (Z.of_nat (length r)) n); auto.
  apply slice_firstn. lia.
Qed.

(* ---------------------------------------------------------------- cumulative offsets *)
Lemma cum_from_length a ls : length (cum_from a ls) = length ls.
Proof. revert a; induction ls; simpl; auto. Qed.

Lemma sum_app a b : sum (a ++ b) = sum a + sum b.
Proof. induction a; simpl; lia. Qed.

(* the elements of a compact buffer are read back *)
Lemma elems_of_compact (els : list (list Z)) pre post :
  elems_of (pre ++ concat els ++ post) (cum_from (length pre) (map (@length Z) els)) (map (@length Z) els) = els.
Proof.
  revert pre. induction els as [|e els IH]; intros pre; simpl; auto.
  unfold elems_of in *. simpl. f_equal.
  - unfold slice. rewrite skipn_app, skipn_all2, Nat.sub_diag by lia. simpl.
    rewrite <- app_assoc, firstn_app, Nat.sub_diag, firstn_all. simpl. apply app_nil_r.
  - specialize (IH (pre ++ e)). rewrite app_length in IH. rewrite <- !app_assoc in IH.
    rewrite <- app_assoc. exact IH.
Qed.

Lemma concat_length_sum (els : list (list Z)) : length (concat els) = sum (map (@length Z) els).
Proof. induction els; simpl; auto. rewrite app_length. lia. Qed.

(* ---------------------------------------------------------------- chains *)
(* ascending, pairwise disjoint, positive-length (offset, length) pairs starting at or above lo *)
Fixpoint chain (lo : nat) (os ls : list nat) : Prop :=
  match os, ls with
  | [], [] => True
  | o :: os', l :: ls' => lo <= o /\ 0 < l /\ chain (o + l) os' ls'
  | _, _ => False
  end.
(* end of the last element (lo when empty) *)
Fixpoint cend (lo : nat) (os ls : list nat) : nat :=
  match os, ls with
  | o :: os', l :: ls' => cend (o + l) os' ls'
  | _, _ => lo
  end.

Lemma chain_length lo os ls : chain lo os ls -> length os = length ls.
Proof. revert lo ls; induction os; destruct ls; simpl; intros; try tauto. f_equal. eapply IHos. apply H. Qed.

Lemma chain_weaken lo lo' os ls : lo' <= lo -> chain lo os ls -> chain lo' os ls.
Proof. destruct os, ls; simpl; auto. intuition lia. Qed.

Lemma chain_cend_ge lo os ls : chain lo os ls -> lo <= cend lo os ls.
Proof.
  revert lo ls; induction os; destruct ls; simpl; intros; try lia.
  destruct H as (? & ? & H). apply IHos in H. lia.
Qed.

Lemma chain_in lo os ls o l : chain lo os ls -> In (o, l) (combine os ls) ->
  lo <= o /\ 0 < l /\ o + l <= cend lo os ls.
Proof.
  revert lo ls; induction os as [|a os IH]; destruct ls as [|b ls]; simpl; intros H Hin; try tauto.
  destruct H as (H1 & H2 & H3). destruct Hin as [E|Hin].
  - inversion E; subst. pose proof (chain_cend_ge _ _ _ H3). lia.
  - destruct (IH _ _ H3 Hin) as (? & ? & ?). lia.
Qed.

(* two elements of a chain are the same element or disjoint *)
Lemma chain_disjoint lo os ls o1 l1 o2 l2 : chain lo os ls ->
  In (o1, l1) (combine os ls) -> In (o2, l2) (combine os ls) ->
  (o1, l1) = (o2, l2) \/ o1 + l1 <= o2 \/ o2 + l2 <= o1.
Proof.
  revert lo ls; induction os as [|a os IH]; destruct ls as [|b ls]; simpl; intros H A B; try tauto.
  destruct H as (H1 & H2 & H3). destruct A as [A|A], B as [B|B].
  - left. congruence.
  - inversion A; subst. destruct (chain_in _ _ _ _ _ H3 B). lia.
  - inversion B; subst. destruct (chain_in _ _ _ _ _ H3 A). lia.
  - eapply IH; eauto.
Qed.

Lemma chain_app lo os ls o l : chain lo os ls -> cend lo os ls <= o -> 0 < l ->
  chain lo (os ++ [o]) (ls ++ [l]).
Proof.
  revert lo ls; induction os as [|a os IH]; destruct ls as [|b ls]; intros H H0 H1; simpl in *; try tauto.
  destruct H as (? & ? & ?). repeat split; auto.
Qed.

Lemma cend_app lo os ls o l : length os = length ls -> cend lo (os ++ [o]) (ls ++ [l]) = o + l.
Proof. revert lo ls; induction os; destruct ls; simpl; intros; try discriminate; auto. Qed.

Lemma chain_cum a ls : Forall (fun l => 0 < l) ls -> chain a (cum_from a ls) ls.
Proof.
  revert a; induction ls; simpl; intros; auto.
  inversion H; subst. repeat split; auto.
Qed.

Lemma cend_cum a ls : cend a (cum_from a ls) ls = a + sum ls.
Proof. revert a; induction ls; simpl; intros; auto. rewrite IHls. lia. Qed.

(* _get_next_offset on a chain is the end of the last element *)
Lemma argmax_from_chain bi bv i os ls : chain (S bv) os ls -> os <> [] ->
  argmax_from bi bv i os = i + length os - 1.
Proof.
  revert bi bv i ls; induction os as [|o os IH]; intros bi bv i ls H Hne; [congruence|].
  destruct ls as [|l ls]; simpl in H; [tauto|]. destruct H as (H1 & H2 & H3).
  simpl. assert (E : (bv <? o) = true) by (apply Nat.ltb_lt; lia). rewrite E.
  destruct os as [|o2 os].
  - simpl. lia.
  - rewrite IH with (ls := ls); [simpl; lia| |congruence].
    eapply chain_weaken; [|exact H3]. lia.
Qed.

Lemma last_chain lo os ls : chain lo os ls -> os <> [] ->
  nth (length os - 1) os 0 + nth (length os - 1) ls 0 = cend lo os ls.
Proof.
  revert lo ls; induction os as [|o os IH]; intros lo ls H Hne; [congruence|].
  destruct ls as [|l ls]; simpl in H; [tauto|]. destruct H as (H1 & H2 & H3).
  destruct os as [|o2 os].
  - destruct ls; simpl in *; [reflexivity|tauto].
  - assert (N : o2 :: os <> []) by congruence.
    specialize (IH _ _ H3 N).
    destruct ls as [|l2 ls]; [simpl in H3; tauto|].
    simpl length in *. replace (S (S (length os)) - 1) with (S (length os)) by lia.
    replace (S (length os) - 1) with (length os) in IH by lia.
    change (nth (S (length os)) (o :: o2 :: os) 0) with (nth (length os) (o2 :: os) 0).
    change (nth (S (length os)) (l :: l2 :: ls) 0) with (nth (length os) (l2 :: ls) 0).
    rewrite IH. reflexivity.
Qed.

Lemma next_offset_chain lo os ls : chain lo os ls -> next_offset os ls = cend 0 os ls.
Proof.
  intros H. unfold next_offset. destruct os as [|o os]; [destruct ls; reflexivity|].
  assert (N : o :: os <> []) by congruence.
  rewrite <- (last_chain 0 (o :: os) ls); [|eapply chain_weaken; [|exact H]; lia|exact N].
  destruct ls as [|l ls]; simpl in H; [tauto|]. destruct H as (H1 & H2 & H3).
  assert (E : argmax (o :: os) = length (o :: os) - 1).
  { unfold argmax. destruct os as [|o2 os]; [reflexivity|].
    rewrite argmax_from_chain with (ls := ls); [simpl; lia| |congruence].
    eapply chain_weaken; [|exact H3]. lia. }
  rewrite E. reflexivity.
Qed.

Lemma cend_indep lo lo' os ls : os <> [] -> length os = length ls -> cend lo os ls = cend lo' os ls.
Proof. destruct os, ls; simpl; intros; try congruence; discriminate. Qed.
