(* C15/Extract.v — extraction of the executable model (ExtrOcamlBasic only) *)
Require Extraction. Require ExtrOcamlBasic.
From NV Require Import C15.Model.
Extraction Language OCaml.
Extraction "c15_model.ml" init run step observe exec default_bufbytes.
