(* C15/Pending.v — the pending elements of a cached build (append(cache_build=True) ... before
   finalize_append()) as part of the observable-after-finalize state: no operation on another
   object, and no assignment / in-place operator at all, changes them. *)
From Coq Require Import ZArith List Bool Arith Lia.
From NV Require Import C15.Model C15.ListLemmas C15.Invariant C15.Steps C15.Steps2 C15.Lemmas C15.Lemmas2.
Import ListNotations.

(* the elements appended to the build cache and not yet visible *)
Definition pendl (st : state) (k : nat) : list (list Z) :=
  let s := getseq st k in
  match scache s with
  | None => []
  | Some c => elems_of (rows_of st (sbuf s)) (skipn (length (offs s)) (c_offs c)) (skipn (length (offs s)) (c_lens c))
  end.
Definition pend (st : state) (k : nat) : option (list (list Z)) :=
  match scache (getseq st k) with None => None | Some _ => Some (pendl st k) end.

Lemma elems_of_app2 r a b c d : length a = length b ->
  elems_of r (a ++ c) (b ++ d) = elems_of r a b ++ elems_of r c d.
Proof. intros. unfold elems_of. rewrite combine_app' by auto. apply map_app. Qed.

Lemma skipn_app_exact {A} (a b : list A) n : length a = n -> skipn n (a ++ b) = b.
Proof. intros <-. rewrite skipn_app, skipn_all, Nat.sub_diag. reflexivity. Qed.

Lemma F_split st k : wf st -> k < length (seqs st) -> F st k = C st k ++ pendl st k.
Proof.
  intros W Hk. unfold F, full, full_offs, full_lens, C, contents, pendl.
  destruct (wf_seq _ W k Hk) as (_ & S2 & S3).
  destruct (scache (getseq st k)) as [c|]; [|rewrite app_nil_r; reflexivity].
  destruct S3 as (_ & (eo & el & E1 & E2) & _).
  rewrite E1, E2. rewrite (skipn_app_exact _ eo) by auto. rewrite (skipn_app_exact _ el) by auto.
  apply elems_of_app2; auto.
Qed.

(* elements of a chain after a prefix start at or after the end of the prefix *)
Lemma chain_suffix lo (a b eo el : list nat) o l : length a = length b -> chain lo (a ++ eo) (b ++ el) ->
  In (o, l) (combine eo el) -> cend lo a b <= o.
Proof.
  revert lo b; induction a as [|x a IH]; destruct b as [|y b]; simpl; intros HL H Hin; try discriminate.
  - destruct (chain_in _ _ _ _ _ H Hin). lia.
  - destruct H as (_ & _ & H). apply (IH (x + y) b); auto.
Qed.

(* ---------------------------------------------------------------- writes into elements leave every other range alone *)
Definition qstable (st0 s : state) : Prop :=
  stable st0 s /\
  (forall b, length (rows_of s b) = length (rows_of st0 b)) /\
  (forall b o l, o + l <= length (rows_of st0 b) ->
     (forall x c, x < length (seqs st0) -> sbuf (getseq st0 x) = b -> In c (pairs (getseq st0 x)) ->
                  fst c + snd c <= o \/ o + l <= fst c) ->
     slice o l (rows_of s b) = slice o l (rows_of st0 b)).

Lemma qstable_refl st : wf st -> qstable st st.
Proof. intros W. split; [apply stable_refl; auto|split; auto]. Qed.

Lemma qstable_write st0 s i o1 l1 e : qstable st0 s -> i < length (seqs st0) ->
  In (o1, l1) (pairs (getseq st0 i)) -> length e = l1 ->
  qstable st0 (write_buf s (sbuf (getseq st0 i)) o1 e).
Proof.
  intros (HS & HL & HQ) Hi Hin He.
  pose proof (stable_write st0 s i o1 l1 e HS Hi Hin He) as HS1.
  pose proof (stable_in_bounds st0 s i o1 l1 HS Hi Hin) as HB.
  destruct HS as (W & ES & EH).
  assert (Hb : sbuf (getseq st0 i) < length (heap s)).
  { rewrite <- (getseq_seqs_eq st0 s i ES). apply (wf_seq _ W i). rewrite ES; auto. }
  set (bi := sbuf (getseq st0 i)) in *.
  assert (RW : forall b, rows_of (write_buf s bi o1 e) b = if b =? bi then write o1 e (rows_of s bi) else rows_of s b).
  { intros b. unfold write_buf. rewrite rows_of_set_buf by auto. destruct (b =? bi); reflexivity. }
  split; [exact HS1|split].
  - intros b. rewrite RW. destruct (Nat.eqb_spec b bi) as [->|]; [|apply HL].
    rewrite write_length_in by (rewrite He; exact HB). apply HL.
  - intros b o l Hol Hd. rewrite RW. destruct (Nat.eqb_spec b bi) as [->|]; [|apply HQ; auto].
    rewrite <- (HQ bi o l Hol Hd).
    destruct (Hd i (o1, l1) Hi eq_refl Hin) as [D|D]; simpl in D.
    + apply slice_write_above; rewrite ?He; [lia|exact HB].
    + apply slice_write_below; [lia|rewrite HL; lia].
Qed.

Lemma qstable_fill_fold st0 i v T : forall st, qstable st0 st -> i < length (seqs st0) ->
  incl T (pairs (getseq st0 i)) ->
  qstable st0 (fold_left (fun a p => fill_buf a (sbuf (getseq st0 i)) (fst p) (snd p) v) T st).
Proof.
  intros st HS Hi Hincl. apply fold_inv; auto.
  intros s (o, l) Hin Hs. unfold fill_buf. simpl. apply (qstable_write st0 s i o l); auto. apply repeat_length.
Qed.

Lemma qstable_map_elems st0 i f T : forall st, qstable st0 st -> i < length (seqs st0) ->
  incl T (pairs (getseq st0 i)) ->
  qstable st0 (map_elems st (sbuf (getseq st0 i)) f T).
Proof.
  intros st HS Hi Hincl. unfold map_elems. apply fold_inv; auto.
  intros s (o, l) Hin Hs. simpl. apply (qstable_write st0 s i o l); auto.
  rewrite map_length. apply slice_length. apply (stable_in_bounds st0 s i o l); auto. apply Hs.
Qed.

Lemma qstable_gen_seq st0 i h jb :
  (forall l a b e, h l a b = Some e -> length a = l -> length e = l) ->
  forall dst src s, qstable st0 s -> i < length (seqs st0) -> incl dst (pairs (getseq st0 i)) ->
  qstable st0 (fst (gen_seq h s (sbuf (getseq st0 i)) dst jb src)).
Proof.
  intros Hh. induction dst as [|(o1, l1) dst IH]; intros src s HS Hi Hincl; [exact HS|].
  destruct src as [|(o2, l2) src]; [exact HS|]. cbn [gen_seq].
  destruct (h l1 _ _) as [e|] eqn:EH; [|exact HS].
  apply IH; auto; [|intros y Hy; apply Hincl; right; auto].
  assert (Hin : In (o1, l1) (pairs (getseq st0 i))) by (apply Hincl; left; auto).
  apply (qstable_write st0 s i o1 l1); auto.
  apply (Hh _ _ _ _ EH). apply slice_length. apply (stable_in_bounds st0 s i o1 l1); auto. apply HS.
Qed.

(* ---------------------------------------------------------------- pending elements are such ranges *)
Lemma pend_qstable st0 s : wf st0 -> qstable st0 s -> forall k, k < length (seqs st0) -> pend s k = pend st0 k.
Proof.
  intros W (HS & HL & HQ) k Hk. destruct HS as (Ws & ES & EH).
  unfold pend, pendl. rewrite (getseq_seqs_eq st0 s k ES).
  destruct (wf_seq _ W k Hk) as (S1 & S2 & S3).
  destruct (scache (getseq st0 k)) as [c|] eqn:Ec; [|reflexivity]. f_equal.
  destruct S3 as (A1 & (eo & el & E1 & E2) & A3 & A4 & A5 & _).
  rewrite E1, E2. rewrite (skipn_app_exact _ eo) by auto. rewrite (skipn_app_exact _ el) by auto.
  apply elems_of_ext. intros o l Hin.
  assert (Hc : In (o, l) (combine (c_offs c) (c_lens c))).
  { rewrite E1, E2, combine_app' by auto. apply in_or_app. right; auto. }
  destruct (chain_in _ _ _ _ _ A3 Hc) as (_ & _ & He).
  apply HQ; [lia|].
  (* every cell of the buffer is an element of the owner's visible chain, which ends before o *)
  intros x cx Hx Hsx Hcx.
  destruct (wf_buf _ W _ S1) as (os & ls & B1 & B2 & B3).
  destruct (proj2 (B3 k Hk eq_refl) A1) as (F1 & F2).
  apply (proj1 (B3 x Hx Hsx)) in Hcx. rewrite <- F1, <- F2 in Hcx.
  destruct cx as (ox, lx). cbn [fst snd].
  assert (P1 : chain 0 (offs (getseq st0 k)) (lens (getseq st0 k))) by (rewrite F1, F2; auto).
  destruct (chain_in _ _ _ _ _ P1 Hcx) as (_ & _ & Hx2).
  rewrite E1, E2 in A3. pose proof (chain_suffix 0 _ _ _ _ o l S2 A3 Hin). left. lia.
Qed.

(* ---------------------------------------------------------------- assignments and in-place operators *)
Definition writes (o : op) : bool :=
  match o with
  | OSetInt _ _ _ | OSetIntRows _ _ _ | OSetIdx _ _ _ => true
  | OOp _ _ inplace _ | OOpSeq _ _ _ inplace _ => inplace
  | _ => false
  end.

Lemma write_qstable st o : wf st -> writes o = true -> qstable st (fst (step st o)).
Proof.
  intros W Hw. pose proof (qstable_refl st W) as Q0.
  destruct o; try discriminate; unfold step.
  - (* seq[k] = scalar *)
    destruct (is_live st i) eqn:L; [|exact Q0]. apply is_live_lt in L.
    destruct (norm_index _ k) as [p|] eqn:N; [|exact Q0]. apply norm_index_lt in N. cbn [fst].
    unfold fill_buf. apply (qstable_write st st i _ (nth p (lens (getseq st i)) 0)); auto using pairs_nth. apply repeat_length.
  - (* seq[k] = rows *)
    destruct (is_live st i) eqn:L; [|exact Q0]. apply is_live_lt in L.
    destruct (norm_index _ k) as [p|] eqn:N; [|exact Q0]. apply norm_index_lt in N.
    rewrite assign_rows_assigned.
    destruct (rows_assigned _ vs) as [e|] eqn:ER; [|exact Q0]. cbn [fst].
    apply (qstable_write st st i _ (nth p (lens (getseq st i)) 0)); auto using pairs_nth.
    apply (rows_assigned_length _ _ _ ER).
  - (* seq[idx] = ... *)
    destruct (is_live st i) eqn:L; [|exact Q0]. apply is_live_lt in L.
    destruct (positions _ ix) as [ps|] eqn:P; [|exact Q0].
    apply positions_bound in P. destruct (wf_seq _ W i L) as (_ & S2 & _).
    assert (INC : incl (combine (pick 0 (offs (getseq st i)) ps) (pick 0 (lens (getseq st i)) ps)) (pairs (getseq st i)))
      by (apply incl_pick; auto).
    destruct v as [x|j].
    + cbn [fst]. apply (qstable_fill_fold st i x _ st Q0 L INC).
    + destruct (is_live st j); [|exact Q0].
      destruct (negb _); [exact Q0|]. destruct (negb _); [exact Q0|].
      rewrite assign_seq_gen.
      pose proof (qstable_gen_seq st i h_assign (sbuf (getseq st j)) h_assign_len _
                    (combine (offs (getseq st j)) (lens (getseq st j))) st Q0 L INC) as Q.
      destruct (gen_seq _ _ _ _ _ _) as [st1 [e|]]; exact Q.
  - (* in-place operator, scalar operand *)
    simpl in Hw. subst inplace.
    destruct (is_live st i) eqn:L; [|exact Q0]. apply is_live_lt in L.
    destruct (offs (getseq st i)) as [|o0 os0] eqn:EO; [exact Q0|]. rewrite <- EO. cbn [fst].
    apply (qstable_map_elems st i (apply_fn f) _ st Q0 L (incl_refl _)).
  - (* in-place operator, sequence operand *)
    simpl in Hw. subst inplace.
    destruct (is_live st i && is_live st j) eqn:L; [|exact Q0].
    apply andb_prop in L. destruct L as (L & _). apply is_live_lt in L.
    destruct (negb _); [exact Q0|]. destruct (negb _); [exact Q0|].
    destruct (offs (getseq st i)) as [|o0 os0] eqn:EO; [exact Q0|]. rewrite <- EO.
    rewrite op_seq_inplace_gen.
    pose proof (qstable_gen_seq st i (h_op (apply_fn2 g)) (sbuf (getseq st j)) (h_op_len _) _
                  (combine (offs (getseq st j)) (lens (getseq st j))) st Q0 L (incl_refl _)) as Q.
    destruct (gen_seq _ _ _ _ _ _) as [st1 [e|]]; exact Q.
Qed.

Theorem write_pend st o : wf st -> writes o = true ->
  seqs (fst (step st o)) = seqs st /\ forall k, k < length (seqs st) -> pend (fst (step st o)) k = pend st k.
Proof.
  intros W Hw. pose proof (write_qstable st o W Hw) as Q. split; [apply Q|].
  intros k Hk. apply pend_qstable; auto.
Qed.

(* ---------------------------------------------------------------- growth of another object *)
Lemma isolated_pend st st' i : wf st -> i < length (seqs st) ->
  (forall K, (is_view (getseq st i) = false -> K <= vis_end (getseq st i)) -> frame st st' i K) ->
  forall j, j <> i -> j < length (seqs st) -> pend st' j = pend st j.
Proof.
  intros W Hi HF j Hji Hj.
  destruct (wf_seq _ W j Hj) as (S1 & S2 & S3).
  set (K := if is_view (getseq st i) then length (rows_of st (sbuf (getseq st j))) else vis_end (getseq st i)).
  assert (HK : is_view (getseq st i) = false -> K <= vis_end (getseq st i)) by (intros E; unfold K; rewrite E; lia).
  destruct (HF K HK) as (_ & _ & F3 & _ & F5).
  unfold pend, pendl. rewrite F3 by auto.
  destruct (scache (getseq st j)) as [c|] eqn:Ec; [|reflexivity]. f_equal.
  destruct S3 as (A1 & (eo & el & E1 & E2) & A3 & A4 & A5 & _).
  rewrite E1, E2. rewrite (skipn_app_exact _ eo) by auto. rewrite (skipn_app_exact _ el) by auto.
  apply elems_of_ext. intros o l Hin.
  assert (Hc : In (o, l) (combine (c_offs c) (c_lens c))).
  { rewrite E1, E2, combine_app' by auto. apply in_or_app. right; auto. }
  destruct (chain_in _ _ _ _ _ A3 Hc) as (_ & _ & He).
  apply (F5 (sbuf (getseq st j)) o l S1); [lia|].
  intros E. unfold K. destruct (is_view (getseq st i)) eqn:Ev; [lia|].
  destruct (wf_own _ W j i Hj Hi Hji E); congruence.
Qed.

Theorem grow_pend st o i : wf st -> grows o i ->
  forall j, j <> i -> j < length (seqs st) -> pend (fst (step st o)) j = pend st j.
Proof.
  intros R G j Hji Hj. pose proof (ok_wf st R) as W.
  destruct o; simpl in G; try tauto; subst; simpl.
  - destruct (is_live st i) eqn:L; simpl; auto. apply is_live_lt in L.
    destruct e as [|z e]; [rewrite do_append_nil; auto|].
    apply (isolated_pend st _ i W L); auto.
    apply frame_of_frontier; auto. apply (do_append_spec st i bpr (z :: e) cb W L). discriminate.
  - destruct (is_live st i) eqn:L; simpl; auto. apply is_live_lt in L.
    apply (isolated_pend st _ i W L); auto.
    apply frame_of_frontier; auto. apply (finalize_spec st i W L).
  - destruct (is_live st i) eqn:L; simpl; auto. apply is_live_lt in L.
    apply (isolated_pend st _ i W L); auto. apply (extend_spec st i bpr pre els false W L).
  - destruct (is_live st i && is_live st j0) eqn:L; simpl; auto.
    apply andb_prop in L. destruct L as (L & _). apply is_live_lt in L.
    apply (isolated_pend st _ i W L); auto. apply (extend_spec st i bpr true _ _ W L).
  - destruct (is_live st i) eqn:L; simpl; auto. apply is_live_lt in L.
    destruct pre.
    + destruct good; [destruct (match offs _ with [] => _ | _ => _ end); simpl; auto|]. simpl.
      apply (isolated_pend st _ i W L); auto. apply (extend_gen_spec st i bpr true _ false extra W L).
    + destruct (_ && _); simpl; auto.
      apply (isolated_pend st _ i W L); auto. apply (extend_gen_spec st i bpr false _ false 0 W L).
Qed.
