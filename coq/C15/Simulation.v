(* C15/Simulation.v — a functional simulation against an abstract machine whose state is, per
   object, (alive, Python list of arrays): for every operation whose effect on the lists does not
   depend on which arrays are shared (construction, growth, indexing, copies, out-of-place
   operators, concatenate, dropping an object)   absC (step st o) = spec_step (absC st) o.
   Assignments and in-place operators depend on the sharing relation and on re-allocation; their
   effect on every element of every object is given by the cell theorems (Lemmas.v, Lemmas2.v). *)
From Coq Require Import ZArith List Bool Arith Lia.
From NV Require Import C15.Model C15.ListLemmas C15.Invariant C15.Steps C15.Steps2 C15.Lemmas C15.Lemmas2.
Import ListNotations.

Definition aobj := (bool * list (list Z))%type.
Definition adead : aobj := (false, []).
Definition absC (st : state) : list aobj :=
  map (fun k => (live (getseq st k), C st k)) (List.seq 0 (length (seqs st))).

Definition a_live (a : list aobj) (i : nat) : bool := (i <? length a) && fst (nth i a adead).
Definition a_C (a : list aobj) (i : nat) : list (list Z) := snd (nth i a adead).
Definition a_set (a : list aobj) (i : nat) (c : list (list Z)) : list aobj := upd a i (fst (nth i a adead), c).
Definition a_add (a : list aobj) (c : list (list Z)) : list aobj := a ++ [(true, c)].
Definition rows_total (c : list (list Z)) : nat := sum (map (@length Z) c).

Definition spec_step (a : list aobj) (o : op) : option (list aobj * result) :=
  match o with
  | ONew _ _ _ els => Some (a_add a (spec_extend [] els), ROk)
  | OAppend i _ e false =>
    Some (if a_live a i then (a_set a i (spec_append (a_C a i) e), ROk) else (a, RErr EBadSeq))
  | OExtend i _ _ els =>
    Some (if a_live a i then (a_set a i (spec_extend (a_C a i) els), ROk) else (a, RErr EBadSeq))
  | OExtendSeq i _ j =>
    Some (if a_live a i && a_live a j then (a_set a i (spec_extend (a_C a i) (a_C a j)), ROk)
          else (a, RErr EBadSeq))
  | OGetInt i k =>
    Some (if a_live a i then
            let n := Z.of_nat (length (a_C a i)) in
            (a, if ((- n <=? k) && (k <? n))%Z
                then RElem (nth (Z.to_nat (if (k <? 0)%Z then k + n else k)) (a_C a i) []) else RErr EIndex)
          else (a, RErr EBadSeq))
  | OGetIdx i ix =>
    Some (if a_live a i then
            match positions (length (a_C a i)) ix with
            | Ok ps => (a_add a (spec_pick (a_C a i) ps), ROk)
            | Err e => (a, RErr e)
            end
          else (a, RErr EBadSeq))
  | OView i _ => Some (if a_live a i then (a_add a (a_C a i), ROk) else (a, RErr EBadSeq))
  | OCopy i => Some (if a_live a i then (a_add a (a_C a i), ROk) else (a, RErr EBadSeq))
  | OOp i f false _ =>
    Some (if a_live a i then
            if length (a_C a i) =? 0 then (a, RErr EStopIteration)
            else (a_add a (map (map (apply_fn f)) (a_C a i)), ROk)
          else (a, RErr EBadSeq))
  | OOpSeq i g j false _ =>
    Some (if a_live a i && a_live a j then
            if negb (length (a_C a i) =? length (a_C a j)) then (a, RErr EValue)
            else if negb (rows_total (a_C a i) =? rows_total (a_C a j)) then (a, RErr EValue)
            else if length (a_C a i) =? 0 then (a, RErr EStopIteration)
            else match op_seq_elems (apply_fn2 g) (a_C a i) (a_C a j) with
                 | Some els => (a_add a els, ROk)
                 | None => (a, RErr EValue)
                 end
          else (a, RErr EBadSeq))
  | ODrop i => Some (if a_live a i then (upd a i (false, a_C a i), ROk) else (a, RErr EBadSeq))
  | _ => None
  end.

(* the objects the operation grows must not be inside a cached build (append(cache_build=True)
   ... finalize_append()), whose pending elements are not part of the visible lists *)
Definition no_pending (st : state) (o : op) : Prop :=
  match o with
  | OAppend i _ _ _ | OExtend i _ _ _ | OExtendSeq i _ _ => scache (getseq st i) = None
  | _ => True
  end.

(* ---------------------------------------------------------------- abstraction lemmas *)
Lemma absC_length st : length (absC st) = length (seqs st).
Proof. unfold absC. rewrite map_length, seq_length. reflexivity. Qed.

Lemma absC_nth st k : k < length (seqs st) -> nth k (absC st) adead = (live (getseq st k), C st k).
Proof.
  intros H. unfold absC. set (f := fun k => (live (getseq st k), C st k)).
  rewrite nth_indep with (d' := f 0) by (rewrite map_length, seq_length; auto).
  rewrite map_nth, seq_nth by auto. reflexivity.
Qed.

Lemma a_live_abs st i : a_live (absC st) i = is_live st i.
Proof.
  unfold a_live, is_live. rewrite absC_length.
  destruct (Nat.ltb_spec i (length (seqs st))); simpl; auto. rewrite absC_nth; auto.
Qed.

Lemma a_C_abs st i : i < length (seqs st) -> a_C (absC st) i = C st i.
Proof. intros. unfold a_C. rewrite absC_nth; auto. Qed.

Lemma list_ext {A} (d : A) (l l' : list A) : length l = length l' ->
  (forall k, k < length l -> nth k l d = nth k l' d) -> l = l'.
Proof.
  revert l'; induction l as [|x l IH]; destruct l' as [|y l']; simpl; intros HL H; try discriminate; auto.
  f_equal; [apply (H 0); lia|]. apply IH; [lia|]. intros k Hk. apply (H (S k)). lia.
Qed.

Lemma absC_set st st' i c : length (seqs st') = length (seqs st) -> i < length (seqs st) ->
  (forall k, k < length (seqs st) -> k <> i -> getseq st' k = getseq st k /\ C st' k = C st k) ->
  live (getseq st' i) = live (getseq st i) -> C st' i = c ->
  absC st' = a_set (absC st) i c.
Proof.
  intros HL Hi HO HV HC. apply (list_ext adead).
  - unfold a_set. rewrite upd_length, !absC_length. auto.
  - intros k Hk. rewrite absC_length in Hk. rewrite absC_nth by auto.
    unfold a_set. rewrite nth_upd, absC_length.
    assert (E : (i <? length (seqs st)) = true) by (apply Nat.ltb_lt; auto). rewrite E, andb_true_r.
    destruct (Nat.eqb_spec k i) as [->|N].
    + rewrite absC_nth by auto. simpl. rewrite HV, HC. reflexivity.
    + rewrite absC_nth by lia. destruct (HO k ltac:(lia) N) as (A & B). rewrite A, B. reflexivity.
Qed.

Lemma absC_add st st' c : length (seqs st') = S (length (seqs st)) ->
  (forall k, k < length (seqs st) -> getseq st' k = getseq st k /\ C st' k = C st k) ->
  live (getseq st' (length (seqs st))) = true -> C st' (length (seqs st)) = c ->
  absC st' = a_add (absC st) c.
Proof.
  intros HL HO HV HC. apply (list_ext adead).
  - unfold a_add. rewrite app_length, !absC_length. simpl. lia.
  - intros k Hk. rewrite absC_length in Hk. rewrite absC_nth by auto. unfold a_add.
    destruct (Nat.eq_dec k (length (seqs st))) as [->|N].
    + rewrite HV, HC.
      assert (X : nth (length (seqs st)) (absC st ++ [(true, c)]) adead = (true, c))
        by (rewrite <- (absC_length st); apply nth_app_new).
      rewrite X. reflexivity.
    + rewrite nth_app_old by (rewrite absC_length; lia). rewrite absC_nth by lia.
      destruct (HO k ltac:(lia)) as (A & B). rewrite A, B. reflexivity.
Qed.

Lemma keeps_all st st' : wf st -> keeps st st' ->
  forall k, k < length (seqs st) -> getseq st' k = getseq st k /\ C st' k = C st k.
Proof.
  intros W K k Hk. split; [apply K; auto|]. unfold C. apply keeps_contents; auto.
Qed.

Lemma C_length st i : wf st -> i < length (seqs st) -> length (C st i) = length (offs (getseq st i)).
Proof.
  intros W Hi. destruct (wf_seq _ W i Hi) as (_ & S2 & _).
  unfold C, contents, elems_of. rewrite map_length, combine_length. lia.
Qed.

Lemma copy_set_shape st i (dt : bool) r : i < length (seqs st) ->
  let st1 := do_copy st i in
  let k := length (seqs st) in
  let b := getbuf (heap st1) (sbuf (getseq st1 k)) in
  let st2 := if dt then new_buf_for st1 k b else st1 in
  let st3 := set_buf st2 (sbuf (getseq st2 k)) (mkBuf (cap b) r) in
  length (seqs st3) = S (length (seqs st)) /\ live (getseq st3 k) = true.
Proof.
  intros Hi. cbv zeta.
  set (st1 := do_copy st i). set (k := length (seqs st)).
  assert (L1 : length (seqs st1) = S k) by (unfold st1, do_copy; simpl; rewrite app_length; simpl; lia).
  assert (G1 : live (getseq st1 k) = true) by (unfold getseq, st1, do_copy, k; cbn [seqs]; rewrite nth_app_new; reflexivity).
  set (b := getbuf (heap st1) (sbuf (getseq st1 k))).
  destruct dt.
  - change (seqs (set_buf (new_buf_for st1 k b) (sbuf (getseq (new_buf_for st1 k b) k)) (mkBuf (cap b) r)))
      with (seqs (new_buf_for st1 k b)).
    change (getseq (set_buf (new_buf_for st1 k b) (sbuf (getseq (new_buf_for st1 k b) k)) (mkBuf (cap b) r)) k)
      with (getseq (new_buf_for st1 k b) k).
    rewrite seqs_len_new_buf_for, getseq_new_buf_for, Nat.eqb_refl by lia. simpl. auto.
  - split; [exact L1|exact G1].
Qed.

Lemma simulation_p st o p : wf st -> no_pending st o ->
  spec_step (absC st) o = Some p ->
  absC (fst (step st o)) = fst p /\ snd (step st o) = snd p.
Proof.
  intros R NP H. pose proof (ok_wf st R) as W.
  destruct o; try discriminate; cbn [spec_step] in H.
  - (* ONew *)
    injection H as H; subst p. split; [|reflexivity].
    apply absC_add.
    + simpl. rewrite seqs_len_extend. simpl. rewrite app_length. simpl. lia.
    + intros k Hk. apply new_keeps; auto.
    + simpl.
      set (st1 := mkSt (heap st ++ [empty_buf]) (seqs st ++ [mkSeq (length (heap st)) [] [] false bytes None true])).
      assert (W1 : wf st1) by (apply wf_add_fresh; simpl; auto; lia).
      assert (H1 : length (seqs st) < length (seqs st1)) by (unfold st1; simpl; rewrite app_length; simpl; lia).
      destruct (extend_spec st1 (length (seqs st)) bpr pre els false W1 H1) as (_ & _ & _ & _ & LV).
      rewrite LV. unfold getseq, st1; simpl. rewrite nth_app_new. reflexivity.
    + apply own_new; auto.
  - (* OAppend, cache_build = False *)
    destruct cb; [discriminate|]. injection H as H; subst p. rewrite a_live_abs.
    simpl in NP. simpl. destruct (is_live st i) eqn:L; [|auto].
    pose proof (is_live_lt _ _ L) as Hi. rewrite a_C_abs by auto. cbn [fst snd]. split; [|auto].
    apply absC_set; auto.
    + apply seqs_len_do_append.
    + intros k Hk N. pose proof (grow_isolated st (OAppend i bpr e false) i R eq_refl k N Hk) as G.
      simpl in G. rewrite L in G. exact G.
    + destruct e as [|z e]; [reflexivity|]. apply (do_append_spec st i bpr (z :: e) false W Hi). discriminate.
    + pose proof (own_append_gen st i bpr e false R L) as (_ & G & _). simpl in G. rewrite L in G. apply G; auto.
  - (* OExtend *)
    injection H as H; subst p. rewrite a_live_abs.
    simpl in NP. simpl. destruct (is_live st i) eqn:L; [|auto].
    pose proof (is_live_lt _ _ L) as Hi. rewrite a_C_abs by auto. cbn [fst snd]. split; [|auto].
    apply absC_set; auto.
    + apply seqs_len_extend.
    + intros k Hk N. pose proof (grow_isolated st (OExtend i bpr pre els) i R eq_refl k N Hk) as G.
      simpl in G. rewrite L in G. exact G.
    + apply (extend_spec st i bpr pre els false W Hi).
    + pose proof (own_extend st i bpr pre els R L (or_intror NP)) as G. simpl in G. rewrite L in G. exact G.
  - (* OExtendSeq *)
    injection H as H; subst p. rewrite !a_live_abs.
    simpl in NP. simpl. destruct (is_live st i) eqn:L; [|auto]. destruct (is_live st j) eqn:Lj; [|auto].
    pose proof (is_live_lt _ _ L) as Hi. pose proof (is_live_lt _ _ Lj) as Hj.
    rewrite !a_C_abs by auto. cbn [andb fst snd]. split; [|auto].
    apply absC_set; auto.
    + apply seqs_len_extend.
    + intros k Hk N. pose proof (grow_isolated st (OExtendSeq i bpr j) i R eq_refl k N Hk) as G.
      simpl in G. rewrite L, Lj in G. exact G.
    + apply (extend_spec st i bpr true _ _ W Hi).
    + pose proof (own_extend_seq st i bpr j R L Lj) as G. simpl in G. rewrite L, Lj in G. exact G.
  - (* OGetInt *)
    injection H as H; subst p. rewrite a_live_abs.
    destruct (is_live st i) eqn:L.
    + pose proof (is_live_lt _ _ L) as Hi. rewrite a_C_abs by auto.
      destruct (own_get_int st i k R L) as (A & B). cbv zeta in A. rewrite A, B. auto.
    + simpl. rewrite L. auto.
  - (* OGetIdx *)
    injection H as H; subst p. rewrite a_live_abs.
    destruct (is_live st i) eqn:L.
    + pose proof (is_live_lt _ _ L) as Hi. rewrite a_C_abs by auto.
      pose proof (own_get_idx st i ix R L) as G. cbv zeta in G.
      destruct (positions (length (C st i)) ix) as [ps|e] eqn:P.
      * destruct G as (A & B & K). cbn [fst snd]. split; [|auto].
        apply absC_add; auto.
        -- simpl. rewrite L. rewrite (C_length st i W Hi) in P. rewrite P. simpl. rewrite app_length. simpl. lia.
        -- apply keeps_all; auto.
        -- simpl. rewrite L. rewrite (C_length st i W Hi) in P. rewrite P. unfold new_view, getseq, add_seq. simpl.
           rewrite nth_app_new. reflexivity.
      * destruct G as (A & B). rewrite A, B. auto.
    + simpl. rewrite L. auto.
  - (* OView *)
    injection H as H; subst p. rewrite a_live_abs.
    destruct (is_live st i) eqn:L.
    + pose proof (is_live_lt _ _ L) as Hi. rewrite a_C_abs by auto.
      destruct (own_view st i bytes R L) as (A & K & _). cbn [fst snd].
      split; [|simpl; rewrite L; auto].
      apply absC_add; auto.
      * simpl. rewrite L. simpl. rewrite app_length. simpl. lia.
      * apply keeps_all; auto.
      * simpl. rewrite L. unfold new_view, getseq, add_seq. simpl. rewrite nth_app_new. reflexivity.
    + simpl. rewrite L. auto.
  - (* OCopy *)
    injection H as H; subst p. rewrite a_live_abs.
    destruct (is_live st i) eqn:L.
    + pose proof (is_live_lt _ _ L) as Hi. rewrite a_C_abs by auto.
      destruct (copy_total st i R L) as (A & B & K & _). cbn [fst snd]. split; [|auto].
      destruct (do_copy_spec st i W Hi) as (_ & _ & L1 & G1 & _).
      apply absC_add; auto.
      * simpl. rewrite L. exact L1.
      * apply keeps_all; auto.
      * simpl. rewrite L. simpl. rewrite G1. reflexivity.
    + simpl. rewrite L. auto.
  - (* OOp, out of place *)
    destruct inplace; [discriminate|]. injection H as H; subst p. rewrite a_live_abs.
    destruct (is_live st i) eqn:L; [|simpl; rewrite L; auto].
    pose proof (is_live_lt _ _ L) as Hi. rewrite a_C_abs by auto.
    pose proof (C_length st i W Hi) as CL.
    destruct (offs (getseq st i)) as [|o0 os0] eqn:EO.
    + rewrite CL. simpl. rewrite L, EO. auto.
    + assert (NE : offs (getseq st i) <> []) by (rewrite EO; discriminate).
      destruct (op_copy_spec st i f dtchg R L NE) as (A & B & K).
      rewrite CL. cbn [length Nat.eqb fst snd].
      split; [|exact A]. apply absC_add; [|exact K| |exact B].
      * unfold step. rewrite L, EO. cbn [fst]. apply (copy_set_shape st i dtchg _ Hi).
      * unfold step. rewrite L, EO. cbn [fst]. apply (copy_set_shape st i dtchg _ Hi).
  - (* ODrop *)
    injection H as H; subst p. rewrite a_live_abs.
    destruct (is_live st i) eqn:L; [|simpl; rewrite L; auto].
    pose proof (is_live_lt _ _ L) as Hi. rewrite a_C_abs by auto. simpl. rewrite L. cbn [fst snd]. split; [|auto].
    set (s' := mkSeq _ _ _ _ _ _ false).
    apply (list_ext adead).
    + rewrite upd_length, !absC_length. apply seqs_len_set_seq.
    + intros k Hk. rewrite absC_length, seqs_len_set_seq in Hk. rewrite absC_nth by (rewrite seqs_len_set_seq; auto).
      rewrite nth_upd, absC_length.
      assert (E : (i <? length (seqs st)) = true) by (apply Nat.ltb_lt; auto). rewrite E, andb_true_r.
      unfold C. rewrite getseq_set_seq by auto.
      destruct (Nat.eqb_spec k i) as [->|N]; [reflexivity|]. rewrite absC_nth by auto. reflexivity.
  - (* OOpSeq, out of place *)
    destruct inplace; [discriminate|]. injection H as H; subst p. rewrite !a_live_abs.
    destruct (is_live st i) eqn:L; [|simpl; rewrite L; auto].
    destruct (is_live st j) eqn:Lj; [|simpl; rewrite L, Lj; auto].
    pose proof (is_live_lt _ _ L) as Hi. pose proof (is_live_lt _ _ Lj) as Hj.
    rewrite !a_C_abs by auto. cbn [andb].
    pose proof (C_length st i W Hi) as CL. pose proof (C_length st j W Hj) as CLj.
    destruct (wf_seq _ W i Hi) as (_ & Si & _). destruct (wf_seq _ W j Hj) as (_ & Sj & _).
    assert (RT : forall k, k < length (seqs st) -> rows_total (C st k) = sum (lens (getseq st k))).
    { intros k Hk. unfold rows_total, C. rewrite contents_lengths; auto. }
    rewrite CL, CLj, !RT by auto.
    destruct (Nat.eqb_spec (length (offs (getseq st i))) (length (offs (getseq st j)))) as [E1|N1]; cbn [negb].
    2:{ unfold step. rewrite L, Lj. cbn [andb].
        assert (X : (length (lens (getseq st i)) =? length (lens (getseq st j))) = false) by (apply Nat.eqb_neq; lia).
        rewrite X. auto. }
    destruct (Nat.eqb_spec (sum (lens (getseq st i))) (sum (lens (getseq st j)))) as [E2|N2]; cbn [negb].
    2:{ unfold step. rewrite L, Lj. cbn [andb].
        assert (X : (length (lens (getseq st i)) =? length (lens (getseq st j))) = true) by (apply Nat.eqb_eq; lia).
        rewrite X. cbn [negb]. apply Nat.eqb_neq in N2. rewrite N2. auto. }
    destruct (offs (getseq st i)) as [|o0 os0] eqn:EO.
    + cbn [length Nat.eqb]. unfold step. rewrite L, Lj. cbn [andb].
      assert (X : (length (lens (getseq st i)) =? length (lens (getseq st j))) = true) by (apply Nat.eqb_eq; lia).
      rewrite X. cbn [negb]. rewrite E2, Nat.eqb_refl. cbn [negb]. rewrite EO. auto.
    + assert (NE : offs (getseq st i) <> []) by (rewrite EO; discriminate).
      pose proof (op_seq_copy_full st i g j dtchg R L Lj ltac:(lia) E2 NE) as G. cbv zeta in G.
      cbn [length Nat.eqb].
      destruct (op_seq_elems (apply_fn2 g) (C st i) (C st j)) as [els|] eqn:EE.
      * destruct G as (A & B & K). cbn [fst snd]. split; [|exact A].
        assert (SH : length (seqs (fst (step st (OOpSeq i g j false dtchg)))) = S (length (seqs st)) /\
                     live (getseq (fst (step st (OOpSeq i g j false dtchg))) (length (seqs st))) = true).
        { unfold step. rewrite L, Lj. cbn [andb].
          assert (X : (length (lens (getseq st i)) =? length (lens (getseq st j))) = true) by (apply Nat.eqb_eq; lia).
          rewrite X. cbn [negb]. rewrite E2, Nat.eqb_refl. cbn [negb]. rewrite EO.
          rewrite op_seq_rows_elems. fold (C st i). fold (C st j). rewrite EE. cbn [fst].
          apply (copy_set_shape st i dtchg _ Hi). }
        apply absC_add; auto; apply SH.
      * destruct G as (A & B). rewrite A, B. auto.
Qed.

Theorem simulation st o a' r : wf st -> no_pending st o ->
  spec_step (absC st) o = Some (a', r) ->
  absC (fst (step st o)) = a' /\ snd (step st o) = r.
Proof. intros R NP H. apply (simulation_p st o (a', r) R NP H). Qed.
