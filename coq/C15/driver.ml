(* C15 driver body (after `open C15_model` and drvlib.ml).
   One history per line:  <id> hist <op> <op> ...      (an op is one token, fields separated by ':')
     new:<bytes>:<bpr>:<pre>:<elems>   app:<i>:<bpr>:<cb>:<elem>   fin:<i>
     ext:<i>:<bpr>:<pre>:<elems>       exts:<i>:<bpr>:<j>          geti:<i>:<k>
     get:<i>:<idx>   view:<i>:<bytes>  copy:<i>  dcopy:<i> (copy.deepcopy)   seti:<i>:<k>:<v>  setr:<i>:<k>:<elem>
     set:<i>:<idx>:v<z> | set:<i>:<idx>:q<j>      op:<i>:<fn>:<inplace>:<dtchg>
     cat:<j>,<bpr>;<j>,<bpr>...        drop:<i>   opq:<i>:<fn2>:<j>:<inplace>:<dtchg> (sequence operand)
     appbad:<i>[:b] (element with another trailing shape)   shrink:<i>   cat1:<j>,<j>... (axis=1)
     gett:<i>:<idx>:<lo>:<hi> (seq[idx, lo:hi])
     extbad:<i>:<bpr>:<pre>:<good elems>:<extra> (extend(good + [bad element of 1 row] + [extra-1 more rows]))
   <elems> = '-' (empty list) or elements joined by '/', an element = rows joined by '.', 'e' = empty
   <idx>   = s,<a>,<b>,<c> ('n' = None) | l[,<k>...] | m[,<0|1>...]
   <fn>    = add,<k> | mul,<k> | neg | lt,<k> | eq,<k> | or,<k> | and,<k> | xor,<k> | shl,<k> | shr,<k>
   <fn2>   = add | sub | mul | lt | eq | or | and | xor
   Output: steps joined by ';', a step = <res>#<obs>; <res> = ok | el=<elem> | err:<enum>;
   <obs> = live sequences joined by '&', each <index>@<buffer number by first occurrence>=<elems>. *)
let split c s = String.split_on_char c s
let elem_of_string s = if s = "e" || s = "" then [] else List.map z_of_string (split '.' s)
let elems_of_string s = if s = "-" then [] else List.map elem_of_string (split '/' s)
let string_of_elem e = if e = [] then "e" else String.concat "." (List.map string_of_z e)
let string_of_elems l = if l = [] then "-" else String.concat "/" (List.map string_of_elem l)
let nat s = nat_of_int (int_of_string s)
let optz s = if s = "n" then None else Some (z_of_string s)
let index_of_string s = match split ',' s with
  | ["s"; a; b; c] -> ISlice (optz a, optz b, optz c)
  | "l" :: r -> IList (List.map z_of_string r)
  | "m" :: r -> IMask (List.map bool_of_string r)
  | _ -> failwith "bad index"
let fn_of_string s = match split ',' s with
  | ["add"; k] -> FAdd (z_of_string k) | ["mul"; k] -> FMul (z_of_string k) | ["neg"] -> FNeg
  | ["lt"; k] -> FLt (z_of_string k) | ["eq"; k] -> FEq (z_of_string k)
  | ["or"; k] -> FOr (z_of_string k) | ["and"; k] -> FAnd (z_of_string k) | ["xor"; k] -> FXor (z_of_string k)
  | ["shl"; k] -> FShl (z_of_string k) | ["shr"; k] -> FShr (z_of_string k) | _ -> failwith "bad fn"
let fn2_of_string = function
  | "add" -> BAdd | "sub" -> BSub | "mul" -> BMul | "lt" -> BLt | "eq" -> BEq
  | "or" -> BOr | "and" -> BAnd | "xor" -> BXor | _ -> failwith "bad fn2"
let op_of_string s = match split ':' s with
  | ["new"; by; bpr; pre; els] -> ONew (z_of_string by, z_of_string bpr, bool_of_string pre, elems_of_string els)
  | ["app"; i; bpr; cb; e] -> OAppend (nat i, z_of_string bpr, elem_of_string e, bool_of_string cb)
  | ["fin"; i] -> OFinalize (nat i)
  | ["ext"; i; bpr; pre; els] -> OExtend (nat i, z_of_string bpr, bool_of_string pre, elems_of_string els)
  | ["exts"; i; bpr; j] -> OExtendSeq (nat i, z_of_string bpr, nat j)
  | ["geti"; i; k] -> OGetInt (nat i, z_of_string k)
  | ["get"; i; ix] -> OGetIdx (nat i, index_of_string ix)
  | ["view"; i; by] -> OView (nat i, z_of_string by)
  | ["copy"; i] -> OCopy (nat i)
  | ["dcopy"; i] -> ODeepCopy (nat i)
  | ["seti"; i; k; v] -> OSetInt (nat i, z_of_string k, z_of_string v)
  | ["setr"; i; k; e] -> OSetIntRows (nat i, z_of_string k, elem_of_string e)
  | ["set"; i; ix; v] ->
    let body = String.sub v 1 (String.length v - 1) in
    OSetIdx (nat i, index_of_string ix, (if v.[0] = 'q' then VSeq (nat body) else VScalar (z_of_string body)))
  | ["op"; i; _; "1"; "2"] -> OOpRefused (nat i, None)
  | ["opq"; i; _; j; "1"; "2"] -> OOpRefused (nat i, Some (nat j))
  | ["op"; i; f; ip; dc] -> OOp (nat i, fn_of_string f, bool_of_string ip, bool_of_string dc)
  | ["cat"; js] ->
    OConcat (List.map (fun p -> match split ',' p with [j; b] -> (nat j, z_of_string b) | _ -> failwith "bad cat")
               (if js = "" then [] else split ';' js))
  | ["drop"; i] -> ODrop (nat i)
  | ["extbad"; i; bpr; pre; els; x] ->
    OExtendBad (nat i, z_of_string bpr, bool_of_string pre, elems_of_string els, nat x)
  | ["appbad"; i] | ["appbad"; i; _] -> OAppendBad (nat i)
  | ["shrink"; i] -> OShrink (nat i)
  | ["cat1"; js] -> OConcat1 (List.map nat (if js = "" then [] else split ',' js))
  | ["gett"; i; ix; _; _] -> OGetCols (nat i, index_of_string ix)
  | ["opq"; i; g; j; ip; dc] -> OOpSeq (nat i, fn2_of_string g, nat j, bool_of_string ip, bool_of_string dc)
  | _ -> failwith ("bad op " ^ s)
let string_of_err = function EIndex -> "Index" | EValue -> "Value" | EStopIteration -> "StopIteration" | EBadSeq -> "BadSeq" | EType -> "Type"
let string_of_result = function ROk -> "ok" | RElem e -> "el=" ^ string_of_elem e | RErr e -> "err:" ^ string_of_err e
let string_of_obs obs =
  let tbl = ref [] in
  let canon b = (match List.assoc_opt b !tbl with Some k -> k | None -> let k = List.length !tbl in tbl := (b, k) :: !tbl; k) in
  String.concat "&" (List.map (fun (i, (b, els)) ->
    string_of_int (int_of_nat i) ^ "@" ^ string_of_int (canon (int_of_nat b)) ^ "=" ^ string_of_elems els) obs)
let string_of_obs_raw obs =
  String.concat "&" (List.map (fun (i, (b, els)) ->
    string_of_int (int_of_nat i) ^ "@" ^ string_of_int (int_of_nat b) ^ "=" ^ string_of_elems els) obs)
let handle op args = match op with
  | "rawhist" ->
    let ops = List.map op_of_string args in
    "ok " ^ String.concat ";" (List.map (fun (r, obs) -> string_of_result r ^ "#" ^ string_of_obs_raw obs) (run init ops))
  | "hist" ->
    let ops = List.map op_of_string args in
    "ok " ^ String.concat ";" (List.map (fun (r, obs) -> string_of_result r ^ "#" ^ string_of_obs obs) (run init ops))
  | _ -> "err driver:badop"
let () = run_lines handle
