(* C15/SimAll.v — ONE simulation theorem over the whole operation alphabet.
   Abstract state ("lists of arrays with sharing"): per object (alive, the list of ARRAY NAMES it
   holds, the pending elements of a cached build) and a store from array names to values.  Two list
   entries are the same array iff they carry the same name (name = buffer, offset, length).
   spec_rel says, using only the abstract state, what every operation may do; where growth is
   concerned it leaves the names of the grown object open — except that it NEVER comes to share an
   array with another object unless it already did: "growth cuts links" (finding S-C15d). *)
From Coq Require Import ZArith List Bool Arith Lia.
From NV Require Import C15.Model C15.ListLemmas C15.Invariant C15.Steps C15.Steps2 C15.Lemmas C15.Lemmas2
                       C15.Pending C15.Simulation C15.Links C15.Tractogram.
Import ListNotations.

Definition cid := (nat * (nat * nat))%type.
Definition ids (st : state) (k : nat) : list cid :=
  map (fun c => (sbuf (getseq st k), c)) (pairs (getseq st k)).
Definition store (st : state) (i : cid) : list Z :=
  slice (fst (snd i)) (snd (snd i)) (rows_of st (fst i)).

Record aobj3 := mkA { a_live : bool; a_ids : list cid; a_pend : option (list (list Z)) }.
Definition adead3 := mkA false [] None.
Record astate := mkAS { a_objs : list aobj3; a_store : cid -> list Z }.

Definition absO (st : state) (k : nat) : aobj3 := mkA (live (getseq st k)) (ids st k) (pend st k).
Definition absS (st : state) : astate :=
  mkAS (map (absO st) (List.seq 0 (length (seqs st)))) (store st).

(* ---- reading the abstract state *)
Definition obj (a : astate) (k : nat) : aobj3 := nth k (a_objs a) adead3.
Definition alive (a : astate) (k : nat) : bool := (k <? length (a_objs a)) && a_live (obj a k).
Definition conts (a : astate) (k : nat) : list (list Z) := map (a_store a) (a_ids (obj a k)).
Definition used (a : astate) (i : cid) : Prop := exists k, k < length (a_objs a) /\ In i (a_ids (obj a k)).

Lemma abs_len st : length (a_objs (absS st)) = length (seqs st).
Proof. unfold absS; simpl. rewrite map_length, seq_length. reflexivity. Qed.

Lemma abs_obj st k : k < length (seqs st) -> obj (absS st) k = absO st k.
Proof.
  intros H. unfold obj, absS; simpl. set (f := absO st).
  rewrite nth_indep with (d' := f 0) by (rewrite map_length, seq_length; auto).
  rewrite map_nth, seq_nth by auto. reflexivity.
Qed.

Lemma abs_alive st k : alive (absS st) k = is_live st k.
Proof.
  unfold alive, is_live. rewrite abs_len.
  destruct (Nat.ltb_spec k (length (seqs st))); simpl; auto. rewrite abs_obj; auto.
Qed.

Lemma C_ids st k : C st k = map (store st) (ids st k).
Proof. unfold C, contents, elems_of, ids, store. rewrite map_map. reflexivity. Qed.

Lemma abs_conts st k : k < length (seqs st) -> conts (absS st) k = C st k.
Proof. intros H. unfold conts. rewrite abs_obj by auto. simpl. symmetry. apply C_ids. Qed.

Lemma abs_pend st k : k < length (seqs st) -> a_pend (obj (absS st) k) = pend st k.
Proof. intros H. rewrite abs_obj by auto. reflexivity. Qed.

Lemma ids_getseq st st' k : getseq st' k = getseq st k -> ids st' k = ids st k.
Proof. intros E. unfold ids. rewrite E. reflexivity. Qed.

Lemma store_from_C st st' k : ids st' k = ids st k -> C st' k = C st k ->
  forall i, In i (ids st k) -> store st' i = store st i.
Proof.
  intros Ei Ec. rewrite !C_ids, Ei in Ec. intros i Hi.
  apply (proj1 (@map_ext_in_iff _ _ (store st') (store st) (ids st k)) Ec i Hi).
Qed.

Lemma absO_eq st st' k : getseq st' k = getseq st k -> pend st' k = pend st k -> absO st' k = absO st k.
Proof. intros E P. unfold absO. rewrite (ids_getseq st st' k E), E, P. reflexivity. Qed.

(* ---- three ways an operation relates the object tables *)
(* (1) nothing but object i may change *)
Definition frame_objs (i : nat) (a a' : astate) : Prop :=
  length (a_objs a') = length (a_objs a) /\
  (forall k, k <> i -> obj a' k = obj a k) /\
  (forall k, k <> i -> k < length (a_objs a) -> forall c, In c (a_ids (obj a k)) -> a_store a' c = a_store a c).
(* (2) one object is added, nothing that exists changes *)
Definition added (x : aobj3) (a a' : astate) : Prop :=
  a_objs a' = a_objs a ++ [x] /\ (forall c, used a c -> a_store a' c = a_store a c).
(* (3) the object table is what it was *)
Definition same_objs (a a' : astate) : Prop := a_objs a' = a_objs a.
Definition unchanged (a a' : astate) : Prop :=
  same_objs a a' /\ (forall c, used a c -> a_store a' c = a_store a c).

Lemma used_abs st c : used (absS st) c <-> exists k, k < length (seqs st) /\ In c (ids st k).
Proof.
  unfold used. rewrite abs_len. split; intros (k & Hk & Hin); exists k; (split; [auto|]).
  - rewrite abs_obj in Hin by auto. exact Hin.
  - rewrite abs_obj by auto. exact Hin.
Qed.

Lemma abs_frame st st' i : length (seqs st') = length (seqs st) ->
  (forall k, k <> i -> k < length (seqs st) ->
     getseq st' k = getseq st k /\ C st' k = C st k /\ pend st' k = pend st k) ->
  frame_objs i (absS st) (absS st').
Proof.
  intros HL HO. unfold frame_objs. rewrite !abs_len. split; [auto|split].
  - intros k Hk. destruct (lt_dec k (length (seqs st))) as [Lk|Lk].
    + rewrite !abs_obj by lia. destruct (HO k Hk Lk) as (A & _ & P). apply absO_eq; auto.
    + unfold obj. rewrite !nth_overflow by (rewrite abs_len; lia). reflexivity.
  - intros k Hk Lk c Hc. rewrite abs_obj in Hc by auto. simpl in Hc.
    destruct (HO k Hk Lk) as (A & B & _). simpl. apply (store_from_C st st' k (ids_getseq _ _ _ A) B c Hc).
Qed.

Lemma abs_added st st' : length (seqs st') = S (length (seqs st)) ->
  (forall k, k < length (seqs st) ->
     getseq st' k = getseq st k /\ C st' k = C st k /\ pend st' k = pend st k) ->
  added (absO st' (length (seqs st))) (absS st) (absS st').
Proof.
  intros HL HO. unfold added. split.
  - unfold absS; simpl. rewrite HL, seq_S, map_app. simpl. f_equal.
    apply map_ext_in. intros k Hk. apply in_seq in Hk. destruct (HO k ltac:(lia)) as (A & _ & P). apply absO_eq; auto.
  - intros c Hu. apply used_abs in Hu. destruct Hu as (k & Hk & Hin). simpl.
    destruct (HO k Hk) as (A & B & _). apply (store_from_C st st' k (ids_getseq _ _ _ A) B c Hin).
Qed.

Lemma abs_same_objs st st' : seqs st' = seqs st ->
  (forall k, k < length (seqs st) -> pend st' k = pend st k) -> same_objs (absS st) (absS st').
Proof.
  intros ES HP. unfold same_objs, absS; simpl. rewrite ES. apply map_ext_in. intros k Hk. apply in_seq in Hk.
  apply absO_eq; [apply getseq_seqs_eq; auto|apply HP; lia].
Qed.

Lemma abs_unchanged_refl st : unchanged (absS st) (absS st).
Proof. split; [reflexivity|auto]. Qed.

(* ---------------------------------------------------------------- the specification *)
Definition cid_eqb (a b : cid) : bool := (fst a =? fst b) && pair_eqb (snd a) (snd b).
Definition cdead : cid := (0, (0, 0)).
Definition cnt (c : cid) (l : list cid) : nat := length (filter (cid_eqb c) l).
Definition pl (a : astate) (i : nat) : list (list Z) := match a_pend (obj a i) with Some p => p | None => [] end.
Definition shapeless (a : astate) (i : nat) : bool :=
  match conts a i, a_pend (obj a i) with [], None => true | _, _ => false end.
Definition all_empty (els : list (list Z)) : bool := forallb (fun e => match e with [] => true | _ => false end) els.
Definition pick_ids (l : list cid) (ps : list nat) : list cid := map (fun p => nth p l cdead) ps.

(* the grown object never comes to hold an array of another object unless it already did *)
Definition no_new_sharing (i : nat) (a a' : astate) : Prop :=
  forall c y, In c (a_ids (obj a' i)) -> y <> i -> y < length (a_objs a) ->
    In c (a_ids (obj a y)) -> In c (a_ids (obj a i)).

(* growth of object i: it shows vis', has pending p'; its array names are otherwise left open (growth may
   move it to new arrays = cut its links); every other object keeps names, values and pending elements *)
Definition grown (i : nat) (vis' : list (list Z)) (p' : option (list (list Z))) (a a' : astate) : Prop :=
  frame_objs i a a' /\ a_live (obj a' i) = a_live (obj a i) /\ conts a' i = vis' /\
  a_pend (obj a' i) = p' /\ no_new_sharing i a a'.

(* a new object on arrays nobody holds *)
Definition added_fresh (vals : list (list Z)) (p : option (list (list Z))) (a a' : astate) : Prop :=
  exists x, added x a a' /\ a_live x = true /\ map (a_store a') (a_ids x) = vals /\ a_pend x = p /\
            forall c, In c (a_ids x) -> ~ used a c.

(* element-by-element loop over array names: dst_k <- h (dst_k, src_k), later steps see earlier ones *)
Fixpoint aloop (h : nat -> list Z -> list Z -> option (list Z)) (val : cid -> list Z) (dst src : list cid)
  : (cid -> list Z) * option err :=
  match dst, src with
  | d :: dr, s :: sr =>
    match h (snd (snd d)) (val d) (val s) with
    | Some e => aloop h (fun c => if cid_eqb c d then e else val c) dr sr
    | None => (val, Some EValue)
    end
  | _, _ => (val, None)
  end.

(* assignments / in-place operators: same objects, same names, same pending; the store on every array
   in use is `val` *)
Definition written (val : cid -> list Z) (a a' : astate) : Prop :=
  same_objs a a' /\ forall c, used a c -> a_store a' c = val c.

Definition res_of (e : option err) : result := match e with None => ROk | Some x => RErr x end.

Definition spec_rel (a : astate) (o : op) (a' : astate) (r : result) : Prop :=
  match o with
  | ONew _ _ _ els => r = ROk /\ added_fresh (spec_extend [] els) None a a'
  | OAppend i _ e cb =>
    if alive a i then r = ROk /\
      match e with
      | [] => unchanged a a'
      | _ => if cb || (match a_pend (obj a i) with Some _ => true | None => false end)
             then grown i (conts a i) (Some (pl a i ++ [e])) a a'
             else grown i (conts a i ++ [e]) None a a'
      end
    else r = RErr EBadSeq /\ unchanged a a'
  | OFinalize i =>
    if alive a i then r = ROk /\
      match a_pend (obj a i) with
      | None => unchanged a a'
      | Some p => grown i (conts a i ++ p) None a a'
      end
    else r = RErr EBadSeq /\ unchanged a a'
  | OExtend i _ pre els =>
    if alive a i then r = ROk /\
      if pre && (match els with [] => true | _ => false end) then unchanged a a'
      else grown i (spec_extend (if pre then conts a i else conts a i ++ pl a i) els) None a a'
    else r = RErr EBadSeq /\ unchanged a a'
  | OExtendSeq i _ j =>
    if alive a i && alive a j then r = ROk /\
      match conts a j with
      | [] => unchanged a a'
      | els => grown i (spec_extend (conts a i) els) None a a'
      end
    else r = RErr EBadSeq /\ unchanged a a'
  | OExtendBad i _ pre good _ =>
    if alive a i then
      if pre then
        match good with
        | [] => r = RErr (if shapeless a i then EBadSeq else EValue) /\ unchanged a a'
        | _ => r = RErr EValue /\ grown i (spec_extend (conts a i) good) None a a'
        end
      else if shapeless a i && all_empty good then r = RErr EBadSeq /\ unchanged a a'
           else r = RErr EValue /\ grown i (spec_extend (conts a i ++ pl a i) good) None a a'
    else r = RErr EBadSeq /\ unchanged a a'
  | OAppendBad i =>
    unchanged a a' /\ r = RErr (if alive a i then (if shapeless a i then EBadSeq else EValue) else EBadSeq)
  | OOpRefused i oj =>
    (* the dtype refusal of an in-place operator comes after the shape check and after next() on an empty
       target, and before anything is written *)
    unchanged a a' /\
    r = RErr (if alive a i && match oj with None => true | Some j => alive a j end then
                if match oj with
                   | None => false
                   | Some j => negb (length (conts a i) =? length (conts a j)) ||
                               negb (rows_total (conts a i) =? rows_total (conts a j))
                   end
                then EValue
                else match conts a i with [] => EStopIteration | _ => EType end
              else EBadSeq)
  | OShrink i =>
    unchanged a a' /\
    r = (if alive a i then match a_pend (obj a i) with None => ROk | Some _ => RErr EBadSeq end else RErr EBadSeq)
  | OGetInt i k =>
    unchanged a a' /\
    r = (if alive a i then
           let n := Z.of_nat (length (conts a i)) in
           if ((- n <=? k) && (k <? n))%Z
           then RElem (nth (Z.to_nat (if (k <? 0)%Z then k + n else k)) (conts a i) []) else RErr EIndex
         else RErr EBadSeq)
  | OGetIdx i ix | OGetCols i ix =>
    if alive a i then
      match positions (length (conts a i)) ix with
      | Ok ps => r = ROk /\ added (mkA true (pick_ids (a_ids (obj a i)) ps) None) a a'
      | Err e => r = RErr e /\ unchanged a a'
      end
    else r = RErr EBadSeq /\ unchanged a a'
  | OView i _ =>
    if alive a i then r = ROk /\ added (mkA true (a_ids (obj a i)) None) a a'
    else r = RErr EBadSeq /\ unchanged a a'
  | OCopy i =>
    if alive a i then r = ROk /\ added_fresh (conts a i) None a a'
    else r = RErr EBadSeq /\ unchanged a a'
  | ODeepCopy i =>
    if alive a i then r = ROk /\ added_fresh (conts a i) (a_pend (obj a i)) a a'
    else r = RErr EBadSeq /\ unchanged a a'
  | OOp i f inplace _ =>
    if alive a i then
      match conts a i with
      | [] => r = RErr EStopIteration /\ unchanged a a'
      | c => r = ROk /\
             if inplace
             then written (fun x => iter (cnt x (a_ids (obj a i))) (map (apply_fn f)) (a_store a x)) a a'
             else added_fresh (map (map (apply_fn f)) c) None a a'
      end
    else r = RErr EBadSeq /\ unchanged a a'
  | OOpSeq i g j inplace _ =>
    if alive a i && alive a j then
      if negb (length (conts a i) =? length (conts a j)) then r = RErr EValue /\ unchanged a a'
      else if negb (rows_total (conts a i) =? rows_total (conts a j)) then r = RErr EValue /\ unchanged a a'
      else match conts a i with
      | [] => r = RErr EStopIteration /\ unchanged a a'
      | c =>
        if inplace then
          let lp := aloop (h_op (apply_fn2 g)) (a_store a) (a_ids (obj a i)) (a_ids (obj a j)) in
          r = res_of (snd lp) /\ written (fst lp) a a'
        else match op_seq_elems (apply_fn2 g) c (conts a j) with
             | Some els => r = ROk /\ added_fresh els None a a'
             | None => r = RErr EValue /\ unchanged a a'
             end
      end
    else r = RErr EBadSeq /\ unchanged a a'
  | OSetInt i k v =>
    if alive a i then
      match norm_index (Z.of_nat (length (conts a i))) k with
      | Ok p => let t := nth p (a_ids (obj a i)) cdead in
                r = ROk /\ written (fun c => if cid_eqb c t then repeat v (length (a_store a t)) else a_store a c) a a'
      | Err e => r = RErr e /\ unchanged a a'
      end
    else r = RErr EBadSeq /\ unchanged a a'
  | OSetIntRows i k vs =>
    if alive a i then
      match norm_index (Z.of_nat (length (conts a i))) k with
      | Ok p => let t := nth p (a_ids (obj a i)) cdead in
                match rows_assigned (length (a_store a t)) vs with
                | Some e => r = ROk /\ written (fun c => if cid_eqb c t then e else a_store a c) a a'
                | None => r = RErr EValue /\ unchanged a a'
                end
      | Err e => r = RErr e /\ unchanged a a'
      end
    else r = RErr EBadSeq /\ unchanged a a'
  | OSetIdx i ix v =>
    if alive a i then
      match positions (length (conts a i)) ix with
      | Ok ps =>
        let dst := pick_ids (a_ids (obj a i)) ps in
        match v with
        | VScalar x =>
          r = ROk /\ written (fun c => if existsb (cid_eqb c) dst then repeat x (length (a_store a c)) else a_store a c) a a'
        | VSeq j =>
          if alive a j then
            if negb (length ps =? length (conts a j)) then r = RErr EValue /\ unchanged a a'
            else if negb (rows_total (map (a_store a) dst) =? rows_total (conts a j)) then r = RErr EValue /\ unchanged a a'
            else let lp := aloop h_assign (a_store a) dst (a_ids (obj a j)) in
                 r = res_of (snd lp) /\ written (fst lp) a a'
          else r = RErr EBadSeq /\ unchanged a a'
        end
      | Err e => r = RErr e /\ unchanged a a'
      end
    else r = RErr EBadSeq /\ unchanged a a'
  | OConcat js =>
    match js with
    | [] => r = RErr EIndex /\ unchanged a a'
    | (j0, _) :: rest =>
      if forallb (fun p => alive a (fst p)) js
      then r = ROk /\ added_fresh (fold_left (fun acc p => spec_extend acc (conts a (fst p))) rest (conts a j0)) None a a'
      else r = RErr EBadSeq /\ unchanged a a'
    end
  | OConcat1 js =>
    match js with
    | [] => r = RErr EIndex /\ unchanged a a'
    | j0 :: _ =>
      if forallb (alive a) js then
        let rs := map (fun j => concat (conts a j)) js in
        let ls := map (@length Z) (conts a j0) in
        if sum ls =? 0 then r = RErr EBadSeq /\ unchanged a a'
        else if forallb (fun x => length x =? sum ls) rs
             then r = ROk /\ added_fresh (elems_of (zip_rows rs) (cum_from 0 ls) ls) None a a'
             else r = RErr EValue /\ unchanged a a'
      else r = RErr EBadSeq /\ unchanged a a'
    end
  | ODrop i =>
    if alive a i then
      r = ROk /\ a_objs a' = upd (a_objs a) i (mkA false (a_ids (obj a i)) (a_pend (obj a i))) /\
      (forall c, used a c -> a_store a' c = a_store a c)
    else r = RErr EBadSeq /\ unchanged a a'
  end.

(* ---------------------------------------------------------------- names, cells, links *)
Lemma ids_length st k : wf st -> k < length (seqs st) -> length (ids st k) = length (offs (getseq st k)).
Proof.
  intros W Hk. destruct (wf_seq _ W k Hk) as (_ & S2 & _).
  unfold ids, pairs. rewrite map_length, combine_length. lia.
Qed.

Lemma ids_nth st k q : wf st -> k < length (seqs st) -> q < length (offs (getseq st k)) ->
  nth q (ids st k) cdead = (sbuf (getseq st k), cell st k q).
Proof.
  intros W Hk Hq. destruct (wf_seq _ W k Hk) as (_ & S2 & _). unfold ids, cell.
  set (f := fun c : nat * nat => (sbuf (getseq st k), c)).
  rewrite nth_indep with (d' := f (0, 0)) by (rewrite map_length; unfold pairs; rewrite combine_length; lia).
  rewrite map_nth. unfold pairs. rewrite combine_nth by auto. reflexivity.
Qed.

Lemma in_ids st k c : wf st -> k < length (seqs st) ->
  (In c (ids st k) <-> exists q, q < length (offs (getseq st k)) /\ c = (sbuf (getseq st k), cell st k q)).
Proof.
  intros W Hk. split.
  - intros Hin. destruct (In_nth _ _ cdead Hin) as (q & Hq & E). rewrite ids_length in Hq by auto.
    exists q. split; auto. rewrite <- E. apply ids_nth; auto.
  - intros (q & Hq & ->). rewrite <- ids_nth by auto. apply nth_In. rewrite ids_length; auto.
Qed.

Lemma store_V st k q : wf st -> k < length (seqs st) -> q < length (offs (getseq st k)) ->
  store st (sbuf (getseq st k), cell st k q) = V st k q.
Proof. intros W Hk Hq. rewrite (V_slice st k q W Hk Hq). reflexivity. Qed.

Lemma C_len st k : wf st -> k < length (seqs st) -> length (C st k) = length (offs (getseq st k)).
Proof. apply C_length. Qed.

(* growth never creates sharing (from C15_links_growth) *)
Lemma grow_no_new_sharing st o i : wf st -> grows o i -> i < length (seqs st) ->
  no_new_sharing i (absS st) (absS (fst (step st o))).
Proof.
  intros Rch G Hi. pose proof (ok_wf st Rch) as W.
  pose proof (ok_wf _ (ok_step st o Rch)) as W'.
  destruct (grow_links st o i Rch G Hi) as (_ & GL). cbv zeta in GL.
  set (st' := fst (step st o)) in *.
  assert (LEN : length (seqs st') = length (seqs st)).
  { destruct (grow_cases st o i Rch G Hi) as [E|[E|E]]; cbv zeta in E; fold st' in E.
    - rewrite E; auto.
    - destruct o; simpl in G; try tauto; subst; unfold st'; simpl;
        repeat match goal with |- context [if ?c then _ else _] => destruct c end;
        repeat match goal with |- context [match ?c with _ => _ end] => destruct c end; simpl;
        auto using seqs_len_do_append, seqs_len_finalize, seqs_len_extend, seqs_len_extend_gen.
    - destruct o; simpl in G; try tauto; subst; unfold st'; simpl;
        repeat match goal with |- context [if ?c then _ else _] => destruct c end;
        repeat match goal with |- context [match ?c with _ => _ end] => destruct c end; simpl;
        auto using seqs_len_do_append, seqs_len_finalize, seqs_len_extend, seqs_len_extend_gen. }
  intros c y Hc Hy Ly Hcy. rewrite abs_len in Ly.
  rewrite abs_obj in Hc by (rewrite LEN; auto). rewrite abs_obj in Hcy by auto. rewrite abs_obj by auto.
  simpl in *.
  pose proof (proj1 (grow_isolated st o i Rch G y Hy Ly)) as Gy. fold st' in Gy.
  apply (in_ids st' i c W') in Hc; [|rewrite LEN; auto]. destruct Hc as (q & Hq & Ec).
  apply (in_ids st y c W Ly) in Hcy. destruct Hcy as (q' & Hq' & Ec').
  assert (HR : R st' i q y q' = true).
  { assert (CY : cell st' y q' = cell st y q') by (unfold cell; rewrite Gy; reflexivity).
    unfold R, is_cell. rewrite CY, Gy. rewrite Ec in Ec'.
    assert (E1 : sbuf (getseq st' i) = sbuf (getseq st y)) by congruence.
    assert (E2 : cell st' i q = cell st y q') by congruence.
    rewrite E1, E2, Nat.eqb_refl. cbn [andb].
    destruct (pair_eqb_spec (cell st y q') (cell st y q')); congruence. }
  destruct (GL y q' Hy Ly Hq' (ex_intro _ q HR)) as (q0 & Hq0 & HR0).
  apply (in_ids st i c W Hi). exists q0. split; auto.
  unfold R, is_cell in HR0. apply andb_prop in HR0. destruct HR0 as (B1 & B2).
  apply Nat.eqb_eq in B1. destruct (pair_eqb_spec (cell st i q0) (cell st y q')) as [E|]; [|discriminate].
  rewrite Ec'. rewrite B1, E. reflexivity.
Qed.

(* ---------------------------------------------------------------- growth: the generic step *)
Lemma finalize_scache st i : i < length (seqs st) -> scache (getseq (finalize st i) i) = None.
Proof.
  intros Hi. unfold finalize. destruct (scache (getseq st i)) as [c|] eqn:Ec; [|exact Ec].
  assert (G : getseq (update_seq st i c None) i =
              mkSeq (sbuf (getseq st i)) (c_offs c) (c_lens c) (is_view (getseq st i)) (bufbytes (getseq st i)) None (live (getseq st i))).
  { unfold update_seq. rewrite getseq_set_seq, Nat.eqb_refl by auto. reflexivity. }
  unfold shrink. destruct (is_view (getseq (update_seq st i c None) i)).
  - rewrite G. reflexivity.
  - match goal with |- scache (getseq (set_buf ?s ?b ?x) i) = None => change (getseq (set_buf s b x) i) with (getseq s i) end.
    rewrite G. reflexivity.
Qed.

Lemma extend_gen_scache st i bpr pre els f x : i < length (seqs st) ->
  pre && (match els with [] => true | _ => false end) = false ->
  scache (getseq (extend_gen st i bpr pre els f x) i) = None.
Proof.
  intros Hi Hc. unfold extend_gen. rewrite Hc. apply finalize_scache.
  rewrite seqs_len_fold_append. destruct pre; auto.
  unfold mk_cache. rewrite seqs_len_resize, seqs_len_set_cache. rewrite seqs_len_detach. auto.
Qed.

Lemma grow_len st o i : wf st -> grows o i -> length (seqs (fst (step st o))) = length (seqs st).
Proof.
  intros _ G. destruct o; simpl in G; try tauto; subst; simpl;
    repeat match goal with |- context [if ?c then _ else _] => destruct c end;
    repeat match goal with |- context [match ?c with _ => _ end] => destruct c end; simpl;
    auto using seqs_len_do_append, seqs_len_finalize, seqs_len_extend, seqs_len_extend_gen.
Qed.

Lemma abs_grown st o i vis' p' : wf st -> grows o i -> i < length (seqs st) ->
  live (getseq (fst (step st o)) i) = live (getseq st i) ->
  C (fst (step st o)) i = vis' -> pend (fst (step st o)) i = p' ->
  grown i vis' p' (absS st) (absS (fst (step st o))).
Proof.
  intros R G Hi HL HC HP. pose proof (grow_len st o i R G) as LEN.
  unfold grown. split; [|split; [|split; [|split]]].
  - apply abs_frame; auto. intros k Hk Lk.
    destruct (grow_isolated st o i R G k Hk Lk) as (A & B). split; [auto|split; [auto|]].
    apply (grow_pend st o i R G k Hk Lk).
  - rewrite !abs_obj by (rewrite ?LEN; auto). exact HL.
  - rewrite abs_conts by (rewrite LEN; auto). exact HC.
  - rewrite abs_pend by (rewrite LEN; auto). exact HP.
  - apply grow_no_new_sharing; auto.
Qed.

Lemma pl_abs st i : wf st -> i < length (seqs st) -> pl (absS st) i = pendl st i.
Proof.
  intros W Hi. unfold pl. rewrite abs_pend by auto. unfold pend, pendl.
  destruct (scache (getseq st i)); reflexivity.
Qed.

Lemma pend_some st i : scache (getseq st i) <> None -> pend st i = Some (pendl st i).
Proof. unfold pend. destruct (scache (getseq st i)); congruence. Qed.
Lemma pend_none st i : scache (getseq st i) = None -> pend st i = None.
Proof. unfold pend. intros ->. reflexivity. Qed.
Lemma pend_is_some st i : (match pend st i with Some _ => true | None => false end) =
                          (match scache (getseq st i) with Some _ => true | None => false end).
Proof. unfold pend. destruct (scache (getseq st i)); reflexivity. Qed.

Lemma abs_shapeless st i : wf st -> i < length (seqs st) ->
  shapeless (absS st) i = match offs (getseq st i), scache (getseq st i) with [], None => true | _, _ => false end.
Proof.
  intros W Hi. unfold shapeless. rewrite abs_conts, abs_pend by auto.
  pose proof (C_len st i W Hi) as CL. unfold pend.
  destruct (offs (getseq st i)); destruct (C st i); simpl in CL; try discriminate; destruct (scache (getseq st i)); reflexivity.
Qed.

(* ---------------------------------------------------------------- per operation: growth *)
Ltac dead_case L := simpl; rewrite L; simpl; split; [reflexivity|apply abs_unchanged_refl].

Lemma sim_append st i bpr e cb : wf st ->
  spec_rel (absS st) (OAppend i bpr e cb) (absS (fst (step st (OAppend i bpr e cb)))) (snd (step st (OAppend i bpr e cb))).
Proof.
  intros R. pose proof (ok_wf st R) as W. cbn [spec_rel]. rewrite abs_alive.
  destruct (is_live st i) eqn:L; [|dead_case L].
  pose proof (is_live_lt _ _ L) as Hi.
  split; [simpl; rewrite L; reflexivity|].
  destruct e as [|z e'].
  { simpl. rewrite L. simpl. rewrite do_append_nil. apply abs_unchanged_refl. }
  set (e := z :: e') in *.
  destruct (do_append_spec st i bpr e cb W Hi ltac:(discriminate)) as (W1 & _ & _ & _ & LV & _ & N1 & N2 & _).
  destruct (own_append_gen st i bpr e cb R L) as (FU & C1 & C2). cbv zeta in *.
  assert (ST : fst (step st (OAppend i bpr e cb)) = do_append st i bpr e cb) by (simpl; rewrite L; reflexivity).
  rewrite abs_pend by auto. rewrite pend_is_some.
  rewrite abs_conts by auto. rewrite (pl_abs st i W Hi).
  destruct (cb || match scache (getseq st i) with Some _ => true | None => false end) eqn:EC.
  - assert (HC : scache (getseq st i) <> None \/ cb = true).
    { destruct cb; [right; auto|left]. simpl in EC. destruct (scache (getseq st i)); congruence. }
    apply (abs_grown st (OAppend i bpr e cb) i _ _ R eq_refl Hi); [rewrite ST; exact LV|apply C2; auto|].
    rewrite ST in *. rewrite pend_some by (apply N2; auto). f_equal.
    pose proof (ok_wf _ (ok_step st (OAppend i bpr e cb) R)) as W'. rewrite ST in W'.
    assert (Hi' : i < length (seqs (do_append st i bpr e cb))) by (rewrite seqs_len_do_append; auto).
    pose proof (F_split _ i W' Hi') as S'. pose proof (F_split st i W Hi) as S0.
    rewrite FU, S0 in S'. simpl in S'. rewrite (C2 HC) in S'. rewrite <- app_assoc in S'.
    apply app_inv_head in S'. symmetry. exact S'.
  - apply orb_false_elim in EC. destruct EC as (-> & EC).
    assert (HN : scache (getseq st i) = None) by (destruct (scache (getseq st i)); congruence).
    apply (abs_grown st (OAppend i bpr e false) i _ _ R eq_refl Hi); [rewrite ST; exact LV|rewrite (C1 HN eq_refl); reflexivity|].
    rewrite ST. apply pend_none. apply N1; auto.
Qed.

Lemma sim_finalize st i : wf st ->
  spec_rel (absS st) (OFinalize i) (absS (fst (step st (OFinalize i)))) (snd (step st (OFinalize i))).
Proof.
  intros R. pose proof (ok_wf st R) as W. cbn [spec_rel]. rewrite abs_alive.
  destruct (is_live st i) eqn:L; [|dead_case L].
  pose proof (is_live_lt _ _ L) as Hi.
  split; [simpl; rewrite L; reflexivity|].
  rewrite abs_pend, abs_conts by auto.
  assert (ST : fst (step st (OFinalize i)) = finalize st i) by (simpl; rewrite L; reflexivity).
  unfold pend. destruct (scache (getseq st i)) as [c|] eqn:Ec.
  - destruct (finalize_spec st i W Hi) as (_ & _ & SC & CT & _ & _ & LV & _).
    apply (abs_grown st (OFinalize i) i _ _ R eq_refl Hi); [rewrite ST; exact LV| |rewrite ST; apply pend_none; exact SC].
    rewrite ST. unfold C at 1. rewrite CT. fold (F st i). apply F_split; auto.
  - rewrite ST. unfold finalize. rewrite Ec. apply abs_unchanged_refl.
Qed.

Lemma sim_extend_gen st i bpr pre els f x o : wf st -> grows o i -> is_live st i = true ->
  fst (step st o) = extend_gen st i bpr pre els f x ->
  pre && (match els with [] => true | _ => false end) = false ->
  grown i (spec_extend (if pre then conts (absS st) i else conts (absS st) i ++ pl (absS st) i) els) None
        (absS st) (absS (fst (step st o))).
Proof.
  intros R G L ST HC. pose proof (ok_wf st R) as W. pose proof (is_live_lt _ _ L) as Hi.
  destruct (extend_gen_spec st i bpr pre els f x W Hi) as (_ & _ & CT & _ & LV).
  rewrite abs_conts, pl_abs by auto.
  apply (abs_grown st o i _ _ R G Hi); rewrite ST.
  - exact LV.
  - unfold C at 1. rewrite CT. destruct pre; [reflexivity|]. fold (F st i). rewrite (F_split st i W Hi). reflexivity.
  - apply pend_none. apply extend_gen_scache; auto.
Qed.

Lemma sim_extend st i bpr pre els : wf st ->
  spec_rel (absS st) (OExtend i bpr pre els) (absS (fst (step st (OExtend i bpr pre els)))) (snd (step st (OExtend i bpr pre els))).
Proof.
  intros R. cbn [spec_rel]. rewrite abs_alive.
  destruct (is_live st i) eqn:L; [|dead_case L].
  split; [simpl; rewrite L; reflexivity|].
  destruct (pre && match els with [] => true | _ :: _ => false end) eqn:HC.
  - simpl. rewrite L. simpl. unfold extend, extend_gen. rewrite HC. apply abs_unchanged_refl.
  - apply (sim_extend_gen st i bpr pre els false 0); auto; [reflexivity|simpl; rewrite L; reflexivity].
Qed.

Lemma sim_extend_seq st i bpr j : wf st ->
  spec_rel (absS st) (OExtendSeq i bpr j) (absS (fst (step st (OExtendSeq i bpr j)))) (snd (step st (OExtendSeq i bpr j))).
Proof.
  intros R. pose proof (ok_wf st R) as W. cbn [spec_rel]. rewrite !abs_alive.
  destruct (is_live st i && is_live st j) eqn:L; [|dead_case L].
  apply andb_prop in L. destruct L as (L & Lj). pose proof (is_live_lt _ _ Lj) as Hj.
  split; [simpl; rewrite L, Lj; reflexivity|].
  rewrite (abs_conts st j Hj). fold (C st j).
  destruct (C st j) as [|e0 r0] eqn:EC.
  - simpl. rewrite L, Lj. simpl. unfold C in EC. rewrite EC. unfold extend, extend_gen. simpl. apply abs_unchanged_refl.
  - rewrite <- EC.
    pose proof (sim_extend_gen st i bpr true (C st j) ((i =? j) && negb (is_view (getseq st i))) 0
                  (OExtendSeq i bpr j) R eq_refl L) as H.
    cbv iota in H. apply H.
    + simpl. rewrite L, Lj. reflexivity.
    + rewrite EC. reflexivity.
Qed.

Lemma sim_extend_bad st i bpr pre good extra : wf st ->
  spec_rel (absS st) (OExtendBad i bpr pre good extra) (absS (fst (step st (OExtendBad i bpr pre good extra))))
           (snd (step st (OExtendBad i bpr pre good extra))).
Proof.
  intros R. pose proof (ok_wf st R) as W. cbn [spec_rel]. rewrite abs_alive.
  destruct (is_live st i) eqn:L; [|dead_case L].
  pose proof (is_live_lt _ _ L) as Hi. rewrite (abs_shapeless st i W Hi).
  destruct pre.
  - destruct good as [|g0 good].
    + simpl. rewrite L. destruct (match offs (getseq st i) with [] => _ | _ => _ end); simpl; (split; [reflexivity|apply abs_unchanged_refl]).
    + split; [simpl; rewrite L; reflexivity|].
      apply (sim_extend_gen st i bpr true (g0 :: good) false extra); auto; [reflexivity|simpl; rewrite L; reflexivity].
  - unfold all_empty.
    destruct (_ && forallb _ good) eqn:EB.
    + simpl. rewrite L. simpl. rewrite EB. simpl. split; [reflexivity|apply abs_unchanged_refl].
    + split; [simpl; rewrite L; simpl; rewrite EB; reflexivity|].
      apply (sim_extend_gen st i bpr false good false 0); auto; [reflexivity|simpl; rewrite L; simpl; rewrite EB; reflexivity].
Qed.

(* ---------------------------------------------------------------- per operation: refusals, reads, drop, shrink *)
Lemma sim_append_bad st i : wf st ->
  spec_rel (absS st) (OAppendBad i) (absS (fst (step st (OAppendBad i)))) (snd (step st (OAppendBad i))).
Proof.
  intros R. pose proof (ok_wf st R) as W. cbn [spec_rel]. rewrite abs_alive.
  destruct (append_bad_nothing st i) as (E & _). rewrite E. split; [apply abs_unchanged_refl|].
  simpl. destruct (is_live st i) eqn:L; [|reflexivity].
  rewrite (abs_shapeless st i W (is_live_lt _ _ L)).
  destruct (offs (getseq st i)), (scache (getseq st i)); reflexivity.
Qed.

Lemma sim_get_int st i k : wf st ->
  spec_rel (absS st) (OGetInt i k) (absS (fst (step st (OGetInt i k)))) (snd (step st (OGetInt i k))).
Proof.
  intros R. cbn [spec_rel]. rewrite abs_alive.
  destruct (is_live st i) eqn:L.
  - destruct (own_get_int st i k R L) as (A & B). cbv zeta in A. rewrite B, A.
    rewrite abs_conts by (apply is_live_lt; auto). split; [apply abs_unchanged_refl|reflexivity].
  - simpl. rewrite L. split; [apply abs_unchanged_refl|reflexivity].
Qed.

Lemma sim_shrink st i : wf st ->
  spec_rel (absS st) (OShrink i) (absS (fst (step st (OShrink i)))) (snd (step st (OShrink i))).
Proof.
  intros R. pose proof (ok_wf st R) as W. cbn [spec_rel]. rewrite abs_alive.
  destruct (is_live st i) eqn:L; [|simpl; rewrite L; split; [apply abs_unchanged_refl|reflexivity]].
  pose proof (is_live_lt _ _ L) as Hi. rewrite abs_pend by auto. unfold pend.
  destruct (scache (getseq st i)) as [c|] eqn:Ec.
  - simpl. rewrite L, Ec. split; [apply abs_unchanged_refl|reflexivity].
  - destruct (shrink_op st i R L Ec) as (Hr & ES & HC & _). cbv zeta in *.
    split; [|exact Hr].
    set (st' := fst (step st (OShrink i))) in *.
    assert (HP : forall k, k < length (seqs st) -> pend st' k = pend st k).
    { intros k Hk. unfold pend, pendl. rewrite (getseq_seqs_eq st st' k ES).
      destruct (scache (getseq st k)) as [ck|] eqn:Eck; [|reflexivity]. f_equal. f_equal.
      (* k owns its buffer: it is not the buffer shrink touched, unless k = i (which has no cache) *)
      destruct (Nat.eq_dec k i) as [->|Hki]; [congruence|].
      unfold st'. simpl. rewrite L, Ec. cbn [fst]. unfold shrink.
      destruct (is_view (getseq st i)) eqn:Ev; [reflexivity|].
      rewrite rows_of_set_buf by apply (wf_seq _ W i Hi).
      destruct (Nat.eqb_spec (sbuf (getseq st k)) (sbuf (getseq st i))) as [E|]; [|reflexivity].
      destruct (wf_seq _ W k Hk) as (_ & _ & S3). rewrite Eck in S3. destruct S3 as (A1 & _).
      destruct (wf_own _ W k i Hk Hi Hki E); congruence. }
    split; [apply abs_same_objs; auto|].
    intros c Hu. apply used_abs in Hu. destruct Hu as (k & Hk & Hin). simpl.
    apply (store_from_C st st' k (ids_getseq _ _ _ (getseq_seqs_eq st st' k ES)) (HC k Hk) c Hin).
Qed.

Lemma sim_drop st i : wf st ->
  spec_rel (absS st) (ODrop i) (absS (fst (step st (ODrop i)))) (snd (step st (ODrop i))).
Proof.
  intros R. cbn [spec_rel]. rewrite abs_alive.
  destruct (is_live st i) eqn:L; [|dead_case L].
  pose proof (is_live_lt _ _ L) as Hi. unfold step. rewrite L. cbn [fst snd].
  set (s' := mkSeq _ _ _ _ _ _ false).
  split; [reflexivity|split; [|intros; reflexivity]].
  apply (list_ext adead3).
  - rewrite upd_length, !abs_len. apply seqs_len_set_seq.
  - intros k Hk. rewrite abs_len, seqs_len_set_seq in Hk.
    fold (obj (absS (set_seq st i s')) k). rewrite abs_obj by (rewrite seqs_len_set_seq; auto).
    rewrite nth_upd, abs_len. assert (E : (i <? length (seqs st)) = true) by (apply Nat.ltb_lt; auto). rewrite E, andb_true_r.
    unfold absO, ids, pend, pendl. rewrite getseq_set_seq by auto.
    destruct (Nat.eqb_spec k i) as [->|N].
    + rewrite abs_obj by auto. unfold s'. simpl. reflexivity.
    + fold (obj (absS st) k). rewrite abs_obj by auto. reflexivity.
Qed.

(* ---------------------------------------------------------------- per operation: creation *)
Lemma keeps_pend st st' k : wf st -> keeps st st' -> k < length (seqs st) -> pend st' k = pend st k.
Proof.
  intros W (_ & _ & K3 & K4) Hk. unfold pend, pendl. rewrite K3 by auto.
  destruct (scache (getseq st k)); [|reflexivity]. unfold rows_of. rewrite K4; auto. apply (wf_seq _ W k Hk).
Qed.

Lemma keeps_old st st' : wf st -> keeps st st' -> forall k, k < length (seqs st) ->
  getseq st' k = getseq st k /\ C st' k = C st k /\ pend st' k = pend st k.
Proof.
  intros W K k Hk. destruct (keeps_all st st' W K k Hk) as (A & B). split; [auto|split; [auto|]].
  apply keeps_pend; auto.
Qed.

Lemma pend_rows st st' k : getseq st' k = getseq st k ->
  rows_of st' (sbuf (getseq st k)) = rows_of st (sbuf (getseq st k)) -> pend st' k = pend st k.
Proof. intros E Rw. unfold pend, pendl. rewrite E, Rw. reflexivity. Qed.

Lemma combine_pick (os ls : list nat) ps :
  combine (pick 0 os ps) (pick 0 ls ps) = map (fun p => (nth p os 0, nth p ls 0)) ps.
Proof. induction ps; simpl; auto. f_equal. exact IHps. Qed.

Lemma fresh_ids st st' : wf st -> length (heap st) <= sbuf (getseq st' (length (seqs st))) ->
  forall c, In c (ids st' (length (seqs st))) -> ~ used (absS st) c.
Proof.
  intros W Hf c Hc Hu. apply used_abs in Hu. destruct Hu as (k & Hk & Hin).
  unfold ids in Hc, Hin. apply in_map_iff in Hc. destruct Hc as (x & <- & _).
  apply in_map_iff in Hin. destruct Hin as (y & E & _). inversion E.
  destruct (wf_seq _ W k Hk) as (S1 & _). lia.
Qed.

Lemma abs_added_fresh st st' vals p : wf st ->
  length (seqs st') = S (length (seqs st)) ->
  (forall k, k < length (seqs st) -> getseq st' k = getseq st k /\ C st' k = C st k /\ pend st' k = pend st k) ->
  live (getseq st' (length (seqs st))) = true -> C st' (length (seqs st)) = vals ->
  pend st' (length (seqs st)) = p -> length (heap st) <= sbuf (getseq st' (length (seqs st))) ->
  added_fresh vals p (absS st) (absS st').
Proof.
  intros W HL HO HV HC HP HF. exists (absO st' (length (seqs st))).
  split; [apply abs_added; auto|]. unfold absO; simpl.
  split; [exact HV|split; [rewrite <- C_ids; exact HC|split; [exact HP|]]].
  apply fresh_ids; auto.
Qed.

Lemma abs_added_view st st' l : wf st ->
  length (seqs st') = S (length (seqs st)) -> keeps st st' ->
  live (getseq st' (length (seqs st))) = true -> scache (getseq st' (length (seqs st))) = None ->
  ids st' (length (seqs st)) = l ->
  added (mkA true l None) (absS st) (absS st').
Proof.
  intros W HL K HV HS HI.
  replace (mkA true l None) with (absO st' (length (seqs st))).
  - apply abs_added; auto. apply keeps_old; auto.
  - unfold absO. rewrite HV, HI, (pend_none _ _ HS). reflexivity.
Qed.

Lemma sim_get_idx st i ix : wf st ->
  spec_rel (absS st) (OGetIdx i ix) (absS (fst (step st (OGetIdx i ix)))) (snd (step st (OGetIdx i ix))).
Proof.
  intros R. pose proof (ok_wf st R) as W. cbn [spec_rel]. rewrite abs_alive.
  destruct (is_live st i) eqn:L; [|dead_case L].
  pose proof (is_live_lt _ _ L) as Hi. rewrite abs_conts by auto.
  pose proof (own_get_idx st i ix R L) as G. cbv zeta in G.
  destruct (positions (length (C st i)) ix) as [ps|e] eqn:P.
  - destruct G as (Hr & _ & K). split; [exact Hr|].
    rewrite (C_len st i W Hi) in P. pose proof (positions_bound _ _ _ P) as PB.
    assert (ST : fst (step st (OGetIdx i ix)) =
                 new_view st (getseq st i) (pick 0 (offs (getseq st i)) ps) (pick 0 (lens (getseq st i)) ps) default_bufbytes).
    { simpl. rewrite L, P. reflexivity. }
    rewrite ST in *. unfold new_view in *.
    set (s' := mkSeq _ _ _ true _ None true) in *.
    assert (GN : getseq (add_seq st s') (length (seqs st)) = s') by (unfold getseq, add_seq; simpl; apply nth_app_new).
    apply abs_added_view; auto.
    + unfold add_seq; simpl. rewrite app_length. simpl. lia.
    + rewrite GN. reflexivity.
    + rewrite GN. reflexivity.
    + rewrite abs_obj by auto. unfold absO. cbn [a_ids]. unfold pick_ids.
      unfold ids at 1. rewrite GN. unfold s', pairs. cbn [sbuf offs lens]. rewrite combine_pick, map_map.
      apply map_ext_in. intros p Hp. rewrite Forall_forall in PB. specialize (PB p Hp).
      rewrite ids_nth by auto. reflexivity.
  - destruct G as (Hr & E). rewrite E. split; [exact Hr|apply abs_unchanged_refl].
Qed.

Lemma sim_get_cols st i ix : wf st ->
  spec_rel (absS st) (OGetCols i ix) (absS (fst (step st (OGetCols i ix)))) (snd (step st (OGetCols i ix))).
Proof. intros R. rewrite get_cols_is_getitem. apply (sim_get_idx st i ix R). Qed.

Lemma sim_view st i bytes : wf st ->
  spec_rel (absS st) (OView i bytes) (absS (fst (step st (OView i bytes)))) (snd (step st (OView i bytes))).
Proof.
  intros R. pose proof (ok_wf st R) as W. cbn [spec_rel]. rewrite abs_alive.
  destruct (is_live st i) eqn:L; [|dead_case L].
  pose proof (is_live_lt _ _ L) as Hi.
  destruct (own_view st i bytes R L) as (_ & K & _). cbv zeta in K.
  split; [simpl; rewrite L; reflexivity|].
  assert (ST : fst (step st (OView i bytes)) = new_view st (getseq st i) (offs (getseq st i)) (lens (getseq st i)) bytes)
    by (simpl; rewrite L; reflexivity).
  rewrite ST in *. unfold new_view in *. set (s' := mkSeq _ _ _ true _ None true) in *.
  assert (GN : getseq (add_seq st s') (length (seqs st)) = s') by (unfold getseq, add_seq; simpl; apply nth_app_new).
  apply abs_added_view; auto.
  - unfold add_seq; simpl. rewrite app_length. simpl. lia.
  - rewrite GN. reflexivity.
  - rewrite GN. reflexivity.
  - rewrite abs_obj by auto. unfold absO. cbn [a_ids]. unfold ids. rewrite GN. reflexivity.
Qed.

Lemma sim_copy st i : wf st ->
  spec_rel (absS st) (OCopy i) (absS (fst (step st (OCopy i)))) (snd (step st (OCopy i))).
Proof.
  intros R. pose proof (ok_wf st R) as W. cbn [spec_rel]. rewrite abs_alive.
  destruct (is_live st i) eqn:L; [|dead_case L].
  pose proof (is_live_lt _ _ L) as Hi. rewrite abs_conts by auto.
  destruct (copy_total st i R L) as (Hr & HC & K & _). cbv zeta in *.
  destruct (do_copy_spec st i W Hi) as (_ & _ & L1 & G1 & _).
  assert (ST : fst (step st (OCopy i)) = do_copy st i) by (simpl; rewrite L; reflexivity).
  split; [exact Hr|]. rewrite ST in *.
  apply abs_added_fresh; auto.
  - apply keeps_old; auto.
  - rewrite G1. reflexivity.
  - apply pend_none. rewrite G1. reflexivity.
  - rewrite G1. simpl. lia.
Qed.

Lemma sim_deep_copy st i : wf st ->
  spec_rel (absS st) (ODeepCopy i) (absS (fst (step st (ODeepCopy i)))) (snd (step st (ODeepCopy i))).
Proof.
  intros R. pose proof (ok_wf st R) as W. cbn [spec_rel]. rewrite abs_alive.
  destruct (is_live st i) eqn:L; [|dead_case L].
  pose proof (is_live_lt _ _ L) as Hi. rewrite abs_conts, abs_pend by auto.
  destruct (deep_copy_spec st i R L) as (Hr & _ & L1 & Ln & HC & K & HF). cbv zeta in *.
  split; [exact Hr|].
  apply abs_added_fresh; auto.
  - apply keeps_old; auto.
  - unfold is_live in Ln. apply andb_prop in Ln. apply Ln.
  - (* the clone has the same cache and the same rows *)
    unfold step. rewrite L. cbn [fst].
    set (s := getseq st i).
    set (s' := mkSeq (length (heap st)) (offs s) (lens s) (is_view s) (bufbytes s) (scache s) true).
    set (st' := mkSt (heap st ++ [getbuf (heap st) (sbuf s)]) (seqs st ++ [s'])).
    assert (GN : getseq st' (length (seqs st)) = s') by (unfold getseq, st'; simpl; apply nth_app_new).
    assert (RN : rows_of st' (length (heap st)) = rows_of st (sbuf s)).
    { unfold rows_of, st'; simpl. rewrite getbuf_app_new. reflexivity. }
    unfold pend, pendl. rewrite GN. unfold s' at 1 2 3 4. cbn [scache sbuf offs]. fold s. rewrite RN.
    destruct (scache s); reflexivity.
Qed.

Lemma copy_set_old st i (dt : bool) r : wf st -> i < length (seqs st) ->
  let st1 := do_copy st i in
  let k := length (seqs st) in
  let b := getbuf (heap st1) (sbuf (getseq st1 k)) in
  let st2 := if dt then new_buf_for st1 k b else st1 in
  let st3 := set_buf st2 (sbuf (getseq st2 k)) (mkBuf (cap b) r) in
  (forall b', b' < length (heap st) -> rows_of st3 b' = rows_of st b') /\
  scache (getseq st3 k) = None.
Proof.
  intros W Hi. cbv zeta.
  destruct (do_copy_spec st i W Hi) as (_ & (_ & _ & _ & K4) & L1 & G1 & _).
  set (st1 := do_copy st i) in *. set (k := length (seqs st)) in *.
  assert (H1 : length (heap st1) = S (length (heap st))) by (unfold st1, do_copy; cbn [heap]; rewrite app_length; simpl; lia).
  set (b := getbuf (heap st1) (sbuf (getseq st1 k))).
  assert (R1 : forall b', b' < length (heap st) -> rows_of st1 b' = rows_of st b').
  { intros b' Hb'. unfold rows_of. rewrite K4; auto. }
  destruct dt.
  - set (st2 := new_buf_for st1 k b).
    assert (G2 : getseq st2 k = mkSeq (length (heap st1)) (offs (getseq st1 k)) (lens (getseq st1 k)) (is_view (getseq st1 k))
                                (bufbytes (getseq st1 k)) (scache (getseq st1 k)) (live (getseq st1 k))).
    { unfold st2. rewrite getseq_new_buf_for, Nat.eqb_refl by lia. reflexivity. }
    assert (H2 : length (heap st2) = S (length (heap st1))) by (unfold st2, new_buf_for; cbn [heap]; rewrite app_length; simpl; lia).
    split.
    + intros b' Hb'. rewrite rows_of_set_buf by (rewrite G2; cbn [sbuf]; lia).
      rewrite G2. cbn [sbuf]. assert (E : (b' =? length (heap st1)) = false) by (apply Nat.eqb_neq; lia). rewrite E.
      unfold st2. rewrite rows_of_new_buf_for_old by lia. apply R1; auto.
    + change (getseq (set_buf st2 (sbuf (getseq st2 k)) (mkBuf (cap b) r)) k) with (getseq st2 k).
      rewrite G2. cbn [scache]. rewrite G1. reflexivity.
  - split.
    + intros b' Hb'. rewrite rows_of_set_buf by (rewrite G1; cbn [sbuf]; lia).
      rewrite G1. cbn [sbuf]. assert (E : (b' =? length (heap st)) = false) by (apply Nat.eqb_neq; lia). rewrite E.
      apply R1; auto.
    + change (getseq (set_buf st1 (sbuf (getseq st1 k)) (mkBuf (cap b) r)) k) with (getseq st1 k).
      rewrite G1. reflexivity.
Qed.

(* everything abs_added_fresh needs for an object made by copy + (astype) + new rows *)
Lemma copy_set_added st i (dt : bool) r vals : wf st -> i < length (seqs st) ->
  let st1 := do_copy st i in
  let k := length (seqs st) in
  let b := getbuf (heap st1) (sbuf (getseq st1 k)) in
  let st2 := if dt then new_buf_for st1 k b else st1 in
  let st3 := set_buf st2 (sbuf (getseq st2 k)) (mkBuf (cap b) r) in
  elems_of r (cum_from 0 (lens (getseq st i))) (lens (getseq st i)) = vals ->
  added_fresh vals None (absS st) (absS st3).
Proof.
  intros W Hi. cbv zeta. intros HV.
  destruct (copy_set_spec st i dt r W Hi) as (A & B).
  destruct (copy_set_shape st i dt r Hi) as (LEN & LV).
  destruct (copy_set_old st i dt r W Hi) as (RO & SC).
  pose proof (copy_set_fresh st i dt r Hi) as HF. cbv zeta in *.
  apply abs_added_fresh; auto.
  - intros k Hk. destruct (B k Hk) as (G & Ck). split; [auto|split; [auto|]].
    apply pend_rows; auto. apply RO. apply (wf_seq _ W k Hk).
  - rewrite A. exact HV.
  - apply pend_none. exact SC.
Qed.

Lemma conts_nil st i : wf st -> i < length (seqs st) ->
  (C st i = [] <-> offs (getseq st i) = []).
Proof.
  intros W Hi. pose proof (C_len st i W Hi) as CL.
  split; intros E; rewrite E in CL; simpl in CL; [destruct (offs (getseq st i))|destruct (C st i)]; auto; discriminate.
Qed.

Lemma sim_op_copy st i f dt : wf st ->
  spec_rel (absS st) (OOp i f false dt) (absS (fst (step st (OOp i f false dt)))) (snd (step st (OOp i f false dt))).
Proof.
  intros R. pose proof (ok_wf st R) as W. cbn [spec_rel]. rewrite abs_alive.
  destruct (is_live st i) eqn:L; [|dead_case L].
  pose proof (is_live_lt _ _ L) as Hi. rewrite abs_conts by auto.
  destruct (C st i) as [|c0 cs] eqn:EC.
  - apply (conts_nil st i W Hi) in EC. unfold step. rewrite L, EC. cbn [fst snd]. split; [reflexivity|apply abs_unchanged_refl].
  - assert (NE : offs (getseq st i) <> []).
    { intros E. apply (conts_nil st i W Hi) in E. congruence. }
    destruct (op_copy_spec st i f dt R L NE) as (Hr & _ & _). split; [exact Hr|].
    unfold step. rewrite L. destruct (offs (getseq st i)) as [|o0 os0] eqn:EO; [congruence|]. cbn [fst].
    apply (copy_set_added st i dt _ _ W Hi).
    (* the rows of the copy are the concatenated contents *)
    destruct (do_copy_spec st i W Hi) as (_ & _ & _ & G1 & _ & R1).
    rewrite G1. cbn [sbuf]. change (rows (getbuf (heap (do_copy st i)) (length (heap st)))) with (rows_of (do_copy st i) (length (heap st))).
    rewrite R1. rewrite elems_of_map. fold (C st i). rewrite <- EC. f_equal.
    pose proof (contents_lengths st i W Hi) as CL. fold (C st i) in CL. rewrite <- CL.
    pose proof (elems_of_compact (C st i) [] []) as E. simpl in E. rewrite app_nil_r in E. exact E.
Qed.

Lemma sim_op_seq_copy st i g j dt : wf st ->
  spec_rel (absS st) (OOpSeq i g j false dt) (absS (fst (step st (OOpSeq i g j false dt)))) (snd (step st (OOpSeq i g j false dt))).
Proof.
  intros R. pose proof (ok_wf st R) as W. cbn [spec_rel]. rewrite !abs_alive.
  destruct (is_live st i && is_live st j) eqn:L; [|dead_case L].
  apply andb_prop in L. destruct L as (L & Lj).
  pose proof (is_live_lt _ _ L) as Hi. pose proof (is_live_lt _ _ Lj) as Hj.
  rewrite !abs_conts by auto.
  destruct (wf_seq _ W i Hi) as (_ & Si & _). destruct (wf_seq _ W j Hj) as (_ & Sj & _).
  assert (RT : forall k, k < length (seqs st) -> rows_total (C st k) = sum (lens (getseq st k))).
  { intros k Hk. unfold rows_total, C. rewrite contents_lengths; auto. }
  pose proof (C_len st i W Hi) as CLi. pose proof (C_len st j W Hj) as CLj.
  rewrite (C_len st i W Hi), (C_len st j W Hj), !RT by auto.
  unfold step. rewrite L, Lj. cbn [andb]. rewrite <- Si, <- Sj.
  destruct (negb (length (offs (getseq st i)) =? length (offs (getseq st j)))) eqn:E1;
    [cbn [fst snd]; split; [reflexivity|apply abs_unchanged_refl]|].
  destruct (negb (sum (lens (getseq st i)) =? sum (lens (getseq st j)))) eqn:E2;
    [cbn [fst snd]; split; [reflexivity|apply abs_unchanged_refl]|].
  destruct (C st i) as [|c0 cs] eqn:EC.
  - apply (conts_nil st i W Hi) in EC. rewrite EC. cbn [fst snd]. split; [reflexivity|apply abs_unchanged_refl].
  - assert (NE : offs (getseq st i) <> []) by (intros E; apply (conts_nil st i W Hi) in E; congruence).
    destruct (offs (getseq st i)) as [|o0 os0] eqn:EO; [congruence|].
    rewrite op_seq_rows_elems. fold (C st i). fold (C st j). rewrite EC.
    destruct (op_seq_elems (apply_fn2 g) (c0 :: cs) (C st j)) as [els|] eqn:EE; cbn [fst snd].
    + split; [reflexivity|]. apply (copy_set_added st i dt _ _ W Hi).
      assert (LL : map (@length Z) els = lens (getseq st i)).
      { rewrite (op_seq_elems_lengths _ _ _ _ EE).
        - rewrite <- EC. apply contents_lengths; auto.
        - apply negb_false_iff in E1. apply Nat.eqb_eq in E1. simpl in *. lia. }
      rewrite <- LL.
      pose proof (elems_of_compact els [] []) as E. simpl in E. rewrite app_nil_r in E. exact E.
    + split; [reflexivity|apply abs_unchanged_refl].
Qed.

Lemma forallb_alive st js : forallb (alive (absS st)) js = forallb (is_live st) js.
Proof. induction js; simpl; auto. rewrite abs_alive, IHjs. reflexivity. Qed.

Lemma sim_concat1 st js : wf st ->
  spec_rel (absS st) (OConcat1 js) (absS (fst (step st (OConcat1 js)))) (snd (step st (OConcat1 js))).
Proof.
  intros R. pose proof (ok_wf st R) as W. cbn [spec_rel].
  destruct js as [|j0 js]; [simpl; split; [reflexivity|apply abs_unchanged_refl]|].
  rewrite forallb_alive. unfold step.
  destruct (forallb (is_live st) (j0 :: js)) eqn:L; [|cbn [fst snd]; split; [reflexivity|apply abs_unchanged_refl]].
  assert (LV : forall j, In j (j0 :: js) -> j < length (seqs st)).
  { intros j Hj. rewrite forallb_forall in L. apply is_live_lt. apply L; auto. }
  pose proof (LV j0 (or_introl eq_refl)) as H0.
  assert (RS : map (fun j => concat (conts (absS st) j)) (j0 :: js) =
               map (fun j => concat (contents st (getseq st j))) (j0 :: js)).
  { apply map_ext_in. intros j Hj. rewrite abs_conts by (apply LV; auto). reflexivity. }
  assert (LS : map (@length Z) (C st j0) = lens (getseq st j0)) by (apply contents_lengths; auto).
  rewrite RS. rewrite (abs_conts st j0 H0). rewrite !LS.
  set (rs := map (fun j => concat (contents st (getseq st j))) (j0 :: js)).
  destruct (sum (lens (getseq st j0)) =? 0); [cbn [fst snd]; split; [reflexivity|apply abs_unchanged_refl]|].
  destruct (forallb (fun r => length r =? sum (lens (getseq st j0))) rs);
    [|cbn [fst snd]; split; [reflexivity|apply abs_unchanged_refl]].
  cbn [fst snd]. split; [reflexivity|].
  apply (copy_set_added st j0 false (zip_rows rs) _ W H0). reflexivity.
Qed.

Lemma sim_new st bytes bpr pre els : wf st ->
  spec_rel (absS st) (ONew bytes bpr pre els) (absS (fst (step st (ONew bytes bpr pre els)))) (snd (step st (ONew bytes bpr pre els))).
Proof.
  intros R. pose proof (ok_wf st R) as W. cbn [spec_rel]. split; [reflexivity|].
  cbn [step fst].
  set (s0 := mkSeq (length (heap st)) [] [] false bytes None true).
  set (st1 := mkSt (heap st ++ [empty_buf]) (seqs st ++ [s0])).
  set (n := length (seqs st)).
  assert (W1 : wf st1) by (apply wf_add_fresh; simpl; auto; lia).
  assert (H1 : n < length (seqs st1)) by (unfold st1, n; simpl; rewrite app_length; simpl; lia).
  assert (L1 : length (seqs st1) = S n) by (unfold st1, n; simpl; rewrite app_length; simpl; lia).
  assert (G1 : getseq st1 n = s0) by (unfold getseq, st1, n; simpl; apply nth_app_new).
  assert (K1 : keeps st st1).
  { unfold keeps, st1; simpl. rewrite !app_length; simpl. split; [lia|split; [lia|split]].
    - intros k Hk. unfold getseq; simpl. apply nth_app_old; auto.
    - intros b Hb. apply getbuf_app_old; auto. }
  destruct (extend_spec st1 n bpr pre els false W1 H1) as (_ & FR & _ & _ & LV).
  apply abs_added_fresh; auto.
  - rewrite seqs_len_extend. exact L1.
  - intros k Hk. destruct (new_keeps st bytes bpr pre els R k Hk) as (A & B).
    split; [exact A|split; [exact B|]].
    rewrite (isolated_pend st1 _ n W1 H1 FR k ltac:(unfold n; lia) ltac:(lia)). apply keeps_pend; auto.
  - fold n. rewrite LV, G1. reflexivity.
  - apply own_new; auto.
  - fold n. apply pend_none.
    destruct (pre && match els with [] => true | _ => false end) eqn:HC.
    + unfold extend, extend_gen. rewrite HC. rewrite G1. reflexivity.
    + apply extend_gen_scache; auto.
  - fold n. destruct (FR 0 ltac:(intros; lia)) as (_ & _ & _ & [C4|C4] & _).
    + rewrite C4, G1. unfold s0. simpl. lia.
    + assert (HH : length (heap st1) = S (length (heap st))) by (unfold st1; simpl; rewrite app_length; simpl; lia).
      lia.
Qed.

Lemma concat_fold_all k H : forall rest st, wf st -> k < length (seqs st) -> H <= length (heap st) ->
  let st' := fold_left (fun a p => extend a k (snd p) true (contents a (getseq a (fst p))) false) rest st in
  length (seqs st') = length (seqs st) /\ live (getseq st' k) = live (getseq st k) /\
  (scache (getseq st k) = None -> scache (getseq st' k) = None) /\
  (H <= sbuf (getseq st k) -> H <= sbuf (getseq st' k)) /\
  (forall j, j <> k -> j < length (seqs st) -> pend st' j = pend st j).
Proof.
  induction rest as [|(j0, b0) rest IH]; intros st W Hk HH; cbn [fold_left fst snd].
  - cbv zeta. auto.
  - set (els := contents st (getseq st j0)).
    destruct (extend_spec st k b0 true els false W Hk) as (W1 & FR & _ & _ & LV).
    set (st1 := extend st k b0 true els false) in *.
    assert (L1 : length (seqs st1) = length (seqs st)) by apply seqs_len_extend.
    destruct (FR 0 ltac:(intros; lia)) as (_ & F2 & _ & F4 & _).
    destruct (IH st1 W1 ltac:(lia) ltac:(lia)) as (A1 & A2 & A3 & A4 & A5). cbv zeta in *.
    split; [lia|split; [congruence|split; [|split]]].
    + intros Hc. apply A3.
      destruct els as [|e0 r0] eqn:EE.
      * unfold st1, extend, extend_gen. simpl. exact Hc.
      * apply extend_gen_scache; auto.
    + intros Hs. apply A4. destruct F4 as [F4|F4]; [rewrite F4; auto|lia].
    + intros j Hj Lj. rewrite A5 by lia. apply (isolated_pend st st1 k W Hk FR j Hj Lj).
Qed.

Lemma forallb_alive_fst st (js : list (nat * Z)) :
  forallb (fun p => alive (absS st) (fst p)) js = forallb (fun p => is_live st (fst p)) js.
Proof. induction js; simpl; auto. rewrite abs_alive, IHjs. reflexivity. Qed.

Lemma sim_concat st js : wf st ->
  spec_rel (absS st) (OConcat js) (absS (fst (step st (OConcat js)))) (snd (step st (OConcat js))).
Proof.
  intros R. pose proof (ok_wf st R) as W. cbn [spec_rel].
  destruct js as [|(j0, b0) rest]; [simpl; split; [reflexivity|apply abs_unchanged_refl]|].
  rewrite forallb_alive_fst. unfold step.
  destruct (forallb (fun p => is_live st (fst p)) ((j0, b0) :: rest)) eqn:L;
    [|cbn [fst snd]; split; [reflexivity|apply abs_unchanged_refl]].
  cbn [fst snd]. split; [reflexivity|].
  destruct (own_concat st j0 b0 rest R L) as (OC & OK). cbv zeta in *. unfold step in OC, OK. rewrite L in OC, OK. cbn [fst] in OC, OK.
  pose proof L as L'. simpl in L'. apply andb_prop in L'. destruct L' as (L0 & Lr). pose proof (is_live_lt _ _ L0) as H0.
  destruct (do_copy_spec st j0 W H0) as (W1 & K1 & L1 & G1 & _).
  set (st1 := do_copy st j0) in *. set (k := length (seqs st)) in *.
  assert (HH : length (heap st) <= length (heap st1)) by apply K1.
  destruct (concat_fold_all k (length (heap st)) rest st1 W1 ltac:(lia) HH) as (A1 & A2 & A3 & A4 & A5). cbv zeta in *.
  assert (LVS : forall p, In p ((j0, b0) :: rest) -> fst p < length (seqs st)).
  { intros p Hp. rewrite forallb_forall in L. apply is_live_lt. apply L; auto. }
  apply abs_added_fresh; auto.
  - rewrite A1. exact L1.
  - intros j Hj. destruct (OK j Hj) as (X & Y). split; [exact X|split; [exact Y|]].
    rewrite A5 by (unfold k; lia). apply keeps_pend; auto.
  - fold k. rewrite A2, G1. reflexivity.
  - fold k. rewrite OC. rewrite (abs_conts st j0 H0).
    assert (FE : forall (l : list (nat * Z)) acc, (forall p, In p l -> fst p < length (seqs st)) ->
               fold_left (fun a p => spec_extend a (C st (fst p))) l acc =
               fold_left (fun a p => spec_extend a (conts (absS st) (fst p))) l acc).
    { induction l as [|p l IHl]; intros acc Hl; simpl; auto.
      rewrite abs_conts by (apply Hl; left; auto). apply IHl. intros q Hq. apply Hl. right; auto. }
    apply FE. intros p Hp. apply LVS. right; auto.
  - fold k. apply pend_none. apply A3. rewrite G1. reflexivity.
  - fold k. apply A4. rewrite G1. simpl. lia.
Qed.

(* ---------------------------------------------------------------- per operation: assignments, in-place operators *)
Lemma abs_written st st' val : wf st -> wf st' -> seqs st' = seqs st ->
  (forall k, k < length (seqs st) -> pend st' k = pend st k) ->
  (forall j q, j < length (seqs st) -> q < length (offs (getseq st j)) ->
     V st' j q = val (sbuf (getseq st j), cell st j q)) ->
  written val (absS st) (absS st').
Proof.
  intros W W' ES HP HV. split; [apply abs_same_objs; auto|].
  intros c Hu. apply used_abs in Hu. destruct Hu as (k & Hk & Hin).
  apply (in_ids st k c W Hk) in Hin. destruct Hin as (q & Hq & ->). simpl.
  rewrite <- (HV k q Hk Hq).
  assert (G : getseq st' k = getseq st k) by (apply getseq_seqs_eq; auto).
  assert (CE : cell st' k q = cell st k q) by (unfold cell; rewrite G; reflexivity).
  rewrite <- G, <- CE. apply store_V; auto; rewrite ?ES, ?G; auto.
Qed.

Lemma cnt_ids st i b x : cnt (b, x) (ids st i) = if b =? sbuf (getseq st i) then occ x (pairs (getseq st i)) else 0.
Proof.
  unfold cnt, occ, ids. induction (pairs (getseq st i)) as [|p l IH]; simpl.
  - destruct (_ =? _); reflexivity.
  - unfold cid_eqb at 1. cbn [fst snd]. destruct (b =? sbuf (getseq st i)) eqn:E; cbn [andb].
    + destruct (pair_eqb x p); simpl; rewrite IH; reflexivity.
    + exact IH.
Qed.

Lemma sim_op_inplace st i f dt : wf st ->
  spec_rel (absS st) (OOp i f true dt) (absS (fst (step st (OOp i f true dt)))) (snd (step st (OOp i f true dt))).
Proof.
  intros R. pose proof (ok_wf st R) as W. cbn [spec_rel]. rewrite abs_alive.
  destruct (is_live st i) eqn:L; [|dead_case L].
  pose proof (is_live_lt _ _ L) as Hi. rewrite abs_conts by auto.
  destruct (C st i) as [|c0 cs] eqn:EC.
  - apply (conts_nil st i W Hi) in EC. unfold step. rewrite L, EC. cbn [fst snd]. split; [reflexivity|apply abs_unchanged_refl].
  - assert (NE : offs (getseq st i) <> []) by (intros E; apply (conts_nil st i W Hi) in E; congruence).
    destruct (inplace_cells st i f dt R L NE) as (Hr & ES & HV). cbv zeta in *.
    split; [exact Hr|].
    pose proof (ok_wf _ (ok_step st (OOp i f true dt) R)) as W'.
    apply abs_written; auto.
    + apply (write_pend st (OOp i f true dt) W eq_refl).
    + intros j q Hj Hq. rewrite (HV j q Hj Hq). rewrite abs_obj by auto. unfold absO. cbn [a_ids a_store absS].
      rewrite cnt_ids. rewrite (store_V st j q W Hj Hq).
      destruct (sbuf (getseq st j) =? sbuf (getseq st i)); reflexivity.
Qed.

Lemma store_len st k q : wf st -> k < length (seqs st) -> q < length (offs (getseq st k)) ->
  length (store st (sbuf (getseq st k), cell st k q)) = snd (cell st k q).
Proof.
  intros W Hk Hq. unfold store, cell. cbn [fst snd]. apply slice_length.
  apply (wf_pair_bound st k _ _ W Hk). apply pairs_nth; auto.
Qed.

Lemma cid_is_cell st j q b c : cid_eqb (sbuf (getseq st j), cell st j q) (b, c) = is_cell st j q b c.
Proof. reflexivity. Qed.

Lemma sim_set_int st i k v : wf st ->
  spec_rel (absS st) (OSetInt i k v) (absS (fst (step st (OSetInt i k v)))) (snd (step st (OSetInt i k v))).
Proof.
  intros R. pose proof (ok_wf st R) as W. cbn [spec_rel]. rewrite abs_alive.
  destruct (is_live st i) eqn:L; [|dead_case L].
  pose proof (is_live_lt _ _ L) as Hi. rewrite abs_conts, (C_len st i W Hi) by auto.
  pose proof (set_int_cells st i k v R L) as G. cbv zeta in G.
  destruct (norm_index (Z.of_nat (length (offs (getseq st i)))) k) as [p|e] eqn:N.
  - destruct G as (Hr & ES & HV). pose proof (norm_index_lt _ _ _ N) as Hp.
    split; [exact Hr|].
    pose proof (ok_wf _ (ok_step st (OSetInt i k v) R)) as W'.
    rewrite abs_obj by auto. unfold absO. cbn [a_ids a_store absS]. rewrite (ids_nth st i p W Hi Hp).
    apply abs_written; auto.
    + apply (write_pend st (OSetInt i k v) W eq_refl).
    + intros j q Hj Hq. rewrite (HV j q Hj Hq). rewrite cid_is_cell, (store_len st i p W Hi Hp).
      rewrite (store_V st j q W Hj Hq). reflexivity.
  - destruct G as (Hr & E). rewrite E. split; [exact Hr|apply abs_unchanged_refl].
Qed.

Lemma rows_assigned_cases l vs :
  rows_assigned l vs = if (length vs =? l) || (length vs =? 1)
                       then Some (if length vs =? l then vs else repeat (nth 0 vs 0%Z) l) else None.
Proof.
  unfold rows_assigned. destruct (length vs =? l) eqn:E; cbn [orb]; [reflexivity|].
  destruct vs as [|x [|y vs]]; reflexivity.
Qed.

Lemma sim_set_int_rows st i k vs : wf st ->
  spec_rel (absS st) (OSetIntRows i k vs) (absS (fst (step st (OSetIntRows i k vs)))) (snd (step st (OSetIntRows i k vs))).
Proof.
  intros R. pose proof (ok_wf st R) as W. cbn [spec_rel]. rewrite abs_alive.
  destruct (is_live st i) eqn:L; [|dead_case L].
  pose proof (is_live_lt _ _ L) as Hi. rewrite abs_conts, (C_len st i W Hi) by auto.
  pose proof (set_int_rows_cells st i k vs R L) as G. cbv zeta in G.
  destruct (norm_index (Z.of_nat (length (offs (getseq st i)))) k) as [p|e] eqn:N.
  - pose proof (norm_index_lt _ _ _ N) as Hp.
    rewrite abs_obj by auto. unfold absO. cbn [a_ids a_store absS]. rewrite (ids_nth st i p W Hi Hp).
    rewrite (store_len st i p W Hi Hp), rows_assigned_cases.
    destruct ((length vs =? snd (cell st i p)) || (length vs =? 1)).
    + destruct G as (Hr & ES & HV). split; [exact Hr|].
      pose proof (ok_wf _ (ok_step st (OSetIntRows i k vs) R)) as W'.
      apply abs_written; auto.
      * apply (write_pend st (OSetIntRows i k vs) W eq_refl).
      * intros j q Hj Hq. rewrite (HV j q Hj Hq). rewrite cid_is_cell. rewrite (store_V st j q W Hj Hq). reflexivity.
    + destruct G as (Hr & E). rewrite E. split; [exact Hr|apply abs_unchanged_refl].
  - destruct G as (Hr & E). rewrite E. split; [exact Hr|apply abs_unchanged_refl].
Qed.

(* the loop over array names is the loop over the cells of the target's buffer *)
Lemma aloop_abs_seq h bi jb Rw : forall dstc srcc val valb,
  (forall c, val (bi, c) = valb c) ->
  (jb <> bi -> forall c, val (jb, c) = slice (fst c) (snd c) Rw) ->
  snd (aloop h val (map (pair bi) dstc) (map (pair jb) srcc)) = snd (abs_seq h (jb =? bi) Rw valb dstc srcc) /\
  (forall c, fst (aloop h val (map (pair bi) dstc) (map (pair jb) srcc)) (bi, c) =
             fst (abs_seq h (jb =? bi) Rw valb dstc srcc) c) /\
  (forall b c, b <> bi -> fst (aloop h val (map (pair bi) dstc) (map (pair jb) srcc)) (b, c) = val (b, c)).
Proof.
  induction dstc as [|d dstc IH]; intros srcc val valb H1 H2; [simpl; auto|].
  destruct srcc as [|s srcc]; [simpl; auto|].
  cbn [map aloop abs_seq fst snd].
  assert (E : val (jb, s) = if jb =? bi then valb s else slice (fst s) (snd s) Rw).
  { destruct (Nat.eqb_spec jb bi) as [->|N]; [apply H1|apply H2; auto]. }
  rewrite H1, E.
  destruct (h (snd d) (valb d) (if jb =? bi then valb s else slice (fst s) (snd s) Rw)) as [e|]; [|simpl; auto].
  destruct (IH srcc (fun c => if cid_eqb c (bi, d) then e else val c) (upd_val valb d e)) as (A & B & C0).
  - intros c. unfold cid_eqb, upd_val. cbn [fst snd]. rewrite Nat.eqb_refl. cbn [andb]. rewrite H1. reflexivity.
  - intros N c. unfold cid_eqb. cbn [fst snd]. apply Nat.eqb_neq in N. rewrite N. cbn [andb]. apply H2.
    apply Nat.eqb_neq; auto.
  - split; [exact A|split; [exact B|]].
    intros b c N. rewrite C0 by auto. unfold cid_eqb. cbn [fst snd]. apply Nat.eqb_neq in N. rewrite N. reflexivity.
Qed.

Lemma pick_ids_map st i ps : wf st -> i < length (seqs st) -> Forall (fun p => p < length (offs (getseq st i))) ps ->
  pick_ids (ids st i) ps =
  map (pair (sbuf (getseq st i))) (combine (pick 0 (offs (getseq st i)) ps) (pick 0 (lens (getseq st i)) ps)).
Proof.
  intros W Hi PB. unfold pick_ids. rewrite combine_pick, map_map. apply map_ext_in. intros p Hp.
  rewrite Forall_forall in PB. rewrite ids_nth by auto. reflexivity.
Qed.

Lemma rows_total_picked st i ps : wf st -> i < length (seqs st) -> Forall (fun p => p < length (offs (getseq st i))) ps ->
  rows_total (map (store st) (pick_ids (ids st i) ps)) = sum (pick 0 (lens (getseq st i)) ps).
Proof.
  intros W Hi PB. unfold rows_total, pick_ids, pick. rewrite !map_map. f_equal.
  apply map_ext_in. intros p Hp. rewrite Forall_forall in PB. specialize (PB p Hp).
  rewrite ids_nth by auto. rewrite store_len by auto. reflexivity.
Qed.

(* from the cell valuation of Lemmas2 to `written` *)
Lemma written_from_loop st st' i h dstc (j : nat) : wf st -> wf st' -> i < length (seqs st) ->
  seqs st' = seqs st -> (forall k, k < length (seqs st) -> pend st' k = pend st k) ->
  let bi := sbuf (getseq st i) in
  let jb := sbuf (getseq st j) in
  let a := abs_seq h (jb =? bi) (rows_of st jb) (val0 st bi) dstc (pairs (getseq st j)) in
  (forall x q, x < length (seqs st) -> q < length (offs (getseq st x)) ->
     V st' x q = if sbuf (getseq st x) =? bi then fst a (cell st x q) else V st x q) ->
  let lp := aloop h (store st) (map (pair bi) dstc) (ids st j) in
  snd lp = snd a /\ written (fst lp) (absS st) (absS st').
Proof.
  intros W W' Hi ES HP bi jb a HV lp.
  destruct (aloop_abs_seq h bi jb (rows_of st jb) dstc (pairs (getseq st j)) (store st) (val0 st bi))
    as (A & B & C0); [reflexivity|reflexivity|].
  split; [exact A|].
  apply abs_written; auto. intros x q Hx Hq. rewrite (HV x q Hx Hq). unfold lp, ids. fold jb.
  destruct (Nat.eqb_spec (sbuf (getseq st x)) bi) as [E|N].
  - rewrite E. symmetry. apply B.
  - rewrite C0 by auto. symmetry. apply (store_V st x q W Hx Hq).
Qed.

Lemma existsb_const_and {A} (b : bool) (g : A -> bool) l : existsb (fun p => b && g p) l = b && existsb g l.
Proof. induction l; simpl; [destruct b; reflexivity|]. rewrite IHl. destruct b, (g a); reflexivity. Qed.

Lemma existsb_map {A B} (f : B -> bool) (g : A -> B) l : existsb f (map g l) = existsb (fun x => f (g x)) l.
Proof. induction l; simpl; auto. rewrite IHl. reflexivity. Qed.

Lemma sim_set_idx st i ix v : wf st ->
  spec_rel (absS st) (OSetIdx i ix v) (absS (fst (step st (OSetIdx i ix v)))) (snd (step st (OSetIdx i ix v))).
Proof.
  intros R. pose proof (ok_wf st R) as W. cbn [spec_rel]. rewrite abs_alive.
  destruct (is_live st i) eqn:L; [|dead_case L].
  pose proof (is_live_lt _ _ L) as Hi. rewrite abs_conts, (C_len st i W Hi) by auto.
  destruct (positions (length (offs (getseq st i))) ix) as [ps|e] eqn:P;
    [|unfold step; rewrite L, P; cbn [fst snd]; split; [reflexivity|apply abs_unchanged_refl]].
  pose proof (positions_bound _ _ _ P) as PB.
  pose proof (ok_wf _ (ok_step st (OSetIdx i ix v) R)) as W'.
  rewrite (abs_obj st i Hi). change (a_ids (absO st i)) with (ids st i).
  destruct v as [x|j].
  - (* scalar *)
    pose proof (set_idx_scalar_cells st i ix x R L) as G. cbv zeta in G. rewrite P in G.
    destruct G as (Hr & ES & HV). split; [exact Hr|].
    apply abs_written; auto.
    + apply (write_pend st (OSetIdx i ix (VScalar x)) W eq_refl).
    + intros k q Hk Hq. rewrite (HV k q Hk Hq). cbn [a_store absS].
      rewrite (store_len st k q W Hk Hq), (store_V st k q W Hk Hq).
      replace (existsb (cid_eqb (sbuf (getseq st k), cell st k q)) (pick_ids (ids st i) ps))
        with ((sbuf (getseq st k) =? sbuf (getseq st i)) && existsb (fun p => pair_eqb (cell st k q) (cell st i p)) ps); [reflexivity|].
      rewrite (pick_ids_map st i ps W Hi PB), combine_pick, map_map, existsb_map.
      unfold cid_eqb. cbn [fst snd]. rewrite existsb_const_and. reflexivity.
  - (* another sequence *)
    rewrite abs_alive.
    destruct (is_live st j) eqn:Lj; [|unfold step; rewrite L, P, Lj; cbn [fst snd]; split; [reflexivity|apply abs_unchanged_refl]].
    pose proof (is_live_lt _ _ Lj) as Hj.
    rewrite (abs_conts st j Hj), (C_len st j W Hj).
    cbn [a_store absS]. rewrite (rows_total_picked st i ps W Hi PB).
    assert (RT : rows_total (C st j) = sum (lens (getseq st j))) by (unfold rows_total, C; rewrite contents_lengths; auto).
    rewrite RT.
    destruct (Nat.eqb_spec (length ps) (length (offs (getseq st j)))) as [E1|N1]; cbn [negb].
    2:{ unfold step. rewrite L, P, Lj, pick_length. apply Nat.eqb_neq in N1. rewrite N1. cbn [negb fst snd].
        split; [reflexivity|apply abs_unchanged_refl]. }
    destruct (Nat.eqb_spec (sum (pick 0 (lens (getseq st i)) ps)) (sum (lens (getseq st j)))) as [E2|N2]; cbn [negb].
    2:{ unfold step. rewrite L, P, Lj, pick_length, E1, Nat.eqb_refl. cbn [negb]. apply Nat.eqb_neq in N2. rewrite N2.
        cbn [negb fst snd]. split; [reflexivity|apply abs_unchanged_refl]. }
    destruct (set_idx_seq_full st i ix j ps R L Lj P E1 E2) as (Hr & ES & HV). cbv zeta in *.
    rewrite (abs_obj st j Hj). unfold absO. cbn [a_ids].
    rewrite (pick_ids_map st i ps W Hi PB).
    destruct (written_from_loop st _ i h_assign _ j W W' Hi ES (proj2 (write_pend st (OSetIdx i ix (VSeq j)) W eq_refl)) HV)
      as (A & B). cbv zeta in *.
    split; [rewrite A; exact Hr|exact B].
Qed.

Lemma sim_op_seq_inplace st i g j dt : wf st ->
  spec_rel (absS st) (OOpSeq i g j true dt) (absS (fst (step st (OOpSeq i g j true dt)))) (snd (step st (OOpSeq i g j true dt))).
Proof.
  intros R. pose proof (ok_wf st R) as W. cbn [spec_rel]. rewrite !abs_alive.
  destruct (is_live st i && is_live st j) eqn:L; [|dead_case L].
  apply andb_prop in L. destruct L as (L & Lj).
  pose proof (is_live_lt _ _ L) as Hi. pose proof (is_live_lt _ _ Lj) as Hj.
  rewrite !abs_conts by auto.
  destruct (wf_seq _ W i Hi) as (_ & Si & _). destruct (wf_seq _ W j Hj) as (_ & Sj & _).
  assert (RT : forall k, k < length (seqs st) -> rows_total (C st k) = sum (lens (getseq st k))).
  { intros k Hk. unfold rows_total, C. rewrite contents_lengths; auto. }
  pose proof (conts_nil st i W Hi) as CN.
  rewrite (C_len st i W Hi), (C_len st j W Hj), !RT by auto.
  destruct (Nat.eqb_spec (length (offs (getseq st i))) (length (offs (getseq st j)))) as [E1|N1]; cbn [negb].
  2:{ unfold step. rewrite L, Lj. cbn [andb]. rewrite <- Si, <- Sj. apply Nat.eqb_neq in N1. rewrite N1.
      cbn [negb fst snd]. split; [reflexivity|apply abs_unchanged_refl]. }
  destruct (Nat.eqb_spec (sum (lens (getseq st i))) (sum (lens (getseq st j)))) as [E2|N2]; cbn [negb].
  2:{ unfold step. rewrite L, Lj. cbn [andb]. rewrite <- Si, <- Sj, E1, Nat.eqb_refl. cbn [negb].
      apply Nat.eqb_neq in N2. rewrite N2. cbn [negb fst snd]. split; [reflexivity|apply abs_unchanged_refl]. }
  destruct (C st i) as [|c0 cs] eqn:EC.
  - assert (EO : offs (getseq st i) = []) by (apply CN; reflexivity).
    unfold step. rewrite L, Lj. cbn [andb]. rewrite <- Si, <- Sj, E1, Nat.eqb_refl. cbn [negb]. rewrite E2, Nat.eqb_refl. cbn [negb].
    rewrite EO. cbn [fst snd]. split; [reflexivity|apply abs_unchanged_refl].
  - assert (NE : offs (getseq st i) <> []) by (intros E; apply CN in E; congruence).
    destruct (op_seq_inplace_full st i g j dt R L Lj ltac:(lia) E2 NE) as (Hr & ES & HV). cbv zeta in *.
    pose proof (ok_wf _ (ok_step st (OOpSeq i g j true dt) R)) as W'.
    rewrite (abs_obj st i Hi), (abs_obj st j Hj). unfold absO. cbn [a_ids a_store absS].
    destruct (written_from_loop st _ i (h_op (apply_fn2 g)) (pairs (getseq st i)) j W W' Hi ES
                (proj2 (write_pend st (OOpSeq i g j true dt) W eq_refl)) HV) as (A & B). cbv zeta in *.
    change (map (pair (sbuf (getseq st i))) (pairs (getseq st i))) with (ids st i) in A, B.
    split; [rewrite A; exact Hr|exact B].
Qed.

Lemma sim_op_refused st i oj : wf st ->
  spec_rel (absS st) (OOpRefused i oj) (absS (fst (step st (OOpRefused i oj)))) (snd (step st (OOpRefused i oj))).
Proof.
  intros R. pose proof (ok_wf st R) as W. cbn [spec_rel].
  destruct (op_refused_nothing st i oj) as (E & _). rewrite E. split; [apply abs_unchanged_refl|].
  assert (RT : forall k, k < length (seqs st) -> rows_total (C st k) = sum (lens (getseq st k))).
  { intros k Hk. unfold rows_total, C. rewrite contents_lengths; auto. }
  assert (EM : forall (X : Type) (x y : X), is_live st i = true ->
             match conts (absS st) i with [] => x | _ => y end = match offs (getseq st i) with [] => x | _ => y end).
  { intros X x y L. pose proof (is_live_lt _ _ L) as Hi. rewrite abs_conts by auto.
    pose proof (conts_nil st i W Hi) as CN. destruct (C st i) eqn:EC.
    - rewrite (proj1 CN eq_refl). reflexivity.
    - destruct (offs (getseq st i)) eqn:EO; [|reflexivity]. exfalso. destruct CN as (_ & CN).
      specialize (CN eq_refl). discriminate. }
  rewrite abs_alive. destruct oj as [j|].
  - rewrite abs_alive. unfold step. destruct (is_live st i && is_live st j) eqn:L; [|reflexivity].
    apply andb_prop in L. destruct L as (L & Lj).
    pose proof (is_live_lt _ _ L) as Hi. pose proof (is_live_lt _ _ Lj) as Hj.
    rewrite (EM _ _ _ L). rewrite !abs_conts by auto.
    destruct (wf_seq _ W i Hi) as (_ & Si & _). destruct (wf_seq _ W j Hj) as (_ & Sj & _).
    rewrite (C_len st i W Hi), (C_len st j W Hj), !RT by auto. rewrite <- Si, <- Sj.
    destruct (negb _ || negb _); [reflexivity|]. destruct (offs (getseq st i)); reflexivity.
  - unfold step. rewrite andb_true_r. destruct (is_live st i) eqn:L; [|reflexivity].
    rewrite (EM _ _ _ eq_refl). destruct (offs (getseq st i)); reflexivity.
Qed.

(* ---------------------------------------------------------------- the theorem *)
Theorem simulation_all st o : wf st ->
  spec_rel (absS st) o (absS (fst (step st o))) (snd (step st o)).
Proof.
  intros R. destruct o.
  - apply sim_new; auto.
  - apply sim_append; auto.
  - apply sim_finalize; auto.
  - apply sim_extend; auto.
  - apply sim_extend_seq; auto.
  - apply sim_get_int; auto.
  - apply sim_get_idx; auto.
  - apply sim_view; auto.
  - apply sim_copy; auto.
  - apply sim_set_int; auto.
  - apply sim_set_int_rows; auto.
  - apply sim_set_idx; auto.
  - destruct inplace; [apply sim_op_inplace|apply sim_op_copy]; auto.
  - apply sim_concat; auto.
  - apply sim_drop; auto.
  - destruct inplace; [apply sim_op_seq_inplace|apply sim_op_seq_copy]; auto.
  - apply sim_append_bad; auto.
  - apply sim_op_refused; auto.
  - apply sim_shrink; auto.
  - apply sim_concat1; auto.
  - apply sim_get_cols; auto.
  - apply sim_deep_copy; auto.
  - apply sim_extend_bad; auto.
Qed.

(* ---------------------------------------------------------------- histories *)
Fixpoint results (st : state) (ops : list op) : list result :=
  match ops with [] => [] | o :: r => snd (step st o) :: results (fst (step st o)) r end.

(* a run of the abstract machine: every step is allowed by spec_rel *)
Inductive arun : astate -> list op -> astate -> list result -> Prop :=
  | arun_nil a : arun a [] a []
  | arun_cons a o a1 r ops a2 rs : spec_rel a o a1 r -> arun a1 ops a2 rs -> arun a (o :: ops) a2 (r :: rs).

Lemma exec_cons st o ops : exec st (o :: ops) = exec (fst (step st o)) ops.
Proof. reflexivity. Qed.

(* for EVERY history: the implementation model's abstraction is reached by a run of the list-of-arrays
   machine with the same outputs; and what an object shows (C) is what that abstract state holds *)
Theorem histories_list_model ops : forall st, wf st ->
  arun (absS st) ops (absS (exec st ops)) (results st ops) /\
  forall k, k < length (seqs (exec st ops)) -> conts (absS (exec st ops)) k = C (exec st ops) k.
Proof.
  induction ops as [|o ops IH]; intros st R.
  - split; [constructor|intros; apply abs_conts; auto].
  - rewrite exec_cons. destruct (IH _ (ok_step st o R)) as (A & B). split; [|exact B].
    cbn [results]. econstructor; [apply simulation_all; auto|exact A].
Qed.
