(* C15/Lemmas2.v — element-by-element operations whose source is another sequence, possibly on the
   SAME buffer as the target: seq_i[idx] = seq_j and seq_i <op>= seq_j.  Both run an abstract
   machine over a valuation of the cells of the target's buffer (abs_seq); the concrete loops
   (assign_seq, op_seq_inplace) are instances of one generic loop (gen_seq). *)
From Coq Require Import ZArith List Bool Arith Lia.
From NV Require Import C15.Model C15.ListLemmas C15.Invariant C15.Steps C15.Steps2 C15.Lemmas.
Import ListNotations.

Definition cellv := nat * nat -> list Z.
Definition upd_val (val : cellv) (c : nat * nat) (e : list Z) : cellv :=
  fun c' => if pair_eqb c' c then e else val c'.

(* h l1 old src = what is stored into the l1 rows `old` given the source rows, None = ValueError *)
Fixpoint gen_seq (h : nat -> list Z -> list Z -> option (list Z)) (st : state) (bid : nat)
         (dst : list (nat * nat)) (jb : nat) (src : list (nat * nat)) : state * option err :=
  match dst, src with
  | (o1, l1) :: dr, (o2, l2) :: sr =>
    match h l1 (slice o1 l1 (rows (getbuf (heap st) bid))) (slice o2 l2 (rows (getbuf (heap st) jb))) with
    | Some e => gen_seq h (write_buf st bid o1 e) bid dr jb sr
    | None => (st, Some EValue)
    end
  | _, _ => (st, None)
  end.

(* the same loop on a valuation of cells: element after element, a source on the same buffer is read
   from the CURRENT valuation (it sees what earlier iterations wrote), a source elsewhere from R *)
Fixpoint abs_seq (h : nat -> list Z -> list Z -> option (list Z)) (same : bool) (R : list Z)
         (val : cellv) (dst src : list (nat * nat)) : cellv * option err :=
  match dst, src with
  | d :: dr, s :: sr =>
    match h (snd d) (val d) (if same then val s else slice (fst s) (snd s) R) with
    | Some e => abs_seq h same R (upd_val val d e) dr sr
    | None => (val, Some EValue)
    end
  | _, _ => (val, None)
  end.

Definition h_assign : nat -> list Z -> list Z -> option (list Z) := fun l _ s => rows_assigned l s.
Definition h_op (g : Z -> Z -> Z) : nat -> list Z -> list Z -> option (list Z) := fun _ a b => elem_op g a b.

Lemma assign_seq_gen : forall dst src st bid jb,
  assign_seq st bid dst jb src = gen_seq h_assign st bid dst jb src.
Proof.
  induction dst as [|(o1, l1) dst IH]; intros [|(o2, l2) src] st bid jb; try reflexivity.
  rewrite assign_seq_cons, assign_rows_assigned. cbn [gen_seq]. unfold h_assign at 1.
  destruct (rows_assigned _ _); auto.
Qed.

Lemma op_seq_inplace_gen g : forall dst src st bid jb,
  op_seq_inplace st bid g dst jb src = gen_seq (h_op g) st bid dst jb src.
Proof.
  induction dst as [|(o1, l1) dst IH]; intros [|(o2, l2) src] st bid jb; try reflexivity.
  change (op_seq_inplace st bid g ((o1, l1) :: dst) jb ((o2, l2) :: src)) with
    (match elem_op g (slice o1 l1 (rows (getbuf (heap st) bid))) (slice o2 l2 (rows (getbuf (heap st) jb))) with
     | Some e => op_seq_inplace (write_buf st bid o1 e) bid g dst jb src
     | None => (st, Some EValue) end).
  cbn [gen_seq]. unfold h_op at 1. destruct (elem_op _ _ _); auto.
Qed.

(* the valuation agrees with the rows of the target's buffer on every cell of every object on it *)
Definition agree (st0 : state) (i : nat) (s : state) (val : cellv) : Prop :=
  forall x c, x < length (seqs st0) -> sbuf (getseq st0 x) = sbuf (getseq st0 i) ->
    In c (pairs (getseq st0 x)) ->
    slice (fst c) (snd c) (rows_of s (sbuf (getseq st0 i))) = val c.

Lemma gen_seq_cells st0 i h jb R :
  (forall l a b e, h l a b = Some e -> length a = l -> length e = l) ->
  forall dst src s val, stable st0 s -> i < length (seqs st0) ->
  incl dst (pairs (getseq st0 i)) ->
  (jb <> sbuf (getseq st0 i) -> rows_of s jb = R) ->
  (jb = sbuf (getseq st0 i) ->
     exists j, j < length (seqs st0) /\ sbuf (getseq st0 j) = sbuf (getseq st0 i) /\
               incl src (pairs (getseq st0 j))) ->
  agree st0 i s val ->
  snd (gen_seq h s (sbuf (getseq st0 i)) dst jb src) =
    snd (abs_seq h (jb =? sbuf (getseq st0 i)) R val dst src) /\
  stable st0 (fst (gen_seq h s (sbuf (getseq st0 i)) dst jb src)) /\
  agree st0 i (fst (gen_seq h s (sbuf (getseq st0 i)) dst jb src))
        (fst (abs_seq h (jb =? sbuf (getseq st0 i)) R val dst src)) /\
  (forall b, b <> sbuf (getseq st0 i) ->
     rows_of (fst (gen_seq h s (sbuf (getseq st0 i)) dst jb src)) b = rows_of s b).
Proof.
  intros Hh. set (bi := sbuf (getseq st0 i)).
  induction dst as [|(o1, l1) dst IH]; intros src s val HS Hi Hincl HR HJ HA.
  - simpl. auto.
  - destruct src as [|(o2, l2) src]; [simpl; auto|].
    assert (Hin : In (o1, l1) (pairs (getseq st0 i))) by (apply Hincl; left; auto).
    assert (Hincl' : incl dst (pairs (getseq st0 i))) by (intros y Hy; apply Hincl; right; auto).
    cbn [gen_seq abs_seq fst snd].
    change (rows (getbuf (heap s) bi)) with (rows_of s bi).
    change (rows (getbuf (heap s) jb)) with (rows_of s jb).
    (* both machines evaluate h on the same arguments *)
    assert (E1 : slice o1 l1 (rows_of s bi) = val (o1, l1)) by (apply (HA i (o1, l1) Hi eq_refl Hin)).
    assert (E2 : slice o2 l2 (rows_of s jb) = if jb =? bi then val (o2, l2) else slice o2 l2 R).
    { destruct (Nat.eqb_spec jb bi) as [E|N].
      - destruct (HJ E) as (j & Hj & Hsj & Hinj). rewrite E.
        apply (HA j (o2, l2) Hj Hsj). apply Hinj. left; auto.
      - rewrite (HR N). reflexivity. }
    rewrite E1, E2.
    destruct (h l1 (val (o1, l1)) (if jb =? bi then val (o2, l2) else slice o2 l2 R)) as [e|] eqn:EH.
    + assert (Le : length e = l1).
      { apply (Hh _ _ _ _ EH). rewrite <- E1. apply slice_length.
        apply (stable_in_bounds st0 s i o1 l1); auto. }
      pose proof (stable_write st0 s i o1 l1 e HS Hi Hin Le) as HS1. fold bi in HS1.
      destruct HS as (W & ES & EH').
      assert (G : forall k, getseq s k = getseq st0 k) by (intros; apply getseq_seqs_eq; auto).
      assert (Hi' : i < length (seqs s)) by (rewrite ES; auto).
      pose proof (write_elem_spec s i o1 l1 e W Hi') as WS. rewrite G in WS. fold bi in WS.
      destruct (WS Hin Le) as (_ & _ & _ & RO & _ & RS).
      set (s1 := write_buf s bi o1 e) in *.
      assert (HA1 : agree st0 i s1 (upd_val val (o1, l1) e)).
      { intros x c Hx Hsx Hc. fold bi. destruct c as (oc, lc). cbn [fst snd].
        rewrite <- (G x) in Hsx, Hc. rewrite (RS x oc lc ltac:(rewrite ES; auto) Hsx Hc).
        unfold upd_val, pair_eqb. cbn [fst snd].
        destruct ((oc =? o1) && (lc =? l1)); auto.
        rewrite (G x) in Hsx, Hc. apply (HA x (oc, lc) Hx Hsx Hc). }
      assert (HR1 : jb <> bi -> rows_of s1 jb = R) by (intros N; rewrite RO; auto).
      assert (HJ1 : jb = bi -> exists j, j < length (seqs st0) /\ sbuf (getseq st0 j) = bi /\ incl src (pairs (getseq st0 j))).
      { intros E. destruct (HJ E) as (j & A & B & C0). exists j. split; [auto|split; [auto|]].
        intros y Hy. apply C0. right; auto. }
      destruct (IH src s1 _ HS1 Hi Hincl' HR1 HJ1 HA1) as (I1 & I2 & I3 & I4).
      split; [exact I1|split; [exact I2|split; [exact I3|]]].
      intros b Hb. rewrite I4 by auto. apply RO; auto.
    + cbn [fst snd]. auto.
Qed.

(* from the final valuation to the value of every element of every object *)
Lemma agree_V st0 i s val : stable st0 s -> agree st0 i s val ->
  (forall b, b <> sbuf (getseq st0 i) -> rows_of s b = rows_of st0 b) -> wf st0 ->
  forall x q, x < length (seqs st0) -> q < length (offs (getseq st0 x)) ->
    V s x q = if sbuf (getseq st0 x) =? sbuf (getseq st0 i) then val (cell st0 x q) else V st0 x q.
Proof.
  intros (W & ES & EH) HA HO W0 x q Hx Hq.
  assert (G : getseq s x = getseq st0 x) by (apply getseq_seqs_eq; auto).
  rewrite (V_slice s x q W) by (rewrite ?ES, ?G; auto).
  rewrite (V_slice st0 x q W0 Hx Hq).
  unfold cell. rewrite G. cbn [fst snd].
  destruct (Nat.eqb_spec (sbuf (getseq st0 x)) (sbuf (getseq st0 i))) as [E|N].
  - rewrite E. apply (HA x (nth q (offs (getseq st0 x)) 0, nth q (lens (getseq st0 x)) 0) Hx E).
    apply pairs_nth; auto.
  - rewrite HO by auto. reflexivity.
Qed.

Definition val0 (st : state) (b : nat) : cellv := fun c => slice (fst c) (snd c) (rows_of st b).

Lemma agree_val0 st i : agree st i st (val0 st (sbuf (getseq st i))).
Proof. intros x c _ _ _. reflexivity. Qed.

Lemma h_assign_len l a b e : h_assign l a b = Some e -> length a = l -> length e = l.
Proof. intros H _. apply (rows_assigned_length _ _ _ H). Qed.
Lemma h_op_len g l a b e : h_op g l a b = Some e -> length a = l -> length e = l.
Proof. intros H L. unfold h_op in H. rewrite (elem_op_length _ _ _ _ H). exact L. Qed.

(* the generic top-level statement *)
Lemma gen_seq_top st i j h dst : wf st -> i < length (seqs st) -> j < length (seqs st) ->
  (forall l a b e, h l a b = Some e -> length a = l -> length e = l) ->
  incl dst (pairs (getseq st i)) ->
  let bi := sbuf (getseq st i) in
  let jb := sbuf (getseq st j) in
  let r := gen_seq h st bi dst jb (pairs (getseq st j)) in
  let a := abs_seq h (jb =? bi) (rows_of st jb) (val0 st bi) dst (pairs (getseq st j)) in
  snd r = snd a /\ seqs (fst r) = seqs st /\ wf (fst r) /\
  forall x q, x < length (seqs st) -> q < length (offs (getseq st x)) ->
    V (fst r) x q = if sbuf (getseq st x) =? bi then fst a (cell st x q) else V st x q.
Proof.
  intros W Hi Hj Hh Hincl bi jb r a.
  destruct (gen_seq_cells st i h jb (rows_of st jb) Hh dst (pairs (getseq st j)) st (val0 st bi)
              (stable_refl st W) Hi Hincl (fun _ => eq_refl)
              (fun E => ex_intro _ j (conj Hj (conj E (incl_refl _)))) (agree_val0 st i))
    as (A1 & A2 & A3 & A4).
  split; [exact A1|split; [apply A2|split; [apply A2|]]].
  intros x q Hx Hq. apply (agree_V st i _ _ A2 A3 A4 W x q Hx Hq).
Qed.

(* ---------------------------------------------------------------- seq_i[idx] = seq_j, any j *)
Lemma set_idx_seq_full st i ix j ps : wf st -> is_live st i = true -> is_live st j = true ->
  positions (length (offs (getseq st i))) ix = Ok ps ->
  let dst := combine (pick 0 (offs (getseq st i)) ps) (pick 0 (lens (getseq st i)) ps) in
  let bi := sbuf (getseq st i) in
  let jb := sbuf (getseq st j) in
  length ps = length (offs (getseq st j)) ->
  sum (pick 0 (lens (getseq st i)) ps) = sum (lens (getseq st j)) ->
  let a := abs_seq h_assign (jb =? bi) (rows_of st jb) (val0 st bi) dst (pairs (getseq st j)) in
  let st' := fst (step st (OSetIdx i ix (VSeq j))) in
  snd (step st (OSetIdx i ix (VSeq j))) = match snd a with None => ROk | Some e => RErr e end /\
  seqs st' = seqs st /\
  forall x q, x < length (seqs st) -> q < length (offs (getseq st x)) ->
    V st' x q = if sbuf (getseq st x) =? bi then fst a (cell st x q) else V st x q.
Proof.
  intros Rch L Lj P dst bi jb H1 H2 a.
  pose proof (ok_wf st Rch) as W. cbv zeta. unfold step. rewrite L, Lj, P.
  apply is_live_lt in L. apply is_live_lt in Lj. destruct (wf_seq _ W i L) as (_ & S2 & _).
  rewrite pick_length, H1, Nat.eqb_refl. cbn [negb]. rewrite H2, Nat.eqb_refl. cbn [negb].
  apply positions_bound in P.
  assert (INC : incl dst (pairs (getseq st i))) by (apply incl_pick; auto).
  destruct (gen_seq_top st i j h_assign dst W L Lj h_assign_len INC) as (A1 & A2 & _ & A4).
  fold dst. fold bi. change (combine (offs (getseq st j)) (lens (getseq st j))) with (pairs (getseq st j)).
  rewrite assign_seq_gen. fold jb. fold bi jb in A1, A2, A4. fold a in A1, A4.
  destruct (gen_seq h_assign st bi dst jb (pairs (getseq st j))) as [st1 er]. cbn [fst snd] in *.
  rewrite <- A1. destruct er; cbn [fst snd]; auto.
Qed.

(* ---------------------------------------------------------------- seq_i <op>= seq_j, any j *)
Lemma op_seq_inplace_full st i g j dt : wf st -> is_live st i = true -> is_live st j = true ->
  length (lens (getseq st i)) = length (lens (getseq st j)) ->
  sum (lens (getseq st i)) = sum (lens (getseq st j)) ->
  offs (getseq st i) <> [] ->
  let bi := sbuf (getseq st i) in
  let jb := sbuf (getseq st j) in
  let a := abs_seq (h_op (apply_fn2 g)) (jb =? bi) (rows_of st jb) (val0 st bi)
                   (pairs (getseq st i)) (pairs (getseq st j)) in
  let st' := fst (step st (OOpSeq i g j true dt)) in
  snd (step st (OOpSeq i g j true dt)) = match snd a with None => ROk | Some e => RErr e end /\
  seqs st' = seqs st /\
  forall x q, x < length (seqs st) -> q < length (offs (getseq st x)) ->
    V st' x q = if sbuf (getseq st x) =? bi then fst a (cell st x q) else V st x q.
Proof.
  intros Rch L Lj H1 H2 NE bi jb a.
  pose proof (ok_wf st Rch) as W. cbv zeta. unfold step. rewrite L, Lj. cbn [andb].
  apply is_live_lt in L. apply is_live_lt in Lj.
  rewrite H1, Nat.eqb_refl. cbn [negb]. rewrite H2, Nat.eqb_refl. cbn [negb].
  destruct (offs (getseq st i)) as [|o0 os0] eqn:EO; [congruence|]. rewrite <- EO.
  destruct (gen_seq_top st i j (h_op (apply_fn2 g)) (pairs (getseq st i)) W L Lj (h_op_len _) (incl_refl _))
    as (A1 & A2 & _ & A4).
  change (combine (offs (getseq st i)) (lens (getseq st i))) with (pairs (getseq st i)).
  change (combine (offs (getseq st j)) (lens (getseq st j))) with (pairs (getseq st j)).
  rewrite op_seq_inplace_gen. fold bi jb. fold bi jb in A1, A2, A4. fold a in A1, A4.
  destruct (gen_seq (h_op (apply_fn2 g)) st bi (pairs (getseq st i)) jb (pairs (getseq st j))) as [st1 er].
  cbn [fst snd] in *. rewrite <- A1. destruct er; cbn [fst snd]; auto.
Qed.

(* ---------------------------------------------------------------- seq_i <op> seq_j out of place *)
Fixpoint op_seq_elems (g : Z -> Z -> Z) (a b : list (list Z)) : option (list (list Z)) :=
  match a, b with
  | x :: a', y :: b' => match elem_op g x y, op_seq_elems g a' b' with
                        | Some e, Some r => Some (e :: r)
                        | _, _ => None
                        end
  | _, _ => Some []
  end.

Lemma op_seq_rows_elems g : forall a b,
  op_seq_rows g a b = match op_seq_elems g a b with Some els => Some (concat els) | None => None end.
Proof.
  induction a as [|x a IH]; intros [|y b]; try reflexivity.
  change (op_seq_rows g (x :: a) (y :: b)) with
    (match elem_op g x y, op_seq_rows g a b with Some e, Some r => Some (e ++ r) | _, _ => None end).
  cbn [op_seq_elems]. rewrite IH. destruct (elem_op g x y); auto. destruct (op_seq_elems g a b); auto.
Qed.

Lemma op_seq_elems_lengths g : forall a b els, op_seq_elems g a b = Some els -> length a <= length b ->
  map (@length Z) els = map (@length Z) a.
Proof.
  induction a as [|x a IH]; intros b els H HL; simpl in *.
  - inversion H; auto.
  - destruct b as [|y b]; [simpl in HL; lia|].
    destruct (elem_op g x y) eqn:E1; [|discriminate].
    destruct (op_seq_elems g a b) eqn:E2; [|discriminate].
    inversion H; subst. simpl. rewrite (elem_op_length _ _ _ _ E1). f_equal. apply (IH b); auto. simpl in HL; lia.
Qed.

(* copy(), an optional astype, then new rows: what the fresh object shows, nothing else changes *)
Lemma copy_set_spec st i (dt : bool) r : wf st -> i < length (seqs st) ->
  let st1 := do_copy st i in
  let k := length (seqs st) in
  let b := getbuf (heap st1) (sbuf (getseq st1 k)) in
  let st2 := if dt then new_buf_for st1 k b else st1 in
  let st3 := set_buf st2 (sbuf (getseq st2 k)) (mkBuf (cap b) r) in
  C st3 k = elems_of r (cum_from 0 (lens (getseq st i))) (lens (getseq st i)) /\
  (forall j, j < length (seqs st) -> getseq st3 j = getseq st j /\ C st3 j = C st j).
Proof.
  intros W L. cbv zeta.
  destruct (do_copy_spec st i W L) as (W1 & K1 & L1 & G1 & C1 & R1).
  set (st1 := do_copy st i) in *. set (k := length (seqs st)) in *.
  assert (Hk : k < length (seqs st1)) by lia.
  destruct K1 as (K11 & K12 & K13 & K14).
  assert (HB : sbuf (getseq st1 k) = length (heap st)) by (rewrite G1; reflexivity).
  assert (LH1 : length (heap st1) = S (length (heap st))).
  { unfold st1, do_copy; simpl. rewrite app_length; simpl; lia. }
  set (b := getbuf (heap st1) (sbuf (getseq st1 k))).
  set (st2 := if dt then new_buf_for st1 k b else st1).
  assert (P2 : length (heap st) <= sbuf (getseq st2 k) /\ sbuf (getseq st2 k) < length (heap st2) /\
               offs (getseq st2 k) = offs (getseq st1 k) /\ lens (getseq st2 k) = lens (getseq st1 k) /\
               (forall j, j < length (seqs st) -> getseq st2 j = getseq st j) /\
               (forall b', b' < length (heap st) -> getbuf (heap st2) b' = getbuf (heap st) b')).
  { unfold st2. destruct dt.
    - rewrite getseq_new_buf_for, Nat.eqb_refl by auto. cbn [sbuf offs lens].
      split; [lia|split; [unfold new_buf_for; cbn [heap]; rewrite app_length; cbn [length]; lia|split; [auto|split; [auto|]]]].
      split.
      + intros j Hj. rewrite getseq_new_buf_for by auto.
        assert (E : (j =? k) = false) by (apply Nat.eqb_neq; unfold k; lia). rewrite E. apply K13; auto.
      + intros b' Hb'. unfold new_buf_for; cbn [heap]. rewrite getbuf_app_old by lia. apply K14; auto.
    - rewrite HB. split; [lia|split; [lia|auto]]. }
  destruct P2 as (P21 & P22 & P23 & P24 & P25 & P26).
  set (st3 := set_buf st2 (sbuf (getseq st2 k)) (mkBuf (cap b) r)).
  assert (G3 : forall j, getseq st3 j = getseq st2 j) by reflexivity.
  split.
  - unfold C. rewrite G3. unfold contents.
    change (rows (getbuf (heap st3) (sbuf (getseq st2 k)))) with (rows_of st3 (sbuf (getseq st2 k))).
    unfold st3. rewrite rows_of_set_buf, Nat.eqb_refl by auto. cbn [rows].
    rewrite P23, P24, G1. reflexivity.
  - intros j Hj. rewrite G3, P25 by auto. split; [auto|].
    unfold C. rewrite G3, P25 by auto. unfold contents.
    pose proof (wf_seq _ W j Hj) as (Sj & _).
    change (rows (getbuf (heap st3) (sbuf (getseq st j)))) with (rows_of st3 (sbuf (getseq st j))).
    unfold st3. rewrite rows_of_set_buf by auto.
    assert (E : (sbuf (getseq st j) =? sbuf (getseq st2 k)) = false) by (apply Nat.eqb_neq; lia).
    rewrite E. unfold rows_of. rewrite P26 by auto. reflexivity.
Qed.

Lemma op_seq_copy_full st i g j dt : wf st -> is_live st i = true -> is_live st j = true ->
  length (lens (getseq st i)) = length (lens (getseq st j)) ->
  sum (lens (getseq st i)) = sum (lens (getseq st j)) ->
  offs (getseq st i) <> [] ->
  let st' := fst (step st (OOpSeq i g j false dt)) in
  match op_seq_elems (apply_fn2 g) (C st i) (C st j) with
  | Some els =>
    snd (step st (OOpSeq i g j false dt)) = ROk /\ C st' (length (seqs st)) = els /\
    (forall k, k < length (seqs st) -> getseq st' k = getseq st k /\ C st' k = C st k)
  | None => snd (step st (OOpSeq i g j false dt)) = RErr EValue /\ st' = st
  end.
Proof.
  intros Rch L Lj H1 H2 NE.
  pose proof (ok_wf st Rch) as W. cbv zeta. unfold step. rewrite L, Lj. cbn [andb].
  apply is_live_lt in L. apply is_live_lt in Lj.
  rewrite H1, Nat.eqb_refl. cbn [negb]. rewrite H2, Nat.eqb_refl. cbn [negb].
  destruct (offs (getseq st i)) as [|o0 os0] eqn:EO; [congruence|]. clear NE EO o0 os0.
  rewrite op_seq_rows_elems. fold (C st i). fold (C st j).
  destruct (op_seq_elems (apply_fn2 g) (C st i) (C st j)) as [els|] eqn:EE; cbn [fst snd]; [|auto].
  split; [auto|].
  destruct (copy_set_spec st i dt (concat els) W L) as (A & B).
  split; [|exact B]. rewrite A.
  assert (LL : map (@length Z) els = lens (getseq st i)).
  { rewrite (op_seq_elems_lengths _ _ _ _ EE).
    - apply contents_lengths; auto.
    - unfold C, contents, elems_of. rewrite !map_length, !combine_length.
      destruct (wf_seq _ W i L) as (_ & X & _). destruct (wf_seq _ W j Lj) as (_ & Y & _). lia. }
  rewrite <- LL.
  pose proof (elems_of_compact els [] []) as EC. simpl in EC. rewrite app_nil_r in EC. exact EC.
Qed.
