(* C15/Links.v — the sharing relation of the abstract "lists with sharing" view and how every
   operation changes it.  R st x q y q' = element q of object x and element q' of object y are the
   SAME array (same buffer, same rows).  Assignments and in-place operators are functions of
   (contents, R) (cell theorems) and leave R alone; indexing / the view constructor link the new
   object to its parent position by position; copies and out-of-place results are linked to nothing;
   growth leaves all links between other objects alone, may CUT links of the grown object (S-C15d)
   and never creates one. *)
From Coq Require Import ZArith List Bool Arith Lia.
From NV Require Import C15.Model C15.ListLemmas C15.Invariant C15.Steps C15.Steps2 C15.Lemmas C15.Lemmas2
                       C15.Simulation.
Import ListNotations.

Definition R (st : state) (x q y q' : nat) : bool :=
  is_cell st x q (sbuf (getseq st y)) (cell st y q').

Lemma R_seqs st st' : seqs st' = seqs st -> forall x q y q', R st' x q y q' = R st x q y q'.
Proof.
  intros E x q y q'. unfold R, is_cell, cell. rewrite !(getseq_seqs_eq st st') by auto. reflexivity.
Qed.

Lemma R_getseq st st' x y : getseq st' x = getseq st x -> getseq st' y = getseq st y ->
  forall q q', R st' x q y q' = R st x q y q'.
Proof. intros Ex Ey q q'. unfold R, is_cell, cell. rewrite Ex, Ey. reflexivity. Qed.

(* ---------------------------------------------------------------- a grown view moves (or nothing happened) *)
Lemma detach_idem st i : i < length (seqs st) -> detach (detach st i) i = detach st i.
Proof. intros Hi. unfold detach at 1. rewrite detach_not_view by auto. reflexivity. Qed.

Lemma extend_gen_view_moved st i bpr pre els f x : wf st -> i < length (seqs st) ->
  is_view (getseq st i) = true ->
  extend_gen st i bpr pre els f x = st \/ length (heap st) <= sbuf (getseq (extend_gen st i bpr pre els f x) i).
Proof.
  intros W Hi Hv.
  destruct pre.
  - destruct els as [|e0 els0]; [left; reflexivity|right].
    destruct (detach_spec st i W Hi) as (Wa & F0 & Va & _ & _ & _ & _ & _ & VW0). cbv zeta in *.
    set (sa := detach st i) in *.
    assert (Hia : i < length (seqs sa)) by (unfold sa; rewrite seqs_len_detach; auto).
    assert (E : extend_gen st i bpr true (e0 :: els0) f x = extend_gen sa i bpr true (e0 :: els0) f x).
    { assert (D : detach sa i = sa) by (unfold sa; apply detach_idem; auto).
      unfold extend_gen, mk_cache. rewrite D. reflexivity. }
    rewrite E.
    destruct (extend_gen_spec sa i bpr true (e0 :: els0) f x Wa Hia) as (_ & FR & _).
    destruct (FR 0 ltac:(intros; lia)) as (_ & _ & _ & [C4|C4] & _).
    + rewrite C4, (VW0 Hv). lia.
    + destruct (F0 0) as (_ & H2 & _). lia.
  - unfold extend_gen. cbn [andb].
    destruct (fold_append_spec bpr i els st W Hi) as (W2 & _ & _ & _ & _ & _ & M2). cbv zeta in *.
    destruct (M2 Hv) as [E|(V2 & MV)].
    + left. rewrite E. unfold finalize. rewrite (wf_view_no_cache st i W Hi Hv). reflexivity.
    + right. set (st2 := fold_left _ els st) in *.
      assert (Hi2 : i < length (seqs st2)) by (unfold st2; rewrite seqs_len_fold_append; auto).
      destruct (finalize_spec st2 i W2 Hi2) as (_ & _ & _ & _ & _ & _ & _ & SB). cbv zeta in SB.
      rewrite SB. exact MV.
Qed.

Lemma extend_view_moved st i bpr pre els f : wf st -> i < length (seqs st) ->
  is_view (getseq st i) = true ->
  extend st i bpr pre els f = st \/ length (heap st) <= sbuf (getseq (extend st i bpr pre els f) i).
Proof. apply extend_gen_view_moved. Qed.

(* ---------------------------------------------------------------- growth: cut or keep, never create *)
Lemma grow_cases st o i : wf st -> grows o i -> i < length (seqs st) ->
  let st' := fst (step st o) in
  st' = st \/ length (heap st) <= sbuf (getseq st' i) \/
  (is_view (getseq st i) = false /\ sbuf (getseq st' i) = sbuf (getseq st i)).
Proof.
  intros Rch G Hi. pose proof (ok_wf st Rch) as W. cbv zeta.
  destruct o; simpl in G; try tauto; subst; simpl.
  - (* append *)
    destruct (is_live st i) eqn:L; [|left; reflexivity]. cbn [fst].
    destruct e as [|z e]; [left; apply do_append_nil|].
    destruct (do_append_spec st i bpr (z :: e) cb W Hi ltac:(discriminate)) as (_ & FR & _ & _ & _ & _ & _ & _ & _ & M2).
    destruct (is_view (getseq st i)) eqn:Ev.
    + right; left. apply M2; auto.
    + destruct (FR 0 ltac:(intros; lia)) as (_ & _ & _ & [C4|C4] & _); [right; right; auto|right; left; auto].
  - (* finalize_append *)
    destruct (is_live st i) eqn:L; [|left; reflexivity]. cbn [fst].
    destruct (is_view (getseq st i)) eqn:Ev.
    + left. unfold finalize. rewrite (wf_view_no_cache st i W Hi Ev). reflexivity.
    + right; right. split; [auto|]. apply (finalize_spec st i W Hi).
  - (* extend *)
    destruct (is_live st i) eqn:L; [|left; reflexivity]. cbn [fst].
    destruct (is_view (getseq st i)) eqn:Ev.
    + destruct (extend_view_moved st i bpr pre els false W Hi Ev); auto.
    + destruct (extend_spec st i bpr pre els false W Hi) as (_ & FR & _).
      destruct (FR 0 ltac:(intros; lia)) as (_ & _ & _ & [C4|C4] & _); [right; right; auto|right; left; auto].
  - (* extend(sequence) *)
    destruct (is_live st i && is_live st j) eqn:L; [|left; reflexivity]. cbn [fst].
    destruct (is_view (getseq st i)) eqn:Ev.
    + destruct (extend_view_moved st i bpr true (contents st (getseq st j)) ((i =? j) && negb true) W Hi Ev) as [E|E].
      * left. exact E.
      * right; left. exact E.
    + destruct (extend_spec st i bpr true (contents st (getseq st j)) ((i =? j) && negb false) W Hi) as (_ & FR & _).
      destruct (FR 0 ltac:(intros; lia)) as (_ & _ & _ & [C4|C4] & _); [right; right; auto|right; left; auto].
  - (* a refused extend *)
    destruct (is_live st i) eqn:L; [|left; reflexivity].
    assert (GEN : forall p g x, extend_gen st i bpr p g false x = st \/
                   length (heap st) <= sbuf (getseq (extend_gen st i bpr p g false x) i) \/
                   (is_view (getseq st i) = false /\ sbuf (getseq (extend_gen st i bpr p g false x) i) = sbuf (getseq st i))).
    { intros p g x. destruct (is_view (getseq st i)) eqn:Ev.
      - destruct (extend_gen_view_moved st i bpr p g false x W Hi Ev); auto.
      - destruct (extend_gen_spec st i bpr p g false x W Hi) as (_ & FR & _).
        destruct (FR 0 ltac:(intros; lia)) as (_ & _ & _ & [C4|C4] & _); [right; right; auto|right; left; auto]. }
    destruct pre.
    + destruct good; [left; destruct (match offs _ with [] => _ | _ => _ end); reflexivity|]. cbn [fst]. apply GEN.
    + destruct (_ && _); [left; reflexivity|]. cbn [fst]. apply GEN.
Qed.

Lemma cell_valid st y q' : wf st -> y < length (seqs st) -> q' < length (offs (getseq st y)) ->
  0 < snd (cell st y q').
Proof.
  intros W Hy Hq. unfold cell. cbn [snd].
  apply (wf_pair_bound st y (nth q' (offs (getseq st y)) 0) _ W Hy). apply pairs_nth; auto.
Qed.

Lemma R_true_valid st x q y q' : wf st -> y < length (seqs st) -> x < length (seqs st) ->
  q' < length (offs (getseq st y)) -> R st x q y q' = true -> q < length (offs (getseq st x)).
Proof.
  intros W Hy Hx Hq HR. unfold R, is_cell in HR. apply andb_prop in HR. destruct HR as (_ & HR).
  destruct (pair_eqb_spec (cell st x q) (cell st y q')) as [E|]; [|discriminate].
  pose proof (cell_valid st y q' W Hy Hq) as P. rewrite <- E in P. unfold cell in P. cbn [snd] in P.
  destruct (wf_seq _ W x Hx) as (_ & S2 & _).
  destruct (le_lt_dec (length (offs (getseq st x))) q); [|auto].
  rewrite nth_overflow in P by lia. lia.
Qed.

Theorem grow_links st o i : wf st -> grows o i -> i < length (seqs st) ->
  let st' := fst (step st o) in
  (forall x y, x <> i -> y <> i -> x < length (seqs st) -> y < length (seqs st) ->
     forall q q', R st' x q y q' = R st x q y q') /\
  (forall y q', y <> i -> y < length (seqs st) -> q' < length (offs (getseq st y)) ->
     (exists q, R st' i q y q' = true) ->
     exists q0, q0 < length (offs (getseq st i)) /\ R st i q0 y q' = true).
Proof.
  intros Rch G Hi. pose proof (ok_wf st Rch) as W. cbv zeta. split.
  - intros x y Hx Hy Lx Ly q q'.
    apply R_getseq; apply (grow_isolated st o i Rch G); auto.
  - intros y q' Hy Ly Hq (q & HR).
    pose proof (proj1 (grow_isolated st o i Rch G y Hy Ly)) as Gy.
    destruct (grow_cases st o i Rch G Hi) as [E|[Mv|(Ev & Sb)]]; cbv zeta in *.
    + rewrite E in HR. exists q. split; [|exact HR]. apply (R_true_valid st i q y q' W Ly Hi Hq HR).
    + exfalso. unfold R, is_cell in HR. apply andb_prop in HR. destruct HR as (HB & _).
      apply Nat.eqb_eq in HB. rewrite Gy in HB. destruct (wf_seq _ W y Ly) as (S1 & _). lia.
    + (* i owns the buffer: y selects elements of i's chain *)
      unfold R, is_cell in HR. apply andb_prop in HR. destruct HR as (HB & _).
      apply Nat.eqb_eq in HB. rewrite Gy, Sb in HB.
      destruct (wf_seq _ W i Hi) as (S1 & S2 & _).
      destruct (wf_buf _ W _ S1) as (os & ls & C1 & C2 & C3).
      destruct (proj2 (C3 i Hi eq_refl) Ev) as (E1 & E2).
      pose proof (proj1 (C3 y Ly (eq_sym HB)) _ (pairs_nth st y q' W Ly Hq)) as Hin.
      rewrite <- E1, <- E2 in Hin.
      destruct (In_nth _ _ (0, 0) Hin) as (q0 & Hq0 & En). rewrite combine_length in Hq0.
      exists q0. split; [lia|].
      rewrite combine_nth in En by auto.
      unfold R, is_cell. rewrite <- HB, Nat.eqb_refl. cbn [andb]. unfold cell. rewrite En.
      destruct (pair_eqb_spec (nth q' (offs (getseq st y)) 0, nth q' (lens (getseq st y)) 0)
                              (nth q' (offs (getseq st y)) 0, nth q' (lens (getseq st y)) 0)); congruence.
Qed.

(* ---------------------------------------------------------------- creation *)
Theorem view_links st j ix ps : wf st -> is_live st j = true ->
  positions (length (offs (getseq st j))) ix = Ok ps ->
  let st' := fst (step st (OGetIdx j ix)) in
  let v := length (seqs st) in
  (forall x y, x < v -> y < v -> forall q q', R st' x q y q' = R st x q y q') /\
  (forall m y q', m < length ps -> y < v -> R st' v m y q' = R st j (nth m ps 0) y q').
Proof.
  intros Rch L P. pose proof (ok_wf st Rch) as W. cbv zeta.
  destruct (view_cells st j ix ps Rch L P) as (VB & _ & VC). cbv zeta in *.
  pose proof (own_get_idx st j ix Rch L) as G. cbv zeta in G.
  pose proof (is_live_lt _ _ L) as Hj.
  rewrite (C_length st j W Hj), P in G. destruct G as (_ & _ & (_ & _ & K3 & _)).
  split.
  - intros x y Hx Hy q q'. apply R_getseq; apply K3; auto.
  - intros m y q' Hm Hy. unfold R, is_cell. rewrite VB, (VC m Hm).
    unfold cell. rewrite (K3 y Hy), (K3 j Hj). reflexivity.
Qed.

Theorem copy_links st i : wf st -> is_live st i = true ->
  let st' := fst (step st (OCopy i)) in
  let n := length (seqs st) in
  (forall x y, x < n -> y < n -> forall q q', R st' x q y q' = R st x q y q') /\
  (forall y q q', y < n -> R st' n q y q' = false).
Proof.
  intros Rch L. cbv zeta. destruct (copy_total st i Rch L) as (_ & _ & (_ & _ & K3 & _) & FR).
  split.
  - intros x y Hx Hy q q'. apply R_getseq; apply K3; auto.
  - intros y q q' Hy. unfold R, is_cell.
    destruct (Nat.eqb_spec (sbuf (getseq (fst (step st (OCopy i))) (length (seqs st))))
                           (sbuf (getseq (fst (step st (OCopy i))) y))) as [E|]; auto.
    exfalso. apply (FR y Hy). auto.
Qed.

(* assignments and in-place operators never change the relation *)
Theorem write_links st st' : seqs st' = seqs st -> forall x q y q', R st' x q y q' = R st x q y q'.
Proof. exact (R_seqs st st'). Qed.

(* ---------------------------------------------------------------- shrink_data() called directly *)
(* on a view: nothing (fix deb32026); on the non-view owner of a buffer that live views share, outside
   a cached build: the buffer is cut at the owner's own extent, which covers every view's rows — nobody's
   contents change, no link changes, the invariant is kept *)
Theorem shrink_harmless st i : wf st -> i < length (seqs st) -> scache (getseq st i) = None ->
  let st' := shrink st i in
  wf st' /\ seqs st' = seqs st /\
  (forall x, x < length (seqs st) -> C st' x = C st x) /\
  (forall x q y q', R st' x q y q' = R st x q y q').
Proof.
  intros Rch Hi Hc. pose proof (ok_wf st Rch) as W. cbv zeta. unfold shrink.
  destruct (is_view (getseq st i)) eqn:Ev.
  - split; [auto|split; [auto|split; auto]].
  - destruct (wf_chain st i W Hi Ev) as (C1 & C2).
    destruct (wf_seq _ W i Hi) as (S1 & S2 & _).
    rewrite (next_offset_chain 0) by auto.
    set (n := cend 0 (offs (getseq st i)) (lens (getseq st i))) in *.
    set (x := mkBuf (Z.of_nat n) (firstn n (rows (getbuf (heap st) (sbuf (getseq st i)))))).
    assert (LX : length (rows x) = n) by (unfold x; simpl; rewrite firstn_length; unfold rows_of in C2; lia).
    assert (W' : wf (set_buf st (sbuf (getseq st i)) x)).
    { apply wf_set_buf_owner; auto; rewrite ?LX, ?Hc; auto. unfold x; simpl. lia. }
    split; [exact W'|split; [reflexivity|split; [|intros; apply R_seqs; reflexivity]]].
    intros y Hy. unfold C.
    change (getseq (set_buf st (sbuf (getseq st i)) x) y) with (getseq st y).
    unfold contents.
    change (rows (getbuf (heap (set_buf st (sbuf (getseq st i)) x)) (sbuf (getseq st y))))
      with (rows_of (set_buf st (sbuf (getseq st i)) x) (sbuf (getseq st y))).
    rewrite rows_of_set_buf by auto.
    destruct (Nat.eqb_spec (sbuf (getseq st y)) (sbuf (getseq st i))) as [E|N]; [|reflexivity].
    apply elems_of_ext. intros o l Hin. unfold x; simpl. rewrite E.
    apply slice_firstn.
    (* y selects elements of i's chain *)
    destruct (wf_buf _ W _ S1) as (os & ls & B1 & B2 & B3).
    destruct (proj2 (B3 i Hi eq_refl) Ev) as (E1 & E2).
    apply (proj1 (B3 y Hy E)) in Hin. rewrite <- E1, <- E2 in Hin.
    destruct (chain_in _ _ _ _ _ C1 Hin) as (_ & _ & ?). exact H.
Qed.

(* an in-place operator that NumPy's same_kind casting refuses changes nothing at all *)
Theorem op_refused_nothing st i oj : fst (step st (OOpRefused i oj)) = st /\
  exists e, snd (step st (OOpRefused i oj)) = RErr e.
Proof.
  simpl. destruct (is_live st i && _); [|split; [reflexivity|eexists; reflexivity]].
  destruct oj as [j|]; [destruct (negb _ || negb _)|]; try (split; [reflexivity|eexists; reflexivity]);
    destruct (offs (getseq st i)); (split; [reflexivity|eexists; reflexivity]).
Qed.

(* ---------------------------------------------------------------- the four further operations *)
(* a refused append (wrong trailing shape; cached build or not) changes nothing at all *)
Theorem append_bad_nothing st i : fst (step st (OAppendBad i)) = st /\
  exists e, snd (step st (OAppendBad i)) = RErr e.
Proof.
  simpl. destruct (is_live st i); [|split; [reflexivity|eexists; reflexivity]].
  destruct (offs (getseq st i)), (scache (getseq st i)); (split; [reflexivity|eexists; reflexivity]).
Qed.

(* shrink_data() as an operation of histories *)
Theorem shrink_op st i : wf st -> is_live st i = true -> scache (getseq st i) = None ->
  let st' := fst (step st (OShrink i)) in
  snd (step st (OShrink i)) = ROk /\ seqs st' = seqs st /\
  (forall x, x < length (seqs st) -> C st' x = C st x) /\
  (forall x q y q', R st' x q y q' = R st x q y q').
Proof.
  intros Rch L Hc. simpl. rewrite L, Hc. simpl. split; [auto|].
  apply (shrink_harmless st i Rch (is_live_lt _ _ L) Hc).
Qed.

(* seq[idx, cols] creates the object seq[idx] creates (one Z per row) *)
Theorem get_cols_is_getitem st i ix : step st (OGetCols i ix) = step st (OGetIdx i ix).
Proof. reflexivity. Qed.

(* concatenate(seqs, axis=1): a new object with the element structure of the first operand whose rows
   are the rows of the operands' COMPACT contents joined position by position; nothing else changes *)
Theorem concat1_spec st j0 js : wf st -> forallb (is_live st) (j0 :: js) = true ->
  let rs := map (fun j => concat (C st j)) (j0 :: js) in
  let n := sum (lens (getseq st j0)) in
  n <> 0 ->
  let st' := fst (step st (OConcat1 (j0 :: js))) in
  if forallb (fun r => length r =? n) rs then
    snd (step st (OConcat1 (j0 :: js))) = ROk /\
    C st' (length (seqs st)) = elems_of (zip_rows rs) (cum_from 0 (lens (getseq st j0))) (lens (getseq st j0)) /\
    (forall k, k < length (seqs st) -> getseq st' k = getseq st k /\ C st' k = C st k)
  else snd (step st (OConcat1 (j0 :: js))) = RErr EValue /\ st' = st.
Proof.
  intros Rch L rs n Hn. pose proof (ok_wf st Rch) as W. cbv zeta. unfold step. rewrite L.
  apply Nat.eqb_neq in Hn. fold n. rewrite Hn.
  change (map (fun j => concat (contents st (getseq st j))) (j0 :: js)) with rs.
  destruct (forallb (fun r => length r =? n) rs) eqn:EF; cbn [fst snd]; [|auto].
  simpl in L. apply andb_prop in L. destruct L as (L0 & _). apply is_live_lt in L0.
  split; [auto|].
  apply (copy_set_spec st j0 false (zip_rows rs) W L0).
Qed.

(* ---------------------------------------------------------------- new objects that are linked to nothing *)
Lemma fresh_unlinked st st' : wf st ->
  length (heap st) <= sbuf (getseq st' (length (seqs st))) ->
  (forall y, y < length (seqs st) -> getseq st' y = getseq st y) ->
  forall y q q', y < length (seqs st) -> R st' (length (seqs st)) q y q' = false.
Proof.
  intros W Hf Hg y q q' Hy. unfold R, is_cell. rewrite (Hg y Hy).
  destruct (Nat.eqb_spec (sbuf (getseq st' (length (seqs st)))) (sbuf (getseq st y))) as [E|]; auto.
  destruct (wf_seq _ W y Hy) as (S1 & _). lia.
Qed.

Lemma copy_set_fresh st i (dt : bool) r : i < length (seqs st) ->
  let st1 := do_copy st i in
  let k := length (seqs st) in
  let b := getbuf (heap st1) (sbuf (getseq st1 k)) in
  let st2 := if dt then new_buf_for st1 k b else st1 in
  let st3 := set_buf st2 (sbuf (getseq st2 k)) (mkBuf (cap b) r) in
  length (heap st) <= sbuf (getseq st3 k).
Proof.
  intros Hi. cbv zeta.
  set (st1 := do_copy st i). set (k := length (seqs st)).
  assert (L1 : length (seqs st1) = S k) by (unfold st1, do_copy; simpl; rewrite app_length; simpl; lia).
  assert (G1 : sbuf (getseq st1 k) = length (heap st)) by (unfold getseq, st1, do_copy, k; cbn [seqs]; rewrite nth_app_new; reflexivity).
  assert (H1 : length (heap st1) = S (length (heap st))) by (unfold st1, do_copy; cbn [heap]; rewrite app_length; simpl; lia).
  set (b := getbuf (heap st1) (sbuf (getseq st1 k))).
  destruct dt.
  - change (getseq (set_buf (new_buf_for st1 k b) (sbuf (getseq (new_buf_for st1 k b) k)) (mkBuf (cap b) r)) k)
      with (getseq (new_buf_for st1 k b) k).
    rewrite getseq_new_buf_for, Nat.eqb_refl by lia. cbn [sbuf]. lia.
  - change (getseq (set_buf st1 (sbuf (getseq st1 k)) (mkBuf (cap b) r)) k) with (getseq st1 k). lia.
Qed.

(* out-of-place operators (scalar or sequence operand), concatenate(axis=1), the constructor: the new
   object is linked to no existing object *)
Theorem fresh_links st o : wf st ->
  match o with
  | OOp _ _ false _ | OOpSeq _ _ _ false _ | OConcat1 _ | ONew _ _ _ _ => True
  | _ => False
  end ->
  snd (step st o) = ROk ->
  forall y q q', y < length (seqs st) -> R (fst (step st o)) (length (seqs st)) q y q' = false.
Proof.
  intros Rch Ho Hr. pose proof (ok_wf st Rch) as W.
  destruct o; try tauto.
  - (* constructor *)
    apply (fresh_unlinked st _ W).
    + cbn [step fst].
      set (st1 := mkSt (heap st ++ [empty_buf]) (seqs st ++ [mkSeq (length (heap st)) [] [] false bytes None true])).
      assert (W1 : wf st1) by (apply wf_add_fresh; simpl; auto; lia).
      assert (H1 : length (seqs st) < length (seqs st1)) by (unfold st1; simpl; rewrite app_length; simpl; lia).
      assert (G1 : sbuf (getseq st1 (length (seqs st))) = length (heap st)) by (unfold getseq, st1; simpl; rewrite nth_app_new; reflexivity).
      assert (HH : length (heap st1) = S (length (heap st))) by (unfold st1; simpl; rewrite app_length; simpl; lia).
      destruct (extend_spec st1 (length (seqs st)) bpr pre els false W1 H1) as (_ & FR & _).
      destruct (FR 0 ltac:(intros; lia)) as (_ & _ & _ & [C4|C4] & _); [rewrite C4, G1; lia|lia].
    + intros y Hy. apply (new_keeps st bytes bpr pre els Rch y Hy).
  - (* out-of-place operator, scalar operand *)
    destruct inplace; [tauto|].
    assert (X : is_live st i = true /\ offs (getseq st i) <> []).
    { unfold step in Hr. destruct (is_live st i); [|discriminate]. split; auto.
      destruct (offs (getseq st i)); [discriminate|discriminate]. }
    destruct X as (L & NE). pose proof (is_live_lt _ _ L) as Hi.
    apply (fresh_unlinked st _ W).
    + unfold step. rewrite L. destruct (offs (getseq st i)) as [|o0 os0] eqn:EO; [congruence|]. cbn [fst].
      apply (copy_set_fresh st i dtchg _ Hi).
    + intros y Hy. apply (op_copy_spec st i f dtchg Rch L NE). exact Hy.
  - (* out-of-place operator, sequence operand *)
    destruct inplace; [tauto|].
    apply (fresh_unlinked st _ W).
    + unfold step in *. destruct (is_live st i && is_live st j) eqn:L; [|discriminate].
      apply andb_prop in L. destruct L as (L & _). apply is_live_lt in L.
      destruct (negb _); [discriminate|]. destruct (negb _); [discriminate|].
      destruct (offs (getseq st i)); [discriminate|].
      destruct (op_seq_rows _ _ _); [|discriminate]. cbn [fst]. apply (copy_set_fresh st i dtchg _ L).
    + intros y Hy. unfold step in *. destruct (is_live st i && is_live st j) eqn:L; [|discriminate].
      apply andb_prop in L. destruct L as (L & Lj).
      destruct (negb _); [discriminate|]. destruct (negb _); [discriminate|].
      destruct (offs (getseq st i)); [discriminate|].
      destruct (op_seq_rows _ _ _); [|discriminate]. cbn [fst].
      apply (copy_set_spec st i dtchg _ W (is_live_lt _ _ L)); auto.
  - (* concatenate(axis=1) *)
    apply (fresh_unlinked st _ W).
    + unfold step in *. destruct js as [|j0 js]; [discriminate|].
      destruct (forallb (is_live st) (j0 :: js)) eqn:L; [|discriminate].
      simpl in L. apply andb_prop in L. destruct L as (L & _). apply is_live_lt in L.
      destruct (_ =? 0); [discriminate|]. destruct (forallb _ _); [|discriminate]. cbn [fst].
      apply (copy_set_fresh st j0 false _ L).
    + intros y Hy. unfold step in *. destruct js as [|j0 js]; [discriminate|].
      destruct (forallb (is_live st) (j0 :: js)) eqn:L; [|discriminate].
      simpl in L. apply andb_prop in L. destruct L as (L & _). apply is_live_lt in L.
      destruct (_ =? 0); [discriminate|]. destruct (forallb _ _); [|discriminate]. cbn [fst].
      apply (copy_set_spec st j0 false _ W L); auto.
Qed.
