(* C15/Props.v — property theorems only.  Property C15: under any history an ArraySequence shows
   exactly the contents a Python list of arrays would; view semantics; growth isolation.

   All theorems quantify over EVERY state that satisfies the structural invariant `wf` (Invariant.v), reachable or
   not.  Every state st = exec init ops is one (C15_wellformed; ops arbitrary: any number of objects, operations,
   re-allocations, dropped objects, pending cached builds, API misuse included; induction over the history), and
   every step keeps the invariant (wf_step), so the theorems hold at every point of every history.  C st k = list(seq_k) (the visible elements of object k),
   F st k = C st k ++ elements of a pending cached build, V st j q = element q of object j,
   cell st j q = the (offset, length) range of that element, is_cell = "same buffer and same range"
   (the sharing relation of the abstract list-of-arrays model: two list entries are the same array). *)
From Coq Require Import ZArith List Bool Arith Lia.
From NV Require Import C15.Model C15.ListLemmas C15.Invariant C15.Steps C15.Steps2 C15.Lemmas C15.Lemmas2 C15.Pending C15.Simulation C15.Links C15.Tractogram C15.SimAll.
Import ListNotations.

(* offsets/lengths inside the written prefix <= capacity, every buffer carries one ascending chain
   of disjoint positive-length elements, all sequences on it select elements of that chain, at
   most one non-view sequence per buffer and it has exactly that chain (its own rows are
   pairwise disjoint), a pending build cache extends its chain *)
Theorem C15_wellformed : forall ops, wf (exec init ops).
Proof. exact (fun ops => wf_exec ops init wf_init). Qed.
Print Assumptions C15_wellformed.

(* ---- C15_own_contents: every operation gives the sequence it is applied to (or creates) exactly
   the contents the list model gives, whatever the sharing situation *)
Theorem C15_own_contents_append : forall st i bpr e cb, wf st -> is_live st i = true ->
  let st' := fst (step st (OAppend i bpr e cb)) in
  F st' i = spec_append (F st i) e /\
  (scache (getseq st i) = None -> cb = false -> C st' i = spec_append (C st i) e) /\
  (scache (getseq st i) <> None \/ cb = true -> C st' i = C st i).
Proof. exact own_append_gen. Qed.
Print Assumptions C15_own_contents_append.

Theorem C15_own_contents_finalize : forall st i, wf st -> is_live st i = true ->
  C (fst (step st (OFinalize i))) i = F st i.
Proof. exact own_finalize. Qed.
Print Assumptions C15_own_contents_finalize.

Theorem C15_own_contents_extend : forall st i bpr pre els, wf st -> is_live st i = true ->
  pre = true \/ scache (getseq st i) = None ->
  C (fst (step st (OExtend i bpr pre els))) i = spec_extend (C st i) els.
Proof. exact own_extend. Qed.
Print Assumptions C15_own_contents_extend.

Theorem C15_own_contents_extend_seq : forall st i bpr j, wf st ->
  is_live st i = true -> is_live st j = true ->
  C (fst (step st (OExtendSeq i bpr j))) i = spec_extend (C st i) (C st j).
Proof. exact own_extend_seq. Qed.
Print Assumptions C15_own_contents_extend_seq.

Theorem C15_own_contents_new : forall st bytes bpr pre els, wf st ->
  C (fst (step st (ONew bytes bpr pre els))) (length (seqs st)) = spec_extend [] els.
Proof. exact own_new. Qed.
Print Assumptions C15_own_contents_new.

Theorem C15_own_contents_getitem_int : forall st i k, wf st -> is_live st i = true ->
  let n := Z.of_nat (length (C st i)) in
  snd (step st (OGetInt i k)) =
    (if ((- n <=? k) && (k <? n))%Z then RElem (nth (Z.to_nat (if (k <? 0)%Z then k + n else k)) (C st i) [])
     else RErr EIndex) /\ fst (step st (OGetInt i k)) = st.
Proof. exact own_get_int. Qed.
Print Assumptions C15_own_contents_getitem_int.

Theorem C15_own_contents_getitem : forall st i ix, wf st -> is_live st i = true ->
  let st' := fst (step st (OGetIdx i ix)) in
  match positions (length (C st i)) ix with
  | Ok ps => snd (step st (OGetIdx i ix)) = ROk /\ C st' (length (seqs st)) = spec_pick (C st i) ps /\ keeps st st'
  | Err e => snd (step st (OGetIdx i ix)) = RErr e /\ st' = st
  end.
Proof. exact own_get_idx. Qed.
Print Assumptions C15_own_contents_getitem.

Theorem C15_own_contents_view : forall st i bytes, wf st -> is_live st i = true ->
  let st' := fst (step st (OView i bytes)) in
  C st' (length (seqs st)) = C st i /\ keeps st st' /\
  sbuf (getseq st' (length (seqs st))) = sbuf (getseq st i).
Proof. exact own_view. Qed.
Print Assumptions C15_own_contents_view.

Theorem C15_own_contents_op : forall st i f dt, wf st -> is_live st i = true ->
  offs (getseq st i) <> [] ->
  let st' := fst (step st (OOp i f false dt)) in
  snd (step st (OOp i f false dt)) = ROk /\
  C st' (length (seqs st)) = map (map (apply_fn f)) (C st i) /\
  (forall k, k < length (seqs st) -> getseq st' k = getseq st k /\ C st' k = C st k).
Proof. exact op_copy_spec. Qed.
Print Assumptions C15_own_contents_op.

Theorem C15_own_contents_concatenate : forall st j0 b0 rest, wf st ->
  forallb (fun p => is_live st (fst p)) ((j0, b0) :: rest) = true ->
  let st' := fst (step st (OConcat ((j0, b0) :: rest))) in
  C st' (length (seqs st)) = fold_left (fun a p => spec_extend a (C st (fst p))) rest (C st j0) /\
  (forall j, j < length (seqs st) -> getseq st' j = getseq st j /\ C st' j = C st j).
Proof. exact own_concat. Qed.
Print Assumptions C15_own_contents_concatenate.

(* seq[k] = scalar / rows, seq[idx] = scalar: the value of EVERY element of EVERY object afterwards
   (own contents for j = i, write-through for the others) *)
Theorem C15_own_contents_setitem_int : forall st i k v, wf st -> is_live st i = true ->
  let st' := fst (step st (OSetInt i k v)) in
  match norm_index (Z.of_nat (length (offs (getseq st i)))) k with
  | Ok p =>
    snd (step st (OSetInt i k v)) = ROk /\ seqs st' = seqs st /\
    forall j q, j < length (seqs st) -> q < length (offs (getseq st j)) ->
      V st' j q = if is_cell st j q (sbuf (getseq st i)) (cell st i p)
                  then repeat v (snd (cell st i p)) else V st j q
  | Err e => snd (step st (OSetInt i k v)) = RErr e /\ st' = st
  end.
Proof. exact set_int_cells. Qed.
Print Assumptions C15_own_contents_setitem_int.

Theorem C15_own_contents_setitem_rows : forall st i k vs, wf st -> is_live st i = true ->
  let st' := fst (step st (OSetIntRows i k vs)) in
  match norm_index (Z.of_nat (length (offs (getseq st i)))) k with
  | Ok p =>
    let l := snd (cell st i p) in
    if (length vs =? l) || (length vs =? 1) then
      snd (step st (OSetIntRows i k vs)) = ROk /\ seqs st' = seqs st /\
      forall j q, j < length (seqs st) -> q < length (offs (getseq st j)) ->
        V st' j q = if is_cell st j q (sbuf (getseq st i)) (cell st i p)
                    then (if length vs =? l then vs else repeat (nth 0 vs 0%Z) l) else V st j q
    else snd (step st (OSetIntRows i k vs)) = RErr EValue /\ st' = st
  | Err e => snd (step st (OSetIntRows i k vs)) = RErr e /\ st' = st
  end.
Proof. exact set_int_rows_cells. Qed.
Print Assumptions C15_own_contents_setitem_rows.

Theorem C15_own_contents_setitem_scalar : forall st i ix v, wf st -> is_live st i = true ->
  let st' := fst (step st (OSetIdx i ix (VScalar v))) in
  match positions (length (offs (getseq st i))) ix with
  | Ok ps =>
    snd (step st (OSetIdx i ix (VScalar v))) = ROk /\ seqs st' = seqs st /\
    forall j q, j < length (seqs st) -> q < length (offs (getseq st j)) ->
      V st' j q = if (sbuf (getseq st j) =? sbuf (getseq st i)) &&
                     existsb (fun p => pair_eqb (cell st j q) (cell st i p)) ps
                  then repeat v (snd (cell st j q)) else V st j q
  | Err e => snd (step st (OSetIdx i ix (VScalar v))) = RErr e /\ st' = st
  end.
Proof. exact set_idx_scalar_cells. Qed.
Print Assumptions C15_own_contents_setitem_scalar.

(* seq_i[idx] = seq_j for ANY j (another buffer, the same buffer — s[::-1] = s —, a ValueError raised
   mid-way after a partial assignment): result and the value of every element of every object
   afterwards are those of the abstract loop abs_seq over a valuation of the cells of i's buffer
   (element after element; a source on the same buffer is read from the CURRENT valuation) *)
Theorem C15_own_contents_setitem_seq : forall st i ix j ps, wf st ->
  is_live st i = true -> is_live st j = true ->
  positions (length (offs (getseq st i))) ix = Ok ps ->
  let dst := combine (pick 0 (offs (getseq st i)) ps) (pick 0 (lens (getseq st i)) ps) in
  let bi := sbuf (getseq st i) in
  let jb := sbuf (getseq st j) in
  length ps = length (offs (getseq st j)) ->
  sum (pick 0 (lens (getseq st i)) ps) = sum (lens (getseq st j)) ->
  let a := abs_seq h_assign (jb =? bi) (rows_of st jb) (val0 st bi) dst (pairs (getseq st j)) in
  let st' := fst (step st (OSetIdx i ix (VSeq j))) in
  snd (step st (OSetIdx i ix (VSeq j))) = match snd a with None => ROk | Some e => RErr e end /\
  seqs st' = seqs st /\
  forall x q, x < length (seqs st) -> q < length (offs (getseq st x)) ->
    V st' x q = if sbuf (getseq st x) =? bi then fst a (cell st x q) else V st x q.
Proof. exact set_idx_seq_full. Qed.
Print Assumptions C15_own_contents_setitem_seq.

(* seq_i <op>= seq_j for ANY j (independent, the same object, overlapping views of one buffer):
   element after element in the order of i's elements, each step sees what the earlier ones wrote *)
Theorem C15_own_contents_opseq_inplace : forall st i g j dt, wf st ->
  is_live st i = true -> is_live st j = true ->
  length (lens (getseq st i)) = length (lens (getseq st j)) ->
  sum (lens (getseq st i)) = sum (lens (getseq st j)) ->
  offs (getseq st i) <> [] ->
  let bi := sbuf (getseq st i) in
  let jb := sbuf (getseq st j) in
  let a := abs_seq (h_op (apply_fn2 g)) (jb =? bi) (rows_of st jb) (val0 st bi)
                   (pairs (getseq st i)) (pairs (getseq st j)) in
  let st' := fst (step st (OOpSeq i g j true dt)) in
  snd (step st (OOpSeq i g j true dt)) = match snd a with None => ROk | Some e => RErr e end /\
  seqs st' = seqs st /\
  forall x q, x < length (seqs st) -> q < length (offs (getseq st x)) ->
    V st' x q = if sbuf (getseq st x) =? bi then fst a (cell st x q) else V st x q.
Proof. exact op_seq_inplace_full. Qed.
Print Assumptions C15_own_contents_opseq_inplace.

(* seq_i <op> seq_j out of place: the new object holds the element-wise results (NumPy one-row
   broadcasting, a shape mismatch is a refusal that changes nothing), nothing else changes *)
Theorem C15_own_contents_opseq : forall st i g j dt, wf st ->
  is_live st i = true -> is_live st j = true ->
  length (lens (getseq st i)) = length (lens (getseq st j)) ->
  sum (lens (getseq st i)) = sum (lens (getseq st j)) ->
  offs (getseq st i) <> [] ->
  let st' := fst (step st (OOpSeq i g j false dt)) in
  match op_seq_elems (apply_fn2 g) (C st i) (C st j) with
  | Some els =>
    snd (step st (OOpSeq i g j false dt)) = ROk /\ C st' (length (seqs st)) = els /\
    (forall k, k < length (seqs st) -> getseq st' k = getseq st k /\ C st' k = C st k)
  | None => snd (step st (OOpSeq i g j false dt)) = RErr EValue /\ st' = st
  end.
Proof. exact op_seq_copy_full. Qed.
Print Assumptions C15_own_contents_opseq.

(* in-place operator: value of every element of every object afterwards *)
Theorem C15_own_contents_inplace : forall st i f dt, wf st -> is_live st i = true ->
  offs (getseq st i) <> [] ->
  let st' := fst (step st (OOp i f true dt)) in
  snd (step st (OOp i f true dt)) = ROk /\ seqs st' = seqs st /\
  forall j q, j < length (seqs st) -> q < length (offs (getseq st j)) ->
    V st' j q = if sbuf (getseq st j) =? sbuf (getseq st i)
                then iter (occ (cell st j q) (pairs (getseq st i))) (map (apply_fn f)) (V st j q)
                else V st j q.
Proof. exact inplace_cells. Qed.
Print Assumptions C15_own_contents_inplace.

(* ---- simulation.  Abstract machine: per object (alive, Python list of arrays); spec_step is a
   FUNCTION of that abstract state alone for construction, append (cache_build=False), extend of a
   list / generator / sequence / itself, int / slice / list / mask indexing, view constructor, copy,
   out-of-place operators with a scalar or a sequence operand, dropping an object — every refusal
   included.  For every well-formed state the abstraction commutes with the step; own contents AND
   "nothing else changes" (growth isolation) for these operations are corollaries.  spec_step is
   undefined (None) for cached builds (pending elements are not part of the visible lists),
   concatenate (C15_own_contents_concatenate), and for assignments / in-place operators, whose
   effect depends on which arrays are shared and on re-allocation: see the cell theorems. *)
Theorem C15_simulation : forall st o a' r, wf st -> no_pending st o ->
  spec_step (absC st) o = Some (a', r) ->
  absC (fst (step st o)) = a' /\ snd (step st o) = r.
Proof. exact simulation. Qed.
Print Assumptions C15_simulation.

(* ---- the sharing relation of the "lists with sharing" abstraction: R st x q y q' = element q of
   object x and element q' of object y are the same array.  Assignments and in-place operators are
   functions of (contents, R) — is_cell in the C15_own_contents_setitem_* / _inplace / _opseq_inplace
   theorems is R — and leave R alone (C15_links_write); indexing links the new object to its parent
   position by position and copies are linked to nothing (C15_links_view, C15_links_copy); growth
   leaves every link between other objects alone, may CUT links of the grown object and never
   creates one (C15_links_growth): finding S-C15d is exactly "growth cuts the link". *)
Theorem C15_links_growth : forall st o i, wf st -> grows o i -> i < length (seqs st) ->
  let st' := fst (step st o) in
  (forall x y, x <> i -> y <> i -> x < length (seqs st) -> y < length (seqs st) ->
     forall q q', R st' x q y q' = R st x q y q') /\
  (forall y q', y <> i -> y < length (seqs st) -> q' < length (offs (getseq st y)) ->
     (exists q, R st' i q y q' = true) ->
     exists q0, q0 < length (offs (getseq st i)) /\ R st i q0 y q' = true).
Proof. exact grow_links. Qed.
Print Assumptions C15_links_growth.

Theorem C15_links_view : forall st j ix ps, wf st -> is_live st j = true ->
  positions (length (offs (getseq st j))) ix = Ok ps ->
  let st' := fst (step st (OGetIdx j ix)) in
  let v := length (seqs st) in
  (forall x y, x < v -> y < v -> forall q q', R st' x q y q' = R st x q y q') /\
  (forall m y q', m < length ps -> y < v -> R st' v m y q' = R st j (nth m ps 0) y q').
Proof. exact view_links. Qed.
Print Assumptions C15_links_view.

Theorem C15_links_copy : forall st i, wf st -> is_live st i = true ->
  let st' := fst (step st (OCopy i)) in
  let n := length (seqs st) in
  (forall x y, x < n -> y < n -> forall q q', R st' x q y q' = R st x q y q') /\
  (forall y q q', y < n -> R st' n q y q' = false).
Proof. exact copy_links. Qed.
Print Assumptions C15_links_copy.

Theorem C15_links_write : forall st st', seqs st' = seqs st ->
  forall x q y q', R st' x q y q' = R st x q y q'.
Proof. exact write_links. Qed.
Print Assumptions C15_links_write.

(* shrink_data() called directly (not an operation of `step`): nothing on a view (fix deb32026);
   on the owner of a buffer that live views share, outside a cached build, it cuts the buffer at the
   owner's own extent, which covers every view's rows: harmless *)
Theorem C15_shrink_harmless : forall st i, wf st -> i < length (seqs st) ->
  scache (getseq st i) = None ->
  let st' := shrink st i in
  wf st' /\ seqs st' = seqs st /\
  (forall x, x < length (seqs st) -> C st' x = C st x) /\
  (forall x q y q', R st' x q y q' = R st x q y q').
Proof. exact shrink_harmless. Qed.
Print Assumptions C15_shrink_harmless.

(* ---- pending elements of a cached build (append(cache_build=True) ... before finalize_append()):
   pend st k = None outside a build, Some (the elements appended and not yet visible) inside one;
   F st k = C st k ++ them (F_split).  No growth of ANOTHER object and no assignment / in-place operator
   at all changes them — the two facts needed to carry pending lists in the abstract state. *)
Theorem C15_pending_isolated : forall st o i, wf st -> grows o i ->
  forall j, j <> i -> j < length (seqs st) -> pend (fst (step st o)) j = pend st j.
Proof. exact grow_pend. Qed.
Print Assumptions C15_pending_isolated.

Theorem C15_pending_under_writes : forall st o, wf st -> writes o = true ->
  seqs (fst (step st o)) = seqs st /\ forall k, k < length (seqs st) -> pend (fst (step st o)) k = pend st k.
Proof. exact write_pend. Qed.
Print Assumptions C15_pending_under_writes.

(* the new object of an out-of-place operator (scalar or sequence operand), of concatenate(axis=1) and
   of the constructor is linked to no existing object (copy: C15_links_copy) *)
Theorem C15_links_fresh : forall st o, wf st ->
  match o with
  | OOp _ _ false _ | OOpSeq _ _ _ false _ | OConcat1 _ | ONew _ _ _ _ => True
  | _ => False
  end ->
  snd (step st o) = ROk ->
  forall y q q', y < length (seqs st) -> R (fst (step st o)) (length (seqs st)) q y q' = false.
Proof. exact fresh_links. Qed.
Print Assumptions C15_links_fresh.

(* ---- ONE simulation theorem over the whole alphabet (SimAll.v).  Abstract state: per object (alive,
   the list of ARRAY NAMES it holds, the pending elements of a cached build) + a store from names to
   values; two list entries are the same array iff they carry the same name.  spec_rel a o a' r says,
   from the abstract state alone, what operation o may do and what it returns (every refusal included):
   a new object holds the parent's names (indexing, view constructor) or names nobody holds (copies,
   out-of-place results, constructor, concatenate); assignments and in-place operators keep all names
   and update the store per name (element-by-element loop `aloop` for a sequence operand / source);
   growth gives the grown object the list-model contents and leaves its names OPEN except that it never
   comes to share an array with another object unless it already did — "growth cuts links": finding
   S-C15d is part of the specification; everything else (names, values, pending elements of every
   other object) is untouched. *)
Theorem C15_simulation_all : forall st o, wf st ->
  spec_rel (absS st) o (absS (fst (step st o))) (snd (step st o)).
Proof. exact simulation_all. Qed.
Print Assumptions C15_simulation_all.

(* for EVERY history from EVERY well-formed state (st := init: every history): the abstraction of the state reached is reached by a run of the list-of-arrays
   machine (arun = spec_rel step after step) with the same outputs, and what object k shows — list(seq_k)
   — is what the abstract state holds for it *)
Theorem C15_histories_list_model : forall ops st, wf st ->
  arun (absS st) ops (absS (exec st ops)) (results st ops) /\
  forall k, k < length (seqs (exec st ops)) -> conts (absS (exec st ops)) k = C (exec st ops) k.
Proof. exact histories_list_model. Qed.
Print Assumptions C15_histories_list_model.

(* ---- growing a view, a copy or any derived sequence (append with or without cache_build,
   finalize_append, extend of a list / generator / sequence / itself) never changes any element
   of any other sequence object, nor the object itself *)
Theorem C15_grow_isolated : forall st o i, wf st -> grows o i ->
  forall j, j <> i -> j < length (seqs st) ->
    getseq (fst (step st o)) j = getseq st j /\ C (fst (step st o)) j = C st j.
Proof. exact grow_isolated. Qed.
Print Assumptions C15_grow_isolated.

(* ... and neither does the constructor *)
Theorem C15_new_isolated : forall st bytes bpr pre els, wf st ->
  forall j, j < length (seqs st) ->
    getseq (fst (step st (ONew bytes bpr pre els))) j = getseq st j /\
    C (fst (step st (ONew bytes bpr pre els))) j = C st j.
Proof. exact new_keeps. Qed.
Print Assumptions C15_new_isolated.

(* ---- Tractogram.extend / `t += other` (tractogram.py): component.extend(other_component) for the
   streamlines and every data_per_point sequence in turn (textend = that run of OExtendSeq steps).
   Growing a derived tractogram — a slice t[idx], a copy, a sum, whatever buffers its components
   share — never alters any sequence object that is not one of its own components, in particular no
   component of the tractogram it was taken from; and each component receives exactly the elements
   of the corresponding component of `other` (which may be the tractogram itself). *)
Theorem C15_tractogram_extend_isolated : forall tu st, wf st ->
  forall x, x < length (seqs st) -> (forall p, In p tu -> fst (fst p) <> x) ->
    getseq (textend st tu) x = getseq st x /\ C (textend st tu) x = C st x.
Proof. exact textend_isolated. Qed.
Print Assumptions C15_tractogram_extend_isolated.

Theorem C15_tractogram_extend_own : forall tu st, wf st ->
  NoDup (map (fun p => fst (fst p)) tu) ->
  (forall p, In p tu -> is_live st (fst (fst p)) = true /\ is_live st (snd p) = true) ->
  (forall p p', In p tu -> In p' tu -> snd p = fst (fst p') -> p = p') ->
  forall p, In p tu ->
    C (textend st tu) (fst (fst p)) = spec_extend (C st (fst (fst p))) (C st (snd p)).
Proof. exact textend_own. Qed.
Print Assumptions C15_tractogram_extend_own.

(* Tractogram.__getitem__(idx) for a slice / list / mask: per ArraySequence component c, c[idx], then the
   view constructor around it, the intermediate dropped (tget_component).  The new component is object
   length (seqs st) + 1: exactly the selected elements, on the component's buffer (views of every
   component), nothing that exists changes. *)
Theorem C15_tractogram_getitem : forall st c ix ps, wf st -> is_live st c = true ->
  positions (length (C st c)) ix = Ok ps ->
  let st' := tget_component st c ix in
  let w := S (length (seqs st)) in
  wf st' /\ C st' w = spec_pick (C st c) ps /\
  sbuf (getseq st' w) = sbuf (getseq st c) /\ is_live st' w = true /\
  (forall k, k < length (seqs st) -> getseq st' k = getseq st k /\ C st' k = C st k).
Proof. exact tget_component_spec. Qed.
Print Assumptions C15_tractogram_getitem.

(* Tractogram.copy() is copy.deepcopy: every ArraySequence component is CLONED (ODeepCopy: the whole
   buffer, the same offsets and lengths, _is_view as it is).  The clone shows the same contents on a
   buffer nobody else uses (so by C15_own_contents_setitem_* / _inplace / C15_grow_isolated nothing
   done to it reaches the source), nothing that exists changes. *)
Theorem C15_tractogram_copy : forall st i, wf st -> is_live st i = true ->
  let st' := fst (step st (ODeepCopy i)) in
  let n := length (seqs st) in
  snd (step st (ODeepCopy i)) = ROk /\ wf st' /\ length (seqs st') = S n /\ is_live st' n = true /\
  C st' n = C st i /\ keeps st st' /\ length (heap st) <= sbuf (getseq st' n).
Proof. exact deep_copy_spec. Qed.
Print Assumptions C15_tractogram_copy.

(* Tractogram.__add__(other), per component: clone, then extend by other's component.  The sum's
   component shows the elements of both; NO existing object changes, whatever the operands share
   (t + t, t + t[idx], a sum of slices ...): a derived tractogram never alters what it was derived
   from.  (`+=` is C15_tractogram_extend_*.) *)
Theorem C15_tractogram_add : forall st c b oc, wf st -> is_live st c = true -> is_live st oc = true ->
  let st' := tadd_component st c b oc in
  let n := length (seqs st) in
  wf st' /\ C st' n = spec_extend (C st c) (C st oc) /\
  (forall k, k < n -> getseq st' k = getseq st k /\ C st' k = C st k).
Proof. exact tadd_component_spec. Qed.
Print Assumptions C15_tractogram_add.

(* Tractogram.apply_affine(affine, lazy=False) on a tractogram whose streamlines are "sliced"
   (_lengths.sum() != _data.shape[0]): `for i: streamlines[i] = apply_affine(affine, streamlines[i])`,
   i.e. the in-place element-wise update OOp c f true (f = the affine on a row).  What the code does:
   it WRITES THROUGH to every object that shares the cells (the tractogram it was sliced from
   included), once per occurrence of the cell in the slice — documented view semantics ("performed
   in-place"); the property's isolation clause is about growth, not about this.  (The other branch —
   streamlines not "sliced" — transforms the whole buffer in place when np.dot(out=) accepts it and
   otherwise REPLACES _data by a new array, silently detaching every view: not modelled, see the
   report.) *)
Theorem C15_tractogram_apply_affine_sliced : forall st c f dt, wf st -> is_live st c = true ->
  offs (getseq st c) <> [] ->
  let st' := fst (step st (OOp c f true dt)) in
  snd (step st (OOp c f true dt)) = ROk /\ seqs st' = seqs st /\
  forall j q, j < length (seqs st) -> q < length (offs (getseq st j)) ->
    V st' j q = if sbuf (getseq st j) =? sbuf (getseq st c)
                then iter (occ (cell st j q) (pairs (getseq st c))) (map (apply_fn f)) (V st j q)
                else V st j q.
Proof. exact inplace_cells. Qed.
Print Assumptions C15_tractogram_apply_affine_sliced.

(* extend(good ++ [an element with another trailing shape] ++ more) (fix 4004448f: the loop runs in
   try/finally with finalize_append()): an error is reported, the sequence keeps exactly the good
   elements — and stays usable: the state is a well-formed one without a pending build — and, by
   C15_grow_isolated (OExtendBad is a growth operation), no other object changes *)
Theorem C15_own_contents_extend_refused : forall st i bpr pre good extra, wf st ->
  is_live st i = true -> scache (getseq st i) = None ->
  let st' := fst (step st (OExtendBad i bpr pre good extra)) in
  (exists e, snd (step st (OExtendBad i bpr pre good extra)) = RErr e) /\
  C st' i = spec_extend (C st i) good /\ scache (getseq st i) = None.
Proof. exact own_extend_bad. Qed.
Print Assumptions C15_own_contents_extend_refused.

(* apply_affine after fix 3ae30612 (S-C15k): the branch condition is `_is_view or is_sliced_view`
   (affine_elementwise); for EVERY view the element-wise branch runs and alters exactly the elements
   the view contains, once per occurrence, in every object holding that very array, and nothing else.
   (A non-view tractogram: the whole buffer in place, or — np.dot(out=) refusing, e.g. float32 points —
   a NEW array, after which its views are detached: "none" of the shared elements, the same mechanism
   as S-C15d: the object moves to another buffer.  Not modelled; exercised by the harness.) *)
Theorem C15_tractogram_apply_affine_view : forall st c f dt, wf st -> is_live st c = true ->
  is_view (getseq st c) = true -> offs (getseq st c) <> [] ->
  affine_elementwise st c = true /\
  let st' := fst (step st (OOp c f true dt)) in
  seqs st' = seqs st /\
  forall j q, j < length (seqs st) -> q < length (offs (getseq st j)) ->
    (sbuf (getseq st j) = sbuf (getseq st c) -> In (cell st j q) (pairs (getseq st c)) ->
       0 < occ (cell st j q) (pairs (getseq st c)) /\
       V st' j q = iter (occ (cell st j q) (pairs (getseq st c))) (map (apply_fn f)) (V st j q)) /\
    (sbuf (getseq st j) <> sbuf (getseq st c) \/ ~ In (cell st j q) (pairs (getseq st c)) ->
       V st' j q = V st j q).
Proof. exact tapply_affine_view. Qed.
Print Assumptions C15_tractogram_apply_affine_view.

(* the OTHER branch of apply_affine (the object is not a view and its elements fill its buffer): the whole buffer
   goes through nibabel.affines.apply_affine(inplace=True).  float64 buffer (dt = false): transformed where it is —
   the owner and every view of it see each of their elements transformed exactly once, whatever a view selects
   and however often; any other dtype (dt = true): np.dot(out=) refuses, the result is a new array, the object
   moves to a buffer nobody else uses and every other object is exactly what it was.  Both keep the invariant. *)
Theorem C15_tractogram_apply_affine_whole : forall st c f, wf st -> is_live st c = true ->
  affine_elementwise st c = false ->
  (let st' := taffine_whole st c f false in
   wf st' /\ seqs st' = seqs st /\
   forall j, j < length (seqs st) ->
     C st' j = if sbuf (getseq st j) =? sbuf (getseq st c) then map (map (apply_fn f)) (C st j) else C st j) /\
  (let st' := taffine_whole st c f true in
   wf st' /\ length (seqs st') = length (seqs st) /\
   C st' c = map (map (apply_fn f)) (C st c) /\
   sbuf (getseq st' c) = length (heap st) /\
   forall j, j <> c -> j < length (seqs st) ->
     getseq st' j = getseq st j /\ C st' j = C st j /\ sbuf (getseq st' j) <> sbuf (getseq st' c)).
Proof.
  intros st c f W L A. split; [exact (tapply_affine_whole_inplace st c f W L A)|exact (tapply_affine_whole_detach st c f W L A)].
Qed.
Print Assumptions C15_tractogram_apply_affine_whole.

(* ---- the four further operations: refused append, shrink_data(), seq[idx, cols], concatenate(axis=1) *)
Theorem C15_append_refused_nothing : forall st i, fst (step st (OAppendBad i)) = st /\
  exists e, snd (step st (OAppendBad i)) = RErr e.
Proof. exact append_bad_nothing. Qed.
Print Assumptions C15_append_refused_nothing.

(* an IN-PLACE operator whose result dtype NumPy's same_kind casting cannot store into the target's buffer
   (int64 += float64, bool += int, ...: UFuncTypeError — what a Python list of NumPy arrays does as well) is
   refused before anything is written: no element of any object changes, whether the operand is a scalar or a
   sequence, however many elements the target has (all-or-none, none here) *)
Theorem C15_inplace_refused_nothing : forall st i oj, fst (step st (OOpRefused i oj)) = st /\
  exists e, snd (step st (OOpRefused i oj)) = RErr e.
Proof. exact op_refused_nothing. Qed.
Print Assumptions C15_inplace_refused_nothing.

Theorem C15_shrink_op : forall st i, wf st -> is_live st i = true -> scache (getseq st i) = None ->
  let st' := fst (step st (OShrink i)) in
  snd (step st (OShrink i)) = ROk /\ seqs st' = seqs st /\
  (forall x, x < length (seqs st) -> C st' x = C st x) /\
  (forall x q y q', R st' x q y q' = R st x q y q').
Proof. exact shrink_op. Qed.
Print Assumptions C15_shrink_op.

Theorem C15_getitem_cols : forall st i ix, step st (OGetCols i ix) = step st (OGetIdx i ix).
Proof. exact get_cols_is_getitem. Qed.
Print Assumptions C15_getitem_cols.

Theorem C15_concatenate_axis1 : forall st j0 js, wf st -> forallb (is_live st) (j0 :: js) = true ->
  let rs := map (fun j => concat (C st j)) (j0 :: js) in
  let n := sum (lens (getseq st j0)) in
  n <> 0 ->
  let st' := fst (step st (OConcat1 (j0 :: js))) in
  if forallb (fun r => length r =? n) rs then
    snd (step st (OConcat1 (j0 :: js))) = ROk /\
    C st' (length (seqs st)) = elems_of (zip_rows rs) (cum_from 0 (lens (getseq st j0))) (lens (getseq st j0)) /\
    (forall k, k < length (seqs st) -> getseq st' k = getseq st k /\ C st' k = C st k)
  else snd (step st (OConcat1 (j0 :: js))) = RErr EValue /\ st' = st.
Proof. exact concat1_spec. Qed.
Print Assumptions C15_concatenate_axis1.

(* ---- an in-place operator on A reaches all or none of the cells A shares with B *)
Theorem C15_inplace_all_or_none : forall st a f dt b, wf st -> is_live st a = true ->
  offs (getseq st a) <> [] -> b < length (seqs st) ->
  let st' := fst (step st (OOp a f true dt)) in
  (sbuf (getseq st b) <> sbuf (getseq st a) ->
     forall q, q < length (offs (getseq st b)) -> V st' b q = V st b q) /\
  (sbuf (getseq st b) = sbuf (getseq st a) ->
     forall q, q < length (offs (getseq st b)) ->
       (In (cell st b q) (pairs (getseq st a)) ->
          exists n, 0 < n /\ V st' b q = iter n (map (apply_fn f)) (V st b q)) /\
       (~ In (cell st b q) (pairs (getseq st a)) -> V st' b q = V st b q)).
Proof. exact inplace_all_or_none. Qed.
Print Assumptions C15_inplace_all_or_none.

(* ---- view write-through.  FULL STATEMENT ("assignment through a view taken from p changes the
   corresponding elements of p, whatever happened since the view was taken") is false of the
   faithful model: growth re-allocates / detaches (finding S-C15d, C15_view_write_through_refuted).
   Proved: (1) a view created by indexing selects, position by position, the parent's cells on the
   parent's buffer; (2) in every well-formed state an assignment through any object changes exactly
   the elements of the other objects that are the same cell — i.e. while view and parent still
   share the buffer — and nothing else (C15_own_contents_setitem_int/_rows/_scalar above). *)
Theorem C15_view_write_through_partial : forall st j ix ps, wf st -> is_live st j = true ->
  positions (length (offs (getseq st j))) ix = Ok ps ->
  let st1 := fst (step st (OGetIdx j ix)) in
  let v := length (seqs st) in
  (sbuf (getseq st1 v) = sbuf (getseq st1 j) /\ length (offs (getseq st1 v)) = length ps /\
   forall m, m < length ps -> cell st1 v m = cell st1 j (nth m ps 0)) /\
  forall st2 i k x, wf st2 -> is_live st2 i = true ->
    match norm_index (Z.of_nat (length (offs (getseq st2 i)))) k with
    | Ok p =>
      forall j' q, j' < length (seqs st2) -> q < length (offs (getseq st2 j')) ->
        V (fst (step st2 (OSetInt i k x))) j' q =
          if is_cell st2 j' q (sbuf (getseq st2 i)) (cell st2 i p)
          then repeat x (snd (cell st2 i p)) else V st2 j' q
    | Err e => fst (step st2 (OSetInt i k x)) = st2
    end.
Proof. exact view_write_through_partial. Qed.
Print Assumptions C15_view_write_through_partial.

Theorem C15_view_write_through_refuted :
  let st := exec init hist_detach in
  let st' := fst (step st (OSetInt 1 0 99)) in
  C st 1 = skipn 1 (firstn 3 (C st 0)) /\
  snd (step st (OSetInt 1 0 99)) = ROk /\
  V st' 1 0 = [99%Z] /\ V st' 0 1 = V st 0 1 /\ V st 0 1 = [3%Z] /\
  sbuf (getseq st 0) <> sbuf (getseq st 1).
Proof. exact view_write_through_refuted. Qed.
Print Assumptions C15_view_write_through_refuted.

(* ---- copy() succeeds on every sequence of every well-formed state (all-empty ones included), gives the same
   contents on a buffer nobody else references, and changes nothing else *)
Theorem C15_copy_total : forall st i, wf st -> is_live st i = true ->
  let st' := fst (step st (OCopy i)) in
  snd (step st (OCopy i)) = ROk /\ C st' (length (seqs st)) = C st i /\ keeps st st' /\
  (forall j, j < length (seqs st) -> sbuf (getseq st' j) <> sbuf (getseq st' (length (seqs st)))).
Proof. exact copy_total. Qed.
Print Assumptions C15_copy_total.

(* non-vacuity: a reachable (hence well-formed) state with a list-indexed view, a grown (re-allocated) parent and a
   reversed slice view of the new buffer; assignment through the latter reaches the parent *)
Example C15_nonvacuous :
  let st := exec init [ONew 24 16 true [[1; 2]; []; [3]; [4; 5; 6]]%Z; OGetIdx 0 (IList [2; 0; 2]%Z);
                       OExtend 0 8 true [[7]; [8; 9]]%Z; OGetIdx 0 (ISlice None None (Some (-2)%Z))] in
  wf st /\ is_live st 2 = true /\
  norm_index (Z.of_nat (length (offs (getseq st 2)))) (-1) = Ok 2 /\
  is_cell st 0 0 (sbuf (getseq st 2)) (cell st 2 2) = true /\
  C (fst (step st (OSetInt 2 (-1) 99))) 0 = [[99; 99]; [3]; [4; 5; 6]; [7]; [8; 9]]%Z /\
  C (fst (step st (OSetInt 2 (-1) 99))) 1 = [[4; 5; 6]; [1; 2]; [4; 5; 6]]%Z.
Proof. exact nonvacuous_example. Qed.

(* overlapping views of one buffer: v = p[1:]; w = p[:-1]; v += w  gives p = [1, 3, 6, 10], and
   p[::-1] -> p[:] = reversed view copies element after element *)
Example C15_opseq_nonvacuous :
  C (exec init [ONew 1 16 true [[1]; [2]; [3]; [4]]%Z; OGetIdx 0 (ISlice (Some 1%Z) None None);
                OGetIdx 0 (ISlice None (Some (-1)%Z) None); OOpSeq 1 BAdd 2 true false]) 0
    = [[1]; [3]; [6]; [10]]%Z /\
  C (exec init [ONew 1 16 true [[1]; [2]; [3]; [4]]%Z; OGetIdx 0 (ISlice None None (Some (-1)%Z));
                OSetIdx 0 (ISlice None None None) (VSeq 1)]) 0
    = [[4]; [3]; [3]; [4]]%Z.
Proof. vm_compute. split; reflexivity. Qed.
