(* C15/Model.v — ArraySequence as it is in /repo/nibabel/streamlines/array_sequence.py
   (with the fix: commits a22fa58a and 91c40819 applied).  Definitions only.

   Concrete model.  A heap of row buffers (identity = index in the heap, buffers are never
   freed); a buffer has a capacity `cap` (= _data.shape[0], may be over-allocated) and the
   written prefix `rows` (one Z per row: the payload of a row is irrelevant here; rows past
   the written prefix are np.empty garbage / resize zero fill and are never observable in a
   well-formed state).  A sequence object is {buffer id; _offsets; _lengths; _is_view;
   _buffer_size (in bytes); _build_cache; live}.  NumPy's `ndarray.resize` refcheck is explicit
   model state: the number of LIVE sequence objects that reference the buffer
   (`refcount`) — "grows in place iff nobody else references the buffer, else copy()+resize".

   Counterparts:
     _BuildCache.__init__            -> mk_cache (detach of a view first, fix a22fa58a)
     _BuildCache.update_seq          -> update_seq
     ArraySequence._get_next_offset  -> next_offset (np.argmax = first maximum)
     ArraySequence._resize_data_to   -> resize_to   (rows_per_buf rounding, size==0 -> np.empty,
                                                     same size -> nothing, shared -> copy)
     ArraySequence.shrink_data       -> shrink      (resize(refcheck=False), in place)
     append / finalize_append / extend / copy / __getitem__ / __setitem__ / _op (scalar and
     ArraySequence operand, bitwise operators included) / concatenate
                                     -> do_append / finalize / extend / do_copy / step cases. *)
From Coq Require Import ZArith List Bool Arith.
Import ListNotations.

Record buf := mkBuf { cap : Z; rows : list Z }.
Record cache := mkCache { c_offs : list nat; c_lens : list nat; c_next : nat; c_rpb : Z }.
Record seq := mkSeq { sbuf : nat; offs : list nat; lens : list nat; is_view : bool;
                      bufbytes : Z; scache : option cache; live : bool }.
Record state := mkSt { heap : list buf; seqs : list seq }.

Definition empty_buf := mkBuf 0 [].
Definition dead_seq := mkSeq 0 [] [] false 0 None false.
Definition init : state := mkSt [] [].
Definition default_bufbytes : Z := 4194304.     (* buffer_size=4 (MB) *)

Definition getbuf (h : list buf) (b : nat) : buf := nth b h empty_buf.
Definition getseq (st : state) (i : nat) : seq := nth i (seqs st) dead_seq.

Fixpoint upd {A} (l : list A) (k : nat) (x : A) : list A :=
  match l, k with
  | [], _ => []
  | _ :: r, O => x :: r
  | y :: r, S k' => y :: upd r k' x
  end.

(* ---- rows of a buffer *)
Definition slice (o l : nat) (r : list Z) : list Z := firstn l (skipn o r).
Definition write (o : nat) (e : list Z) (r : list Z) : list Z :=
  firstn o (r ++ repeat 0%Z (o - length r)) ++ e ++ skipn (o + length e) r.
Definition elems_of (r : list Z) (os ls : list nat) : list (list Z) :=
  map (fun p => slice (fst p) (snd p) r) (combine os ls).
Definition contents (st : state) (s : seq) : list (list Z) :=
  elems_of (rows (getbuf (heap st) (sbuf s))) (offs s) (lens s).

Definition sum (l : list nat) : nat := fold_right Nat.add 0 l.
Fixpoint cum_from (a : nat) (ls : list nat) : list nat :=
  match ls with [] => [] | l :: r => a :: cum_from (a + l) r end.

(* ---- _get_next_offset: np.argmax returns the FIRST maximum *)
Fixpoint argmax_from (bi bv i : nat) (l : list nat) : nat :=
  match l with
  | [] => bi
  | x :: r => if bv <? x then argmax_from i x (S i) r else argmax_from bi bv (S i) r
  end.
Definition argmax (l : list nat) : nat :=
  match l with [] => 0 | x :: r => argmax_from 0 x 1 r end.
Definition next_offset (os ls : list nat) : nat :=
  match os with
  | [] => 0
  | _ => let i := argmax os in nth i os 0 + nth i ls 0
  end.

(* ---- buffer rounding: rows_per_buf = max(1, bytes_per_buf // bytes_per_row),
   extended_n_rows = ceil(n_rows / rows_per_buf) * rows_per_buf *)
Definition rows_per_buf (bytes_per_buf bytes_per_row : Z) : Z :=
  Z.max 1 (bytes_per_buf / bytes_per_row).
Definition ext_rows (n : nat) (rpb : Z) : Z := ((Z.of_nat n + rpb - 1) / rpb * rpb)%Z.

(* firstn with a Z bound, without building a huge unary number when nothing is cut *)
Definition ztake (n : Z) (r : list Z) : list Z :=
  if (Z.of_nat (length r) <=? n)%Z then r else firstn (Z.to_nat n) r.

(* number of live sequence objects that hold a reference to buffer b *)
Definition refs (b : nat) (s : seq) : bool := live s && (sbuf s =? b).
Definition refcount (ss : list seq) (b : nat) : nat := length (filter (refs b) ss).

Definition set_seq (st : state) (i : nat) (s : seq) : state := mkSt (heap st) (upd (seqs st) i s).
Definition set_buf (st : state) (b : nat) (x : buf) : state := mkSt (upd (heap st) b x) (seqs st).
(* give sequence i a NEW buffer object *)
Definition new_buf_for (st : state) (i : nat) (x : buf) : state :=
  let s := getseq st i in
  mkSt (heap st ++ [x])
       (upd (seqs st) i (mkSeq (length (heap st)) (offs s) (lens s) (is_view s) (bufbytes s) (scache s) (live s))).
Definition set_cache (st : state) (i : nat) (c : option cache) : state :=
  let s := getseq st i in
  set_seq st i (mkSeq (sbuf s) (offs s) (lens s) (is_view s) (bufbytes s) c (live s)).

(* _resize_data_to(n_rows, build_cache); `force` = a local of the caller still holds a slice of
   self._data (extend(self)), which makes the refcheck fail exactly like a second owner *)
Definition resize_to (st : state) (i : nat) (n : nat) (rpb : Z) (force : bool) : state :=
  let s := getseq st i in
  let b := getbuf (heap st) (sbuf s) in
  let ext := ext_rows n rpb in
  if (cap b =? 0)%Z then new_buf_for st i (mkBuf ext [])                 (* _data.size == 0: np.empty *)
  else if (ext =? cap b)%Z then st                                        (* same size: resize is a no-op *)
  else if (1 <? refcount (seqs st) (sbuf s)) || force
       then new_buf_for st i (mkBuf ext (ztake ext (rows b)))             (* ValueError -> copy(); resize *)
       else set_buf st (sbuf s) (mkBuf ext (ztake ext (rows b))).         (* in place *)

(* shrink_data: nothing on a view; else resize((next_offset,)+common_shape, refcheck=False) in place *)
Definition shrink (st : state) (i : nat) : state :=
  let s := getseq st i in
  if is_view s then st              (* fix deb32026: the buffer also holds rows of the parent *)
  else
  let b := getbuf (heap st) (sbuf s) in
  let n := next_offset (offs s) (lens s) in
  set_buf st (sbuf s) (mkBuf (Z.of_nat n) (firstn n (rows b))).

(* copy(): compact buffer, cumulative offsets, default buffer_size, not a view *)
Definition compact_buf (st : state) (s : seq) : buf :=
  mkBuf (Z.of_nat (sum (lens s))) (concat (contents st s)).

(* _BuildCache.__init__: a view is first moved onto its own compact buffer (fix a22fa58a) *)
Definition detach (st : state) (i : nat) : state :=
  let s := getseq st i in
  if is_view s then
    mkSt (heap st ++ [compact_buf st s])
         (upd (seqs st) i (mkSeq (length (heap st)) (cum_from 0 (lens s)) (lens s) false
                                 (bufbytes s) (scache s) (live s)))
  else st.
Definition mk_cache (st : state) (i : nat) (bpr : Z) : state * cache :=
  let st1 := detach st i in
  let s := getseq st1 i in
  (st1, mkCache (offs s) (lens s) (next_offset (offs s) (lens s)) (rows_per_buf (bufbytes s) bpr)).

Definition update_seq (st : state) (i : nat) (c : cache) (keep : option cache) : state :=
  let s := getseq st i in
  set_seq st i (mkSeq (sbuf s) (c_offs c) (c_lens c) (is_view s) (bufbytes s) keep (live s)).

(* the body of append() after the build cache has been obtained *)
Definition append_core (st : state) (i : nat) (e : list Z) (c : cache) : state * cache :=
  let req := c_next c + length e in
  let b := getbuf (heap st) (sbuf (getseq st i)) in
  let st1 := if (cap b <? Z.of_nat req)%Z then resize_to st i req (c_rpb c) false else st in
  let bid := sbuf (getseq st1 i) in
  let b1 := getbuf (heap st1) bid in
  let st2 := set_buf st1 bid (mkBuf (cap b1) (write (c_next c) e (rows b1))) in
  (st2, mkCache (c_offs c ++ [c_next c]) (c_lens c ++ [length e]) req (c_rpb c)).

(* append(element, cache_build=cb) *)
Definition do_append (st : state) (i : nat) (bpr : Z) (e : list Z) (cb : bool) : state :=
  match e with
  | [] => st                                          (* element.size == 0: return *)
  | _ =>
    match scache (getseq st i) with
    | Some c => let '(st1, c1) := append_core st i e c in set_cache st1 i (Some c1)
    | None =>
      let '(st1, c) := mk_cache st i bpr in
      let '(st2, c1) := append_core st1 i e c in
      if cb then set_cache st2 i (Some c1) else update_seq st2 i c1 None
    end
  end.

Definition finalize (st : state) (i : nat) : state :=
  match scache (getseq st i) with
  | None => st
  | Some c => shrink (update_seq st i c None) i
  end.

(* extend(elements): `pre` = len(elements) is known (pre-allocation).  `extra` = rows of elements
   that are counted by the pre-allocation but never appended (a refused element and what follows it:
   the loop runs in try/finally, finalize_append() is reached in any case — fix 4004448f) *)
Definition extend_gen (st : state) (i : nat) (bpr : Z) (pre : bool) (els : list (list Z)) (force : bool)
           (extra : nat) : state :=
  if pre && (match els with [] => true | _ => false end) then st
  else
    let st1 :=
      if pre then
        let '(sa, c) := mk_cache st i bpr in
        let sb := set_cache sa i (Some c) in
        let s := getseq sb i in
        resize_to sb i (next_offset (offs s) (lens s) + sum (map (@length Z) els) + extra) (c_rpb c) force
      else st in
    finalize (fold_left (fun s e => do_append s i bpr e true) els st1) i.
Definition extend (st : state) (i : nat) (bpr : Z) (pre : bool) (els : list (list Z)) (force : bool) : state :=
  extend_gen st i bpr pre els force 0.

Definition add_seq (st : state) (s : seq) : state := mkSt (heap st) (seqs st ++ [s]).

Definition do_copy (st : state) (i : nat) : state :=
  let s := getseq st i in
  mkSt (heap st ++ [compact_buf st s])
       (seqs st ++ [mkSeq (length (heap st)) (cum_from 0 (lens s)) (lens s) false default_bufbytes None true]).

(* ---- indices *)
Inductive index := ISlice (a b c : option Z) | IList (l : list Z) | IMask (m : list bool).
Inductive err := EIndex | EValue | EStopIteration | EBadSeq | EType.
Inductive res (A : Type) := Ok (a : A) | Err (e : err).
Arguments Ok {A}. Arguments Err {A}.

(* PySlice_AdjustIndices + slice length *)
Definition clampi (n lo hi v : Z) : Z :=
  let v := if (v <? 0)%Z then (v + n)%Z else v in
  if (v <? 0)%Z then lo else if (n <=? v)%Z then hi else v.
Definition slice_positions (n : Z) (a b c : option Z) : res (list nat) :=
  let step := match c with None => 1%Z | Some s => s end in
  if (step =? 0)%Z then Err EValue
  else if (0 <? step)%Z then
    let start := match a with None => 0%Z | Some v => clampi n 0 n v end in
    let stop := match b with None => n | Some v => clampi n 0 n v end in
    let cnt := if (start <? stop)%Z then ((stop - start - 1) / step + 1)%Z else 0%Z in
    Ok (map (fun k => Z.to_nat (start + Z.of_nat k * step)) (List.seq 0 (Z.to_nat cnt)))
  else
    let start := match a with None => (n - 1)%Z | Some v => clampi n (-1) (n - 1) v end in
    let stop := match b with None => (-1)%Z | Some v => clampi n (-1) (n - 1) v end in
    let cnt := if (stop <? start)%Z then ((start - stop - 1) / (- step) + 1)%Z else 0%Z in
    Ok (map (fun k => Z.to_nat (start + Z.of_nat k * step)) (List.seq 0 (Z.to_nat cnt))).

Definition norm_index (n k : Z) : res nat :=
  if ((- n <=? k) && (k <? n))%Z then Ok (Z.to_nat (if (k <? 0)%Z then k + n else k)%Z) else Err EIndex.
Fixpoint list_positions (n : Z) (l : list Z) : res (list nat) :=
  match l with
  | [] => Ok []
  | k :: r => match norm_index n k, list_positions n r with
              | Ok p, Ok ps => Ok (p :: ps)
              | Err e, _ => Err e
              | _, Err e => Err e
              end
  end.
Fixpoint mask_positions (i : nat) (m : list bool) : list nat :=
  match m with [] => [] | b :: r => if b then i :: mask_positions (S i) r else mask_positions (S i) r end.
Definition positions (n : nat) (ix : index) : res (list nat) :=
  match ix with
  | ISlice a b c => slice_positions (Z.of_nat n) a b c
  | IList l => list_positions (Z.of_nat n) l
  | IMask m => if length m =? n then Ok (mask_positions 0 m) else Err EIndex
  end.
Definition pick {A} (d : A) (l : list A) (ps : list nat) : list A := map (fun p => nth p l d) ps.

(* ---- writes through offsets *)
Definition write_buf (st : state) (bid : nat) (o : nat) (e : list Z) : state :=
  let b := getbuf (heap st) bid in set_buf st bid (mkBuf (cap b) (write o e (rows b))).
Definition fill_buf (st : state) (bid : nat) (o l : nat) (v : Z) : state := write_buf st bid o (repeat v l).

(* data[o1:o1+l1] = src  with NumPy broadcasting of a one-row source *)
Definition assign_rows (st : state) (bid o1 l1 : nat) (src : list Z) : res state :=
  if length src =? l1 then Ok (write_buf st bid o1 src)
  else match src with
       | [v] => Ok (fill_buf st bid o1 l1 v)
       | _ => Err EValue
       end.

Inductive value := VScalar (v : Z) | VSeq (j : nat).

Fixpoint assign_seq (st : state) (bid : nat) (dst : list (nat * nat)) (jb : nat) (src : list (nat * nat))
  : state * option err :=
  match dst, src with
  | (o1, l1) :: dr, (o2, l2) :: sr =>
    match assign_rows st bid o1 l1 (slice o2 l2 (rows (getbuf (heap st) jb))) with
    | Ok st1 => assign_seq st1 bid dr jb sr
    | Err e => (st, Some e)
    end
  | _, _ => (st, None)
  end.

(* ---- operators: the row payload algebra is a function Z -> Z *)
Inductive fn := FAdd (k : Z) | FMul (k : Z) | FNeg | FLt (k : Z) | FEq (k : Z)
              | FOr (k : Z) | FAnd (k : Z) | FXor (k : Z) | FShl (k : Z) | FShr (k : Z).
Definition apply_fn (f : fn) (v : Z) : Z :=
  match f with
  | FAdd k => (v + k)%Z | FMul k => (v * k)%Z | FNeg => (- v)%Z
  | FLt k => if (v <? k)%Z then 1%Z else 0%Z
  | FEq k => if (v =? k)%Z then 1%Z else 0%Z
  | FOr k => Z.lor v k | FAnd k => Z.land v k | FXor k => Z.lxor v k
  | FShl k => Z.shiftl v k | FShr k => Z.shiftr v k
  end.
(* binary operators with an ArraySequence operand *)
Inductive fn2 := BAdd | BSub | BMul | BLt | BEq | BOr | BAnd | BXor.
Definition apply_fn2 (g : fn2) (a b : Z) : Z :=
  match g with
  | BAdd => (a + b)%Z | BSub => (a - b)%Z | BMul => (a * b)%Z
  | BLt => if (a <? b)%Z then 1%Z else 0%Z
  | BEq => if (a =? b)%Z then 1%Z else 0%Z
  | BOr => Z.lor a b | BAnd => Z.land a b | BXor => Z.lxor a b
  end.
Fixpoint zip_with (g : Z -> Z -> Z) (a b : list Z) : list Z :=
  match a, b with x :: a', y :: b' => g x y :: zip_with g a' b' | _, _ => [] end.
(* self_rows <op> value_rows with NumPy broadcasting of a one-row operand; None = ValueError
   (also when the result would not fit the l1 rows it is stored into) *)
Definition elem_op (g : Z -> Z -> Z) (a b : list Z) : option (list Z) :=
  if length b =? length a then Some (zip_with g a b)
  else match b with [y] => Some (map (fun x => g x y) a) | _ => None end.
(* in place: element after element in buffer `bid`, each step reads the CURRENT rows of the operand
   (which may live in the same buffer); a ValueError leaves the elements already updated *)
Fixpoint op_seq_inplace (st : state) (bid : nat) (g : Z -> Z -> Z) (dst : list (nat * nat)) (jb : nat)
         (src : list (nat * nat)) : state * option err :=
  match dst, src with
  | (o1, l1) :: dr, (o2, l2) :: sr =>
    match elem_op g (slice o1 l1 (rows (getbuf (heap st) bid))) (slice o2 l2 (rows (getbuf (heap st) jb))) with
    | Some e => op_seq_inplace (write_buf st bid o1 e) bid g dr jb sr
    | None => (st, Some EValue)
    end
  | _, _ => (st, None)
  end.
(* out of place: the rows of the result, element after element *)
Fixpoint op_seq_rows (g : Z -> Z -> Z) (a b : list (list Z)) : option (list Z) :=
  match a, b with
  | x :: a', y :: b' => match elem_op g x y, op_seq_rows g a' b' with
                        | Some e, Some r => Some (e ++ r)
                        | _, _ => None
                        end
  | _, _ => Some []
  end.
(* element after element, in place in buffer bid (an element listed twice is updated twice) *)
Definition map_elems (st : state) (bid : nat) (f : Z -> Z) (ol : list (nat * nat)) : state :=
  fold_left (fun s p => write_buf s bid (fst p) (map f (slice (fst p) (snd p) (rows (getbuf (heap s) bid))))) ol st.

Inductive op :=
  | ONew (bytes bpr : Z) (pre : bool) (els : list (list Z))   (* ArraySequence(iterable, buffer_size) *)
  | OAppend (i : nat) (bpr : Z) (e : list Z) (cb : bool)
  | OFinalize (i : nat)
  | OExtend (i : nat) (bpr : Z) (pre : bool) (els : list (list Z))
  | OExtendSeq (i : nat) (bpr : Z) (j : nat)
  | OGetInt (i : nat) (k : Z)
  | OGetIdx (i : nat) (ix : index)
  | OView (i : nat) (bytes : Z)                                (* ArraySequence(seq, buffer_size) *)
  | OCopy (i : nat)
  | OSetInt (i : nat) (k : Z) (v : Z)
  | OSetIntRows (i : nat) (k : Z) (vs : list Z)
  | OSetIdx (i : nat) (ix : index) (v : value)
  | OOp (i : nat) (f : fn) (inplace : bool) (dtchg : bool)
  | OConcat (js : list (nat * Z))
  | ODrop (i : nat)
  | OOpSeq (i : nat) (g : fn2) (j : nat) (inplace : bool) (dtchg : bool)
  | OAppendBad (i : nat)            (* append of a non-empty element with another trailing shape *)
  | OOpRefused (i : nat) (oj : option nat)
      (* IN-PLACE operator (scalar operand: None; ArraySequence operand: Some j) whose result dtype NumPy cannot
         cast (casting='same_kind') to the dtype of the target's buffer, e.g. int64 += float64, bool += int:
         numpy UFuncTypeError (a TypeError).  Which dtypes meet is decided by the harness from NumPy's promotion
         rule, like the dtchg flag of OOp / OOpSeq; the model has no dtype component. *)
  | OShrink (i : nat)               (* shrink_data() called directly *)
  | OConcat1 (js : list nat)        (* concatenate(seqs, axis=1) *)
  | OGetCols (i : nat) (ix : index) (* seq[idx, cols]: a column view of the selected elements *)
  | ODeepCopy (i : nat)             (* copy.deepcopy(seq), what Tractogram.copy() does to every component *)
  | OExtendBad (i : nat) (bpr : Z) (pre : bool) (good : list (list Z)) (extra : nat)
      (* extend(good ++ [an element with another trailing shape] ++ more); extra = rows of bad ++ more *).

Inductive result := ROk | RElem (e : list Z) | RErr (e : err).

Definition is_live (st : state) (i : nat) : bool := (i <? length (seqs st)) && live (getseq st i).

Definition new_view (st : state) (s : seq) (os ls : list nat) (bytes : Z) : state :=
  add_seq st (mkSeq (sbuf s) os ls true bytes None true).

(* concatenate(axis=1): one row of the result is the row of the first operand followed by the rows of
   the others; with one Z per row the joined row is coded positionally in base cat_base *)
Definition cat_base : Z := 100003.
Fixpoint zip_rows (rs : list (list Z)) : list Z :=
  match rs with
  | [] => []
  | [r] => r
  | r :: rest => zip_with (fun a b => (a + cat_base * b)%Z) r (zip_rows rest)   (* little-endian digits *)
  end.

Definition step (st : state) (o : op) : state * result :=
  match o with
  | ONew bytes bpr pre els =>
    let st1 := mkSt (heap st ++ [empty_buf])
                    (seqs st ++ [mkSeq (length (heap st)) [] [] false bytes None true]) in
    (extend st1 (length (seqs st)) bpr pre els false, ROk)
  | OAppend i bpr e cb =>
    if is_live st i then (do_append st i bpr e cb, ROk) else (st, RErr EBadSeq)
  | OFinalize i =>
    if is_live st i then (finalize st i, ROk) else (st, RErr EBadSeq)
  | OExtend i bpr pre els =>
    if is_live st i then (extend st i bpr pre els false, ROk) else (st, RErr EBadSeq)
  | OExtendSeq i bpr j =>
    if is_live st i && is_live st j then
      (extend st i bpr true (contents st (getseq st j)) ((i =? j) && negb (is_view (getseq st i))), ROk)
    else (st, RErr EBadSeq)
  | OGetInt i k =>
    if is_live st i then
      let s := getseq st i in
      match norm_index (Z.of_nat (length (offs s))) k with
      | Ok p => (st, RElem (slice (nth p (offs s) 0) (nth p (lens s) 0) (rows (getbuf (heap st) (sbuf s)))))
      | Err e => (st, RErr e)
      end
    else (st, RErr EBadSeq)
  | OGetIdx i ix =>
    if is_live st i then
      let s := getseq st i in
      match positions (length (offs s)) ix with
      | Ok ps => (new_view st s (pick 0 (offs s) ps) (pick 0 (lens s) ps) default_bufbytes, ROk)
      | Err e => (st, RErr e)
      end
    else (st, RErr EBadSeq)
  | OView i bytes =>
    if is_live st i then
      let s := getseq st i in (new_view st s (offs s) (lens s) bytes, ROk)
    else (st, RErr EBadSeq)
  | OCopy i =>
    if is_live st i then (do_copy st i, ROk) else (st, RErr EBadSeq)
  | OSetInt i k v =>
    if is_live st i then
      let s := getseq st i in
      match norm_index (Z.of_nat (length (offs s))) k with
      | Ok p => (fill_buf st (sbuf s) (nth p (offs s) 0) (nth p (lens s) 0) v, ROk)
      | Err e => (st, RErr e)
      end
    else (st, RErr EBadSeq)
  | OSetIntRows i k vs =>
    if is_live st i then
      let s := getseq st i in
      match norm_index (Z.of_nat (length (offs s))) k with
      | Ok p => match assign_rows st (sbuf s) (nth p (offs s) 0) (nth p (lens s) 0) vs with
                | Ok st1 => (st1, ROk)
                | Err e => (st, RErr e)
                end
      | Err e => (st, RErr e)
      end
    else (st, RErr EBadSeq)
  | OSetIdx i ix v =>
    if is_live st i then
      let s := getseq st i in
      match positions (length (offs s)) ix with
      | Ok ps =>
        let os := pick 0 (offs s) ps in
        let ls := pick 0 (lens s) ps in
        match v with
        | VScalar x => (fold_left (fun a p => fill_buf a (sbuf s) (fst p) (snd p) x) (combine os ls) st, ROk)
        | VSeq j =>
          if is_live st j then
            let t := getseq st j in
            if negb (length ls =? length (offs t)) then (st, RErr EValue)
            else if negb (sum ls =? sum (lens t)) then (st, RErr EValue)
            else match assign_seq st (sbuf s) (combine os ls) (sbuf t) (combine (offs t) (lens t)) with
                 | (st1, None) => (st1, ROk)
                 | (st1, Some e) => (st1, RErr e)
                 end
          else (st, RErr EBadSeq)
        end
      | Err e => (st, RErr e)
      end
    else (st, RErr EBadSeq)
  | OOp i f inplace dtchg =>
    if is_live st i then
      let s := getseq st i in
      match offs s with
      | [] => (st, RErr EStopIteration)                   (* next(elements) on an empty zip *)
      | _ =>
        if inplace then (map_elems st (sbuf s) (apply_fn f) (combine (offs s) (lens s)), ROk)
        else
          let st1 := do_copy st i in
          let k := length (seqs st) in
          let b := getbuf (heap st1) (sbuf (getseq st1 k)) in
          (* astype(tmp.dtype, copy=False): a new buffer object iff the dtype changes *)
          let st2 := if dtchg then new_buf_for st1 k b else st1 in
          let bid := sbuf (getseq st2 k) in
          (set_buf st2 bid (mkBuf (cap b) (map (apply_fn f) (rows b))), ROk)
      end
    else (st, RErr EBadSeq)
  | OConcat js =>
    match js with
    | [] => (st, RErr EIndex)
    | (j0, _) :: rest =>
      if forallb (fun p => is_live st (fst p)) js then
        let k := length (seqs st) in
        (fold_left (fun a p => extend a k (snd p) true (contents a (getseq a (fst p))) false) rest (do_copy st j0), ROk)
      else (st, RErr EBadSeq)
    end
  | ODrop i =>
    if is_live st i then
      let s := getseq st i in
      (set_seq st i (mkSeq (sbuf s) (offs s) (lens s) (is_view s) (bufbytes s) (scache s) false), ROk)
    else (st, RErr EBadSeq)
  | OOpSeq i g j inplace dtchg =>
    if is_live st i && is_live st j then
      let s := getseq st i in
      let t := getseq st j in
      (* _check_shape: number of elements, then total number of rows *)
      if negb (length (lens s) =? length (lens t)) then (st, RErr EValue)
      else if negb (sum (lens s) =? sum (lens t)) then (st, RErr EValue)
      else match offs s with
      | [] => (st, RErr EStopIteration)
      | _ =>
        if inplace then
          match op_seq_inplace st (sbuf s) (apply_fn2 g) (combine (offs s) (lens s)) (sbuf t)
                               (combine (offs t) (lens t)) with
          | (st1, None) => (st1, ROk)
          | (st1, Some e) => (st1, RErr e)
          end
        else
          match op_seq_rows (apply_fn2 g) (contents st s) (contents st t) with
          | None => (st, RErr EValue)               (* the local copy is dropped *)
          | Some r =>
            let st1 := do_copy st i in
            let k := length (seqs st) in
            let b := getbuf (heap st1) (sbuf (getseq st1 k)) in
            let st2 := if dtchg then new_buf_for st1 k b else st1 in
            (set_buf st2 (sbuf (getseq st2 k)) (mkBuf (cap b) r), ROk)
          end
      end
    else (st, RErr EBadSeq)
  | OAppendBad i =>
    (* fixes d6c9fa58 / 6d34bd19: the trailing shape is checked before anything else, in a cached
       build too.  A sequence without any element may not have a trailing shape yet (the element
       would define it): outside the modelled domain, reported as EBadSeq. *)
    if is_live st i then
      let s := getseq st i in
      match offs s, scache s with
      | [], None => (st, RErr EBadSeq)
      | _, _ => (st, RErr EValue)
      end
    else (st, RErr EBadSeq)
  | OOpRefused i oj =>
    (* _op(inplace=True): _check_shape (ValueError) and next(elements) (StopIteration on an empty target) come
       first; then `self._data[o1:o1+l1].__iop__(value)` on the FIRST element raises before anything is written *)
    if is_live st i && match oj with None => true | Some j => is_live st j end then
      let s := getseq st i in
      let bad_shape := match oj with
                       | None => false
                       | Some j => let t := getseq st j in
                                   negb (length (lens s) =? length (lens t)) || negb (sum (lens s) =? sum (lens t))
                       end in
      if bad_shape then (st, RErr EValue)
      else match offs s with
           | [] => (st, RErr EStopIteration)
           | _ => (st, RErr EType)
           end
    else (st, RErr EBadSeq)
  | OShrink i =>
    (* inside a cached build shrink_data() would cut the pending rows (API misuse: "append can assume
       it is the only player"): outside the modelled domain, reported as EBadSeq *)
    if is_live st i then
      match scache (getseq st i) with
      | None => (shrink st i, ROk)
      | Some _ => (st, RErr EBadSeq)
      end
    else (st, RErr EBadSeq)
  | OConcat1 js =>
    (* fix a8ee0dfb: new_seq = seqs[0].copy(); its rows are joined with the rows of COMPACT copies of
       the others; np.concatenate needs equally many rows.  Operands without rows may still hold the
       1-D initial buffer (AxisError): outside the modelled domain, EBadSeq. *)
    match js with
    | [] => (st, RErr EIndex)
    | j0 :: _ =>
      if forallb (is_live st) js then
        let rs := map (fun j => concat (contents st (getseq st j))) js in
        let n := sum (lens (getseq st j0)) in
        if n =? 0 then (st, RErr EBadSeq)
        else if forallb (fun r => length r =? n) rs then
          let st1 := do_copy st j0 in
          let k := length (seqs st) in
          let b := getbuf (heap st1) (sbuf (getseq st1 k)) in
          (set_buf st1 (sbuf (getseq st1 k)) (mkBuf (cap b) (zip_rows rs)), ROk)
        else (st, RErr EValue)
      else (st, RErr EBadSeq)
    end
  | ODeepCopy i =>
    (* every attribute is copied: the WHOLE buffer (also rows that are not this sequence's), the same
       offsets and lengths, _is_view and _buffer_size as they are, the build cache too *)
    if is_live st i then
      let s := getseq st i in
      (mkSt (heap st ++ [getbuf (heap st) (sbuf s)])
            (seqs st ++ [mkSeq (length (heap st)) (offs s) (lens s) (is_view s) (bufbytes s) (scache s) true]), ROk)
    else (st, RErr EBadSeq)
  | OExtendBad i bpr pre good extra =>
    (* the good elements are appended, the bad one raises ValueError inside the loop, finalize_append()
       runs in the finally clause: the sequence keeps the good elements and stays usable.  When the
       refusal would have to come from a sequence that has no trailing shape yet (no element before,
       none appended) the element would define the shape instead: outside the domain, EBadSeq. *)
    if is_live st i then
      let s := getseq st i in
      let shapeless := match offs s, scache s with [], None => true | _, _ => false end in
      if pre then
        match good with
        | [] => if shapeless then (st, RErr EBadSeq) else (st, RErr EValue)   (* _BuildCache refuses elements[0] *)
        | _ => (extend_gen st i bpr true good false extra, RErr EValue)
        end
      else if shapeless && forallb (fun e => match e with [] => true | _ => false end) good
           then (st, RErr EBadSeq)
           else (extend_gen st i bpr false good false 0, RErr EValue)
    else (st, RErr EBadSeq)
  | OGetCols i ix =>
    (* seq._data = self._data[:, cols] is a NumPy view of the same memory, _is_view = True: with one Z
       per row this is the view that seq[idx] creates (the harness only reads such objects) *)
    if is_live st i then
      let s := getseq st i in
      match positions (length (offs s)) ix with
      | Ok ps => (new_view st s (pick 0 (offs s) ps) (pick 0 (lens s) ps) default_bufbytes, ROk)
      | Err e => (st, RErr e)
      end
    else (st, RErr EBadSeq)
  end.

(* ---- observation after each step: contents of every live object and the sharing relation
   (buffer ids as they are; the driver renumbers them by first occurrence) *)
Definition observe (st : state) : list (nat * (nat * list (list Z))) :=
  map (fun p => (fst p, (sbuf (snd p), contents st (snd p))))
      (filter (fun p => live (snd p)) (combine (List.seq 0 (length (seqs st))) (seqs st))).

Fixpoint run (st : state) (ops : list op) : list (result * list (nat * (nat * list (list Z)))) :=
  match ops with
  | [] => []
  | o :: r => let '(st1, x) := step st o in (x, observe st1) :: run st1 r
  end.

Definition exec (st : state) (ops : list op) : state := fold_left (fun s o => fst (step s o)) ops st.

(* ---- abstract specification: a Python list of arrays *)
Definition spec_pick (l : list (list Z)) (ps : list nat) : list (list Z) := pick [] l ps.
Definition spec_append (l : list (list Z)) (e : list Z) : list (list Z) :=
  match e with [] => l | _ => l ++ [e] end.
Definition spec_extend (l : list (list Z)) (els : list (list Z)) : list (list Z) := fold_left spec_append els l.
Definition spec_fill (l : list (list Z)) (p : nat) (v : Z) : list (list Z) :=
  upd l p (repeat v (length (nth p l []))).
