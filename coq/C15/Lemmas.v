(* C15/Lemmas.v — the property lemmas, for every well-formed state (every reachable state is one: reachable_wf). *)
From Coq Require Import ZArith List Bool Arith Lia.
From NV Require Import C15.Model C15.ListLemmas C15.Invariant C15.Steps C15.Steps2.
Import ListNotations.

Definition reachable (st : state) : Prop := exists ops, st = exec init ops.

Lemma reachable_wf st : reachable st -> wf st.
Proof. intros (ops & ->). apply wf_exec. apply wf_init. Qed.

Lemma reachable_step st o : reachable st -> reachable (fst (step st o)).
Proof.
  intros (ops & ->). exists (ops ++ [o]). unfold exec. rewrite fold_left_app. reflexivity.
Qed.

(* The lemmas below are stated for EVERY well-formed state (Invariant.wf), reachable or not; every reachable state
   is one (reachable_wf), and the invariant is kept by every step (wf_step). *)
Lemma ok_wf st : wf st -> wf st.
Proof. auto. Qed.

Lemma ok_step st o : wf st -> wf (fst (step st o)).
Proof. apply wf_step. Qed.

(* contents of sequence object k *)
Definition C (st : state) (k : nat) : list (list Z) := contents st (getseq st k).

(* ---------------------------------------------------------------- growth leaves everybody else alone *)
Lemma isolated_from_frame st st' i : wf st -> i < length (seqs st) ->
  (forall K, (is_view (getseq st i) = false -> K <= vis_end (getseq st i)) -> frame st st' i K) ->
  forall j, j <> i -> j < length (seqs st) -> getseq st' j = getseq st j /\ C st' j = C st j.
Proof.
  intros W Hi HF j Hji Hj.
  destruct (wf_seq _ W j Hj) as (Sj1 & Sj2 & _).
  set (K := if is_view (getseq st i) then length (rows_of st (sbuf (getseq st j))) else vis_end (getseq st i)).
  assert (HK : is_view (getseq st i) = false -> K <= vis_end (getseq st i)).
  { intros E. unfold K. rewrite E. lia. }
  destruct (HF K HK) as (F1 & F2 & F3 & F4 & F5).
  split; [apply F3; auto|].
  unfold C. rewrite F3 by auto. unfold contents.
  apply elems_of_ext. intros o l Hin.
  destruct (wf_pair_bound st j o l W Hj Hin) as (Hl & Hb).
  apply (F5 (sbuf (getseq st j)) o l Sj1 Hb).
  intros E. unfold K. destruct (is_view (getseq st i)) eqn:Ev; [exact Hb|].
  (* i is the owner of the buffer: j selects elements of i's chain *)
  destruct (wf_buf _ W _ Sj1) as (os & ls & C1 & C2 & C3).
  destruct (proj2 (C3 i Hi (eq_sym E)) Ev) as (E1 & E2).
  apply (proj1 (C3 j Hj eq_refl)) in Hin.
  destruct (chain_in _ _ _ _ _ C1 Hin) as (_ & _ & ?). unfold vis_end. rewrite E1, E2. exact H.
Qed.

Lemma frame_of_frontier st st' i : wf st -> i < length (seqs st) ->
  (forall K, (is_view (getseq st i) = false -> K <= frontier (getseq st i)) -> frame st st' i K) ->
  (forall K, (is_view (getseq st i) = false -> K <= vis_end (getseq st i)) -> frame st st' i K).
Proof.
  intros W Hi H K HK. apply H. intros Ev. specialize (HK Ev).
  pose proof (vis_end_le_frontier st i W Hi Ev). lia.
Qed.

(* the operations that grow sequence i *)
Definition grows (o : op) (i : nat) : Prop :=
  match o with
  | OAppend i' _ _ _ | OFinalize i' | OExtend i' _ _ _ | OExtendSeq i' _ _ | OExtendBad i' _ _ _ _ => i' = i
  | _ => False
  end.

Lemma grow_isolated st o i : wf st -> grows o i ->
  forall j, j <> i -> j < length (seqs st) ->
    getseq (fst (step st o)) j = getseq st j /\ C (fst (step st o)) j = C st j.
Proof.
  intros R G j Hji Hj. pose proof (ok_wf st R) as W.
  destruct o; simpl in G; try tauto; subst; simpl.
  - destruct (is_live st i) eqn:L; simpl; auto. apply is_live_lt in L.
    destruct e as [|z e]; [rewrite do_append_nil; auto|].
    apply (isolated_from_frame st _ i W L); auto.
    apply frame_of_frontier; auto. apply (do_append_spec st i bpr (z :: e) cb W L). discriminate.
  - destruct (is_live st i) eqn:L; simpl; auto. apply is_live_lt in L.
    apply (isolated_from_frame st _ i W L); auto.
    apply frame_of_frontier; auto. apply (finalize_spec st i W L).
  - destruct (is_live st i) eqn:L; simpl; auto. apply is_live_lt in L.
    apply (isolated_from_frame st _ i W L); auto. apply (extend_spec st i bpr pre els false W L).
  - destruct (is_live st i && is_live st j0) eqn:L; simpl; auto.
    apply andb_prop in L. destruct L as (L & _). apply is_live_lt in L.
    apply (isolated_from_frame st _ i W L); auto. apply (extend_spec st i bpr true _ _ W L).
  - (* a refused extend *)
    destruct (is_live st i) eqn:L; simpl; auto. apply is_live_lt in L.
    destruct pre.
    + destruct good; [destruct (match offs _ with [] => _ | _ => _ end); simpl; auto|]. simpl.
      apply (isolated_from_frame st _ i W L); auto. apply (extend_gen_spec st i bpr true _ false extra W L).
    + destruct (_ && _); simpl; auto.
      apply (isolated_from_frame st _ i W L); auto. apply (extend_gen_spec st i bpr false _ false 0 W L).
Qed.

(* ---------------------------------------------------------------- own contents: growth *)
(* visible elements followed by the pending ones of a cached build *)
Definition F (st : state) (k : nat) : list (list Z) := full st (getseq st k).

Lemma F_no_cache st k : scache (getseq st k) = None -> F st k = C st k.
Proof. intros. unfold F, C. apply full_no_cache; auto. Qed.

Lemma own_append_gen st i bpr e cb : wf st -> is_live st i = true ->
  let st' := fst (step st (OAppend i bpr e cb)) in
  F st' i = spec_append (F st i) e /\
  (scache (getseq st i) = None -> cb = false -> C st' i = spec_append (C st i) e) /\
  (scache (getseq st i) <> None \/ cb = true -> C st' i = C st i).
Proof.
  intros R L. pose proof (ok_wf st R) as W. simpl. rewrite L. simpl.
  apply is_live_lt in L.
  destruct e as [|z e].
  - rewrite do_append_nil. simpl. auto.
  - destruct (do_append_spec st i bpr (z :: e) cb W L ltac:(discriminate))
      as (W1 & _ & _ & _ & _ & FU & N1 & N2 & _).
    split; [exact FU|split].
    + intros Hc Hcb. rewrite <- (F_no_cache _ i (N1 Hc Hcb)), <- (F_no_cache st i Hc). exact FU.
    + intros H. apply (N2 H).
Qed.

Lemma own_finalize st i : wf st -> is_live st i = true ->
  C (fst (step st (OFinalize i))) i = F st i.
Proof.
  intros R L. pose proof (ok_wf st R) as W. simpl. rewrite L. simpl. apply is_live_lt in L.
  apply (finalize_spec st i W L).
Qed.

Lemma own_extend st i bpr pre els : wf st -> is_live st i = true ->
  pre = true \/ scache (getseq st i) = None ->
  C (fst (step st (OExtend i bpr pre els))) i = spec_extend (C st i) els.
Proof.
  intros R L H. pose proof (ok_wf st R) as W. simpl. rewrite L. simpl. apply is_live_lt in L.
  destruct (extend_spec st i bpr pre els false W L) as (_ & _ & CT & _).
  unfold C. rewrite CT. destruct pre; auto. destruct H as [H|H]; [discriminate|].
  rewrite full_no_cache; auto.
Qed.

Lemma own_extend_seq st i bpr j : wf st -> is_live st i = true -> is_live st j = true ->
  C (fst (step st (OExtendSeq i bpr j))) i = spec_extend (C st i) (C st j).
Proof.
  intros R L Lj. pose proof (ok_wf st R) as W. simpl. rewrite L, Lj. simpl. apply is_live_lt in L.
  apply (extend_spec st i bpr true _ _ W L).
Qed.

(* extend(good ++ [refused element] ++ more): the good elements are kept, an error is reported *)
Lemma own_extend_bad st i bpr pre good extra : wf st -> is_live st i = true ->
  scache (getseq st i) = None ->
  let st' := fst (step st (OExtendBad i bpr pre good extra)) in
  (exists e, snd (step st (OExtendBad i bpr pre good extra)) = RErr e) /\
  C st' i = spec_extend (C st i) good /\ scache (getseq st i) = None.
Proof.
  intros R L Hc. pose proof (ok_wf st R) as W. simpl. rewrite L. apply is_live_lt in L.
  assert (E0 : forall g, Forall (fun e => e = []) g -> spec_extend (C st i) g = C st i).
  { induction g as [|e g IH]; intros HF; [reflexivity|]. inversion HF; subst. simpl. apply IH; auto. }
  destruct pre.
  - destruct good as [|g0 good].
    + destruct (match offs _ with [] => _ | _ => _ end); simpl; (split; [eexists; reflexivity|auto]).
    + simpl. split; [eexists; reflexivity|split; [|auto]].
      apply (extend_gen_spec st i bpr true (g0 :: good) false extra W L).
  - destruct (_ && forallb _ good) eqn:EB; simpl.
    + split; [eexists; reflexivity|split; [|auto]].
      apply andb_prop in EB. destruct EB as (_ & EB). symmetry. apply E0.
      apply Forall_forall. intros e He. rewrite forallb_forall in EB. specialize (EB e He). destruct e; auto; discriminate.
    + split; [eexists; reflexivity|split; [|auto]].
      destruct (extend_gen_spec st i bpr false good false 0 W L) as (_ & _ & CT & _).
      unfold C. rewrite CT. rewrite full_no_cache; auto.
Qed.

Lemma own_new st bytes bpr pre els : wf st ->
  C (fst (step st (ONew bytes bpr pre els))) (length (seqs st)) = spec_extend [] els.
Proof.
  intros R. pose proof (ok_wf st R) as W. simpl.
  set (st1 := mkSt (heap st ++ [empty_buf]) (seqs st ++ [mkSeq (length (heap st)) [] [] false bytes None true])).
  assert (W1 : wf st1) by (apply wf_add_fresh; simpl; auto; lia).
  assert (H1 : length (seqs st) < length (seqs st1)) by (unfold st1; simpl; rewrite app_length; simpl; lia).
  destruct (extend_spec st1 (length (seqs st)) bpr pre els false W1 H1) as (_ & _ & CT & _).
  unfold C. rewrite CT.
  assert (G : getseq st1 (length (seqs st)) = mkSeq (length (heap st)) [] [] false bytes None true).
  { unfold getseq, st1; simpl. apply nth_app_new. }
  assert (E : contents st1 (getseq st1 (length (seqs st))) = []) by (rewrite G; reflexivity).
  destruct pre; [rewrite E; reflexivity|].
  rewrite full_no_cache by (rewrite G; reflexivity). rewrite E. reflexivity.
Qed.

(* ---------------------------------------------------------------- own contents: indexing, copies *)
Lemma nth_elems_of r os ls p : length os = length ls -> p < length os ->
  nth p (elems_of r os ls) [] = slice (nth p os 0) (nth p ls 0) r.
Proof.
  intros HL Hp. unfold elems_of.
  set (f := fun q : nat * nat => slice (fst q) (snd q) r).
  rewrite nth_indep with (d' := f (0, 0)) by (rewrite map_length, combine_length; lia).
  rewrite map_nth, combine_nth by auto. reflexivity.
Qed.

Lemma elems_of_pick r os ls ps : length os = length ls -> Forall (fun p => p < length os) ps ->
  elems_of r (pick 0 os ps) (pick 0 ls ps) = spec_pick (elems_of r os ls) ps.
Proof.
  intros HL HF. unfold spec_pick, pick, elems_of at 1.
  induction ps as [|p ps IH]; simpl; auto. inversion HF; subst.
  f_equal; [rewrite nth_elems_of; auto|apply IH; auto].
Qed.

Lemma add_seq_keeps st s : keeps st (add_seq st s).
Proof.
  unfold keeps, add_seq; simpl. rewrite app_length. split; [lia|split; [lia|split; auto]].
  intros k Hk. unfold getseq; simpl. apply nth_app_old; auto.
Qed.

Lemma own_get_int st i k : wf st -> is_live st i = true ->
  let n := Z.of_nat (length (C st i)) in
  snd (step st (OGetInt i k)) =
    (if ((- n <=? k) && (k <? n))%Z then RElem (nth (Z.to_nat (if (k <? 0)%Z then k + n else k)) (C st i) [])
     else RErr EIndex) /\ fst (step st (OGetInt i k)) = st.
Proof.
  intros R L. pose proof (ok_wf st R) as W. simpl. rewrite L. apply is_live_lt in L.
  destruct (wf_seq _ W i L) as (_ & S2 & _).
  assert (LC : length (C st i) = length (offs (getseq st i))).
  { unfold C, contents, elems_of. rewrite map_length, combine_length. lia. }
  rewrite LC. unfold norm_index.
  destruct ((- Z.of_nat (length (offs (getseq st i))) <=? k)%Z && (k <? Z.of_nat (length (offs (getseq st i))))%Z) eqn:E; simpl; auto.
  split; auto. f_equal. unfold C, contents. rewrite nth_elems_of; auto.
  apply andb_prop in E. destruct E as (E1 & E2). destruct (k <? 0)%Z eqn:E3; lia.
Qed.

Lemma own_get_idx st i ix : wf st -> is_live st i = true ->
  let st' := fst (step st (OGetIdx i ix)) in
  match positions (length (C st i)) ix with
  | Ok ps => snd (step st (OGetIdx i ix)) = ROk /\ C st' (length (seqs st)) = spec_pick (C st i) ps /\ keeps st st'
  | Err e => snd (step st (OGetIdx i ix)) = RErr e /\ st' = st
  end.
Proof.
  intros R L. pose proof (ok_wf st R) as W. simpl. rewrite L. apply is_live_lt in L.
  destruct (wf_seq _ W i L) as (_ & S2 & _).
  assert (LC : length (C st i) = length (offs (getseq st i))).
  { unfold C, contents, elems_of. rewrite map_length, combine_length. lia. }
  rewrite LC. destruct (positions _ ix) as [ps|e] eqn:P; simpl; auto.
  split; [auto|split; [|apply add_seq_keeps]].
  apply positions_bound in P. unfold C, new_view.
  assert (G : getseq (add_seq st (mkSeq (sbuf (getseq st i)) (pick 0 (offs (getseq st i)) ps)
                (pick 0 (lens (getseq st i)) ps) true default_bufbytes None true)) (length (seqs st)) = 
              mkSeq (sbuf (getseq st i)) (pick 0 (offs (getseq st i)) ps) (pick 0 (lens (getseq st i)) ps) true default_bufbytes None true).
  { unfold getseq, add_seq; simpl. apply nth_app_new. }
  rewrite G. unfold contents. cbn [sbuf offs lens]. apply elems_of_pick; auto.
Qed.

Lemma own_view st i bytes : wf st -> is_live st i = true ->
  let st' := fst (step st (OView i bytes)) in
  C st' (length (seqs st)) = C st i /\ keeps st st' /\
  sbuf (getseq st' (length (seqs st))) = sbuf (getseq st i).
Proof.
  intros R L. simpl. rewrite L. simpl. unfold new_view.
  assert (G : forall s, getseq (add_seq st s) (length (seqs st)) = s).
  { intros. unfold getseq, add_seq; simpl. apply nth_app_new. }
  unfold C. rewrite G. split; [reflexivity|split; [apply add_seq_keeps|reflexivity]].
Qed.

(* copy() succeeds on every wf sequence; the copy has the same contents on a buffer of
   its own, nothing else changes *)
Lemma copy_total st i : wf st -> is_live st i = true ->
  let st' := fst (step st (OCopy i)) in
  snd (step st (OCopy i)) = ROk /\ C st' (length (seqs st)) = C st i /\ keeps st st' /\
  (forall j, j < length (seqs st) -> sbuf (getseq st' j) <> sbuf (getseq st' (length (seqs st)))).
Proof.
  intros R L. pose proof (ok_wf st R) as W. simpl. rewrite L. simpl. apply is_live_lt in L.
  destruct (do_copy_spec st i W L) as (W1 & K1 & L1 & G1 & C1 & R1).
  split; [auto|split; [exact C1|split; [exact K1|]]].
  intros j Hj. rewrite G1. cbn [sbuf]. destruct K1 as (_ & _ & K3 & _). rewrite K3 by auto.
  pose proof (wf_seq _ W j Hj) as (S1 & _). lia.
Qed.

(* ---------------------------------------------------------------- cells: writes through offsets *)
Definition pair_eqb (a b : nat * nat) : bool := (fst a =? fst b) && (snd a =? snd b).
Lemma pair_eqb_spec a b : reflect (a = b) (pair_eqb a b).
Proof.
  destruct a as (a1, a2), b as (b1, b2). unfold pair_eqb; simpl.
  destruct (Nat.eqb_spec a1 b1), (Nat.eqb_spec a2 b2); constructor; congruence.
Qed.

(* the (offset, length) pair of element q of sequence j *)
Definition cell (st : state) (j q : nat) : nat * nat :=
  (nth q (offs (getseq st j)) 0, nth q (lens (getseq st j)) 0).
(* element q of sequence j is the same array as the cell c of buffer b *)
Definition is_cell (st : state) (j q : nat) (b : nat) (c : nat * nat) : bool :=
  (sbuf (getseq st j) =? b) && pair_eqb (cell st j q) c.
Definition V (st : state) (j q : nat) : list Z := nth q (C st j) [].

Lemma V_slice st j q : wf st -> j < length (seqs st) -> q < length (offs (getseq st j)) ->
  V st j q = slice (fst (cell st j q)) (snd (cell st j q)) (rows_of st (sbuf (getseq st j))).
Proof.
  intros W Hj Hq. unfold V, C, contents. rewrite nth_elems_of; auto. apply (wf_seq _ W j Hj).
Qed.

Lemma write_elem_cells st i o l e : wf st -> i < length (seqs st) ->
  In (o, l) (pairs (getseq st i)) -> length e = l ->
  let st' := write_buf st (sbuf (getseq st i)) o e in
  forall j q, j < length (seqs st) -> q < length (offs (getseq st j)) ->
    V st' j q = if is_cell st j q (sbuf (getseq st i)) (o, l) then e else V st j q.
Proof.
  intros W Hi Hin He st' j q Hj Hq.
  destruct (write_elem_spec st i o l e W Hi Hin He) as (W' & S' & H' & RO & RL & RS).
  fold st' in W', S', H', RO, RL, RS.
  assert (G : getseq st' j = getseq st j) by (apply getseq_seqs_eq; auto).
  assert (Hj' : j < length (seqs st')) by (rewrite S'; auto).
  rewrite (V_slice st' j q W' Hj') by (rewrite G; auto).
  rewrite (V_slice st j q W Hj Hq).
  unfold cell, is_cell. rewrite G. cbn [fst snd].
  destruct (Nat.eqb_spec (sbuf (getseq st j)) (sbuf (getseq st i))) as [E|N]; simpl.
  - rewrite E. rewrite (RS j _ _ Hj E (pairs_nth st j q W Hj Hq)). reflexivity.
  - rewrite RO by auto. reflexivity.
Qed.

Lemma stable_V_len st0 st : stable st0 st -> seqs st = seqs st0.
Proof. intros (_ & E & _); auto. Qed.

(* s[idx] = scalar : every selected cell is filled, everything else keeps its value *)
Lemma fill_fold_cells st0 i v T : forall st, stable st0 st -> i < length (seqs st0) ->
  incl T (pairs (getseq st0 i)) ->
  let st' := fold_left (fun a p => fill_buf a (sbuf (getseq st0 i)) (fst p) (snd p) v) T st in
  forall j q, j < length (seqs st0) -> q < length (offs (getseq st0 j)) ->
    V st' j q = if (sbuf (getseq st0 j) =? sbuf (getseq st0 i)) && existsb (pair_eqb (cell st0 j q)) T
                then repeat v (snd (cell st0 j q)) else V st j q.
Proof.
  induction T as [|(o, l) T IH]; intros st HS Hi Hincl; simpl.
  - intros. rewrite andb_false_r. reflexivity.
  - intros j q Hj Hq.
    assert (Hin : In (o, l) (pairs (getseq st0 i))) by (apply Hincl; left; auto).
    assert (Hincl' : incl T (pairs (getseq st0 i))) by (intros x Hx; apply Hincl; right; auto).
    pose proof (stable_write st0 st i o l (repeat v l) HS Hi Hin (repeat_length _ _)) as HS1.
    unfold fill_buf at 2. cbn [fst snd].
    rewrite (IH _ HS1 Hi Hincl' j q Hj Hq).
    destruct HS as (W & ES & EH).
    assert (G : forall k, getseq st k = getseq st0 k) by (intros; apply getseq_seqs_eq; auto).
    assert (Hi' : i < length (seqs st)) by (rewrite ES; auto).
    assert (Hj' : j < length (seqs st)) by (rewrite ES; auto).
    pose proof (write_elem_cells st i o l (repeat v l) W Hi') as WC. rewrite G in WC.
    specialize (WC Hin (repeat_length _ _)). cbv zeta in WC.
    rewrite WC by (rewrite ?G; auto).
    unfold is_cell, cell. rewrite !G. fold (cell st0 j q).
    destruct (sbuf (getseq st0 j) =? sbuf (getseq st0 i)); simpl; auto.
    destruct (pair_eqb_spec (cell st0 j q) (o, l)) as [E|N]; simpl.
    + unfold cell in E. inversion E; subst o l. destruct (existsb _ T); reflexivity.
    + reflexivity.
Qed.

Fixpoint iter {A} (n : nat) (g : A -> A) (x : A) : A := match n with O => x | S m => iter m g (g x) end.
Definition occ (c : nat * nat) (T : list (nat * nat)) : nat := length (filter (pair_eqb c) T).

(* in-place operator: every cell is updated once per occurrence in the operand *)
Lemma map_elems_cells st0 i f T : forall st, stable st0 st -> i < length (seqs st0) ->
  incl T (pairs (getseq st0 i)) ->
  let st' := map_elems st (sbuf (getseq st0 i)) f T in
  forall j q, j < length (seqs st0) -> q < length (offs (getseq st0 j)) ->
    V st' j q = if sbuf (getseq st0 j) =? sbuf (getseq st0 i)
                then iter (occ (cell st0 j q) T) (map f) (V st j q) else V st j q.
Proof.
  unfold map_elems.
  induction T as [|(o, l) T IH]; intros st HS Hi Hincl; simpl.
  - intros. destruct (_ =? _); reflexivity.
  - intros j q Hj Hq.
    assert (Hin : In (o, l) (pairs (getseq st0 i))) by (apply Hincl; left; auto).
    assert (Hincl' : incl T (pairs (getseq st0 i))) by (intros x Hx; apply Hincl; right; auto).
    set (e := map f (slice o l (rows (getbuf (heap st) (sbuf (getseq st0 i)))))).
    assert (Le : length e = l).
    { unfold e. rewrite map_length. apply slice_length. apply (stable_in_bounds st0 st i o l); auto. }
    pose proof (stable_write st0 st i o l e HS Hi Hin Le) as HS1.
    rewrite (IH _ HS1 Hi Hincl' j q Hj Hq).
    destruct HS as (W & ES & EH).
    assert (G : forall k, getseq st k = getseq st0 k) by (intros; apply getseq_seqs_eq; auto).
    assert (Hi' : i < length (seqs st)) by (rewrite ES; auto).
    assert (Hj' : j < length (seqs st)) by (rewrite ES; auto).
    pose proof (write_elem_cells st i o l e W Hi') as WC. rewrite G in WC.
    specialize (WC Hin Le). cbv zeta in WC.
    rewrite WC by (rewrite ?G; auto).
    unfold is_cell, cell. rewrite !G. fold (cell st0 j q).
    destruct (Nat.eqb_spec (sbuf (getseq st0 j)) (sbuf (getseq st0 i))) as [E|N]; simpl; auto.
    unfold occ. simpl.
    destruct (pair_eqb_spec (cell st0 j q) (o, l)) as [E2|N2]; simpl; auto.
    (* the value read by the operator is the current value of this very cell *)
    f_equal. unfold e. rewrite (V_slice st j q W Hj') by (rewrite G; auto).
    unfold cell at 1 2. rewrite !G. fold (cell st0 j q). rewrite E2, E. reflexivity.
Qed.

(* ---------------------------------------------------------------- assignment and in-place operators on wf states *)
Lemma set_int_cells st i k v : wf st -> is_live st i = true ->
  let st' := fst (step st (OSetInt i k v)) in
  match norm_index (Z.of_nat (length (offs (getseq st i)))) k with
  | Ok p =>
    snd (step st (OSetInt i k v)) = ROk /\ seqs st' = seqs st /\
    forall j q, j < length (seqs st) -> q < length (offs (getseq st j)) ->
      V st' j q = if is_cell st j q (sbuf (getseq st i)) (cell st i p)
                  then repeat v (snd (cell st i p)) else V st j q
  | Err e => snd (step st (OSetInt i k v)) = RErr e /\ st' = st
  end.
Proof.
  intros R L. pose proof (ok_wf st R) as W. simpl. rewrite L. apply is_live_lt in L.
  destruct (norm_index _ k) as [p|e] eqn:N; simpl; auto.
  apply norm_index_lt in N. pose proof (pairs_nth st i p W L N) as Hin.
  split; [auto|]. unfold fill_buf.
  destruct (write_elem_spec st i _ _ (repeat v (nth p (lens (getseq st i)) 0)) W L Hin (repeat_length _ _))
    as (_ & S' & _).
  split; [exact S'|].
  intros j q Hj Hq.
  apply (write_elem_cells st i _ _ _ W L Hin (repeat_length _ _) j q Hj Hq).
Qed.

Lemma set_idx_scalar_cells st i ix v : wf st -> is_live st i = true ->
  let st' := fst (step st (OSetIdx i ix (VScalar v))) in
  match positions (length (offs (getseq st i))) ix with
  | Ok ps =>
    snd (step st (OSetIdx i ix (VScalar v))) = ROk /\ seqs st' = seqs st /\
    forall j q, j < length (seqs st) -> q < length (offs (getseq st j)) ->
      V st' j q = if (sbuf (getseq st j) =? sbuf (getseq st i)) &&
                     existsb (fun p => pair_eqb (cell st j q) (cell st i p)) ps
                  then repeat v (snd (cell st j q)) else V st j q
  | Err e => snd (step st (OSetIdx i ix (VScalar v))) = RErr e /\ st' = st
  end.
Proof.
  intros R L. pose proof (ok_wf st R) as W. simpl. rewrite L. apply is_live_lt in L.
  destruct (positions _ ix) as [ps|e] eqn:P; simpl; auto.
  apply positions_bound in P. destruct (wf_seq _ W i L) as (_ & S2 & _).
  set (T := combine (pick 0 (offs (getseq st i)) ps) (pick 0 (lens (getseq st i)) ps)).
  assert (INC : incl T (pairs (getseq st i))) by (apply incl_pick; auto).
  split; [auto|split].
  - apply (stable_fill_fold st i v T st (stable_refl st W) L INC).
  - intros j q Hj Hq.
    rewrite (fill_fold_cells st i v T st (stable_refl st W) L INC j q Hj Hq).
    replace (existsb (pair_eqb (cell st j q)) T)
      with (existsb (fun p => pair_eqb (cell st j q) (cell st i p)) ps); [reflexivity|].
    unfold T, pick, cell. clear. induction ps; simpl; auto. rewrite IHps. reflexivity.
Qed.

Lemma inplace_cells st i f dt : wf st -> is_live st i = true -> offs (getseq st i) <> [] ->
  let st' := fst (step st (OOp i f true dt)) in
  snd (step st (OOp i f true dt)) = ROk /\ seqs st' = seqs st /\
  forall j q, j < length (seqs st) -> q < length (offs (getseq st j)) ->
    V st' j q = if sbuf (getseq st j) =? sbuf (getseq st i)
                then iter (occ (cell st j q) (pairs (getseq st i))) (map (apply_fn f)) (V st j q)
                else V st j q.
Proof.
  intros R L NE. pose proof (ok_wf st R) as W. simpl. rewrite L. apply is_live_lt in L.
  destruct (offs (getseq st i)) as [|o0 os0] eqn:EO; [congruence|]. rewrite <- EO. simpl.
  split; [auto|split].
  - apply (stable_map_elems st i (apply_fn f) _ st (stable_refl st W) L (incl_refl _)).
  - intros j q Hj Hq.
    apply (map_elems_cells st i (apply_fn f) _ st (stable_refl st W) L (incl_refl _) j q Hj Hq).
Qed.

Lemma occ_pos c T : In c T -> 0 < occ c T.
Proof.
  unfold occ. induction T as [|t T IH]; simpl; [tauto|]. intros [E|H].
  - subst. destruct (pair_eqb_spec c c); [simpl; lia|congruence].
  - destruct (pair_eqb c t); simpl; [lia|auto].
Qed.

Lemma occ_zero c T : ~ In c T -> occ c T = 0.
Proof.
  unfold occ. induction T as [|t T IH]; simpl; auto. intros H.
  destruct (pair_eqb_spec c t); [subst; tauto|]. apply IH. tauto.
Qed.

(* all or none: an in-place operator on A reaches every cell A shares with B (as many times as
   A lists the cell) when they are on the same buffer, and no cell of B otherwise *)
Lemma inplace_all_or_none st a f dt b : wf st -> is_live st a = true ->
  offs (getseq st a) <> [] -> b < length (seqs st) ->
  let st' := fst (step st (OOp a f true dt)) in
  (sbuf (getseq st b) <> sbuf (getseq st a) ->
     forall q, q < length (offs (getseq st b)) -> V st' b q = V st b q) /\
  (sbuf (getseq st b) = sbuf (getseq st a) ->
     forall q, q < length (offs (getseq st b)) ->
       (In (cell st b q) (pairs (getseq st a)) ->
          exists n, 0 < n /\ V st' b q = iter n (map (apply_fn f)) (V st b q)) /\
       (~ In (cell st b q) (pairs (getseq st a)) -> V st' b q = V st b q)).
Proof.
  intros R L NE Hb. destruct (inplace_cells st a f dt R L NE) as (_ & _ & H). simpl in *.
  split.
  - intros N q Hq. rewrite (H b q Hb Hq). apply Nat.eqb_neq in N. rewrite N. reflexivity.
  - intros E q Hq. rewrite (H b q Hb Hq). rewrite E, Nat.eqb_refl. split.
    + intros Hin. exists (occ (cell st b q) (pairs (getseq st a))). split; [apply occ_pos; auto|reflexivity].
    + intros Hn. rewrite occ_zero by auto. reflexivity.
Qed.

(* ---------------------------------------------------------------- a fresh view selects the parent's cells *)
Lemma nth_pick (l : list nat) ps m : m < length ps -> nth m (pick 0 l ps) 0 = nth (nth m ps 0) l 0.
Proof.
  revert m; induction ps as [|p ps IH]; simpl; intros m Hm; [lia|].
  destruct m; auto. apply IH. lia.
Qed.

Lemma view_cells st j ix ps : wf st -> is_live st j = true ->
  positions (length (offs (getseq st j))) ix = Ok ps ->
  let st' := fst (step st (OGetIdx j ix)) in
  let v := length (seqs st) in
  sbuf (getseq st' v) = sbuf (getseq st' j) /\ length (offs (getseq st' v)) = length ps /\
  forall m, m < length ps -> cell st' v m = cell st' j (nth m ps 0).
Proof.
  intros R L P. simpl. rewrite L, P. simpl. unfold new_view.
  set (s := mkSeq _ _ _ _ _ _ _).
  assert (G : getseq (add_seq st s) (length (seqs st)) = s).
  { unfold getseq, add_seq; simpl. apply nth_app_new. }
  assert (G2 : getseq (add_seq st s) j = getseq st j).
  { apply is_live_lt in L. unfold getseq, add_seq; simpl. apply nth_app_old; auto. }
  unfold cell. rewrite G, G2. unfold s; simpl. split; [auto|split; [apply pick_length|]].
  intros m Hm. rewrite !nth_pick by auto. reflexivity.
Qed.

(* ---------------------------------------------------------------- out-of-place operators *)
Lemma slice_map (g : Z -> Z) o l r : slice o l (map g r) = map g (slice o l r).
Proof. unfold slice. rewrite skipn_map, firstn_map. reflexivity. Qed.

Lemma elems_of_map (g : Z -> Z) r os ls : elems_of (map g r) os ls = map (map g) (elems_of r os ls).
Proof. unfold elems_of. rewrite map_map. apply map_ext. intros. apply slice_map. Qed.

Lemma op_copy_spec st i f dt : wf st -> is_live st i = true -> offs (getseq st i) <> [] ->
  let st' := fst (step st (OOp i f false dt)) in
  snd (step st (OOp i f false dt)) = ROk /\
  C st' (length (seqs st)) = map (map (apply_fn f)) (C st i) /\
  (forall k, k < length (seqs st) -> getseq st' k = getseq st k /\ C st' k = C st k).
Proof.
  intros R L NE. pose proof (ok_wf st R) as W. unfold step. cbv zeta. rewrite L. apply is_live_lt in L.
  destruct (offs (getseq st i)) as [|o0 os0] eqn:EO; [congruence|]. clear NE EO o0 os0. cbn [fst snd].
  split; [auto|].
  destruct (do_copy_spec st i W L) as (W1 & K1 & L1 & G1 & C1 & R1).
  set (st1 := do_copy st i) in *. set (k := length (seqs st)) in *.
  assert (Hk : k < length (seqs st1)) by lia.
  destruct K1 as (K11 & K12 & K13 & K14).
  assert (HB : sbuf (getseq st1 k) = length (heap st)) by (rewrite G1; reflexivity).
  assert (LH1 : length (heap st1) = S (length (heap st))).
  { unfold st1, do_copy; simpl. rewrite app_length; simpl; lia. }
  set (b := getbuf (heap st1) (sbuf (getseq st1 k))).
  set (st2 := if dt then new_buf_for st1 k b else st1).
  (* st2: same sequence fields for k, a buffer of its own holding the rows of b, old things untouched *)
  assert (P2 : length (heap st) <= sbuf (getseq st2 k) /\ sbuf (getseq st2 k) < length (heap st2) /\
               offs (getseq st2 k) = offs (getseq st1 k) /\ lens (getseq st2 k) = lens (getseq st1 k) /\
               (forall j, j < length (seqs st) -> getseq st2 j = getseq st j) /\
               (forall b', b' < length (heap st) -> getbuf (heap st2) b' = getbuf (heap st) b') /\
               length (seqs st2) = length (seqs st1)).
  { unfold st2. destruct dt.
    - rewrite getseq_new_buf_for, Nat.eqb_refl by auto. cbn [sbuf offs lens].
      split; [lia|split; [unfold new_buf_for; cbn [heap]; rewrite app_length; cbn [length]; lia|split; [auto|split; [auto|]]]].
      split; [|split; [|apply seqs_len_new_buf_for]].
      + intros j Hj. rewrite getseq_new_buf_for by auto.
        assert (E : (j =? k) = false) by (apply Nat.eqb_neq; unfold k; lia). rewrite E. apply K13; auto.
      + intros b' Hb'. unfold new_buf_for; cbn [heap]. rewrite getbuf_app_old by lia. apply K14; auto.
    - rewrite HB. split; [lia|split; [lia|auto]]. }
  destruct P2 as (P21 & P22 & P23 & P24 & P25 & P26 & P27).
  set (st3 := set_buf st2 (sbuf (getseq st2 k)) (mkBuf (cap b) (map (apply_fn f) (rows b)))).
  assert (G3 : forall j, getseq st3 j = getseq st2 j) by reflexivity.
  split.
  - unfold C. rewrite G3. unfold contents.
    change (rows (getbuf (heap st3) (sbuf (getseq st2 k)))) with (rows_of st3 (sbuf (getseq st2 k))).
    unfold st3. rewrite rows_of_set_buf, Nat.eqb_refl by auto. cbn [rows].
    rewrite P23, P24, elems_of_map. f_equal. exact C1.
  - intros j Hj. rewrite G3, P25 by auto. split; [auto|].
    unfold C. rewrite G3, P25 by auto. unfold contents.
    pose proof (wf_seq _ W j Hj) as (Sj & _).
    change (rows (getbuf (heap st3) (sbuf (getseq st j)))) with (rows_of st3 (sbuf (getseq st j))).
    unfold st3. rewrite rows_of_set_buf by auto.
    assert (E : (sbuf (getseq st j) =? sbuf (getseq st2 k)) = false) by (apply Nat.eqb_neq; lia).
    rewrite E. unfold rows_of. rewrite P26 by auto. reflexivity.
Qed.

(* ---------------------------------------------------------------- constructor, concatenate: nothing else changes *)
Lemma new_keeps st bytes bpr pre els : wf st ->
  forall j, j < length (seqs st) ->
    getseq (fst (step st (ONew bytes bpr pre els))) j = getseq st j /\
    C (fst (step st (ONew bytes bpr pre els))) j = C st j.
Proof.
  intros R j Hj. pose proof (ok_wf st R) as W. simpl.
  set (s0 := mkSeq (length (heap st)) [] [] false bytes None true).
  set (st1 := mkSt (heap st ++ [empty_buf]) (seqs st ++ [s0])).
  assert (W1 : wf st1) by (apply wf_add_fresh; simpl; auto; lia).
  assert (H1 : length (seqs st) < length (seqs st1)) by (unfold st1; simpl; rewrite app_length; simpl; lia).
  assert (Hj1 : j < length (seqs st1)) by lia.
  destruct (isolated_from_frame st1 (extend st1 (length (seqs st)) bpr pre els false) (length (seqs st)) W1 H1
              (proj1 (proj2 (extend_spec st1 (length (seqs st)) bpr pre els false W1 H1))) j ltac:(lia) Hj1) as (A & B).
  assert (G : getseq st1 j = getseq st j) by (unfold getseq, st1; simpl; apply nth_app_old; auto).
  split; [rewrite A; exact G|]. rewrite B. unfold C. rewrite G. unfold contents, st1; simpl.
  rewrite getbuf_app_old; auto. apply (wf_seq _ W j Hj).
Qed.

Lemma concat_fold k st0 : forall rest st acc, wf st -> k < length (seqs st) ->
  Forall (fun p => fst p < k) rest ->
  (forall j, j < k -> getseq st j = getseq st0 j /\ C st j = C st0 j) -> C st k = acc ->
  let st' := fold_left (fun a p => extend a k (snd p) true (contents a (getseq a (fst p))) false) rest st in
  wf st' /\ C st' k = fold_left (fun a p => spec_extend a (C st0 (fst p))) rest acc /\
  (forall j, j < k -> getseq st' j = getseq st0 j /\ C st' j = C st0 j).
Proof.
  induction rest as [|(j0, b0) rest IH]; intros st acc W Hk HF Hold Hacc; simpl.
  - auto.
  - pose proof (Forall_inv HF) as Hj0. pose proof (Forall_inv_tail HF) as HF'. simpl in Hj0.
    destruct (extend_spec st k b0 true (contents st (getseq st j0)) false W Hk) as (W1 & F1 & CT1 & _).
    set (st1 := extend st k b0 true (contents st (getseq st j0)) false) in *.
    apply IH; auto.
    + unfold st1. rewrite seqs_len_extend. auto.
    + intros j Hj. destruct (isolated_from_frame st st1 k W Hk F1 j ltac:(lia) ltac:(lia)) as (A & B).
      destruct (Hold j Hj) as (A0 & B0). split; congruence.
    + unfold C at 1. rewrite CT1. fold (C st k). fold (C st j0). rewrite Hacc.
      rewrite (proj2 (Hold j0 Hj0)). reflexivity.
Qed.

Lemma own_concat st j0 b0 rest : wf st ->
  forallb (fun p => is_live st (fst p)) ((j0, b0) :: rest) = true ->
  let st' := fst (step st (OConcat ((j0, b0) :: rest))) in
  C st' (length (seqs st)) = fold_left (fun a p => spec_extend a (C st (fst p))) rest (C st j0) /\
  (forall j, j < length (seqs st) -> getseq st' j = getseq st j /\ C st' j = C st j).
Proof.
  intros R L. pose proof (ok_wf st R) as W. cbv zeta. unfold step. rewrite L. cbn [fst].
  simpl in L. apply andb_prop in L. destruct L as (L0 & Lr). apply is_live_lt in L0.
  destruct (do_copy_spec st j0 W L0) as (W1 & K1 & L1 & G1 & C1 & R1).
  set (st1 := do_copy st j0) in *. set (k := length (seqs st)) in *.
  assert (HF : Forall (fun p => fst p < k) rest).
  { apply Forall_forall. intros p Hp. rewrite forallb_forall in Lr. apply is_live_lt. apply Lr; auto. }
  assert (Hold : forall j, j < k -> getseq st1 j = getseq st j /\ C st1 j = C st j).
  { intros j Hj. split; [apply K1; auto|apply keeps_contents; auto]. }
  destruct (concat_fold k st rest st1 (C st j0) W1 ltac:(lia) HF Hold C1) as (_ & A & B).
  split; [exact A|exact B].
Qed.

Lemma set_int_rows_cells st i k vs : wf st -> is_live st i = true ->
  let st' := fst (step st (OSetIntRows i k vs)) in
  match norm_index (Z.of_nat (length (offs (getseq st i)))) k with
  | Ok p =>
    let l := snd (cell st i p) in
    if (length vs =? l) || (length vs =? 1) then
      snd (step st (OSetIntRows i k vs)) = ROk /\ seqs st' = seqs st /\
      forall j q, j < length (seqs st) -> q < length (offs (getseq st j)) ->
        V st' j q = if is_cell st j q (sbuf (getseq st i)) (cell st i p)
                    then (if length vs =? l then vs else repeat (nth 0 vs 0%Z) l) else V st j q
    else snd (step st (OSetIntRows i k vs)) = RErr EValue /\ st' = st
  | Err e => snd (step st (OSetIntRows i k vs)) = RErr e /\ st' = st
  end.
Proof.
  intros R L. pose proof (ok_wf st R) as W. cbv zeta. unfold step. rewrite L. apply is_live_lt in L.
  destruct (norm_index _ k) as [p|e] eqn:N; cbn [fst snd]; auto.
  apply norm_index_lt in N. pose proof (pairs_nth st i p W L N) as Hin.
  unfold assign_rows, cell. cbn [fst snd].
  destruct (Nat.eqb_spec (length vs) (nth p (lens (getseq st i)) 0)) as [E|NE]; cbn [orb fst snd].
  - destruct (write_elem_spec st i _ _ vs W L Hin E) as (_ & S' & _).
    split; [auto|split; [exact S'|]]. intros j q Hj Hq.
    apply (write_elem_cells st i _ _ vs W L Hin E j q Hj Hq).
  - destruct vs as [|v [|w vs]]; cbn [length Nat.eqb fst snd]; auto.
    unfold fill_buf.
    destruct (write_elem_spec st i _ _ (repeat v (nth p (lens (getseq st i)) 0)) W L Hin (repeat_length _ _)) as (_ & S' & _).
    split; [auto|split; [exact S'|]]. intros j q Hj Hq. cbn [nth].
    apply (write_elem_cells st i _ _ _ W L Hin (repeat_length _ _) j q Hj Hq).
Qed.

(* ---------------------------------------------------------------- seq[idx] = other_sequence *)
(* what `data[o1:o1+l1] = src` stores (NumPy broadcasting of a one-row source), None = ValueError *)
Definition rows_assigned (l1 : nat) (src : list Z) : option (list Z) :=
  if length src =? l1 then Some src
  else match src with [v] => Some (repeat v l1) | _ => None end.

Lemma assign_rows_assigned st bid o1 l1 src :
  assign_rows st bid o1 l1 src =
  match rows_assigned l1 src with Some e => Ok (write_buf st bid o1 e) | None => Err EValue end.
Proof.
  unfold assign_rows, rows_assigned, fill_buf. destruct (length src =? l1); auto.
  destruct src as [|v [|w src]]; auto.
Qed.

Lemma rows_assigned_length l1 src e : rows_assigned l1 src = Some e -> length e = l1.
Proof.
  unfold rows_assigned. destruct (Nat.eqb_spec (length src) l1).
  - intros H; inversion H; subst; auto.
  - destruct src as [|v [|w src]]; try discriminate. intros H; inversion H. apply repeat_length.
Qed.

(* the value the LAST destination equal to cell c receives (element after element, in order) *)
Fixpoint last_src (c : nat * nat) (dst src : list (nat * nat)) (R : list Z) : option (list Z) :=
  match dst, src with
  | d :: dr, s2 :: sr =>
    match last_src c dr sr R with
    | Some v => Some v
    | None => if pair_eqb c d then rows_assigned (snd d) (slice (fst s2) (snd s2) R) else None
    end
  | _, _ => None
  end.
(* no element-wise ValueError *)
Fixpoint compat (dst src : list (nat * nat)) (R : list Z) : Prop :=
  match dst, src with
  | d :: dr, s2 :: sr => rows_assigned (snd d) (slice (fst s2) (snd s2) R) <> None /\ compat dr sr R
  | _, _ => True
  end.

Lemma assign_seq_cons st bid o1 l1 dr jb o2 l2 sr :
  assign_seq st bid ((o1, l1) :: dr) jb ((o2, l2) :: sr) =
  match assign_rows st bid o1 l1 (slice o2 l2 (rows (getbuf (heap st) jb))) with
  | Ok st1 => assign_seq st1 bid dr jb sr
  | Err e => (st, Some e)
  end.
Proof. reflexivity. Qed.

Lemma assign_seq_cells st0 i jb R : forall dst src st, stable st0 st -> i < length (seqs st0) ->
  incl dst (pairs (getseq st0 i)) -> jb <> sbuf (getseq st0 i) -> rows_of st jb = R -> compat dst src R ->
  snd (assign_seq st (sbuf (getseq st0 i)) dst jb src) = None /\
  stable st0 (fst (assign_seq st (sbuf (getseq st0 i)) dst jb src)) /\
  forall x q, x < length (seqs st0) -> q < length (offs (getseq st0 x)) ->
    V (fst (assign_seq st (sbuf (getseq st0 i)) dst jb src)) x q =
      if sbuf (getseq st0 x) =? sbuf (getseq st0 i)
      then match last_src (cell st0 x q) dst src R with Some v => v | None => V st x q end
      else V st x q.
Proof.
  induction dst as [|(o1, l1) dst IH]; intros src st HS Hi Hincl Hjb HR HC.
  - simpl. split; [auto|split; [auto|]]. intros. destruct (_ =? _); reflexivity.
  - destruct src as [|(o2, l2) src].
    { simpl. split; [auto|split; [auto|]]. intros. destruct (_ =? _); reflexivity. }
    simpl in HC. destruct HC as (HC1 & HC2).
    rewrite assign_seq_cons, assign_rows_assigned.
    change (rows (getbuf (heap st) jb)) with (rows_of st jb). rewrite HR.
    cbn [fst snd] in HC1.
    destruct (rows_assigned l1 (slice o2 l2 R)) as [e|] eqn:ER; [|congruence].
    pose proof (rows_assigned_length _ _ _ ER) as Le.
    assert (Hin : In (o1, l1) (pairs (getseq st0 i))) by (apply Hincl; left; auto).
    assert (Hincl' : incl dst (pairs (getseq st0 i))) by (intros y Hy; apply Hincl; right; auto).
    pose proof (stable_write st0 st i o1 l1 e HS Hi Hin Le) as HS1.
    destruct HS as (W & ES & EH).
    assert (G : forall k, getseq st k = getseq st0 k) by (intros; apply getseq_seqs_eq; auto).
    assert (Hi' : i < length (seqs st)) by (rewrite ES; auto).
    pose proof (write_elem_spec st i o1 l1 e W Hi') as WS. rewrite G in WS.
    destruct (WS Hin Le) as (_ & _ & _ & RO & _).
    assert (HR1 : rows_of (write_buf st (sbuf (getseq st0 i)) o1 e) jb = R) by (rewrite RO; auto).
    destruct (IH src _ HS1 Hi Hincl' Hjb HR1 HC2) as (I1 & I2 & I3).
    split; [exact I1|split; [exact I2|]].
    intros x q Hx Hq. rewrite (I3 x q Hx Hq).
    pose proof (write_elem_cells st i o1 l1 e W Hi') as WC. rewrite G in WC.
    specialize (WC Hin Le). cbv zeta in WC.
    assert (Hx' : x < length (seqs st)) by (rewrite ES; auto).
    rewrite WC by (rewrite ?G; auto).
    unfold is_cell, cell. rewrite !G. fold (cell st0 x q). cbn [last_src fst snd].
    destruct (sbuf (getseq st0 x) =? sbuf (getseq st0 i)); cbn [andb]; auto.
    destruct (last_src (cell st0 x q) dst src R); auto.
    destruct (pair_eqb (cell st0 x q) (o1, l1)); auto. rewrite ER. reflexivity.
Qed.

(* seq_i[idx] = seq_j with j on another buffer and no element-wise shape error: the value of every
   element of every object afterwards (a destination listed twice keeps the last source) *)
Lemma set_idx_seq_cells st i ix j ps : wf st -> is_live st i = true -> is_live st j = true ->
  sbuf (getseq st j) <> sbuf (getseq st i) ->
  positions (length (offs (getseq st i))) ix = Ok ps ->
  let dst := combine (pick 0 (offs (getseq st i)) ps) (pick 0 (lens (getseq st i)) ps) in
  let src := pairs (getseq st j) in
  let R := rows_of st (sbuf (getseq st j)) in
  length ps = length (offs (getseq st j)) ->
  sum (pick 0 (lens (getseq st i)) ps) = sum (lens (getseq st j)) ->
  compat dst src R ->
  let st' := fst (step st (OSetIdx i ix (VSeq j))) in
  snd (step st (OSetIdx i ix (VSeq j))) = ROk /\ seqs st' = seqs st /\
  forall x q, x < length (seqs st) -> q < length (offs (getseq st x)) ->
    V st' x q = if sbuf (getseq st x) =? sbuf (getseq st i)
                then match last_src (cell st x q) dst src R with Some v => v | None => V st x q end
                else V st x q.
Proof.
  intros Rch L Lj Hjb P dst src R H1 H2 HC.
  pose proof (ok_wf st Rch) as W. cbv zeta. unfold step. rewrite L, Lj, P.
  apply is_live_lt in L. destruct (wf_seq _ W i L) as (_ & S2 & _).
  rewrite pick_length, H1, Nat.eqb_refl. cbn [negb]. rewrite H2, Nat.eqb_refl. cbn [negb].
  apply positions_bound in P.
  assert (INC : incl dst (pairs (getseq st i))) by (apply incl_pick; auto).
  destruct (assign_seq_cells st i (sbuf (getseq st j)) R dst src st (stable_refl st W) L INC Hjb eq_refl HC)
    as (A1 & A2 & A3).
  fold dst. change (combine (offs (getseq st j)) (lens (getseq st j))) with src.
  destruct (assign_seq st (sbuf (getseq st i)) dst (sbuf (getseq st j)) src) as [st1 [e|]]; cbn [fst snd] in *;
    [discriminate|].
  split; [auto|split; [apply A2|exact A3]].
Qed.

(* ---------------------------------------------------------------- write-through, as far as it holds *)
Lemma view_write_through_partial : forall st j ix ps, wf st -> is_live st j = true ->
  positions (length (offs (getseq st j))) ix = Ok ps ->
  let st1 := fst (step st (OGetIdx j ix)) in
  let v := length (seqs st) in
  (sbuf (getseq st1 v) = sbuf (getseq st1 j) /\ length (offs (getseq st1 v)) = length ps /\
   forall m, m < length ps -> cell st1 v m = cell st1 j (nth m ps 0)) /\
  forall st2 i k x, wf st2 -> is_live st2 i = true ->
    match norm_index (Z.of_nat (length (offs (getseq st2 i)))) k with
    | Ok p =>
      forall j' q, j' < length (seqs st2) -> q < length (offs (getseq st2 j')) ->
        V (fst (step st2 (OSetInt i k x))) j' q =
          if is_cell st2 j' q (sbuf (getseq st2 i)) (cell st2 i p)
          then repeat x (snd (cell st2 i p)) else V st2 j' q
    | Err e => fst (step st2 (OSetInt i k x)) = st2
    end.
Proof.
  intros st j ix ps R L P. split; [exact (view_cells st j ix ps R L P)|].
  intros st2 i k x R2 L2. pose proof (set_int_cells st2 i k x R2 L2) as H. cbv zeta in H.
  destruct (norm_index _ k); [apply H|apply H].
Qed.

(* ---------------------------------------------------------------- S-C15d: views detach when the parent is re-allocated *)
Definition hist_detach : list op :=
  [ONew 1 16 true [[1; 2]; [3]; [4; 5; 6]]%Z;            (* parent, rows_per_buf = 1 *)
   OGetIdx 0 (ISlice (Some 1%Z) None None);              (* view = parent[1:] *)
   OAppend 0 16 [7]%Z false].                            (* the parent grows: shared buffer -> copy *)

Lemma view_write_through_refuted :
  let st := exec init hist_detach in
  let st' := fst (step st (OSetInt 1 0 99)) in
  C st 1 = skipn 1 (firstn 3 (C st 0)) /\                (* the view still shows parent[1:3] *)
  snd (step st (OSetInt 1 0 99)) = ROk /\
  V st' 1 0 = [99%Z] /\                                   (* view[0] was assigned *)
  V st' 0 1 = V st 0 1 /\ V st 0 1 = [3%Z] /\             (* parent[1] was not *)
  sbuf (getseq st 0) <> sbuf (getseq st 1).
Proof. vm_compute. repeat split; congruence. Qed.

Lemma nonvacuous_example :
  let st := exec init [ONew 24 16 true [[1; 2]; []; [3]; [4; 5; 6]]%Z; OGetIdx 0 (IList [2; 0; 2]%Z);
                       OExtend 0 8 true [[7]; [8; 9]]%Z; OGetIdx 0 (ISlice None None (Some (-2)%Z))] in
  wf st /\ is_live st 2 = true /\
  norm_index (Z.of_nat (length (offs (getseq st 2)))) (-1) = Ok 2 /\
  is_cell st 0 0 (sbuf (getseq st 2)) (cell st 2 2) = true /\
  C (fst (step st (OSetInt 2 (-1) 99))) 0 = [[99; 99]; [3]; [4; 5; 6]; [7]; [8; 9]]%Z /\
  C (fst (step st (OSetInt 2 (-1) 99))) 1 = [[4; 5; 6]; [1; 2]; [4; 5; 6]]%Z.
Proof. split; [apply wf_exec, wf_init|]. vm_compute. repeat split. Qed.
