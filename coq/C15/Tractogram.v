(* C15/Tractogram.v — nibabel/streamlines/tractogram.py on top of the ArraySequence model.
   A Tractogram is its ArraySequence components (streamlines and one sequence per data_per_point
   key) — objects of the same state, so sliced tractograms share buffers with their source exactly
   as their components do — plus per-streamline 2-D arrays, which are plain NumPy arrays that
   extend() replaces by np.concatenate results (never shared, not modelled here).
     Tractogram.extend(other) / `t += other`:  component.extend(other_component) for every component
   in turn (PerArraySequenceDict._extend_entry), i.e. a run of OExtendSeq steps. *)
From Coq Require Import ZArith List Bool Arith Lia.
From NV Require Import C15.Model C15.ListLemmas C15.Invariant C15.Steps C15.Steps2 C15.Lemmas C15.Lemmas2 C15.Simulation.
Import ListNotations.

(* (component of self, bytes per row of the first element of other's component, component of other) *)
Fixpoint textend (st : state) (tu : list (nat * Z * nat)) : state :=
  match tu with
  | [] => st
  | p :: r => textend (fst (step st (OExtendSeq (fst (fst p)) (snd (fst p)) (snd p)))) r
  end.

Lemma textend_reachable tu : forall st, wf st -> wf (textend st tu).
Proof.
  induction tu as [|((i, b), j) tu IH]; intros st R; cbn [textend fst snd]; auto.
  apply IH. apply ok_step. exact R.
Qed.

Lemma step_extend_seq_len st i b j : length (seqs (fst (step st (OExtendSeq i b j)))) = length (seqs st).
Proof. simpl. destruct (is_live st i && is_live st j); simpl; auto. apply seqs_len_extend. Qed.

(* growing a (derived) tractogram never alters any sequence object that is not one of its own
   components — whatever buffers they share: the components of the tractogram it was sliced from,
   of its copies, of any other tractogram *)
Theorem textend_isolated tu : forall st, wf st ->
  forall x, x < length (seqs st) -> (forall p, In p tu -> fst (fst p) <> x) ->
    getseq (textend st tu) x = getseq st x /\ C (textend st tu) x = C st x.
Proof.
  induction tu as [|((i, b), j) tu IH]; intros st R x Hx Hn; cbn [textend fst snd]; auto.
  assert (Hi : x <> i) by (intros E; apply (Hn ((i, b), j)); [left; auto|simpl; auto]).
  destruct (grow_isolated st (OExtendSeq i b j) i R eq_refl x Hi Hx) as (A & B).
  destruct (IH _ (ok_step st (OExtendSeq i b j) R) x) as (A2 & B2).
  - rewrite step_extend_seq_len. auto.
  - intros p Hp. apply Hn. right; auto.
  - split; congruence.
Qed.

(* own contents: every component receives the elements of the corresponding component of `other`
   (components pairwise distinct; `other` may be the tractogram itself or share components' buffers) *)
Theorem textend_own tu : forall st, wf st ->
  NoDup (map (fun p => fst (fst p)) tu) ->
  (forall p, In p tu -> is_live st (fst (fst p)) = true /\ is_live st (snd p) = true) ->
  (forall p p', In p tu -> In p' tu -> snd p = fst (fst p') -> p = p') ->
  forall p, In p tu ->
    C (textend st tu) (fst (fst p)) = spec_extend (C st (fst (fst p))) (C st (snd p)).
Proof.
  induction tu as [|((i, b), j) tu IH]; intros st R ND HL HS p Hp; [destruct Hp|].
  simpl in ND. inversion ND as [|? ? Hni ND']; subst.
  destruct (HL ((i, b), j) (or_introl eq_refl)) as (Li & Lj). simpl in Li, Lj.
  set (st1 := fst (step st (OExtendSeq i b j))).
  assert (R1 : wf st1) by (apply ok_step; auto).
  assert (LEN : length (seqs st1) = length (seqs st)) by apply step_extend_seq_len.
  assert (ISO : forall x, x <> i -> x < length (seqs st) -> getseq st1 x = getseq st x /\ C st1 x = C st x)
    by (intros x Hx Lx; apply (grow_isolated st (OExtendSeq i b j) i R eq_refl x Hx Lx)).
  destruct Hp as [<-|Hp]; cbn [textend fst snd]; fold st1.
  - (* the first component: the later steps do not touch it *)
    assert (Hn : forall p, In p tu -> fst (fst p) <> i).
    { intros p Hp E. apply Hni. apply in_map_iff. exists p. auto. }
    destruct (textend_isolated tu st1 R1 i ltac:(rewrite LEN; apply is_live_lt; auto) Hn) as (_ & B2).
    rewrite B2. apply own_extend_seq; auto.
  - (* a later component: the first step changed neither it nor its source *)
    assert (Hpi : fst (fst p) <> i).
    { intros E. apply Hni. apply in_map_iff. exists p. auto. }
    assert (Hpj : snd p <> i).
    { intros E. pose proof (HS p ((i, b), j) (or_intror Hp) (or_introl eq_refl) E) as X. subst p. simpl in Hpi. auto. }
    destruct (HL p (or_intror Hp)) as (Lp & Lq).
    destruct (ISO _ Hpi (is_live_lt _ _ Lp)) as (G1 & C1). destruct (ISO _ Hpj (is_live_lt _ _ Lq)) as (G2 & C2).
    rewrite <- C1, <- C2. apply (IH st1 R1 ND').
    + intros p' Hp'. destruct (HL p' (or_intror Hp')) as (A & B).
      assert (X : forall k, k <> i -> is_live st k = true -> is_live st1 k = true).
      { intros k Hk Lk. unfold is_live in *. apply andb_prop in Lk. destruct Lk as (K1 & K2).
        rewrite LEN, K1. cbn [andb]. apply Nat.ltb_lt in K1. rewrite (proj1 (ISO k Hk K1)). exact K2. }
      split; apply X; auto.
      * intros E. apply Hni. apply in_map_iff. exists p'. auto.
      * intros E. pose proof (HS p' ((i, b), j) (or_intror Hp') (or_introl eq_refl) E) as Y. subst p'.
        apply Hni. apply in_map_iff. exists ((i, b), j). auto.
    + intros q q' Hq Hq'. apply HS; right; auto.
    + exact Hp.
Qed.

(* ---------------------------------------------------------------- Tractogram.__getitem__(idx), idx not an int *)
(* for every ArraySequence component c: pts = c[idx] (a view), then Tractogram(...) wraps it with
   ArraySequence(pts) (the view constructor) and the intermediate object is dropped *)
Definition tget_component (st : state) (c : nat) (ix : index) : state :=
  let st1 := fst (step st (OGetIdx c ix)) in
  let v := length (seqs st) in
  let st2 := fst (step st1 (OView v default_bufbytes)) in
  fst (step st2 (ODrop v)).

(* the component of the sliced tractogram is object (length (seqs st) + 1); it shows exactly the
   selected elements, lives on the component's buffer (a view: assignments through it reach the source
   while they share the buffer), and no existing object changes *)
Theorem tget_component_spec st c ix ps : wf st -> is_live st c = true ->
  positions (length (C st c)) ix = Ok ps ->
  let st' := tget_component st c ix in
  let w := S (length (seqs st)) in
  wf st' /\ C st' w = spec_pick (C st c) ps /\
  sbuf (getseq st' w) = sbuf (getseq st c) /\ is_live st' w = true /\
  (forall k, k < length (seqs st) -> getseq st' k = getseq st k /\ C st' k = C st k).
Proof.
  intros R L P. cbv zeta. unfold tget_component.
  pose proof (ok_wf st R) as W. pose proof (is_live_lt _ _ L) as Hc.
  set (st1 := fst (step st (OGetIdx c ix))).
  assert (R1 : wf st1) by (apply ok_step; auto).
  pose proof (own_get_idx st c ix R L) as G. cbv zeta in G. rewrite P in G. fold st1 in G.
  destruct G as (_ & C1 & K1).
  set (v := length (seqs st)) in *.
  assert (L1 : length (seqs st1) = S v).
  { unfold st1. simpl. rewrite L. rewrite (C_length st c W Hc) in P. rewrite P. simpl. rewrite app_length. simpl. unfold v. lia. }
  assert (Lv : is_live st1 v = true).
  { unfold is_live. rewrite L1. assert (E : (v <? S v) = true) by (apply Nat.ltb_lt; lia). rewrite E. cbn [andb].
    unfold st1. simpl. rewrite L. rewrite (C_length st c W Hc) in P. rewrite P. unfold new_view, getseq, add_seq. simpl.
    unfold v. rewrite nth_app_new. reflexivity. }
  set (st2 := fst (step st1 (OView v default_bufbytes))).
  assert (R2 : wf st2) by (apply ok_step; auto).
  destruct (own_view st1 v default_bufbytes R1 Lv) as (C2 & K2 & B2). fold st2 in C2, K2, B2. rewrite L1 in C2, B2.
  assert (L2 : length (seqs st2) = S (S v)).
  { unfold st2. simpl. rewrite Lv. simpl. rewrite app_length, L1. simpl. lia. }
  assert (Lw2 : live (getseq st2 (S v)) = true).
  { unfold st2. simpl. rewrite Lv. unfold new_view, getseq, add_seq. simpl. rewrite <- L1, nth_app_new. reflexivity. }
  assert (Lv2 : is_live st2 v = true).
  { unfold is_live. rewrite L2. assert (E : (v <? S (S v)) = true) by (apply Nat.ltb_lt; lia). rewrite E. cbn [andb].
    destruct K2 as (_ & _ & K23 & _). rewrite K23 by lia. unfold is_live in Lv. apply andb_prop in Lv. apply Lv. }
  (* the drop only clears a flag *)
  set (st3 := fst (step st2 (ODrop v))).
  assert (D : forall k, k <> v -> getseq st3 k = getseq st2 k).
  { intros k Hk. unfold st3. simpl. rewrite Lv2. simpl. rewrite getseq_set_seq by (rewrite L2; lia).
    apply Nat.eqb_neq in Hk. rewrite Hk. reflexivity. }
  assert (H3 : heap st3 = heap st2) by (unfold st3; simpl; rewrite Lv2; reflexivity).
  assert (DC : forall k, k <> v -> C st3 k = C st2 k).
  { intros k Hk. unfold C, contents. rewrite D, H3 by auto. reflexivity. }
  split; [apply ok_step; auto|].
  pose proof (ok_wf st1 R1) as W1.
  split; [rewrite DC by lia; rewrite C2; exact C1|].
  split.
  { rewrite D by lia. rewrite B2.
    destruct K1 as (_ & _ & K13 & _).
    unfold st1. simpl. rewrite L. rewrite (C_length st c W Hc) in P. rewrite P. unfold new_view, getseq, add_seq. simpl.
    unfold v. rewrite nth_app_new. reflexivity. }
  split.
  { unfold is_live. assert (L3 : length (seqs st3) = S (S v)).
    { unfold st3. simpl. rewrite Lv2. cbn [fst]. rewrite seqs_len_set_seq. exact L2. }
    rewrite L3. assert (E : (S v <? S (S v)) = true) by (apply Nat.ltb_lt; lia). rewrite E. cbn [andb].
    rewrite D by lia. exact Lw2. }
  intros k Hk. fold v in Hk.
  destruct (keeps_all st st1 W K1 k Hk) as (A1 & B1).
  destruct (keeps_all st1 st2 W1 K2 k ltac:(lia)) as (A2 & B2').
  split; [rewrite D by lia; congruence|rewrite DC by lia; congruence].
Qed.

(* ---------------------------------------------------------------- Tractogram.copy() = copy.deepcopy: a clone per component *)
Theorem deep_copy_spec st i : wf st -> is_live st i = true ->
  let st' := fst (step st (ODeepCopy i)) in
  let n := length (seqs st) in
  snd (step st (ODeepCopy i)) = ROk /\ wf st' /\ length (seqs st') = S n /\ is_live st' n = true /\
  C st' n = C st i /\ keeps st st' /\ length (heap st) <= sbuf (getseq st' n).
Proof.
  intros R L. cbv zeta. pose proof (ok_step st (ODeepCopy i) R) as R'.
  unfold step in *. rewrite L in *. cbn [fst snd] in *.
  set (s := getseq st i) in *.
  set (s' := mkSeq (length (heap st)) (offs s) (lens s) (is_view s) (bufbytes s) (scache s) true) in *.
  set (st' := mkSt (heap st ++ [getbuf (heap st) (sbuf s)]) (seqs st ++ [s'])) in *.
  assert (GN : getseq st' (length (seqs st)) = s') by (unfold getseq, st'; simpl; apply nth_app_new).
  assert (LN : length (seqs st') = S (length (seqs st))) by (unfold st'; simpl; rewrite app_length; simpl; lia).
  split; [auto|split; [exact R'|split; [exact LN|split; [|split; [|split]]]]].
  - unfold is_live. rewrite LN, GN. assert (E : (length (seqs st) <? S (length (seqs st))) = true) by (apply Nat.ltb_lt; lia).
    rewrite E. reflexivity.
  - unfold C. rewrite GN. unfold contents, s'. cbn [sbuf offs lens]. unfold st'. cbn [heap]. rewrite getbuf_app_new. reflexivity.
  - unfold keeps, st'; simpl. rewrite !app_length; simpl. split; [lia|split; [lia|split]].
    + intros k Hk. unfold getseq; simpl. apply nth_app_old; auto.
    + intros b Hb. apply getbuf_app_old; auto.
  - rewrite GN. simpl. lia.
Qed.

(* Tractogram.__add__(other) component-wise: tractogram = self.copy(); tractogram += other *)
Definition tadd_component (st : state) (c : nat) (b : Z) (oc : nat) : state :=
  let st1 := fst (step st (ODeepCopy c)) in
  fst (step st1 (OExtendSeq (length (seqs st)) b oc)).

(* the component of the sum is the new object length (seqs st): it shows the elements of c followed by
   those of oc; NO existing object changes — in particular no component of either operand, whatever
   they share (self + self, self + self[idx], ...) *)
Theorem tadd_component_spec st c b oc : wf st -> is_live st c = true -> is_live st oc = true ->
  let st' := tadd_component st c b oc in
  let n := length (seqs st) in
  wf st' /\ C st' n = spec_extend (C st c) (C st oc) /\
  (forall k, k < n -> getseq st' k = getseq st k /\ C st' k = C st k).
Proof.
  intros R Lc Lo. cbv zeta. unfold tadd_component.
  pose proof (ok_wf st R) as W.
  destruct (deep_copy_spec st c R Lc) as (_ & R1 & L1 & Ln & C1 & K1 & _). cbv zeta in *.
  set (st1 := fst (step st (ODeepCopy c))) in *. set (n := length (seqs st)) in *.
  assert (Lo1 : is_live st1 oc = true).
  { pose proof (is_live_lt _ _ Lo) as Ho. unfold is_live in *. apply andb_prop in Lo. destruct Lo as (_ & Lv).
    rewrite L1. assert (E : (oc <? S n) = true) by (apply Nat.ltb_lt; unfold n; lia). rewrite E. cbn [andb].
    destruct K1 as (_ & _ & K3 & _). rewrite K3; auto. }
  split; [apply ok_step; auto|split].
  - rewrite (own_extend_seq st1 n b oc R1 Ln Lo1). rewrite C1.
    rewrite (proj2 (keeps_all st st1 W K1 oc (is_live_lt _ _ Lo))). reflexivity.
  - intros k Hk.
    destruct (grow_isolated st1 (OExtendSeq n b oc) n R1 eq_refl k ltac:(lia) ltac:(lia)) as (A & B).
    destruct (keeps_all st st1 W K1 k Hk) as (A1 & B1). split; congruence.
Qed.

(* ---------------------------------------------------------------- Tractogram.apply_affine(lazy=False) *)
(* fix 3ae30612: `if self.streamlines._is_view or self.streamlines.is_sliced_view:` takes the
   element-by-element branch; is_sliced_view = (_lengths.sum() != _data.shape[0]) *)
Definition affine_elementwise (st : state) (c : nat) : bool :=
  let s := getseq st c in
  is_view s || negb (Z.of_nat (sum (lens s)) =? cap (getbuf (heap st) (sbuf s)))%Z.

(* for EVERY view (a slice, a list index with or without repeats, a mask, the whole-range view t[:],
   the view constructor) the element-wise branch runs: `for i: streamlines[i] = f(streamlines[i])`,
   i.e. OOp c f true.  It alters exactly the elements the view contains — an element listed k times is
   transformed k times, in every object that holds that very array — and nothing else. *)
Theorem tapply_affine_view st c f dt : wf st -> is_live st c = true ->
  is_view (getseq st c) = true -> offs (getseq st c) <> [] ->
  affine_elementwise st c = true /\
  let st' := fst (step st (OOp c f true dt)) in
  seqs st' = seqs st /\
  forall j q, j < length (seqs st) -> q < length (offs (getseq st j)) ->
    (sbuf (getseq st j) = sbuf (getseq st c) -> In (cell st j q) (pairs (getseq st c)) ->
       0 < occ (cell st j q) (pairs (getseq st c)) /\
       V st' j q = iter (occ (cell st j q) (pairs (getseq st c))) (map (apply_fn f)) (V st j q)) /\
    (sbuf (getseq st j) <> sbuf (getseq st c) \/ ~ In (cell st j q) (pairs (getseq st c)) ->
       V st' j q = V st j q).
Proof.
  intros R L Hv NE. split; [unfold affine_elementwise; rewrite Hv; reflexivity|].
  destruct (inplace_cells st c f dt R L NE) as (_ & S' & H). cbv zeta in *.
  split; [exact S'|]. intros j q Hj Hq. rewrite (H j q Hj Hq). split.
  - intros E Hin. rewrite E, Nat.eqb_refl. split; [apply occ_pos; auto|reflexivity].
  - intros [N|N].
    + apply Nat.eqb_neq in N. rewrite N. reflexivity.
    + destruct (_ =? _); [|reflexivity]. rewrite occ_zero by auto. reflexivity.
Qed.

(* ---------------------------------------------------------------- the other branch of apply_affine *)
(* `self.streamlines._data = apply_affine(affine, self.streamlines._data, inplace=True)` — taken when the object is
   not a view and its elements fill its buffer (affine_elementwise = false).  nibabel.affines.apply_affine with
   inplace=True runs np.dot(pts, rzs.T, out=pts): on a float64 buffer (dtchg = false) the WHOLE buffer is
   transformed where it is and the very same array comes back; for any other dtype np.dot refuses (ValueError), a
   freshly allocated float64 array is returned and becomes _data (dtchg = true): the object moves to a buffer of
   its own and whoever shared the old one keeps the old values. *)
Definition taffine_whole (st : state) (c : nat) (f : fn) (dtchg : bool) : state :=
  let s := getseq st c in
  let b := getbuf (heap st) (sbuf s) in
  let x := mkBuf (cap b) (map (apply_fn f) (rows b)) in
  if dtchg then new_buf_for st c x else set_buf st (sbuf s) x.

Lemma elems_of_map (g : Z -> Z) r os ls : elems_of (map g r) os ls = map (map g) (elems_of r os ls).
Proof.
  unfold elems_of. rewrite map_map. apply map_ext. intros p. apply slice_map.
Qed.

(* float64: every object on the buffer — the owner and every view of it, whatever it selects and however often —
   sees each of its elements transformed exactly ONCE; nothing else changes; the state stays well-formed *)
Theorem tapply_affine_whole_inplace st c f : wf st -> is_live st c = true ->
  affine_elementwise st c = false ->
  let st' := taffine_whole st c f false in
  wf st' /\ seqs st' = seqs st /\
  forall j, j < length (seqs st) ->
    C st' j = if sbuf (getseq st j) =? sbuf (getseq st c) then map (map (apply_fn f)) (C st j) else C st j.
Proof.
  intros W L AE. cbv zeta. unfold taffine_whole.
  pose proof (is_live_lt _ _ L) as Hc.
  destruct (wf_seq _ W c Hc) as (Sb & _ & _).
  set (b := getbuf (heap st) (sbuf (getseq st c))).
  split; [|split; [reflexivity|]].
  - apply wf_set_buf_ge; auto; cbn [rows cap]; rewrite map_length.
    + apply (wf_heap _ W); auto.
    + unfold rows_of. fold b. lia.
  - intros j Hj.
    assert (G : getseq (set_buf st (sbuf (getseq st c)) (mkBuf (cap b) (map (apply_fn f) (rows b)))) j = getseq st j)
      by reflexivity.
    unfold C, contents. rewrite G. unfold set_buf. cbn [heap]. unfold getbuf.
    destruct (Nat.eqb_spec (sbuf (getseq st j)) (sbuf (getseq st c))) as [E|N].
    + rewrite E, nth_upd_same by auto. cbn [rows]. apply elems_of_map.
    + rewrite nth_upd_other by auto. reflexivity.
Qed.

(* any other dtype: the object has the transformed elements on a buffer nobody else uses; every other object is
   exactly what it was (same buffer, same elements, same values); the state stays well-formed *)
Theorem tapply_affine_whole_detach st c f : wf st -> is_live st c = true ->
  affine_elementwise st c = false ->
  let st' := taffine_whole st c f true in
  wf st' /\ length (seqs st') = length (seqs st) /\
  C st' c = map (map (apply_fn f)) (C st c) /\
  sbuf (getseq st' c) = length (heap st) /\
  forall j, j <> c -> j < length (seqs st) ->
    getseq st' j = getseq st j /\ C st' j = C st j /\ sbuf (getseq st' j) <> sbuf (getseq st' c).
Proof.
  intros W L AE. cbv zeta. unfold taffine_whole, new_buf_for.
  pose proof (is_live_lt _ _ L) as Hc.
  destruct (wf_seq _ W c Hc) as (Sb & Sl & Sc).
  apply orb_false_elim in AE. destruct AE as (Hv & _).
  set (s := getseq st c) in *.
  set (b := getbuf (heap st) (sbuf s)).
  set (x := mkBuf (cap b) (map (apply_fn f) (rows b))).
  set (s' := mkSeq (length (heap st)) (offs s) (lens s) (is_view s) (bufbytes s) (scache s) (live s)).
  assert (Gc : getseq (mkSt (heap st ++ [x]) (upd (seqs st) c s')) c = s').
  { unfold getseq. cbn [seqs]. apply nth_upd_same; auto. }
  assert (Go : forall j, j <> c -> getseq (mkSt (heap st ++ [x]) (upd (seqs st) c s')) j = getseq st j).
  { intros j N. unfold getseq. cbn [seqs]. apply nth_upd_other; auto. }
  destruct (wf_buf _ W _ Sb) as (os & ls & C1 & C2 & C3).
  destruct (C3 c Hc eq_refl) as (_ & C4). destruct (C4 Hv) as (Eo & El).
  split; [|split; [|split; [|split]]].
  - apply wf_move_fresh; auto.
    + fold s in Eo, El. unfold s'. cbn [offs lens]. rewrite Eo, El. exact C1.
    + fold s in Eo, El. unfold s', x. cbn [offs lens rows]. rewrite map_length, Eo, El. exact C2.
    + unfold x. cbn [rows cap]. rewrite map_length. apply (wf_heap _ W); auto.
    + unfold s', x. cbn [scache rows]. rewrite map_length. destruct (scache s) as [ca|] eqn:Ec; [|exact I].
      unfold rows_of in Sc. fold b in Sc. exact Sc.
  - cbn [seqs]. apply upd_length.
  - unfold C, contents. rewrite Gc. unfold s'. cbn [sbuf offs lens heap]. rewrite getbuf_app_new.
    unfold x. cbn [rows]. apply elems_of_map.
  - rewrite Gc. reflexivity.
  - intros j N Hj. destruct (wf_seq _ W j Hj) as (Sj & _ & _). split; [apply Go; auto|]. split.
    + unfold C, contents. rewrite (Go j N). cbn [heap]. rewrite getbuf_app_old by auto. reflexivity.
    + rewrite (Go j N), Gc. unfold s'. cbn [sbuf]. lia.
Qed.
