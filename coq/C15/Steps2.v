(* C15/Steps2.v — indices, writes through offsets, copy; the invariant holds after every step. *)
From Coq Require Import ZArith List Bool Arith Lia.
From NV Require Import C15.Model C15.ListLemmas C15.Invariant C15.Steps.
Import ListNotations.

(* ---------------------------------------------------------------- selected positions are in range *)
Lemma clampi_range n lo hi v : (lo <= hi)%Z -> (lo <= 0)%Z -> (hi <= n)%Z -> (lo <= clampi n lo hi v <= hi)%Z \/ (0 <= clampi n lo hi v < n)%Z.
Proof.
  intros. unfold clampi.
  destruct (v <? 0)%Z eqn:E1.
  - destruct (v + n <? 0)%Z eqn:E2; [left; lia|].
    destruct (n <=? v + n)%Z eqn:E3; [left; lia|]. right. lia.
  - destruct (v <? 0)%Z eqn:E2; [left; lia|].
    destruct (n <=? v)%Z eqn:E3; [left; lia|]. right. lia.
Qed.

Lemma slice_positions_bound n a b c ps : (0 <= n)%Z -> slice_positions n a b c = Ok ps ->
  Forall (fun p => (Z.of_nat p < n)%Z) ps.
Proof.
  intros Hn. unfold slice_positions.
  set (step := match c with Some s => s | None => 1%Z end).
  destruct (step =? 0)%Z eqn:E0; [discriminate|].
  destruct (0 <? step)%Z eqn:Ep.
  - set (start := match a with Some v => clampi n 0 n v | None => 0%Z end).
    set (stop := match b with Some v => clampi n 0 n v | None => n end).
    intros H; inversion H; subst ps; clear H.
    assert (S1 : (0 <= start <= n)%Z).
    { unfold start. destruct a; [|lia]. destruct (clampi_range n 0 n z); lia. }
    assert (S2 : (0 <= stop <= n)%Z).
    { unfold stop. destruct b; [|lia]. destruct (clampi_range n 0 n z); lia. }
    apply Forall_forall. intros p Hp. apply in_map_iff in Hp. destruct Hp as (k & <- & Hk).
    apply in_seq in Hk.
    destruct (start <? stop)%Z eqn:Els; [|simpl in Hk; lia].
    assert (Hs : (0 < step)%Z) by lia.
    pose proof (Z.mul_div_le (stop - start - 1) step Hs).
    assert ((Z.of_nat k <= (stop - start - 1) / step)%Z) by lia.
    assert ((Z.of_nat k * step <= stop - start - 1)%Z) by nia.
    lia.
  - set (start := match a with Some v => clampi n (-1) (n - 1) v | None => (n - 1)%Z end).
    set (stop := match b with Some v => clampi n (-1) (n - 1) v | None => (-1)%Z end).
    intros H; inversion H; subst ps; clear H.
    assert (S1 : (-1 <= start <= n - 1)%Z).
    { unfold start. destruct a; [|lia]. destruct (clampi_range n (-1) (n - 1) z); lia. }
    assert (S2 : (-1 <= stop <= n - 1)%Z).
    { unfold stop. destruct b; [|lia]. destruct (clampi_range n (-1) (n - 1) z); lia. }
    apply Forall_forall. intros p Hp. apply in_map_iff in Hp. destruct Hp as (k & <- & Hk).
    apply in_seq in Hk.
    destruct (stop <? start)%Z eqn:Els; [|simpl in Hk; lia].
    assert (Hs : (0 < - step)%Z) by lia.
    pose proof (Z.mul_div_le (start - stop - 1) (- step) Hs).
    assert ((Z.of_nat k <= (start - stop - 1) / (- step))%Z) by lia.
    assert ((Z.of_nat k * (- step) <= start - stop - 1)%Z) by nia.
    lia.
Qed.

Lemma norm_index_bound n k p : norm_index n k = Ok p -> (Z.of_nat p < n)%Z.
Proof.
  unfold norm_index. destruct ((- n <=? k)%Z && (k <? n)%Z) eqn:E; [|discriminate].
  intros H; inversion H; subst; clear H. destruct (k <? 0)%Z eqn:E2; lia.
Qed.

Lemma list_positions_bound n l ps : list_positions n l = Ok ps -> Forall (fun p => (Z.of_nat p < n)%Z) ps.
Proof.
  revert ps; induction l as [|k l IH]; simpl; intros ps H.
  - inversion H; constructor.
  - destruct (norm_index n k) eqn:E1; [|discriminate].
    destruct (list_positions n l) eqn:E2; [|discriminate].
    inversion H; subst. constructor; [eapply norm_index_bound; eauto|apply IH; auto].
Qed.

Lemma mask_positions_bound m i : Forall (fun p => p < i + length m) (mask_positions i m).
Proof.
  revert i; induction m as [|b m IH]; simpl; intros; [constructor|].
  destruct b.
  - constructor; [lia|]. eapply Forall_impl; [|apply (IH (S i))]. simpl; intros; lia.
  - eapply Forall_impl; [|apply (IH (S i))]. simpl; intros; lia.
Qed.

Lemma positions_bound n ix ps : positions n ix = Ok ps -> Forall (fun p => p < n) ps.
Proof.
  destruct ix; simpl; intros H.
  - eapply Forall_impl; [|eapply slice_positions_bound; [|exact H]]; simpl; intros; lia.
  - eapply Forall_impl; [|eapply list_positions_bound; exact H]; simpl; intros; lia.
  - destruct (Nat.eqb_spec (length m) n); [|discriminate]. inversion H; subst.
    apply (mask_positions_bound m 0).
Qed.

(* ---------------------------------------------------------------- copy() *)
(* nothing that exists is touched *)
Definition keeps (st st' : state) : Prop :=
  length (seqs st) <= length (seqs st') /\ length (heap st) <= length (heap st') /\
  (forall k, k < length (seqs st) -> getseq st' k = getseq st k) /\
  (forall b, b < length (heap st) -> getbuf (heap st') b = getbuf (heap st) b).

Lemma keeps_refl st : keeps st st.
Proof. unfold keeps; auto. Qed.

Lemma keeps_contents st st' k : wf st -> keeps st st' -> k < length (seqs st) ->
  contents st' (getseq st' k) = contents st (getseq st k).
Proof.
  intros W (_ & _ & K3 & K4) Hk. rewrite K3 by auto. unfold contents. rewrite K4; auto.
  apply (wf_seq _ W k Hk).
Qed.

Lemma do_copy_spec st i : wf st -> i < length (seqs st) ->
  let st' := do_copy st i in
  wf st' /\ keeps st st' /\ length (seqs st') = S (length (seqs st)) /\
  getseq st' (length (seqs st)) =
    mkSeq (length (heap st)) (cum_from 0 (lens (getseq st i))) (lens (getseq st i)) false default_bufbytes None true /\
  contents st' (getseq st' (length (seqs st))) = contents st (getseq st i) /\
  rows_of st' (length (heap st)) = concat (contents st (getseq st i)).
Proof.
  intros W Hi. simpl. set (s := getseq st i).
  assert (G : getseq (do_copy st i) (length (seqs st)) =
              mkSeq (length (heap st)) (cum_from 0 (lens s)) (lens s) false default_bufbytes None true).
  { unfold getseq, do_copy; simpl. apply nth_app_new. }
  assert (R : rows_of (do_copy st i) (length (heap st)) = concat (contents st s)).
  { unfold rows_of, do_copy; simpl. rewrite getbuf_app_new. reflexivity. }
  split; [|split; [|split; [|split; [exact G|split; [|exact R]]]]].
  - unfold do_copy. apply wf_add_fresh; simpl; auto.
    + apply chain_cum. apply wf_lens_pos; auto.
    + rewrite cend_cum, concat_length_sum, contents_lengths; auto.
    + rewrite concat_length_sum, contents_lengths; auto. fold s. lia.
  - unfold keeps, do_copy; simpl. rewrite !app_length; simpl.
    split; [lia|split; [lia|split]].
    + intros k Hk. unfold getseq; simpl. apply nth_app_old; auto.
    + intros b Hb. apply getbuf_app_old; auto.
  - unfold do_copy; simpl. rewrite app_length; simpl; lia.
  - rewrite G. unfold contents at 1. cbn [sbuf offs lens].
    change (rows (getbuf (heap (do_copy st i)) (length (heap st)))) with (rows_of (do_copy st i) (length (heap st))).
    rewrite R.
    pose proof (contents_lengths st i W Hi) as CL. fold s in CL. rewrite <- CL.
    pose proof (elems_of_compact (contents st s) [] []) as EC. simpl in EC. rewrite app_nil_r in EC. exact EC.
Qed.

(* ---------------------------------------------------------------- writes through offsets *)
(* overwriting one element (o, l) of sequence i with l rows *)
Lemma write_elem_spec st i o l e : wf st -> i < length (seqs st) ->
  In (o, l) (pairs (getseq st i)) -> length e = l ->
  let st' := write_buf st (sbuf (getseq st i)) o e in
  wf st' /\ seqs st' = seqs st /\ length (heap st') = length (heap st) /\
  (forall b, b <> sbuf (getseq st i) -> rows_of st' b = rows_of st b) /\
  length (rows_of st' (sbuf (getseq st i))) = length (rows_of st (sbuf (getseq st i))) /\
  (forall j o' l', j < length (seqs st) -> sbuf (getseq st j) = sbuf (getseq st i) ->
     In (o', l') (pairs (getseq st j)) ->
     slice o' l' (rows_of st' (sbuf (getseq st i))) =
       if (o' =? o) && (l' =? l) then e else slice o' l' (rows_of st (sbuf (getseq st i)))).
Proof.
  intros W Hi Hin He. simpl.
  destruct (wf_pair_bound st i o l W Hi Hin) as (Hl & Hb).
  assert (Hbuf : sbuf (getseq st i) < length (heap st)) by apply (wf_seq _ W i Hi).
  unfold write_buf. set (b := getbuf (heap st) (sbuf (getseq st i))).
  assert (RB : rows_of st (sbuf (getseq st i)) = rows b) by reflexivity.
  assert (WL : length (write o e (rows b)) = length (rows b)).
  { apply write_length_in. rewrite He, <- RB. exact Hb. }
  split; [|split; [reflexivity|split; [unfold set_buf; simpl; apply upd_length|split; [|split]]]].
  - apply wf_set_buf_ge; auto; simpl; rewrite WL.
    + apply (wf_heap _ W _ Hbuf).
    + rewrite RB. lia.
  - intros b' Hne. rewrite rows_of_set_buf by auto. apply Nat.eqb_neq in Hne. rewrite Hne. reflexivity.
  - rewrite rows_of_set_buf, Nat.eqb_refl by auto. simpl. rewrite WL, RB. reflexivity.
  - intros j o' l' Hj Hs Hin'. rewrite rows_of_set_buf, Nat.eqb_refl by auto. simpl.
    destruct (wf_pair_bound st j o' l' W Hj Hin') as (Hl' & Hb'). rewrite Hs, RB in Hb'.
    destruct (wf_cells st j i (o', l') (o, l) W Hj Hi Hs Hin' Hin) as [E|[D|D]]; [|simpl in D..].
    + inversion E; subst o' l'. rewrite !Nat.eqb_refl. simpl. rewrite <- He at 1. apply slice_write_same.
    + assert (X : (o' =? o) && (l' =? l) = false).
      { destruct (Nat.eqb_spec o' o); [subst; lia|reflexivity]. }
      rewrite X, RB. apply slice_write_below; lia.
    + assert (X : (o' =? o) && (l' =? l) = false).
      { destruct (Nat.eqb_spec o' o); [subst; lia|reflexivity]. }
      rewrite X, RB. apply slice_write_above; rewrite ?He; [lia|rewrite <- RB; lia].
Qed.

Lemma fold_inv {A} (F : state -> A -> state) (P : state -> Prop) xs : forall st,
  P st -> (forall s x, In x xs -> P s -> P (F s x)) -> P (fold_left F xs st).
Proof.
  induction xs as [|x xs IH]; simpl; intros st H0 HS; [exact H0|].
  apply IH; [apply HS; auto|intros; apply HS; auto].
Qed.

Lemma getseq_seqs_eq st st' k : seqs st' = seqs st -> getseq st' k = getseq st k.
Proof. intros E. unfold getseq. rewrite E. reflexivity. Qed.

(* writing whole elements of sequence i keeps the invariant and every sequence object *)
Definition stable (st0 : state) (s : state) : Prop :=
  wf s /\ seqs s = seqs st0 /\ length (heap s) = length (heap st0).

Lemma stable_write st0 st i o l e : stable st0 st -> i < length (seqs st0) ->
  In (o, l) (pairs (getseq st0 i)) -> length e = l ->
  stable st0 (write_buf st (sbuf (getseq st0 i)) o e).
Proof.
  intros (W & ES & EH) Hi Hin He.
  assert (G : getseq st i = getseq st0 i) by (apply getseq_seqs_eq; auto).
  assert (Hi' : i < length (seqs st)) by (rewrite ES; auto).
  rewrite <- G in Hin |- *.
  destruct (write_elem_spec st i o l e W Hi' Hin He) as (W' & S' & H' & _).
  unfold stable. split; [auto|split; congruence].
Qed.

Lemma stable_fill_fold st0 i v T : forall st, stable st0 st -> i < length (seqs st0) ->
  incl T (pairs (getseq st0 i)) ->
  stable st0 (fold_left (fun a p => fill_buf a (sbuf (getseq st0 i)) (fst p) (snd p) v) T st).
Proof.
  intros st HS Hi Hincl. apply fold_inv; auto.
  intros s (o, l) Hin Hs. unfold fill_buf. simpl. eapply stable_write; eauto.
  apply repeat_length.
Qed.

Lemma stable_in_bounds st0 st i o l : stable st0 st -> i < length (seqs st0) ->
  In (o, l) (pairs (getseq st0 i)) -> o + l <= length (rows_of st (sbuf (getseq st0 i))).
Proof.
  intros (W & ES & EH) Hi Hin.
  assert (G : getseq st i = getseq st0 i) by (apply getseq_seqs_eq; auto).
  rewrite <- G in *. apply (wf_pair_bound st i o l W); auto. rewrite ES; auto.
Qed.

Lemma stable_map_elems st0 i f T : forall st, stable st0 st -> i < length (seqs st0) ->
  incl T (pairs (getseq st0 i)) ->
  stable st0 (map_elems st (sbuf (getseq st0 i)) f T).
Proof.
  intros st HS Hi Hincl. unfold map_elems. apply fold_inv; auto.
  intros s (o, l) Hin Hs. simpl. eapply stable_write; eauto.
  rewrite map_length. apply slice_length.
  apply (stable_in_bounds st0 s i o l); auto.
Qed.

Lemma stable_assign_rows st0 st i o l src st' : stable st0 st -> i < length (seqs st0) ->
  In (o, l) (pairs (getseq st0 i)) ->
  assign_rows st (sbuf (getseq st0 i)) o l src = Ok st' -> stable st0 st'.
Proof.
  intros HS Hi Hin. unfold assign_rows.
  destruct (Nat.eqb_spec (length src) l).
  - intros H; inversion H; subst st'. eapply stable_write; eauto.
  - destruct src as [|v [|w src]]; try discriminate.
    intros H; inversion H; subst st'. unfold fill_buf. eapply stable_write; eauto. apply repeat_length.
Qed.

Lemma stable_assign_seq st0 i jb : forall dst src st, stable st0 st -> i < length (seqs st0) ->
  incl dst (pairs (getseq st0 i)) ->
  stable st0 (fst (assign_seq st (sbuf (getseq st0 i)) dst jb src)).
Proof.
  induction dst as [|(o1, l1) dst IH]; intros src st HS Hi Hincl; simpl; auto.
  destruct src as [|(o2, l2) src]; simpl; auto.
  destruct (assign_rows st (sbuf (getseq st0 i)) o1 l1 _) eqn:E; simpl; auto.
  apply IH; auto.
  - eapply stable_assign_rows; eauto. apply Hincl. left; auto.
  - intros x Hx. apply Hincl. right; auto.
Qed.

(* ---------------------------------------------------------------- operators with a sequence operand *)
Lemma zip_with_length g a b : length b = length a -> length (zip_with g a b) = length a.
Proof. revert b; induction a; destruct b; simpl; intros; try discriminate; auto. Qed.

Lemma elem_op_length g a b e : elem_op g a b = Some e -> length e = length a.
Proof.
  unfold elem_op. destruct (Nat.eqb_spec (length b) (length a)).
  - intros H; inversion H. apply zip_with_length; auto.
  - destruct b as [|y [|z b]]; try discriminate. intros H; inversion H. apply map_length.
Qed.

Lemma op_seq_rows_length g : forall a b r, op_seq_rows g a b = Some r ->
  length a <= length b -> length r = sum (map (@length Z) a).
Proof.
  induction a as [|x a IH]; intros b r H HL; simpl in *.
  - inversion H; auto.
  - destruct b as [|y b]; [simpl in HL; lia|].
    destruct (elem_op g x y) eqn:E1; [|discriminate].
    destruct (op_seq_rows g a b) eqn:E2; [|discriminate].
    inversion H; subst. rewrite app_length. rewrite (elem_op_length _ _ _ _ E1).
    rewrite (IH b l0 E2); simpl in HL; lia.
Qed.

Lemma stable_op_seq_inplace st0 i g jb : forall dst src st, stable st0 st -> i < length (seqs st0) ->
  incl dst (pairs (getseq st0 i)) ->
  stable st0 (fst (op_seq_inplace st (sbuf (getseq st0 i)) g dst jb src)).
Proof.
  induction dst as [|(o1, l1) dst IH]; intros src st HS Hi Hincl; simpl; auto.
  destruct src as [|(o2, l2) src]; simpl; auto.
  destruct (elem_op g _ _) as [e|] eqn:E; simpl; auto.
  apply IH; auto.
  - apply (stable_write st0 st i o1 l1 e HS Hi).
    + apply Hincl. left; auto.
    + rewrite (elem_op_length _ _ _ _ E). apply slice_length.
      apply (stable_in_bounds st0 st i o1 l1); auto. apply Hincl. left; auto.
  - intros x Hx. apply Hincl. right; auto.
Qed.

(* ---------------------------------------------------------------- shrink_data, concatenate(axis=1) *)
Lemma wf_shrink st i : wf st -> i < length (seqs st) -> scache (getseq st i) = None -> wf (shrink st i).
Proof.
  intros W Hi Hc. unfold shrink. destruct (is_view (getseq st i)) eqn:Ev; auto.
  destruct (wf_chain st i W Hi Ev) as (C1 & C2).
  rewrite (next_offset_chain 0) by auto.
  set (n := cend 0 (offs (getseq st i)) (lens (getseq st i))) in *.
  apply wf_set_buf_owner; auto; cbn [rows cap]; rewrite ?firstn_length, ?Hc; auto; unfold rows_of in C2; lia.
Qed.

Lemma zip_rows_length n : forall rs, rs <> [] -> Forall (fun r => length r = n) rs -> length (zip_rows rs) = n.
Proof.
  induction rs as [|r rs IH]; intros NE HF; [congruence|].
  inversion HF; subst. destruct rs as [|r2 rs]; [reflexivity|].
  change (zip_rows (r :: r2 :: rs)) with (zip_with (fun a b => (a + cat_base * b)%Z) r (zip_rows (r2 :: rs))).
  rewrite zip_with_length; auto. rewrite IH; auto. discriminate.
Qed.

(* ---------------------------------------------------------------- every step keeps the invariant *)
Lemma is_live_lt st i : is_live st i = true -> i < length (seqs st).
Proof. unfold is_live. intros H. apply andb_prop in H. destruct H as (H & _). apply Nat.ltb_lt; auto. Qed.

Lemma wf_new_buf_for st i x : wf st -> i < length (seqs st) -> is_view (getseq st i) = false ->
  (Z.of_nat (length (rows x)) <= cap x)%Z ->
  cend 0 (offs (getseq st i)) (lens (getseq st i)) <= length (rows x) ->
  match scache (getseq st i) with Some c => c_next c <= length (rows x) | None => True end ->
  wf (new_buf_for st i x).
Proof.
  intros W Hi Hv X1 X2 X3. unfold new_buf_for.
  destruct (wf_chain st i W Hi Hv) as (C1 & C2).
  destruct (wf_seq _ W i Hi) as (S1 & S2 & S3).
  apply wf_move_fresh; simpl; auto.
  destruct (scache (getseq st i)) as [c|] eqn:Ec; auto.
  destruct S3 as (A1 & A2 & A3 & A4 & A5 & A6). unfold cache_ok; simpl. repeat split; auto.
Qed.

Lemma stable_refl st : wf st -> stable st st.
Proof. unfold stable; auto. Qed.

Lemma pairs_nth st i p : wf st -> i < length (seqs st) -> p < length (offs (getseq st i)) ->
  In (nth p (offs (getseq st i)) 0, nth p (lens (getseq st i)) 0) (pairs (getseq st i)).
Proof. intros W Hi Hp. apply in_combine_nth; auto. apply (wf_seq _ W i Hi). Qed.

Lemma norm_index_lt n k p : norm_index (Z.of_nat n) k = Ok p -> p < n.
Proof. intros H. apply norm_index_bound in H. lia. Qed.

Lemma wf_extend st i bpr pre els f : wf st -> i < length (seqs st) -> wf (extend st i bpr pre els f).
Proof. intros W Hi. apply (extend_spec st i bpr pre els f W Hi). Qed.
Lemma wf_extend_gen st i bpr pre els f x : wf st -> i < length (seqs st) -> wf (extend_gen st i bpr pre els f x).
Proof. intros W Hi. apply (extend_gen_spec st i bpr pre els f x W Hi). Qed.

Arguments do_copy : simpl never.
Arguments extend : simpl never.
Arguments extend_gen : simpl never.
Arguments do_append : simpl never.
Arguments finalize : simpl never.
Arguments new_buf_for : simpl never.
Arguments set_buf : simpl never.
Arguments set_seq : simpl never.
Arguments map_elems : simpl never.
Arguments assign_seq : simpl never.
Arguments assign_rows : simpl never.
Arguments op_seq_inplace : simpl never.
Arguments op_seq_rows : simpl never.
Arguments zip_rows : simpl never.
Arguments fill_buf : simpl never.
Arguments write_buf : simpl never.
Arguments new_view : simpl never.
Arguments getseq : simpl never.
Arguments getbuf : simpl never.
Arguments contents : simpl never.
Arguments positions : simpl never.
Arguments norm_index : simpl never.
Arguments is_live : simpl never.

Theorem wf_step st o : wf st -> wf (fst (step st o)).
Proof.
  intros W. destruct o; simpl.
  - (* ONew *)
    apply wf_extend.
    + apply wf_add_fresh; simpl; auto; lia.
    + simpl. rewrite app_length; simpl; lia.
  - destruct (is_live st i) eqn:L; simpl; auto. apply is_live_lt in L.
    destruct e as [|z e]; [exact W|]. apply (do_append_spec st i bpr (z :: e) cb W L). discriminate.
  - destruct (is_live st i) eqn:L; simpl; auto. apply is_live_lt in L. apply (finalize_spec st i W L).
  - destruct (is_live st i) eqn:L; simpl; auto. apply is_live_lt in L. apply wf_extend; auto.
  - destruct (is_live st i && is_live st j) eqn:L; simpl; auto.
    apply andb_prop in L. destruct L as (L & _). apply is_live_lt in L. apply wf_extend; auto.
  - destruct (is_live st i); simpl; auto. destruct (norm_index _ _); simpl; auto.
  - destruct (is_live st i) eqn:L; simpl; auto. apply is_live_lt in L.
    destruct (positions _ ix) as [ps|] eqn:P; simpl; auto.
    apply positions_bound in P. destruct (wf_seq _ W i L) as (_ & S2 & _).
    unfold new_view. apply wf_add_view; auto.
    + rewrite !pick_length; auto.
    + apply incl_pick; auto.
  - destruct (is_live st i) eqn:L; simpl; auto. apply is_live_lt in L.
    unfold new_view. apply wf_add_view; auto.
    + apply (wf_seq _ W i L).
    + apply incl_refl.
  - destruct (is_live st i) eqn:L; simpl; auto. apply is_live_lt in L. apply (do_copy_spec st i W L).
  - destruct (is_live st i) eqn:L; simpl; auto. apply is_live_lt in L.
    destruct (norm_index _ k) as [p|] eqn:N; simpl; auto. apply norm_index_lt in N.
    unfold fill_buf. eapply stable_write; eauto using stable_refl, pairs_nth. apply repeat_length.
  - destruct (is_live st i) eqn:L; simpl; auto. apply is_live_lt in L.
    destruct (norm_index _ k) as [p|] eqn:N; simpl; auto. apply norm_index_lt in N.
    destruct (assign_rows _ _ _ _ _) as [st1|] eqn:A; simpl; auto.
    eapply (stable_assign_rows st st i); eauto using stable_refl, pairs_nth.
  - destruct (is_live st i) eqn:L; simpl; auto. apply is_live_lt in L.
    destruct (positions _ ix) as [ps|] eqn:P; simpl; auto.
    apply positions_bound in P. destruct (wf_seq _ W i L) as (_ & S2 & _).
    assert (INC : incl (combine (pick 0 (offs (getseq st i)) ps) (pick 0 (lens (getseq st i)) ps)) (pairs (getseq st i))).
    { apply incl_pick; auto. }
    destruct v as [x|j].
    + simpl. apply (stable_fill_fold st i x _ st); auto using stable_refl.
    + destruct (is_live st j); simpl; auto.
      destruct (negb _); simpl; auto. destruct (negb _); simpl; auto.
      pose proof (stable_assign_seq st i (sbuf (getseq st j)) _ (combine (offs (getseq st j)) (lens (getseq st j))) st
                    (stable_refl st W) L INC) as (W1 & _).
      destruct (assign_seq _ _ _ _ _) as [st1 [e|]]; simpl in *; auto.
  - destruct (is_live st i) eqn:L; simpl; auto. apply is_live_lt in L.
    destruct (offs (getseq st i)) as [|o0 os0] eqn:EO; [simpl; auto|]. rewrite <- EO.
    destruct inplace; simpl.
    + apply (stable_map_elems st i (apply_fn f) _ st); auto using stable_refl. apply incl_refl.
    + destruct (do_copy_spec st i W L) as (W1 & K1 & L1 & G1 & C1 & R1).
      set (st1 := do_copy st i) in *. set (k := length (seqs st)) in *.
      assert (Hk : k < length (seqs st1)) by lia.
      assert (LR : length (rows (getbuf (heap st1) (sbuf (getseq st1 k)))) = sum (lens (getseq st i))).
      { rewrite G1. cbn [sbuf]. change (rows (getbuf (heap st1) (length (heap st)))) with (rows_of st1 (length (heap st))).
        rewrite R1, concat_length_sum, contents_lengths; auto. }
      assert (HB : sbuf (getseq st1 k) < length (heap st1)) by apply (wf_seq _ W1 k Hk).
      pose proof (wf_heap _ W1 _ HB) as HC. unfold rows_of in HC.
      assert (VE : cend 0 (offs (getseq st1 k)) (lens (getseq st1 k)) = sum (lens (getseq st i))).
      { rewrite G1. cbn [offs lens]. rewrite cend_cum. lia. }
      destruct dtchg.
      * assert (W2 : wf (new_buf_for st1 k (getbuf (heap st1) (sbuf (getseq st1 k))))).
        { apply wf_new_buf_for; auto; rewrite ?G1; cbn [is_view scache]; auto. rewrite <- G1. lia. }
        set (st2 := new_buf_for st1 k _) in *.
        assert (G2 : sbuf (getseq st2 k) = length (heap st1)).
        { unfold st2. rewrite getseq_new_buf_for, Nat.eqb_refl by auto. reflexivity. }
        rewrite G2. apply wf_set_buf_ge; auto.
        -- unfold st2, new_buf_for; cbn [heap]. rewrite app_length; cbn [length]; lia.
        -- simpl. rewrite map_length. exact HC.
        -- simpl. rewrite map_length. unfold st2. rewrite rows_of_new_buf_for. apply le_n.
      * apply wf_set_buf_ge; auto; simpl; rewrite map_length; auto.
  - destruct js as [|(j0, b0) rest]; simpl; auto.
    destruct (is_live st j0 && _) eqn:L; simpl; auto.
    apply andb_prop in L. destruct L as (L & _). apply is_live_lt in L.
    destruct (do_copy_spec st j0 W L) as (W1 & _ & L1 & _).
    set (k := length (seqs st)) in *.
    assert (P : wf (fold_left (fun a p => extend a k (snd p) true (contents a (getseq a (fst p))) false) rest (do_copy st j0))
                /\ k < length (seqs (fold_left (fun a p => extend a k (snd p) true (contents a (getseq a (fst p))) false) rest (do_copy st j0)))).
    { apply (fold_inv _ (fun s => wf s /\ k < length (seqs s))); [split; [auto|lia]|].
      intros s x _ (Ws & Hs). split; [apply wf_extend; auto|rewrite seqs_len_extend; auto]. }
    apply P.
  - destruct (is_live st i) eqn:L; simpl; auto. apply is_live_lt in L.
    apply wf_set_seq; simpl; auto.
    + intros Hv. destruct (wf_chain st i W L Hv). exists [], []. rewrite !app_nil_r. auto.
    + destruct (wf_seq _ W i L) as (_ & _ & S3). destruct (scache (getseq st i)); auto.
  - (* OOpSeq *)
    destruct (is_live st i && is_live st j) eqn:L; simpl; auto.
    apply andb_prop in L. destruct L as (L & Lj). apply is_live_lt in L. apply is_live_lt in Lj.
    destruct (Nat.eqb_spec (length (lens (getseq st i))) (length (lens (getseq st j)))) as [EL|]; simpl; auto.
    destruct (negb _); simpl; auto.
    destruct (offs (getseq st i)) as [|o0 os0] eqn:EO; [simpl; auto|]. rewrite <- EO.
    destruct inplace.
    + pose proof (stable_op_seq_inplace st i (apply_fn2 g) (sbuf (getseq st j)) _
                    (combine (offs (getseq st j)) (lens (getseq st j))) st (stable_refl st W) L (incl_refl _)) as (W1 & _).
      destruct (op_seq_inplace _ _ _ _ _ _) as [st1 [e|]]; simpl in *; auto.
    + destruct (op_seq_rows _ _ _) as [r|] eqn:ER; simpl; auto.
      assert (LR0 : length r = sum (lens (getseq st i))).
      { rewrite (op_seq_rows_length _ _ _ _ ER).
        - rewrite contents_lengths; auto.
        - unfold contents, elems_of. rewrite !map_length, !combine_length.
          destruct (wf_seq _ W i L) as (_ & A & _). destruct (wf_seq _ W j Lj) as (_ & B & _). lia. }
      destruct (do_copy_spec st i W L) as (W1 & K1 & L1 & G1 & C1 & R1).
      set (st1 := do_copy st i) in *. set (k := length (seqs st)) in *.
      assert (Hk : k < length (seqs st1)) by lia.
      assert (LR : length (rows (getbuf (heap st1) (sbuf (getseq st1 k)))) = sum (lens (getseq st i))).
      { rewrite G1. cbn [sbuf]. change (rows (getbuf (heap st1) (length (heap st)))) with (rows_of st1 (length (heap st))).
        rewrite R1, concat_length_sum, contents_lengths; auto. }
      assert (HB : sbuf (getseq st1 k) < length (heap st1)) by apply (wf_seq _ W1 k Hk).
      pose proof (wf_heap _ W1 _ HB) as HC. unfold rows_of in HC.
      assert (VE : cend 0 (offs (getseq st1 k)) (lens (getseq st1 k)) = sum (lens (getseq st i))).
      { rewrite G1. cbn [offs lens]. rewrite cend_cum. lia. }
      destruct dtchg.
      * assert (W2 : wf (new_buf_for st1 k (getbuf (heap st1) (sbuf (getseq st1 k))))).
        { apply wf_new_buf_for; auto; rewrite ?G1; cbn [is_view scache]; auto. rewrite <- G1. lia. }
        set (st2 := new_buf_for st1 k _) in *.
        assert (G2 : sbuf (getseq st2 k) = length (heap st1)).
        { unfold st2. rewrite getseq_new_buf_for, Nat.eqb_refl by auto. reflexivity. }
        rewrite G2. apply wf_set_buf_ge; auto.
        -- unfold st2, new_buf_for; cbn [heap]. rewrite app_length; cbn [length]; lia.
        -- cbn [rows cap]. rewrite LR0, <- LR. exact HC.
        -- cbn [rows]. unfold st2. rewrite rows_of_new_buf_for. rewrite LR0, <- LR. apply le_n.
      * apply wf_set_buf_ge; auto; cbn [rows cap]; rewrite LR0, <- LR; [exact HC|apply le_n].
  - (* OAppendBad: a refusal *)
    destruct (is_live st i); simpl; auto. destruct (offs (getseq st i)), (scache (getseq st i)); simpl; auto.
  - (* OOpRefused: a refusal *)
    destruct (is_live st i && _); simpl; auto.
    destruct oj as [j|]; [destruct (negb _ || negb _)|]; simpl; auto; destruct (offs (getseq st i)); simpl; auto.
  - (* OShrink *)
    destruct (is_live st i) eqn:L; simpl; auto. apply is_live_lt in L.
    destruct (scache (getseq st i)) eqn:Ec; simpl; auto. apply wf_shrink; auto.
  - (* OConcat1 *)
    destruct js as [|j0 js]; simpl; auto.
    destruct (is_live st j0 && forallb (is_live st) js) eqn:L; simpl; auto.
    apply andb_prop in L. destruct L as (L & _). apply is_live_lt in L.
    destruct (sum (lens (getseq st j0)) =? 0) eqn:E0; simpl; auto.
    set (rs := concat (contents st (getseq st j0)) :: map (fun j => concat (contents st (getseq st j))) js).
    match goal with |- context [if ?c then _ else _] => destruct c eqn:EF end; simpl; auto.
    assert (EF' : forallb (fun r => length r =? sum (lens (getseq st j0))) rs = true) by exact EF.
    assert (LZ : length (zip_rows rs) = sum (lens (getseq st j0))).
    { apply zip_rows_length; [unfold rs; discriminate|].
      apply Forall_forall. intros r Hr. rewrite forallb_forall in EF'. apply Nat.eqb_eq. apply EF'; auto. }
    fold rs.
    destruct (do_copy_spec st j0 W L) as (W1 & K1 & L1 & G1 & C1 & R1).
    set (st1 := do_copy st j0) in *. set (k := length (seqs st)) in *.
    assert (Hk : k < length (seqs st1)) by lia.
    assert (LR : length (rows (getbuf (heap st1) (sbuf (getseq st1 k)))) = sum (lens (getseq st j0))).
    { rewrite G1. cbn [sbuf]. change (rows (getbuf (heap st1) (length (heap st)))) with (rows_of st1 (length (heap st))).
      rewrite R1, concat_length_sum, contents_lengths; auto. }
    assert (HB : sbuf (getseq st1 k) < length (heap st1)) by apply (wf_seq _ W1 k Hk).
    pose proof (wf_heap _ W1 _ HB) as HC. unfold rows_of in HC.
    apply wf_set_buf_ge; auto; cbn [rows cap]; rewrite LZ, <- LR; [exact HC|apply le_n].
  - (* OGetCols *)
    destruct (is_live st i) eqn:L; simpl; auto. apply is_live_lt in L.
    destruct (positions _ ix) as [ps|] eqn:P; simpl; auto.
    apply positions_bound in P. destruct (wf_seq _ W i L) as (_ & S2 & _).
    unfold new_view. apply wf_add_view; auto.
    + rewrite !pick_length; auto.
    + apply incl_pick; auto.
  - (* ODeepCopy *)
    destruct (is_live st i) eqn:L; simpl; auto. apply is_live_lt in L. apply wf_add_clone; auto.
  - (* OExtendBad *)
    destruct (is_live st i) eqn:L; simpl; auto. apply is_live_lt in L.
    destruct pre.
    + destruct good; [destruct (match offs _ with [] => _ | _ => _ end); simpl; auto|].
      simpl. apply wf_extend_gen; auto.
    + destruct (_ && _); simpl; auto. apply wf_extend_gen; auto.
Qed.

Theorem wf_exec ops : forall st, wf st -> wf (exec st ops).
Proof.
  unfold exec. induction ops as [|o ops IH]; simpl; intros st W; auto.
  apply IH. apply wf_step; auto.
Qed.
