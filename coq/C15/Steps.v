(* C15/Steps.v — the invariant is preserved by every operation of the model. *)
From Coq Require Import ZArith List Bool Arith Lia.
From NV Require Import C15.Model C15.ListLemmas C15.Invariant.
Import ListNotations.

(* ---------------------------------------------------------------- accessors after updates *)
Lemma getseq_set_seq st i s k : i < length (seqs st) ->
  getseq (set_seq st i s) k = if k =? i then s else getseq st k.
Proof.
  intros. unfold getseq, set_seq; simpl. rewrite nth_upd.
  apply Nat.ltb_lt in H. rewrite H, andb_true_r. reflexivity.
Qed.

Lemma getseq_new_buf_for st i x k : i < length (seqs st) ->
  getseq (new_buf_for st i x) k =
  if k =? i then let s := getseq st i in
                 mkSeq (length (heap st)) (offs s) (lens s) (is_view s) (bufbytes s) (scache s) (live s)
  else getseq st k.
Proof.
  intros. unfold getseq at 1, new_buf_for; simpl. rewrite nth_upd.
  apply Nat.ltb_lt in H. rewrite H, andb_true_r. reflexivity.
Qed.

Lemma seqs_len_set_seq st i s : length (seqs (set_seq st i s)) = length (seqs st).
Proof. apply upd_length. Qed.
Lemma seqs_len_set_cache st i c : length (seqs (set_cache st i c)) = length (seqs st).
Proof. apply upd_length. Qed.
Lemma seqs_len_new_buf_for st i x : length (seqs (new_buf_for st i x)) = length (seqs st).
Proof. apply upd_length. Qed.
Lemma seqs_len_resize st i n rpb f : length (seqs (resize_to st i n rpb f)) = length (seqs st).
Proof.
  unfold resize_to. repeat match goal with |- context [if ?c then _ else _] => destruct c end;
    auto using seqs_len_new_buf_for.
Qed.
Lemma seqs_len_detach st i : length (seqs (detach st i)) = length (seqs st).
Proof. unfold detach. destruct (is_view _); simpl; auto. apply upd_length. Qed.
Lemma seqs_len_append_core st i e c : length (seqs (fst (append_core st i e c))) = length (seqs st).
Proof.
  unfold append_core. simpl. destruct (_ <? _)%Z; simpl; auto using seqs_len_resize.
Qed.
Lemma seqs_len_do_append st i bpr e cb : length (seqs (do_append st i bpr e cb)) = length (seqs st).
Proof.
  unfold do_append. destruct e; auto. destruct (scache (getseq st i)).
  - destruct (append_core st i (z :: e) c) eqn:E. rewrite seqs_len_set_cache.
    change s with (fst (s, c0)). rewrite <- E. apply seqs_len_append_core.
  - unfold mk_cache. destruct (append_core _ _ _ _) eqn:E.
    assert (L : length (seqs s) = length (seqs st)).
    { change s with (fst (s, c)). rewrite <- E. rewrite seqs_len_append_core. apply seqs_len_detach. }
    destruct cb; [rewrite seqs_len_set_cache|unfold update_seq; rewrite seqs_len_set_seq]; exact L.
Qed.
Lemma seqs_len_finalize st i : length (seqs (finalize st i)) = length (seqs st).
Proof.
  unfold finalize. destruct (scache _); auto. unfold shrink.
  destruct (is_view _); unfold update_seq; simpl; apply upd_length.
Qed.
Lemma seqs_len_fold_append st i bpr els :
  length (seqs (fold_left (fun s e => do_append s i bpr e true) els st)) = length (seqs st).
Proof. revert st; induction els; simpl; intros; auto. rewrite IHels. apply seqs_len_do_append. Qed.
Lemma seqs_len_extend_gen st i bpr pre els f x : length (seqs (extend_gen st i bpr pre els f x)) = length (seqs st).
Proof.
  unfold extend_gen. destruct (pre && _); auto. rewrite seqs_len_finalize, seqs_len_fold_append.
  destruct pre; auto. unfold mk_cache. rewrite seqs_len_resize, seqs_len_set_cache. apply seqs_len_detach.
Qed.
Lemma seqs_len_extend st i bpr pre els f : length (seqs (extend st i bpr pre els f)) = length (seqs st).
Proof. apply seqs_len_extend_gen. Qed.

(* ---------------------------------------------------------------- detach / mk_cache *)
Lemma wf_view_no_cache st i : wf st -> i < length (seqs st) -> is_view (getseq st i) = true ->
  scache (getseq st i) = None.
Proof.
  intros W Hi Hv. destruct (wf_seq _ W i Hi) as (_ & _ & S3).
  destruct (scache (getseq st i)); auto. destruct S3 as (A & _). congruence.
Qed.

Lemma wf_lens_pos st i : wf st -> i < length (seqs st) -> Forall (fun l => 0 < l) (lens (getseq st i)).
Proof.
  intros W Hi. apply Forall_forall. intros l Hl.
  destruct (wf_seq _ W i Hi) as (_ & S2 & _).
  destruct (in_lens_pair _ _ _ S2 Hl) as (o & Hin).
  apply (wf_pair_bound st i o l W Hi Hin).
Qed.

Lemma contents_lengths st i : wf st -> i < length (seqs st) ->
  map (@length Z) (contents st (getseq st i)) = lens (getseq st i).
Proof.
  intros W Hi. unfold contents. apply elems_lengths.
  - apply (wf_seq _ W i Hi).
  - intros o l Hin. apply (wf_pair_bound st i o l W Hi Hin).
Qed.

Lemma compact_len st i : wf st -> i < length (seqs st) ->
  length (rows (compact_buf st (getseq st i))) = sum (lens (getseq st i)).
Proof. intros. simpl. rewrite concat_length_sum, contents_lengths; auto. Qed.

Lemma wf_detach st i : wf st -> i < length (seqs st) -> wf (detach st i).
Proof.
  intros W Hi. unfold detach. destruct (is_view (getseq st i)) eqn:Ev; auto.
  apply wf_move_fresh; simpl; auto.
  - apply chain_cum. apply wf_lens_pos; auto.
  - rewrite cend_cum. rewrite concat_length_sum, contents_lengths; auto.
  - rewrite concat_length_sum, contents_lengths; auto. lia.
  - rewrite wf_view_no_cache; auto.
Qed.

Lemma detach_not_view st i : i < length (seqs st) -> is_view (getseq (detach st i) i) = false.
Proof.
  intros. unfold detach. destruct (is_view (getseq st i)) eqn:Ev; auto.
  unfold getseq; simpl. rewrite nth_upd_same; auto.
Qed.

Lemma wf_mk_cache st i bpr : wf st -> i < length (seqs st) ->
  let '(st1, c) := mk_cache st i bpr in
  wf st1 /\ is_view (getseq st1 i) = false /\
  cache_ok (length (rows_of st1 (sbuf (getseq st1 i)))) (getseq st1 i) c /\
  c_offs c = offs (getseq st1 i) /\ c_lens c = lens (getseq st1 i).
Proof.
  intros W Hi. unfold mk_cache.
  pose proof (wf_detach st i W Hi) as W1.
  pose proof (detach_not_view st i Hi) as V1.
  assert (Hi1 : i < length (seqs (detach st i))) by (rewrite seqs_len_detach; auto).
  destruct (wf_chain _ i W1 Hi1 V1) as (C1 & C2).
  split; [auto|split; [auto|split; [|auto]]].
  unfold cache_ok; simpl. split; [auto|split; [exists [], []; rewrite !app_nil_r; auto|]].
  split; [auto|split; [apply (next_offset_chain 0); auto|]].
  split; [|apply rows_per_buf_ge].
  rewrite (next_offset_chain 0) by auto. exact C2.
Qed.

(* ---------------------------------------------------------------- frames *)
(* what an operation on sequence i leaves alone: every other sequence object, and every row of
   every old buffer, except rows at or above K of the buffer i is on *)
Definition frame (st st' : state) (i K : nat) : Prop :=
  length (seqs st') = length (seqs st) /\ length (heap st) <= length (heap st') /\
  (forall k, k <> i -> getseq st' k = getseq st k) /\
  (sbuf (getseq st' i) = sbuf (getseq st i) \/ length (heap st) <= sbuf (getseq st' i)) /\
  forall b o l, b < length (heap st) -> o + l <= length (rows_of st b) ->
    (b = sbuf (getseq st i) -> o + l <= K) ->
    o + l <= length (rows_of st' b) /\ slice o l (rows_of st' b) = slice o l (rows_of st b).

Lemma frame_refl st i K : frame st st i K.
Proof. unfold frame. repeat split; auto. Qed.

Lemma frame_trans st st1 st2 i K K1 : frame st st1 i K -> frame st1 st2 i K1 -> K <= K1 ->
  frame st st2 i K.
Proof.
  intros (A1 & A2 & A3 & A4 & A5) (B1 & B2 & B3 & B4 & B5) HK.
  unfold frame. split; [lia|split; [lia|split; [|split]]].
  - intros k Hk. rewrite B3, A3; auto.
  - destruct B4 as [B4|B4]; [rewrite B4; exact A4|right; lia].
  - intros b o l Hb Hl Hbound.
    destruct (A5 b o l Hb Hl Hbound) as (L1 & S1).
    destruct (B5 b o l ltac:(lia) L1) as (L2 & S2).
    + intros E. destruct A4 as [A4|A4]; [|lia]. assert (o + l <= K) by (apply Hbound; congruence). lia.
    + split; [auto|congruence].
Qed.

Lemma frame_weaken st st' i K K' : frame st st' i K -> K' <= K -> frame st st' i K'.
Proof.
  intros (F1 & F2 & F3 & F4 & F5) HK. unfold frame.
  split; [auto|split; [auto|split; [auto|split; [auto|]]]].
  intros b o l Hb Hl Hbound. apply F5; auto. intros E. specialize (Hbound E). lia.
Qed.

Definition same_fields (s s' : seq) : Prop :=
  offs s' = offs s /\ lens s' = lens s /\ is_view s' = is_view s /\ bufbytes s' = bufbytes s /\
  scache s' = scache s /\ live s' = live s.

Lemma same_fields_refl s : same_fields s s.
Proof. unfold same_fields; auto 10. Qed.
Lemma same_fields_trans a b c : same_fields a b -> same_fields b c -> same_fields a c.
Proof. unfold same_fields. intuition congruence. Qed.

Lemma rows_of_new_buf_for st i x : rows_of (new_buf_for st i x) (length (heap st)) = rows x.
Proof. unfold rows_of, new_buf_for; simpl. rewrite getbuf_app_new. reflexivity. Qed.
Lemma rows_of_new_buf_for_old st i x b : b < length (heap st) -> rows_of (new_buf_for st i x) b = rows_of st b.
Proof. intros. unfold rows_of, new_buf_for; simpl. rewrite getbuf_app_old; auto. Qed.

Lemma frame_new_buf_for st i x K : i < length (seqs st) -> frame st (new_buf_for st i x) i K.
Proof.
  intros Hi. unfold frame. split; [apply seqs_len_new_buf_for|].
  split; [unfold new_buf_for; simpl; rewrite app_length; lia|].
  split; [intros k Hk; rewrite getseq_new_buf_for by auto; apply Nat.eqb_neq in Hk; rewrite Hk; auto|].
  split; [right; rewrite getseq_new_buf_for, Nat.eqb_refl by auto; simpl; lia|].
  intros b o l Hb Hl _. rewrite rows_of_new_buf_for_old by auto. auto.
Qed.

(* ---------------------------------------------------------------- _resize_data_to *)
Lemma resize_to_spec st i n rpb force :
  wf st -> i < length (seqs st) -> is_view (getseq st i) = false ->
  cend 0 (offs (getseq st i)) (lens (getseq st i)) <= n ->
  match scache (getseq st i) with Some c => c_next c <= n | None => True end ->
  (1 <= rpb)%Z ->
  let st' := resize_to st i n rpb force in
  wf st' /\ frame st st' i n /\ same_fields (getseq st i) (getseq st' i) /\
  rows_of st' (sbuf (getseq st' i)) = ztake (ext_rows n rpb) (rows_of st (sbuf (getseq st i))) /\
  cap (getbuf (heap st') (sbuf (getseq st' i))) = ext_rows n rpb.
Proof.
  intros W Hi Hv Hn Hc Hr. simpl.
  set (s := getseq st i) in *. set (b := getbuf (heap st) (sbuf s)).
  pose proof (ext_rows_ge n rpb Hr) as HE.
  destruct (wf_chain st i W Hi Hv) as (C1 & C2). fold s in C1, C2.
  destruct (wf_seq _ W i Hi) as (S1 & S2 & S3). fold s in S1, S2, S3.
  pose proof (wf_heap _ W _ S1) as HH. unfold rows_of in HH. fold b in HH.
  assert (RB : rows_of st (sbuf s) = rows b) by reflexivity.
  assert (MV : forall x, (Z.of_nat (length (rows x)) <= cap x)%Z ->
             cend 0 (offs s) (lens s) <= length (rows x) ->
             match scache s with Some c => c_next c <= length (rows x) | None => True end ->
             wf (new_buf_for st i x)).
  { intros x X1 X2 X3. unfold new_buf_for. apply wf_move_fresh; simpl; auto.
    fold s. destruct (scache s) as [c|] eqn:Ec; auto.
    destruct S3 as (A1 & A2 & A3 & A4 & A5 & A6). unfold cache_ok; simpl. repeat split; auto. }
  assert (NF : forall x, same_fields s (getseq (new_buf_for st i x) i)).
  { intros. rewrite getseq_new_buf_for, Nat.eqb_refl by auto. unfold same_fields; simpl. fold s. auto 10. }
  assert (NB : forall x, sbuf (getseq (new_buf_for st i x) i) = length (heap st)).
  { intros. rewrite getseq_new_buf_for, Nat.eqb_refl by auto. reflexivity. }
  unfold resize_to. fold s. fold b.
  destruct (Z.eqb_spec (cap b) 0) as [E0|N0].
  - (* np.empty *)
    assert (RN : rows b = []) by (destruct (rows b); auto; simpl in HH; lia).
    split; [apply MV; simpl; try lia; [rewrite RB, RN in C2; exact C2|]|].
    { destruct (scache s); auto. destruct S3 as (_ & _ & _ & _ & A5 & _). rewrite RB, RN in A5. exact A5. }
    split; [apply frame_new_buf_for; auto|split; [apply NF|]].
    rewrite NB. rewrite rows_of_new_buf_for. unfold new_buf_for; simpl. rewrite getbuf_app_new. simpl.
    rewrite RB, RN. unfold ztake. simpl. destruct (0 <=? ext_rows n rpb)%Z; rewrite ?firstn_nil; auto.
  - destruct (Z.eqb_spec (ext_rows n rpb) (cap b)) as [EE|NE].
    + (* same size *)
      split; [auto|split; [apply frame_refl|split; [apply same_fields_refl|]]].
      fold s. fold b. split; [|auto]. rewrite RB. unfold ztake.
      destruct (Z.leb_spec (Z.of_nat (length (rows b))) (ext_rows n rpb)); auto. lia.
    + assert (ZL : length (ztake (ext_rows n rpb) (rows b)) = Nat.min (length (rows b)) (Z.to_nat (ext_rows n rpb))).
      { apply ztake_length. lia. }
      destruct ((1 <? refcount (seqs st) (sbuf s)) || force).
      * (* copy, then resize *)
        split; [apply MV; simpl; rewrite ?ZL; try lia|].
        { rewrite RB in C2. lia. }
        { destruct (scache s); auto. destruct S3 as (_ & _ & _ & _ & A5 & _). rewrite RB in A5. lia. }
        split; [apply frame_new_buf_for; auto|split; [apply NF|]].
        rewrite NB. rewrite rows_of_new_buf_for. unfold new_buf_for; simpl. rewrite getbuf_app_new. simpl.
        rewrite RB. auto.
      * (* in place *)
        assert (GS : forall k, getseq (set_buf st (sbuf s) (mkBuf (ext_rows n rpb) (ztake (ext_rows n rpb) (rows b)))) k = getseq st k)
          by reflexivity.
        split; [apply wf_set_buf_owner; simpl; rewrite ?ZL; auto; try lia|].
        { rewrite RB in C2. fold s. lia. }
        { fold s. destruct (scache s); auto. destruct S3 as (_ & _ & _ & _ & A5 & _). rewrite RB in A5. lia. }
        split; [|split; [rewrite GS; apply same_fields_refl|]].
        -- unfold frame. rewrite !GS. split; [reflexivity|]. split; [unfold set_buf; simpl; rewrite upd_length; lia|].
           split; [auto|split; [auto|]].
           intros b' o l Hb' Hl Hbound. rewrite rows_of_set_buf by auto.
           destruct (Nat.eqb_spec b' (sbuf s)) as [->|Hne]; [|auto].
           simpl. specialize (Hbound eq_refl). rewrite RB in Hl. split; [rewrite ZL; lia|].
           rewrite RB. apply slice_ztake. lia.
        -- rewrite GS. fold s. rewrite rows_of_set_buf, Nat.eqb_refl by auto. simpl.
           unfold set_buf, getbuf; simpl. rewrite nth_upd_same by auto. simpl. rewrite RB. auto.
Qed.

Lemma chain_prefix lo (a b eo el : list nat) : length a = length b -> chain lo (a ++ eo) (b ++ el) ->
  chain lo a b /\ cend lo a b <= cend lo (a ++ eo) (b ++ el).
Proof.
  revert lo b; induction a as [|x a IH]; destruct b as [|y b]; simpl; intros HL H; try discriminate.
  - split; auto. apply (chain_cend_ge _ _ _ H).
  - destruct H as (H1 & H2 & H3). destruct (IH (x + y) b ltac:(lia) H3). auto.
Qed.

(* a write into the buffer sequence i is on, at or above K *)
Lemma write_frame st i K o e : wf st -> i < length (seqs st) -> K <= o ->
  (Z.of_nat (o + length e) <= cap (getbuf (heap st) (sbuf (getseq st i))))%Z ->
  let b := getbuf (heap st) (sbuf (getseq st i)) in
  let st' := set_buf st (sbuf (getseq st i)) (mkBuf (cap b) (write o e (rows b))) in
  wf st' /\ frame st st' i K.
Proof.
  intros W Hi HK Hcap b st'.
  assert (Hb : sbuf (getseq st i) < length (heap st)) by apply (wf_seq _ W i Hi).
  pose proof (wf_heap _ W _ Hb) as HH. unfold rows_of in HH. fold b in HH. fold b in Hcap.
  split.
  - apply wf_set_buf_ge; auto; simpl; rewrite write_length; fold b; [lia|unfold rows_of; fold b; lia].
  - unfold frame. split; [reflexivity|split; [unfold st', set_buf; simpl; rewrite upd_length; lia|]].
    split; [auto|split; [auto|]].
    intros b' o' l' Hb' Hl Hbound. unfold st'. rewrite rows_of_set_buf by auto.
    destruct (Nat.eqb_spec b' (sbuf (getseq st i))) as [->|Hne]; [|auto].
    specialize (Hbound eq_refl). simpl. unfold rows_of in Hl. fold b in Hl.
    split; [rewrite write_length; lia|]. unfold rows_of. fold b. apply slice_write_below; lia.
Qed.

Lemma append_core_spec st i e c :
  wf st -> i < length (seqs st) -> is_view (getseq st i) = false ->
  cache_ok (length (rows_of st (sbuf (getseq st i)))) (getseq st i) c ->
  (scache (getseq st i) = None \/ scache (getseq st i) = Some c) ->
  e <> [] ->
  wf (fst (append_core st i e c)) /\
  frame st (fst (append_core st i e c)) i (c_next c) /\
  same_fields (getseq st i) (getseq (fst (append_core st i e c)) i) /\
  cache_ok (length (rows_of (fst (append_core st i e c)) (sbuf (getseq (fst (append_core st i e c)) i))))
           (getseq (fst (append_core st i e c)) i) (snd (append_core st i e c)) /\
  snd (append_core st i e c) =
    mkCache (c_offs c ++ [c_next c]) (c_lens c ++ [length e]) (c_next c + length e) (c_rpb c) /\
  (forall o l, o + l <= c_next c ->
     slice o l (rows_of (fst (append_core st i e c)) (sbuf (getseq (fst (append_core st i e c)) i)))
     = slice o l (rows_of st (sbuf (getseq st i)))) /\
  slice (c_next c) (length e)
        (rows_of (fst (append_core st i e c)) (sbuf (getseq (fst (append_core st i e c)) i))) = e.
Proof.
  intros W Hi Hv CO Hst He.
  destruct CO as (A1 & (eo & el & A2a & A2b) & A3 & A4 & A5 & A6).
  destruct (wf_seq _ W i Hi) as (S1 & S2 & S3).
  assert (PF : cend 0 (offs (getseq st i)) (lens (getseq st i)) <= c_next c).
  { rewrite A4, A2a, A2b. apply chain_prefix; auto. rewrite <- A2a, <- A2b. exact A3. }
  unfold append_core. simpl fst. simpl snd.
  set (req := c_next c + length e).
  set (st1 := if (cap (getbuf (heap st) (sbuf (getseq st i))) <? Z.of_nat req)%Z
              then resize_to st i req (c_rpb c) false else st).
  assert (P1 : wf st1 /\ frame st st1 i (c_next c) /\ same_fields (getseq st i) (getseq st1 i) /\
               (Z.of_nat req <= cap (getbuf (heap st1) (sbuf (getseq st1 i))))%Z /\
               c_next c <= length (rows_of st1 (sbuf (getseq st1 i))) /\
               (forall o l, o + l <= c_next c ->
                  slice o l (rows_of st1 (sbuf (getseq st1 i))) = slice o l (rows_of st (sbuf (getseq st i))))).
  { unfold st1. destruct (Z.ltb_spec (cap (getbuf (heap st) (sbuf (getseq st i)))) (Z.of_nat req)).
    - destruct (resize_to_spec st i req (c_rpb c) false W Hi Hv) as (R1 & R2 & R3 & R4 & R5); auto.
      + unfold req; lia.
      + destruct Hst as [->| ->]; auto. unfold req; lia.
      + pose proof (ext_rows_ge req (c_rpb c) A6) as HE.
        split; [auto|split; [|split; [auto|split; [rewrite R5; auto|split]]]].
        * apply (frame_weaken _ _ _ _ _ R2). unfold req. lia.
        * assert (Hreq : req = c_next c + length e) by reflexivity.
          rewrite R4, ztake_length by lia. lia.
        * assert (Hreq : req = c_next c + length e) by reflexivity.
          intros o l Hol. rewrite R4. apply slice_ztake. lia.
    - split; [auto|split; [apply frame_refl|split; [apply same_fields_refl|split; [lia|split; auto]]]]. }
  destruct P1 as (W1 & F1 & SF1 & Cap1 & Len1 & Sl1).
  assert (Hi1 : i < length (seqs st1)) by (destruct F1 as (F & _); lia).
  destruct (write_frame st1 i (c_next c) (c_next c) e W1 Hi1 (le_n _)) as (W2 & F2); [exact Cap1|].
  set (b1 := getbuf (heap st1) (sbuf (getseq st1 i))) in *.
  set (st2 := set_buf st1 (sbuf (getseq st1 i)) (mkBuf (cap b1) (write (c_next c) e (rows b1)))) in *.
  assert (G2 : getseq st2 i = getseq st1 i) by reflexivity.
  assert (Hb1 : sbuf (getseq st1 i) < length (heap st1)) by apply (wf_seq _ W1 i Hi1).
  assert (R2 : rows_of st2 (sbuf (getseq st2 i)) = write (c_next c) e (rows b1)).
  { rewrite G2. unfold st2. rewrite rows_of_set_buf, Nat.eqb_refl by auto. reflexivity. }
  split; [exact W2|split; [apply (frame_trans _ _ _ _ _ _ F1 F2); lia|]].
  split; [rewrite G2; exact SF1|].
  destruct SF1 as (E1 & E2 & E3 & E4 & E5 & E6).
  split; [|split; [reflexivity|split]].
  - rewrite R2, G2. unfold cache_ok; simpl. rewrite E1, E2, E3.
    split; [auto|split; [exists (eo ++ [c_next c]), (el ++ [length e]); rewrite A2a, A2b, <- !app_assoc; auto|]].
    assert (HL : length (c_offs c) = length (c_lens c)) by apply (chain_length _ _ _ A3).
    split; [apply chain_app; auto; [lia|destruct e; simpl; [congruence|lia]]|].
    split; [rewrite cend_app by auto; reflexivity|].
    split; [rewrite write_length; unfold req; lia|auto].
  - intros o l Hol. rewrite R2. rewrite slice_write_below; [apply Sl1; auto|lia|unfold rows_of in Len1; fold b1 in Len1; lia].
  - rewrite R2. apply slice_write_same.
Qed.

(* ---------------------------------------------------------------- more frames *)
Lemma frame_trans_moved st st1 st2 i K K1 : frame st st1 i K ->
  length (heap st) <= sbuf (getseq st1 i) -> frame st1 st2 i K1 -> frame st st2 i K.
Proof.
  intros (A1 & A2 & A3 & A4 & A5) Hm (B1 & B2 & B3 & B4 & B5).
  unfold frame. split; [lia|split; [lia|split; [|split]]].
  - intros k Hk. rewrite B3, A3; auto.
  - right. destruct B4 as [B4|B4]; [rewrite B4; auto|lia].
  - intros b o l Hb Hl Hbound.
    destruct (A5 b o l Hb Hl Hbound) as (L1 & S1).
    destruct (B5 b o l ltac:(lia) L1) as (L2 & S2); [intros E; lia|].
    split; [auto|congruence].
Qed.

Lemma frame_set_seq st i s' K : i < length (seqs st) -> sbuf s' = sbuf (getseq st i) ->
  frame st (set_seq st i s') i K.
Proof.
  intros Hi Hb. unfold frame. split; [apply seqs_len_set_seq|split; [simpl; lia|]].
  split; [intros k Hk; rewrite getseq_set_seq by auto; apply Nat.eqb_neq in Hk; rewrite Hk; auto|].
  split; [left; rewrite getseq_set_seq, Nat.eqb_refl by auto; auto|].
  intros b o l _ Hl _. split; auto.
Qed.

Lemma elems_of_ext r r' os ls :
  (forall o l, In (o, l) (combine os ls) -> slice o l r' = slice o l r) ->
  elems_of r' os ls = elems_of r os ls.
Proof. intros H. unfold elems_of. apply map_ext_in. intros (o, l) Hin. simpl. apply H; auto. Qed.

Lemma combine_app' {A B} (a a' : list A) (b b' : list B) : length a = length b ->
  combine (a ++ a') (b ++ b') = combine a b ++ combine a' b'.
Proof. revert b; induction a; destruct b; simpl; intros; try discriminate; auto. f_equal. apply IHa. lia. Qed.

Lemma elems_of_app r os ls o l : length os = length ls ->
  elems_of r (os ++ [o]) (ls ++ [l]) = elems_of r os ls ++ [slice o l r].
Proof.
  intros. unfold elems_of. rewrite combine_app' by auto. rewrite map_app. reflexivity.
Qed.

(* ---------------------------------------------------------------- detach *)
Lemma detach_spec st i : wf st -> i < length (seqs st) ->
  let st1 := detach st i in
  wf st1 /\ (forall K, frame st st1 i K) /\ is_view (getseq st1 i) = false /\
  contents st1 (getseq st1 i) = contents st (getseq st i) /\
  scache (getseq st1 i) = scache (getseq st i) /\ bufbytes (getseq st1 i) = bufbytes (getseq st i) /\
  live (getseq st1 i) = live (getseq st i) /\
  (is_view (getseq st i) = false -> st1 = st) /\
  (is_view (getseq st i) = true -> sbuf (getseq st1 i) = length (heap st)).
Proof.
  intros W Hi. simpl. split; [apply wf_detach; auto|].
  unfold detach. destruct (is_view (getseq st i)) eqn:Ev.
  - set (s := getseq st i) in *.
    set (st1 := mkSt _ _).
    assert (G : getseq st1 i = mkSeq (length (heap st)) (cum_from 0 (lens s)) (lens s) false (bufbytes s) (scache s) (live s)).
    { unfold getseq, st1; simpl. apply nth_upd_same; auto. }
    split.
    { intros K. unfold frame. split; [unfold st1; simpl; apply upd_length|].
      split; [unfold st1; simpl; rewrite app_length; lia|].
      split; [intros k Hk; unfold getseq, st1; simpl; apply nth_upd_other; auto|].
      split; [right; rewrite G; simpl; lia|].
      intros b o l Hb Hl _. unfold rows_of, st1; simpl. rewrite getbuf_app_old by auto. auto. }
    rewrite G; simpl. split; [auto|split; [|repeat split; auto; discriminate]].
    unfold contents at 1. simpl. unfold st1; simpl. rewrite getbuf_app_new. simpl.
    pose proof (contents_lengths st i W Hi) as CL. fold s in CL.
    rewrite <- CL at 1 2.
    pose proof (elems_of_compact (contents st s) [] []) as EC. simpl in EC. rewrite app_nil_r in EC. exact EC.
  - split; [intros; apply frame_refl|]. rewrite Ev. split; [auto|split; [auto|split; [auto|split; [auto|split; [auto|split; [auto|discriminate]]]]]].
Qed.

(* ---------------------------------------------------------------- append *)
Definition full_offs (s : seq) := match scache s with Some c => c_offs c | None => offs s end.
Definition full_lens (s : seq) := match scache s with Some c => c_lens c | None => lens s end.
(* visible elements followed by the elements of a pending cached build *)
Definition full (st : state) (s : seq) := elems_of (rows_of st (sbuf s)) (full_offs s) (full_lens s).
Definition frontier (s : seq) := cend 0 (full_offs s) (full_lens s).

Lemma getseq_set_cache st i c : i < length (seqs st) ->
  getseq (set_cache st i c) i =
  let s := getseq st i in mkSeq (sbuf s) (offs s) (lens s) (is_view s) (bufbytes s) c (live s).
Proof. intros. unfold set_cache. rewrite getseq_set_seq, Nat.eqb_refl by auto. reflexivity. Qed.

Lemma wf_set_cache st i co : wf st -> i < length (seqs st) ->
  match co with None => True
           | Some c => cache_ok (length (rows_of st (sbuf (getseq st i)))) (getseq st i) c end ->
  wf (set_cache st i co).
Proof.
  intros W Hi Hc. unfold set_cache. apply wf_set_seq; simpl; auto.
  intros Hv. destruct (wf_chain st i W Hi Hv). exists [], []. rewrite !app_nil_r. auto.
Qed.

Lemma wf_update_seq st i c : wf st -> i < length (seqs st) ->
  cache_ok (length (rows_of st (sbuf (getseq st i)))) (getseq st i) c ->
  wf (update_seq st i c None).
Proof.
  intros W Hi (A1 & (eo & el & A2a & A2b) & A3 & A4 & A5 & A6).
  unfold update_seq. apply wf_set_seq; simpl; auto.
  - congruence.
  - intros _. exists eo, el. repeat split; auto. lia.
Qed.

Lemma do_append_spec st i bpr e cb : wf st -> i < length (seqs st) -> e <> [] ->
  let st' := do_append st i bpr e cb in
  wf st' /\
  (forall K, (is_view (getseq st i) = false -> K <= frontier (getseq st i)) -> frame st st' i K) /\
  is_view (getseq st' i) = false /\ bufbytes (getseq st' i) = bufbytes (getseq st i) /\
  live (getseq st' i) = live (getseq st i) /\
  full st' (getseq st' i) = full st (getseq st i) ++ [e] /\
  (scache (getseq st i) = None -> cb = false -> scache (getseq st' i) = None) /\
  (scache (getseq st i) <> None \/ cb = true ->
     scache (getseq st' i) <> None /\ contents st' (getseq st' i) = contents st (getseq st i)) /\
  (is_view (getseq st i) = false -> frontier (getseq st i) <= frontier (getseq st' i)) /\
  (is_view (getseq st i) = true -> length (heap st) <= sbuf (getseq st' i)).
Proof.
  intros W Hi He. simpl. unfold do_append.
  destruct e as [|z e']; [congruence|]. set (e := z :: e') in *.
  destruct (wf_seq _ W i Hi) as (S1 & S2 & S3).
  destruct (scache (getseq st i)) as [c|] eqn:Ec.
  - (* inside a cached build *)
    assert (Hv : is_view (getseq st i) = false) by (destruct S3; auto).
    pose proof (append_core_spec st i e c W Hi Hv S3 (or_intror Ec) He) as P.
    destruct (append_core st i e c) as [st1 c1]. cbn [fst snd] in P.
    destruct P as (W1 & F1 & SF1 & CO1 & EC1 & SL1 & SN1).
    assert (Hi1 : i < length (seqs st1)) by (destruct F1 as (F & _); lia).
    destruct SF1 as (E1 & E2 & E3 & E4 & E5 & E6).
    destruct S3 as (A1 & (eo & el & A2a & A2b) & A3 & A4 & A5 & A6).
    assert (HL : length (c_offs c) = length (c_lens c)) by apply (chain_length _ _ _ A3).
    split; [apply wf_set_cache; auto|].
    rewrite getseq_set_cache by auto. simpl.
    split; [|split; [congruence|split; [auto|split; [auto|]]]].
    { intros K HK. specialize (HK Hv). unfold frontier, full_offs, full_lens in HK. rewrite Ec in HK.
      eapply frame_trans with (K1 := K); [apply (frame_weaken _ _ _ _ _ F1); lia| |lia].
      apply frame_set_seq; auto. }
    assert (KEEP : forall o l, In (o, l) (combine (c_offs c) (c_lens c)) ->
                     slice o l (rows_of st1 (sbuf (getseq st1 i))) = slice o l (rows_of st (sbuf (getseq st i)))).
    { intros o l Hin. apply SL1. destruct (chain_in _ _ _ _ _ A3 Hin) as (_ & _ & ?). lia. }
    split; [|split; [intros; discriminate|split; [intros _; split; [discriminate|]|split; [|congruence]]]].
    + unfold full, full_offs, full_lens. cbn [scache sbuf]. rewrite Ec.
      change (rows_of (set_cache st1 i (Some c1)) (sbuf (getseq st1 i))) with (rows_of st1 (sbuf (getseq st1 i))).
      rewrite EC1. cbn [c_offs c_lens].
      rewrite elems_of_app by auto. rewrite SN1. f_equal. apply elems_of_ext. exact KEEP.
    + unfold contents. simpl.
      change (rows (getbuf (heap (set_cache st1 i (Some c1))) (sbuf (getseq st1 i)))) with (rows_of st1 (sbuf (getseq st1 i))).
      rewrite E1, E2. apply elems_of_ext. intros o l Hin. apply KEEP.
      rewrite A2a, A2b. apply incl_combine_app; auto.
    + intros _. unfold frontier, full_offs, full_lens. cbn [scache]. rewrite Ec, EC1. cbn [c_offs c_lens].
      rewrite cend_app by auto. lia.
  - (* a build cache is created: a view is detached first *)
    pose proof (wf_mk_cache st i bpr W Hi) as M.
    pose proof (detach_spec st i W Hi) as D. simpl in D.
    unfold mk_cache in *. set (st0 := detach st i) in *.
    set (c := mkCache _ _ _ _) in *.
    destruct M as (W0 & V0 & CO0 & CF0 & CL0).
    destruct D as (_ & F0 & _ & CT0 & SC0 & BB0 & LV0 & NV0 & VW0).
    assert (Hi0 : i < length (seqs st0)) by (unfold st0; rewrite seqs_len_detach; auto).
    rewrite Ec in SC0.
    pose proof (append_core_spec st0 i e c W0 Hi0 V0 CO0 (or_introl SC0) He) as P.
    destruct (append_core st0 i e c) as [st1 c1]. cbn [fst snd] in P.
    destruct P as (W1 & F1 & SF1 & CO1 & EC1 & SL1 & SN1).
    assert (Hi1 : i < length (seqs st1)) by (destruct F1 as (F & _); lia).
    destruct SF1 as (E1 & E2 & E3 & E4 & E5 & E6).
    destruct CO0 as (A1 & _ & A3 & A4 & A5 & A6).
    assert (HL : length (c_offs c) = length (c_lens c)) by apply (chain_length _ _ _ A3).
    assert (KEEP : forall o l, In (o, l) (combine (c_offs c) (c_lens c)) ->
                     slice o l (rows_of st1 (sbuf (getseq st1 i))) = slice o l (rows_of st0 (sbuf (getseq st0 i)))).
    { intros o l Hin. apply SL1. destruct (chain_in _ _ _ _ _ A3 Hin) as (_ & _ & ?). lia. }
    assert (FR : forall K, (is_view (getseq st i) = false -> K <= frontier (getseq st i)) -> frame st st1 i K).
    { intros K HK. destruct (is_view (getseq st i)) eqn:Ev.
      - eapply frame_trans_moved; [apply F0| |apply F1]. rewrite VW0; auto.
      - specialize (HK eq_refl). rewrite (NV0 eq_refl) in *.
        apply (frame_weaken _ _ _ _ _ F1).
        unfold frontier, full_offs, full_lens in HK. rewrite Ec in HK. rewrite A4, CF0, CL0. exact HK. }
    assert (FULL : elems_of (rows_of st1 (sbuf (getseq st1 i))) (c_offs c1) (c_lens c1)
                   = full st (getseq st i) ++ [e]).
    { rewrite EC1. cbn [c_offs c_lens]. rewrite elems_of_app by auto. rewrite SN1. f_equal.
      unfold full, full_offs, full_lens. rewrite Ec.
      rewrite (elems_of_ext _ _ _ _ KEEP). rewrite CF0, CL0. exact CT0. }
    assert (M1 : is_view (getseq st i) = false -> frontier (getseq st i) <= cend 0 (c_offs c1) (c_lens c1)).
    { intros Ev. rewrite (NV0 Ev) in *. unfold frontier, full_offs, full_lens. rewrite Ec.
      rewrite EC1. cbn [c_offs c_lens]. rewrite cend_app by auto. rewrite <- CF0, <- CL0, <- A4. lia. }
    assert (M2 : is_view (getseq st i) = true -> length (heap st) <= sbuf (getseq st1 i)).
    { intros Ev. destruct F1 as (_ & F12 & _ & [F14|F14] & _).
      - rewrite F14, (VW0 Ev). lia.
      - destruct (F0 0) as (_ & F02 & _). lia. }
    destruct cb.
    + split; [apply wf_set_cache; auto|].
      rewrite getseq_set_cache by auto. simpl.
      split; [|split; [congruence|split; [congruence|split; [congruence|]]]].
      { intros K HK. eapply frame_trans with (K1 := K); [apply FR; auto|apply frame_set_seq; auto|lia]. }
      split; [|split; [intros; discriminate|split; [intros _; split; [discriminate|]|split; [exact M1|exact M2]]]].
      * unfold full at 1, full_offs, full_lens. simpl. exact FULL.
      * unfold contents at 1. simpl.
        change (rows (getbuf (heap (set_cache st1 i (Some c1))) (sbuf (getseq st1 i)))) with (rows_of st1 (sbuf (getseq st1 i))).
        rewrite E1, E2, <- CT0. unfold contents. rewrite <- CF0, <- CL0. apply elems_of_ext. exact KEEP.
    + split; [apply wf_update_seq; auto|].
      unfold update_seq. rewrite getseq_set_seq, Nat.eqb_refl by auto. simpl.
      split; [|split; [congruence|split; [congruence|split; [congruence|]]]].
      { intros K HK. eapply frame_trans with (K1 := K); [apply FR; auto|apply frame_set_seq; auto|lia]. }
      split; [|split; [auto|split; [intros [X|X]; congruence|split; [exact M1|exact M2]]]].
      unfold full at 1, full_offs, full_lens. simpl. exact FULL.
Qed.

(* ---------------------------------------------------------------- finalize_append *)
Lemma full_no_cache st s : scache s = None -> full st s = contents st s.
Proof. intros H. unfold full, full_offs, full_lens, contents, rows_of. rewrite H. reflexivity. Qed.

Lemma finalize_spec st i : wf st -> i < length (seqs st) ->
  let st' := finalize st i in
  wf st' /\
  (forall K, (is_view (getseq st i) = false -> K <= frontier (getseq st i)) -> frame st st' i K) /\
  scache (getseq st' i) = None /\ contents st' (getseq st' i) = full st (getseq st i) /\
  is_view (getseq st' i) = is_view (getseq st i) /\ bufbytes (getseq st' i) = bufbytes (getseq st i) /\
  live (getseq st' i) = live (getseq st i) /\
  (sbuf (getseq st' i) = sbuf (getseq st i)).
Proof.
  intros W Hi. simpl. unfold finalize.
  destruct (scache (getseq st i)) as [c|] eqn:Ec.
  - destruct (wf_seq _ W i Hi) as (S1 & S2 & S3). rewrite Ec in S3.
    pose proof (wf_update_seq st i c W Hi S3) as W1.
    destruct S3 as (A1 & (eo & el & A2a & A2b) & A3 & A4 & A5 & A6).
    set (st1 := update_seq st i c None) in *.
    assert (G1 : getseq st1 i = mkSeq (sbuf (getseq st i)) (c_offs c) (c_lens c) (is_view (getseq st i))
                                     (bufbytes (getseq st i)) None (live (getseq st i))).
    { unfold st1, update_seq. rewrite getseq_set_seq, Nat.eqb_refl by auto. reflexivity. }
    assert (Hi1 : i < length (seqs st1)) by (unfold st1, update_seq; rewrite seqs_len_set_seq; auto).
    assert (NO : next_offset (c_offs c) (c_lens c) = c_next c) by (rewrite A4; apply (next_offset_chain 0); auto).
    unfold shrink. rewrite G1. cbn [sbuf offs lens is_view]. rewrite A1, NO.
    change (getbuf (heap st1) (sbuf (getseq st i))) with (getbuf (heap st) (sbuf (getseq st i))).
    set (x := mkBuf (Z.of_nat (c_next c)) (firstn (c_next c) (rows (getbuf (heap st) (sbuf (getseq st i)))))).
    assert (LX : length (rows x) = c_next c).
    { unfold x; simpl. rewrite firstn_length. unfold rows_of in A5. lia. }
    assert (W2 : wf (set_buf st1 (sbuf (getseq st i)) x)).
    { replace (sbuf (getseq st i)) with (sbuf (getseq st1 i)) by (rewrite G1; reflexivity).
      apply wf_set_buf_owner; auto.
      - rewrite G1; auto.
      - rewrite LX. unfold x; simpl; lia.
      - rewrite G1; cbn [offs lens]. rewrite LX. lia.
      - rewrite G1; cbn [scache]. exact I. }
    split; [exact W2|].
    assert (G2 : getseq (set_buf st1 (sbuf (getseq st i)) x) i = getseq st1 i) by reflexivity.
    rewrite G2, G1. cbn [scache is_view bufbytes live sbuf offs lens].
    split; [|split; [auto|split; [|auto]]].
    + intros K HK. specialize (HK eq_refl). unfold frontier, full_offs, full_lens in HK. rewrite Ec in HK.
      unfold frame. rewrite G2, G1. cbn [sbuf].
      split; [unfold set_buf; simpl; apply upd_length|split; [unfold set_buf, st1; simpl; rewrite upd_length; lia|]].
      split; [intros k Hk; change (getseq (set_buf st1 (sbuf (getseq st i)) x) k) with (getseq st1 k);
              unfold st1, update_seq; rewrite getseq_set_seq by auto; apply Nat.eqb_neq in Hk; rewrite Hk; auto|].
      split; [auto|].
      intros b o l Hb Hl Hbound. rewrite rows_of_set_buf by auto.
      destruct (Nat.eqb_spec b (sbuf (getseq st i))) as [->|Hne]; [|auto].
      specialize (Hbound eq_refl). rewrite LX. split; [lia|].
      unfold x; simpl. apply slice_firstn. lia.
    + unfold contents, full, full_offs, full_lens. rewrite Ec. cbn [sbuf offs lens].
      unfold set_buf, getbuf; simpl. rewrite nth_upd_same by auto. simpl.
      apply elems_of_ext. intros o l Hin. apply slice_firstn.
      destruct (chain_in _ _ _ _ _ A3 Hin) as (_ & _ & ?). lia.
  - split; [auto|split; [intros; apply frame_refl|]]. rewrite full_no_cache by auto. auto 10.
Qed.

(* ---------------------------------------------------------------- a run of cached appends *)
Lemma do_append_nil st i bpr cb : do_append st i bpr [] cb = st.
Proof. reflexivity. Qed.

Lemma fold_append_spec bpr i els : forall st, wf st -> i < length (seqs st) ->
  let st' := fold_left (fun s e => do_append s i bpr e true) els st in
  wf st' /\
  (forall K, (is_view (getseq st i) = false -> K <= frontier (getseq st i)) -> frame st st' i K) /\
  full st' (getseq st' i) = fold_left spec_append els (full st (getseq st i)) /\
  bufbytes (getseq st' i) = bufbytes (getseq st i) /\ live (getseq st' i) = live (getseq st i) /\
  (is_view (getseq st i) = false ->
     is_view (getseq st' i) = false /\ frontier (getseq st i) <= frontier (getseq st' i)) /\
  (is_view (getseq st i) = true ->
     st' = st \/ (is_view (getseq st' i) = false /\ length (heap st) <= sbuf (getseq st' i))).
Proof.
  induction els as [|e els IH]; intros st W Hi; simpl.
  - split; [auto|split; [intros; apply frame_refl|]]. auto 10.
  - destruct e as [|z e'].
    + rewrite do_append_nil. apply IH; auto.
    + set (e := z :: e') in *.
      destruct (do_append_spec st i bpr e true W Hi ltac:(discriminate)) as (W1 & F1 & V1 & B1 & L1 & FU1 & _ & _ & M1 & M2).
      set (st1 := do_append st i bpr e true) in *.
      assert (Hi1 : i < length (seqs st1)) by (unfold st1; rewrite seqs_len_do_append; auto).
      destruct (IH st1 W1 Hi1) as (W2 & F2 & FU2 & B2 & L2 & N2 & _). simpl in *.
      destruct (N2 V1) as (V2 & FR2).
      split; [auto|split; [|split; [rewrite FU2, FU1; reflexivity|split; [congruence|split; [congruence|split]]]]].
      * intros K HK. destruct (is_view (getseq st i)) eqn:Ev.
        -- eapply frame_trans_moved; [apply F1; discriminate|apply M2; auto|apply (F2 0); lia].
        -- specialize (HK eq_refl). specialize (M1 eq_refl).
           eapply frame_trans with (K1 := K); [apply F1; auto|apply F2; lia|lia].
      * intros Ev. specialize (M1 Ev). split; [auto|lia].
      * intros Ev. right. split; [auto|]. specialize (M2 Ev).
        destruct (F2 0 ltac:(lia)) as (_ & F22 & _ & [F24|F24] & _); [rewrite F24; auto|].
        destruct (F1 0 ltac:(intros; congruence)) as (_ & F12 & _). lia.
Qed.

(* ---------------------------------------------------------------- extend *)
Definition vis_end (s : seq) := cend 0 (offs s) (lens s).

Lemma vis_end_le_frontier st i : wf st -> i < length (seqs st) -> is_view (getseq st i) = false ->
  vis_end (getseq st i) <= frontier (getseq st i).
Proof.
  intros W Hi Hv. unfold vis_end, frontier, full_offs, full_lens.
  destruct (wf_seq _ W i Hi) as (S1 & S2 & S3).
  destruct (scache (getseq st i)) as [c|]; [|lia].
  destruct S3 as (A1 & (eo & el & A2a & A2b) & A3 & _).
  rewrite A2a, A2b. apply chain_prefix; auto. rewrite <- A2a, <- A2b. exact A3.
Qed.

Lemma extend_gen_spec st i bpr pre els force extra : wf st -> i < length (seqs st) ->
  let st' := extend_gen st i bpr pre els force extra in
  wf st' /\
  (forall K, (is_view (getseq st i) = false -> K <= vis_end (getseq st i)) -> frame st st' i K) /\
  contents st' (getseq st' i) =
    spec_extend (if pre then contents st (getseq st i) else full st (getseq st i)) els /\
  bufbytes (getseq st' i) = bufbytes (getseq st i) /\ live (getseq st' i) = live (getseq st i).
Proof.
  intros W Hi. cbv zeta. unfold extend_gen.
  destruct pre; cbn [andb].
  - destruct (match els with [] => true | _ :: _ => false end) eqn:Em.
    { destruct els; [|discriminate]. split; [auto|split; [intros; apply frame_refl|auto]]. }
    clear Em.
    pose proof (wf_mk_cache st i bpr W Hi) as M.
    pose proof (detach_spec st i W Hi) as D. simpl in D.
    unfold mk_cache in *. set (sa := detach st i) in *. set (c := mkCache _ _ _ _) in *.
    destruct M as (Wa & Va & COa & CF & CL).
    destruct D as (_ & F0 & _ & CT0 & SC0 & BB0 & LV0 & NV0 & VW0).
    assert (Hia : i < length (seqs sa)) by (unfold sa; rewrite seqs_len_detach; auto).
    pose proof (wf_set_cache sa i (Some c) Wa Hia COa) as Wb.
    set (sb := set_cache sa i (Some c)) in *.
    assert (Hib : i < length (seqs sb)) by (unfold sb; rewrite seqs_len_set_cache; auto).
    assert (Gb : getseq sb i = mkSeq (sbuf (getseq sa i)) (offs (getseq sa i)) (lens (getseq sa i))
                  (is_view (getseq sa i)) (bufbytes (getseq sa i)) (Some c) (live (getseq sa i))).
    { unfold sb. rewrite getseq_set_cache by auto. reflexivity. }
    destruct (wf_chain sa i Wa Hia Va) as (Ca1 & Ca2).
    destruct COa as (A1 & _ & A3 & A4 & A5 & A6).
    assert (NO : next_offset (offs (getseq sb i)) (lens (getseq sb i)) = vis_end (getseq sa i)).
    { rewrite Gb. cbn [offs lens]. apply (next_offset_chain 0); auto. }
    rewrite NO. set (n := vis_end (getseq sa i) + sum (map (@length Z) els) + extra).
    assert (CN : c_next c = vis_end (getseq sa i)).
    { rewrite A4, CF, CL. reflexivity. }
    assert (P1 : is_view (getseq sb i) = false) by (rewrite Gb; auto).
    assert (P2 : cend 0 (offs (getseq sb i)) (lens (getseq sb i)) <= n)
      by (rewrite Gb; cbn [offs lens]; unfold n, vis_end; lia).
    assert (P3 : match scache (getseq sb i) with Some c0 => c_next c0 <= n | None => True end)
      by (rewrite Gb; cbn [scache]; rewrite CN; unfold n; lia).
    destruct (resize_to_spec sb i n (c_rpb c) force Wb Hib P1 P2 P3 A6) as (W1 & F1 & SF1 & R4 & R5).
    set (st1 := resize_to sb i n (c_rpb c) force) in *.
    assert (Hi1 : i < length (seqs st1)) by (destruct F1 as (F & _); lia).
    destruct SF1 as (E1 & E2 & E3 & E4 & E5 & E6). rewrite Gb in E1, E2, E3, E4, E5, E6.
    cbn [offs lens is_view bufbytes scache live] in E1, E2, E3, E4, E5, E6.
    pose proof (ext_rows_ge n (c_rpb c) A6) as HE.
    assert (FU1 : full st1 (getseq st1 i) = contents st (getseq st i)).
    { unfold full, full_offs, full_lens. rewrite E5, R4, <- CT0, CF, CL. unfold contents.
      apply elems_of_ext. intros o l Hin. rewrite Gb. cbn [sbuf]. apply slice_ztake.
      destruct (chain_in _ _ _ _ _ Ca1 Hin) as (_ & _ & ?).
      assert (vis_end (getseq sa i) <= n) by (unfold n; lia). unfold vis_end in *. lia. }
    assert (FR1 : frontier (getseq st1 i) = vis_end (getseq sa i)).
    { unfold frontier, full_offs, full_lens. rewrite E5, <- A4. exact CN. }
    destruct (fold_append_spec bpr i els st1 W1 Hi1) as (W2 & F2 & FU2 & B2 & L2 & N2 & _).
    set (st2 := fold_left _ els st1) in *.
    rewrite Va in E3. destruct (N2 E3) as (V2 & FR2).
    assert (Hi2 : i < length (seqs st2)) by (unfold st2; rewrite seqs_len_fold_append; auto).
    destruct (finalize_spec st2 i W2 Hi2) as (W3 & F3 & SC3 & CT3 & V3 & B3 & L3 & SB3).
    split; [exact W3|].
    assert (FA : forall K, K <= vis_end (getseq sa i) -> frame sa (finalize st2 i) i K).
    { intros K HK.
      eapply frame_trans with (K1 := K); [|apply F3; intros; lia|lia].
      eapply frame_trans with (K1 := K); [|apply F2; intros; lia|lia].
      apply (frame_trans sa sb st1 i K K); [unfold sb, set_cache; apply frame_set_seq; auto| |lia].
      apply (frame_weaken _ _ _ _ _ F1). unfold n; lia. }
    split; [|split; [rewrite CT3, FU2, FU1; reflexivity|split; congruence]].
    intros K HK. destruct (is_view (getseq st i)) eqn:Ev.
    + eapply frame_trans_moved; [apply (F0 K)|rewrite VW0; auto|apply (FA 0); lia].
    + rewrite (NV0 eq_refl) in *. apply FA. apply HK; auto.
  - destruct (fold_append_spec bpr i els st W Hi) as (W2 & F2 & FU2 & B2 & L2 & N2 & M2).
    set (st2 := fold_left _ els st) in *.
    assert (Hi2 : i < length (seqs st2)) by (unfold st2; rewrite seqs_len_fold_append; auto).
    destruct (finalize_spec st2 i W2 Hi2) as (W3 & F3 & SC3 & CT3 & V3 & B3 & L3 & SB3).
    split; [exact W3|split; [|split; [rewrite CT3, FU2; reflexivity|split; congruence]]].
    intros K HK. destruct (is_view (getseq st i)) eqn:Ev.
    + destruct (M2 eq_refl) as [EQ|(V2 & MV)].
      * rewrite EQ in *. apply F3. rewrite Ev. discriminate.
      * eapply frame_trans_moved; [apply F2; discriminate|exact MV|apply (F3 0); lia].
    + destruct (N2 eq_refl) as (V2 & FR2). specialize (HK eq_refl).
      pose proof (vis_end_le_frontier st i W Hi Ev).
      eapply frame_trans with (K1 := K); [apply F2; intros; lia|apply F3; intros; lia|lia].
Qed.

Lemma extend_spec st i bpr pre els force : wf st -> i < length (seqs st) ->
  let st' := extend st i bpr pre els force in
  wf st' /\
  (forall K, (is_view (getseq st i) = false -> K <= vis_end (getseq st i)) -> frame st st' i K) /\
  contents st' (getseq st' i) =
    spec_extend (if pre then contents st (getseq st i) else full st (getseq st i)) els /\
  bufbytes (getseq st' i) = bufbytes (getseq st i) /\ live (getseq st' i) = live (getseq st i).
Proof. intros W Hi. apply (extend_gen_spec st i bpr pre els force 0 W Hi). Qed.
